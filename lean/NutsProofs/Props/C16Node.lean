/-
  C16 (deepening round 2026-09-28) — the NODE layer: definition loading, request routing, the one store with all
  lists, the REST status codes; refinement to the single-list model of `Props/C16.lean` and the end-to-end
  corollaries (configured directory + request -> decision -> every list of the node).
-/
import NutsModel.C16.Node
import NutsModel.C16.Spec
import NutsModel.Facts.C16
import NutsProofs.Lemmas.C16
import NutsProofs.Lemmas.C16Node
import NutsProofs.Props.C16

namespace Nuts.C16.Props
open Nuts Nuts.C16

/-! ### regenerated facts the node model relies on -/

/-- `Wrapper.ResolveStatusCode`: the switch, in source order, and its default -/
theorem fact_status_table :
    Facts.C16.statusTable = [("ErrInvalidPresentation", 400), ("ErrDIDMethodsNotSupported", 400), ("ErrServiceNotFound", 404)] ∧
    Facts.C16.statusDefault = 500 := by decide

/-- every `return` of `verifyRegistration` belongs to the check the model names, in the model's order, and the
    ones that join `ErrInvalidPresentation` are exactly these (`aud` and `signer` errors are returned bare);
    `Register` joins it onto "already exists" -/
theorem fact_verify_returns :
    Facts.C16.verifyReturns.map (·.1) = checkOrder ∧
    Facts.C16.verifyReturns.map (·.2) = [true, true, false, true, true, false, true, true, true] ∧
    Facts.C16.registerExistsJoined = true := by decide

/-- `Module.Register` / `Get` test `serverDefinitions` first, then `allDefinitions` (unknown -> ErrServiceNotFound),
    then `cycleDetected`, and only then forward to the definition's endpoint; `Search` only needs a known service -/
theorem fact_routing_order :
    Facts.C16.registerRouting = ["served?", "!isServer", "known?", "!exists", "not-found", "cycle?", "cycle", "forward", "endpoint", "known?"] ∧
    Facts.C16.getRouting = ["served?", "!exists", "known?", "!exists", "not-found", "cycle?", "cycle", "forward", "endpoint"] ∧
    Facts.C16.searchRouting = ["known?", "!exists", "not-found"] := by decide

theorem fact_cycle_detected :
    Facts.C16.cycleDetectedBody = ["host := forwardedHost(ctx)", "if host == \"\"", "return false", "myUri, err := url.Parse(host)",
      "if err != nil", "return false", "targetUri, err := url.Parse(service.Endpoint)", "if err != nil", "return false",
      "return myUri.Host == targetUri.Host"] := by decide

/-- `loadDefinitions(directory)`: skip directories and other suffixes, fail on unreadable / unparsable / duplicate id,
    key = the definition's own id; `Module.loadDefinitions`: empty directory setting and a missing DEFAULT directory
    load nothing, every configured server id must have a definition -/
theorem fact_load_definitions :
    Facts.C16.loadDirShape = ["os.ReadDir", "if err != nil", "if entry.IsDir() || !strings.HasSuffix(entry.Name(), \".json\")", "continue",
      "os.ReadFile", "if err != nil", "ParseServiceDefinition", "if err != nil", "if _, exists := result[definition.ID]; exists",
      "result[definition.ID] = *definition"] ∧
    Facts.C16.definitionSuffix = ".json" ∧
    Facts.C16.moduleLoadShape = ["if m.config.Definitions.Directory == \"\"", "if err != nil",
      "if os.IsNotExist(err) && m.config.Definitions.Directory == DefaultConfig().Definitions.Directory", "if err != nil",
      "if len(m.config.Server.IDs) > 0", "range m.config.Server.IDs", "if service, exists := m.allDefinitions[serviceID]; !exists",
      "serverDefinitions[serviceID] = service", "m.serverDefinitions = serverDefinitions"] ∧
    Facts.C16.defaultDefinitionsDir = "./config/discovery" := by decide

theorem fact_api_timestamp_default :
    Facts.C16.apiTimestampDefault = ["var timestamp int", "if request.Params.Timestamp != nil", "timestamp = *request.Params.Timestamp"] := by decide

/-- `clientUpdater.update`: one loop over the services, errors joined, no `break` / `continue` / early `return` -/
theorem fact_update_all_shape :
    Facts.C16.updateAllShape = ["range u.services", "if err != nil", "err := u.updateService(ctx, service)",
      "result = errors.Join(result, err)", "return result"] := by decide

/-- one refresh cycle of `Module.update`: own registrations first, then every list is polled, then the pending entries
    are verified again, then revoked ones are purged; no step's failure ends the cycle (no `return` in `do`) -/
theorem fact_update_cycle_order :
    Facts.C16.updateCycleCalls = ["m.registrationManager.refresh", "m.clientUpdater.update", "m.registrationManager.validate",
      "m.registrationManager.removeRevoked"] := by decide

/-! ### `Module.Configure` -/

/-- **configure_sound.** Whenever `Configure` succeeds, either nothing was loaded (no directory configured, or the
    DEFAULT directory does not exist) or the directory was read and: ids are unique, each definition is keyed by its
    own id and comes from an eligible readable parseable file, every eligible file is in, and the served lists are
    exactly the configured ids, each with its definition. -/
theorem configure_sound (isDefFile : String → Bool) (dd : String) (c : NodeCfg) (stat : DirStat) (readDirOk : Bool)
    (entries : List DirEntry) (defs : Defs) (h : configure isDefFile dd c stat readDirOk entries = .ok defs) :
    (defs.all = [] ∧ defs.server = [] ∧ (c.dir = "" ∨ (stat = .absent ∧ c.dir = dd))) ∨
    (c.dir ≠ "" ∧ stat = .present ∧ readDirOk = true ∧ DefsOK isDefFile c entries defs) := by
  by_cases hd : c.dir = ""
  · left
    simp only [configure, hd, if_true, Res.ok.injEq] at h
    subst h
    exact ⟨rfl, rfl, Or.inl hd⟩
  · cases stat with
    | absent =>
      left
      unfold configure at h
      rw [if_neg hd] at h
      by_cases hdd : c.dir = dd
      · simp only [if_pos hdd, Res.ok.injEq] at h
        subst h
        exact ⟨rfl, rfl, Or.inr ⟨rfl, hdd⟩⟩
      · simp [hdd] at h
    | otherError => simp [configure, hd] at h
    | present =>
      right
      cases readDirOk with
      | false => simp [configure, hd] at h
      | true => exact ⟨hd, rfl, rfl, configure_present_ok isDefFile dd c entries defs hd h⟩

/-- a served list always has its definition, and that definition's id is the list's id: the zero-value lookup
    `m.allDefinitions[serviceID]` of `Register` cannot happen after a successful `Configure` -/
theorem configure_server_subset (isDefFile : String → Bool) (dd : String) (c : NodeCfg) (stat : DirStat) (readDirOk : Bool)
    (entries : List DirEntry) (defs : Defs) (h : configure isDefFile dd c stat readDirOk entries = .ok defs)
    (k : String) (s : Service) (hk : defs.server.get k = some s) :
    defs.all.get k = some s ∧ s.d.id = k ∧ k ∈ c.serverIds := by
  rcases configure_sound isDefFile dd c stat readDirOk entries defs h with ⟨_, h2, _⟩ | ⟨_, _, _, ok⟩
  · rw [h2] at hk; simp [DefMap.get, nalGet_nil] at hk
  · obtain ⟨h1, h2⟩ := ok.served k s hk
    exact ⟨h1, ok.keyId k s h1, h2⟩

/-- a configured server id whose definition is missing makes `Configure` fail (the node does not start) -/
theorem configure_rejects_unknown_server_id (isDefFile : String → Bool) (dd : String) (c : NodeCfg) (readDirOk : Bool)
    (entries : List DirEntry) (defs : Defs) (h : configure isDefFile dd c .present readDirOk entries = .ok defs)
    (hd : c.dir ≠ "") (k : String) (hk : k ∈ c.serverIds) : ∃ s, defs.all.get k = some s ∧ defs.server.get k = some s := by
  rcases configure_sound isDefFile dd c .present readDirOk entries defs h with ⟨_, _, h3⟩ | ⟨_, _, _, ok⟩
  · rcases h3 with h3 | ⟨h3, _⟩
    · exact absurd h3 hd
    · cases h3
  · cases hs : defs.server.get k with
    | none => exact absurd hs (ok.servedAll k hk)
    | some s => exact ⟨s, (ok.served k s hs).1, rfl⟩

/-- the key of a loaded definition is the definition's own id -/
theorem configure_key_id (isDefFile : String → Bool) (dd : String) (c : NodeCfg) (stat : DirStat) (readDirOk : Bool)
    (entries : List DirEntry) (defs : Defs) (h : configure isDefFile dd c stat readDirOk entries = .ok defs)
    (k : String) (s : Service) (hk : defs.all.get k = some s) : s.d.id = k := by
  rcases configure_sound isDefFile dd c stat readDirOk entries defs h with ⟨h1, _, _⟩ | ⟨_, _, _, ok⟩
  · rw [h1] at hk; simp [DefMap.get, nalGet_nil] at hk
  · exact ok.keyId k s hk

/-! ### routing -/

/-- **route_after_configure.** On a configured node every request is served, forwarded, refused as unknown or as a
    cycle — never the inconsistent case; a served or forwarded request gets the definition whose id IS the requested id. -/
theorem route_after_configure (isDefFile : String → Bool) (dd : String) (c : NodeCfg) (stat : DirStat) (readDirOk : Bool)
    (entries : List DirEntry) (defs : Defs) (h : configure isDefFile dd c stat readDirOk entries = .ok defs)
    (sid : String) (f : Fwd) :
    (∃ s, route defs sid f = .serve s ∧ s.d.id = sid ∧ sid ∈ c.serverIds ∧ defs.all.get sid = some s) ∨
    (∃ s, route defs sid f = .forward s ∧ s.d.id = sid ∧ defs.server.get sid = none ∧ defs.all.get sid = some s ∧ cycleDetected f s = false) ∨
    (route defs sid f = .notFound ∧ defs.all.get sid = none) ∨
    (∃ s, route defs sid f = .cycle ∧ defs.all.get sid = some s ∧ cycleDetected f s = true) := by
  have hsub := configure_server_subset isDefFile dd c stat readDirOk entries defs h
  have hkey := configure_key_id isDefFile dd c stat readDirOk entries defs h
  rcases route_cases defs sid f with ⟨s, x, hsv, hal, hrt⟩ | ⟨x, hsv, hal, _⟩ | ⟨_, hal, hrt⟩ | ⟨s, _, hal, hc, hrt⟩ | ⟨s, hsv, hal, hc, hrt⟩
  · left
    obtain ⟨_, _, h3⟩ := hsub sid x hsv
    exact ⟨s, hrt, hkey sid s hal, h3, hal⟩
  · obtain ⟨h1, _, _⟩ := hsub sid x hsv
    rw [hal] at h1; cases h1
  · right; right; left; exact ⟨hrt, hal⟩
  · right; right; right; exact ⟨s, hrt, hal, hc⟩
  · right; left; exact ⟨s, hrt, hkey sid s hal, hsv, hal, hc⟩

/-! ### the node's one store: refinement to the single-list model, frame, unchanged on refusal -/

/-- **node_register_refines.** A registration the node serves itself is EXACTLY the single-list `register` of
    `Props/C16.lean` on that list (same outcome, same resulting list) — so every theorem about `register` holds for each
    list of a node; the other lists are pruned at `now` when it was accepted and untouched when it was not. -/
theorem node_register_refines (n : Node) (now fresh : Nat) (sid : String) (f : Fwd) (vp : VP) (svc : Service)
    (hr : route n.defs sid f = .serve svc) :
    (n.register now fresh sid f vp).2 = .done (register svc.d (n.stores sid) now fresh vp).2 ∧
    (n.register now fresh sid f vp).1.stores sid = (register svc.d (n.stores sid) now fresh vp).1 ∧
    (n.register now fresh sid f vp).1.defs = n.defs ∧
    ∀ k, k ≠ sid → (n.register now fresh sid f vp).1.stores k =
      if (register svc.d (n.stores sid) now fresh vp).2 = .ok () then (n.stores k).prune now else n.stores k :=
  node_register_served n now fresh sid f vp svc hr

/-- **node_register_frame.** Whatever is submitted to list `sid` — by whom, accepted or not, served or forwarded —
    every OTHER list of the node keeps its seed, timestamp and rows, except that expired rows may be pruned. -/
theorem node_register_frame (n : Node) (now fresh : Nat) (sid : String) (f : Fwd) (vp : VP) (k : String) (hk : k ≠ sid) :
    (n.register now fresh sid f vp).1.stores k = n.stores k ∨
    (n.register now fresh sid f vp).1.stores k = (n.stores k).prune now := by
  rcases route_cases n.defs sid f with ⟨s, x, _, _, hrt⟩ | hother
  · obtain ⟨_, _, _, h4⟩ := node_register_served n now fresh sid f vp s hrt
    rw [h4 k hk]
    split
    · exact Or.inr rfl
    · exact Or.inl rfl
  · have hne : ∀ svc, route n.defs sid f ≠ .serve svc := by
      intro svc
      rcases hother with ⟨x, _, _, hh⟩ | ⟨_, _, hh⟩ | ⟨s, _, _, _, hh⟩ | ⟨s, _, _, _, hh⟩ <;> rw [hh] <;> simp
    rw [(node_register_unserved n now fresh sid f vp hne).1]
    exact Or.inl rfl

/-- **node_refusal_changes_nothing.** Unless the registration was accepted on this node, NO list of the node changes
    (refused by a check, already listed, unknown service, forwarding cycle, forwarded to another node). -/
theorem node_refusal_changes_nothing (n : Node) (now fresh : Nat) (sid : String) (f : Fwd) (vp : VP)
    (h : (n.register now fresh sid f vp).2 ≠ .done (.ok ())) (k : String) :
    (n.register now fresh sid f vp).1.stores k = n.stores k := by
  rcases route_cases n.defs sid f with ⟨s, x, _, _, hrt⟩ | hother
  · obtain ⟨h1, h2, _, h4⟩ := node_register_served n now fresh sid f vp s hrt
    have hne : (register s.d (n.stores sid) now fresh vp).2 ≠ .ok () := by
      intro e; rw [h1, e] at h; exact h rfl
    by_cases hks : k = sid
    · subst hks
      rw [h2]
      rcases register_cases s.d (n.stores k) now fresh vp with ⟨o, ho, _⟩ | ⟨_, _, _, _, _, _, hreg⟩
      · rw [ho]
      · rw [hreg] at hne; exact absurd rfl hne
    · rw [h4 k hks, if_neg hne]
  · have hne : ∀ svc, route n.defs sid f ≠ .serve svc := by
      intro svc
      rcases hother with ⟨x, _, _, hh⟩ | ⟨_, _, hh⟩ | ⟨s, _, _, _, hh⟩ | ⟨s, _, _, _, hh⟩ <;> rw [hh] <;> simp
    rw [(node_register_unserved n now fresh sid f vp hne).1]

/-- a request for a list this node does not serve never touches the node; it is refused or handed to the endpoint of
    the requested list's OWN definition -/
theorem node_unserved_request (n : Node) (now fresh : Nat) (sid : String) (f : Fwd) (vp : VP)
    (hr : ∀ svc, route n.defs sid f ≠ .serve svc) :
    (n.register now fresh sid f vp).1 = n ∧
    ((n.register now fresh sid f vp).2 = .notFound ∨ (n.register now fresh sid f vp).2 = .cycle ∨
     (n.register now fresh sid f vp).2 = .inconsistent ∨ ∃ s, n.defs.all.get sid = some s ∧
        (n.register now fresh sid f vp).2 = .forwarded s.endpoint) :=
  node_register_unserved n now fresh sid f vp hr

/-! ### every list of a node, over ALL node histories -/

/-- **node_listed_sound.** After ANY history of a node (registrations of arbitrary presentations for arbitrary list
    ids — served, known, unknown —, with arbitrary forwarding headers and verdicts, clock steps, restarts), every row
    of EVERY list `sid` the node holds has the presentation's columns, is addressed to THAT list's definition and
    satisfied that definition's registration predicate at an earlier clock value. -/
theorem node_listed_sound (defs : Defs) (evs : List NEv) (t0 : Nat) (sid : String) (svc : Service)
    (hs : defs.all.get sid = some svc) :
    ∀ r ∈ ((nrun { n := { defs := defs }, t := t0 } evs).n.stores sid).rows,
      RowWF r ∧ svc.d.id ∈ r.vp.aud ∧
      ∃ s now, now ≤ (nrun { n := { defs := defs }, t := t0 } evs).t ∧ Acceptable svc.d .server s now r.vp r.subject r.exp := by
  intro r hr
  have h := (nodeOK_run defs evs _ (nodeOK_init defs t0)).lists sid svc hs
  obtain ⟨s, now, h1, h2⟩ := h.listed r hr
  exact ⟨h.inv.wf r hr, h2.addressed, s, now, h1, h2⟩

/-- **node_lists_wellformed.** …and each list holds at most one row per subject, strictly increasing timestamps
    between 1 and its own service timestamp — although registrations on other lists prune it in between. -/
theorem node_lists_wellformed (defs : Defs) (evs : List NEv) (t0 : Nat) (sid : String) (svc : Service)
    (hs : defs.all.get sid = some svc) :
    let s := (nrun { n := { defs := defs }, t := t0 } evs).n.stores sid
    s.rows.Pairwise (fun a b => a.subject ≠ b.subject) ∧ s.rows.Pairwise (fun a b => a.ts < b.ts) ∧
    ∀ r ∈ s.rows, 1 ≤ r.ts ∧ r.ts ≤ s.lastTs := by
  intro s
  have h := (nodeOK_run defs evs _ (nodeOK_init defs t0)).lists sid svc hs
  exact ⟨h.inv.onePer, h.inv.sorted, h.inv.bound⟩

/-- a list the node does not serve never gets a row through `Register` -/
theorem unserved_lists_stay_empty (defs : Defs) (evs : List NEv) (t0 : Nat) (sid : String)
    (hs : defs.server.get sid = none) :
    ((nrun { n := { defs := defs }, t := t0 } evs).n.stores sid).rows = [] :=
  (nodeOK_run defs evs _ (nodeOK_init defs t0)).unserved sid hs

/-- **configured_node_lists_addressed** (directory + server ids -> every list). On a node whose `Configure` succeeded,
    after any history every row of list `sid` carries `sid` itself in its audience and obeys the maximum validity and
    DID methods that the FILE defining `sid` states. -/
theorem configured_node_lists_addressed (isDefFile : String → Bool) (dd : String) (c : NodeCfg) (stat : DirStat)
    (readDirOk : Bool) (entries : List DirEntry) (defs : Defs)
    (h : configure isDefFile dd c stat readDirOk entries = .ok defs) (evs : List NEv) (t0 : Nat) (sid : String) :
    ∀ r ∈ ((nrun { n := { defs := defs }, t := t0 } evs).n.stores sid).rows,
      sid ∈ c.serverIds ∧ sid ∈ r.vp.aud ∧
      ∃ e ∈ entries, ∃ svc, e.parsed = some svc ∧ svc.d.id = sid ∧ isDefFile e.name = true ∧
        r.exp ≤ (nrun { n := { defs := defs }, t := t0 } evs).t + svc.d.maxValidity ∧
        ∃ m, r.vp.signer = some (r.subject, m) ∧ (svc.d.didMethods = [] ∨ m ∈ svc.d.didMethods) := by
  intro r hr
  cases hsv : defs.server.get sid with
  | none =>
    rw [unserved_lists_stay_empty defs evs t0 sid hsv] at hr; cases hr
  | some svc =>
    obtain ⟨hal, hid, hin⟩ := configure_server_subset isDefFile dd c stat readDirOk entries defs h sid svc hsv
    obtain ⟨_, haud, s, now, hnow, hA⟩ := node_listed_sound defs evs t0 sid svc hal r hr
    rw [hid] at haud
    refine ⟨hin, haud, ?_⟩
    rcases configure_sound isDefFile dd c stat readDirOk entries defs h with ⟨h1, _, _⟩ | ⟨_, _, _, ok⟩
    · rw [h1] at hal; simp [DefMap.get, nalGet_nil] at hal
    · obtain ⟨e, he, _, hel, _, hp⟩ := ok.fromFile sid svc hal
      refine ⟨e, he, svc, hp, hid, hel, ?_, hA.signer⟩
      have := hA.within
      omega

/-! ### api/server/api.go -/

/-- the REST status of a registration, with the tables the source has today -/
def factStatus (o : NOut) : Nat :=
  apiRegisterStatus Facts.C16.statusTable Facts.C16.statusDefault Facts.C16.verifyReturns Facts.C16.registerExistsJoined o

theorem resolveStatus_ne_201 (k : ErrKind) : resolveStatus Facts.C16.statusTable Facts.C16.statusDefault k ≠ 201 := by
  cases k with
  | mk a b c => cases a <;> cases b <;> cases c <;> decide

/-- 201 is answered exactly for an accepted (or forwarded-and-accepted-there) registration -/
theorem api_register_201_iff (o : NOut) : factStatus o = 201 ↔ (o = .done (.ok ()) ∨ ∃ ep, o = .forwarded ep) := by
  unfold factStatus apiRegisterStatus
  cases o with
  | done r =>
    cases r with
    | ok u => simp [NOut.kind]
    | err e => simp [NOut.kind, resolveStatus_ne_201]
    | panic p => simp [NOut.kind, resolveStatus_ne_201]
  | forwarded ep => simp [NOut.kind]
  | notFound => simp [NOut.kind, resolveStatus_ne_201]
  | cycle => simp [NOut.kind, resolveStatus_ne_201]
  | inconsistent => simp [NOut.kind, resolveStatus_ne_201]

/-- **api_register_created_iff_acceptable** (request -> status). On a list the node serves, `POST` is answered 201
    exactly when the presentation satisfies the registration predicate of that list and is not listed already. -/
theorem api_register_created_iff_acceptable (n : Node) (now fresh : Nat) (sid : String) (f : Fwd) (vp : VP) (svc : Service)
    (hr : route n.defs sid f = .serve svc) :
    factStatus (n.register now fresh sid f vp).2 = 201 ↔
      ∃ subj e id, Acceptable svc.d .server (n.stores sid) now vp subj e ∧ vp.id = some id ∧ (n.stores sid).hasKey subj id = false := by
  rw [api_register_201_iff, (node_register_served n now fresh sid f vp svc hr).1, ← register_ok_iff]
  constructor
  · rintro (h | ⟨ep, h⟩)
    · exact NOut.done.inj h
    · cases h
  · intro h; left; rw [h]

/-- the status class of every refusal, as the code is today: every failed check is a 400 except a wrong audience and an
    underivable signer (their errors are returned without `ErrInvalidPresentation`: 500); unknown service 404 -/
theorem refusal_status_codes :
    (∀ e ∈ ["format", "no-id", "no-exp", "too-long", "did-method", "retract-creds", "retract-jti", "retract-unknown",
            "cred-no-id", "cred-exp", "pex-nomatch", "pex-partial", "verify", "exists"], factStatus (.done (.err e)) = 400) ∧
    factStatus (.done (.err "aud")) = 500 ∧ factStatus (.done (.err "signer")) = 500 ∧
    factStatus .notFound = 404 ∧ factStatus .cycle = 500 := by decide

/-- `GET` without `timestamp` is `GET ?timestamp=0` -/
theorem apiGet_default (n : Node) (sid : String) (f : Fwd) : apiGet n sid f none = apiGet n sid f (some 0) := rfl

/-- the signed `startAfter` of the API agrees with the single-list `rowsAfter` on every non-negative value… -/
theorem rowsAfterInt_ofNat (s : Store) (a : Nat) : s.rowsAfterInt (a : Int) = s.rowsAfter a := by
  unfold Store.rowsAfterInt Store.rowsAfter
  congr 1
  funext r
  simp

/-- …and any non-positive `timestamp` (absent, 0, negative) returns the whole list -/
theorem get_from_nonpositive_returns_all (defs : Defs) (evs : List NEv) (t0 : Nat) (sid : String) (svc : Service)
    (hs : defs.all.get sid = some svc) (a : Int) (ha : a ≤ 0) :
    ((nrun { n := { defs := defs }, t := t0 } evs).n.stores sid).rowsAfterInt a =
      ((nrun { n := { defs := defs }, t := t0 } evs).n.stores sid).rows := by
  have h := (node_lists_wellformed defs evs t0 sid svc hs).2.2
  unfold Store.rowsAfterInt
  rw [List.filter_eq_self]
  intro r hr
  have := (h r hr).1
  simp only [decide_eq_true_eq]
  omega

/-- `Module.Get` on a served list is the single-list read (`get_no_gap` etc. apply), whatever the forwarding header -/
theorem node_get_served (n : Node) (sid : String) (f : Fwd) (a : Nat) (x : Service) (h : n.defs.server.get sid = some x) :
    n.get sid f (a : Int) = .rows ((n.stores sid).rowsAfter a) (n.stores sid).seed (n.stores sid).lastTs := by
  unfold Node.get
  rw [h, rowsAfterInt_ofNat]

/-! ### client.go `clientUpdater.update` -/

/-- every configured service is visited, in order, whatever failed before; only visited services are reported -/
theorem updateAll_no_early_exit {σ : Type} (visit : σ → String → σ × Bool) (l : List String) :
    ∀ st, (updateAll visit st l).1 = l.foldl (fun s k => (visit s k).1) st ∧ ∀ k ∈ (updateAll visit st l).2, k ∈ l := by
  induction l with
  | nil => intro st; exact ⟨rfl, by intro k hk; cases hk⟩
  | cons a l ih =>
    intro st
    obtain ⟨h1, h2⟩ := ih (visit st a).1
    refine ⟨?_, ?_⟩
    · show (updateAll visit (visit st a).1 l).1 = _
      rw [h1]; rfl
    · intro k hk
      have hk' : k ∈ (if (visit st a).2 then (updateAll visit (visit st a).1 l).2 else a :: (updateAll visit (visit st a).1 l).2) := hk
      split at hk'
      · exact List.mem_cons_of_mem _ (h2 k hk')
      · rcases List.mem_cons.mp hk' with h3 | h3
        · rw [h3]; exact List.mem_cons_self
        · exact List.mem_cons_of_mem _ (h2 k h3)

/-! ### client.go `updateService`: the validated flag (a server may hand out anything) -/

/-- the freshly stored row is flagged under exactly one condition: the client's own verifier returned no error -/
theorem fact_validated_only_after_verification :
    Facts.C16.updateValidatedGuard = ["err = u.verifier(service, presentation); err == nil"] := by decide

/-- **client_flags_iff_verified.** For whatever a server hands out: `updateService` stores it and flags it validated
    exactly when the client's OWN `verifyRegistration` (against the replica as it is after storing) accepts it;
    nothing else about the presentation (its type, its credentials) can set the flag. -/
theorem client_flags_iff_verified (d : Def) (now seed ts ctr : Nat) (c c' : Store) (vp : VP) (row : Row) (subj m id : String)
    (hs : vp.signer = some (subj, m)) (hi : vp.id = some id) (hk : c.hasKey subj id = false)
    (h : c.add now vp seed ts (ctr + 1) = (c', .ok row)) :
    (clientLoop d now seed ts c ctr [vp]).1.validated =
      if verify d c' now .client vp = .ok () then row.pk :: c'.validated else c'.validated := by
  have hj : vp.jwt = true := by
    cases hjj : vp.jwt with
    | true => rfl
    | false => simp [Store.add, hs, hi, hjj] at h
  simp only [clientLoop, hj, hs, hi, hk, h, Bool.true_eq_false, ↓reduceIte]
  cases hv : verify d c' now .client vp with
  | ok u => simp [Store.setValidated]
  | err e => simp
  | panic p => simp

/-- **retraction_unverifiable_once_stored.** `sqlStore.add` replaces every entry of the signer by the presentation it
    stores, so a retraction — which must name an existing entry of its signer — cannot pass the client's verification
    once it is in the replica, unless it names itself; with credentials it never passes. -/
theorem retraction_unverifiable_once_stored (d : Def) (side : Side) (c c' : Store) (now seed ts fresh : Nat) (vp : VP) (row : Row)
    (h : c.add now vp seed ts fresh = (c', .ok row)) (hr : vp.retraction = true)
    (hj : vp.retractJti ≠ vp.id ∨ vp.creds ≠ []) :
    verify d c' now side vp ≠ .ok () := by
  intro hv
  obtain ⟨subj, e, hA⟩ := (verify_ok_acceptable d side c' now vp).mp hv
  obtain ⟨hcr, j, hj1, _, r, hrm, hrs, hri⟩ := hA.retraction hr
  rcases hj with hj | hj
  · obtain ⟨id, hid⟩ := hA.hasId
    obtain ⟨m, hsig, _⟩ := hA.signer
    rw [add_eq c now vp seed ts fresh subj m id e hsig hid hA.exp hA.jwt hA.credsHaveId] at h
    have hc' := (Prod.mk.inj h).1
    rw [← hc'] at hrm
    rcases mem_addOk.mp hrm with ⟨_, _, hne⟩ | heq
    · exact hne hrs
    · apply hj
      rw [hj1, hid, ← hri, heq]
      rfl
  · exact hj hcr

/-- hence a forged "retraction" (credentials attached, or naming somebody's entry) is never flagged by `updateService` -/
theorem forged_retraction_never_flagged (d : Def) (now seed ts ctr : Nat) (c c' : Store) (vp : VP) (row : Row) (subj m id : String)
    (hs : vp.signer = some (subj, m)) (hi : vp.id = some id) (hk : c.hasKey subj id = false)
    (h : c.add now vp seed ts (ctr + 1) = (c', .ok row)) (hr : vp.retraction = true)
    (hj : vp.retractJti ≠ vp.id ∨ vp.creds ≠ []) :
    (clientLoop d now seed ts c ctr [vp]).1.validated = c'.validated := by
  rw [client_flags_iff_verified d now seed ts ctr c c' vp row subj m id hs hi hk h,
    if_neg (retraction_unverifiable_once_stored d .client c c' now seed ts (ctr + 1) vp row h hr hj)]

/-! ### store.go `search` with a query (`applyQuery`) -/

/-- `applyQuery`'s column map and comparison operators -/
theorem fact_query_columns :
    Facts.C16.queryColumns = [("id", "credential.id"), ("issuer", "credential.issuer"), ("type", "credential.type"),
      ("credentialSubject.id", "credential.subject_id")] ∧
    Facts.C16.queryOps = ["= ?", "is not null", "LIKE ?", "LIKE ?"] ∧
    Facts.C16.queryJoins = ["inner join discovery_credential ON discovery_credential.presentation_id = discovery_presentation.id",
      "inner join credential ON credential.id = discovery_credential.credential_id"] ∧
    Facts.C16.queryConditions = ["if strings.TrimSpace(value) == \"*\"", "if strings.HasPrefix(value, \"*\")", "if strings.HasSuffix(value, \"*\")",
      "if column := propertyColumns[jsonPath]; column != \"\""] := by decide

/-- a query only ever narrows the plain search: same order, nothing added -/
theorem searchQ_sublist_search (s : Store) (now : Nat) (ix : Row → List CredIx) (cols : List (String × String)) (ci : Bool)
    (q : List (String × String)) : (s.searchQ now ix cols ci q).Sublist (s.search now) :=
  List.filter_sublist

/-- the empty query IS the plain search (no join: presentations without credentials are returned too) -/
theorem searchQ_empty_query (s : Store) (now : Nat) (ix : Row → List CredIx) (cols : List (String × String)) (ci : Bool) :
    s.searchQ now ix cols ci [] = s.search now := by
  unfold Store.searchQ
  rw [List.filter_eq_self]
  intro r _
  rfl

/-- every further term narrows the result; and a hit has ONE credential that fulfils every term -/
theorem searchQ_antitone (s : Store) (now : Nat) (ix : Row → List CredIx) (cols : List (String × String)) (ci : Bool)
    (t : String × String) (q : List (String × String)) :
    (∀ r ∈ s.searchQ now ix cols ci (t :: q), r ∈ s.searchQ now ix cols ci q) ∧
    (∀ r ∈ s.searchQ now ix cols ci (t :: q), ∃ c ∈ ix r, ∀ u ∈ t :: q, termMatch cols ci c u.1 u.2 = true) := by
  refine ⟨?_, ?_⟩
  · intro r hr
    obtain ⟨h1, h2⟩ := List.mem_filter.mp hr
    refine List.mem_filter.mpr ⟨h1, ?_⟩
    simp only [List.isEmpty_cons, Bool.false_or, List.any_eq_true, List.all_cons, Bool.and_eq_true] at h2
    obtain ⟨c, hc, _, hall⟩ := h2
    simp only [Bool.or_eq_true, List.any_eq_true]
    exact Or.inr ⟨c, hc, hall⟩
  · intro r hr
    obtain ⟨_, h2⟩ := List.mem_filter.mp hr
    simp only [List.isEmpty_cons, Bool.false_or, List.any_eq_true, List.all_eq_true] at h2
    obtain ⟨c, hc, hall⟩ := h2
    exact ⟨c, hc, fun u hu => hall u hu⟩

/-- **search_with_query_sound** (query text -> result): after any history, whatever the query, the credential index
    and the collation, `Search(service, query)` on the client returns only unexpired entries whose presentation the
    client's OWN `verifyRegistration` accepted — `search_sound` carried through `applyQuery`. -/
theorem search_with_query_sound (d : Def) (evs : List Ev) (t0 : Nat) (hq : ∀ e ∈ evs, PermOK e)
    (ix : Row → List CredIx) (cols : List (String × String)) (ci : Bool) (q : List (String × String)) :
    let w := run factCfg d { t := t0 } evs
    ∀ r ∈ w.C.searchQ w.t ix cols ci q, w.t < r.exp ∧
      ∃ s now subj e, now ≤ w.t ∧ Acceptable d .client s now r.vp subj e := by
  intro w r hr
  exact search_sound d evs t0 hq r ((searchQ_sublist_search w.C w.t ix cols ci q).subset hr)

/-! ### non-vacuity: a concrete directory, node and history -/

def exSvc (id : String) (max : Nat) : Service :=
  { d := { id := id, maxValidity := max, didMethods := ["example"] }, endpoint := "https://x.example/" ++ id, endpointHost := some "x.example" }
def exIsDef : String → Bool := fun n => n != "README" && n != "notes.txt"
def exEntries : List DirEntry :=
  [{ name := "README" }, { name := "a.json", parsed := some (exSvc "A" 100) }, { name := "b.json", parsed := some (exSvc "B" 50) },
   { name := "sub.json", isDir := true }, { name := "c.json", parsed := some (exSvc "C" 70) }]
def exNodeCfg : NodeCfg := { dir := "/etc/discovery", serverIds := ["A", "B", "A"] }
def exDefs : Defs :=
  { all := [("A", exSvc "A" 100), ("B", exSvc "B" 50), ("C", exSvc "C" 70)], server := [("A", exSvc "A" 100), ("B", exSvc "B" 50)] }

def cfgView : Res Defs → String × List String × List String
  | .ok d => ("ok", d.all.map (·.1), d.server.map (·.1))
  | .err e => (e, [], [])
  | .panic p => (p, [], [])
def routeView : Route → String × String
  | .serve s => ("serve", s.d.id)
  | .forward s => ("forward", s.d.id)
  | .notFound => ("not-found", "")
  | .cycle => ("cycle", "")
  | .inconsistent => ("inconsistent", "")
def getView : GetOut → String × List String × Int
  | .rows rows _ ts => ("rows", rows.map (·.id), ts)
  | .forwarded ep a => ("forwarded", [ep], a)
  | .notFound => ("not-found", [], 0)
  | .cycle => ("cycle", [], 0)

/-- `configure` succeeds on this directory (hypothesis of `configure_sound` & co.) and serves A and B of A, B, C -/
example : cfgView (configure exIsDef "./config/discovery" exNodeCfg .present true exEntries) = ("ok", ["A", "B", "C"], ["A", "B"]) ∨
    cfgView (configure exIsDef "./config/discovery" exNodeCfg .present true exEntries) = ("ok", ["A", "B", "C"], ["B", "A"]) := by decide
/-- each failure class of the loader is reachable -/
example : (cfgView (configure exIsDef "./config/discovery" exNodeCfg .present true (exEntries ++ [{ name := "d.json", parsed := some (exSvc "A" 1) }]))).1 = "duplicate-id" ∧
    (cfgView (configure exIsDef "./config/discovery" exNodeCfg .present true ({ name := "0.json" } :: exEntries))).1 = "parse" ∧
    (cfgView (configure exIsDef "./config/discovery" exNodeCfg .present true ({ name := "0.json", readOk := false } :: exEntries))).1 = "read-file" ∧
    (cfgView (configure exIsDef "./config/discovery" { exNodeCfg with serverIds := ["A", "Z"] } .present true exEntries)).1 = "server-id-unknown" ∧
    (cfgView (configure exIsDef "./config/discovery" exNodeCfg .absent true [])).1 = "stat" ∧
    (cfgView (configure exIsDef "./config/discovery" exNodeCfg .present false [])).1 = "read-dir" ∧
    cfgView (configure exIsDef "./config/discovery" { exNodeCfg with dir := "./config/discovery" } .absent true []) = ("ok", [], []) := by decide

/-- all four routes are taken -/
example : routeView (route exDefs "A" {}) = ("serve", "A") ∧ routeView (route exDefs "C" {}) = ("forward", "C") ∧
    routeView (route exDefs "C" { header := some "https://x.example", headerHost := some "x.example" }) = ("cycle", "") ∧
    routeView (route exDefs "C" { header := some "x.example", headerHost := some "" }) = ("forward", "C") ∧
    routeView (route exDefs "Z" {}) = ("not-found", "") := by decide

def exNVP (aud subj id : String) (e : Nat) : VP :=
  { id := some id, aud := [aud], exp := some e, signer := some (subj, "example"), pex := .matched 0, verifyS := true, verifyC := true }

/-- a history over two served lists and a forwarded one: rows land on the list they are addressed to, a registration
    on B prunes the expired row of A, requests for C / Z never touch the node -/
def exNodeWorld : NWorld := nrun { n := { defs := exDefs }, t := 10 }
  [.register "A" {} (exNVP "A" "s1" "v1" 40), .register "B" {} (exNVP "A" "s1" "v2" 40), .register "B" {} (exNVP "B" "s1" "v3" 55),
   .register "C" {} (exNVP "C" "s1" "v4" 40), .register "Z" {} (exNVP "Z" "s1" "v5" 40), .tick 35, .register "A" {} (exNVP "A" "s2" "v6" 60),
   .register "B" {} (exNVP "B" "s2" "v7" 60), .restart]
example : (exNodeWorld.n.stores "A").rows.map (fun r => (r.ts, r.subject, r.id)) = [(2, "s2", "v6")] ∧
    (exNodeWorld.n.stores "B").rows.map (fun r => (r.ts, r.subject, r.id)) = [(1, "s1", "v3"), (2, "s2", "v7")] ∧
    (exNodeWorld.n.stores "C").rows = [] ∧ (exNodeWorld.n.stores "Z").rows = [] := by decide
example : (({ defs := exDefs } : Node).register 10 1 "B" {} (exNVP "A" "s1" "v2" 40)).2 = .done (.err "aud") ∧
    (({ defs := exDefs } : Node).register 10 1 "C" {} (exNVP "C" "s1" "v2" 40)).2 = .forwarded "https://x.example/C" ∧
    (({ defs := exDefs } : Node).register 10 1 "Z" {} (exNVP "Z" "s1" "v2" 40)).2 = .notFound ∧
    factStatus (({ defs := exDefs } : Node).register 10 1 "A" {} (exNVP "A" "s1" "v2" 40)).2 = 201 ∧
    factStatus (({ defs := exDefs } : Node).register 10 1 "A" {} (exNVP "A" "s1" "v2" 400)).2 = 400 := by decide
example : getView (apiGet exNodeWorld.n "B" {} none) = ("rows", ["v3", "v7"], 2) ∧
    getView (apiGet exNodeWorld.n "B" {} (some 1)) = ("rows", ["v7"], 2) ∧
    getView (apiGet exNodeWorld.n "B" {} (some (-5))) = ("rows", ["v3", "v7"], 2) ∧
    getView (apiGet exNodeWorld.n "C" {} (some 7)) = ("forwarded", ["https://x.example/C"], 7) ∧
    getView (apiGet exNodeWorld.n "Z" {} none) = ("not-found", [], 0) := by decide
/-- `updateAll` reports exactly the failing services and still visits the ones after them -/
example : updateAll (fun (st : List String) k => (st ++ [k], k != "down")) [] ["a", "down", "b"] = (["a", "down", "b"], ["down"]) := by decide

def exForged : VP :=
  { exNVP "A" "s6" "f1" 40 with retraction := true, creds := [{ exp := none }], pex := .matched 1, retractJti := some "f1" }
/-- the hypotheses of `forged_retraction_never_flagged` are met by a forgery whose only flaw is its credentials -/
example : (({ seed := 5, lastTs := 3 } : Store).add 10 exForged 5 3 1).2.isOk = true ∧ exForged.retraction = true ∧ exForged.creds ≠ [] ∧
    (clientLoop (exSvc "A" 100).d 10 5 3 { seed := 5, lastTs := 3 } 0 [exForged]).1.validated = [] ∧
    (clientLoop (exSvc "A" 100).d 10 5 3 { seed := 5, lastTs := 3 } 0 [exForged]).1.rows.length = 1 ∧
    (clientLoop (exSvc "A" 100).d 10 5 3 { seed := 5, lastTs := 3 } 0 [exNVP "A" "s6" "f2" 40]).1.validated = [0] := by decide

/-- the wildcard translation and the same-credential rule on concrete data: issuer and authServerURL sit on DIFFERENT
    credentials, so asking for both finds nothing although each alone does -/
def exCols : List (String × String) := [("id", "credential.id"), ("issuer", "credential.issuer"), ("type", "credential.type"), ("credentialSubject.id", "credential.subject_id")]
def exIx : Row → List CredIx := fun _ =>
  [{ id := "c1", issuer := "did:example:authority", type := some "TestCredential", subjectId := "did:example:s1", props := [("credentialSubject.org", "x")] },
   { id := "c2", issuer := "did:example:s1", type := some "NutsEmployeeCredential", subjectId := "did:example:s1", props := [("credentialSubject.authServerURL", "https://verif.example/oauth2/s1")] }]
def exQStore : Store := (clientLoop (exSvc "A" 100).d 10 5 3 { seed := 5, lastTs := 3 } 0 [exNVP "A" "s6" "f2" 40]).1
example : parseQueryValue "*" = .notNull ∧ parseQueryValue " * " = .notNull ∧ parseQueryValue "a*" = .like ['a', '%'] ∧
    parseQueryValue "*a" = .like ['%', 'a'] ∧ parseQueryValue "*a*" = .like ['%', 'a', '%'] ∧ parseQueryValue "**" = .like ['%', '%'] ∧
    parseQueryValue "a*b" = .eq ['a', '*', 'b'] ∧ parseQueryValue "" = .eq [] := by decide
example : (exQStore.searchQ 20 exIx exCols true []).length = 1 ∧
    (exQStore.searchQ 20 exIx exCols true [("issuer", "did:example:authority")]).length = 1 ∧
    (exQStore.searchQ 20 exIx exCols true [("credentialSubject.authServerURL", "*/oauth2/*")]).length = 1 ∧
    (exQStore.searchQ 20 exIx exCols true [("issuer", "did:example:authority"), ("credentialSubject.authServerURL", "*")]).length = 0 ∧
    (exQStore.searchQ 20 exIx exCols true [("issuer", "DID:example:*")]).length = 1 ∧
    (exQStore.searchQ 20 exIx exCols false [("issuer", "DID:example:*")]).length = 0 ∧
    (exQStore.searchQ 20 exIx exCols true [("issuer", "DID:example:authority")]).length = 0 ∧
    (exQStore.searchQ 20 exIx exCols true [("credentialSubject.nothing", "*")]).length = 0 ∧
    (exQStore.searchQ 50 exIx exCols true []).length = 0 := by decide

end Nuts.C16.Props
