/-
  C13 — property theorems of deepening round 3 (2026-09-28): the request context inside `transactionHelper`, the subject
  look-up. ONLY property theorems (+ non-vacuity examples + fact obligations). Model: NutsModel/C13/Context.lean,
  instantiated by NutsModel/C13/ContextNow.lean with the regenerated facts.
-/
import NutsModel.C13.ContextNow
import NutsProofs.Props.C13
import NutsProofs.Lemmas.C13Ctx

namespace Nuts.C13.Props
open Nuts.C13 Nuts

/-! ### Obligations on the regenerated facts -/

/-- `transactionHelper` hands its context to the Commit calls and to nothing else (its two SQL transactions do not depend
    on the request being alive); did:web's Commit names neither of its parameters -/
theorem fact_request_context_only_reaches_commit :
    Facts.C13.transactionHelperContextUses = ["manager.Commit(ctx, change)"] ∧
    Facts.C13.webCommitParamNames = ["_", "_"] ∧ Now.webFails true = false ∧ Now.webFails false = false := by decide

/-- `FindBySubject` and `SubjectExists` compare the subject name with `=` (no pattern matching, no case folding) -/
theorem fact_subject_lookup_is_equality :
    Facts.C13.findBySubjectQueries = ["subject = ?"] ∧ Facts.C13.subjectExistsQueries = ["subject = ?"] ∧
    Facts.C13.findBySubjectOperator = "=" := by decide

/-! ### the request context -/

/-- with a did:web Commit that cannot fail, the commit loop does not depend on when the request context ends -/
theorem commit_loop_ignores_context (cancelAt : Option Nat) (f : Fault) (chs : List Change) :
    ∀ (order : List Method) (i : Nat) (pub : Nat → List Content),
      commitLoopCtx (fun _ => false) cancelAt f chs order i pub = commitLoop f chs order i pub
  | [], i, pub => rfl
  | m :: ms, i, pub => by
    unfold commitLoopCtx commitLoop
    cases hfind : chs.find? (fun ch => ch.method = m) with
    | none => simp only; exact commit_loop_ignores_context cancelAt f chs ms i pub
    | some ch =>
      simp only
      by_cases hs : f = .stop i
      · simp only [hs, if_true]
      · simp only [hs, if_false]
        cases m with
        | web => simp only [Bool.false_eq_true, if_false]; exact commit_loop_ignores_context cancelAt f chs ms (i + 1) pub
        | nuts =>
          simp only
          by_cases hf : f = .failNuts
          · simp only [hf, if_true]
          · simp only [hf, if_false]
            cases commitNuts pub ch with
            | ok pub' => simp only; exact commit_loop_ignores_context cancelAt f chs ms (i + 1) pub'
            | err e => rfl
            | panic s => rfl

theorem webFails_now : Now.webFails = fun _ => false := by
  funext d; cases d <;> decide

/-- END TO END, the code as it is: an operation whose request context ends at ANY moment after the first transaction
    (before the k-th Commit call, any k; any fault on top; any commit order) ends exactly like the same operation with a
    live context — same rows, same change records, same published documents, same answer. -/
theorem cancelled_request_changes_nothing (cancelAt : Option Nat) (cfg : Cfg) (w : World) (o : Op) (order : List Method)
    (f : Fault) : stepOpCtx Now.webFails cancelAt cfg w o order f = stepOp cfg w o order f := by
  rw [webFails_now]
  have core : stepOpCtxCore (fun _ => false) cancelAt cfg w o order f = stepOpCore cfg w o order f := by
    unfold stepOpCtxCore stepOpCore
    cases tx1 cfg w o with
    | err e => rfl
    | panic s => rfl
    | ok p =>
      obtain ⟨w1, chs⟩ := p
      simp only [commit_loop_ignores_context]
      rcases commitLoop f chs order 0 w1.pub with ⟨pub, ph⟩
      cases ph <;> rfl
  unfold stepOpCtx stepOp
  rw [core]
  cases tx1 cfg w o with
  | err e => rfl
  | panic s => rfl
  | ok p =>
    obtain ⟨w1, chs⟩ := p
    simp only
    cases f.inTx1 chs.length <;> rfl

/-- so every history in which requests are cancelled stays inside `Reach`: all theorems about reachable worlds
    (uniform versions, all-or-nothing after the sweep, retry, …) hold for it -/
theorem cancelled_request_reach {cfg : Cfg} {w : World} (cancelAt : Option Nat) (o : Op) (order : List Method) (f : Fault)
    (h : Reach cfg w) (hc : Clean w.dids o.subject) : Reach cfg (stepOpCtx Now.webFails cancelAt cfg w o order f).1 := by
  rw [cancelled_request_changes_nothing]
  exact Reach.op o order f h hc

def cfg2 : Cfg := { methods := [.nuts, .web], threshold := 60, notFoundIsUncommitted := true,
                    rollbackDeletesCreatedDID := true, sweepWholeTx := true }

/-- non-vacuity: a Create cancelled after did:nuts published completes, both DIDs exist, no change record is left -/
example : (stepOpCtx Now.webFails (some 1) cfg2 {} (.create "s") [.nuts, .web] .none).2 = "ok" ∧
    ((stepOpCtx Now.webFails (some 1) cfg2 {} (.create "s") [.nuts, .web] .none).1.dids.map (·.method)) = [.nuts, .web] ∧
    logCount (stepOpCtx Now.webFails (some 1) cfg2 {} (.create "s") [.nuts, .web] .none).1 = 0 := by decide

/-- NEGATION WITNESS (not the code): if did:web's Commit failed on a dead context, an operation cancelled after did:nuts
    published would answer with an error and delete the new version of BOTH DIDs while did:nuts' stays published: the
    DIDs did not change together, the key of the abandoned version is on the network, and no change record is left
    for the sweep to repair it. -/
theorem web_commit_failing_on_dead_context_breaks_all_or_nothing :
    let r := stepOpCtx (fun dead => dead) (some 1) cfg2 {} (.create "s") [.nuts, .web] .none
    r.2 = "err:web" ∧ r.1.dids = [] ∧ logCount r.1 = 0 ∧ pubLatest r.1.pub 0 = some { vms := [0], svcs := [] } := by decide

/-! ### the subject look-up -/

/-- the look-up every operation uses is the model's `listDIDs` (rows whose subject IS the asked name) -/
theorem lookup_is_exact (w : World) (s : String) : findBySubject Now.sameSubject w s = listDIDs w s := by
  unfold findBySubject listDIDs
  congr 1

def twoSubjects : World :=
  (stepOp cfg2 (stepOp cfg2 {} (.create "a_1") [.nuts, .web] .none).1 (.create "a-1") [.nuts, .web] .none).1

/-- NEGATION WITNESS (not the code): with SQL `LIKE` as the comparison, the name `a_1` also selects the DIDs of subject
    `a-1` (two DIDs per method), and `A-1` those of `a-1`; with `=` each name has exactly its own two -/
theorem lookup_by_like_merges_subjects :
    ((findBySubject sqlLike twoSubjects "a_1").map (·.method)) = [.nuts, .web, .nuts, .web] ∧
    ((findBySubject sqlLike twoSubjects "A-1").map (·.method)) = [.nuts, .web] ∧
    ((findBySubject Now.sameSubject twoSubjects "a_1").map (·.method)) = [.nuts, .web] ∧
    (findBySubject Now.sameSubject twoSubjects "A-1") = [] := by decide

/-- CLAUSE A/G, the other side: in every reachable world an operation on one subject (any of the six, ANY fault — failed
    publish, stop at any point, DB error / stop inside the first transaction —, any commit order) leaves the DIDs of every
    OTHER subject exactly as they were: same rows, same versions, same change records. -/
theorem other_subjects_untouched {cfg : Cfg} (hfix : Fixed cfg) (hms : cfg.methods.Nodup) {w : World} (h : Reach cfg w)
    (o : Op) (order : List Method) (f : Fault) (hc : Clean w.dids o.subject) (s : String) (hs : s ≠ o.subject) :
    listDIDs (stepOp cfg w o order f).1 s = listDIDs w s :=
  stepOp_other o order f hms (reach_inv hfix hms h) hc s hs

/-- the same through the look-up the code uses and with a request context that ends at any moment -/
theorem other_subjects_untouched_by_cancelled_request {cfg : Cfg} (hfix : Fixed cfg) (hms : cfg.methods.Nodup) {w : World}
    (h : Reach cfg w) (cancelAt : Option Nat) (o : Op) (order : List Method) (f : Fault) (hc : Clean w.dids o.subject)
    (s : String) (hs : s ≠ o.subject) :
    findBySubject Now.sameSubject (stepOpCtx Now.webFails cancelAt cfg w o order f).1 s = findBySubject Now.sameSubject w s := by
  rw [lookup_is_exact, lookup_is_exact, cancelled_request_changes_nothing]
  exact other_subjects_untouched hfix hms h o order f hc s hs

/-- non-vacuity: the hypotheses are met by the empty world … -/
example : listDIDs (stepOp cfg2 {} (.create "a_1") [.nuts, .web] .none).1 "a-1" = listDIDs {} "a-1" :=
  other_subjects_untouched ⟨rfl, rfl, rfl⟩ (by decide) Reach.init _ _ _ (by intro r hr; cases hr) "a-1" (by decide)

/-- … and concretely: a failed `addSvc` on `a_1` and a deactivation of `a_1` leave both DIDs of `a-1` as they were -/
example : listDIDs (stepOp cfg2 twoSubjects (.addSvc "a_1" "A") [.nuts, .web] .failNuts).1 "a-1" = listDIDs twoSubjects "a-1" ∧
    listDIDs (stepOp cfg2 twoSubjects (.deactivate "a_1") [.web, .nuts] .none).1 "a-1" = listDIDs twoSubjects "a-1" ∧
    (listDIDs twoSubjects "a-1").length = 2 := by decide

/-- composition: a request that is cancelled at any moment AND whose publication fails leaves every row as it was and
    answers with the error (the clean-up transaction does not depend on the request being alive) -/
theorem cancelled_and_failed_request_restores {cfg : Cfg} (hfix : Fixed cfg) (hms : cfg.methods.Nodup) {w : World} (h : Reach cfg w)
    (cancelAt : Option Nat) (o : Op) (order : List Method) (f : Fault) (hf : ∀ n, f.inTx1 n = none) (hc : Clean w.dids o.subject)
    {w1 : World} {chs : List Change} {e : String}
    (ht : tx1 cfg w o = .ok (w1, chs)) (hph : (commitLoop f chs order 0 w1.pub).2 = .failed e) :
    (stepOpCtx Now.webFails cancelAt cfg w o order f).1.dids = w.dids ∧
    (stepOpCtx Now.webFails cancelAt cfg w o order f).2 = "err:" ++ e := by
  rw [cancelled_request_changes_nothing]
  exact failed_commit_restores hfix hms h o order f hf hc ht hph

/-- non-vacuity: an `addSvc` on `a_1` cancelled after the first Commit call, with a failing did:nuts publication -/
example : (stepOpCtx Now.webFails (some 1) cfg2 twoSubjects (.addSvc "a_1" "A") [.web, .nuts] .failNuts).1.dids = twoSubjects.dids ∧
    (stepOpCtx Now.webFails (some 1) cfg2 twoSubjects (.addSvc "a_1" "A") [.web, .nuts] .failNuts).2 = "err:injected" := by decide

end Nuts.C13.Props
