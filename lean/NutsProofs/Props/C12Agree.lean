/-
  C12 — wallet/verifier agreement at full strength for basic definitions with an unambiguous selection:
  `hstable` of wallet_verifier_agree_partial is derived, not assumed.
-/
import NutsProofs.Props.C12
import NutsModel.C12.Agree

namespace Nuts.C12.Props
open Nuts Nuts.C12

theorem firstMatch_cons_reject {cfg : Cfg} {re : Regex} {pd : PD} {d : Desc} {c : Cred} {cs : List Cred}
    (h : accepts cfg re pd d c = .ok false) : firstMatch cfg re pd d (c :: cs) = firstMatch cfg re pd d cs := by
  unfold accepts at h
  rw [firstMatch]
  generalize matchCredential cfg re d c = r at h ⊢
  cases r with
  | ok b =>
    cases b with
    | true =>
      have h' : (matchFormat pd.format c && matchFormat d.format c) = false := by simpa using h
      simp only [h']
      rfl
    | false => rfl
  | err e => cases h
  | panic s => cases h

theorem firstMatch_cons_accept {cfg : Cfg} {re : Regex} {pd : PD} {d : Desc} {c : Cred} {cs : List Cred}
    (h : accepts cfg re pd d c = .ok true) : firstMatch cfg re pd d (c :: cs) = .ok (some c) := by
  unfold accepts at h
  rw [firstMatch]
  generalize matchCredential cfg re d c = r at h ⊢
  cases r with
  | ok b =>
    cases b with
    | true =>
      have h' : (matchFormat pd.format c && matchFormat d.format c) = true := by simpa using h
      simp only [h']
      rfl
    | false => cases h
  | err e => cases h
  | panic s => cases h

theorem firstMatch_some_accepts {cfg : Cfg} {re : Regex} {pd : PD} {d : Desc} {c : Cred} :
    ∀ (w : List Cred), firstMatch cfg re pd d w = .ok (some c) → accepts cfg re pd d c = .ok true
  | [], h => by simp [firstMatch] at h
  | c0 :: cs, h => by
    rw [firstMatch] at h
    cases hr : matchCredential cfg re d c0 with
    | ok b =>
      rw [hr] at h
      cases b with
      | true =>
        simp only at h
        by_cases hf : (matchFormat pd.format c0 && matchFormat d.format c0) = true
        · rw [if_pos hf] at h
          injection h with h; injection h with h; subst h
          unfold accepts; rw [hr]; simp only [hf]
        · rw [if_neg hf] at h
          exact firstMatch_some_accepts cs h
      | false => simp only at h; exact firstMatch_some_accepts cs h
    | err e => rw [hr] at h; cases h
    | panic s => rw [hr] at h; cases h

theorem firstMatch_skip_prefix {cfg : Cfg} {re : Regex} {pd : PD} {d : Desc} (rest : List Cred) :
    ∀ (pre : List Cred), (∀ x ∈ pre, accepts cfg re pd d x = .ok false) →
      firstMatch cfg re pd d (pre ++ rest) = firstMatch cfg re pd d rest
  | [], _ => rfl
  | x :: pre, h => by
    rw [List.cons_append, firstMatch_cons_reject (h x List.mem_cons_self)]
    exact firstMatch_skip_prefix rest pre (fun y hy => h y (List.mem_cons_of_mem _ hy))

/-- re-running the credential loop on the SELECTED credentials (preceded by any credentials every remaining
    descriptor rejects) reproduces the selection, when the selection is unambiguous -/
theorem rematch_constraints (cfg : Cfg) (re : Regex) (pd : PD) (wallet : List Cred) :
    ∀ (ds : List Desc) (cands : List Cand) (k : Nat) (pre : List Cred),
      matchConstraints cfg re pd wallet ds = .ok cands →
      cands.any (fun c => c.2.isNone) = false →
      Unambiguous cfg re pd cands →
      (∀ x ∈ pre, ∀ b ∈ cands, accepts cfg re pd b.1 x = .ok false) →
      matchConstraints cfg re pd (pre ++ (basicMappings k cands).2) ds = .ok cands
  | [], cands, k, pre, h, _, _, _ => by
    unfold matchConstraints at h; injection h with h; subst h
    rfl
  | d :: ds, cands, k, pre, h, hall, hun, hpre => by
    unfold matchConstraints at h
    cases hf : firstMatch cfg re pd d wallet with
    | ok oc =>
      rw [hf] at h; simp only at h
      cases hm : matchConstraints cfg re pd wallet ds with
      | ok r =>
        rw [hm] at h; simp only at h
        injection h with h; subst h
        cases oc with
        | none => simp at hall
        | some c =>
          have hall' : r.any (fun c => c.2.isNone) = false := by simpa using hall
          have hacc := firstMatch_some_accepts wallet hf
          obtain ⟨hhead, htail⟩ := List.pairwise_cons.mp hun
          have hbm : (basicMappings k ((d, some c) :: r)).2 = c :: (basicMappings (k + 1) r).2 := rfl
          rw [hbm]
          unfold matchConstraints
          have h1 : firstMatch cfg re pd d (pre ++ c :: (basicMappings (k + 1) r).2) = .ok (some c) := by
            rw [firstMatch_skip_prefix _ pre (fun x hx => hpre x hx (d, some c) List.mem_cons_self)]
            exact firstMatch_cons_accept hacc
          rw [h1]; simp only
          have h2 : pre ++ c :: (basicMappings (k + 1) r).2 = (pre ++ [c]) ++ (basicMappings (k + 1) r).2 := by simp
          rw [h2, rematch_constraints cfg re pd wallet ds r (k + 1) (pre ++ [c]) hm hall' htail ?_]
          intro x hx b hb
          rcases List.mem_append.mp hx with hx | hx
          · exact hpre x hx b (List.mem_cons_of_mem _ hb)
          · have hxc : x = c := by simpa using hx
            rw [hxc]; exact hhead b hb c rfl
      | err e => rw [hm] at h; cases h
      | panic s => rw [hm] at h; cases h
    | err e => rw [hf] at h; cases h
    | panic s => rw [hf] at h; cases h

/-- RE-MATCHING IS STABLE for definitions without submission requirements whose selection is unambiguous: `Match` on
    the selected credentials returns the same descriptor map and the same credentials. -/
theorem rematch_stable_basic (cfg : Cfg) (re : Regex) (pd : PD) (wallet : List Cred) (cands : List Cand)
    (ms : List Mapping) (vcs : List Cred) (hbasic : pd.srs = [])
    (hsel : matchConstraints cfg re pd wallet pd.descs = .ok cands)
    (hun : Unambiguous cfg re pd cands)
    (h : pdMatch cfg re pd wallet = .ok (ms, vcs)) : pdMatch cfg re pd vcs = .ok (ms, vcs) := by
  unfold pdMatch at h ⊢
  rw [hbasic] at h ⊢
  simp only [List.isEmpty_nil, Bool.not_true] at h ⊢
  unfold matchBasic at h ⊢
  rw [hsel] at h; simp only at h
  by_cases hn : cands.any (fun c => c.2.isNone) = true
  · rw [if_pos hn] at h; cases h
  · rw [if_neg hn] at h
    injection h with h
    have hv : (basicMappings 0 cands).2 = vcs := by rw [h]
    have := rematch_constraints cfg re pd wallet pd.descs cands 0 [] hsel (Bool.eq_false_iff.mpr hn) hun (by intro x hx; cases hx)
    rw [List.nil_append, hv] at this
    rw [this]; simp only
    rw [if_neg hn, h]
    simp

/-- WALLET AND VERIFIER AGREE, at full strength for definitions without submission requirements whose selection is
    unambiguous: `hstable` of `wallet_verifier_agree_partial` is no longer a hypothesis about re-matching — it is
    DERIVED from the wallet's own run (`hmatch`, `hsel`) and the structural condition `Unambiguous`. The verifier
    accepts the submission `Build` wrote (single-mapping rewrite included) and resolves exactly the expected mapping. -/
theorem wallet_verifier_agree_basic_unambiguous (re : Regex) (decode : Decoder) (pd : PD) (wallet : List Cred)
    (cands : List Cand) (env : Envelope) (ms : List Mapping) (vcs : List Cred)
    (hbasic : pd.srs = [])
    (hsel : matchConstraints Facts.C12.cfg re pd wallet pd.descs = .ok cands)
    (hun : Unambiguous Facts.C12.cfg re pd cands)
    (hmatch : pdMatch Facts.C12.cfg re pd wallet = .ok (ms, vcs))
    (hpres : env.presentations = [vcs]) (hsig : env.signerOK.any (fun b => !b) = false)
    (hids : (ms.map (·.id)).Nodup)
    (hcar : Carries decode env.asInterface (rewriteSingle ms) vcs) :
    ∃ m, validate Facts.C12.cfg re decode pd env (rewriteSingle ms) = .ok m ∧ expectedMap [] (rewriteSingle ms) vcs = .ok m :=
  wallet_verifier_agree_partial re decode pd env ms vcs hpres hsig
    (rematch_stable_basic Facts.C12.cfg re pd wallet cands ms vcs hbasic hsel hun hmatch) hids hcar

/-- the condition is exactly what the open finding's witness lacks: there the credential selected for `d1` (cB) is
    also accepted by the later descriptor `d2` -/
theorem disagree_witness_is_ambiguous :
    matchConstraints Cfg.fixed (fun _ _ => ReRes.noMatch) wPD [wA, wB] wPD.descs = .ok [(wPD.descs[0]!, some wB), (wPD.descs[1]!, some wA)] ∧
    ¬ Unambiguous Cfg.fixed (fun _ _ => ReRes.noMatch) wPD [(wPD.descs[0]!, some wB), (wPD.descs[1]!, some wA)] := by
  refine ⟨rfl, ?_⟩
  intro h
  have := (List.pairwise_cons.mp h).1 (wPD.descs[1]!, some wA) (by simp) wB rfl
  revert this
  decide

/-- non-vacuity: a two-descriptor definition whose selection IS unambiguous (d1 wants t = "B", d2 wants t = "A") -/
def uPD : PD :=
  { descs := [{ id := "d1", constraints := some [{ paths := [some { steps := [.key "t"] }], filter := some { type := "string", const := some "B" } }] },
              { id := "d2", constraints := some [{ paths := [some { steps := [.key "t"] }], filter := some { type := "string", const := some "A" } }] }] }

example : uPD.srs = [] ∧
    matchConstraints Cfg.fixed (fun _ _ => ReRes.noMatch) uPD [wA, wB] uPD.descs = .ok [(uPD.descs[0]!, some wB), (uPD.descs[1]!, some wA)] ∧
    pdMatch Cfg.fixed (fun _ _ => ReRes.noMatch) uPD [wA, wB] = .ok (wMs, [wB, wA]) := ⟨rfl, rfl, rfl⟩

example : Unambiguous Cfg.fixed (fun _ _ => ReRes.noMatch) uPD [(uPD.descs[0]!, some wB), (uPD.descs[1]!, some wA)] := by
  unfold Unambiguous
  refine List.pairwise_cons.mpr ⟨?_, List.pairwise_cons.mpr ⟨(fun a ha => by cases ha), List.Pairwise.nil⟩⟩
  intro b hb ca hca
  simp at hb; subst hb
  injection hca with hca; subst hca
  decide

end Nuts.C12.Props
