/-
  C04 (deepening round 2026-09-28) — "a UUID token id" and "signed by an authorised key": the jti grammar (uuid.Parse of
  google/uuid v1.6.0, NutsModel/C04/Uuid.lean) and the RSA strength rule of keyIsSecure.
  ONLY property theorems (+ non-vacuity examples + obligations on the regenerated facts).
-/
import NutsModel.C04.Uuid
import NutsModel.C04.Token
import NutsModel.Facts.C04

namespace Nuts.C04.Props
open Nuts.C04

/-! ### Obligations on the regenerated facts -/

/-- bestPracticesCheck tests the jti with `uuid.Validate` on `tokenJTI(token)` (a non-string jti is "") -/
theorem fact_jti_check :
    Facts.C04.jtiCheck = ["jti := tokenJTI(token)", "if err := uuid.Validate(jti); err != nil"]
    ∧ Facts.C04.jtiFunction = .validate
    ∧ Facts.C04.tokenJTIBody =
      "{ if jtiIface, ok := token.Get(jwt.JwtIDKey); ok { if jtiStr, ok := jtiIface.(string); ok { return jtiStr } } return \"\" }" := by
  refine ⟨by decide, by decide, by rfl⟩

/-- the grammar in Uuid.lean is the one of this version of the library (an upgrade needs a re-read of `Parse`) -/
theorem fact_uuid_module_version : Facts.C04.uuidModuleVersion = "v1.6.0" := by decide

/-- keyIsSecure measures an RSA key by the BIT length of its modulus (`N.BitLen()`), not by its size in bytes -/
theorem fact_rsa_strength_is_modulus_bit_length :
    Facts.C04.rsaStrengthCase =
      "if bitLen := rawKey.N.BitLen(); bitLen >= minimumRSAKeySize { return true, nil }; return false, fmt.Errorf(\"key is too weak (rsa keys must be at least %d-bit)\", minimumRSAKeySize)" := by
  rfl

/-! ### the jti grammar -/

theorem parseDashed_take (s : Str) (h : parseDashed s = true) : parseDashed (s.take 36) = true := by
  simp only [parseDashed, dashAt, hexPairAt, uuidHexOffsets, List.all_cons, List.all_nil, Bool.and_true, Bool.and_eq_true,
    decide_eq_true_eq] at h ⊢
  simp only [List.getElem?_take]
  simpa using h

/-- what may stand around the UUID proper -/
inductive Affix (pre post : Str) : Prop where
  | bare (h1 : pre = []) (h2 : post = [])
  | urn (h1 : isUrnPrefix pre = true) (h2 : post = [])
  | braces (h1 : pre = ['{']) (h2 : post = ['}'])

theorem head_of_take_one {s : Str} {c : Char} (h : s.head? = some c) : s.take 1 = [c] := by
  cases s with
  | nil => simp at h
  | cons a r => simp at h; simp [h]

theorem drop_37_of_last {s : Str} {c : Char} (hl : s.length = 38) (h : s.getLast? = some c) : s.drop 37 = [c] := by
  have h1 : (s.drop 37).length = 1 := by simp [hl]
  have h2 : (s.drop 37).getLast? = some c := by
    rw [List.getLast?_drop]; simp [hl, h]
  match hd : s.drop 37, h1 with
  | [x], _ => rw [hd] at h2; simp at h2; rw [h2]

/-- **jti_accepted_shapes** (every byte string): whatever the jti test accepts is a canonical 8-4-4-4-12 UUID or 32 hex
    digits, alone, or the canonical form behind a `urn:uuid:` prefix (any case), or the canonical form in braces.
    Nothing else — no free text before, after or between. -/
theorem jti_accepted_shapes (s : Str) (h : jtiOK Facts.C04.jtiFunction s = true) :
    ∃ pre core post, s = pre ++ core ++ post ∧ Affix pre post ∧
      (isCanonicalUuid core = true ∨ (core.length = 32 ∧ (List.range 16).all (fun i => hexPairAt core (2 * i)) = true ∧ pre = [] ∧ post = [])) := by
  rw [fact_jti_check.2.1] at h
  simp only [jtiOK] at h
  unfold uuidValidate at h
  split at h
  · next h36 => exact ⟨[], s, [], by simp, .bare rfl rfl, Or.inl (by simp [isCanonicalUuid, h36, h])⟩
  · split at h
    · next _ h45 =>
      simp only [Bool.and_eq_true] at h
      refine ⟨s.take 9, s.drop 9, [], by simp, .urn h.1 rfl, Or.inl ?_⟩
      simp only [isCanonicalUuid, Bool.and_eq_true, decide_eq_true_eq, List.length_drop]
      exact ⟨by omega, h.2⟩
    · split at h
      · next _ _ h38 =>
        simp only [Bool.and_eq_true, decide_eq_true_eq] at h
        obtain ⟨⟨hh, hlast⟩, hd⟩ := h
        refine ⟨s.take 1, (s.drop 1).take 36, s.drop 37, ?_, ?_, Or.inl ?_⟩
        · have : s.drop 37 = (s.drop 1).drop 36 := by simp
          rw [this, List.append_assoc, List.take_append_drop, List.take_append_drop]
        · exact .braces (head_of_take_one hh) (drop_37_of_last h38 hlast)
        · simp only [isCanonicalUuid, Bool.and_eq_true, decide_eq_true_eq, List.length_take, List.length_drop]
          exact ⟨by omega, parseDashed_take _ hd⟩
      · split at h
        · next h32 => exact ⟨[], s, [], by simp, .bare rfl rfl, Or.inr ⟨h32, h, rfl, rfl⟩⟩
        · simp at h

/-- `Validate` accepts nothing that `Parse` refuses -/
theorem validate_implies_parse (s : Str) (h : uuidValidate s = true) : uuidParse s = true := by
  unfold uuidValidate at h
  unfold uuidParse
  by_cases h36 : s.length = 36
  · simpa [h36] using h
  · by_cases h45 : s.length = 36 + 9
    · simpa [h36, h45] using h
    · by_cases h38 : s.length = 36 + 2
      · rw [if_neg h36, if_neg h45, if_pos h38] at h ⊢
        simp only [Bool.and_eq_true] at h
        exact h.2
      · rw [if_neg h36, if_neg h45, if_neg h38] at h ⊢
        exact h

/-- the defect of the code before the repair (witness replayed on the real middleware by the token harness, variant
    `jti-uuid-38-any-ends`): `uuid.Parse` takes ANY two bytes around a canonical UUID for braces -/
theorem uuid_parse_admits_non_uuid_38 :
    jtiOK .parse ("x".toList ++ "123e4567-e89b-12d3-a456-426614174000".toList ++ "y".toList) = true
    ∧ jtiOK .validate ("x".toList ++ "123e4567-e89b-12d3-a456-426614174000".toList ++ "y".toList) = false := by decide

/-- **uuid_with_extra_text_rejected**: a canonical UUID with ANY text around it whose total length is not 2 or 9 bytes
    (`batch-<uuid>`, `<uuid>-retry-17`, `<uuid><uuid>`, free text containing a UUID …) is not a UUID -/
theorem uuid_with_extra_text_rejected_parse (pre u post : Str) (hu : u.length = 36)
    (hk : pre.length + post.length ≠ 0 ∧ pre.length + post.length ≠ 2 ∧ pre.length + post.length ≠ 9) :
    uuidParse (pre ++ u ++ post) = false := by
  unfold uuidParse
  have hl : (pre ++ u ++ post).length = 36 + (pre.length + post.length) := by simp [hu]; omega
  rw [hl]
  have h1 : ¬ (36 + (pre.length + post.length) = 36) := by omega
  have h2 : ¬ (36 + (pre.length + post.length) = 36 + 9) := by omega
  have h3 : ¬ (36 + (pre.length + post.length) = 36 + 2) := by omega
  have h4 : ¬ (36 + (pre.length + post.length) = 32) := by omega
  rw [if_neg h1, if_neg h2, if_neg h3, if_neg h4]

theorem uuid_with_extra_text_rejected (fn : JtiFn) (pre u post : Str) (hu : u.length = 36)
    (hk : pre.length + post.length ≠ 0 ∧ pre.length + post.length ≠ 2 ∧ pre.length + post.length ≠ 9) :
    jtiOK fn (pre ++ u ++ post) = false := by
  have hp := uuid_with_extra_text_rejected_parse pre u post hu hk
  cases fn with
  | parse => exact hp
  | validate =>
    simp only [jtiOK]
    cases hv : uuidValidate (pre ++ u ++ post) with
    | false => rfl
    | true => rw [validate_implies_parse _ hv] at hp; exact absurd hp (by decide)

/-- non-vacuity and the remaining affix lengths on a concrete UUID: the accepted notations, and 2 / 9 bytes of text that
    are not the braces position / the URN prefix -/
def exUuid : Str := "123e4567-e89b-12d3-a456-426614174000".toList
example : uuidParse exUuid = true := by decide
example : uuidParse ("uRn:UUID:".toList ++ exUuid) = true := by decide
example : uuidParse ("{".toList ++ exUuid ++ "}".toList) = true := by decide
example : uuidParse "123e4567e89b12d3a456426614174000".toList = true := by decide
example : uuidParse ("batch-".toList ++ exUuid) = false := by decide
example : uuidParse (exUuid ++ "-retry-17".toList) = false := by decide      -- 9 bytes behind: not the URN form
example : uuidParse ("urn-uuid:".toList ++ exUuid) = false := by decide
example : uuidParse (exUuid ++ "-1".toList) = false := by decide            -- 2 bytes behind: dashes are off by one
example : uuidParse ("id".toList ++ exUuid) = false := by decide
example : uuidParse (exUuid ++ exUuid) = false := by decide
example : uuidParse [] = false := by decide
example : uuidValidate ("{".toList ++ exUuid ++ "}".toList) = true := by decide
example : uuidValidate ("x".toList ++ exUuid ++ "y".toList) = false := by decide
example : uuidValidate ("{".toList ++ exUuid ++ "-".toList) = false := by decide

/-! ### the RSA strength rule -/

/-- a rule that measures the key in whole bytes (`Size()*8 >= 2048`) admits 2041…2047-bit moduli, which the rule of the
    source (`N.BitLen() >= 2048`, regenerated fact above + `fact_authorized_keys`) refuses -/
theorem byte_rounded_strength_rule_admits_weak_keys (bits : Nat) (h : 2041 ≤ bits ∧ bits ≤ 2047) :
    (bits + 7) / 8 * 8 ≥ 2048 ∧ keyIsSecure Facts.C04.minimumRSAKeySize (.rsa bits) = false := by
  have : Facts.C04.minimumRSAKeySize = 2048 := by decide
  rw [this]
  simp only [keyIsSecure, ge_iff_le, decide_eq_false_iff_not, Nat.not_le]
  omega

example : keyIsSecure Facts.C04.minimumRSAKeySize (.rsa 2048) = true := by decide

end Nuts.C04.Props
