/-
  C19 — untrusted input never crashes or hangs the node.  PARTIAL BY NATURE: the statement is about ~20 entry points of
  the Go runtime; a theorem carries it only for the entry points whose code is inside a model (list below).  For those it is
  carried at full strength: every partial Go operation of the modelled functions is a `Res.panic` site
  (`panic_sites_accounted` ties the list of sites to the source's AST), Lean functions are total, and the two unbounded Go
  loops are modelled with explicit fuel so that termination is a theorem, not a by-product of the encoding.
  ONLY property theorems (+ non-vacuity examples + fact obligations).  Helper lemmas: NutsProofs/Lemmas/C19.lean.
  Models: NutsModel/C19/{Dpop,Resolver,Bitstring,Iblt,Murmur,Callback,Sites}.lean.
  Facts: NutsModel/Facts/C19.lean is REGENERATED from /repo on every run.
-/
import NutsModel.C19.Sites
import NutsModel.C19.Murmur
import NutsProofs.Lemmas.C19
import NutsProofs.Lemmas.C19DidWeb
import NutsProofs.Lemmas.C19HttpCache
import NutsProofs.Lemmas.C19CredMore

namespace Nuts.C19.Props
open Nuts Nuts.C19 Nuts.C19.Lemmas

/-! ### Obligations on the regenerated facts (a source change flips these) -/

set_option maxRecDepth 8192 in
/-- the partial operations (unchecked assertions, index/slice expressions, explicit dereferences, discarded errors,
    division by a non-literal, conversions to array pointers, loops, self-recursion, nil guards) of every modelled Go
    function are exactly the expected ones, and every expected panic site is a `Res.panic` site of a model -/
theorem panic_sites_accounted :
    Facts.C19.partialOps = Sites.expectedOps ∧
    (∀ s ∈ Sites.expectedSites, s ∈ (Dpop.sites ++ Resolver.sites ++ Bitstring.sites ++ Iblt.sites ++ Callback.sites ++ StatusList.sites ++ DidKey.sites ++ DidWeb.sites ++ Cred.sites ++ CredMore.sites ++ JsonLd.sites ++ Jwx.sites).map (·.2)) := by
  constructor <;> decide

/-- the source today is the repaired source: checked assertions in dpop.go and key.go, nil guards on verification
    methods, a bounded hash chain in bucketIndices with k capped at the number of buckets.  `withCallbackURI` still
    asserts unchecked (unreachable at its call sites: `callback_total_in_handler`); handleAuthorizeResponseSubmission rejects
    an envelope without presentations before validatePresentationNonce indexes `nonces[0]`. -/
theorem fact_cfg_is_fixed :
    Sites.dpopCfg = Dpop.Cfg.fixed ∧ Sites.resolverCfg = Resolver.Cfg.fixed ∧
    Sites.ibltCfg = { k := 6, chainBounded := true, maxChain := 64 } ∧ Facts.C19.bucketIndicesCapsK = true ∧
    Sites.callbackCfg = { assertChecked := false, envelopeGuard := true } ∧
    Sites.statusListCfg = StatusList.Cfg.fixed ∧ Sites.didKeyCfg = DidKey.Cfg.fixed := by decide

/-- constants the models use -/
theorem fact_constants :
    Facts.C19.bucketBytes = Iblt.bucketBytes ∧ Facts.C19.maxJtiLength = Dpop.maxJtiLength ∧
    Facts.C19.ibltK ≤ Facts.C19.ibltNumBuckets ∧ Facts.C19.ibltK < 256 ∧ 10 ≤ Facts.C19.ibltMaxChain ∧
    Facts.C19.defaultMaxServiceReferenceDepth = 5 := by decide

/-- every `http.Client` literal in http/client/client.go sets a Timeout (and `WithRedirectCheck` copies an existing client instead of building
    one: its inventory has `deref:*s.client` and no literal): an outbound fetch on an untrusted URL cannot wait for ever on a stalling server -/
theorem fact_http_clients_have_timeout :
    Facts.C19.httpClientLiterals ≠ [] ∧ ∀ l ∈ Facts.C19.httpClientLiterals, "Timeout" ∈ l := by decide

/-! ### crypto/dpop: Parse, HTU, HTM, Match, strip -/

/-- No DPoP proof (whatever jwx reports about it, whatever JSON values the htu/htm claims hold) and no Match arguments
    (whatever net/url.Parse does with them) make Parse, HTU, HTM, strip or Match panic.  Parse has no state; a rejected
    proof yields no token. -/
theorem dpop_total (up : Dpop.UrlParse) (i : Dpop.ParseIn) (tpEq : Bool) (method url : String) (t : Dpop.Token) (raw : String) :
    (∀ c s, Dpop.parse c i ≠ .panic s) ∧
    (∀ s, Dpop.htu Sites.dpopCfg t ≠ .panic s) ∧ (∀ s, Dpop.htm Sites.dpopCfg t ≠ .panic s) ∧
    (∀ s, Dpop.strip Sites.dpopCfg up raw ≠ .panic s) ∧
    (∀ s, Dpop.matchDpop Sites.dpopCfg up t tpEq method url ≠ .panic s) ∧
    (∀ s, Dpop.validate Sites.dpopCfg up i tpEq method url ≠ .panic s) := by
  rw [fact_cfg_is_fixed.1]
  refine ⟨fun c => parse_no_panic c i, htu_fixed_no_panic t, htm_fixed_no_panic t, strip_fixed_no_panic up raw,
    match_fixed_no_panic up t tpEq method url, ?_⟩
  intro s
  unfold Dpop.validate
  cases h : Dpop.parse Dpop.Cfg.fixed i with
  | ok t' => exact match_fixed_no_panic up t' tpEq method url s
  | err e => simp
  | panic p => exact absurd h (parse_no_panic _ i p)

/-- the repaired Parse only returns tokens whose htu and htm are non-empty strings -/
theorem dpop_parse_ok_claims_are_strings (i : Dpop.ParseIn) (t : Dpop.Token) (h : Dpop.parse Dpop.Cfg.fixed i = .ok t) :
    (∃ s, t.htu = some (.str s) ∧ s ≠ "") ∧ (∃ s, t.htm = some (.str s) ∧ s ≠ "") := by
  unfold Dpop.parse at h
  split at h
  · simp at h
  · simp at h
  · unfold Dpop.parseClaims at h
    repeat' split at h
    all_goals first | (cases h; done) | skip
    all_goals
      cases h
      exact ⟨claimCheck_ok_str _ _ ‹_›, claimCheck_ok_str _ _ ‹_›⟩

/-- non-vacuity: a valid proof is accepted and matches; the three witnesses of the unrepaired source are now errors -/
def goodIn : Dpop.ParseIn :=
  { jwsOk := true, nSigs := 1, algSupported := true, typ := "dpop+jwt", hasJwk := true, jwkPrivate := false, algFitsKey := true, jwtOk := true,
    iatZero := false, htu := some (.str "https://a/t"), htm := some (.str "POST"), jtiLen := 5 }
def upOk : Dpop.UrlParse := fun s => if s == "://x" then none else some s

example : Dpop.validate Dpop.Cfg.fixed upOk goodIn true "POST" "https://a/t" = .ok true := by decide
example : Dpop.validate Dpop.Cfg.fixed upOk { goodIn with htu := some (.num "5") } true "POST" "https://a/t" = .err "parse:invalid htu" := by decide
example : Dpop.validate Dpop.Cfg.fixed upOk { goodIn with htu := some (.str "://x") } true "POST" "https://a/t" = .err "invalid htu" := by decide
example : Dpop.validate Dpop.Cfg.fixed upOk goodIn true "POST" "://x" = .err "invalid url" := by decide

/-- NEGATION for the source before the repair (candidate #8), by concrete witnesses replayed on the real code
    (harness/corpus/C19/01_dpop.jsonl): `htu: 5` and `htm: 5` pass Parse and panic in HTU()/HTM(); an htu or an API url
    that url.Parse rejects makes strip dereference nil. -/
theorem dpop_unfixed_witnesses :
    Dpop.validate Dpop.Cfg.unfixed upOk { goodIn with htu := some (.num "5") } true "POST" "https://a/t" = .panic "HTU:v.(string)" ∧
    Dpop.validate Dpop.Cfg.unfixed upOk { goodIn with htm := some (.num "5") } true "POST" "https://a/t" = .panic "HTM:v.(string)" ∧
    Dpop.validate Dpop.Cfg.unfixed upOk { goodIn with htu := some (.str "://x") } true "POST" "https://a/t" = .panic "strip:url.Scheme(nil *url.URL)" ∧
    Dpop.validate Dpop.Cfg.unfixed upOk goodIn true "POST" "://x" = .panic "strip:url.Scheme(nil *url.URL)" := by decide

/-! ### vdr/resolver/key.go: baseUrl, ResolveKeyByID, ResolveKey -/

/-- `@base` of ANY JSON type, in any position of any `@context`, never makes baseUrl panic -/
theorem keyresolver_baseurl_total (ctx : List J) : ∀ s, Resolver.baseUrl Sites.resolverCfg ctx ≠ .panic s := by
  rw [fact_cfg_is_fixed.2.1]; exact baseUrl_fixed_no_panic _ rfl ctx

/-- ResolveKeyByID / ResolveKey never panic on any resolved document (any context values, null relationships, any key id,
    any relation type) PROVIDED go-did's PublicKey() does not panic on the document's verification methods (`KeysTotal`,
    a contract of the third-party library — breached by go-did v0.15.0 for a JsonWebKey2020 method without publicKeyJwk:
    open finding). -/
theorem keyresolver_total (keyID : String) (didOk : Bool) (doc : Option Resolver.KeyDoc) (rt : Nat)
    (hlib : ∀ d, doc = some d → ∀ i, KeysTotal (d.rels i)) :
    (∀ s, Resolver.resolveKeyByID Sites.resolverCfg keyID didOk doc rt ≠ .panic s) ∧
    (∀ s, Resolver.resolveKey Sites.resolverCfg doc rt ≠ .panic s) := by
  rw [fact_cfg_is_fixed.2.1]
  constructor
  · intro s
    unfold Resolver.resolveKeyByID
    split
    · simp
    · cases doc with
      | none => simp
      | some d =>
        simp only
        cases hb : Resolver.baseUrl Resolver.Cfg.fixed d.context with
        | panic p => exact absurd hb (baseUrl_fixed_no_panic _ rfl _ p)
        | err e => simp
        | ok base =>
          simp only
          split
          · simp
          · exact findKey_no_panic _ rfl keyID base _ (hlib d rfl rt) s
  · intro s
    unfold Resolver.resolveKey
    cases doc with
    | none => simp
    | some d =>
      simp only
      split
      · simp
      · exact firstKey_no_panic _ rfl _ (hlib d rfl rt) s

/-- non-vacuity + the repaired behaviour on the old witnesses -/
def keyDoc (ctx : List J) (rels : List Resolver.Rel) : Resolver.KeyDoc := { context := ctx, rels := fun _ => rels }
example : Resolver.resolveKeyByID Resolver.Cfg.fixed "did:web:x#k" true
    (some (keyDoc [.str "https://www.w3.org/ns/did/v1", .obj [("@base", .num "1")], .obj [("@base", .str "did:web:x")]]
      [{ vmNil := true, id := "", key := .ok }, { id := "#k", key := .ok }])) 1 = .ok "#k" := by decide

/-- NEGATION for the source before the repairs (candidate #9 and the null-relationship defect), by concrete witnesses
    replayed on the real code (harness/corpus/C19/02_resolver.jsonl) -/
theorem keyresolver_unfixed_witnesses :
    Resolver.resolveKeyByID Resolver.Cfg.unfixed "did:web:x#k" true (some (keyDoc [.obj [("@base", .num "1")]] [])) 1
      = .panic "baseUrl:val.(string)" ∧
    Resolver.resolveKeyByID Resolver.Cfg.unfixed "did:web:x#k" true (some (keyDoc [] [{ vmNil := true, id := "", key := .ok }])) 1
      = .panic "ResolveKeyByID:rel.ID(nil *VerificationMethod)" ∧
    Resolver.resolveKey Resolver.Cfg.unfixed (some (keyDoc [] [{ vmNil := true, id := "", key := .ok }])) 1
      = .panic "ResolveKey:keys[0].PublicKey()(nil *VerificationMethod)" := by decide

/-! ### vdr/resolver/service.go: Resolve / ResolveEx -/

/-- Service reference resolution terminates for every document graph (cycles, self references, dangling references):
    `Resolve(query, maxDepth)` runs at most `max(0, maxDepth) + 1` iterations of ResolveEx, whatever the resolver, the URI
    parsers and the documents return, and never panics (the cache map it passes is not nil). -/
theorem service_resolve_terminates (env : Resolver.Env) (query : String) (maxDepth : Int) :
    (Resolver.resolve env query maxDepth).2 ≤ maxDepth.toNat + 1 ∧
    ∀ s, (Resolver.resolve env query maxDepth).1 ≠ .panic s := by
  unfold Resolver.resolve
  have := resolveEx_spec env maxDepth (maxDepth - 0).toNat 0 query rfl
  simpa using this

/-- non-vacuity: a self-referencing service hits the depth limit after exactly maxDepth+1 iterations -/
def loopEnv : Resolver.Env :=
  { didOf := fun _ => some "did:web:a", resolve := fun _ => some [{ typ := "x", endpoint := .null, endpointStr := some "did:web:a/serviceEndpoint?type=x" }],
    queryType := fun _ => "x", uriOk := fun _ => true, refOk := fun _ => true }
example : Resolver.resolve loopEnv "did:web:a/serviceEndpoint?type=x" 5 = (.err "ErrServiceReferenceToDeep", 6) := by
  simp [Resolver.resolve, Resolver.resolveEx, loopEnv, Resolver.findSvc, Resolver.isServiceReference, hasPrefix]
/-- a caller of the exported ResolveEx that passes a nil cache map panics on the first cache write (no caller in /repo does) -/
example : (Resolver.resolveEx loopEnv true "did:web:a/serviceEndpoint?type=x" 0 5).1 = .panic "ResolveEx:documentCache[k]=v(nil map)" := by
  simp [Resolver.resolveEx, loopEnv]

/-! ### vcr/revocation/bitstring.go: bit, setBit -/

/-- For ANY integer index and ANY bitstring length, bit and setBit never index out of range: they return an error exactly
    when the index is negative or ≥ 8·len (then nothing is written), and setBit keeps the length. -/
theorem bitstring_total (bs : List Nat) (idx : Int) (v : Bool) :
    (∀ s, Bitstring.bit bs idx ≠ .panic s) ∧ (∀ s, Bitstring.setBit bs idx v ≠ .panic s) ∧
    ((∃ e, Bitstring.bit bs idx = .err e) ↔ (idx < 0 ∨ idx ≥ 8 * (bs.length : Int))) ∧
    (∀ r, Bitstring.setBit bs idx v = .ok r → r.length = bs.length) :=
  ⟨bit_no_panic bs idx, (setBit_spec bs idx v).1, bit_err_iff bs idx, (setBit_spec bs idx v).2⟩

example : Bitstring.bit [0x80, 0x01] 0 = .ok true ∧ Bitstring.bit [0x80, 0x01] 15 = .ok true ∧ Bitstring.bit [0x80, 0x01] 16 = .err "ErrIndexNotInBitstring"
    ∧ Bitstring.bit [0x80, 0x01] (-1) = .err "ErrIndexNotInBitstring" ∧ Bitstring.setBit [0, 0] 9 true = .ok [0, 0x40] := by decide

/-! ### network/dag/tree/iblt.go -/

/-- UnmarshalBinary is total on every byte string: an error exactly when the length is not a multiple of 44 (the check
    precedes every assignment, so the receiver is unchanged), otherwise len/44 buckets; the per-bucket length error and the
    array-pointer conversion are unreachable. -/
theorem iblt_unmarshal_total (data : List Nat) :
    (∀ s, Iblt.unmarshal data ≠ .panic s) ∧
    (data.length % Iblt.bucketBytes = 0 → ∃ bs, Iblt.unmarshal data = .ok bs ∧ bs.size = data.length / Iblt.bucketBytes) ∧
    (data.length % Iblt.bucketBytes ≠ 0 → Iblt.unmarshal data = .err "invalid data length") := by
  obtain ⟨h1, h2⟩ := unmarshal_spec data
  refine ⟨?_, h1, h2⟩
  intro s
  by_cases h : data.length % Iblt.bucketBytes = 0
  · obtain ⟨bs, hb, _⟩ := h1 h; rw [hb]; simp
  · rw [h2 h]; simp

/-- Subtract with a different number of buckets is an error, never an index panic; Subtract never panics at all and keeps
    the number of buckets.  (The model returns a new table: on error the receiver is unchanged by construction; the Go
    code checks before it writes — the harness digests the receiver.) -/
theorem subtract_mismatch_is_error (i o : Iblt.Table) :
    (i.buckets.size ≠ o.buckets.size → Iblt.subtract i o = .err "number of buckets do not match") ∧
    (∀ s, Iblt.subtract i o ≠ .panic s) ∧
    (∀ r, Iblt.subtract i o = .ok r → r.buckets.size = i.buckets.size) := subtract_spec i o

theorem ibltCfg_bounded : Sites.ibltCfg.chainBounded = true ∧ Sites.ibltCfg.k < Iblt.two32 := by decide

/-- bucketIndices (repaired) is total for EVERY hash function, every key hash and every table size — 0 buckets and fewer
    than k buckets included — and every index it returns is a valid bucket index. -/
theorem iblt_bucket_indices_total (H : Iblt.Hash) (numBuckets : Nat) (hash : BitVec 64) :
    ∃ ind, Iblt.bucketIndices Sites.ibltCfg H numBuckets hash = .ok ind ∧ ∀ i ∈ ind, i < numBuckets := by
  unfold Iblt.bucketIndices
  simp only [ibltCfg_bounded.1, ↓reduceIte]
  exact bucketIndicesNew_spec _ ibltCfg_bounded.2 H numBuckets hash

/-- … and it returns EXACTLY min(k, numBuckets) DISTINCT indices (what Insert/Delete rely on: a key is added to / removed
    from k different buckets), also when the hash chain is stuck on a short cycle and linear probing takes over -/
theorem iblt_bucket_indices_exact (H : Iblt.Hash) (numBuckets : Nat) (hnb : numBuckets ≤ 2147483648) (hash : BitVec 64) (ind : List Nat)
    (h : Iblt.bucketIndices Sites.ibltCfg H numBuckets hash = .ok ind) :
    ind.Nodup ∧ ind.length = min 6 numBuckets := by
  unfold Iblt.bucketIndices at h
  simp only [ibltCfg_bounded.1, ↓reduceIte] at h
  have := bucketIndicesNew_card Sites.ibltCfg ibltCfg_bounded.2 (by decide) H numBuckets hnb hash ind h
  simpa [fact_cfg_is_fixed.2.2.1] using this

/-- Insert and Delete of ANY key into ANY table succeed (no index panic, no hang) and keep the number of buckets -/
theorem iblt_insert_delete_total (H : Iblt.Hash) (bs : Array Iblt.Bucket) (key : Iblt.Key) :
    (∃ r, Iblt.insert Sites.ibltCfg H bs key = .ok r ∧ r.size = bs.size) ∧
    (∃ r, Iblt.delete Sites.ibltCfg H bs key = .ok r ∧ r.size = bs.size) :=
  ⟨insDel_spec _ ibltCfg_bounded.1 ibltCfg_bounded.2 H bs 1 key, insDel_spec _ ibltCfg_bounded.1 ibltCfg_bounded.2 H bs (-1) key⟩

/-- **Decode terminates** on EVERY table (a peer controls it in handleTransactionSet), for every hash function: the outer
    `for {` loop returns after at most 2^256 + 1 passes.  Measure: every pass that does not return adds a key to `pures` that
    was not in it (the ErrDecodeLoop guard), and there are 2^256 keys.  This bound is finite but astronomically large; see
    `iblt_decode_pass_bound` for the bound in terms of the output and `HonestDecodeStmt` for what is NOT proved. -/
theorem iblt_decode_terminates (H : Iblt.Hash) (bs : Array Iblt.Bucket) :
    ∃ r, Iblt.decodeLoop Sites.ibltCfg H (Iblt.keySpace + 1) (Iblt.DState.init bs) = some r :=
  let ⟨r, h, _⟩ := decode_spec _ ibltCfg_bounded.1 ibltCfg_bounded.2 H bs
  ⟨r, h⟩

/-- the fuel is irrelevant once it suffices: what Decode returns is a function of the table alone -/
theorem iblt_decode_fuel_irrelevant (c : Iblt.Cfg) (H : Iblt.Hash) (s : Iblt.DState) (f g : Nat) (r : Res Iblt.DState)
    (h : Iblt.decodeLoop c H f s = some r) (hfg : f ≤ g) : Iblt.decodeLoop c H g s = some r :=
  decodeLoop_fuel_mono c H f s r h g hfg

/-- Decode never panics (its bucket indexing, and the indexing inside the Insert/Delete it calls, stay in range) -/
theorem iblt_decode_total (H : Iblt.Hash) (bs : Array Iblt.Bucket) :
    ∃ r, Iblt.decode Sites.ibltCfg H bs = some r ∧ ∀ p, r ≠ .panic p :=
  decode_spec _ ibltCfg_bounded.1 ibltCfg_bounded.2 H bs

/-- when Decode succeeds, the number of passes it made is at most the number of keys it returns, plus one -/
theorem iblt_decode_pass_bound (H : Iblt.Hash) (bs : Array Iblt.Bucket) (r : Iblt.DState)
    (h : Iblt.decode Sites.ibltCfg H bs = some (.ok r)) : r.passes ≤ r.remaining.length + r.missing.length + 1 :=
  decodeLoop_pass_bound _ ibltCfg_bounded.1 ibltCfg_bounded.2 H _ _ r h (by simp [Iblt.DState.init]) (by simp [Iblt.DState.init])

/-- NOT PROVED (conjecture, stated for the record): for the difference of two honest tables (keys of A inserted, keys of B
    deleted, A and B disjoint, no two subsets of A ∪ B looking like one key to the 64-bit hash) Decode peels only keys of A ∪ B,
    hence makes at most |A| + |B| + 1 passes.  For adversarial tables only the bounds above are known: a peer that can build
    XOR-consistent chains in murmur3 (not a cryptographic hash) might make Decode run long; the harness measures passes on
    hostile tables (evidence: iblt_decode_passes_histogram). -/
def HonestDecodeStmt : Prop :=
  ∀ (H : Iblt.Hash) (n : Nat) (A B : List Iblt.Key), (∀ a ∈ A, a ∉ B) →
    ∀ t, (A.foldlM (fun bs k => Iblt.insert Sites.ibltCfg H bs k) (Array.replicate n Iblt.Bucket.zero) >>=
          fun bs => B.foldlM (fun bs k => Iblt.delete Sites.ibltCfg H bs k) bs) = .ok t →
    ∀ r, Iblt.decode Sites.ibltCfg H t = some (.ok r) → r.passes ≤ A.length + B.length + 1

/-- the peer-facing sequence of handleTransactionSet — UnmarshalBinary(msg.IBLT), Subtract from the node's own table,
    Decode — returns (never hangs) and never panics, for every byte string, every own table and every hash function -/
theorem iblt_handle_set_total (H : Iblt.Hash) (own : Iblt.Table) (data : List Nat) :
    ∃ r, Iblt.handleSet Sites.ibltCfg H own data = some r ∧ ∀ p, r ≠ .panic p := by
  unfold Iblt.handleSet
  cases hu : Iblt.unmarshal data with
  | panic p => exact absurd hu ((iblt_unmarshal_total data).1 p)
  | err e => exact ⟨_, rfl, by simp⟩
  | ok pb =>
    simp only
    cases hs : Iblt.subtract own { hc := own.hc, hk := own.hk, k := own.k, buckets := pb } with
    | panic p => exact absurd hs ((subtract_spec _ _).2.1 p)
    | err e => exact ⟨_, rfl, by simp⟩
    | ok diff => exact iblt_decode_total H diff.buckets

/-- a table with 0 buckets (UnmarshalBinary of 0 bytes) decodes to "empty" in one pass without ever reaching
    `% numBuckets` — for the unrepaired source as well (any Cfg) -/
theorem iblt_zero_buckets_never_divide (c : Iblt.Cfg) (H : Iblt.Hash) :
    Iblt.unmarshal [] = .ok #[] ∧ Iblt.decode c H #[] = some (.ok { buckets := #[], pures := [], remaining := [], missing := [], passes := 1 }) := by
  constructor
  · decide
  · unfold Iblt.decode Iblt.decodeLoop
    simp [Iblt.pass, Iblt.allEmpty, Iblt.DState.init]

/-- KERNEL-CHECKED FACT ABOUT murmur3: the chain next ↦ murmur3_32(seed 1, LE32(next)) that bucketIndices walks has a
    fixed point, a 2-cycle and a 3-cycle (exhaustive search over 2^32 in the harness: these six values are all). -/
theorem murmur_chain_short_cycles :
    Murmur.hash.next 4101757383 = 4101757383 ∧
    Murmur.hash.next 2381736504 = 3264639879 ∧ Murmur.hash.next 3264639879 = 2381736504 ∧
    Murmur.hash.next 1532747441 = 4107318918 ∧ Murmur.hash.next 4107318918 = 2685067771 ∧
    Murmur.hash.next 2685067771 = 1532747441 := murmur_cycles

/-- NEGATION for the source before the repair: with the real murmur3 and the production table size (1024 buckets, k = 6),
    a key whose chain starts at the fixed point makes the loop of bucketIndices run forever — for EVERY amount of fuel the
    loop has not returned.  Replayed on the real code with the key 0c00…e641e2… whose chain enters the 3-cycle
    (harness/corpus/C19/03_iblt.jsonl: Insert and handleTransactionSet's Decode time out). -/
theorem iblt_unbounded_chain_hangs :
    ∀ fuel, Iblt.chainOld Murmur.hash 1024 6 fuel 4101757383 [] = none :=
  chainOld_fixed_point_hangs' Murmur.hash 1024 6 (by decide) (by decide) 4101757383 murmur_cycles.1

/-- for the source before the repair, ANY hash function: a table with 1 ≤ n < k buckets hangs the first Insert/Delete
    (and so Decode on a pure bucket), and a table with 0 buckets divides by zero.  Not reachable from a peer (Subtract
    refuses a table whose size differs from the node's own, `fact_constants`: ibltK ≤ IbltNumBuckets), repaired anyway. -/
theorem iblt_small_table_hangs_unfixed (H : Iblt.Hash) (n k : Nat) (hn : n ≠ 0) (hk : n < k) (hash : BitVec 64) :
    (∀ fuel, Iblt.chainOld H n k fuel (H.first hash) [] = none) ∧
    (∀ fuel, Iblt.chainOld H 0 k (fuel + 1) (H.first hash) [] = some (.panic "bucketIndices:next % numBuckets")) :=
  ⟨fun fuel => chainOld_small_table_hangs H n k hn hk fuel _ [] (by simp) (by simp),
   fun fuel => chainOld_zero_buckets_panics H k (by omega) fuel _⟩

/-- non-vacuity: with the real murmur3 the repaired bucketIndices gives 6 distinct buckets for an ordinary hash and for the
    fixed point's chain (the chain phase, here cut to 4 steps, stays at bucket 455; linear probing from there finds the rest) -/
example : Iblt.chainPhase Murmur.hash 1024 6 4 4101757383 0 [] = .ok ([455], 455) := by decide
example : Iblt.probePhase 1024 6 455 1023 1 [455] = .ok [455, 456, 457, 458, 459, 460] := by decide

/-! ### auth/api/iam/openid4vp.go: withCallbackURI -/

/-- stand-alone, `withCallbackURI` is partial: any error that is not an `oauth.OAuth2Error` value panics (candidate #21) -/
theorem callback_standalone_partial (m : String) :
    Callback.withCallbackURI Sites.callbackCfg (.raw m) = .panic "withCallbackURI:err.(oauth.OAuth2Error)" := by
  rw [fact_cfg_is_fixed.2.2.2.2.1]; rfl

/-- … but in handleAuthorizeResponseSubmission it is never reached with such an error, for ANY list of presentations:
    `validatePresentationAudience` returns the raw ParseLDProof error only for a JSON-LD presentation whose proof does not
    parse, and `validatePresentationNonce` — which runs first and calls the same (deterministic) ParseLDProof through
    extractChallenge — has then already returned an OAuth2Error.  So candidate #21 is NOT a reachable defect (holds with the
    unchecked assertion).  The handler's other partial operation, `nonces[0]` in validatePresentationNonce, is in range
    because an envelope without presentations is rejected first (`envelopeGuard`, a regenerated fact). -/
theorem callback_total_in_handler (ps : List (Callback.Pres × Bool)) (storeOk : Bool) :
    (∀ c : Callback.Cfg, c.envelopeGuard = true → ∀ s, Callback.handleSubmission c ps storeOk ≠ .panic s) ∧
    (∀ s, Callback.handleSubmission Sites.callbackCfg ps storeOk ≠ .panic s) :=
  ⟨fun c hg => handleSubmission_no_panic c hg ps storeOk,
   handleSubmission_no_panic _ (by rw [fact_cfg_is_fixed.2.2.2.2.1]) ps storeOk⟩

/-- WITHOUT that guard the empty envelope (`vp_token=[]`, which pe.ParseEnvelope accepts) panics: the loop over zero
    presentations collects no error and `nonces[0]` indexes an empty slice -/
theorem callback_empty_envelope_needs_guard (c : Callback.Cfg) (hg : c.envelopeGuard = false) (storeOk : Bool) :
    Callback.handleSubmission c [] storeOk = .panic "validatePresentationNonce:nonces[0]" := by
  simp [Callback.handleSubmission, hg, Callback.validatePresentationNonce, Callback.noncesOf]

/-- non-vacuity: the malformed-proof presentation is answered with an OAuth2 error by the nonce check -/
example : Callback.handleSubmission { assertChecked := false }
    [({ format := .jsonld, ldProofOk := false, nonce := "", audOk := false }, true)] true = .ok (some (.oauth2 "invalid_request")) := by decide
example : Callback.handleSubmission { assertChecked := false } [] true = .ok (some (.oauth2 "invalid_request")) := by decide
example : Callback.handleSubmission { assertChecked := false }
    [({ format := .jwt, ldProofOk := true, nonce := "n", audOk := true }, true)] true = .ok none := by decide
/-- and the audience check alone WOULD hand withCallbackURI a raw error -/
example : Callback.audienceLoop { assertChecked := false }
    [({ format := .jsonld, ldProofOk := false, nonce := "n", audOk := false }, true)] = .panic "withCallbackURI:err.(oauth.OAuth2Error)" := by decide

/-! ### vcr/revocation/statuslist2021_verifier.go: validate, update, Verify's loop; vdr/didkey/resolver.go: Resolve -/

/-- For EVERY downloaded credential (whatever go-did's accessors report: any number of subjects incl. none, any member
    missing, nil or zero expirationDate), any expand/signature result and any list of credentialStatus entries with any index:
    validate, update and the per-entry loop of Verify never panic; update returns a record only after download, validate,
    expand, signature and subject id all succeeded (so a rejected status list credential leaves the SQL store unchanged). -/
theorem statuslist_total (url : String) (d : Option StatusList.Cred) (ex : String → Option (List Nat)) (sig : Bool) (es : List StatusList.Entry) :
    (∀ cr s, StatusList.validate Sites.statusListCfg cr ≠ .panic s) ∧
    (∀ s, StatusList.update Sites.statusListCfg url d ex sig ≠ .panic s) ∧
    (∀ s, StatusList.verifyEntries es ≠ .panic s) ∧
    (∀ r, StatusList.update Sites.statusListCfg url d ex sig = .ok r →
      ∃ cr subj bits, d = some cr ∧ StatusList.validate Sites.statusListCfg cr = .ok subj ∧ ex subj.encodedList = some bits ∧ sig = true ∧ url = subj.id) := by
  rw [fact_cfg_is_fixed.2.2.2.2.2.1]
  exact ⟨fun cr => sl_validate_no_panic _ rfl cr, sl_update_no_panic _ rfl rfl url d ex sig, sl_verifyEntries_no_panic es,
    fun r h => sl_update_ok_checked _ url d ex sig r h⟩

/-- without the two guards the witnesses panic: no credentialSubject at all → `target[0]`; no expirationDate → nil `IsZero()` -/
def goodCred : StatusList.Cred :=
  { hasVCContext := true, hasSLContext := true, isVCType := true, isSLCType := true, nTypes := 2, idNil := false, issuanceZero := false,
    jsonldWithoutProof := false, hasStatus := false, subjects := some [⟨"u", "StatusList2021", "revocation", "L"⟩], expiration := some false }
theorem statuslist_guards_needed :
    StatusList.validate ⟨false, true⟩ { goodCred with subjects := some [] } = .panic "validate:target[0]" ∧
    StatusList.update ⟨true, false⟩ "u" (some { goodCred with expiration := none }) (fun _ => some [0]) true = .panic "update:cred.ExpirationDate.IsZero()(nil)" ∧
    StatusList.update StatusList.Cfg.fixed "u" (some { goodCred with expiration := none }) (fun _ => some [0]) true = .ok ⟨"u", "revocation", [0], false⟩ ∧
    StatusList.update StatusList.Cfg.fixed "u" (some goodCred) (fun _ => some [0]) true = .ok ⟨"u", "revocation", [0], true⟩ := by decide

/-- did:key Resolve never panics, for every DID string / decoding result / codec / key length (the library calls are data) -/
theorem didkey_total (i : DidKey.In) : ∀ s, DidKey.resolve Sites.didKeyCfg i ≠ .panic s := by
  rw [fact_cfg_is_fixed.2.2.2.2.2.2]; exact didkey_no_panic _ rfl i

example : DidKey.resolve DidKey.Cfg.fixed { method := "key", encodedKey := ['z', '6'], b58Ok := true, keyType := some 0xed, keyLength := 32, rsaSize := none, vmOk := true } = .ok () := by decide
example : DidKey.resolve ⟨false⟩ { method := "key", encodedKey := [], b58Ok := false, keyType := none, keyLength := 0, rsaSize := none, vmOk := true } = .panic "Resolve:encodedKey[0]" := by decide

/-! ### the models panic only at listed sites (ties the `sites` lists to the model functions, any Cfg) -/

theorem model_panics_only_at_listed_sites :
    (∀ c up i tp m u s, Dpop.validate c up i tp m u = .panic s → s ∈ Dpop.sites.map (·.2)) ∧
    (∀ c ctx s, Resolver.baseUrl c ctx = .panic s → s ∈ Resolver.sites.map (·.2)) ∧
    (∀ c keyID didOk doc rt s, Resolver.resolveKeyByID c keyID didOk doc rt = .panic s → s ∈ Resolver.sites.map (·.2)) ∧
    (∀ c doc rt s, Resolver.resolveKey c doc rt = .panic s → s ∈ Resolver.sites.map (·.2)) ∧
    (∀ bs idx v s, Bitstring.bit bs idx ≠ .panic s ∧ Bitstring.setBit bs idx v ≠ .panic s) ∧
    (∀ c e s, Callback.withCallbackURI c e = .panic s → s ∈ Callback.sites.map (·.2)) := by
  refine ⟨?_, ?_, fun c keyID didOk doc rt s h => resolveKeyByID_sites c keyID didOk doc rt s h,
    fun c doc rt s h => resolveKey_sites c doc rt s h,
    fun bs idx v s => ⟨bit_no_panic bs idx s, (setBit_spec bs idx v).1 s⟩, ?_⟩
  · intro c up i tp m u s h
    exact dpop_validate_sites c up i tp m u s h
  · intro c ctx s h
    induction ctx with
    | nil => simp [Resolver.baseUrl] at h
    | cons x rest ih =>
      cases x with
      | obj kvs =>
        unfold Resolver.baseUrl at h
        split at h
        · exact ih h
        · simp at h
        · split at h
          · exact ih h
          · cases h; simp [Resolver.sites]
      | _ => unfold Resolver.baseUrl at h; exact ih h
  · intro c e s h
    unfold Callback.withCallbackURI at h
    split at h
    · simp at h
    · split at h
      · simp at h
      · cases h; simp [Callback.sites]

/-! ### did:web (deepening round): vdr/didweb/util.go DIDToURL, percentDecodeString, percentDecodeChar and web.go Resolve -/

/-- the did:web source today: slice guard `i+2 < len(s)`, length guard in percentDecodeChar, null-entry guard before the DID
    library; the characters percentDecodeChar decodes are EXACTLY the ones shouldPercentEncode encodes (both `switch` case lists
    are regenerated), neither `/` nor `%` nor `.` nor `?` nor `#` is among them; the content types and the status test of Resolve -/
theorem fact_didweb :
    Sites.didWebCfg = DidWeb.Cfg.fixed ∧ Facts.C19.didwebEncodeSet = Facts.C19.didwebDecodeSet ∧
    (∀ x ∈ [47, 37, 46, 63, 35, 92], x ∉ Facts.C19.didwebDecodeSet) ∧
    Facts.C19.didwebSliceGuards = ["s[i] == '%' && i + 2 < len(s)", "ok"] ∧
    Facts.C19.didwebStatusTests = ["!(httpResponse.StatusCode >= 200 && httpResponse.StatusCode < 300)"] := by
  decide

/-- percentDecodeString returns a string — no panic, no error — for EVERY byte string -/
theorem didweb_percent_decode_total (s : DidWeb.Bytes) : ∃ out, DidWeb.percentDecode Sites.didWebCfg s = .ok out := by
  rw [fact_didweb.1]; exact dw_decode_from_ok DidWeb.Cfg.fixed 2 rfl (Nat.le_refl 2) s 0

/-- the guard must demand TWO more bytes: with `i+1 < len(s)` (or without a guard) the input "%2" panics at the slice -/
theorem didweb_percent_decode_guard_needed :
    DidWeb.percentDecode { DidWeb.Cfg.fixed with sliceGuard := some 1 } [37, 50] = .panic "percentDecodeString:s[i:i+3]" ∧
    DidWeb.percentDecode { DidWeb.Cfg.fixed with sliceGuard := none } [97, 37] = .panic "percentDecodeString:s[i:i+3]" ∧
    DidWeb.percentDecodeChar { DidWeb.Cfg.fixed with charLenGuard := false } [37, 50] = .panic "percentDecodeChar:encoded[2]" := by
  decide

/-- the loop consumes at least one byte per output byte (termination with a bound), for every configuration of the guards -/
theorem didweb_percent_decode_length (c : DidWeb.Cfg) (s out : DidWeb.Bytes) (h : DidWeb.percentDecode c s = .ok out) :
    out.length ≤ s.length := dw_decode_from_length c s 0 out h

/-- percent-decoding never INTRODUCES a byte outside the decode set: in particular no `/`, `%`, `.`, `?`, `#`, `\` appears in the
    URL path that was not literally in the DID (no path traversal through `%2F`, `%2E`) -/
theorem didweb_percent_decode_only_allowed (s out : DidWeb.Bytes) (h : DidWeb.percentDecode Sites.didWebCfg s = .ok out) :
    (∀ y ∈ out, y ∈ s ∨ y ∈ Facts.C19.didwebDecodeSet) ∧
    (∀ x ∈ [47, 37, 46, 63, 35, 92], x ∉ s → x ∉ out) := by
  have h1 := dw_decode_from_only_allowed Sites.didWebCfg s 0 out h
  refine ⟨h1, ?_⟩
  intro x hx hns ho
  rcases h1 x ho with h2 | h2
  · exact hns h2
  · exact fact_didweb.2.2.1 x hx h2

example : DidWeb.percentDecode DidWeb.Cfg.fixed [47, 97, 37, 50, 66, 98, 37, 50, 70, 37] = .ok [47, 97, 43, 98, 37, 50, 70, 37] := by decide

/-- url.PathUnescape (re-implemented, compared with the real one on every run) is the identity on strings without `%` -/
theorem didweb_path_unescape_plain (s : DidWeb.Bytes) (h : 37 ∉ s) : DidWeb.pathUnescape s = some s :=
  dw_unescape_no_percent s h

/-- DIDToURL never panics: every DID value (any method, any ID bytes), every behaviour of url.Parse / net.ParseIP -/
theorem didweb_did_to_url_total (up : DidWeb.UrlParse) (method : String) (id : DidWeb.Bytes) :
    ∀ site, DidWeb.didToURL Sites.didWebCfg up method id ≠ .panic site := by
  intro site
  unfold DidWeb.didToURL
  have := dw_target_no_panic Sites.didWebCfg didweb_percent_decode_total method id
  split
  · intro h; cases h
  · rename_i s hs; exact absurd hs (this s)
  · split
    · intro h; cases h
    · split
      · intro h; cases h
      · split <;> (intro h; cases h)

/-- what an accepted DID guarantees: method web, the host url.Parse found IS the unescaped first segment of the id, and it is
    not an IP address -/
theorem didweb_did_to_url_ok (up : DidWeb.UrlParse) (method : String) (id : DidWeb.Bytes) (p : DidWeb.Parsed)
    (h : DidWeb.didToURL Sites.didWebCfg up method id = .ok p) :
    method = "web" ∧ DidWeb.pathUnescape (DidWeb.splitColon id).1 = some p.host ∧ p.isIP = false ∧
    ∃ t, DidWeb.didTarget Sites.didWebCfg method id = .ok t ∧ up (DidWeb.targetURL t) = some p := by
  unfold DidWeb.didToURL at h
  split at h
  · cases h
  · cases h
  · rename_i t ht
    split at h
    · cases h
    · rename_i p' hp
      split at h
      · cases h
      · rename_i hhost
        split at h
        · cases h
        · rename_i hip
          cases h
          have hhost' : p.host = t.1 := by simpa using hhost
          refine ⟨?_, ?_, by simpa using hip, t, ht, hp⟩
          · unfold DidWeb.didTarget at ht
            split at ht
            · cases ht
            · rename_i hm; simpa using hm
          · unfold DidWeb.didTarget at ht
            split at ht
            · cases ht
            · simp only at ht
              split at ht
              · cases ht
              · cases ht
              · split at ht
                · cases ht
                · rename_i uid hu
                  split at ht
                  · cases ht
                  · cases ht
                  · cases ht
                    rw [hhost']; exact hu

/-- did:web Resolve never panics — every DID value, every url.Parse behaviour, every HTTP exchange — PROVIDED go-did's
    Document.UnmarshalJSON panics only on bodies that RejectNullKeyEntries rejects (the third-party contract; see the open finding) -/
theorem didweb_resolve_total (up : DidWeb.UrlParse) (method : String) (id : DidWeb.Bytes) (h : DidWeb.Http)
    (contract : h.unmarshal = .panic → h.nullEntries = true) :
    ∀ site, DidWeb.resolve Sites.didWebCfg up method id h ≠ .panic site := by
  intro site
  have hg : Sites.didWebCfg.nullGuard = true := by rw [fact_didweb.1]; rfl
  unfold DidWeb.resolve
  split
  · intro x; cases x
  · split
    · intro x; cases x
    · rename_i s hs; exact absurd hs (didweb_did_to_url_total up method id s)
    · cases hu : h.unmarshal
      case panic =>
        have hne := contract hu
        simp only [hg, hne, Bool.and_self, if_true]
        repeat' split
        all_goals (intro x; cases x; try contradiction)
      all_goals
        repeat' split
        all_goals (intro x; cases x; try contradiction)

/-- END TO END (DID value + HTTP exchange → decision): a document is returned only if the method is web, DIDToURL accepted the id,
    the status is 2xx, the content type is one of the source's `case` list, the body passed the null-entry guard, go-did parsed
    it and its id equals the DID; the URL fetched is the parsed path (or /.well-known) + /did.json -/
theorem didweb_resolve_ok (up : DidWeb.UrlParse) (method : String) (id : DidWeb.Bytes) (h : DidWeb.Http) (path : DidWeb.Bytes)
    (hr : DidWeb.resolve Sites.didWebCfg up method id h = .ok path) :
    method = "web" ∧ (∃ p, DidWeb.didToURL Sites.didWebCfg up method id = .ok p ∧ path = DidWeb.requestPath p) ∧
    h.reqOk = true ∧ h.doOk = true ∧ 200 ≤ h.status ∧ h.status < 300 ∧ (∃ ct, h.ct = some ct ∧ ct ∈ Facts.C19.didwebContentTypes) ∧
    h.readOk = true ∧ h.nullEntries = false ∧ h.unmarshal = .ok ∧ h.idEquals = true := by
  have hg : Sites.didWebCfg.nullGuard = true := by rw [fact_didweb.1]; rfl
  have hc : Sites.didWebCfg.contentTypes = Facts.C19.didwebContentTypes := rfl
  unfold DidWeb.resolve at hr
  split at hr
  · cases hr
  · rename_i hm
    split at hr
    · cases hr
    · cases hr
    · rename_i p hp
      split at hr; · cases hr
      split at hr; · cases hr
      split at hr; · cases hr
      split at hr
      · cases hr
      · rename_i ct hct
        split at hr; · cases hr
        split at hr; · cases hr
        split at hr; · cases hr
        split at hr
        · cases hr
        · cases hr
        · split at hr
          · cases hr
          · cases hr
            rename_i hmm _ _ _ _ _ _ _ _ _ _
            refine ⟨by simpa using hm, ⟨p, hp, rfl⟩, ?_, ?_, ?_, ?_, ⟨ct, hct, ?_⟩, ?_, ?_, ?_, ?_⟩ <;> simp_all

/-- without the null-entry guard a body go-did panics on takes the node down (the state of the code before 9dd29f8) -/
theorem didweb_null_guard_needed :
    DidWeb.resolve { DidWeb.Cfg.fixed with nullGuard := false } (fun _ => some ⟨[120], [], false⟩) "web" [120]
      ⟨true, true, 200, some "application/json", true, true, .panic, false⟩ = .panic "Resolve>did.Document.UnmarshalJSON" ∧
    DidWeb.resolve DidWeb.Cfg.fixed (fun _ => some ⟨[120], [], false⟩) "web" [120]
      ⟨true, true, 200, some "application/json", true, true, .panic, false⟩ = .err "unmarshal" := by
  decide

example : DidWeb.resolve DidWeb.Cfg.fixed (fun _ => some ⟨[120], [], false⟩) "web" [120]
    ⟨true, true, 200, some "application/did+json", true, false, .ok, true⟩ = .ok (DidWeb.wellKnown ++ DidWeb.didJson) := by decide
example : DidWeb.didToURL DidWeb.Cfg.fixed (fun _ => some ⟨[120], [47, 97], false⟩) "web" [120, 58, 97] = .ok ⟨[120], [47, 97], false⟩ := by decide
example : DidWeb.didToURL DidWeb.Cfg.fixed (fun _ => none) "web" [120, 58, 97, 58] = .err "empty-path" := by decide


/-! ### DID documents from the network (w8m1): ambassador.handleNetworkEvent → callback -/

/-- EVERY place in vdr / network / discovery / auth / vcr / didman / storage that unmarshals bytes into a did.Document is known,
    and the two that run on bytes from a peer or a remote server (ambassador.callback, did:web Resolve) call
    resolver.RejectNullKeyEntries FIRST (go-did dereferences null key entries while it resolves relationship references) -/
theorem fact_doc_unmarshal_guarded :
    Facts.C19.didDocUnmarshals = Sites.expectedDocUnmarshals ∧ Sites.ambassadorCfg = Ambassador.Cfg.fixed := by
  decide

/-- the DAG subscriber for DID documents never panics, whatever the transaction and the payload bytes — PROVIDED go-did's
    Document.UnmarshalJSON panics only on payloads that RejectNullKeyEntries rejects (third-party contract) -/
theorem ambassador_callback_total (i : Ambassador.In) (contract : i.unmarshal = .panic → i.nullEntries = true) :
    ∀ site, Ambassador.handleNetworkEvent Sites.ambassadorCfg i ≠ .panic site ∧ Ambassador.callback Sites.ambassadorCfg i ≠ .panic site := by
  intro site
  rw [fact_doc_unmarshal_guarded.2]
  have hcb : Ambassador.callback Ambassador.Cfg.fixed i ≠ .panic site := by
    unfold Ambassador.callback
    cases hu : i.unmarshal
    case panic =>
      have hne := contract hu
      simp only [hne, Ambassador.Cfg.fixed, Bool.and_self, if_true]
      repeat' split
      all_goals (intro x; cases x; try contradiction)
    all_goals
      repeat' split
      all_goals (intro x; cases x; try contradiction)
  refine ⟨?_, hcb⟩
  unfold Ambassador.handleNetworkEvent
  split
  · intro x; cases x
  · split <;> (intro x; cases x)
  · rename_i s hs
    intro x; cases x
    exact hcb hs

/-- a rejected payload never reaches the create/update handler (stored state unchanged on error), and a payload with null key
    entries is always rejected as a non-retried fatal event -/
theorem ambassador_callback_rejects (i : Ambassador.In) :
    (∀ e, Ambassador.callback Sites.ambassadorCfg i = .err e → e ≠ "database" → e ≠ "handle" →
        (i.payloadTypeOk && i.payloadHashSet && i.signingTimeSet && !i.nullEntries && (i.unmarshal == .ok) && i.validateOk) = false) ∧
    (i.nullEntries = true → Ambassador.handleNetworkEvent Sites.ambassadorCfg i = .ok .fatal) := by
  rw [fact_doc_unmarshal_guarded.2]
  constructor
  · intro e h hdb hh
    unfold Ambassador.callback at h
    cases hpt : i.payloadTypeOk <;> cases hph : i.payloadHashSet <;> cases hst : i.signingTimeSet <;> cases hne : i.nullEntries <;>
      cases hu : i.unmarshal <;> cases hv : i.validateOk <;> simp_all [Ambassador.Cfg.fixed]
    all_goals (cases hh' : i.handled <;> simp_all)
  · intro hne
    unfold Ambassador.handleNetworkEvent Ambassador.callback
    cases hpt : i.payloadTypeOk <;> cases hph : i.payloadHashSet <;> cases hst : i.signingTimeSet <;> simp [Ambassador.Cfg.fixed, hne]

/-- without the pre-check (seeded mutation w8m1) the payload `"verificationMethod":[null]` + a key reference kills the subscriber -/
theorem ambassador_null_guard_needed :
    Ambassador.handleNetworkEvent ⟨false⟩ ⟨true, true, true, true, .panic, false, .ok⟩ = .panic "callback>did.Document.UnmarshalJSON" ∧
    Ambassador.handleNetworkEvent ⟨true⟩ ⟨true, true, true, true, .panic, false, .ok⟩ = .ok .fatal := by
  decide

example : Ambassador.handleNetworkEvent Ambassador.Cfg.fixed ⟨true, true, true, false, .ok, true, .ok⟩ = .ok .done := by decide
example : Ambassador.handleNetworkEvent Ambassador.Cfg.fixed ⟨true, true, true, false, .ok, true, .dbErr⟩ = .ok .retry := by decide


/-! ### HTTP response cache (http/client/caching.go): the make-room loop that hung before b991549 -/

theorem fact_httpcache : Sites.httpCacheCfg = HttpCache.Cfg.fixed := by decide

/-- TERMINATION of `for h.head != nil && size+len > max { _ = h.pop() }` WITHOUT fuel: every iteration strictly shortens the
    expiry list, so from ANY cache state and for ANY body length the loop exits within (length of the list)+1 iterations;
    the closed form `makeRoom` never reports a hang and ends in a state in which the loop condition is false -/
theorem httpcache_make_room_terminates (len : Int) (s : HttpCache.St) :
    (∀ s', HttpCache.step Sites.httpCacheCfg len s = some s' → s'.list.length < s.list.length) ∧
    HttpCache.iter Sites.httpCacheCfg len (s.list.length + 1) s = none ∧
    HttpCache.makeRoom Sites.httpCacheCfg len s ≠ .hang ∧
    (∀ s', HttpCache.makeRoom Sites.httpCacheCfg len s = .done s' → HttpCache.step Sites.httpCacheCfg len s' = none) := by
  rw [fact_httpcache]
  refine ⟨fun s' h => hc_step_decreases _ rfl len s s' h, hc_iter_exits _ rfl len _ s (Nat.le_refl _),
    hc_make_room_no_hang _ rfl len s.max s.list s.index s.cur, fun s' h => (hc_make_room_done _ len s.max s.list s.index s.cur s' h).1⟩

/-- RoundTrip of a GET never hangs in the cache, whatever the cache state, the clock, the URL and the response -/
theorem httpcache_roundtrip_total (now : Int) (url : String) (fresh : Option HttpCache.Entry) (s : HttpCache.St) :
    (HttpCache.roundTrip Sites.httpCacheCfg now url fresh s).1 ≠ .hang := by
  rw [fact_httpcache]
  unfold HttpCache.roundTrip
  simp only
  split
  · intro h; cases h
  · split
    · intro h; cases h
    · unfold HttpCache.insert
      split
      · intro h; cases h
      · split
        · rename_i hm
          exact absurd hm (hc_make_room_no_hang _ rfl _ _ _ _ _)
        · intro h; cases h

/-- the loop as it was before the repair: on the EMPTY cache a cacheable body of exactly maxBytes makes the loop body a no-op
    while its condition holds — the state after n iterations is the state before, for every n (it spins for ever, mutex held);
    so does an over-full cache once its list has been emptied -/
theorem httpcache_unguarded_loop_spins :
    (∀ n, HttpCache.iter HttpCache.Cfg.before 5 n (HttpCache.St.empty 5) = some (HttpCache.St.empty 5)) ∧
    HttpCache.insert HttpCache.Cfg.before ⟨1, "u", 5, 60⟩ (HttpCache.St.empty 5) = .hang ∧
    HttpCache.insert HttpCache.Cfg.before ⟨2, "v", 10, 60⟩ ⟨[⟨1, "u", 3, 30⟩], [⟨1, "u", 3, 30⟩], 3, 10⟩ = .hang ∧
    HttpCache.insert HttpCache.Cfg.fixed ⟨1, "u", 5, 60⟩ (HttpCache.St.empty 5) = .done ⟨[⟨1, "u", 5, 60⟩], [⟨1, "u", 5, 60⟩], 5, 5⟩ := by
  refine ⟨?_, by decide, by decide, by decide⟩
  intro n
  induction n with
  | zero => rfl
  | succ k ih => unfold HttpCache.iter; exact ih

/-- INVARIANT over ALL reachable cache states (any sequence of GET round trips from the empty cache, any clock, any
    responses): currentSizeBytes is exactly the sum of the body sizes on the expiry list and never exceeds maxBytes -/
theorem httpcache_size_invariant (now : Int) (url : String) (fresh : Option HttpCache.Entry) (s s' : HttpCache.St)
    (h : Inv s) (hr : (HttpCache.roundTrip Sites.httpCacheCfg now url fresh s).1 = .done s') : Inv s' ∧ s'.max = s.max := by
  unfold HttpCache.roundTrip at hr
  simp only at hr
  have hg := hc_removeExpired_inv now s.list s h
  split at hr
  · cases hr; exact hg
  · split at hr
    · cases hr; exact hg
    · rename_i e
      have := hc_insert_inv _ e _ s' hg.1 hr
      exact ⟨this.1, by rw [this.2]; exact hg.2⟩

example : Inv (HttpCache.St.empty 100) := ⟨rfl, by decide⟩
example : (HttpCache.roundTrip HttpCache.Cfg.fixed 0 "u" (some ⟨2, "u", 60, 90⟩) ⟨[⟨1, "t", 50, 30⟩], [⟨1, "t", 50, 30⟩], 50, 100⟩).1
    = .done ⟨[⟨2, "u", 60, 90⟩], [⟨2, "u", 60, 90⟩], 60, 100⟩ := by decide


/-! ### vcr/credential helpers run on a presentation before its signature is verified -/

theorem fact_cred : Sites.credCfg = Cred.Cfg.fixed := by decide

theorem cred_loop_no_panic (acc : String) (subs : List (Option String)) : ∀ s, Cred.resolveLoop Cred.Cfg.fixed acc subs ≠ .panic s := by
  intro s
  induction subs generalizing acc with
  | nil => intro h; cases h
  | cons x rest ih =>
    cases x with
    | none => intro h; cases h
    | some d =>
      unfold Cred.resolveLoop
      split
      · intro h; cases h
      · exact ih d

/-- ResolveSubjectDID, ParseLDProof, PresentationSigner, PresenterIsCredentialSubject never panic: any number of credentials,
    any SubjectDID() results, any format, any kid / verification method, any number of proofs -/
theorem cred_total (vp : Cred.VP) :
    ∀ s, Cred.resolveSubjectDID Sites.credCfg vp.subjects ≠ .panic s ∧ Cred.parseLDProof Sites.credCfg vp ≠ .panic s ∧
      Cred.presentationSigner Sites.credCfg vp ≠ .panic s ∧ Cred.presenterIsCredentialSubject Sites.credCfg vp ≠ .panic s := by
  intro s
  rw [fact_cred]
  have h1 : Cred.resolveSubjectDID Cred.Cfg.fixed vp.subjects ≠ .panic s := cred_loop_no_panic "" vp.subjects s
  have h2 : ∀ s, Cred.parseLDProof Cred.Cfg.fixed vp ≠ .panic s := by
    intro s; unfold Cred.parseLDProof
    simp only [Cred.Cfg.fixed, if_true]
    repeat' split
    all_goals (intro h; cases h)
  have h3 : ∀ s, Cred.presentationSigner Cred.Cfg.fixed vp ≠ .panic s := by
    intro s; unfold Cred.presentationSigner
    repeat' split
    all_goals first
      | (intro h; cases h; done)
      | (rename_i s' hs; exact absurd hs (h2 s'))
      | (intro h; cases h; rename_i hs; exact absurd hs (h2 _))
  refine ⟨h1, h2 s, h3 s, ?_⟩
  unfold Cred.presenterIsCredentialSubject
  split
  · intro h; cases h
  · rename_i s' hs; exact absurd hs (h3 s')
  · split
    · intro h; cases h
    · rename_i s' hs; exact absurd hs (cred_loop_no_panic "" vp.subjects s')
    · split <;> (intro h; cases h)

theorem cred_loop_sound (c : Cred.Cfg) (subs : List (Option String)) (hne : ∀ x ∈ subs, x ≠ some "") :
    ∀ acc d, Cred.resolveLoop c acc subs = .ok d → (∀ x ∈ subs, x = some d) ∧ (acc ≠ "" → d = acc) ∧ (subs = [] → d = acc) := by
  induction subs with
  | nil =>
    intro acc d h
    cases h
    exact ⟨fun x hx => (nomatch hx), fun _ => rfl, fun _ => rfl⟩
  | cons x rest ih =>
    intro acc d h
    cases x with
    | none => unfold Cred.resolveLoop at h; split at h <;> cases h
    | some y =>
      unfold Cred.resolveLoop at h
      split at h
      · cases h
      · rename_i hc
        have hy : y ≠ "" := fun e => hne (some y) List.mem_cons_self (by rw [e])
        obtain ⟨h1, h2, _⟩ := ih (fun x hx => hne x (List.mem_cons_of_mem _ hx)) y d h
        have hd : d = y := h2 hy
        refine ⟨?_, ?_, fun e => by cases e⟩
        · intro x hx
          rcases List.mem_cons.mp hx with e | e
          · rw [e, hd]
          · exact h1 x e
        · intro ha
          simp only [bne_iff_ne, ne_eq, Bool.and_eq_true, not_and, Decidable.not_not] at hc
          rw [hd]; exact (hc ha).symm

/-- what a non-nil answer of PresenterIsCredentialSubject guarantees (go-did's SubjectDID never returns an empty DID): the DID is
    the signer's, and EVERY credential in the presentation has exactly that subject -/
theorem cred_presenter_sound (vp : Cred.VP) (d : String) (hne : ∀ x ∈ vp.subjects, x ≠ some "")
    (h : Cred.presenterIsCredentialSubject Sites.credCfg vp = .ok (some d)) :
    Cred.presentationSigner Sites.credCfg vp = .ok d ∧ ∀ x ∈ vp.subjects, x = some d := by
  unfold Cred.presenterIsCredentialSubject at h
  split at h
  · cases h
  · cases h
  · rename_i signer hs
    split at h
    · cases h
    · cases h
    · rename_i subj hsub
      split at h
      · cases h
      · rename_i hq
        cases h
        have hq' : subj = d := by simpa using hq
        subst hq'
        exact ⟨hs, (cred_loop_sound _ vp.subjects hne "" subj hsub).1⟩

/-- both guards are needed: dropping the SubjectDID error dereferences nil, `len(proofs) > 1` lets proofs[0] run on no proof -/
theorem cred_guards_needed :
    Cred.resolveSubjectDID ⟨false, true⟩ [some "did:x:a", none] = .panic "ResolveSubjectDID:*sid" ∧
    Cred.presentationSigner ⟨true, false⟩ ⟨.ldp, none, true, 0, none, []⟩ = .panic "ParseLDProof:proofs[0]" ∧
    Cred.presenterIsCredentialSubject Cred.Cfg.fixed ⟨.ldp, none, true, 0, none, []⟩ = .err "proof-count" := by decide

example : Cred.presenterIsCredentialSubject Cred.Cfg.fixed ⟨.jwt, some "did:x:a#k", false, 0, some "did:x:a", [some "did:x:a", some "did:x:a"]⟩ = .ok (some "did:x:a") := by decide
example : Cred.presenterIsCredentialSubject Cred.Cfg.fixed ⟨.jwt, some "did:x:a#k", false, 0, some "did:x:a", [some "did:x:a", some "did:x:b"]⟩ = .err "not-same-subject" := by decide
example : Cred.presenterIsCredentialSubject Cred.Cfg.fixed ⟨.ldp, none, true, 1, some "did:x:b", [some "did:x:a"]⟩ = .ok none := by decide


/-! ### the remaining vcr/credential/util.go helpers: PresentationIssuanceDate / ExpirationDate, AutoCorrectSelfAttestedCredential, FilterOnDIDMethod -/

theorem fact_credmore : Sites.credMoreCfg = CredMore.Cfg.fixed ∧ Sites.credCfg = Cred.Cfg.fixed := by decide

/-- No presentation (any format, any number of proofs incl. none, proof without `expires`, JWT without nbf/iat/exp) makes
    PresentationIssuanceDate or PresentationExpirationDate panic. -/
theorem cred_dates_total (vp : Cred.VP) (d : CredMore.Dates) :
    ∀ s, CredMore.issuanceDate Sites.credCfg vp d ≠ .panic s ∧ CredMore.expirationDate Sites.credMoreCfg Sites.credCfg vp d ≠ .panic s := by
  intro s
  rw [fact_credmore.1, fact_credmore.2]
  constructor
  · unfold CredMore.issuanceDate
    split
    · split <;> (intro h; cases h)
    · split
      · intro h; cases h
      · rename_i s' hs; exact absurd hs (parseLDProof_fixed_no_panic vp s')
      · intro h; cases h
    · intro h; cases h
  · unfold CredMore.expirationDate
    split
    · intro h; cases h
    · split
      · intro h; cases h
      · rename_i s' hs; exact absurd hs (parseLDProof_fixed_no_panic vp s')
      · split
        · simp only [CredMore.Cfg.fixed, if_true]; intro h; cases h
        · intro h; cases h
    · intro h; cases h

/-- where a non-nil date comes from: a JWT's nbf, else its iat; a JSON-LD presentation's date only when it has EXACTLY one proof
    (which go-did could unmarshal), and then that proof's `created` / `expires`; never a zero time, never another format -/
theorem cred_dates_source (c : CredMore.Cfg) (cc : Cred.Cfg) (vp : Cred.VP) (d : CredMore.Dates) (t : String) :
    (CredMore.issuanceDate cc vp d = .ok (some t) →
      (vp.format = .jwt ∧ (d.nbf = some t ∨ (d.nbf = none ∧ d.iat = some t))) ∨
      (vp.format = .ldp ∧ Cred.parseLDProof cc vp = .ok () ∧ d.created = some t)) ∧
    (CredMore.expirationDate c cc vp d = .ok (some t) →
      (vp.format = .jwt ∧ d.exp = some t) ∨
      (vp.format = .ldp ∧ Cred.parseLDProof cc vp = .ok () ∧ d.expires = some (some t))) := by
  constructor
  · intro h
    unfold CredMore.issuanceDate at h
    split at h
    · rename_i hf
      split at h
      · rename_i t' hn
        have ht : t' = t := by injection h with h; injection h
        subst ht; exact .inl ⟨hf, .inl hn⟩
      · rename_i hn
        have hi : d.iat = some t := by injection h
        exact .inl ⟨hf, .inr ⟨hn, hi⟩⟩
    · rename_i hf
      split at h
      · cases h
      · cases h
      · rename_i u hp
        have hc : d.created = some t := by injection h
        cases u; exact .inr ⟨hf, hp, hc⟩
    · cases h
  · intro h
    unfold CredMore.expirationDate at h
    split at h
    · rename_i hf
      have he : d.exp = some t := by injection h
      exact .inl ⟨hf, he⟩
    · rename_i hf
      split at h
      · cases h
      · cases h
      · rename_i u hp
        cases u
        split at h
        · split at h <;> cases h
        · rename_i t' he
          have ht : t' = some t := by injection h
          subst ht; exact .inr ⟨hf, hp, he⟩
    · cases h

/-- No credential makes AutoCorrectSelfAttestedCredential panic: any number of proofs, any member missing, any credentialSubject
    (absent, scalar = nil map after the discarded unmarshal error, several) — under encoding/json's contract that a slice
    re-read from its own JSON has the length of the original (`len(credentialSubject) == 1 → len(credential.CredentialSubject) ≥ 1`). -/
theorem cred_autocorrect_total (i : CredMore.ACIn) (hlen : i.subj.length = 1 → 0 < i.nCS) :
    ∀ s, CredMore.autoCorrect Sites.credMoreCfg i ≠ .panic s := by
  intro s
  rw [fact_credmore.1]
  unfold CredMore.autoCorrect
  split
  · intro h; cases h
  · simp only [CredMore.Cfg.fixed, if_true]
    split
    · rename_i s0 hs
      have hn : 0 < i.nCS := hlen (by rw [hs]; rfl)
      unfold CredMore.acSubject
      simp only [if_true]
      cases s0 with
      | none =>
        simp only
        have : (i.nCS == 0) = false := by simp; omega
        rw [this]; intro h; cases h
      | some b =>
        cases b
        · simp only
          have : (i.nCS == 0) = false := by simp; omega
          rw [this]; intro h; cases h
        · simp only; intro h; cases h
    · intro h; cases h

/-- what AutoCorrectSelfAttestedCredential may change: nothing on a credential that carries a proof; otherwise only members that
    are MISSING (id, issuer, issuanceDate), and the subject id only when there is exactly one subject and it has no id —
    it never overwrites a value the client supplied -/
theorem cred_autocorrect_only_fills_missing (c : CredMore.Cfg) (i : CredMore.ACIn) (o : CredMore.ACOut)
    (h : CredMore.autoCorrect c i = .ok o) :
    (0 < i.nProof → o = CredMore.ACOut.untouched) ∧
    (o.setId = true → i.idNil = true) ∧ (o.setIssuer = true → i.issuerEmpty = true) ∧ (o.setDate = true → i.issuanceZero = true) ∧
    (o.setSubjectId = true → i.nProof = 0 ∧ ∃ s rest, i.subj = s :: rest ∧ s ≠ some true ∧ (c.subjLenExact = true → rest = [])) := by
  have hsub : ∀ (o0 : CredMore.ACOut) (s : Option Bool), o0.setSubjectId = false → CredMore.acSubject c i o0 s = .ok o →
      o.setId = o0.setId ∧ o.setIssuer = o0.setIssuer ∧ o.setDate = o0.setDate ∧ (o.setSubjectId = true → s ≠ some true) := by
    intro o0 s h0 hs
    unfold CredMore.acSubject at hs
    cases s with
    | none =>
      cases hg : c.nilMapGuard with
      | false => rw [hg] at hs; simp at hs
      | true =>
        rw [hg] at hs; simp only [if_true] at hs
        split at hs
        · cases hs
        · cases hs; exact ⟨rfl, rfl, rfl, fun _ h => by cases h⟩
    | some b =>
      cases b
      · simp only at hs
        split at hs
        · cases hs
        · cases hs; exact ⟨rfl, rfl, rfl, fun _ h => by cases h⟩
      · simp only at hs; cases hs; exact ⟨rfl, rfl, rfl, fun h => by rw [h0] at h; cases h⟩
  unfold CredMore.autoCorrect at h
  split at h
  · rename_i hp
    cases h
    refine ⟨fun _ => rfl, ?_, ?_, ?_, ?_⟩ <;> (intro h; cases h)
  · rename_i hp
    have hp0 : i.nProof = 0 := by omega
    simp only at h
    split at h
    · rename_i hx
      split at h
      · rename_i s hs
        have := hsub _ s rfl h
        refine ⟨fun h => by omega, ?_, ?_, ?_, ?_⟩
        · intro h1; rw [this.1] at h1; exact h1
        · intro h1; rw [this.2.1] at h1; exact h1
        · intro h1; rw [this.2.2.1] at h1; exact h1
        · intro h1; exact ⟨hp0, s, [], hs, this.2.2.2 h1, fun _ => rfl⟩
      · cases h
        refine ⟨fun h => by omega, fun h => h, fun h => h, fun h => h, fun h => by cases h⟩
    · rename_i hx
      split at h
      · cases h
      · rename_i s rest hs
        have := hsub _ s rfl h
        refine ⟨fun h => by omega, ?_, ?_, ?_, ?_⟩
        · intro h1; rw [this.1] at h1; exact h1
        · intro h1; rw [this.2.1] at h1; exact h1
        · intro h1; rw [this.2.2.1] at h1; exact h1
        · intro h1; exact ⟨hp0, s, rest, hs, this.2.2.2 h1, fun hc => by rw [hc] at hx; exact absurd rfl hx⟩

/-- all three guards are needed (the witnesses panic without them, and are handled with them) -/
theorem cred_more_guards_needed :
    CredMore.expirationDate ⟨false, true, true, true⟩ Cred.Cfg.fixed ⟨.ldp, none, true, 1, some "did:x:a", []⟩ ⟨none, none, none, some "t", none⟩
      = .panic "PresentationExpirationDate:*ldProof.Expires" ∧
    CredMore.expirationDate CredMore.Cfg.fixed Cred.Cfg.fixed ⟨.ldp, none, true, 1, some "did:x:a", []⟩ ⟨none, none, none, some "t", none⟩ = .ok none ∧
    CredMore.autoCorrect ⟨true, false, true, true⟩ ⟨0, true, true, true, [none], 1⟩ = .panic "AutoCorrectSelfAttestedCredential:credentialSubject[0][id]=nil-map" ∧
    CredMore.autoCorrect CredMore.Cfg.fixed ⟨0, true, true, true, [none], 1⟩ = .ok ⟨true, true, true, true⟩ ∧
    CredMore.autoCorrect ⟨true, true, false, true⟩ ⟨0, false, false, false, [], 0⟩ = .panic "AutoCorrectSelfAttestedCredential:credentialSubject[0]" ∧
    CredMore.autoCorrect CredMore.Cfg.fixed ⟨0, false, false, false, [], 0⟩ = .ok CredMore.ACOut.untouched := by decide

example : CredMore.issuanceDate Cred.Cfg.fixed ⟨.jwt, none, false, 0, none, []⟩ ⟨none, some "iat", none, none, none⟩ = .ok (some "iat") := by decide
example : CredMore.expirationDate CredMore.Cfg.fixed Cred.Cfg.fixed ⟨.ldp, none, true, 1, none, []⟩ ⟨none, none, none, none, some (some "e")⟩ = .ok (some "e") := by decide
example : CredMore.autoCorrect CredMore.Cfg.fixed ⟨0, false, true, false, [some false], 1⟩ = .ok ⟨false, true, false, true⟩ := by decide
example : CredMore.autoCorrect CredMore.Cfg.fixed ⟨1, true, true, true, [some false], 1⟩ = .ok CredMore.ACOut.untouched := by decide

/-! FilterOnDIDMethod -/

/-- FilterOnDIDMethod, for ANY list of credentials and ANY list of methods: (1) the result is a subsequence of the input (positions
    strictly increasing, all in range) — nothing is invented or duplicated; (2) SOUND and COMPLETE: a credential is kept exactly when its
    subject could be unmarshalled, its issuer — if it is a DID — has an allowed method, and so has every non-empty subject id that is a
    DID; (3) no methods = the input unchanged. -/
theorem cred_filter_correct (ms : List String) (creds : List CredMore.FCred) :
    (CredMore.filterOnDIDMethod Sites.credMoreCfg ms creds).Pairwise (· < ·) ∧
    (∀ k, k ∈ CredMore.filterOnDIDMethod Sites.credMoreCfg ms creds ↔
      ∃ cr, creds[k]? = some cr ∧ (ms = [] ∨
        (cr.subjOk = true ∧ (∀ m, cr.issuer = some m → m ∈ ms) ∧ ∀ b ∈ cr.subjects, ∀ m, b.idEmpty = false → b.method = some m → m ∈ ms))) := by
  rw [fact_credmore.1]
  unfold CredMore.filterOnDIDMethod
  simp only [CredMore.Cfg.fixed, Bool.true_and]
  cases ms with
  | nil =>
    simp only [List.isEmpty_nil, if_true]
    refine ⟨List.pairwise_lt_range, ?_⟩
    intro k
    rw [List.mem_range]
    constructor
    · intro h; exact ⟨creds[k], by simp [h], by simp⟩
    · intro ⟨cr, h, _⟩
      exact (List.getElem?_eq_some_iff.1 h).1
  | cons m0 mr =>
    simp only [List.isEmpty_cons, Bool.false_eq_true, if_false]
    refine ⟨(filterFrom_sorted _ creds 0).1, ?_⟩
    intro k
    rw [filterFrom_mem]
    have hkeep : ∀ cr : CredMore.FCred, CredMore.keep (m0 :: mr) cr = true ↔
        (cr.subjOk = true ∧ (∀ m, cr.issuer = some m → m ∈ (m0 :: mr)) ∧ ∀ b ∈ cr.subjects, ∀ m, b.idEmpty = false → b.method = some m → m ∈ (m0 :: mr)) := by
      intro cr
      unfold CredMore.keep
      cases hi : cr.issuer with
      | none =>
        simp only
        cases hs : cr.subjOk with
        | false => simp
        | true =>
          simp only [Bool.not_true, Bool.false_eq_true, if_false]
          rw [subjectsPass_iff]
          constructor
          · intro h; exact ⟨by simp, by simp, h⟩
          · intro h; exact h.2.2
      | some mi =>
        simp only
        by_cases hc : (m0 :: mr).contains mi = true
        · rw [hc]; simp only [Bool.not_true, Bool.false_eq_true, if_false]
          cases hs : cr.subjOk with
          | false => simp
          | true =>
            simp only [Bool.not_true, Bool.false_eq_true, if_false]
            rw [subjectsPass_iff]
            constructor
            · intro h; exact ⟨by simp, fun m hm => by cases hm; simpa using hc, h⟩
            · intro h; exact h.2.2
        · have hc' : (m0 :: mr).contains mi = false := by simpa using hc
          rw [hc']; simp only [Bool.not_false, if_true]
          constructor
          · intro h; cases h
          · intro h
            have := h.2.1 mi rfl
            exact absurd (by simpa using this) hc
    constructor
    · intro ⟨j, cr, hj, he, hk⟩
      have : k = j := by omega
      subst this
      exact ⟨cr, hj, .inr ((hkeep cr).1 hk)⟩
    · intro ⟨cr, hj, h⟩
      cases h with
      | inl h => cases h
      | inr h => exact ⟨k, cr, hj, by omega, (hkeep cr).2 h⟩

example : CredMore.filterOnDIDMethod CredMore.Cfg.fixed ["web"]
    [⟨some "web", true, [⟨false, some "web"⟩]⟩, ⟨some "nuts", true, []⟩, ⟨none, true, [⟨true, none⟩, ⟨false, some "nuts"⟩]⟩, ⟨none, false, []⟩, ⟨none, true, [⟨false, none⟩]⟩] = [0, 4] := by decide
example : CredMore.filterOnDIDMethod CredMore.Cfg.fixed [] [⟨some "nuts", false, []⟩, ⟨none, false, []⟩] = [0, 1] := by decide


/-! ### jsonld: the recover guard around the third-party JSON-LD processor -/

/-- every function of package jsonld that runs json-gold has a deferred call that recovers IN ITS OWN FRAME, and there are exactly three -/
theorem fact_jsonld : Sites.jsonldCfg = JsonLd.Cfg.fixed := by decide

/-- No document — whatever json-gold does with it, panics included — makes Canonicalize, ReadBytes or AllFieldsDefined panic; a
    processor panic is an ERROR (no result is returned). -/
theorem jsonld_total (i : JsonLd.In) :
    (∀ s, JsonLd.canonicalize Sites.jsonldCfg i ≠ .panic s ∧ JsonLd.readBytes Sites.jsonldCfg i ≠ .panic s ∧ JsonLd.allFieldsDefined Sites.jsonldCfg i ≠ .panic s) ∧
    (i.proc = .panic → ∃ e, JsonLd.canonicalize Sites.jsonldCfg i = .err e) ∧
    (JsonLd.canonicalize Sites.jsonldCfg i = .ok () → i.jsonOk = true ∧ i.proc = .ok) := by
  rw [fact_jsonld]
  have h : ∀ site s, JsonLd.guarded .direct site i ≠ .panic s := by
    intro site s; unfold JsonLd.guarded
    split
    · intro h; cases h
    · split <;> (intro h; cases h)
  refine ⟨fun s => ⟨h _ s, h _ s, h _ s⟩, ?_, ?_⟩
  · intro hp
    unfold JsonLd.canonicalize JsonLd.guarded
    simp only [JsonLd.Cfg.fixed]
    split
    · exact ⟨_, rfl⟩
    · rw [hp]; exact ⟨_, rfl⟩
  · intro hk
    unfold JsonLd.canonicalize JsonLd.guarded at hk
    simp only [JsonLd.Cfg.fixed] at hk
    split at hk
    · cases hk
    · rename_i hj
      split at hk
      · rename_i hp; exact ⟨by simpa using hj, hp⟩
      · cases hk
      · cases hk

/-- the guard must recover in the deferred function's own frame: with the SAME helper called from a deferred closure (seeded mutation
    w8m2: `defer func() { if recoverProcessorPanic(&err); err != nil { result = nil } }()`) a processor panic crashes the caller; so
    does a helper that no longer calls recover() itself; a closure that calls recover() itself is fine -/
theorem jsonld_guard_must_be_direct :
    JsonLd.guardOf ["recoverProcessorPanic"] [("ident", ["recoverProcessorPanic"])] = .direct ∧
    JsonLd.guardOf ["recoverProcessorPanic"] [("closure:calls", ["recoverProcessorPanic"])] = .nested ∧
    JsonLd.guardOf [] [("ident", ["recoverProcessorPanic"])] = .absent ∧
    JsonLd.guardOf ["recoverProcessorPanic"] [("closure:self", [])] = .direct ∧
    JsonLd.guardOf ["recoverProcessorPanic"] [] = .absent ∧
    JsonLd.guarded .nested "Canonicalize>ld" ⟨true, .panic⟩ = .panic "Canonicalize>ld" ∧
    JsonLd.guarded .absent "Canonicalize>ld" ⟨true, .panic⟩ = .panic "Canonicalize>ld" ∧
    JsonLd.guarded .direct "Canonicalize>ld" ⟨true, .panic⟩ = .err "invalid-document" := by decide

example : JsonLd.canonicalize JsonLd.Cfg.fixed ⟨true, .ok⟩ = .ok () := by decide
example : JsonLd.canonicalize JsonLd.Cfg.fixed ⟨true, .panic⟩ = .err "invalid-document" := by decide


/-! ### crypto/jwx.go JWTKidAlg, ParseJWT, ParseJWS -/

theorem fact_jwx : Sites.jwxCfg = Jwx.Cfg.fixed := by decide

/-- no token makes JWTKidAlg / ParseJWT / ParseJWS panic: any parse result, any number of signatures (0 included), any key
    function, any algorithm -/
theorem jwx_total (i : Jwx.In) :
    ∀ s, Jwx.jwtKidAlg Sites.jwxCfg i ≠ .panic s ∧ Jwx.parseJWT Sites.jwxCfg i ≠ .panic s ∧ Jwx.parseJWS Sites.jwxCfg i ≠ .panic s := by
  intro s
  rw [fact_jwx]
  have hs : ∀ site n s, Jwx.sigCheck true site n ≠ .panic s := by
    intro site n s; unfold Jwx.sigCheck; simp only [if_true]; split <;> (intro h; cases h)
  have h1 : ∀ s, Jwx.jwtKidAlg Jwx.Cfg.fixed i ≠ .panic s := by
    intro s; unfold Jwx.jwtKidAlg; split
    · intro h; cases h
    · exact hs _ _ s
  refine ⟨h1 s, ?_, ?_⟩
  · unfold Jwx.parseJWT
    split
    · intro h; cases h
    · rename_i s' hs'; exact absurd hs' (h1 s')
    · repeat' split
      all_goals (intro h; cases h)
  · unfold Jwx.parseJWS
    split
    · intro h; cases h
    · split
      · intro h; cases h
      · rename_i s' hs'; exact absurd hs' (hs _ _ s')
      · repeat' split
        all_goals (intro h; cases h)

/-- a token is accepted ONLY IF the library parsed it, it carries exactly one signature, the key function knows the kid, the
    algorithm is on the node's allow-list AND fits the key, and the library verified the signature with that key -/
theorem jwx_accepts_only_verified (i : Jwx.In) :
    (Jwx.parseJWT Sites.jwxCfg i = .ok () ∨ Jwx.parseJWS Sites.jwxCfg i = .ok ()) →
    i.parseOk = true ∧ i.nSigs = 1 ∧ i.keyOk = true ∧ i.algSupported = true ∧ i.algFitsKey = true ∧ i.verifyOk = true := by
  rw [fact_jwx]
  intro h
  cases hp : i.parseOk <;> cases hk : i.keyOk <;> cases ha : i.algSupported <;> cases hf : i.algFitsKey <;> cases hv : i.verifyOk <;>
    simp [Jwx.parseJWT, Jwx.parseJWS, Jwx.jwtKidAlg, Jwx.sigCheck, Jwx.Cfg.fixed, hp, hk, ha, hf, hv] at h ⊢ <;>
    (by_cases hn : i.nSigs = 1 <;> simp_all)

theorem jwx_guards_needed :
    Jwx.parseJWT ⟨false, true⟩ ⟨true, 0, true, true, true, true⟩ = .panic "JWTKidAlg:j.Signatures()[0]" ∧
    Jwx.parseJWS ⟨true, false⟩ ⟨true, 0, true, true, true, true⟩ = .panic "ParseJWS:signatures[0]" ∧
    Jwx.parseJWS Jwx.Cfg.fixed ⟨true, 2, true, true, true, true⟩ = .err "signatures" := by decide

example : Jwx.parseJWT Jwx.Cfg.fixed ⟨true, 1, true, true, true, true⟩ = .ok () := by decide
example : Jwx.parseJWS Jwx.Cfg.fixed ⟨true, 1, true, true, true, true⟩ = .ok () := by decide

end Nuts.C19.Props
