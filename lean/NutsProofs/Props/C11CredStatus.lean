/-
  C11 — the credentialStatus syntax check in front of the revocation logic (deepening round 2026-09-28).
  Wire entries → validator → re-parsed abstract entries → verdict; every list length, every string.
-/
import NutsModel.C11.CredStatus
import NutsProofs.Props.C11Wire
import NutsModel.Facts.C11
namespace Nuts.C11.Props
open Nuts Nuts.C11 Nuts.C11.Wire

/-- `validated_credential_entries_wellformed`: a credential that passed `validateCredentialStatus` has, for EVERY entry, an id and
    a type, and every StatusList2021Entry among them passed `Validate` (and the credential lists the StatusList2021 context). -/
theorem validated_credential_entries_wellformed (hasCtx : Bool) (urlOk : String → Bool) (sts : List WireEntry)
    (h : validateCredentialStatus hasCtx urlOk sts = .ok ()) :
    ∀ e ∈ sts, e.id ≠ "" ∧ e.type ≠ "" ∧ (e.type = "StatusList2021Entry" → hasCtx = true ∧ validateEntry urlOk e = .ok ()) := by
  induction sts with
  | nil => intro e he; cases he
  | cons a rest ih =>
    unfold validateCredentialStatus at h
    split at h
    · cases h
    · rename_i h1
      split at h
      · cases h
      · rename_i h2
        split at h
        · rename_i h3
          split at h
          · cases h
          · rename_i h4
            split at h
            · rename_i hv
              intro e he
              rcases List.mem_cons.mp he with rfl | he'
              · refine ⟨by simpa using h1, by simpa using h2, fun _ => ⟨by simpa using h4, hv⟩⟩
              · exact ih h e he'
            · cases h
            · cases h
        · rename_i h3
          intro e he
          rcases List.mem_cons.mp he with rfl | he'
          · refine ⟨by simpa using h1, by simpa using h2, fun ht => absurd (by simp [ht]) h3⟩
          · exact ih h e he'

/-- every status entry the revocation logic looks at (type StatusList2021Entry, purpose revocation) of a credential that
    passed the validator carries a parsed, non-negative index -/
theorem verify_wire_relevant_entries_have_index (hasCtx : Bool) (urlOk : String → Bool) (parse : String → Url) (sts : List WireEntry)
    (h : validateCredentialStatus hasCtx urlOk sts = .ok ()) :
    ∀ st ∈ sts.map (·.toStatus parse), st.relevant = true → ∃ i : Int, st.idx = some i ∧ 0 ≤ i ∧ i < (intLimit : Int) := by
  intro st hst hrel
  obtain ⟨e, he, rfl⟩ := List.mem_map.mp hst
  have hw := validated_credential_entries_wellformed hasCtx urlOk sts h e he
  have ht : e.type = "StatusList2021Entry" := by
    simp only [StatusEntry.relevant, WireEntry.toStatus, Bool.and_eq_true, beq_iff_eq] at hrel
    exact hrel.1
  obtain ⟨_, _, _, _, i, hi, h0, h1⟩ := validated_entry_fields urlOk e (hw.2.2 ht).2
  exact ⟨i, by simp [WireEntry.toStatus, hi], h0, h1⟩

/-- a credential whose credentialStatus is malformed never reaches the revocation logic: refused, world untouched (no download) -/
theorem malformed_status_refused_before_revocation_logic (E : Env) (i : Bool) (w : World) (cid : Option String) (issuer : String)
    (hasCtx : Bool) (urlOk : String → Bool) (parse : String → Url) (sts : List WireEntry) (nutsType rf : Bool)
    (validAt : Option Int) (now : Int) (period : Int → Bool) (x : String)
    (h : validateCredentialStatus hasCtx urlOk sts = .err x) :
    ∃ e, verifyWire E i w cid issuer hasCtx urlOk parse (some sts) nutsType rf validAt now period = (.err e, w) := by
  unfold verifyWire
  simp only [Option.getD_some, h]
  split
  · exact ⟨_, rfl⟩
  · exact ⟨_, rfl⟩

def exWireOk : WireEntry := { id := "https://l/1#3-0", type := "StatusList2021Entry", purpose := "revocation", index := "3", list := "https://l/1" }

example : validateCredentialStatus true (fun _ => true) [exWireOk, { exWireOk with type := "OtherStatus", index := "x" }] = .ok () := by decide
example : validateCredentialStatus true (fun _ => true) [exWireOk, { exWireOk with index := "-1" }] = .err "index" := by decide
example : validateCredentialStatus false (fun _ => true) [exWireOk] = .err "status-context" := by decide
example : validateCredentialStatus true (fun _ => true) [{ exWireOk with id := "" }] = .err "status-id" := by decide
example : (verifyWire exEnv false exWorld (some "did:a#1") "did:a" true (fun _ => true) Url.raw (some [{ exWireOk with index := "abc" }]) false false
    none 0 (fun _ => true)).1 = .err "validation:status" := by decide

/-! ### regenerated facts -/

/-- the default validator checks `credential.ID == nil` before, and `validateCredentialStatus` as the last of, its checks -/
theorem fact_default_validator_chain :
    Nuts.Facts.C11.defaultValidatorChain =
      ["!credential.IsType(vc.VerifiableCredentialTypeV1URI())", "!credential.ContainsContext(vc.VCContextV1URI())",
       "credential.Issuer.String() == \"\"", "credential.ID == nil", "credential.IssuanceDate.IsZero()",
       "err := validateCredentialStatus(credential); err != nil", "return nil"] := by decide

/-- the statements of `validateCredentialStatus`: nil status → ok; per entry: id, type, and for StatusList2021Entry the
    context, the unmarshalling and `cs.Validate()` — the model's `validateCredentialStatus` in the same order -/
theorem fact_validate_credential_status_chain :
    Nuts.Facts.C11.validateCredentialStatusChain =
      ["credential.CredentialStatus == nil", "stmt:statuses,err := credential.CredentialStatuses()", "err != nil", "range statuses {",
       "credentialStatus.ID.String() == \"\"", "credentialStatus.Type == \"\"", "switch credentialStatus.Type {",
       "case revocation.StatusList2021EntryType:", "!credential.ContainsContext(revocation.StatusList2021ContextURI)", "decl",
       "err = json.Unmarshal(credentialStatus.Raw(),&cs); err != nil", "err = cs.Validate(); err != nil", "}", "}", "return nil"] := by decide

end Nuts.C11.Props
