/-
  C14 (deepening round 2) — the real receivers' error classification (NutsModel.C14.Receivers) and its composition with
  the notifier: which errors are retried, which end delivery after one call, and that the ending ones stay visible.
-/
import NutsModel.C14.Receivers
import NutsModel.Facts.C14
import NutsProofs.Props.C14

namespace Nuts.C14.Props
open Nuts.C14

/-! ### vcr ambassador.handleError -/

/-- handleError answers in exactly one of three ways: retry with the SAME error, done, or the same error under EventFatal -/
theorem vcr_outcome_trichotomy (e : Err) :
    vcrHandleError e = ⟨false, some e⟩ ∨ vcrHandleError e = ⟨true, none⟩ ∨ vcrHandleError e = ⟨false, some (.fatal :: e)⟩ := by
  unfold vcrHandleError
  split
  · exact Or.inl rfl
  · split
    · exact Or.inr (Or.inl rfl)
    · split
      · split
        · exact Or.inl rfl
        · exact Or.inr (Or.inr rfl)
      · exact Or.inr (Or.inr rfl)

/-- the third conjunct `!errors.Is(err, ContextURLNotAllowedErr)` of the JSON-LD test never decides: the
    context-not-allowed case has returned before.  handleError is the four-way decision below. -/
theorem vcr_handleError_decision (e : Err) :
    vcrHandleError e =
      if errIs e .canceled || errIs e .deadline then ⟨false, some e⟩
      else if errIs e .ctxNotAllowed then ⟨true, none⟩
      else if firstJsonld e == some .loadingRemoteContextFailed then ⟨false, some e⟩
      else ⟨false, some (.fatal :: e)⟩ := by
  unfold vcrHandleError
  by_cases h1 : (errIs e .canceled || errIs e .deadline) = true
  · simp [h1]
  · by_cases h2 : errIs e .ctxNotAllowed = true
    · simp [h1, h2]
    · simp only [h1, h2, if_false, Bool.false_eq_true, Bool.not_false, Bool.and_true]
      cases h3 : firstJsonld e with
      | none => simp
      | some c => cases c <;> simp

/-- a context time-out / cancellation anywhere in the chain is retried with the error unchanged, whatever else is in it -/
theorem vcr_transient_is_retried (e : Err) (h : errIs e .canceled = true ∨ errIs e .deadline = true) :
    vcrHandleError e = ⟨false, some e⟩ := by
  unfold vcrHandleError
  have : (errIs e .canceled || errIs e .deadline) = true := by cases h <;> simp [*]
  simp [this]

theorem hasFatal_cons_fatal (e : Err) : hasFatal (.fatal :: e) = true := by simp [hasFatal]

theorem hasFatal_cons_msg (e : Err) : hasFatal (.msg :: e) = hasFatal e := by simp [hasFatal]

/-- for an error that does not already carry an EventFatal: the notifier ends delivery (fatal) exactly when the error is
    neither a context time-out/cancellation, nor context-not-allowed, nor a failed remote-context load -/
theorem vcr_fatal_iff (e : Err) (hnf : hasFatal e = false) :
    classify (vcrHandleError e) = .fatal ↔
      (errIs e .canceled = false ∧ errIs e .deadline = false ∧ errIs e .ctxNotAllowed = false ∧
        firstJsonld e ≠ some .loadingRemoteContextFailed) := by
  rw [vcr_handleError_decision]
  by_cases h1 : errIs e .canceled = true
  · simp [h1, classify, hnf]; split <;> simp
  · by_cases h2 : errIs e .deadline = true
    · simp [h2, classify, hnf]; split <;> simp
    · by_cases h3 : errIs e .ctxNotAllowed = true
      · simp [h1, h2, h3, classify]
      · by_cases h4 : firstJsonld e = some .loadingRemoteContextFailed
        · simp [h1, h2, h3, h4, classify, hnf]; split <;> simp
        · simp [h1, h2, h3, h4, classify, hasFatal]

/-- handleError never answers "(false, nil)": a vcr job is never counted as `incomplete` -/
theorem vcr_never_incomplete (e : Err) : classify (vcrHandleError e) ≠ .notDone := by
  rcases vcr_outcome_trichotomy e with h | h | h <;> rw [h] <;> simp [classify] <;> (repeat' split) <;> simp

/-- the context-not-allowed error (not cancelled) completes the event: no retry, no failed entry -/
theorem vcr_context_not_allowed_is_done (e : Err) (h : errIs e .ctxNotAllowed = true)
    (hc : errIs e .canceled = false) (hd : errIs e .deadline = false) : classify (vcrHandleError e) = .done := by
  rw [vcr_handleError_decision]; simp [hc, hd, h, classify]

/-! ### vdr ambassador.handleNetworkEvent, v2 handlePrivateTxRetry, network.emitEvents -/

/-- vdr: a callback error is retried exactly when its chain holds a stoabs.ErrDatabase; everything else is fatal -/
theorem vdr_fatal_iff_not_db (e : Err) (hnf : hasFatal e = false) :
    classify (vdrHandle (some e)) = .fatal ↔ hasDb e = false := by
  unfold vdrHandle
  by_cases h : hasDb e = true
  · simp [h, classify, hnf]; split <;> simp
  · simp [h, classify, hasFatal]

theorem vdr_ok_is_done : classify (vdrHandle none) = .done := by simp [vdrHandle, classify, RecvRes.ok]

/-- private: wrapping with `fmt.Errorf("…: %w", EventFatal{err})` keeps the fatality visible to the notifier's errors.As -/
theorem private_wrap_fatal_iff_not_db (e : Err) (hnf : hasFatal e = false) :
    classify (privWrap e) = .fatal ↔ hasDb e = false := by
  unfold privWrap
  by_cases h : hasDb e = true
  · simp [h, classify, hasFatal_cons_msg, hnf]; split <;> simp
  · simp [h, classify, hasFatal]

/-- private: without an error from the store / the PAL decryption the job is never ended as failed: it completes
    (payload there, not for us) or is retried (query sent: incomplete; nobody connected: plain error) -/
theorem private_no_error_never_fatal (present palNil : Bool) (sends : List (Bool × Bool)) :
    classify (privateRetry none present none palNil sends) ≠ .fatal := by
  unfold privateRetry
  cases present <;> cases palNil <;> cases h : (sends.any fun p => p.1 && !p.2) <;>
    simp [classify, RecvRes.ok, hasFatal, h]

/-- private: the first failing step decides; a payload that is present ends the job as done before the PAL is looked at -/
theorem private_present_is_done (decryptErr : Option Err) (palNil : Bool) (sends : List (Bool × Bool)) :
    classify (privateRetry none true decryptErr palNil sends) = .done := by
  simp [privateRetry, classify, RecvRes.ok]

/-- nats: emitEvents never produces an EventFatal of its own - an event that cannot be published is retried until the budget is spent -/
theorem nats_never_fatal (a m p : Option Err) (ha : ∀ e, a = some e → hasFatal e = false) (hm : ∀ e, m = some e → hasFatal e = false)
    (hp : ∀ e, p = some e → hasFatal e = false) :
    classify (natsEmit a m p) ≠ .fatal ∧ classify (natsEmit a m p) ≠ .notDone := by
  unfold natsEmit
  cases a with
  | some e => simp [classify, hasFatal_cons_msg, ha e rfl]; constructor <;> (split <;> simp)
  | none => cases m with
    | some e => simp [classify, hasFatal_cons_msg, hm e rfl]; constructor <;> (split <;> simp)
    | none => cases p with
      | some e => simp [classify, hasFatal_cons_msg, hp e rfl]; constructor <;> (split <;> simp)
      | none => simp [classify, RecvRes.ok]

/-! ### composition with the notifier (Notifier.lean `notifyNow`, `failedEvents`) -/

/-- a receiver answer the notifier reads as fatal: ONE call, the job stays on the shelf over the budget, marked fatal,
    the notifier reports `fatal` (no retry loop is started: notify_reschedules_unless_fatal) and the event is listed as failed -/
theorem fatal_answer_ends_delivery_visibly (c : Cfg) (hthr : c.failedThreshold ≤ c.maxRetries) (σ : St) (s r : Nat) (j : Job)
    (res : RecvRes) (hr : r < c.nRefs) (hj : σ.shelf s r = some j)
    (hbeh : c.beh s r (attemptNo σ s r) = classify res) (hf : classify res = .fatal) :
    (notifyNow c σ s r).2 = .fatal ∧
    (notifyNow c σ s r).1.shelf s r = some { j with retries := c.maxRetries + 1, err := .fatal } ∧
    r ∈ failedEvents c (notifyNow c σ s r).1 s ∧
    attemptNo (notifyNow c σ s r).1 s r = attemptNo σ s r + 1 := by
  have hs : (notifyNow c σ s r) =
      (setJob (log σ (.call s r j.type j.retries .fatal)) s r (some { j with retries := c.maxRetries + 1, err := .fatal }), .fatal) := by
    unfold notifyNow; simp only [hj, hbeh, hf]
  rw [hs]
  refine ⟨rfl, by simp [setJob], ?_, ?_⟩
  · apply failed_visible c hthr _ s r { j with retries := c.maxRetries + 1, err := .fatal } hr (by simp [setJob])
    show c.maxRetries ≤ c.maxRetries + 1; omega
  · simp [attemptNo, setJob, log, Entry.isCallOf]

/-- a receiver answer the notifier reads as a plain error: the job stays with one more recorded failure and the notifier
    reports a recoverable error (the retry loop goes on) -/
theorem plain_error_keeps_job (c : Cfg) (σ : St) (s r : Nat) (j : Job) (res : RecvRes) (hj : σ.shelf s r = some j)
    (hbeh : c.beh s r (attemptNo σ s r) = classify res) (hf : classify res = .fail) :
    (notifyNow c σ s r).2 = .err ∧
    (notifyNow c σ s r).1.shelf s r = some { j with retries := j.retries + 1, err := .generic } := by
  have hs : (notifyNow c σ s r) =
      (setJob (log σ (.call s r j.type j.retries .fail)) s r (some { j with retries := j.retries + 1, err := .generic }), .err) := by
    unfold notifyNow; simp only [hj, hbeh, hf]
  rw [hs]; exact ⟨rfl, by simp [setJob]⟩

/-- end to end for the vdr subscriber: a DID-document callback error that is not a database error is delivered once,
    never again by a retry loop, and stays listed as failed -/
theorem vdr_non_db_error_visible_after_one_call (c : Cfg) (hthr : c.failedThreshold ≤ c.maxRetries) (σ : St) (s r : Nat) (j : Job)
    (e : Err) (hr : r < c.nRefs) (hj : σ.shelf s r = some j) (hnf : hasFatal e = false) (hdb : hasDb e = false)
    (hbeh : c.beh s r (attemptNo σ s r) = classify (vdrHandle (some e))) :
    (notifyNow c σ s r).2 = .fatal ∧ r ∈ failedEvents c (notifyNow c σ s r).1 s := by
  have hf := (vdr_fatal_iff_not_db e hnf).mpr hdb
  have h := fatal_answer_ends_delivery_visibly c hthr σ s r j _ hr hj hbeh hf
  exact ⟨h.1, h.2.2.1⟩

/-- … and a database error keeps the vdr job for the retry loop -/
theorem vdr_db_error_is_retried (c : Cfg) (σ : St) (s r : Nat) (j : Job) (e : Err) (hj : σ.shelf s r = some j)
    (hnf : hasFatal e = false) (hdb : hasDb e = true) (hctx : e.getLast? ≠ some .ctxNotAllowed)
    (hbeh : c.beh s r (attemptNo σ s r) = classify (vdrHandle (some e))) :
    (notifyNow c σ s r).2 = .err ∧ (notifyNow c σ s r).1.shelf s r = some { j with retries := j.retries + 1, err := .generic } := by
  have hf : classify (vdrHandle (some e)) = .fail := by
    simp [vdrHandle, hdb, classify, hnf, hctx]
  exact plain_error_keeps_job c σ s r j _ hj hbeh hf

/-! ### non-vacuity -/

example : vcrHandleError [.msg, .jsonld .loadingDocumentFailed, .ctxNotAllowed] = ⟨true, none⟩ := by decide
example : vcrHandleError [.msg, .jsonld .loadingRemoteContextFailed, .msg] = ⟨false, some [.msg, .jsonld .loadingRemoteContextFailed, .msg]⟩ := by decide
example : classify (vcrHandleError [.msg, .jsonld .other, .jsonld .loadingRemoteContextFailed, .msg]) = .fatal := by decide
example : classify (vcrHandleError [.msg, .canceled]) = .fail := by decide
example : classify (vdrHandle (some [.msg, .db, .msg])) = .fail ∧ classify (vdrHandle (some [.msg])) = .fatal := by decide
example : classify (privateRetry (some [.msg]) false none false []) = .fatal := by decide
example : classify (privateRetry none false (some [.db, .msg]) false []) = .fail := by decide
example : classify (privateRetry none false none false [(true, true), (false, false)]) = .fail
    ∧ classify (privateRetry none false none false [(true, true), (true, false)]) = .notDone := by decide
example : classify (natsEmit none none (some [.msg])) = .fail := by decide
/-- the hypotheses of fatal_answer_ends_delivery_visibly are satisfiable -/
example : ∃ (c : Cfg) (σ : St) (j : Job), σ.shelf 0 0 = some j ∧ c.beh 0 0 (attemptNo σ 0 0) = classify (vdrHandle (some [.msg])) ∧
    classify (vdrHandle (some [.msg])) = .fatal :=
  ⟨{ nSubs := 1, nRefs := 1, sel := fun _ _ _ => true, phash := fun _ => 0, root := fun _ => true, beh := fun _ _ _ => .fatal,
     maxRetries := 20, failedThreshold := 10, skipPresent := true, writeBackSkipsGone := true, storageFaultEndsLoop := false },
   setJob init 0 0 (some ⟨.tx, 0, .none⟩), ⟨.tx, 0, .none⟩, by simp [setJob], by decide, by decide⟩

end Nuts.C14.Props
