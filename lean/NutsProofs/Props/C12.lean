/-
  C12 — Presentation Exchange: wallet and verifier agree and mappings cannot be forged.
  ONLY property theorems (+ non-vacuity examples + obligations on regenerated facts).
  Model: NutsModel/C12/PE.lean (vcr/pe).  Lemmas: NutsProofs/Lemmas/C12.lean.
  Facts: NutsModel/Facts/C12.lean is REGENERATED from /repo on every run.
-/
import NutsModel.C12.PE
import NutsModel.Facts.C12
import NutsProofs.Lemmas.C12

namespace Nuts.C12.Props
open Nuts Nuts.C12

/-! ### Obligations on the regenerated facts (a source change flips these) -/

/-- `matchFilter`: after the element loop of the array case the function leaves unless the filter asks for an array -/
theorem fact_array_case_guarded : Facts.C12.matchFilterArrayGuard = true := by decide

/-- `apply`: every `*Count`, `*Min`, `*Max` is dominated by a nil test -/
theorem fact_apply_derefs_guarded : ∀ e ∈ Facts.C12.applyDerefGuarded, e.2 = true := by decide

theorem fact_apply_max_guarded : Facts.C12.applyMaxGuarded = true := by decide

/-- `Resolve`: a second entry for the same input descriptor id is rejected -/
theorem fact_resolve_rejects_duplicate_ids : Facts.C12.resolveRejectsDuplicateIds = true := by decide

/-- the configuration the model is run with is the repaired one -/
theorem fact_cfg_fixed : Facts.C12.cfg = Cfg.fixed := by decide

/-- JSON schema of a submission requirement: rules `all`/`pick`, `count ≥ 1`, `min ≥ 0`, `max ≥ 0`, closed objects,
    exactly one of `from` / `from_nested` (what `WF` below assumes about schema-valid definitions) -/
theorem fact_sr_schema :
    Facts.C12.srSchema.length = 2 ∧
    (∀ b ∈ Facts.C12.srSchema, b.rules = ["all", "pick"] ∧ b.countMin = 1 ∧ b.minMin = 0 ∧ b.maxMin = 0 ∧ b.closed = true) ∧
    Facts.C12.srSchema.map (fun b => (b.hasFrom, b.hasNested, b.required)) =
      [(true, false, ["from", "rule"]), (false, true, ["from_nested", "rule"])] := by decide

/-- the mapping paths the model writes are the ones in the source -/
theorem fact_mapping_paths :
    Facts.C12.mappingPathFormats = ["$.verifiableCredential[%d]"] ∧ Facts.C12.singleMappingPaths = ["$.verifiableCredential"] := by decide

/-! ### `pe_total`: matching never panics, for every definition, wallet and regexp behaviour -/

theorem pe_total_match (re : Regex) (pd : PD) (wallet : List Cred) (site : String) :
    pdMatch Facts.C12.cfg re pd wallet ≠ .panic site := by
  rw [fact_cfg_fixed]
  exact isPanic_false_of (pdMatch_noPanic Cfg.fixed rfl rfl re pd wallet) site

/-! ### The two defects of the code before the repair, as witnesses on the model of the OLD control flow
    (the same inputs are kept in harness/corpus/C12 and replayed on the real code on every run) -/

def reNone : Regex := fun _ _ => .noMatch
def wTree : J := .obj [("credentialSubject", .obj [("tags", .arr [.str "A", .str "B"])])]
def wCred : Cred := { name := "c0", fmt := "ldp_vc", key := "k0", raw := "r0", tree := wTree }
def tagsPath : Path := { steps := [.key "credentialSubject", .key "tags"] }
def wDescPattern : Desc :=
  { id := "d1", constraints := some [{ paths := [some tagsPath], filter := some { type := "string", pattern := some "^x" } }] }
def wDescNumber : Desc :=
  { id := "d1", constraints := some [{ paths := [some tagsPath], filter := some { type := "number" } }] }
def wPick : PD :=
  { descs := [{ id := "d1", group := ["A"], constraints := some [] }], srs := [.mk "" "pick" none (some 1) none "A" []] }

/-- #7a: array value whose elements do not match + `pattern` → `value.(string)` panics -/
theorem old_code_panics_array_pattern :
    (pdMatch Cfg.old reNone { descs := [wDescPattern] } [wCred]).cls = "panic:type-assert" := by decide
/-- #7b: `{type: number}` "matched" the string array `["A","B"]` -/
theorem old_code_type_only_filter_matches_any_array :
    (pdMatch Cfg.old reNone { descs := [wDescNumber] } [wCred]).isOk = true := by decide
/-- #6: schema-valid `pick` with only `min` dereferences the nil `Max` -/
theorem old_code_panics_pick_min_only :
    (pdMatch Cfg.old reNone wPick [wCred]).cls = "panic:nil-deref" := by decide

/-- the repaired control flow on the same inputs -/
example : (pdMatch Cfg.fixed reNone { descs := [wDescPattern] } [wCred]).cls = "err:nocred" := by decide
example : (pdMatch Cfg.fixed reNone { descs := [wDescNumber] } [wCred]).cls = "err:nocred" := by decide
example : (pdMatch Cfg.fixed reNone wPick [wCred]).isOk = true := by decide

end Nuts.C12.Props
