/-
  C12 — Presentation Exchange: wallet and verifier agree and mappings cannot be forged.
  ONLY property theorems (+ non-vacuity examples + obligations on regenerated facts).
  Model: NutsModel/C12/PE.lean (vcr/pe).  Lemmas: NutsProofs/Lemmas/C12.lean.
  Facts: NutsModel/Facts/C12.lean is REGENERATED from /repo on every run.
-/
import NutsModel.C12.PE
import NutsModel.C12.Spec
import NutsModel.Facts.C12
import NutsProofs.Lemmas.C12
import NutsProofs.Lemmas.C12Sound

namespace Nuts.C12.Props
open Nuts Nuts.C12

/-! ### Obligations on the regenerated facts (a source change flips these) -/

/-- `matchFilter`: after the element loop of the array case the function leaves unless the filter asks for an array -/
theorem fact_array_case_guarded : Facts.C12.matchFilterArrayGuard = true := by decide

/-- `apply`: every `*Count`, `*Min`, `*Max` is dominated by a nil test -/
theorem fact_apply_derefs_guarded : ∀ e ∈ Facts.C12.applyDerefGuarded, e.2 = true := by decide

theorem fact_apply_max_guarded : Facts.C12.applyMaxGuarded = true := by decide

/-- `Resolve`: a second entry for the same input descriptor id is rejected -/
theorem fact_resolve_rejects_duplicate_ids : Facts.C12.resolveRejectsDuplicateIds = true := by decide

/-- `apply`: the `index == *Max` test runs before a member is taken; `min > max` is rejected -/
theorem fact_apply_max_test_first : Facts.C12.applyMaxTestBeforeTake = true := by decide
theorem fact_apply_rejects_min_above_max : Facts.C12.applyRejectsMinAboveMax = true := by decide

/-- `matchFilter` bounds the regular-expression run: a finite `MatchTimeout` constant is assigned before
    `FindStringMatch` (the model's `re` is then a total function whose timeout outcome is `runErr`) -/
theorem fact_regex_timeout_bounded :
    Facts.C12.regexMatchTimeoutSetBeforeRun = true ∧
    Facts.C12.regexMatchTimeoutValue ∈ ["time.Second", "time.Millisecond", "100 * time.Millisecond", "500 * time.Millisecond", "2 * time.Second"] := by
  decide

/-! call sites of vcr/pe (wiring of the consumers; the behaviour is exercised by the iam / holder harness legs) -/

/-- `PEXConsumer.fulfill` is called from exactly the two token/response handlers, and both return when it fails -/
theorem fact_fulfill_callers_return_on_error :
    Facts.C12.iamFulfillCallers = [("handleAuthorizeResponseSubmission", true), ("handleS2SAccessTokenRequest", true)] := by decide

/-- `fulfill` validates against the required definition before it stores the submission; `credentialMap` resolves each
    stored submission in the stored envelope of the same definition; the access token's field map is computed from
    that credential map -/
theorem fact_consumer_wiring :
    Facts.C12.fulfillValidatesBeforeStoring = true ∧ Facts.C12.credentialMapResolvesInOwnEnvelope = true ∧
    Facts.C12.accessTokenFieldsFromCredentialMap = true := by decide

/-- the callers that zip `Match`'s two results rely on the alignment proved in `match_sound` (`AlignedBy`): discovery
    `Search`, `Validate`; discovery registration requires every presented credential to be selected; the presenter puts
    exactly the sign instruction's credentials in the presentation -/
theorem fact_match_result_consumers :
    Facts.C12.discoverySearchZipsMatchResultsByIndex = true ∧ Facts.C12.discoveryRegistrationMatchesAllCredentials = true ∧
    Facts.C12.validateZipsMappingsAndCredentialsByIndex = true ∧ Facts.C12.presenterPresentsSignInstructionCredentials = true := by decide

/-- `Match` and `ResolveConstraintsFields` start with `checkNoNilEntries` (which looks at the input descriptors and,
    recursively, at the submission requirements); `CredentialsRequired` skips nil requirements -/
theorem fact_nil_entries_checked : Facts.C12.nilEntriesChecked = true := by decide

/-- `apply`: the counter compared with `*Max` is a separate variable incremented only when a member is taken (not the
    position in the group): `takeLoopPre` counts taken members -/
theorem fact_apply_max_counts_taken_members : Facts.C12.applyMaxCountsTakenMembers = true := by decide

/-- `apply`, "count" branch: the value compared with `*Count` is a separate counter incremented only in the branch that
    takes a member, the test is the last statement of the loop body and leaves the loop (`takeLoop` counts taken MEMBERS,
    not collected credentials: a `from_nested` member flattens to several credentials) -/
theorem fact_apply_count_counts_taken_members : Facts.C12.applyCountCountsTakenMembers = true := by decide

/-- pick/count: exactly the first `count` selectable members are taken, each with ALL its credentials — for all member
    lists (a member of a `from_nested` group is a whole nested requirement and may hold any number of credentials) -/
theorem count_takes_exactly_count_members (cfg : Cfg) (list : List Member) (rule : String) (hr : rule ≠ "all")
    (c : Nat) (hc : 0 < c) (min max : Option Nat) (l : List Cred)
    (h : apply cfg list rule (some c) min max = .ok l) :
    l = ((available list).take c).flatten ∧ ((available list).take c).length = c := by
  rw [apply_count cfg list rule hr] at h
  split at h
  · cases h
  · next hlt =>
    injection h with h
    rw [takeLoop_eq c list 0 hc] at h
    refine ⟨by simpa using h.symm, ?_⟩
    rw [List.length_take]; omega

/-- non-vacuity, and the reading "stop when `count` CREDENTIALS are collected" gives another result: pick 2 of three
    nested members whose first holds two credentials takes the first TWO members (three credentials) -/
example : apply Facts.C12.cfg [some [{ raw := "a" }, { raw := "b" }], some [{ raw := "c" }], some [{ raw := "d" }]] "pick" (some 2) none none
    = .ok [{ raw := "a" }, { raw := "b" }, { raw := "c" }] := by rfl

/-- `resolveCredential` returns the credential only when there is no `path_nested` left (no early return above that test) -/
theorem fact_resolve_evaluates_path_nested_first : Facts.C12.resolveEvaluatesPathNestedBeforeReturningCredential = true := by decide

/-- `parseJSONArrayEnvelope`: the entry type switch has exactly the cases `string` and `default`, and the loop has no
    `continue` (no entry is skipped) -/
theorem fact_array_envelope_skips_no_entry :
    Facts.C12.arrayEnvelopeSwitchCases = ["string", "default"] ∧ Facts.C12.arrayEnvelopeLoopHasContinue = false := by decide

/-- the configuration the model is run with is the repaired one -/
theorem fact_cfg_fixed : Facts.C12.cfg = Cfg.fixed := by decide

/-- JSON schema of a submission requirement: rules `all`/`pick`, `count ≥ 1`, `min ≥ 0`, `max ≥ 0`, closed objects,
    exactly one of `from` / `from_nested` (what `WF` below assumes about schema-valid definitions) -/
theorem fact_sr_schema :
    Facts.C12.srSchema.length = 2 ∧
    (∀ b ∈ Facts.C12.srSchema, b.rules = ["all", "pick"] ∧ b.countMin = 1 ∧ b.minMin = 0 ∧ b.maxMin = 0 ∧ b.closed = true) ∧
    Facts.C12.srSchema.map (fun b => (b.hasFrom, b.hasNested, b.required)) =
      [(true, false, ["from", "rule"]), (false, true, ["from_nested", "rule"])] := by decide

/-- the mapping paths the model writes are the ones in the source -/
theorem fact_mapping_paths :
    Facts.C12.mappingPathFormats = ["$.verifiableCredential[%d]"] ∧ Facts.C12.singleMappingPaths = ["$.verifiableCredential"] := by decide

/-! ### `pe_total`: no entry point of vcr/pe panics — for every definition (schema-valid or not), wallet, envelope,
    submission, regexp behaviour and credential decoder -/

theorem pe_total_match (re : Regex) (pd : PD) (wallet : List Cred) (site : String) :
    pdMatch Facts.C12.cfg re pd wallet ≠ .panic site := by
  rw [fact_cfg_fixed]
  exact isPanic_false_of (pdMatch_noPanic Cfg.fixed rfl rfl re pd wallet) site

/-- `Build` can only fail on `b.holders[0]`, when no wallet was added (`Validate` never calls it that way) -/
theorem pe_total_build (re : Regex) (pd : PD) (wallets : List (List Cred)) (hne : wallets ≠ []) (site : String) :
    build Facts.C12.cfg re pd wallets ≠ .panic site := by
  rw [fact_cfg_fixed]
  exact isPanic_false_of (build_noPanic Cfg.fixed rfl rfl re pd wallets hne) site

theorem pe_total_validate (re : Regex) (decode : Decoder) (pd : PD) (env : Envelope) (sub : List Mapping) (site : String) :
    validate Facts.C12.cfg re decode pd env sub ≠ .panic site := by
  rw [fact_cfg_fixed]
  exact isPanic_false_of (validate_noPanic Cfg.fixed rfl rfl re decode pd env sub) site

theorem pe_total_resolve_fields (re : Regex) (pd : PD) (credMap : List (String × Cred)) (site : String) :
    resolveFields Facts.C12.cfg re pd [] credMap ≠ .panic site := by
  rw [fact_cfg_fixed]
  exact isPanic_false_of (resolveFields_noPanic Cfg.fixed rfl re pd credMap []) site

/-- `pe_total` also ranges over definitions whose `[]*InputDescriptor` / `[]*SubmissionRequirement` / `from_nested` lists
    hold nil entries (JSON `null` in a definition unmarshalled without schema validation, e.g. a policy file entry under
    a wallet-owner key the mapping schema does not validate): `Match`, `Build`, `CredentialsRequired` and
    `ResolveConstraintsFields` answer with an error (or skip), never a nil dereference -/
theorem pe_total_match_raw (re : Regex) (r : RawPD) (wallet : List Cred) (site : String) :
    pdMatchRaw Facts.C12.cfg re r wallet ≠ .panic site := by
  rw [fact_cfg_fixed]
  exact isPanic_false_of (pdMatchRaw_noPanic Cfg.fixed rfl rfl rfl re r wallet) site

theorem pe_total_build_raw (re : Regex) (r : RawPD) (wallets : List (List Cred)) (hne : wallets ≠ []) (site : String) :
    buildRaw Facts.C12.cfg re r wallets ≠ .panic site := by
  rw [fact_cfg_fixed]
  exact isPanic_false_of (buildRaw_noPanic Cfg.fixed rfl rfl rfl re r wallets hne) site

theorem pe_total_credentials_required_raw (r : RawPD) (site : String) :
    credentialsRequiredRaw Facts.C12.cfg r ≠ .panic site := by
  rw [fact_cfg_fixed]
  exact isPanic_false_of (credentialsRequiredRaw_noPanic Cfg.fixed rfl r) site

theorem pe_total_resolve_fields_raw (re : Regex) (r : RawPD) (credMap : List (String × Cred)) (site : String) :
    resolveFieldsRaw Facts.C12.cfg re r credMap ≠ .panic site := by
  rw [fact_cfg_fixed]
  exact isPanic_false_of (resolveFieldsRaw_noPanic Cfg.fixed rfl rfl re r credMap) site

/-- a nil entry is an error for every wallet (non-vacuity: such definitions exist), and made the old code panic -/
example : (pdMatchRaw Cfg.fixed (fun _ _ => .noMatch) { descs := [none] } []).cls = "err:nil-entry" := by decide
theorem old_code_panics_on_nil_entry :
    (pdMatchRaw Cfg.old (fun _ _ => .noMatch) { descs := [none] } []).cls = "panic:nil-deref" ∧
    (pdMatchRaw Cfg.old (fun _ _ => .noMatch) { descs := [some { id := "d" }], srs := [none] } []).cls = "panic:nil-deref" := by decide

/-! ### `match_sound`: whatever `Match` selects satisfies what it is mapped to -/

/-- For EVERY definition, wallet and regexp behaviour: when `Match` succeeds, the i-th descriptor-map entry is
    `{id of an input descriptor d, format of v, $.verifiableCredential[i]}` where `v` is a credential of the wallet that
    satisfies `d` (every constraint field per `FieldSat`, the definition's and the descriptor's format designations)
    and `v` is (by `vcEqual`) the i-th selected credential; both lists have the same length.
    Without submission requirements the entries are exactly the input descriptors, in order (never a partial map). -/
theorem match_sound (re : Regex) (pd : PD) (wallet : List Cred) (ms : List Mapping) (vcs : List Cred)
    (h : pdMatch Facts.C12.cfg re pd wallet = .ok (ms, vcs)) :
    AlignedBy (MapsTo re pd wallet) 0 ms vcs ∧ (pd.srs = [] → ms.map (·.id) = pd.descs.map (·.id)) := by
  rw [fact_cfg_fixed] at h
  exact pdMatch_sound Cfg.fixed rfl re pd wallet ms vcs h

/-- the filter evaluation itself is sound AND complete against the specification: it reports a match exactly
    for values that match (errors — unsupported value kinds, regexp failures — are neither) -/
theorem filter_sound_and_complete (re : Regex) (ty : String) (c p : Option String) (v : J) :
    (∀ x, matchCore Facts.C12.cfg re ty c p v = .ok (some x) → Matches re ty c p v) ∧
    (matchCore Facts.C12.cfg re ty c p v = .ok none → ¬ Matches re ty c p v) := by
  rw [fact_cfg_fixed]
  have := matchCore_spec Cfg.fixed rfl re ty c p v
  exact ⟨fun x hx => (this.1 x hx).1, this.2⟩

/-- submission requirements: a requirement that succeeds (schema: `count ≥ 1`) returns a selection (in order, a
    sub-list) of its selectable members — group candidates for `from`, nested results for `from_nested` — whose size
    satisfies the rule: `all` = every member; `pick` = exactly `count`, or between `min` and `max`. -/
theorem match_sound_rules (cands : List Cand) (s : SR) (hc : s.count ≠ some 0) (l : List Cred)
    (h : SR.matchSR Facts.C12.cfg cands s = .ok l) :
    ∃ members, MembersOf Facts.C12.cfg cands s members ∧
      ∃ sel : List (List Cred), sel.Sublist (available members) ∧ l = sel.flatten ∧
        RuleOK s.rule s.count s.min s.max members.length (available members).length sel.length := by
  rw [fact_cfg_fixed] at h ⊢
  exact sr_rule_ok Cfg.fixed rfl rfl rfl cands s hc l h

/-- the hypothesis `count ≠ some 0` is what the schema guarantees (`SR.wf` is printed by the model for every accepted
    definition and compared with the schema validator's verdict; bounds pinned by `fact_sr_schema`) -/
theorem wf_count_pos (s : SR) (h : SR.wf s = true) : s.count ≠ some 0 := by
  obtain ⟨name, rule, count, min, max, frm, nested⟩ := s
  unfold SR.wf at h
  simp only [Bool.and_eq_true] at h
  simpa [SR.count] using h.1.1.2

/-- `Match` with submission requirements: every requirement succeeded on the candidates (so `match_sound_rules`
    applies to each), and the selected credentials are the de-duplicated concatenation of their selections -/
theorem match_sound_requirements (re : Regex) (pd : PD) (wallet : List Cred) (ms : List Mapping) (vcs : List Cred)
    (hsr : pd.srs ≠ []) (h : pdMatch Facts.C12.cfg re pd wallet = .ok (ms, vcs)) :
    ∃ cands ls, matchConstraints Facts.C12.cfg re pd wallet pd.descs = .ok cands ∧
      SelectedBy Facts.C12.cfg cands pd.srs ls ∧ vcs = dedup [] ls.flatten :=
  pdMatch_sr_ok Facts.C12.cfg re pd wallet ms vcs hsr h

/-- `Match` with submission requirements fails only because the constraint evaluation failed, an input descriptor
    names a group without requirement, or a requirement failed (`match_complete_or_error_rules` says what that means) -/
theorem match_error_requirements (re : Regex) (pd : PD) (wallet : List Cred) (e : String)
    (hsr : pd.srs ≠ []) (h : pdMatch Facts.C12.cfg re pd wallet = .err e) :
    matchConstraints Facts.C12.cfg re pd wallet pd.descs = .err e ∨
    ∃ cands, matchConstraints Facts.C12.cfg re pd wallet pd.descs = .ok cands ∧
      (e = "group" ∨ ∃ s ∈ pd.srs, SR.matchSR Facts.C12.cfg cands s = .err e) :=
  pdMatch_sr_err Facts.C12.cfg re pd wallet e hsr h

/-! ### `match_complete_or_error`: an error instead of a partial selection, and only when no complete one exists -/

/-- Without submission requirements (a successful match is never partial: `match_sound`): when `Match` fails, either
    the evaluation itself failed (unsupported value kind, regexp or JSONPath error — reported as such), or some input
    descriptor has NO satisfying credential in the wallet. Assumption `hs`: an error ignored by the `enum` loop did not
    hide a match (fails only for an array in which a null/object element precedes the matching string). -/
theorem match_complete_or_error (re : Regex) (pd : PD) (wallet : List Cred)
    (hs : ∀ c ∈ wallet, ∀ p v, getValueAtPath p c.tree = some v → EnumErrorsHideNothing Facts.C12.cfg re v)
    (hsr : pd.srs = []) (e : String) (h : pdMatch Facts.C12.cfg re pd wallet = .err e) :
    (∃ d ∈ pd.descs, ∀ c ∈ wallet, ¬ Satisfies re pd d c) ∨ ∃ e', matchConstraints Facts.C12.cfg re pd wallet pd.descs = .err e' := by
  rw [fact_cfg_fixed] at h hs ⊢
  exact matchBasic_complete Cfg.fixed rfl re pd wallet hs hsr e h

/-- With submission requirements: a requirement that fails is malformed, or NO selection of its members satisfies
    its rule (so the wallet reports missing credentials exactly when no complete selection exists) -/
theorem match_complete_or_error_rules (cands : List Cand) (s : SR) (e : String)
    (h : SR.matchSR Facts.C12.cfg cands s = .err e) :
    (e = "sr-both" ∨ e = "sr-missing" ∨ e = "sr-rule") ∨
    ∃ members, MembersOf Facts.C12.cfg cands s members ∧
      ∀ sel : List (List Cred), sel.Sublist (available members) →
        ¬ RuleOK s.rule s.count s.min s.max members.length (available members).length sel.length := by
  rw [fact_cfg_fixed] at h ⊢
  exact sr_error_complete Cfg.fixed rfl cands s e h

/-- a definition that has input descriptors requires credentials, whatever its submission requirements are … -/
theorem credentials_required_of_descriptors (pd : PD) (h : pd.descs ≠ []) : credentialsRequired pd = true := by
  have hgo : ∀ (ss : List SR) (b : Bool), credentialsRequired.go ss = some b → b = true := by
    intro ss
    induction ss with
    | nil => intro b hb; simp [credentialsRequired.go] at hb
    | cons s ss ih =>
      intro b hb
      unfold credentialsRequired.go at hb
      split at hb
      · injection hb with hb; exact hb.symm
      · split at hb
        · split at hb
          · injection hb with hb; exact hb.symm
          · exact ih b hb
        · simp only [Bool.and_false, Bool.false_eq_true, if_false] at hb
          exact ih b hb
  unfold credentialsRequired
  split
  · next b hb => exact hgo _ b hb
  · cases hd : pd.descs with
    | nil => exact absurd hd h
    | cons _ _ => rfl

/-- … so when no wallet holds a complete selection (`Match` fails on each), `Build` reports that instead of returning
    an empty or partial submission, and `Validate` cannot accept an envelope none of whose presentations matches -/
theorem build_reports_missing_credentials (re : Regex) (pd : PD) (wallets : List (List Cred)) (h : pd.descs ≠ [])
    (hno : ∀ w ∈ wallets, ∃ e, pdMatch Facts.C12.cfg re pd w = .err e) :
    build Facts.C12.cfg re pd wallets = .err "nomatch" := by
  have hfw : firstWallet Facts.C12.cfg re pd wallets = .ok none := by
    induction wallets with
    | nil => rfl
    | cons w ws ih =>
      obtain ⟨e, he⟩ := hno w List.mem_cons_self
      unfold firstWallet
      rw [he]
      exact ih (fun w' hw' => hno w' (List.mem_cons_of_mem _ hw'))
  unfold build
  rw [hfw]
  simp [credentials_required_of_descriptors pd h]

theorem validate_rejects_without_complete_selection (re : Regex) (decode : Decoder) (pd : PD) (env : Envelope)
    (sub : List Mapping) (h : pd.descs ≠ [])
    (hno : ∀ w ∈ env.presentations, ∃ e, pdMatch Facts.C12.cfg re pd w = .err e) (m : List (String × Cred)) :
    validate Facts.C12.cfg re decode pd env sub ≠ .ok m := by
  intro hv
  have hb := build_reports_missing_credentials re pd env.presentations h hno
  unfold validate at hv
  split at hv
  · cases hv
  · cases hv
  · split at hv
    · simp [credentials_required_of_descriptors pd h] at hv
    · split at hv
      · cases hv
      · rw [hb] at hv
        cases hv

/-! ### `forged_mapping_rejected`: what the verifier accepts -/

/-- If `Validate` accepts a submission for an envelope with at least one presentation (credentials parsed from an
    envelope have a non-empty `Raw()`), then: the returned map `m` is exactly what `Build`/`Match` select on the
    envelope's OWN credentials; no input descriptor is mapped twice; there are as many entries as selected
    descriptors; EVERY entry's path (with its `path_nested` chain) resolves inside the envelope to a credential
    whose `Raw()` equals that of `m[id]`; and every selected descriptor has an entry. -/
theorem forged_mapping_rejected (re : Regex) (decode : Decoder) (pd : PD) (env : Envelope) (sub : List Mapping)
    (m : List (String × Cred))
    (hraw : ∀ p ∈ env.presentations, ∀ c ∈ p, c.raw ≠ "") (hne : env.presentations ≠ [])
    (h : validate Facts.C12.cfg re decode pd env sub = .ok m) :
    ∃ ms vcs, build Facts.C12.cfg re pd env.presentations = .ok (ms, vcs) ∧ expectedMap [] ms vcs = .ok m ∧
      (sub.map (·.id)).Nodup ∧ sub.length = m.length ∧
      (∀ mp ∈ sub, ∃ c e, resolveCredential decode mp env.asInterface = .ok c ∧ alGet m mp.id = some e ∧ e.raw = c.raw) ∧
      (∀ e ∈ m, ∃ mp ∈ sub, mp.id = e.1) := by
  rw [fact_cfg_fixed] at h ⊢
  exact validate_spec Cfg.fixed rfl rfl re decode pd env sub m hraw hne h

/-- a `path_nested` is ALWAYS evaluated — also below an entry whose own path already lands on a credential: the result of
    a level with a nested level below it is the result of that nested level on the decoded value's map view (so
    `forged_mapping_rejected`, which speaks about `resolveCredential` of the whole chain, covers forged nested paths) -/
theorem path_nested_always_evaluated (decode : Decoder) (lv nx : Level) (rest : List Level) (v : J) (d : Decoded)
    (h : resolveStep decode lv v = .ok d) :
    resolveLevels decode (nx :: rest) lv v = resolveLevels decode rest nx (match d.asMap with | some m => m | none => .null) := by
  rw [resolveLevels, h]
  rfl

/-- array envelopes: parsing is total and position preserving. If the envelope parses, EVERY presented entry is a
    presentation and the i-th parsed presentation (its `asInterface` element, its credentials) comes from the i-th presented
    entry — so a path `$[i]` of a descriptor map is evaluated on the entry the holder presented at position i; an entry that
    is not a presentation (null, number, boolean, array, empty string/object, ...) at ANY position makes the envelope an error -/
theorem array_envelope_positions_preserved (parseVP : J → Option EntryVP) (l : List J) (r : List EntryVP)
    (h : parseArrayEnvelope parseVP l = .ok r) :
    l.map parseVP = r.map some ∧ (envelopeOfEntries r).presentations.length = l.length ∧
    (envelopeOfEntries r).asInterface = .arr (r.map (·.asInterface)) := by
  have hs := parseArrayEnvelope_spec parseVP l r h
  refine ⟨hs, ?_, rfl⟩
  have := congrArg List.length hs
  simp only [List.length_map] at this
  simp [envelopeOfEntries, this]

theorem array_envelope_junk_entry_rejected (parseVP : J → Option EntryVP) (l : List J) (e : J) (he : e ∈ l)
    (hjunk : parseVP e = none) (r : List EntryVP) : parseArrayEnvelope parseVP l ≠ .ok r :=
  parseArrayEnvelope_junk parseVP l e he hjunk r

theorem pe_total_parse_array_envelope (parseVP : J → Option EntryVP) (l : List J) (site : String) :
    parseArrayEnvelope parseVP l ≠ .panic site :=
  isPanic_false_of (parseArrayEnvelope_noPanic parseVP l) site

example : (parseArrayEnvelope (fun e => match e with | .str _ => some {} | _ => none) [.null, .str "vp"]).cls = "err:envelope" := by decide
example : (parseArrayEnvelope (fun e => match e with | .str _ => some {} | _ => none) [.str "a", .str "vp"]).isOk = true := by decide

/-- corollary (surplus): a descriptor map with two entries for one input descriptor is rejected -/
theorem surplus_entry_rejected (re : Regex) (decode : Decoder) (pd : PD) (env : Envelope) (sub : List Mapping)
    (hraw : ∀ p ∈ env.presentations, ∀ c ∈ p, c.raw ≠ "") (hne : env.presentations ≠ [])
    (hdup : ¬ (sub.map (·.id)).Nodup) (m : List (String × Cred)) :
    validate Facts.C12.cfg re decode pd env sub ≠ .ok m := by
  intro h
  obtain ⟨_, _, _, _, hnd, _⟩ := forged_mapping_rejected re decode pd env sub m hraw hne h
  exact hdup hnd

/-- corollary (forged / permuted / foreign path): an entry that resolves to a credential other than the one
    matching selects for that descriptor — or that does not resolve to a credential at all — is rejected -/
theorem forged_entry_rejected (re : Regex) (decode : Decoder) (pd : PD) (env : Envelope) (sub : List Mapping)
    (hraw : ∀ p ∈ env.presentations, ∀ c ∈ p, c.raw ≠ "") (hne : env.presentations ≠ [])
    (mp : Mapping) (hmp : mp ∈ sub) (m : List (String × Cred))
    (hbad : ∀ c, resolveCredential decode mp env.asInterface = .ok c → ∀ e, alGet m mp.id = some e → e.raw ≠ c.raw) :
    validate Facts.C12.cfg re decode pd env sub ≠ .ok m := by
  intro h
  obtain ⟨_, _, _, _, _, _, hall, _⟩ := forged_mapping_rejected re decode pd env sub m hraw hne h
  obtain ⟨c, e, hc, he, hr⟩ := hall mp hmp
  exact hbad c hc e he hr

/-- corollary (incomplete): a descriptor map that leaves out a descriptor matching selected is rejected -/
theorem incomplete_map_rejected (re : Regex) (decode : Decoder) (pd : PD) (env : Envelope) (sub : List Mapping)
    (hraw : ∀ p ∈ env.presentations, ∀ c ∈ p, c.raw ≠ "") (hne : env.presentations ≠ [])
    (m : List (String × Cred)) (e : String × Cred) (he : e ∈ m) (hmiss : ∀ mp ∈ sub, mp.id ≠ e.1) :
    validate Facts.C12.cfg re decode pd env sub ≠ .ok m := by
  intro h
  obtain ⟨_, _, _, _, _, _, _, hcov⟩ := forged_mapping_rejected re decode pd env sub m hraw hne h
  obtain ⟨mp, hmp, hid⟩ := hcov e he
  exact hmiss mp hmp hid

/-! ### `wallet_verifier_agree` -/

/-- FULL statement (false of the code, see the witness below and known_findings.json): whatever the wallet builds
    from a definition is accepted by the verifier's validation of the same definition. -/
def WalletVerifierAgreeStmt : Prop :=
  ∀ (re : Regex) (decode : Decoder) (pd : PD) (wallet : List Cred) (env : Envelope) (ms : List Mapping) (vcs : List Cred),
    build Facts.C12.cfg re pd [wallet] = .ok (ms, vcs) → env.presentations = [vcs] →
    env.signerOK.any (fun b => !b) = false → (ms.map (·.id)).Nodup → Carries decode env.asInterface ms vcs →
    (validate Facts.C12.cfg re decode pd env ms).isOk = true

/-- PROVED PART: the verifier accepts the wallet's own submission (the descriptor map `Build` wrote, single-mapping
    path rewrite included; envelope = one presentation carrying exactly the selected credentials, each found at the
    path `Build` wrote; input descriptor ids distinct) **provided re-matching the presented credentials reproduces
    the wallet's selection** (`hstable`). Missing for the full statement: `hstable` itself, which fails when a
    presented credential also satisfies another input descriptor (`Validate` documents that assumption). -/
theorem wallet_verifier_agree_partial (re : Regex) (decode : Decoder) (pd : PD) (env : Envelope)
    (ms : List Mapping) (vcs : List Cred)
    (hpres : env.presentations = [vcs]) (hsig : env.signerOK.any (fun b => !b) = false)
    (hstable : pdMatch Facts.C12.cfg re pd vcs = .ok (ms, vcs))
    (hids : (ms.map (·.id)).Nodup)
    (hcar : Carries decode env.asInterface (rewriteSingle ms) vcs) :
    ∃ m, validate Facts.C12.cfg re decode pd env (rewriteSingle ms) = .ok m ∧ expectedMap [] (rewriteSingle ms) vcs = .ok m :=
  validate_own_submission Facts.C12.cfg re decode pd env ms vcs hpres hsig hstable hids hcar

/-- WITNESS that the full statement is false: wallet `[cA, cB]`, `d1` wants `t = "B"`, `d2` accepts anything. The wallet
    maps d1 ↦ cB, d2 ↦ cA and presents `[cB, cA]`; the verifier re-matches `[cB, cA]`, selects cB for d2 as well, and
    rejects the wallet's correct submission ("incorrect mapping"). Replayed on the real code:
    harness/corpus/C12/ambiguous-credential-disagree.jsonl -/
def wA : Cred := { name := "cA", fmt := "jwt_vc", key := "kA", raw := "A", tree := .obj [("t", .str "A")], sigEmpty := true }
def wB : Cred := { name := "cB", fmt := "jwt_vc", key := "kB", raw := "B", tree := .obj [("t", .str "B")], sigEmpty := true }
def wPD : PD :=
  { descs := [{ id := "d1", constraints := some [{ paths := [some { steps := [.key "t"] }], filter := some { type := "string", const := some "B" } }] },
              { id := "d2", constraints := some [] }] }
def wDecode : Decoder := fun v f =>
  match v with
  | .str s => if f == "jwt_vc" then (if s == "A" then some { cred := some wA } else if s == "B" then some { cred := some wB } else none) else none
  | _ => none
def wEnv : Envelope :=
  { asInterface := .obj [("verifiableCredential", .arr [.str "B", .str "A"])], presentations := [[wB, wA]], signerOK := [true] }
def wMs : List Mapping := [mkMapping "d1" "jwt_vc" 0, mkMapping "d2" "jwt_vc" 1]

theorem wallet_verifier_disagree_witness : ¬ WalletVerifierAgreeStmt := by
  intro h
  have := h (fun _ _ => ReRes.noMatch) wDecode wPD [wA, wB] wEnv wMs [wB, wA] (by rw [fact_cfg_fixed]; rfl) rfl (by decide) (by decide)
    ⟨⟨wB, rfl, rfl⟩, ⟨wA, rfl, rfl⟩, trivial⟩
  rw [fact_cfg_fixed] at this
  revert this
  decide

/-! ### `field_values_faithful` -/

/-- every value `ResolveConstraintsFields` reports under a key `k` comes from a credential of the given map, through a
    constraint field with id `k` of the input descriptor that credential is mapped to, and is the value found at
    one of that field's paths, or the regexp's whole match / single capture group on the string found there, or
    nothing for an absent optional field -/
theorem field_values_faithful (re : Regex) (pd : PD) (credMap : List (String × Cred)) (vals : Values)
    (h : resolveFields Facts.C12.cfg re pd [] credMap = .ok vals) : ∀ e ∈ vals, FieldSource re pd credMap e := by
  rw [fact_cfg_fixed] at h
  intro e he
  rcases resolveFields_faithful Cfg.fixed rfl re pd credMap [] vals h e he with h | h
  · cases h
  · exact h

/-- two or more capture groups are an error, never a value -/
theorem two_capture_groups_is_error (re : Regex) (pat s : String) (h : re pat s = .many) :
    patternTail re pat (.str s) = .err "regex-groups" := many_groups_is_error re pat s h

/-! non-vacuity: a definition with a pattern field, a matching wallet, the envelope the wallet would send -/

def reDemo : Regex := fun p s => if p == "^(.*)Credential$" && s == "AlphaCredential" then .cap "Alpha" else .noMatch
def demoTree : J := .obj [("type", .arr [.str "VerifiableCredential", .str "AlphaCredential"]), ("issuer", .str "did:example:issuer")]
def demoCred : Cred := { name := "c0", fmt := "ldp_vc", key := "k0", raw := "r0", tree := demoTree }
def demoDecoy : Cred := { name := "c1", fmt := "ldp_vc", key := "k1", raw := "r1", tree := .obj [("type", .str "Other")] }
def demoPD : PD :=
  { id := "pd", descs := [{ id := "d1", constraints := some [{ id := some "kind", paths := [some { steps := [.key "type"] }],
                                                                filter := some { type := "string", pattern := some "^(.*)Credential$" } }] }] }
def demoEnvJ : J := .obj [("verifiableCredential", .str "EMBEDDED-c0")]
def demoDecode : Decoder := fun v f =>
  match v, f with
  | .str "EMBEDDED-c0", "ldp_vc" => none
  | .str "EMBEDDED-c0", "jwt_vc" => some { cred := some demoCred }
  | _, _ => none
def demoCredJwt : Cred := { demoCred with fmt := "jwt_vc" }
def demoEnv : Envelope := { asInterface := demoEnvJ, presentations := [[demoCredJwt]], signerOK := [true] }
def demoSub : List Mapping := [{ top := { id := "d1", fmt := "jwt_vc", path := some vcPathSingle } }]

example : (pdMatch Cfg.fixed reDemo demoPD [demoDecoy, demoCred]).isOk = true := by decide
example : (validate Cfg.fixed reDemo demoDecode demoPD demoEnv demoSub).isOk = true := by decide
example : (validate Cfg.fixed reDemo demoDecode demoPD demoEnv (demoSub ++ demoSub)).cls = "err:resolve" := by decide
example : (validate Cfg.fixed reDemo demoDecode demoPD demoEnv []).cls = "err:count" := by decide
/-- corollary: an entry that lands on the selected credential but carries a dangling `path_nested` is rejected -/
example : (validate Cfg.fixed reDemo demoDecode demoPD demoEnv
    [{ top := { id := "d1", fmt := "jwt_vc", path := some vcPathSingle }, nested := [{ id := "d1", fmt := "jwt_vc", path := some { steps := [.key "nope"] } }] }]).cls
    = "err:resolve" := by decide
example : ((resolveFields Cfg.fixed reDemo demoPD [] [("d1", demoCred)]).isOk = true) := by decide
example : Matches reDemo "string" none (some "^(.*)Credential$") (.arr [.str "VerifiableCredential", .str "AlphaCredential"]) :=
  .elem _ (.str "AlphaCredential") (by simp) (.str _ rfl trivial ⟨"Alpha", Or.inr (by decide)⟩)

/-! ### The defects of the code before the repairs, as witnesses on the model of the OLD control flow
    (the same inputs are kept in harness/corpus/C12 and replayed on the real code on every run) -/

def reNone : Regex := fun _ _ => .noMatch
def wTree : J := .obj [("credentialSubject", .obj [("tags", .arr [.str "A", .str "B"])])]
def wCred : Cred := { name := "c0", fmt := "ldp_vc", key := "k0", raw := "r0", tree := wTree }
def tagsPath : Path := { steps := [.key "credentialSubject", .key "tags"] }
def wDescPattern : Desc :=
  { id := "d1", constraints := some [{ paths := [some tagsPath], filter := some { type := "string", pattern := some "^x" } }] }
def wDescNumber : Desc :=
  { id := "d1", constraints := some [{ paths := [some tagsPath], filter := some { type := "number" } }] }
def wPick : PD :=
  { descs := [{ id := "d1", group := ["A"], constraints := some [] }], srs := [.mk "" "pick" none (some 1) none "A" []] }

/-- #7a: array value whose elements do not match + `pattern` → `value.(string)` panics -/
theorem old_code_panics_array_pattern :
    (pdMatch Cfg.old reNone { descs := [wDescPattern] } [wCred]).cls = "panic:type-assert" := by decide
/-- #7b: `{type: number}` "matched" the string array `["A","B"]` -/
theorem old_code_type_only_filter_matches_any_array :
    (pdMatch Cfg.old reNone { descs := [wDescNumber] } [wCred]).isOk = true := by decide
/-- #6: schema-valid `pick` with only `min` dereferences the nil `Max` -/
theorem old_code_panics_pick_min_only :
    (pdMatch Cfg.old reNone wPick [wCred]).cls = "panic:nil-deref" := by decide

/-- duplicate entry: with the old `Resolve` a descriptor map with a shadowed first entry (pointing anywhere) was accepted -/
def demoShadow : List Mapping := { top := { id := "d1", fmt := "jwt_vc", path := some (vcPath 7) } } :: demoSub
theorem old_code_accepts_shadowed_entry :
    (validate Cfg.old reDemo (fun v f => if f == "jwt_vc" then some { cred := some demoCred } else demoDecode v f) demoPD
      { demoEnv with asInterface := .obj [("verifiableCredential", .arr [.str "a", .str "b", .str "c", .str "d", .str "e", .str "f", .str "g", .str "h"])] }
      [{ top := { id := "d1", fmt := "jwt_vc", path := some (vcPath 7) } }, { top := { id := "d1", fmt := "jwt_vc", path := some (vcPath 0) } }]).isOk = true := by decide

/-- `pick` with `max: 0` selected every selectable member; `min: 2, max: 1` returned one credential -/
def wTwo : List Cand := [({ id := "d1", group := ["A"] }, some wCred), ({ id := "d2", group := ["A"] }, some { wCred with name := "c1", key := "k1" })]
theorem old_code_max_zero_selects_all :
    (match SR.matchSR Cfg.old wTwo (.mk "" "pick" none none (some 0) "A" []) with | .ok l => l.length | _ => 99) = 2 := by decide
theorem old_code_min_above_max_returns_partial :
    (match SR.matchSR Cfg.old wTwo (.mk "" "pick" none (some 2) (some 1) "A" []) with | .ok l => l.length | _ => 99) = 1 := by decide
example : (match SR.matchSR Cfg.fixed wTwo (.mk "" "pick" none none (some 0) "A" []) with | .ok l => l.length | _ => 99) = 0 := by decide
example : (SR.matchSR Cfg.fixed wTwo (.mk "" "pick" none (some 2) (some 1) "A" [])).cls = "err:nocred" := by decide
/-- non-vacuity of `match_sound_rules` / `match_complete_or_error_rules` -/
example : (SR.matchSR Cfg.fixed wTwo (.mk "" "pick" (some 1) none none "A" [])).isOk = true := by decide
example : (SR.matchSR Cfg.fixed wTwo (.mk "" "pick" (some 3) none none "A" [])).cls = "err:nocred" := by decide
/-- non-vacuity of `match_complete_or_error`: values without null/object elements never make the enum loop err -/
example : EnumErrorsHideNothing Cfg.fixed reNone (.arr [.str "A", .str "B"]) := by
  intro e msg h
  exfalso
  by_cases h1 : "A" = e <;> by_cases h2 : "B" = e <;> simp [matchCore, matchAny, filterTail, constOK, h1, h2] at h

/-- non-vacuity of `wallet_verifier_agree_partial`: re-matching the presented credential is stable, the envelope carries it -/
example : pdMatch Cfg.fixed reDemo demoPD [demoCredJwt] = .ok ([mkMapping "d1" "jwt_vc" 0], [demoCredJwt]) := rfl
example : Carries demoDecode demoEnv.asInterface (rewriteSingle [mkMapping "d1" "jwt_vc" 0]) [demoCredJwt] :=
  ⟨⟨demoCred, rfl, rfl⟩, trivial⟩

/-- the repaired control flow on the same inputs -/
example : (pdMatch Cfg.fixed reNone { descs := [wDescPattern] } [wCred]).cls = "err:nocred" := by decide
example : (pdMatch Cfg.fixed reNone { descs := [wDescNumber] } [wCred]).cls = "err:nocred" := by decide
example : (pdMatch Cfg.fixed reNone wPick [wCred]).isOk = true := by decide

end Nuts.C12.Props
