/-
  C12 — the presenter's VP-format negotiation (NutsModel/C12/Formats.lean): `Formats.Match` is sound (every value it
  keeps is offered by BOTH sides under their own aliases, nothing empty survives) and the format `buildSubmission`
  signs with is one that node defaults, verifier metadata and the definition's `format` all list.
-/
import NutsModel.C12.Formats
import NutsModel.Facts.C12
import NutsProofs.Lemmas.C12Sound

namespace Nuts.C12.Props
open Nuts Nuts.C12

theorem mem_alDel {κ ν} [BEq κ] {m : List (κ × ν)} {k : κ} {e : κ × ν} (h : e ∈ alDel m k) : e ∈ m :=
  (List.mem_filter.1 h).1

/-- the two innermost loops keep exactly the values both sides list -/
theorem values_both_mem (a b : List String) (v : String) : v ∈ valuesBoth a b ↔ v ∈ a ∧ v ∈ b := by
  unfold valuesBoth
  simp only [List.mem_flatMap, List.mem_map, List.mem_filter]
  constructor
  · rintro ⟨tv, htv, ov, ⟨hov, heq⟩, rfl⟩
    have : tv = ov := by simpa using heq
    exact ⟨htv, this ▸ hov⟩
  · rintro ⟨ha, hb⟩
    exact ⟨v, ha, v, ⟨hb, by simp⟩, rfl⟩

/-- parameter loop: every surviving parameter is one of THIS side's (normalised) parameters that the other side lists
    too, with the common values, and is not empty -/
theorem match_params_sound (other : PMap) : ∀ (this acc : PMap) (e : String × List String), e ∈ matchParams other acc this →
    e ∈ acc ∨ ∃ tvs ovs, (e.1, tvs) ∈ this ∧ alGet other e.1 = some ovs ∧ e.2 = valuesBoth tvs ovs ∧ e.2 ≠ []
  | [], acc, e, h => Or.inl (by simpa [matchParams] using h)
  | (p, vs) :: rest, acc, e, h => by
    unfold matchParams at h
    have lift : (e ∈ acc ∨ ∃ tvs ovs, (e.1, tvs) ∈ rest ∧ alGet other e.1 = some ovs ∧ e.2 = valuesBoth tvs ovs ∧ e.2 ≠ []) →
        (e ∈ acc ∨ ∃ tvs ovs, (e.1, tvs) ∈ (p, vs) :: rest ∧ alGet other e.1 = some ovs ∧ e.2 = valuesBoth tvs ovs ∧ e.2 ≠ []) := by
      rintro (h1 | ⟨tvs, ovs, h1, h2⟩)
      · exact Or.inl h1
      · exact Or.inr ⟨tvs, ovs, List.mem_cons_of_mem _ h1, h2⟩
    split at h
    · exact lift (match_params_sound other rest acc e h)
    · next ovs hov =>
      simp only at h
      split at h
      · rcases match_params_sound other rest _ e h with h1 | h1
        · exact lift (Or.inl (mem_alDel h1))
        · exact lift (Or.inr h1)
      · next hne =>
        rcases match_params_sound other rest _ e h with h1 | h1
        · rcases mem_alPut h1 with h2 | h2
          · subst h2
            exact Or.inr ⟨vs, ovs, List.mem_cons_self, hov, rfl, fun h0 => hne (by have h0' := h0; simp only at h0'; rw [h0']; rfl)⟩
          · exact lift (Or.inl h2)
        · exact lift (Or.inr h1)

/-- format loop: every surviving format is one of THIS side's formats, the other side lists it under its own alias,
    its parameters are the parameter loop's result, and it is not empty -/
theorem match_formats_sound (f other : Fmts) : ∀ (l acc : FMap) (e : String × PMap), e ∈ matchFormats f other acc l →
    e ∈ acc ∨ ∃ tps ops, (e.1, tps) ∈ l ∧ other.normalizeParameters (fmapGet other.map (other.normalizeFormat e.1)) = some ops ∧
      e.2 = matchParams ops [] (normalizeLoop f [] tps) ∧ e.2 ≠ []
  | [], acc, e, h => Or.inl (by simpa [matchFormats] using h)
  | (fmt, ps) :: rest, acc, e, h => by
    unfold matchFormats at h
    have lift : (e ∈ acc ∨ ∃ tps ops, (e.1, tps) ∈ rest ∧ other.normalizeParameters (fmapGet other.map (other.normalizeFormat e.1)) = some ops ∧
          e.2 = matchParams ops [] (normalizeLoop f [] tps) ∧ e.2 ≠ []) →
        (e ∈ acc ∨ ∃ tps ops, (e.1, tps) ∈ (fmt, ps) :: rest ∧ other.normalizeParameters (fmapGet other.map (other.normalizeFormat e.1)) = some ops ∧
          e.2 = matchParams ops [] (normalizeLoop f [] tps) ∧ e.2 ≠ []) := by
      rintro (h1 | ⟨tps, ops, h1, h2⟩)
      · exact Or.inl h1
      · exact Or.inr ⟨tps, ops, List.mem_cons_of_mem _ h1, h2⟩
    split at h
    · exact lift (match_formats_sound f other rest acc e h)
    · next ops hops =>
      simp only at h
      split at h
      · rcases match_formats_sound f other rest _ e h with h1 | h1
        · exact lift (Or.inl (mem_alDel h1))
        · exact lift (Or.inr h1)
      · next hne =>
        rcases match_formats_sound f other rest _ e h with h1 | h1
        · rcases mem_alPut h1 with h2 | h2
          · subst h2
            exact Or.inr ⟨ps, ops, List.mem_cons_self, hops, rfl, fun h0 => hne (by have h0' := h0; simp only at h0'; rw [h0']; rfl)⟩
          · exact lift (Or.inl h2)
        · exact lift (Or.inr h1)

/-- `Formats.Match` is SOUND: a value kept for (format, parameter) is listed by this side for that format under the
    parameter's normalised name, AND by the other side for the format's alias under the normalised name; no empty
    parameter and no empty format survives. -/
theorem formats_match_sound (f other : Fmts) (fmt : String) (ps : PMap) (hm : (f.matchWith other).map = some m) (hf : (fmt, ps) ∈ m) :
    ps ≠ [] ∧ ∃ tps ops, fmapGet f.map fmt ≠ none ∧ (fmt, tps) ∈ (match f.map with | some x => x | none => []) ∧
      other.normalizeParameters (fmapGet other.map (other.normalizeFormat fmt)) = some ops ∧
      ∀ p vs, (p, vs) ∈ ps → vs ≠ [] ∧ ∃ tvs ovs, (p, tvs) ∈ normalizeLoop f [] tps ∧ alGet ops p = some ovs ∧
        ∀ v, v ∈ vs ↔ (v ∈ tvs ∧ v ∈ ovs) := by
  unfold Fmts.matchWith at hm
  simp only at hm
  injection hm with hm; subst hm
  rcases match_formats_sound f other _ [] (fmt, ps) hf with h | ⟨tps, ops, h1, h2, h3, h4⟩
  · cases h
  · refine ⟨h4, tps, ops, ?_, h1, h2, ?_⟩
    · cases hfm : f.map with
      | none => rw [hfm] at h1; cases h1
      | some x =>
        rw [hfm] at h1
        simp only [fmapGet]
        obtain ⟨v', hv'⟩ := alGet_isSome_of_mem h1
        rw [hv']; simp
    · intro p vs hp
      simp only at h3
      rw [h3] at hp
      rcases match_params_sound ops _ [] (p, vs) hp with h | ⟨tvs, ovs, g1, g2, g3, g4⟩
      · cases h
      · exact ⟨g4, tvs, ovs, g1, g2, fun v => by simp only at g3; rw [g3]; exact values_both_mem tvs ovs v⟩

theorem chooseVPFormat_spec : ∀ (prefs : List (String × String)) (sup : List String),
    chooseVPFormat prefs sup = "" ∨ ∃ k, (k, chooseVPFormat prefs sup) ∈ prefs ∧ k ∈ sup
  | [], _ => Or.inl rfl
  | (k, r) :: rest, sup => by
    unfold chooseVPFormat
    split
    · next h => exact Or.inr ⟨k, List.mem_cons_self, by simpa using h⟩
    · rcases chooseVPFormat_spec rest sup with h | ⟨k', h1, h2⟩
      · exact Or.inl h
      · exact Or.inr ⟨k', List.mem_cons_of_mem _ h1, h2⟩

/-- END-TO-END (metadata → format): when `buildSubmission` does not stop with "don't share a supported VP format", the
    format it signs with is the preference-list answer for a key that the NODE defaults list, that the VERIFIER metadata
    lists (same spelling), and — when the definition has a `format` — that the DEFINITION lists under its DIF alias. -/
theorem presenter_format_shared (defaults : FMap) (verifier pdFormat : Option FMap)
    (h : presenterFormat Facts.C12.vpFormatPreference defaults verifier pdFormat ≠ "") :
    ∃ k, (k, presenterFormat Facts.C12.vpFormatPreference defaults verifier pdFormat) ∈ Facts.C12.vpFormatPreference ∧
      alGet defaults k ≠ none ∧ fmapGet verifier k ≠ none ∧
      (∀ pf, pdFormat = some pf → alGet pf ((difClaimFormats (some pf)).normalizeFormat k) ≠ none) := by
  unfold presenterFormat at h ⊢
  simp only at h ⊢
  -- step 1 facts
  have s1 : ∀ k ps m, ((openIDSupportedFormats (some defaults)).matchWith (openIDSupportedFormats verifier)).map = some m → (k, ps) ∈ m →
      alGet defaults k ≠ none ∧ fmapGet verifier k ≠ none := by
    intro k ps m hm hk
    obtain ⟨_, tps, ops, g1, _, g3, _⟩ := formats_match_sound _ _ k ps hm hk
    refine ⟨by simpa [openIDSupportedFormats, fmapGet] using g1, ?_⟩
    intro hn
    simp [openIDSupportedFormats, Fmts.normalizeFormat, hn, Fmts.normalizeParameters] at g3
  cases hp : pdFormat with
  | none =>
    simp only [hp] at h ⊢
    rcases chooseVPFormat_spec Facts.C12.vpFormatPreference ((openIDSupportedFormats (some defaults)).matchWith (openIDSupportedFormats verifier)).keys with h0 | ⟨k, h1, h2⟩
    · exact absurd h0 h
    · have hm : ((openIDSupportedFormats (some defaults)).matchWith (openIDSupportedFormats verifier)).map = some (matchFormats _ _ [] defaults) := rfl
      simp only [Fmts.keys, hm, List.mem_map] at h2
      obtain ⟨⟨k', ps⟩, hk, rfl⟩ := h2
      obtain ⟨a, b⟩ := s1 k' ps _ hm hk
      exact ⟨k', h1, a, b, fun pf hpf => by cases hpf⟩
  | some pf =>
    simp only [hp] at h ⊢
    rcases chooseVPFormat_spec Facts.C12.vpFormatPreference
        (((openIDSupportedFormats (some defaults)).matchWith (openIDSupportedFormats verifier)).matchWith (difClaimFormats (some pf))).keys with h0 | ⟨k, h1, h2⟩
    · exact absurd h0 h
    · have hm1 : ((openIDSupportedFormats (some defaults)).matchWith (openIDSupportedFormats verifier)).map = some (matchFormats _ _ [] defaults) := rfl
      have hm2 : (((openIDSupportedFormats (some defaults)).matchWith (openIDSupportedFormats verifier)).matchWith (difClaimFormats (some pf))).map
          = some (matchFormats _ (difClaimFormats (some pf)) [] (matchFormats (openIDSupportedFormats (some defaults)) (openIDSupportedFormats verifier) [] defaults)) := rfl
      simp only [Fmts.keys, hm2, List.mem_map] at h2
      obtain ⟨⟨k', ps⟩, hk, rfl⟩ := h2
      obtain ⟨_, tps, ops, _, g2, g3, _⟩ := formats_match_sound _ _ k' ps hm2 hk
      rw [hm1] at g2
      obtain ⟨a, b⟩ := s1 k' tps _ hm1 g2
      refine ⟨k', h1, a, b, fun pf' hpf => ?_⟩
      injection hpf with hpf; subst hpf
      intro hn
      have g3' : (difClaimFormats (some pf)).normalizeParameters (alGet pf ((difClaimFormats (some pf)).normalizeFormat k')) = some ops := g3
      rw [hn] at g3'
      simp [Fmts.normalizeParameters] at g3'

/-! ### source of the negotiation, statement by statement (regenerated) -/
theorem fact_presenter_build_submission_source : Facts.C12.presenterBuildSubmissionShape.take 8 = ["builder := presentationDefinition.PresentationSubmissionBuilder()", "for holderDID, creds := range credentials { builder.AddWallet(holderDID, creds) }", "formatCandidates := credential.OpenIDSupportedFormats(oauth.DefaultOpenIDSupportedFormats())", "formatCandidates = formatCandidates.Match(credential.OpenIDSupportedFormats(params.Format))", "if presentationDefinition.Format != nil { formatCandidates = formatCandidates.Match(credential.DIFClaimFormats(*presentationDefinition.Format)) }", "format := pe.ChooseVPFormat(formatCandidates.Map)", "if format == \"\" { return nil, nil, errors.New(\"...\") }", "presentationSubmission, signInstruction, err := builder.Build(format)"] := rfl
theorem fact_formats_match_source : Facts.C12.formatsMatchShape = ["aliases := f.FormatAliases", "if aliases == nil { aliases = other.FormatAliases }", "result := Formats{ Map: map[string]map[string][]string{}, ParamAliases: map[string]string{}, FormatAliases: aliases, }", "for thisFormat, thisFormatParams := range f.Map { otherFormat := other.normalizeFormat(thisFormat) otherFormatParams := other.normalizeParameters(other.Map[otherFormat]) if otherFormatParams == nil { continue } result.Map[thisFormat] = map[string][]string{} for thisParam, thisValues := range f.normalizeParameters(thisFormatParams) { otherValues, supported := otherFormatParams[thisParam] if !supported { continue } result.Map[thisFormat][thisParam] = []string{} for _, thisValue := range thisValues { for _, otherValue := range otherValues { if thisValue == otherValue { result.Map[thisFormat][thisParam] = append(result.Map[thisFormat][thisParam], thisValue) } } } if len(result.Map[thisFormat][thisParam]) == 0 { delete(result.Map[thisFormat], thisParam) } } if len(result.Map[thisFormat]) == 0 { delete(result.Map, thisFormat) } }", "return result"] := rfl
theorem fact_formats_normalize_source :
    Facts.C12.normalizeFormatShape = ["if alias, ok := f.FormatAliases[format]; ok { return alias }", "return format"] ∧ Facts.C12.normalizeParameterShape = ["if alias, ok := f.ParamAliases[param]; ok { return alias }", "return param"] ∧
    Facts.C12.normalizeParametersShape = ["if params == nil { return nil }", "result := map[string][]string{}", "for param, values := range params { result[f.normalizeParameter(param)] = values }", "return result"] := ⟨rfl, rfl, rfl⟩
theorem fact_formats_constructors_source :
    Facts.C12.difClaimFormatsShape = ["return Formats{ Map: formats, ParamAliases: map[string]string{}, FormatAliases: map[string]string{ \"jwt_vp_json\": \"jwt_vp\", \"jwt_vc_json\": \"jwt_vc\", }, }"] ∧ Facts.C12.openIDSupportedFormatsShape = ["return Formats{ Map: formats, ParamAliases: map[string]string{ \"alg_values_supported\": \"alg\", \"proof_type_values_supported\": \"proof_type\", }, }"] := ⟨rfl, rfl⟩

/-! ### non-vacuity -/
def dDefaults : FMap := [("jwt_vp_json", [("alg_values_supported", ["ES256", "PS256"])]), ("ldp_vp", [("proof_type_values_supported", ["JsonWebSignature2020"])])]
example : presenterFormat vpFormatPreference dDefaults (some [("jwt_vp_json", [("alg_values_supported", ["PS256"])])]) none = "jwt_vp" := by decide
example : presenterFormat vpFormatPreference dDefaults (some [("jwt_vp_json", [("alg_values_supported", ["PS256"])])])
    (some [("jwt_vp", [("alg", ["PS256", "EdDSA"])])]) = "jwt_vp" := by decide
example : presenterFormat vpFormatPreference dDefaults (some [("jwt_vp_json", [("alg_values_supported", ["PS256"])])])
    (some [("jwt_vp", [("alg", ["EdDSA"])])]) = "" := by decide
example : presenterFormat vpFormatPreference dDefaults none none = "" := by decide
example : presenterFormat vpFormatPreference dDefaults (some [("ldp_vp", [("proof_type", ["JsonWebSignature2020"])]), ("jwt_vp_json", [("alg", ["RS256"])])]) none = "ldp_vp" := by decide
example : valuesBoth ["a", "b"] ["b", "b", "c"] = ["b", "b"] := by decide

end Nuts.C12.Props
