/-
  C05 — one-time secrets are honoured at most once under every interleaving of session-store operations.
  ONLY property theorems (+ non-vacuity examples + obligations on the regenerated facts).
  Model: NutsModel/C05/OneTime.lean, instantiated with today's source in NutsModel/C05/Today.lean.
  Helper lemmas: NutsProofs/Lemmas/C05.lean.
-/
import NutsModel.C05.OneTime
import NutsModel.C05.Today
import NutsModel.Facts.C05
import NutsProofs.Lemmas.C05

namespace Nuts.C05.Props
open Nuts.C05

/-! ### Obligations on the regenerated facts -/

/-- every consumer makes exactly the session-store calls its thread program is written for -/
theorem fact_consumer_calls :
    Facts.C05.callsCode = (Kind.burn .code).apiCalls ∧
    Facts.C05.callsReqObjGet = (Kind.burn .reqObj).apiCalls ∧
    Facts.C05.callsReqObjPost = (Kind.burn .reqObj).apiCalls ∧
    Facts.C05.callsVpNonce = (Kind.burn .vpNonce).apiCalls ∧
    Facts.C05.callsRedirect.take 1 = (Kind.burn .redirect).apiCalls ∧
    Facts.C05.callsS2S = (Kind.mark .s2s).apiCalls ∧
    Facts.C05.callsJti = (Kind.mark .jti).apiCalls ∧
    -- OpenID4VCI: the token request takes the flow through FindAndDeleteReference, which is GetAndDelete on the
    -- reference store (then a plain Get of the flow under another key)
    Facts.C05.vciTokenCalls.take 1 = ["store.FindAndDeleteReference"] ∧
    Facts.C05.vciFindAndDeleteCalls.take 1 = (Kind.burn .preAuth).apiCalls ∧
    Facts.C05.vciFindAndDeleteCalls.drop 1 = ["flowStore.Get"] := by decide

/-- every consumer looks its secret up / registers it under the secret itself — no request parameter that the
    requester can vary (client_id, scope, …) takes part in the key, so the model's key (namespace, secret) is the
    code's key.  The s2s nonce comes out of the signed presentation. -/
theorem fact_store_keys :
    Facts.C05.keysCode = ["oauthCodeStore.Delete(*request.Code)", "oauthCodeStore.GetAndDelete(*request.Code)"] ∧
    Facts.C05.keysReqObjGet = ["authzRequestObjectStore.GetAndDelete(request.Id)"] ∧
    Facts.C05.keysReqObjPost = ["authzRequestObjectStore.GetAndDelete(request.Id)"] ∧
    Facts.C05.keysVpNonce = ["oauthNonceStore.Delete(nonce)", "oauthNonceStore.GetAndDelete(nonces[0])"] ∧
    Facts.C05.keysRedirect.take 1 = ["userRedirectStore.GetAndDelete(token)"] ∧
    Facts.C05.keysS2S = ["s2sNonceStore.PutIfAbsent(nonce)"] ∧
    Facts.C05.s2sNonceSource = "extractNonce(presentation)" ∧
    Facts.C05.keysJti = ["useNonceOnceStore.PutIfAbsent(dpopToken.Token.JwtID())"] := by decide

set_option maxRecDepth 16384 in
/-- where the consumers are called from and with what: the token endpoint dispatches the authorization_code grant to
    `handleAccessTokenRequest` and the vp_token-bearer grant to `handleS2SAccessTokenRequest`; the latter checks the
    nonce of EVERY presentation of the envelope (no `break`/`continue`, only the error return leaves the loop); the
    OpenID4VP response endpoint passes ALL presentations and the request's state to `validatePresentationNonce` -/
theorem fact_call_sites :
    Facts.C05.sitesCode = ["HandleTokenRequest: r.handleAccessTokenRequest(ctx, *request.Body)"] ∧
    Facts.C05.sitesS2S = ["HandleTokenRequest: r.handleS2SAccessTokenRequest(ctx, *request.Body.ClientId, request.SubjectID, *request.Body.Scope, *request.Body.PresentationSubmission, *request.Body.Assertion)"] ∧
    Facts.C05.sitesVpNonce = ["handleAuthorizeResponseSubmission: r.validatePresentationNonce(pexEnvelope.Presentations, state)"] ∧
    Facts.C05.sitesS2SNonce = ["handleS2SAccessTokenRequest: r.validateS2SPresentationNonce(presentation) [in range pexEnvelope.Presentations]"] ∧
    Facts.C05.s2sNonceLoopExits = ["return nil, err"] ∧
    Facts.C05.sitesExtractNonce = ["validatePresentationNonce: extractNonce(presentation) [in range presentations]",
      "validateS2SPresentationNonce: extractNonce(presentation)"] ∧
    Facts.C05.sitesExtractChallenge = ["validatePresentationNonce: extractChallenge(presentation) [in range presentations]"] := by decide

/-- a request's store calls are made by the request itself, before it is answered: no `go` statement in auth/api/iam,
    vcr/issuer or the session-store code (the only one in package storage is the bbolt backup loop), the code burn is a
    plain `defer …Delete(…)` (`fact_consumer_calls`: no `:go` marker); and no request waits for, or shares the result
    of, another one: no package-level synchronisation / coalescing / cache state in those packages.  This is what
    lets a thread of the model be a sequential program whose result is its own. -/
theorem fact_requests_are_self_contained :
    Facts.C05.goStatements = ["storage.bboltDatabase.startBackup"] ∧ Facts.C05.syncGlobals = [] := by decide

/-- one session database per engine: built once in `Configure`, handed out as it is by `GetSessionDatabase`
    (a database built per call would have its own mutex — and its own in-memory store) -/
theorem fact_engine_wiring :
    Facts.C05.engineGetSessionDatabase = "e.sessionDatabase" ∧
    Facts.C05.sessionDbConstructions = ["NewTestInMemorySessionDatabase:NewInMemorySessionDatabase",
      "engine.Configure:NewInMemorySessionDatabase", "engine.Configure:NewMemcachedSessionDatabase",
      "engine.Configure:NewRedisSessionDatabase"] := by decide

/-- every back-end builds a full key with `strings.Join(append(prefixes, key), sep)` — a plain join that neither
    normalises (`..`, `//`) nor escapes the key — and `Put` stores nothing silently only when the TTL is ≤ 0 (no key
    is too long, too odd, …); the mark consumers call `PutIfAbsent(key, value)` without options, so the TTL is the
    store's (positive: `fact_ttls_positive`) -/
theorem fact_key_construction :
    Facts.C05.joinExprMem = "strings.Join(append(prefixes, key), \"/\")" ∧
    Facts.C05.joinExprMemcached = "strings.Join(append(prefixes, key), \"/\")" ∧
    Facts.C05.joinExprRedis = "strings.Join(append(prefixes, key), \".\")" ∧
    Facts.C05.memKeySepChar = '/' ∧ Facts.C05.redisKeySepChar = '.' ∧
    Facts.C05.putSilentSkips = ["opts.ttl <= 0"] ∧
    Facts.C05.pifCallArity = ["validateS2SPresentationNonce:2", "ValidateDPoPProof:2"] := by decide

/-- key-space disjointness: over EVERY session store of auth/api/iam and vcr/issuer (regenerated prefix segments), the
    store paths "seg/seg/" are pairwise not a prefix of one another, for the "/" join of the in-memory / memcached
    flavour and the "." join of the redis flavour; the model's stores are among them. -/
theorem fact_keyspace_disjoint :
    pairwiseNonPrefix (Facts.C05.allStorePrefixChars.map (storePath Facts.C05.memKeySepChar)) = true ∧
    pairwiseNonPrefix (Facts.C05.allStorePrefixChars.map (storePath Facts.C05.redisKeySepChar)) = true ∧
    (Facts.C05.allStorePrefixChars.map (storePath Facts.C05.memKeySepChar)).Nodup ∧
    (Facts.C05.allStorePrefixChars.map (storePath Facts.C05.redisKeySepChar)).Nodup ∧
    Facts.C05.allStorePrefixChars.length = Facts.C05.allStorePrefixes.length ∧
    Facts.C05.allStorePrefixChars.map (storePath Facts.C05.memKeySepChar) = Facts.C05.storePathsMem ∧
    (∀ k ∈ Kind.all, todayPrefix k ∈ Facts.C05.allStorePrefixes) := by decide

/-- … hence, with `getFullKey` modelled literally (`joinKey` = strings.Join, no normalisation), two different stores never
    share a full key, WHATEVER the keys are — separators, `..` segments, any length: no store whose keys the requester
    chooses (the code burned by the token endpoint, the challenges burned by `validatePresentationNonce`, request-object
    ids, redirect tokens) can reach an entry of another store.  This is what lets the model's keys be pairs (namespace, id). -/
theorem keyspace_disjoint (p q : List (List Char)) (hp : p ∈ Facts.C05.allStorePrefixChars) (hq : q ∈ Facts.C05.allStorePrefixChars)
    (hne : storePath Facts.C05.memKeySepChar p ≠ storePath Facts.C05.memKeySepChar q) (k1 k2 : List Char) :
    joinKey Facts.C05.memKeySepChar p k1 ≠ joinKey Facts.C05.memKeySepChar q k2 :=
  joinKey_disjoint _ _ fact_keyspace_disjoint.1 p q hp hq hne k1 k2

theorem keyspace_disjoint_redis (p q : List (List Char)) (hp : p ∈ Facts.C05.allStorePrefixChars) (hq : q ∈ Facts.C05.allStorePrefixChars)
    (hne : storePath Facts.C05.redisKeySepChar p ≠ storePath Facts.C05.redisKeySepChar q) (k1 k2 : List Char) :
    joinKey Facts.C05.redisKeySepChar p k1 ≠ joinKey Facts.C05.redisKeySepChar q k2 :=
  joinKey_disjoint _ _ fact_keyspace_disjoint.2.1 p q hp hq hne k1 k2

/-- the join really is literal: a `..` segment in a key stays in the full key -/
example : joinKey '/' ["oauth".toList, "code".toList] "../../nonceonce/J".toList = "oauth/code/../../nonceonce/J".toList := by decide

/-- `Put` is total on keys (any length, any characters): the entry is visible right after it -/
theorem put_total_on_keys (incl : Bool) (st : Store) (now ttl : Nat) (k : Key) (v : String) (h : 0 < ttl) :
    stGet incl (stPut st k ⟨v, now + ttl⟩) now k = some v := put_visible incl st now ttl k v h

/-- the one-time stores are used by exactly these functions: the four issuing functions `Put` (fresh random keys),
    every other access is one of the modelled consumers -/
theorem fact_store_users :
    Facts.C05.storeUsers =
      ["RequestJWTByGet:authzRequestObjectStore.GetAndDelete", "RequestJWTByPost:authzRequestObjectStore.GetAndDelete",
       "RequestUserAccessToken:userRedirectStore.Put",
       "ValidateDPoPProof:useNonceOnceStore.PutIfAbsent",
       "createAuthorizationRequest:authzRequestObjectStore.Put",
       "handleAccessTokenRequest:oauthCodeStore.Delete", "handleAccessTokenRequest:oauthCodeStore.GetAndDelete",
       "handleAuthorizeResponseSubmission:oauthCodeStore.Put",
       "handleUserLanding:userRedirectStore.GetAndDelete",
       "nextOpenID4VPFlow:oauthNonceStore.Put",
       "validatePresentationNonce:oauthNonceStore.Delete", "validatePresentationNonce:oauthNonceStore.GetAndDelete",
       "validateS2SPresentationNonce:s2sNonceStore.PutIfAbsent"] := by decide

/-- each consumer kind has its own namespace (store prefix): the model's keys carry the kind -/
theorem fact_prefixes_distinct : (Kind.all.map todayPrefix).Nodup := by decide

/-- today's `GetAndDelete` consumes atomically on every back-end (in-process): the model may use `AtomicBurn` -/
theorem fact_gad_atomic_today : AtomicBurn todayMem ∧ AtomicBurn todayRedis ∧ AtomicBurn todayMemcached := by
  refine ⟨?_, ?_, ?_⟩ <;> (unfold AtomicBurn; decide)

/-- today's s2s-nonce and DPoP-jti consumers check and register in one atomic section (`PutIfAbsent` under the mutex) -/
theorem fact_mark_atomic_today : AtomicMark todayMem ∧ AtomicMark todayRedis ∧ AtomicMark todayMemcached := by
  refine ⟨?_, ?_, ?_⟩ <;> (intro m; cases m <;> decide)

/-- `GetAndDelete` and `PutIfAbsent` are built as the model assumes: Lock, deferred Unlock, then the two calls -/
theorem fact_session_store_shapes :
    Facts.C05.gadCalls = ["Lock", "Unlock", "Get", "Delete"] ∧ Facts.C05.pifCalls = ["Lock", "Unlock", "Get", "Put"] ∧
    Facts.C05.memKeySep = "/" ∧ Facts.C05.redisKeySep = "." ∧
    -- GetAndDelete returns the error of the underlying Delete as it is (what makes memcached's miss visible)
    Facts.C05.gadRawDelete = true := by decide

/-- every one-time store has a positive TTL (`SessionStoreImpl.Put` silently stores nothing when the TTL is ≤ 0;
    the model's `stPut` always stores) -/
theorem fact_ttls_positive : ∀ k ∈ Kind.all, 0 < todayTTL k := by decide

/-- the thread programs make exactly the underlying calls the extracted API calls consist of, path by path
    (`apiCalls` is pinned to the source by `fact_consumer_calls`; deferred calls run last) -/
theorem program_matches_api_calls :
    let code : Key := ⟨.burn .code, "s"⟩
    let ex := fun (k : Kind) (calls : List ApiCall) => calls.flatMap (expandCall todayMem k)
    let st := fun (k : Kind) => ([(⟨k, "s"⟩, ⟨"c", 60⟩)] : Store)
    -- authorization code: GetAndDelete, then the deferred Delete; missing parameter: only the deferred Delete
    soloOps todayMem 9 (init (st code.ns) [.burn { kind := .code, id := "s", want := "c" }])
      = ex code.ns ((Kind.burn .code).api.reverse) ∧
    soloOps todayMem 9 (init (st code.ns) [.burn { kind := .code, id := "s", want := "c", pre := false }])
      = ex code.ns ((Kind.burn .code).api.take 1) ∧
    -- OpenID4VP nonce: GetAndDelete; presentations disagree: only the Delete
    soloOps todayMem 9 (init (st (.burn .vpNonce)) [.burn { kind := .vpNonce, id := "s", want := "c" }])
      = ex (.burn .vpNonce) ((Kind.burn .vpNonce).api.drop 1) ∧
    soloOps todayMem 9 (init (st (.burn .vpNonce)) [.burn { kind := .vpNonce, id := "s", want := "c", pre := false }])
      = ex (.burn .vpNonce) ((Kind.burn .vpNonce).api.take 1) ∧
    -- request object, user redirect token: GetAndDelete
    soloOps todayMem 9 (init (st (.burn .reqObj)) [.burn { kind := .reqObj, id := "s", want := "c" }])
      = ex (.burn .reqObj) (Kind.burn .reqObj).api ∧
    soloOps todayMem 9 (init (st (.burn .redirect)) [.burn { kind := .redirect, id := "s" }])
      = ex (.burn .redirect) (Kind.burn .redirect).api ∧
    soloOps todayMem 9 (init (st (.burn .preAuth)) [.burn { kind := .preAuth, id := "s", want := "c" }])
      = ex (.burn .preAuth) (Kind.burn .preAuth).api ∧
    -- s2s nonce, DPoP jti: PutIfAbsent (Get, and Set when it missed)
    soloOps todayMem 9 (init [] [.mark { kind := .s2s, id := "s" }]) = ex (.mark .s2s) (Kind.mark .s2s).api ∧
    soloOps todayMem 9 (init [] [.mark { kind := .jti, id := "s" }]) = ex (.mark .jti) (Kind.mark .jti).api ∧
    soloOps todayMem 9 (init (st (.mark .s2s)) [.mark { kind := .s2s, id := "s" }]) = ["get"] := by
  decide

/-! ### at most once when the consume step is atomic -/

/-- Burn-on-use secrets (authorization code, request object, OpenID4VP nonce, user redirect token):
    whatever the initial store, for ANY number of concurrent or sequential requests of any mix, and EVERY schedule
    (interleaving at the granularity of single underlying store calls, clock ticks anywhere), at most one request
    obtains the stored value — provided the consume step is atomic (`AtomicBurn`). -/
theorem at_most_once_atomic (cfg : Cfg) (ha : AtomicBurn cfg) (st : Store) (reqs : List Req) (sched : List Ev)
    (i j : Nat) (ti tj : Thread)
    (hi : (run cfg sched (init st reqs)).ths[i]? = some ti) (hj : (run cfg sched (init st reqs)).ths[j]? = some tj)
    (hk : ti.key = tj.key) (hti : ti.took = true) (htj : tj.took = true) : i = j :=
  (BInv_run cfg ha sched _ (BInv_init cfg st reqs)).uniq i j ti tj hi hj hk hti htj

/-- … hence at most one request per secret is honoured -/
theorem at_most_one_success_atomic (cfg : Cfg) (ha : AtomicBurn cfg) (st : Store) (reqs : List Req) (sched : List Ev)
    (k : Key) (b : BurnKind) (hk : k.ns = .burn b) :
    successes (run cfg sched (init st reqs)) k ≤ 1 := by
  unfold successes winners
  apply filter_length_le_one
  intro i j ta tb hi hj ha' hb'
  simp only [Bool.and_eq_true, decide_eq_true_eq] at ha' hb'
  exact at_most_once_atomic cfg ha st reqs sched i j ta tb hi hj (by rw [ha'.1, hb'.1])
    (won_took ta b (by rw [ha'.1]; exact hk) ha'.2) (won_took tb b (by rw [hb'.1]; exact hk) hb'.2)

/-- today's code, in-memory back-end -/
theorem at_most_one_success_today (st : Store) (reqs : List Req) (sched : List Ev) (k : Key) (b : BurnKind)
    (hk : k.ns = .burn b) : successes (run todayMem sched (init st reqs)) k ≤ 1 :=
  at_most_one_success_atomic todayMem fact_gad_atomic_today.1 st reqs sched k b hk

/-! ### mark-as-used secrets (s2s presentation nonce, DPoP proof id) -/

/-- For ANY number of requests and EVERY schedule: two requests that were both accepted with the same nonce / jti
    finished at least a TTL apart — provided check-and-register is atomic (`AtomicMark`). -/
theorem mark_successes_separated (cfg : Cfg) (ha : AtomicMark cfg) (st : Store) (reqs : List Req) (sched : List Ev)
    (i j : Nat) (ri rj : MarkReq) (fi fj : Nat) (hij : i ≠ j)
    (hi : (run cfg sched (init st reqs)).ths[i]? = some (Thread.mark ri (.done .ok) fi))
    (hj : (run cfg sched (init st reqs)).ths[j]? = some (Thread.mark rj (.done .ok) fj))
    (hk : ri.key = rj.key) :
    fi + cfg.ttl (.mark ri.kind) ≤ fj ∨ fj + cfg.ttl (.mark ri.kind) ≤ fi :=
  (MInv_run cfg ha sched _ (MInv_init cfg st reqs)).sep i j ri rj fi fj hij hi hj hk

/-- … hence within one TTL at most one request per nonce / jti is accepted -/
theorem mark_at_most_once_within_ttl (cfg : Cfg) (ha : AtomicMark cfg) (st : Store) (reqs : List Req) (sched : List Ev)
    (k : Key) (m : MarkKind) (hk : k.ns = .mark m) (hnow : (run cfg sched (init st reqs)).now < cfg.ttl (.mark m)) :
    successes (run cfg sched (init st reqs)) k ≤ 1 := by
  have inv := MInv_run cfg ha sched _ (MInv_init cfg st reqs)
  unfold successes winners
  apply filter_length_le_one
  intro i j ta tb hi hj ha' hb'
  simp only [Bool.and_eq_true, decide_eq_true_eq] at ha' hb'
  have shape : ∀ (t : Thread), t.key = k → t.won = true → ∃ r f, t = Thread.mark r (.done .ok) f ∧ r.kind = m := by
    intro t htk htw
    cases t with
    | burn r pc f => rw [← htk] at hk; simp [Thread.key, BurnReq.key] at hk
    | mark r pc f =>
      rw [← htk] at hk; simp [Thread.key, MarkReq.key] at hk
      cases pc <;> simp_all [Thread.won, Thread.outcome]
  obtain ⟨ra, fa, hta, hka⟩ := shape ta ha'.1 ha'.2
  obtain ⟨rb, fb, htb, hkb⟩ := shape tb hb'.1 hb'.2
  subst hta; subst htb
  by_cases hij : i = j
  · exact hij
  · have h1 := inv.time i _ hi
    have h2 := inv.time j _ hj
    simp [Thread.fin] at h1 h2
    have := inv.sep i j ra rb fa fb hij hi hj (by
      have e1 := ha'.1; have e2 := hb'.1
      simp [Thread.key] at e1 e2; rw [e1, e2])
    rw [hka] at this
    omega

theorem mark_at_most_once_within_ttl_today (st : Store) (reqs : List Req) (sched : List Ev) (k : Key) (m : MarkKind)
    (hk : k.ns = .mark m) (hnow : (run todayMem sched (init st reqs)).now < todayTTL (.mark m)) :
    successes (run todayMem sched (init st reqs)) k ≤ 1 :=
  mark_at_most_once_within_ttl todayMem fact_mark_atomic_today.1 st reqs sched k m hk hnow

/-! ### dead secrets -/

/-- A burn-on-use secret that is not visible (absent or expired) is never handed to a request that has not yet passed
    its Get — in EVERY continuation, for every shape of GetAndDelete (no atomicity needed). -/
theorem dead_never_honoured (cfg : Cfg) (w : World) (k : Key) (b : BurnKind) (hk : k.ns = .burn b)
    (hdead : stGet cfg.expInclusive w.store w.now k = none)
    (i : Nat) (t : Thread) (hi : w.ths[i]? = some t) (hkey : t.key = k) (hidle : t.idle = true)
    (s : List Ev) (t' : Thread) (ht' : (run cfg s w).ths[i]? = some t') : t'.took = false := by
  have inv : DInv cfg k i w := ⟨hdead, fun t0 h0 => by rw [hi] at h0; injection h0 with h0; subst h0; exact ⟨hkey, hidle⟩⟩
  exact idle_not_took _ ((DInv_run cfg k b hk i s w inv).idle t' ht').2

/-- after the TTL the secret is gone: a request that starts then is refused, whatever happens concurrently -/
theorem dead_after_ttl (cfg : Cfg) (w : World) (k : Key) (b : BurnKind) (hk : k.ns = .burn b)
    (e : Entry) (he : stFind w.store k = some e) (hexp : alive cfg.expInclusive w.now e.exp = false)
    (i : Nat) (t : Thread) (hi : w.ths[i]? = some t) (hkey : t.key = k) (hidle : t.idle = true)
    (s : List Ev) (t' : Thread) (ht' : (run cfg s w).ths[i]? = some t') : t'.took = false :=
  dead_never_honoured cfg w k b hk (by simp [stGet, he, hexp]) i t hi hkey hidle s t' ht'

/-- An authorization code is dead after ANY finished redemption attempt (successful or failed on any branch after the
    presence check of `code`; `hdel`: its Deletes reached the store): in every schedule `s1` after which some attempt `j` on the code has finished, the code
    is absent from the store, and every request `i` that had not yet passed its Get at that moment is refused in
    every continuation `s2`.  Holds for every shape of GetAndDelete. -/
theorem code_dead_after_failed_attempt (cfg : Cfg) (st : Store) (reqs : List Req) (s1 s2 : List Ev)
    (j : Nat) (r : BurnReq) (o : Outcome) (f : Nat)
    (hj : (run cfg s1 (init st reqs)).ths[j]? = some (Thread.burn r (.done o) f)) (hc : r.kind = .code)
    (hdel : r.failDel = false)
    (i : Nat) (t : Thread) (hi : (run cfg s1 (init st reqs)).ths[i]? = some t) (hkey : t.key = r.key) (hidle : t.idle = true)
    (t' : Thread) (ht' : (run cfg s2 (run cfg s1 (init st reqs))).ths[i]? = some t') :
    stFind (run cfg s1 (init st reqs)).store r.key = none ∧ t'.took = false := by
  have hgone := CInv_run cfg s1 _ (CInv_init st reqs) j r o f hj hc hdel
  exact ⟨hgone, dead_never_honoured cfg _ r.key r.kind rfl (stGet_none_of_find_none _ _ _ _ hgone) i t hi hkey hidle s2 t' ht'⟩

/-! ### nonce memory vs. the acceptance window of a service-to-service presentation -/

/-- a JSON-LD presentation is accepted from `created − skew` to `expires + skew` and may be valid for at most
    `s2sMaxPresentationValidity`: the window in which a copy of it is still acceptable -/
def s2sWindow : Nat := Facts.C05.s2sMaxPresentationValidity + 2 * Facts.C05.verifierMaxSkew

/-- the nonce of a presentation is remembered for at least as long as the presentation can be accepted -/
def NonceCoversWindow : Prop := s2sWindow ≤ todayTTL (.mark .s2s)

theorem nonce_covers_window : NonceCoversWindow := by unfold NonceCoversWindow s2sWindow; decide

/-- window offsets (first use, replay) at which a copy is still acceptable while its nonce is already forgotten -/
def replayWindow (ttl window : Nat) : List (Nat × Nat) :=
  (List.range (window + 1)).flatMap fun a => ((List.range (window + 1)).filter fun b => decide (a + ttl ≤ b ∧ b < a + window)).map fun b => (a, b)

/-- today there is no such pair; with the nonce TTL of `validity + skew` (10 s, as before 375d6d0) there were -/
theorem replay_window_empty_today : replayWindow (todayTTL (.mark .s2s)) s2sWindow = [] ∧ replayWindow 10 15 ≠ [] := by decide

/-- composition with `mark_successes_separated`: whenever the TTL covers a window, two accepted requests with the
    same s2s nonce are at least that window apart — for every schedule -/
theorem s2s_no_replay_inside_window (cfg : Cfg) (ha : AtomicMark cfg) (window : Nat) (hcov : window ≤ cfg.ttl (.mark .s2s))
    (st : Store) (reqs : List Req) (sched : List Ev) (i j : Nat) (ri rj : MarkReq) (fi fj : Nat) (hij : i ≠ j)
    (hi : (run cfg sched (init st reqs)).ths[i]? = some (Thread.mark ri (.done .ok) fi))
    (hj : (run cfg sched (init st reqs)).ths[j]? = some (Thread.mark rj (.done .ok) fj))
    (hk : ri.key = rj.key) (hs : ri.kind = .s2s) : fi + window ≤ fj ∨ fj + window ≤ fi := by
  have := mark_successes_separated cfg ha st reqs sched i j ri rj fi fj hij hi hj hk
  rw [hs] at this
  omega

/-! ### requests in flight at handler level -/

/-- The at-most-once theorems above hold with handler-level overlap too: `Cfg.ext` makes an accepted request stay in
    flight (`atExt`: parked before a collaborator call — the signer, the access-token store) while other requests enter,
    and the theorems quantify over every `cfg`.  Concretely: a second request that enters while the first one is in
    flight after its GetAndDelete is refused. -/
example : ((run { todayMem with ext := fun _ => true } [.step 0, .step 0, .step 0, .step 1, .step 1, .step 0, .step 0]
    (init [(⟨.burn .reqObj, "s"⟩, ⟨"c", 60⟩)] [.burn { kind := .reqObj, id := "s", want := "c" }, .burn { kind := .reqObj, id := "s", want := "c" }])).ths.map Thread.outcome)
    = [some .ok, some .notFound] := by decide

/-! ### store faults fail closed -/

/-- A request whose underlying Get fails (any consumer), or whose Set fails (mark consumers), is never honoured and
    never obtains the value — for every configuration and EVERY schedule.  (A slip that treats "store error" like
    "not found" would let a replay through while the store is unreachable.) -/
theorem store_fault_fails_closed (cfg : Cfg) (st : Store) (reqs : List Req) (sched : List Ev) (i : Nat)
    (r : Req) (hr : reqs[i]? = some r) (hf : r.thread.faulty = true)
    (t : Thread) (ht : (run cfg sched (init st reqs)).ths[i]? = some t) : t.won = false ∧ t.took = false := by
  have h0 : ∀ t0, (init st reqs).ths[i]? = some t0 → t0.faulty = true ∧ t0.safe = true := by
    intro t0 h
    simp only [init, List.getElem?_map, hr, Option.map_some] at h
    injection h with h; subst h
    refine ⟨hf, ?_⟩
    cases r <;> simp [Req.thread, Thread.safe, Thread.idle, Thread.took]
  exact safe_not_won t ((faulty_safe_run cfg i sched _ h0) t ht).2

/-- with all store faults switched on, the at-most-once invariants still hold (they are proved for every request,
    faulty or not); a concrete run: Get fails for the first request, the second one is honoured, the third refused -/
example : ((run todayMem [.step 0, .step 0, .step 1, .step 1, .step 1, .step 2, .step 2]
    (init [] [.mark ⟨.s2s, "n", true, false⟩, .mark ⟨.s2s, "n", false, false⟩, .mark ⟨.s2s, "n", false, false⟩])).ths.map Thread.outcome)
    = [some .storeErr, some .ok, some .used] := by decide

/-! ### the two-call shapes without a lock are not atomic: negation witnesses
    (the code before 8cb8dd5 / 97727dc; still the situation of several nodes sharing one Redis, whose mutexes are
    per process) -/

theorem two_success_witness :
    successes (run cfgTwoCalls witnessSched (init witnessStore [witnessCodeReq, witnessCodeReq])) ⟨.burn .code, "s1"⟩ = 2 := by
  decide

theorem two_success_witness_mark :
    successes (run cfgTwoCalls witnessMarkSched (init [] (witnessMarkReqs .s2s))) ⟨.mark .s2s, "n1"⟩ = 2 ∧
    successes (run cfgTwoCalls witnessMarkSched (init [] (witnessMarkReqs .jti))) ⟨.mark .jti, "n1"⟩ = 2 := by
  decide

/-- the same schedules break today's code when every request is served by another node of a cluster that shares
    one Redis (the mutex is per process): open finding, see known_findings.json -/
theorem two_success_witness_multinode :
    successes (run todayRedisMultiNode witnessSched (init witnessStore [witnessCodeReq, witnessCodeReq])) ⟨.burn .code, "s1"⟩ = 2 ∧
    successes (run todayRedisMultiNode witnessMarkSched (init [] (witnessMarkReqs .s2s))) ⟨.mark .s2s, "n1"⟩ = 2 := by
  decide

/-- the full-strength statement for an arbitrary configuration (false for `cfgTwoCalls`, see above) -/
def AtMostOnceStmt (cfg : Cfg) : Prop :=
  ∀ (st : Store) (reqs : List Req) (sched : List Ev) (k : Key) (b : BurnKind), k.ns = .burn b →
    successes (run cfg sched (init st reqs)) k ≤ 1

theorem at_most_once_fails_without_atomicity : ¬ AtMostOnceStmt cfgTwoCalls := by
  intro h
  have := h witnessStore [witnessCodeReq, witnessCodeReq] witnessSched ⟨.burn .code, "s1"⟩ .code rfl
  rw [two_success_witness] at this
  omega

/-- what remains true for ANY configuration: in schedules that never separate the Get and the Delete of one
    GetAndDelete (sequential use, or any interleaving of the other steps) at most one request obtains the secret.
    Missing for the full statement: the schedules in which another step falls between those two calls. -/
theorem at_most_once_partial (cfg : Cfg) (st : Store) (reqs : List Req) (sched : List Ev)
    (hs : NoSplit cfg (init st reqs) sched) (i j : Nat) (ti tj : Thread)
    (hi : (run cfg sched (init st reqs)).ths[i]? = some ti) (hj : (run cfg sched (init st reqs)).ths[j]? = some tj)
    (hk : ti.key = tj.key) (hti : ti.took = true) (htj : tj.took = true) : i = j :=
  (PInv_run cfg sched _ hs (PInv_init cfg st reqs)).uniq i j ti tj hi hj hk hti htj

/-- the same for the mark consumers: schedules that never separate the Get that missed from its Put -/
theorem mark_separated_partial (cfg : Cfg) (st : Store) (reqs : List Req) (sched : List Ev)
    (hs : NoSplitMark cfg (init st reqs) sched)
    (i j : Nat) (ri rj : MarkReq) (fi fj : Nat) (hij : i ≠ j)
    (hi : (run cfg sched (init st reqs)).ths[i]? = some (Thread.mark ri (.done .ok) fi))
    (hj : (run cfg sched (init st reqs)).ths[j]? = some (Thread.mark rj (.done .ok) fj))
    (hk : ri.key = rj.key) :
    fi + cfg.ttl (.mark ri.kind) ≤ fj ∨ fj + cfg.ttl (.mark ri.kind) ≤ fi :=
  (QInv_run cfg sched _ hs (QInv_init cfg st reqs)).sep i j ri rj fi fj hij hi hj hk

/-! ### non-vacuity -/

/-- under the lock the witness schedule honours exactly one request (hypotheses of `at_most_once_atomic` are met
    by a configuration in which something happens) -/
example : successes (run { cfgTwoCalls with gad := .locked } witnessSched (init witnessStore [witnessCodeReq, witnessCodeReq]))
    ⟨.burn .code, "s1"⟩ = 1 := by decide
example : AtomicBurn { cfgTwoCalls with gad := .locked } := Or.inr (Or.inl rfl)
/-- memcached: the unlocked two-call shape is atomic because the second Delete reports the missing key -/
example : successes (run { cfgTwoCalls with strictDelete := true } witnessSched (init witnessStore [witnessCodeReq, witnessCodeReq]))
    ⟨.burn .code, "s1"⟩ = 1 := by decide
/-- a sequential schedule satisfies `NoSplit` and honours one of two requests -/
example : NoSplit cfgTwoCalls (init witnessStore [witnessCodeReq, witnessCodeReq])
    [.step 0, .step 0, .step 0, .step 0, .step 1, .step 1, .step 1, .step 1] := (noSplitB_iff _ _ _).mp (by decide)
/-- the witness schedule does separate the two calls -/
example : ¬ NoSplit cfgTwoCalls (init witnessStore [witnessCodeReq, witnessCodeReq]) witnessSched :=
  fun h => absurd ((noSplitB_iff _ _ _).mpr h) (by decide)
/-- mark consumers under the lock: first accepted, concurrent second refused, a third after the TTL accepted again -/
example : ((run { cfgTwoCalls with mark := fun _ => .locked } [.step 0, .step 1, .step 0, .step 1, .step 0, .step 1, .step 1, .tick 61, .step 2, .step 2, .step 2]
    (init [] [.mark { kind := .s2s, id := "n1" }, .mark { kind := .s2s, id := "n1" }, .mark { kind := .s2s, id := "n1" }])).ths.map Thread.outcome) = [some .ok, some .used, some .ok] := by decide
/-- a failed attempt (wrong client_id) burns the code: the honest request that comes next is refused -/
example : ((run todayMem [.step 0, .step 0, .step 0, .step 0, .step 1, .step 1, .step 1]
    (init witnessStore [.burn { kind := .code, id := "s1", want := "clientB" }, witnessCodeReq])).ths.map Thread.outcome)
    = [some .mismatch, some .notFound] := by decide
/-- an expired code is refused -/
example : ((run todayMem [.tick 61, .step 0, .step 0, .step 0]
    (init witnessStore [witnessCodeReq])).ths.map Thread.outcome) = [some .notFound] := by decide

end Nuts.C05.Props
