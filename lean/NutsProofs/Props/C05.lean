/-
  C05 — one-time secrets are honoured at most once under every interleaving of session-store operations.
  ONLY property theorems (+ non-vacuity examples + obligations on the regenerated facts).
  Model: NutsModel/C05/OneTime.lean, instantiated with today's source in NutsModel/C05/Today.lean.
  Helper lemmas: NutsProofs/Lemmas/C05.lean.
-/
import NutsModel.C05.OneTime
import NutsModel.C05.Today
import NutsModel.Facts.C05
import NutsProofs.Lemmas.C05

namespace Nuts.C05.Props
open Nuts.C05

/-! ### Obligations on the regenerated facts -/

/-- every consumer makes exactly the session-store calls its thread program is written for -/
theorem fact_consumer_calls :
    Facts.C05.callsCode = (Kind.burn .code).apiCalls ∧
    Facts.C05.callsReqObjGet = (Kind.burn .reqObj).apiCalls ∧
    Facts.C05.callsReqObjPost = (Kind.burn .reqObj).apiCalls ∧
    Facts.C05.callsVpNonce = (Kind.burn .vpNonce).apiCalls ∧
    Facts.C05.callsRedirect.take 1 = (Kind.burn .redirect).apiCalls ∧
    Facts.C05.callsS2S = (Kind.mark .s2s).apiCalls ∧
    Facts.C05.callsJti = (Kind.mark .jti).apiCalls := by decide

/-- the one-time stores are used by exactly these functions: the four issuing functions `Put` (fresh random keys),
    every other access is one of the modelled consumers -/
theorem fact_store_users :
    Facts.C05.storeUsers =
      ["RequestJWTByGet:authzRequestObjectStore.GetAndDelete", "RequestJWTByPost:authzRequestObjectStore.GetAndDelete",
       "RequestUserAccessToken:userRedirectStore.Put",
       "ValidateDPoPProof:useNonceOnceStore.PutIfAbsent",
       "createAuthorizationRequest:authzRequestObjectStore.Put",
       "handleAccessTokenRequest:oauthCodeStore.Delete", "handleAccessTokenRequest:oauthCodeStore.GetAndDelete",
       "handleAuthorizeResponseSubmission:oauthCodeStore.Put",
       "handleUserLanding:userRedirectStore.GetAndDelete",
       "nextOpenID4VPFlow:oauthNonceStore.Put",
       "validatePresentationNonce:oauthNonceStore.Delete", "validatePresentationNonce:oauthNonceStore.GetAndDelete",
       "validateS2SPresentationNonce:s2sNonceStore.PutIfAbsent"] := by decide

/-- each consumer kind has its own namespace (store prefix): the model's keys carry the kind -/
theorem fact_prefixes_distinct : (Kind.all.map todayPrefix).Nodup := by decide

/-- today's `GetAndDelete` consumes atomically on every back-end (in-process): the model may use `AtomicBurn` -/
theorem fact_gad_atomic_today : AtomicBurn todayMem ∧ AtomicBurn todayRedis ∧ AtomicBurn todayMemcached := by
  refine ⟨?_, ?_, ?_⟩ <;> (unfold AtomicBurn; decide)

/-! ### at most once when the consume step is atomic -/

/-- Burn-on-use secrets (authorization code, request object, OpenID4VP nonce, user redirect token):
    whatever the initial store, for ANY number of concurrent or sequential requests of any mix, and EVERY schedule
    (interleaving at the granularity of single underlying store calls, clock ticks anywhere), at most one request
    obtains the stored value — provided the consume step is atomic (`AtomicBurn`). -/
theorem at_most_once_atomic (cfg : Cfg) (ha : AtomicBurn cfg) (st : Store) (reqs : List Req) (sched : List Ev)
    (i j : Nat) (ti tj : Thread)
    (hi : (run cfg sched (init st reqs)).ths[i]? = some ti) (hj : (run cfg sched (init st reqs)).ths[j]? = some tj)
    (hk : ti.key = tj.key) (hti : ti.took = true) (htj : tj.took = true) : i = j :=
  (BInv_run cfg ha sched _ (BInv_init cfg st reqs)).uniq i j ti tj hi hj hk hti htj

/-- … hence at most one request per secret is honoured -/
theorem at_most_one_success_atomic (cfg : Cfg) (ha : AtomicBurn cfg) (st : Store) (reqs : List Req) (sched : List Ev)
    (k : Key) (b : BurnKind) (hk : k.ns = .burn b) :
    successes (run cfg sched (init st reqs)) k ≤ 1 := by
  unfold successes winners
  apply filter_length_le_one
  intro i j ta tb hi hj ha' hb'
  simp only [Bool.and_eq_true, decide_eq_true_eq] at ha' hb'
  exact at_most_once_atomic cfg ha st reqs sched i j ta tb hi hj (by rw [ha'.1, hb'.1])
    (won_took ta b (by rw [ha'.1]; exact hk) ha'.2) (won_took tb b (by rw [hb'.1]; exact hk) hb'.2)

/-- today's code, in-memory back-end -/
theorem at_most_one_success_today (st : Store) (reqs : List Req) (sched : List Ev) (k : Key) (b : BurnKind)
    (hk : k.ns = .burn b) : successes (run todayMem sched (init st reqs)) k ≤ 1 :=
  at_most_one_success_atomic todayMem fact_gad_atomic_today.1 st reqs sched k b hk

/-! ### the two-call shape without a lock is not atomic: negation witness -/

/-- `GetAndDelete` = Get, then Delete, no lock, on a back-end whose Delete is silent about missing keys -/
def cfgTwoCalls : Cfg :=
  { gad := .twoCalls, gadRawDelete := true, strictDelete := false, expInclusive := true,
    mark := fun _ => .getThenPut, ttl := fun _ => 60 }

def witnessCodeReq : Req := .burn { kind := .code, id := "s1", want := "clientA" }
def witnessStore : Store := [(⟨.burn .code, "s1"⟩, ⟨"clientA", 60⟩)]
/-- launch both, get₁ get₂ del₁ del₂, then the deferred deletes -/
def witnessSched : List Ev := [.step 0, .step 1, .step 0, .step 1, .step 0, .step 1, .step 0, .step 1]

theorem two_success_witness :
    successes (run cfgTwoCalls witnessSched (init witnessStore [witnessCodeReq, witnessCodeReq])) ⟨.burn .code, "s1"⟩ = 2 := by
  decide

/-- non-vacuity of `at_most_once_atomic`: under the lock the same schedule honours one request -/
example : successes (run { cfgTwoCalls with gad := .locked } witnessSched (init witnessStore [witnessCodeReq, witnessCodeReq]))
    ⟨.burn .code, "s1"⟩ = 1 := by decide

end Nuts.C05.Props
