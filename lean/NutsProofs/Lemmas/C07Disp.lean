/-
  C07 deepening round 2: lemmas about the dispatcher model (NutsModel/C07/Dispatch.lean).
-/
import NutsModel.C07.Dispatch
import NutsProofs.Lemmas.C07

namespace Nuts.Proto.Disp
open Nuts.Proto Nuts.Proto.L

/-! ### the node state is the fold of the atomic handlers over the invocation trace -/

theorem foldHandle_append (cfg : Cfg) (env : Env) : ∀ (a b : List (Peer × Msg)) (n : Node),
    foldHandle cfg env n (a ++ b) = foldHandle cfg env (foldHandle cfg env n a) b := by
  intro a
  induction a with
  | nil => intro b n; rfl
  | cons x r ih => intro b n; simp [foldHandle, ih]

theorem stepEv_node (P : Params) (d : DNode) (e : Ev) :
    (stepEv P d e).1.node = foldHandle P.cfg P.env d.node (stepEv P d e).2 := by
  cases e with
  | arrive p m =>
    simp only [stepEv, Handle, dispatchMsg, foldHandle]
    split <;> try rfl
    split <;> rfl
  | listRun =>
    simp only [stepEv]
    split <;> simp [foldHandle]
  | asyncRun i =>
    simp only [stepEv]
    split <;> simp [foldHandle]

theorem run_node (P : Params) : ∀ (evs : List Ev) (d : DNode),
    (run P d evs).1.node = foldHandle P.cfg P.env d.node (run P d evs).2 := by
  intro evs
  induction evs with
  | nil => intro d; rfl
  | cons e r ih =>
    intro d
    simp only [run]
    rw [foldHandle_append, ← stepEv_node, ih]

/-! ### invariants of the two waiting rooms -/

/-- what is on the list channel was routed there, what waits as a goroutine was routed `async` -/
def WaitOK (rt : Msg → Route) (d : DNode) : Prop :=
  (∀ x ∈ d.chan, rt x.2 = .listChan) ∧ (∀ x ∈ d.pending, rt x.2 = .async)

theorem mem_of_mem_eraseIdx {α} : ∀ (l : List α) (i : Nat) (x : α), x ∈ l.eraseIdx i → x ∈ l := by
  intro l
  induction l with
  | nil => intro i x h; simp at h
  | cons a r ih =>
    intro i x h
    cases i with
    | zero => simp at h; exact List.mem_cons_of_mem _ h
    | succ k =>
      simp only [List.eraseIdx_cons_succ, List.mem_cons] at h
      rcases h with h | h
      · simp [h]
      · exact List.mem_cons_of_mem _ (ih k x h)

theorem stepEv_waitOK (P : Params) (d : DNode) (e : Ev) (h : WaitOK P.rt d) : WaitOK P.rt (stepEv P d e).1 := by
  obtain ⟨hc, hp⟩ := h
  cases e with
  | arrive p m =>
    simp only [stepEv, Handle, dispatchMsg]
    split
    · exact ⟨hc, hp⟩
    · rename_i hr
      split
      · refine ⟨?_, hp⟩
        intro x hx
        simp only [List.mem_append, List.mem_singleton] at hx
        rcases hx with hx | hx
        · exact hc x hx
        · subst hx; exact hr
      · exact ⟨hc, hp⟩
    · rename_i hr
      refine ⟨hc, ?_⟩
      intro x hx
      simp only [List.mem_append, List.mem_singleton] at hx
      rcases hx with hx | hx
      · exact hp x hx
      · subst hx; exact hr
  | listRun =>
    simp only [stepEv]
    split
    · exact ⟨hc, hp⟩
    · rename_i x rest hch
      exact ⟨fun y hy => hc y (by rw [hch]; exact List.mem_cons_of_mem _ hy), hp⟩
  | asyncRun i =>
    simp only [stepEv]
    split
    · exact ⟨hc, hp⟩
    · exact ⟨hc, fun y hy => hp y (mem_of_mem_eraseIdx _ _ _ hy)⟩

/-- the channel never holds more than its capacity -/
theorem stepEv_chan_le (P : Params) (d : DNode) (e : Ev) (h : d.chan.length ≤ P.cap) :
    (stepEv P d e).1.chan.length ≤ P.cap := by
  cases e with
  | arrive p m =>
    simp only [stepEv, Handle, dispatchMsg]
    split
    · exact h
    · split
      · simp; omega
      · exact h
    · exact h
  | listRun =>
    simp only [stepEv]
    split
    · exact h
    · rename_i x rest hch
      rw [hch] at h; simp at h; simp; omega
  | asyncRun i =>
    simp only [stepEv]
    split <;> exact h

theorem run_chan_le (P : Params) : ∀ (evs : List Ev) (d : DNode), d.chan.length ≤ P.cap →
    (run P d evs).1.chan.length ≤ P.cap := by
  intro evs
  induction evs with
  | nil => intro d h; exact h
  | cons e r ih => intro d h; simp only [run]; exact ih _ (stepEv_chan_le P d e h)

/-! ### TransactionLists: FIFO, at most once, a drop is a loss -/

def isList (rt : Msg → Route) (x : Peer × Msg) : Bool := rt x.2 == .listChan

/-- handled lists followed by the waiting ones = a sublist (order kept, nothing twice, nothing invented) of the waiting
    ones at the start followed by the arriving ones -/
theorem run_lists_fifo (P : Params) : ∀ (evs : List Ev) (d : DNode), WaitOK P.rt d →
    List.Sublist (((run P d evs).2.filter (isList P.rt)) ++ (run P d evs).1.chan)
      (d.chan ++ (arrivals evs).filter (isList P.rt)) := by
  intro evs
  induction evs with
  | nil => intro d _; simp [run, arrivals]
  | cons e r ih =>
    intro d hw
    have hw' := stepEv_waitOK P d e hw
    have IH := ih _ hw'
    simp only [run, List.filter_append]
    cases e with
    | arrive p m =>
      simp only [stepEv, Handle, dispatchMsg, arrivals] at IH ⊢
      split
      · rename_i hr
        simp only [hr] at IH
        have : isList P.rt (p, m) = false := by simp [isList, hr]
        simpa [List.filter_cons, this] using IH
      · rename_i hr
        simp only [hr] at IH
        have hl : isList P.rt (p, m) = true := by simp [isList, hr]
        split
        · rename_i hlt
          simp only [hlt, if_true] at IH
          simpa [List.filter_cons, hl, List.append_assoc] using IH
        · rename_i hlt
          simp only [hlt, if_false] at IH
          simp only [List.filter_cons, hl, if_true, List.filter_nil, List.nil_append]
          exact IH.trans (List.Sublist.append_left (List.sublist_cons_self _ _) _)
      · rename_i hr
        simp only [hr] at IH
        have : isList P.rt (p, m) = false := by simp [isList, hr]
        simpa [List.filter_cons, this] using IH
    | listRun =>
      simp only [stepEv, arrivals] at IH ⊢
      split
      · rename_i hch
        simp only [hch] at IH
        simpa [hch] using IH
      · rename_i x rest hch
        simp only [hch] at IH
        have hl : isList P.rt x = true := by
          simp [isList, hw.1 x (by rw [hch]; simp)]
        simp only [List.filter_cons, hl, if_true, List.filter_nil, List.cons_append, List.nil_append]
        rw [hch]
        exact List.Sublist.cons_cons x IH
    | asyncRun i =>
      simp only [stepEv, arrivals] at IH ⊢
      split
      · rename_i hp
        simp only [hp] at IH
        simpa using IH
      · rename_i x hp
        simp only [hp] at IH
        have hx : x ∈ d.pending := List.mem_of_getElem? hp
        have hl : isList P.rt x = false := by simp [isList, hw.2 x hx]
        simpa [List.filter_cons, hl] using IH

/-! ### safety of the dispatcher: whatever the goroutine schedule, the DAG only grows by good transactions -/

theorem foldHandle_dag (cfg : Cfg) (env : Env) : ∀ (tr : List (Peer × Msg)) (n : Node), DagOK n.dag →
    DagOK (foldHandle cfg env n tr).dag ∧
    ∃ added, (foldHandle cfg env n tr).dag = added ++ n.dag ∧
      ∀ t ∈ added, t.sigOK = true ∧ ∃ x ∈ tr, t ∈ msgTxs x.2 := by
  intro tr
  induction tr with
  | nil => intro n h; exact ⟨h, [], by simp [foldHandle], by simp⟩
  | cons x r ih =>
    intro n h
    obtain ⟨h1, a1, e1, _, g1⟩ := handle_dag cfg env n x.1 x.2 h
    obtain ⟨h2, a2, e2, g2⟩ := ih _ h1
    refine ⟨h2, a2 ++ a1, ?_, ?_⟩
    · simp only [foldHandle]; rw [e2, e1, List.append_assoc]
    · intro t ht
      simp only [List.mem_append] at ht
      rcases ht with ht | ht
      · obtain ⟨s, y, hy, hy2⟩ := g2 t ht
        exact ⟨s, y, List.mem_cons_of_mem _ hy, hy2⟩
      · exact ⟨(g1 t ht).1, x, by simp, (g1 t ht).2⟩

end Nuts.Proto.Disp
