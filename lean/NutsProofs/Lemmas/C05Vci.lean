/-
  C05, OpenID4VCI request level: helper lemmas about NutsModel/C05/Vci.lean.
-/
import NutsModel.C05.Vci
import NutsProofs.Lemmas.C05Forms

namespace Nuts.C05

theorem vciErrAt_ne_ok (i : Nat) : vciErrAt i ≠ .ok := by
  unfold vciErrAt
  split
  · split <;> simp
  · simp

theorem storeErrAt_ne_ok (l : List String) (i : Nat) : storeErrAt l i ≠ .ok := by
  unfold storeErrAt
  split <;> simp

/-- whatever the answer: the code store after a token request is the code store after GetAndDelete(code) -/
theorem handlePreAuth_codes (c : Sq) (s : VciSt) (issuer code tok cn : String) :
    (handlePreAuth c s issuer code tok cn).st.codes = (gadSeq c s.codes (preAuthKey code)).2 := by
  unfold handlePreAuth
  split
  · next codes1 h => simp [h]
  · next flowID codes1 h =>
    simp only [h]
    split
    · rfl
    · split
      · rfl
      · split
        · split <;> rfl
        · rfl

/-- a token request never touches the flow store -/
theorem handlePreAuth_flows (c : Sq) (s : VciSt) (issuer code tok cn : String) :
    (handlePreAuth c s issuer code tok cn).st.flows = s.flows := by
  unfold handlePreAuth
  split
  · rfl
  · dsimp only
    split
    · rfl
    · split
      · rfl
      · split
        · split <;> rfl
        · rfl

theorem handlePreAuth_kills (c : Sq) (s : VciSt) (issuer code tok cn : String) :
    stGet c.incl (handlePreAuth c s issuer code tok cn).st.codes c.now (preAuthKey code) = none := by
  rw [handlePreAuth_codes]; exact gadSeq_dead c s.codes _

theorem handlePreAuth_not_ok_of_dead (c : Sq) (s : VciSt) (issuer code tok cn : String)
    (hd : stGet c.incl s.codes c.now (preAuthKey code) = none) : (handlePreAuth c s issuer code tok cn).ans ≠ .ok := by
  have h1 := gadSeq_none_of_dead c s.codes _ hd
  unfold handlePreAuth
  split
  · exact vciErrAt_ne_ok 0
  · next flowID codes1 h => rw [h] at h1; simp at h1

/-- a dead code issues nothing: no access token, no c_nonce, the flow store untouched -/
theorem handlePreAuth_dead_issues_nothing (c : Sq) (s : VciSt) (issuer code tok cn : String)
    (hd : stGet c.incl s.codes c.now (preAuthKey code) = none) :
    (handlePreAuth c s issuer code tok cn).st.access = s.access ∧ (handlePreAuth c s issuer code tok cn).st.cnonce = s.cnonce := by
  have h1 := gadSeq_none_of_dead c s.codes _ hd
  unfold handlePreAuth
  split
  · exact ⟨rfl, rfl⟩
  · next flowID codes1 h => rw [h] at h1; simp at h1

theorem preAuthKey_inj (a b : String) (h : preAuthKey a = preAuthKey b) : a = b := by
  unfold preAuthKey at h; injection h

def isReissue (code : String) : VForm → Bool
  | .ref _ c => c == code
  | _ => false

/-- every call other than a re-issuance of `code` keeps `code` dead -/
theorem handleVForm_keeps_dead (c : Sq) (s : VciSt) (f : VForm) (code : String) (hf : isReissue code f = false)
    (hd : stGet c.incl s.codes c.now (preAuthKey code) = none) :
    stGet c.incl (handleVForm c s f).st.codes c.now (preAuthKey code) = none := by
  cases f with
  | flow id issuer =>
    simp only [handleVForm]
    unfold vStore
    split
    · exact hd
    · split
      · exact hd
      · exact hd
  | ref fl c2 =>
    have hne : c2 ≠ code := by
      intro h; simp [isReissue, h] at hf
    simp only [handleVForm]
    unfold vStoreCode
    split
    · exact hd
    · split
      · exact hd
      · split
        · exact hd
        · exact stGet_none_put_ne c.incl s.codes c.now _ _ _ (fun h => hne (preAuthKey_inj _ _ h).symm) hd
  | token issuer c2 tok cn =>
    simp only [handleVForm]
    rw [handlePreAuth_codes]
    exact gadSeq_keeps_dead c s.codes _ _ hd

def isTokenFor (code : String) : VForm → Bool
  | .token _ c _ _ => c == code
  | _ => false

/-- the number of token requests naming `code` that were honoured -/
def honoured (code : String) : List (Nat × VForm) → List VRes → Nat
  | (_, f) :: fs, r :: rs => (if isTokenFor code f && r.ans == .ok then 1 else 0) + honoured code fs rs
  | _, _ => 0

def noReissue (code : String) (fs : List (Nat × VForm)) : Prop := ∀ x ∈ fs, isReissue code x.2 = false

instance (code : String) (fs : List (Nat × VForm)) : Decidable (noReissue code fs) := by
  unfold noReissue; infer_instance

theorem dead_never_honoured_vci (incl : Bool) (ttl : Kind → Nat) (code : String) (fs : List (Nat × VForm)) :
    ∀ (now : Nat) (s : VciSt), noReissue code fs → stGet incl s.codes now (preAuthKey code) = none →
      honoured code fs (runVForms incl ttl now s fs).1 = 0 := by
  induction fs with
  | nil => intro now s _ _; simp [honoured]
  | cons x rest ih =>
    intro now s hn hd
    obtain ⟨dt, f⟩ := x
    have hd' := stGet_none_later incl s.codes now dt _ hd
    have hf : isReissue code f = false := hn (dt, f) (List.mem_cons_self ..)
    have hrest : noReissue code rest := fun y hy => hn y (List.mem_cons_of_mem _ hy)
    have hk := handleVForm_keeps_dead ⟨incl, now + dt, ttl⟩ s f code hf hd'
    simp only [runVForms, honoured]
    rw [ih (now + dt) _ hrest hk]
    have : (isTokenFor code f && (handleVForm ⟨incl, now + dt, ttl⟩ s f).ans == .ok) = false := by
      cases f with
      | flow _ _ => simp [isTokenFor]
      | ref _ _ => simp [isTokenFor]
      | token issuer c2 tok cn =>
        by_cases hc : c2 = code
        · subst hc
          have := handlePreAuth_not_ok_of_dead ⟨incl, now + dt, ttl⟩ s issuer c2 tok cn hd'
          simp [handleVForm, this]
        · simp [isTokenFor, hc]
    simp [this]

theorem ite_bool_le_one (b : Bool) : (if b = true then 1 else 0) + 0 ≤ 1 := by cases b <;> simp

theorem honoured_le_one (incl : Bool) (ttl : Kind → Nat) (code : String) (fs : List (Nat × VForm)) :
    ∀ (now : Nat) (s : VciSt), noReissue code fs → honoured code fs (runVForms incl ttl now s fs).1 ≤ 1 := by
  induction fs with
  | nil => intro now s _; simp [honoured]
  | cons x rest ih =>
    intro now s hn
    obtain ⟨dt, f⟩ := x
    have hrest : noReissue code rest := fun y hy => hn y (List.mem_cons_of_mem _ hy)
    simp only [runVForms, honoured]
    by_cases ht : isTokenFor code f = true
    · -- this request names the code: afterwards the code is dead, nothing later is honoured
      cases f with
      | flow _ _ => simp [isTokenFor] at ht
      | ref _ _ => simp [isTokenFor] at ht
      | token issuer c2 tok cn =>
        have hc : c2 = code := by simpa [isTokenFor] using ht
        subst hc
        have hk := handlePreAuth_kills ⟨incl, now + dt, ttl⟩ s issuer c2 tok cn
        have h0 := dead_never_honoured_vci incl ttl c2 rest (now + dt) _ hrest hk
        simp only [handleVForm]
        rw [h0]
        exact ite_bool_le_one _
    · have hf : isTokenFor code f = false := by simpa using ht
      have := ih (now + dt) (handleVForm ⟨incl, now + dt, ttl⟩ s f).st hrest
      simp [hf]
      exact this

theorem runVForms_keeps_dead (incl : Bool) (ttl : Kind → Nat) (code : String) (fs : List (Nat × VForm)) :
    ∀ (now : Nat) (s : VciSt), noReissue code fs → stGet incl s.codes now (preAuthKey code) = none →
      stGet incl (runVForms incl ttl now s fs).2.1.codes (runVForms incl ttl now s fs).2.2 (preAuthKey code) = none := by
  induction fs with
  | nil => intro now s _ h; simpa [runVForms] using h
  | cons x rest ih =>
    intro now s hn hd
    obtain ⟨dt, f⟩ := x
    have hf : isReissue code f = false := hn (dt, f) (List.mem_cons_self ..)
    have hrest : noReissue code rest := fun y hy => hn y (List.mem_cons_of_mem _ hy)
    simp only [runVForms]
    exact ih (now + dt) _ hrest (handleVForm_keeps_dead ⟨incl, now + dt, ttl⟩ s f code hf (stGet_none_later incl s.codes now dt _ hd))

theorem gadSeq_of_live (c : Sq) (st : Store) (k : Key) (v : String) (h : stGet c.incl st c.now k = some v) :
    gadSeq c st k = (some v, stErase st k) := by
  unfold gadSeq; simp [h]

/-- an honoured token request: the code was readable, it referred to a readable flow of the issuer asked, and the tokens
    were issued for that flow -/
theorem handlePreAuth_ok_inv (c : Sq) (s : VciSt) (issuer code tok cn : String)
    (h : (handlePreAuth c s issuer code tok cn).ans = .ok) :
    ∃ fid, stGet c.incl s.codes c.now (preAuthKey code) = some fid ∧ smGet c.incl s.flows c.now fid = some issuer ∧
      (handlePreAuth c s issuer code tok cn).flow = fid := by
  cases hg : stGet c.incl s.codes c.now (preAuthKey code) with
  | none => exact absurd h (handlePreAuth_not_ok_of_dead c s issuer code tok cn hg)
  | some fid =>
    have hgad := gadSeq_of_live c s.codes _ fid hg
    refine ⟨fid, rfl, ?_⟩
    unfold handlePreAuth at h ⊢
    simp only [hgad] at h ⊢
    cases hf : smGet c.incl s.flows c.now fid with
    | none => simp [hf, errNotFound] at h
    | some iss =>
      simp only [hf] at h ⊢
      by_cases hi : iss = issuer
      · subst hi
        simp only [ne_eq, not_true_eq_false, if_false] at h ⊢
        refine ⟨trivial, ?_⟩
        split
        · split
          · rfl
          · next hne _ =>
            rename_i e _ _
            simp_all
        · simp_all
      · simp [hi] at h
        exact absurd h (vciErrAt_ne_ok 1)

/-! ### refinement of the burn consumers WITHOUT a deferred Delete to their threads (landing page, pre-authorized code) -/

/-- outcome and store after a burn consumer other than `code` ran alone through GetAndDelete-under-the-mutex -/
def soloPlain (cfg : Cfg) (st : Store) (now : Nat) (r : BurnReq) : Outcome × Store :=
  match stGet cfg.expInclusive st now r.key with
  | none => (.notFound, st)
  | some v => (verdict r (some v), stErase st r.key)

theorem solo_plain_run (cfg : Cfg) (hl : cfg.gad = .locked) (r : BurnReq) (hk : r.kind = .redirect ∨ r.kind = .preAuth)
    (hx : cfg.ext r.kind = false) (hpre : r.pre = true) (hfg : r.failGet = false) (hfd : r.failDel = false) (st : Store) (now : Nat) :
    let w := run cfg soloSched { store := st, now := now, lock := none, ths := [.burn r .start 0] }
    (w.ths[0]?.bind Thread.outcome) = some (soloPlain cfg st now r).1 ∧ w.store = (soloPlain cfg st now r).2 ∧ w.lock = none := by
  cases hget : stGet cfg.expInclusive st now r.key with
  | none =>
    rcases hk with hk | hk <;>
    simp [run, soloSched, applyEv, stepW, stepThread, stepBurn, soloPlain, hpre, hget, Thread.outcome, Cfg.gadLocks, hl,
      afterGad, verdict, finishBurn, hk, unlock, hfg]
  | some v =>
    rcases hk with hk | hk <;>
    (rw [hk] at hx
     simp [run, soloSched, applyEv, stepW, stepThread, stepBurn, soloPlain, hpre, hget, Thread.outcome, Cfg.gadLocks, hl,
      afterGad, finishBurn, hk, hx, unlock, hfg, hfd])

def landingReq (t : String) : BurnReq := { kind := .redirect, id := t }

/-- the answer class of the abstract layer for an answer of the landing page -/
def landingOutcome (a : Ans) : Option Outcome :=
  if a = .ok then some .ok else if a = .err "403" "token not found in store" then some .notFound else none

theorem handleLanding_eq_solo (cfg : Cfg) (ttl : Kind → Nat) (now : Nat) (st : Store) (t : String) (ht : t ≠ "") :
    landingOutcome (handleLanding ⟨cfg.expInclusive, now, ttl⟩ st t).1 = some (soloPlain cfg st now (landingReq t)).1 ∧
    (handleLanding ⟨cfg.expInclusive, now, ttl⟩ st t).2 = (soloPlain cfg st now (landingReq t)).2 := by
  unfold handleLanding soloPlain gadSeq
  simp only [ht, if_false, landingReq, BurnReq.key, redirectKey]
  cases hg : stGet cfg.expInclusive st now ⟨.burn .redirect, t⟩ with
  | none => simp [landingOutcome]
  | some v => simp [landingOutcome, verdict]

end Nuts.C05
