/-
  C07: the model configuration with the regenerated constants, an ideal instance of the oracles, and a concrete
  two-node instance used by the non-vacuity examples of Props/C07.lean.
-/
import NutsModel.C07.Round
import NutsModel.Facts.C07
import NutsProofs.Lemmas.C07LiveN
open Nuts.Proto Nuts Nuts.Proto.L Nuts.Proto.Live

namespace Nuts.C07.Ex

/-- the model configuration with the constants of the source -/
def factCfg (maxMsg validity : Nat) : Cfg :=
  { pageSize := Facts.C07.pageSize, maxQueue := Facts.C07.maxQueueSize, rangePages := Facts.C07.rangeLimitPages,
    msgOverhead := Facts.C07.transactionListMessageOverhead, txOverhead := Facts.C07.transactionListTXOverhead,
    maxMsg := maxMsg, validity := validity,
    blockState := Facts.C07.blockable.contains "Envelope_State",
    blockList := Facts.C07.blockable.contains "Envelope_TransactionListQuery",
    blockRange := Facts.C07.blockable.contains "Envelope_TransactionRangeQuery",
    nextOne := (Facts.C07.nextPageOffsets.getD 0 0, Facts.C07.nextPageOffsets.getD 1 0),
    nextTwo := (Facts.C07.nextPageOffsets.getD 2 0, Facts.C07.nextPageOffsets.getD 3 0) }

/-- an ideal decoder and a stable sort: one instance of the oracles that meets the contracts -/
def clockLt (a b : Tx) : Bool := a.clock < b.clock
def idealEnv : Env :=
  { decode := fun loc iblt => match iblt with
      | .ofSet peer => .ok (peer.filter (fun r => !loc.contains r))
      | .garbage => .err,
    order := fun l => Nuts.sortBy clockLt l,
    dec := fun _ _ => .fail }

theorem idealEnv_DC : DC idealEnv := by
  refine ⟨?_, ?_, ?_⟩
  · intro loc peer m _ _ h r
    simp only [idealEnv, DecodeRes.ok.injEq] at h
    subst h
    simp [List.mem_filter]
  · intro loc peer _ _ _; exact ⟨_, rfl⟩
  · intro loc peer _ _ h; simp [idealEnv] at h

theorem idealEnv_OrderOK : OrderOK idealEnv := by
  refine ⟨fun l => sortBy_perm clockLt l, fun l => ?_⟩
  have hasym : ∀ a b : Tx, clockLt a b = true → clockLt b a = false := by
    intro a b h; simp only [clockLt, decide_eq_true_eq, decide_eq_false_iff_not] at h ⊢; omega
  have htrans : ∀ a b c : Tx, clockLt b a = false → clockLt c b = false → clockLt c a = false := by
    intro a b c h1 h2; simp only [clockLt, decide_eq_false_iff_not] at h1 h2 ⊢; omega
  refine (sortBy_pairwise clockLt hasym htrans l).imp ?_
  intro x y h
  simp only [leOf, clockLt, decide_eq_false_iff_not] at h
  omega

theorem fact_hyp (maxMsg validity : Nat) (env : Env) (hdc : DC env) (hord : OrderOK env) : Hyp (factCfg maxMsg validity) env :=
  { ps := by show 0 < Facts.C07.pageSize; decide,
    bs := by show Facts.C07.blockable.contains "Envelope_State" = false; decide,
    rp := by show 1 ≤ Facts.C07.rangeLimitPages; decide,
    n1 := by show (Facts.C07.nextPageOffsets.getD 0 0, Facts.C07.nextPageOffsets.getD 1 0) = (1, 2); decide,
    n2 := by show (Facts.C07.nextPageOffsets.getD 2 0, Facts.C07.nextPageOffsets.getD 3 0) = (1, 3); decide,
    dc := hdc, ord := hord }

/-! a concrete instance: `b` is one transaction ahead of `a` -/
def exRoot : Tx := { ref := 1, clock := 0, prevs := [], pal := [], payloadHash := 10, sigOK := true, size := 100 }
def exX : Tx := { ref := 2, clock := 1, prevs := [1], pal := [], payloadHash := 20, sigOK := true, size := 100 }
def exU : List Tx := [exX, exRoot]
def exA : Node :=
  { id := 0, dag := [exRoot], payloads := [(10, ⟨"p-root", 6, 10⟩)], queues := [{ peer := 1, xor := 1, clock := 0 }],
    peers := [{ key := 1 }] }
def exB : Node :=
  { id := 1, dag := [exX, exRoot], payloads := [(20, ⟨"p-x", 3, 20⟩), (10, ⟨"p-root", 6, 10⟩)],
    queues := [{ peer := 0, xor := 3, clock := 1, queue := [2] }], peers := [{ key := 0 }] }
def exCfg : Cfg := factCfg 524288 30

theorem storeInv_of_all (n : Node) (h : ∀ e ∈ n.payloads, e.2.sha = e.1 ∧ e.2.len ≠ 0) : StoreInv n := by
  intro k p hp
  unfold Nuts.alGet at hp
  cases hf : n.payloads.find? (fun e => e.1 == k) with
  | none => simp [hf] at hp
  | some e =>
    simp [hf] at hp
    have hm := List.mem_of_find?_eq_some hf
    have hk := List.find?_some hf
    have := h e hm
    subst hp
    exact ⟨by rw [this.1]; simpa using hk, this.2⟩

theorem exA_ok : DagOK exA.dag :=
  DagOK.cons exRoot [] DagOK.nil rfl rfl (by decide) (by decide) (by decide)
theorem exB_ok : DagOK exB.dag :=
  DagOK.cons exX [exRoot] exA_ok rfl (by decide) (by decide) (by decide) (by decide)

theorem exPairInv : PairInv exU exA exB 0 1 :=
  { nia := ⟨storeInv_of_all exA (by decide), by unfold PubHave; decide, by unfold QSync; decide⟩,
    nib := ⟨storeInv_of_all exB (by decide), by unfold PubHave; decide, by unfold QSync; decide⟩,
    oka := exA_ok, okb := exB_ok, ua := by decide, ub := by decide, ra := by decide, rb := by decide,
    la := by unfold Linked; decide, lb := by unfold Linked; decide }

/-- XOR digests distinguish every pair of duplicate-free lists over the example universe -/
theorem exXF : ∀ d d' : List Tx, DagOK d → DagOK d' → (∀ t ∈ d, t ∈ exU) → (∀ t ∈ d', t ∈ exU) → xorOf d' = xorOf d → ∀ t ∈ d', t ∈ d := by
  have shape : ∀ d : List Tx, DagOK d → (∀ t ∈ d, t ∈ exU) → d = [] ∨ d = [exRoot] ∨ d = [exX, exRoot] := by
    intro d hd hu
    cases hd with
    | nil => exact Or.inl rfl
    | cons t rest hrest hs hnew hp hc hr =>
      have ht : t = exX ∨ t = exRoot := by simpa [exU] using hu t List.mem_cons_self
      cases hrest with
      | nil =>
        rcases ht with rfl | rfl
        · simp [exX, present] at hp
        · exact Or.inr (Or.inl rfl)
      | cons t2 rest2 hrest2 hs2 hnew2 hp2 hc2 hr2 =>
        have ht2 : t2 = exX ∨ t2 = exRoot := by simpa [exU] using hu t2 (List.mem_cons_of_mem _ List.mem_cons_self)
        cases hrest2 with
        | nil =>
          rcases ht with rfl | rfl <;> rcases ht2 with rfl | rfl
          · simp [present] at hnew
          · exact Or.inr (Or.inr rfl)
          · simp [exX, present] at hp2
          · simp [present] at hnew
        | cons t3 rest3 _ _ _ _ _ _ =>
          exfalso
          have ht3 : t3 = exX ∨ t3 = exRoot := by
            simpa [exU] using hu t3 (List.mem_cons_of_mem _ (List.mem_cons_of_mem _ List.mem_cons_self))
          have n1 := present_false_iff.mp hnew
          have n2 := present_false_iff.mp hnew2
          rcases ht with rfl | rfl <;> rcases ht2 with rfl | rfl <;> rcases ht3 with rfl | rfl <;>
            first
            | exact n1 _ List.mem_cons_self rfl
            | exact n1 _ (List.mem_cons_of_mem _ List.mem_cons_self) rfl
            | exact n2 _ List.mem_cons_self rfl
  intro d d' hd hd' hu hu' hx t ht
  rcases shape d hd hu with rfl | rfl | rfl <;> rcases shape d' hd' hu' with rfl | rfl | rfl <;>
    first
    | exact ht
    | (exfalso; revert hx; decide)
    | (revert t; decide)

end Nuts.C07.Ex
