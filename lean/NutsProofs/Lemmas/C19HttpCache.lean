/-
  C19 — helper lemmas for the model of http/client/caching.go (NutsModel/C19/HttpCache.lean).
-/
import NutsModel.C19.HttpCache
namespace Nuts.C19.Lemmas
open Nuts Nuts.C19.HttpCache

theorem hc_step_decreases (c : Cfg) (hg : c.headGuard = true) (len : Int) (s s' : St) (h : step c len s = some s') :
    s'.list.length < s.list.length := by
  unfold step at h
  split at h
  · rename_i hc
    cases h
    unfold loopCond at hc
    simp only [hg, Bool.not_true, Bool.false_or, Bool.and_eq_true] at hc
    unfold pop
    cases hl : s.list with
    | nil => simp [hl] at hc
    | cons e rest => simp
  · cases h

theorem hc_iter_exits (c : Cfg) (hg : c.headGuard = true) (len : Int) :
    ∀ (n : Nat) (s : St), s.list.length ≤ n → iter c len (n + 1) s = none := by
  intro n
  induction n with
  | zero =>
    intro s hs
    have hl : s.list = [] := List.eq_nil_of_length_eq_zero (Nat.le_zero.mp hs)
    simp [iter, step, loopCond, hg, hl]
  | succ k ih =>
    intro s hs
    unfold iter
    cases hst : step c len s with
    | none => rfl
    | some s' =>
      have := hc_step_decreases c hg len s s' hst
      exact ih s' (by omega)

theorem hc_make_room_no_hang (c : Cfg) (hg : c.headGuard = true) (len max : Int) :
    ∀ (l idx : List Entry) (cur : Int), makeRoomL c len max l idx cur ≠ .hang := by
  intro l
  induction l with
  | nil => intro idx cur; simp [makeRoomL, hg]
  | cons e rest ih =>
    intro idx cur
    unfold makeRoomL
    split
    · exact ih _ _
    · intro h; cases h

/-- the closed form ends where the loop exits; the expiry list only loses a prefix; the size bookkeeping is preserved -/
theorem hc_make_room_done (c : Cfg) (len max : Int) :
    ∀ (l idx : List Entry) (cur : Int) (s' : St), makeRoomL c len max l idx cur = .done s' →
      step c len s' = none ∧ s'.max = max ∧ (∃ pre, l = pre ++ s'.list) ∧ (cur = sumSizes l → s'.cur = sumSizes s'.list) := by
  intro l
  induction l with
  | nil =>
    intro idx cur s' h
    unfold makeRoomL at h
    split at h
    · cases h
    · rename_i hc
      cases h
      refine ⟨?_, rfl, ⟨[], rfl⟩, fun h => h⟩
      unfold step loopCond
      simp only [List.isEmpty_nil, Bool.not_true, Bool.or_false]
      cases hg : c.headGuard <;> simp_all
  | cons e rest ih =>
    intro idx cur s' h
    unfold makeRoomL at h
    split at h
    · obtain ⟨h1, h2, ⟨pre, h3⟩, h4⟩ := ih _ _ s' h
      refine ⟨h1, h2, ⟨e :: pre, by rw [h3]; rfl⟩, ?_⟩
      intro hc
      apply h4
      simp only [sumSizes, List.foldr_cons] at hc ⊢
      omega
    · rename_i hc
      cases h
      refine ⟨?_, rfl, ⟨[], rfl⟩, fun h => h⟩
      unfold step loopCond
      simp_all

theorem hc_sum_insertAfterHead (e : Entry) : ∀ l, sumSizes (insertAfterHead e l) = (e.size : Int) + sumSizes l := by
  intro l
  induction l with
  | nil => rfl
  | cons n rest ih =>
    unfold insertAfterHead
    split
    · simp only [sumSizes, List.foldr_cons] at ih ⊢; omega
    · simp [sumSizes, List.foldr_cons]

theorem hc_sum_insertOrdered (e : Entry) (l : List Entry) : sumSizes (insertOrdered e l) = (e.size : Int) + sumSizes l := by
  cases l with
  | nil => rfl
  | cons h rest =>
    simp only [insertOrdered]
    split
    · simp [sumSizes, List.foldr_cons]
    · have := hc_sum_insertAfterHead e rest
      simp only [sumSizes, List.foldr_cons] at this ⊢; omega

theorem hc_sum_nonneg : ∀ l, 0 ≤ sumSizes l := by
  intro l
  induction l with
  | nil => simp [sumSizes]
  | cons e rest ih => simp only [sumSizes, List.foldr_cons] at ih ⊢; omega

/-- the bookkeeping invariant: currentSizeBytes is the sum of the sizes on the expiry list, and it never exceeds maxBytes -/
def Inv (s : St) : Prop := s.cur = sumSizes s.list ∧ s.cur ≤ s.max

theorem hc_pop_inv (s : St) (h : Inv s) : Inv (pop s) ∧ (pop s).max = s.max := by
  unfold pop
  cases hl : s.list with
  | nil => simpa [hl] using h
  | cons e rest =>
    obtain ⟨h1, h2⟩ := h
    simp only [hl, sumSizes, List.foldr_cons] at h1
    refine ⟨⟨?_, ?_⟩, rfl⟩
    · simp only [sumSizes]; omega
    · have := hc_sum_nonneg rest
      simp only [sumSizes] at this
      show s.cur - (e.size : Int) ≤ s.max
      omega

theorem hc_removeExpired_inv (now : Int) : ∀ (l : List Entry) (s : St), Inv s → Inv (removeExpired now l s) ∧ (removeExpired now l s).max = s.max := by
  intro l
  induction l with
  | nil => intro s h; exact ⟨h, rfl⟩
  | cons e rest ih =>
    intro s h
    unfold removeExpired
    split
    · obtain ⟨hp, hm⟩ := hc_pop_inv s h
      obtain ⟨h1, h2⟩ := ih (pop s) hp
      exact ⟨h1, by rw [h2, hm]⟩
    · exact ⟨h, rfl⟩

theorem hc_insert_inv (c : Cfg) (e : Entry) (s s' : St) (h : Inv s) (hi : HttpCache.insert c e s = .done s') : Inv s' ∧ s'.max = s.max := by
  unfold HttpCache.insert at hi
  split at hi
  · cases hi; exact ⟨h, rfl⟩
  · rename_i hsz
    split at hi
    · cases hi
    · rename_i m hm
      cases hi
      unfold makeRoom at hm
      obtain ⟨hexit, hmax, ⟨pre, hpre⟩, hsum⟩ := hc_make_room_done c e.size s.max s.list s.index s.cur m hm
      have hcur := hsum h.1
      refine ⟨⟨?_, ?_⟩, hmax⟩
      · show m.cur + (e.size : Int) = sumSizes (insertOrdered e m.list)
        rw [hc_sum_insertOrdered]; omega
      · show m.cur + (e.size : Int) ≤ m.max
        -- the loop exited: either the new entry fits, or (guarded loop) the list is empty and then cur = 0
        unfold step at hexit
        split at hexit
        · cases hexit
        · rename_i hc
          unfold loopCond over at hc
          cases hl : m.list with
          | nil =>
            have : m.cur = 0 := by rw [hcur, hl]; rfl
            rw [hmax]; omega
          | cons x xs =>
            simp only [hl, List.isEmpty_cons, Bool.not_false, Bool.or_true, Bool.true_and] at hc
            cases hs : c.strict <;> simp [hs] at hc <;> omega

end Nuts.C19.Lemmas
