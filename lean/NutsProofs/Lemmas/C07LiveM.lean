/-
  C07 liveness lemmas, part M: invariants through rounds, small list facts.
-/
import NutsModel.C07.Round
import NutsProofs.Lemmas.C07
import NutsProofs.Lemmas.C07LiveL
open Nuts.Proto Nuts Nuts.Proto.L

namespace Nuts.Proto.Live

/-! ### Part M: invariants through rounds; round pairs; convergence -/

theorem toPeer_sub (key : Nat) (out : Out) : ∀ m ∈ toPeer key out, ∃ o ∈ out, o.2 = m := by
  intro m hm
  unfold toPeer at hm
  obtain ⟨o, ho, rfl⟩ := List.mem_map.mp hm
  exact ⟨o, (List.mem_filter.mp ho).1, rfl⟩

theorem absorb_NI (cfg : Cfg) (env : Env) (p : Peer) : ∀ (msgs : List Msg) (n : Node), NI n → (∀ m ∈ msgs, MsgOK m) →
    NI (absorb cfg env n p msgs).1 ∧ SameShape n (absorb cfg env n p msgs).1 ∧ ∀ m ∈ (absorb cfg env n p msgs).2, MsgOK m := by
  intro msgs
  induction msgs with
  | nil => intro n hn _; exact ⟨hn, SameShape.refl n, by simp [absorb]⟩
  | cons m ms ih =>
    intro n hn hm
    rw [absorb_cons]
    obtain ⟨h1, h2, h3⟩ := handle_NI cfg env n p m hn (hm m List.mem_cons_self)
    obtain ⟨i1, i2, i3⟩ := ih _ h1 (fun x hx => hm x (List.mem_cons_of_mem _ hx))
    refine ⟨i1, h2.trans i2, fun x hx => ?_⟩
    rcases List.mem_append.mp hx with h | h
    · obtain ⟨o, ho, rfl⟩ := toPeer_sub _ _ x h
      exact h3 o ho
    · exact i3 x h

theorem pingPong_NI (cfg : Cfg) (env : Env) (pA pB : Peer) : ∀ (fuel : Nat) (a b : Node) (toB : List Msg),
    NI a → NI b → (∀ m ∈ toB, MsgOK m) →
    NI (pingPong cfg env pA pB fuel a b toB).1 ∧ NI (pingPong cfg env pA pB fuel a b toB).2 ∧
    SameShape a (pingPong cfg env pA pB fuel a b toB).1 ∧ SameShape b (pingPong cfg env pA pB fuel a b toB).2 := by
  intro fuel
  induction fuel with
  | zero => intro a b toB ha hb _; exact ⟨ha, hb, SameShape.refl a, SameShape.refl b⟩
  | succ f ih =>
    intro a b toB ha hb hm
    unfold pingPong
    split
    · exact ⟨ha, hb, SameShape.refl a, SameShape.refl b⟩
    · obtain ⟨b1, b2, b3⟩ := absorb_NI cfg env pA toB b hb hm
      obtain ⟨a1, a2, a3⟩ := absorb_NI cfg env pB _ a ha b3
      obtain ⟨r1, r2, r3, r4⟩ := ih _ _ _ a1 b1 a3
      exact ⟨r1, r2, a2.trans r3, b2.trans r4⟩

theorem gossipTick_NI (n : Node) (key : Nat) (hn : NI n) :
    NI (gossipTick n key).node ∧ SameShape n (gossipTick n key).node ∧ ∀ o ∈ (gossipTick n key).out, MsgOK o.2 := by
  unfold gossipTick
  split
  · exact ⟨hn, SameShape.refl n, by simp⟩
  · split
    · refine ⟨⟨hn.1, hn.2.1, ?_⟩, ⟨rfl, ?_⟩, ?_⟩
      · intro q hq
        simp only [List.mem_map] at hq
        obtain ⟨q0, hq0, rfl⟩ := hq
        obtain ⟨h1, h2, h3⟩ := hn.2.2 q0 hq0
        split
        · exact ⟨h1, h2, by simp⟩
        · exact ⟨h1, h2, h3⟩
      · simp only [List.map_map]
        apply List.map_congr_left
        intro q _
        simp only [Function.comp]
        split <;> rfl
      · intro o ho
        simp only [List.mem_singleton] at ho
        subst ho; exact trivial
    · exact ⟨hn, SameShape.refl n, by simp⟩

theorem pullRound_NI (cfg : Cfg) (env : Env) (pA pB : Peer) (fuel : Nat) (a b : Node) (ha : NI a) (hb : NI b) :
    NI (pullRound cfg env pA pB fuel a b).1 ∧ NI (pullRound cfg env pA pB fuel a b).2 ∧
    SameShape a (pullRound cfg env pA pB fuel a b).1 ∧ SameShape b (pullRound cfg env pA pB fuel a b).2 := by
  unfold pullRound
  simp only
  obtain ⟨t1, t2, t3⟩ := gossipTick_NI b pA.key hb
  obtain ⟨a1, a2, a3⟩ := absorb_NI cfg env pB (toPeer pA.key (gossipTick b pA.key).out) a ha (fun m hm => by
    obtain ⟨o, ho, rfl⟩ := toPeer_sub _ _ m hm
    exact t3 o ho)
  obtain ⟨r1, r2, r3, r4⟩ := pingPong_NI cfg env pA pB fuel _ _ _ a1 t1 a3
  exact ⟨r1, r2, a2.trans r3, t2.trans r4⟩

theorem expireAll_facts (n : Node) :
    (expireAll n).convs = [] ∧ (expireAll n).dag = n.dag ∧ (NI n → NI (expireAll n)) ∧ SameShape n (expireAll n) := by
  have hfold : ∀ (l : List Conv) (m : Nat), m ≤ l.foldl (fun m c => max m c.expiry) m ∧ ∀ c ∈ l, c.expiry ≤ l.foldl (fun m c => max m c.expiry) m := by
    intro l
    induction l with
    | nil => intro m; simp
    | cons x xs ih =>
      intro m
      obtain ⟨h1, h2⟩ := ih (max m x.expiry)
      simp only [List.foldl_cons]
      refine ⟨by omega, fun c hc => ?_⟩
      rcases List.mem_cons.mp hc with rfl | h
      · omega
      · exact h2 c h
  refine ⟨?_, rfl, fun h => ⟨h.1, h.2.1, h.2.2⟩, ⟨rfl, rfl⟩⟩
  unfold expireAll evict
  simp only
  apply List.filter_eq_nil_iff.mpr
  intro c hc
  have := (hfold n.convs 0).2 c hc
  simp only [decide_eq_true_eq]
  omega

theorem nodup_subset_length {α} [DecidableEq α] : ∀ (l u : List α), l.Nodup → (∀ x ∈ l, x ∈ u) → l.length ≤ u.length := by
  intro l
  induction l with
  | nil => intro u _ _; simp
  | cons x xs ih =>
    intro u hn hs
    have hx : x ∈ u := hs x List.mem_cons_self
    have hn' := List.nodup_cons.mp hn
    have := ih (u.erase x) hn'.2 (fun y hy => by
      have hne : y ≠ x := fun h => hn'.1 (h ▸ hy)
      exact (List.mem_erase_of_ne hne).mpr (hs y (List.mem_cons_of_mem _ hy)))
    rw [List.length_erase_of_mem hx] at this
    have hpos : 0 < u.length := List.length_pos_of_mem hx
    simp only [List.length_cons]
    omega

theorem dagOK_nodup {d : List Tx} (h : DagOK d) : d.Nodup := by
  induction h with
  | nil => exact List.nodup_nil
  | cons tx d _ _ hnew _ _ _ ih =>
    refine List.nodup_cons.mpr ⟨fun hin => ?_, ih⟩
    have := present_false_iff.mp hnew tx hin
    exact this rfl

end Nuts.Proto.Live
