/-
  C17 — lemmas for the key-set tail of jar.validate (NutsModel/C17/JarSet.lean).
-/
import NutsModel.C17.JarSet
import NutsProofs.Lemmas.C17

namespace Nuts.C17.JarSet
open Nuts.C17

/-- LookupKeyID returns an entry of the set that carries the kid, and every entry before it carries another kid -/
theorem lookup_some {kid : String} : ∀ {l : List Entry} {e : Entry}, lookupKeyID kid l = some e →
    ∃ pre post, l = pre ++ e :: post ∧ e.kid = kid ∧ ∀ x ∈ pre, x.kid ≠ kid
  | [], _, h => by cases h
  | x :: r, e, h => by
    unfold lookupKeyID at h
    split at h
    · next hx =>
      injection h with h; subst h
      exact ⟨[], r, rfl, hx, fun _ hm => by cases hm⟩
    · next hx =>
      obtain ⟨pre, post, hl, hk, hpre⟩ := lookup_some h
      refine ⟨x :: pre, post, by rw [hl]; rfl, hk, ?_⟩
      intro y hy
      cases hy with
      | head => exact hx
      | tail _ hy => exact hpre y hy

theorem lookup_none {kid : String} : ∀ {l : List Entry}, lookupKeyID kid l = none ↔ ∀ x ∈ l, x.kid ≠ kid
  | [] => by simp [lookupKeyID]
  | x :: r => by
    unfold lookupKeyID
    split
    · next hx => simp [hx]
    · next hx => rw [lookup_none (l := r)]; simp [hx]

theorem lookup_append_of_not_mem {kid : String} : ∀ (pre : List Entry) (rest : List Entry), (∀ x ∈ pre, x.kid ≠ kid) →
    lookupKeyID kid (pre ++ rest) = lookupKeyID kid rest
  | [], _, _ => rfl
  | x :: pre, rest, h => by
    show (if x.kid = kid then some x else lookupKeyID kid (pre ++ rest)) = _
    rw [if_neg (h x (List.mem_cons_self ..))]
    exact lookup_append_of_not_mem pre rest (fun y hy => h y (List.mem_cons_of_mem _ hy))

theorem compare_true {e : Entry} {t : Option String} (h : compareThumbprint e t = true) :
    ∃ x, e.tp = some x ∧ t = some x := by
  unfold compareThumbprint at h
  cases he : e.tp with
  | none => rw [he] at h; cases h
  | some l =>
    cases t with
    | none => rw [he] at h; cases h
    | some r =>
      rw [he] at h
      have hlr : l = r := by simpa using h
      subst hlr
      exact ⟨l, rfl, rfl⟩

/-- what an accept of jar.validate (key-set form) went through -/
theorem validate_accept {sup : List String} {E : Env} {J : SetEnv} {j : Jws} {vs : List Verified}
    (h : validate sup E J j = .accept vs) :
    parseJWT sup E j = .accept vs ∧ J.clientIdMatches = true ∧ J.configOK = true ∧
      ∃ v kid e, vs = [v] ∧ v.src = .resolver kid ∧ lookupKeyID kid J.keys = some e ∧ compareThumbprint e (J.tpOf v.key) = true := by
  unfold validate validateExit at h
  split at h; · cases h
  next vs' hp =>
  split at h; · cases h
  next hcid =>
  split at h; · cases h
  next hcfg =>
  split at h
  · next v =>
    split at h
    · next kid hsrc =>
      split at h
      · cases h
      · next e he =>
        split at h
        · next hc =>
          injection h with h
          subst h
          exact ⟨hp, by simpa using hcid, by simpa using hcfg, v, kid, e, rfl, hsrc, he, hc⟩
        · cases h
    · cases h
  · cases h

end Nuts.C17.JarSet
