/-
  C18 helper lemmas of the deepening round (core Lean only): the SQL lookup of the local resolver, the stateful
  response cache.
-/
import NutsModel.C18.LocalStore
import NutsModel.C18.RCache

namespace Nuts.C18
open Nuts

/-! ### SqlDIDDocumentManager.Latest -/

theorem foldl_pickLatest_mem (l : List DocRow) (init : Option DocRow) (r : DocRow)
    (h : l.foldl pickLatest init = some r) : r ∈ l ∨ init = some r := by
  induction l generalizing init with
  | nil => right; simpa using h
  | cons x xs ih =>
    simp only [List.foldl_cons] at h
    rcases ih _ h with h1 | h1
    · left; exact List.mem_cons_of_mem _ h1
    · cases init with
      | none => simp [pickLatest] at h1; left; simp [h1]
      | some b =>
        simp only [pickLatest] at h1
        split at h1
        · left; simp at h1; simp [h1]
        · right; exact h1

theorem sqlLatest_exact (rows : List DocRow) (d : Bytes) (t : Int) (r : DocRow)
    (h : sqlLatest rows d t = some r) : r.did = d ∧ r ∈ rows ∧ r.updatedAt ≤ t := by
  unfold sqlLatest at h
  rcases foldl_pickLatest_mem _ _ _ h with h1 | h1
  · have := List.mem_filter.mp h1
    simp [latestWhere] at this
    exact ⟨this.2.1, this.1, this.2.2⟩
  · cases h1

theorem sqlLatest_filter (rows : List DocRow) (d : Bytes) (t : Int) :
    sqlLatest rows d t = sqlLatest (rows.filter (fun r => r.did = d)) d t := by
  unfold sqlLatest
  congr 1
  rw [List.filter_filter]
  congr 1
  funext r
  simp [latestWhere]
  intro h _; exact h

theorem sqlResolveLocal_refines (rows : List DocRow) (t : Int) (allow : Bool) (d : DID) :
    sqlResolveLocal rows t allow d = resolveLocal (sqlLocalState rows t d) allow d := by
  unfold sqlResolveLocal sqlLocalState
  cases h : sqlLatest rows d.str t with
  | none => simp [rowState, resolveLocal]
  | some r =>
    have := (sqlLatest_exact _ _ _ _ h).1
    by_cases ha : r.active <;> simp [rowState, ha, resolveLocal, this]

end Nuts.C18
