/-
  C18 helper lemmas of the deepening round (core Lean only): the SQL lookup of the local resolver, the stateful
  response cache.
-/
import NutsModel.C18.LocalStore
import NutsModel.C18.RCache

namespace Nuts.C18
open Nuts

/-! ### SqlDIDDocumentManager.Latest -/

theorem foldl_pickLatest_mem (l : List DocRow) (init : Option DocRow) (r : DocRow)
    (h : l.foldl pickLatest init = some r) : r ∈ l ∨ init = some r := by
  induction l generalizing init with
  | nil => right; simpa using h
  | cons x xs ih =>
    simp only [List.foldl_cons] at h
    rcases ih _ h with h1 | h1
    · left; exact List.mem_cons_of_mem _ h1
    · cases init with
      | none => simp [pickLatest] at h1; left; simp [h1]
      | some b =>
        simp only [pickLatest] at h1
        split at h1
        · left; simp at h1; simp [h1]
        · right; exact h1

theorem sqlLatest_exact (rows : List DocRow) (d : Bytes) (t : Int) (r : DocRow)
    (h : sqlLatest rows d t = some r) : r.did = d ∧ r ∈ rows ∧ r.updatedAt ≤ t := by
  unfold sqlLatest at h
  rcases foldl_pickLatest_mem _ _ _ h with h1 | h1
  · have := List.mem_filter.mp h1
    simp [latestWhere] at this
    exact ⟨this.2.1, this.1, this.2.2⟩
  · cases h1

theorem sqlLatest_filter (rows : List DocRow) (d : Bytes) (t : Int) :
    sqlLatest rows d t = sqlLatest (rows.filter (fun r => r.did = d)) d t := by
  unfold sqlLatest
  congr 1
  rw [List.filter_filter]
  congr 1
  funext r
  simp [latestWhere]
  intro h _; exact h

theorem sqlResolveLocal_refines (rows : List DocRow) (t : Int) (allow : Bool) (d : DID) :
    sqlResolveLocal rows t allow d = resolveLocal (sqlLocalState rows t d) allow d := by
  unfold sqlResolveLocal sqlLocalState
  cases h : sqlLatest rows d.str t with
  | none => simp [rowState, resolveLocal]
  | some r =>
    have := (sqlLatest_exact _ _ _ _ h).1
    by_cases ha : r.active <;> simp [rowState, ha, resolveLocal, this]

/-! ### the stateful response cache (http/client/caching.go) -/

/-- invariant of every reachable cache state -/
structure RCache.Inv (c : RCache) : Prop where
  listed : ∀ e ∈ c.list, e ∈ c.all
  short : c.list.length ≤ 1
  ids : ∀ e ∈ c.all, e.id < c.nextId
  nodup : (c.all.map (·.id)).Nodup
  acct : c.size = sumSizes c.all
  cap : c.all = [] ∨ c.size < c.maxBytes

theorem eraseEntry_sub (h : CEntry) (l : List CEntry) : ∀ e ∈ eraseEntry h l, e ∈ l := by
  induction l with
  | nil => simp [eraseEntry]
  | cons x xs ih =>
    intro e he
    simp only [eraseEntry] at he
    split at he
    · exact List.mem_cons_of_mem _ he
    · rcases List.mem_cons.mp he with h1 | h1
      · simp [h1]
      · exact List.mem_cons_of_mem _ (ih e h1)

theorem eraseEntry_sum (h : CEntry) (l : List CEntry) (hm : h ∈ l) (nd : (l.map (·.id)).Nodup) :
    sumSizes (eraseEntry h l) = sumSizes l - (h.size : Int) ∧ (∀ e ∈ l, e.id ≠ h.id → e ∈ eraseEntry h l) ∧
    ((eraseEntry h l).map (·.id)).Nodup := by
  induction l with
  | nil => cases hm
  | cons x xs ih =>
    simp only [List.map_cons, List.nodup_cons] at nd
    simp only [eraseEntry]
    by_cases hx : x.key = h.key ∧ x.id = h.id
    · simp only [hx, and_self, if_true]
      have hxh : x = h := by
        rcases List.mem_cons.mp hm with h1 | h1
        · exact h1.symm
        · exfalso; apply nd.1; rw [hx.2]; exact List.mem_map_of_mem h1
      refine ⟨?_, ?_, nd.2⟩
      · simp [sumSizes, hxh]; omega
      · intro e he hne
        rcases List.mem_cons.mp he with h1 | h1
        · exfalso; apply hne; rw [h1, hxh]
        · exact h1
    · simp only [hx, if_false]
      have hm' : h ∈ xs := by
        rcases List.mem_cons.mp hm with h1 | h1
        · exfalso; apply hx; simp [h1]
        · exact h1
      obtain ⟨i1, i2, i3⟩ := ih hm' nd.2
      refine ⟨?_, ?_, ?_⟩
      · simp only [sumSizes, List.map_cons, List.sum_cons] at *; omega
      · intro e he hne
        rcases List.mem_cons.mp he with h1 | h1
        · simp [h1]
        · exact List.mem_cons_of_mem _ (i2 e h1 hne)
      · simp only [List.map_cons, List.nodup_cons]
        refine ⟨?_, i3⟩
        intro hc
        apply nd.1
        obtain ⟨y, hy, hyid⟩ := List.mem_map.mp hc
        exact List.mem_map.mpr ⟨y, eraseEntry_sub h xs y hy, hyid⟩

theorem id_inj (l : List CEntry) (nd : (l.map (·.id)).Nodup) (a b : CEntry) (ha : a ∈ l) (hb : b ∈ l) (h : a.id = b.id) : a = b := by
  induction l with
  | nil => cases ha
  | cons x xs ih =>
    simp only [List.map_cons, List.nodup_cons] at nd
    rcases List.mem_cons.mp ha with h1 | h1 <;> rcases List.mem_cons.mp hb with h2 | h2
    · rw [h1, h2]
    · exfalso; apply nd.1; rw [← h1, h]; exact List.mem_map_of_mem h2
    · exfalso; apply nd.1; rw [← h2, ← h]; exact List.mem_map_of_mem h1
    · exact ih nd.2 h1 h2

structure PopRel (c c' : RCache) : Prop where
  inv : c'.Inv
  maxEq : c'.maxBytes = c.maxBytes
  nextEq : c'.nextId = c.nextId
  allSub : ∀ e ∈ c'.all, e ∈ c.all
  keep : ∀ e ∈ c.all, e ∉ c.list → e ∈ c'.all
  listSub : ∀ e ∈ c'.list, e ∈ c.list
  sizeLe : c'.size ≤ c.size

theorem pop_nil (c : RCache) (hl : c.list = []) : c.pop = c := by
  unfold RCache.pop; rw [hl]

theorem pop_cons (c : RCache) (h : CEntry) (t : List CEntry) (hl : c.list = h :: t) :
    c.pop = { c with all := eraseEntry h c.all, size := c.size - (h.size : Int), list := t } := by
  unfold RCache.pop; rw [hl]

theorem pop_rel (c : RCache) (hi : c.Inv) : PopRel c c.pop := by
  cases hl : c.list with
  | nil =>
    rw [pop_nil c hl]
    exact ⟨hi, rfl, rfl, fun e he => he, fun e he _ => he, fun e he => he, Int.le_refl _⟩
  | cons h t =>
    rw [pop_cons c h t hl]
    have hs := hi.short
    rw [hl] at hs
    have ht : t = [] := by cases t with | nil => rfl | cons a b => simp at hs
    subst ht
    have hm : h ∈ c.all := hi.listed h (by simp [hl])
    obtain ⟨e1, e2, e3⟩ := eraseEntry_sum h c.all hm hi.nodup
    refine ⟨⟨?_, ?_, ?_, e3, ?_, ?_⟩, rfl, rfl, ?_, ?_, ?_, ?_⟩
    · intro e he; cases he
    · simp
    · intro e he; exact hi.ids e (eraseEntry_sub h c.all e he)
    · show c.size - (h.size : Int) = sumSizes (eraseEntry h c.all)
      rw [e1, hi.acct]
    · right
      show c.size - (h.size : Int) < c.maxBytes
      rcases hi.cap with hc | hc
      · rw [hc] at hm; cases hm
      · omega
    · intro e he; exact eraseEntry_sub h c.all e he
    · intro e he hne
      apply e2 e he
      intro hid
      apply hne
      have : e = h := id_inj c.all hi.nodup e h he hm hid
      rw [this, hl]; simp
    · intro e he; cases he
    · show c.size - (h.size : Int) ≤ c.size
      omega

theorem PopRel.refl (c : RCache) (hi : c.Inv) : PopRel c c :=
  ⟨hi, rfl, rfl, fun _ he => he, fun _ he _ => he, fun _ he => he, Int.le_refl _⟩

theorem PopRel.trans {a b c : RCache} (h1 : PopRel a b) (h2 : PopRel b c) : PopRel a c :=
  ⟨h2.inv, h2.maxEq.trans h1.maxEq, h2.nextEq.trans h1.nextEq, fun e he => h1.allSub e (h2.allSub e he),
   fun e he hn => h2.keep e (h1.keep e he hn) (fun hl => hn (h1.listSub e hl)),
   fun e he => h1.listSub e (h2.listSub e he), Int.le_trans h2.sizeLe h1.sizeLe⟩

theorem removeExpiredN_rel (now : Int) (n : Nat) (c : RCache) (hi : c.Inv) : PopRel c (removeExpiredN now n c) := by
  induction n generalizing c with
  | zero => exact PopRel.refl c hi
  | succ n ih =>
    unfold removeExpiredN
    split
    · exact PopRel.refl c hi
    · split
      · exact PopRel.trans (pop_rel c hi) (ih c.pop (pop_rel c hi).inv)
      · exact PopRel.refl c hi

theorem makeRoomN_rel (need : Int) (n : Nat) (c c' : RCache) (hi : c.Inv) (h : makeRoomN need n c = .ok c') :
    PopRel c c' ∧ c'.size + need < c'.maxBytes := by
  induction n generalizing c with
  | zero =>
    unfold makeRoomN at h
    split at h
    · cases h
    · cases h; exact ⟨PopRel.refl _ hi, by omega⟩
  | succ n ih =>
    unfold makeRoomN at h
    split at h
    · split at h
      · cases h
      · obtain ⟨r, hlt⟩ := ih c.pop (pop_rel c hi).inv h
        exact ⟨PopRel.trans (pop_rel c hi) r, hlt⟩
    · cases h; exact ⟨PopRel.refl _ hi, by omega⟩

theorem linkIn_short (e : CEntry) (l : List CEntry) (h : l.length ≤ 1) : linkIn e l = [e] := by
  cases l with
  | nil => rfl
  | cons x xs =>
    cases xs with
    | nil => simp [linkIn]
    | cons y ys => simp at h

/-- entries that are in the index but not in the expiry list are kept, unlisted, by a transition -/
def Keeps (c c' : RCache) : Prop := ∀ e ∈ c.all, e ∉ c.list → e ∈ c'.all ∧ e ∉ c'.list

theorem PopRel.keeps {c c' : RCache} (h : PopRel c c') : Keeps c c' :=
  fun e he hn => ⟨h.keep e he hn, fun hl => hn (h.listSub e hl)⟩

theorem sumSizes_append (a b : List CEntry) : sumSizes (a ++ b) = sumSizes a + sumSizes b := by
  simp [sumSizes, List.sum_append]

theorem insert_inv (c c2 : RCache) (hi : c.Inv) (key method query : Bytes) (size : Nat) (exp : Int)
    (h : c.insert key method query size exp = .ok c2) : c2.Inv ∧ c2.maxBytes = c.maxBytes ∧ Keeps c c2 ∧
      (∀ e ∈ c.list, e ∈ c.all → ((size : Int) ≤ c.maxBytes) → e ∈ c2.all → e ∉ c2.list) := by
  unfold RCache.insert at h
  simp only at h
  split at h
  · cases h
    refine ⟨⟨hi.listed, hi.short, fun e he => Nat.lt_succ_of_lt (hi.ids e he), hi.nodup, hi.acct, hi.cap⟩, rfl, fun e he hn => ⟨he, hn⟩, ?_⟩
    intro e _ _ hle; omega
  · rename_i hsz
    split at h
    · rename_i c1 hmr
      cases h
      have hi0 : ({ c with nextId := c.nextId + 1 } : RCache).Inv :=
        ⟨hi.listed, hi.short, fun e he => Nat.lt_succ_of_lt (hi.ids e he), hi.nodup, hi.acct, hi.cap⟩
      obtain ⟨r, hlt⟩ := makeRoomN_rel _ _ _ _ hi0 hmr
      have hl1 := linkIn_short { id := c.nextId, key := key, method := method, query := query, size := size, exp := exp } c1.list r.inv.short
      have hnext : c1.nextId = c.nextId + 1 := r.nextEq
      refine ⟨⟨?_, ?_, ?_, ?_, ?_, ?_⟩, r.maxEq, ?_, ?_⟩
      · intro e he
        simp only [hl1, List.mem_singleton] at he
        simp [he]
      · simp only [hl1]; simp
      · intro e he
        simp only [List.mem_append, List.mem_singleton] at he
        rcases he with h1 | h1
        · exact r.inv.ids e h1
        · rw [h1, hnext]; simp
      · simp only [List.map_append, List.map_cons, List.map_nil]
        rw [List.nodup_append]
        refine ⟨r.inv.nodup, by simp, ?_⟩
        intro a ha b hb
        simp only [List.mem_singleton] at hb
        obtain ⟨y, hy, hyid⟩ := List.mem_map.mp ha
        have := hi.ids y (r.allSub y hy)
        omega
      · show c1.size + (size : Int) = sumSizes (c1.all ++ [_])
        rw [sumSizes_append, r.inv.acct]; simp [sumSizes]
      · right
        show c1.size + (size : Int) < c1.maxBytes
        exact hlt
      · intro e he hn
        obtain ⟨k1, k2⟩ := r.keeps e he hn
        refine ⟨List.mem_append_left _ k1, ?_⟩
        simp only [hl1, List.mem_singleton]
        intro heq
        have := hi.ids e he
        rw [heq] at this
        simp at this
      · intro e he hea _ _
        simp only [hl1, List.mem_singleton]
        intro heq
        have := hi.ids e hea
        rw [heq] at this
        simp at this
    · cases h
    · cases h

theorem get_rel (c : RCache) (hi : c.Inv) (now : Int) (k m q : Bytes) : PopRel c (c.get now k m q).1 := by
  unfold RCache.get RCache.removeExpired
  exact removeExpiredN_rel now _ c hi

theorem get_hit (c : RCache) (now : Int) (k m q : Bytes) (e : CEntry) (h : (c.get now k m q).2 = some e) :
    e.key = k ∧ e.method = m ∧ e.query = q ∧ e ∈ (c.get now k m q).1.all := by
  unfold RCache.get at h ⊢
  simp only at h ⊢
  have h1 := List.find?_some h
  have h2 := List.mem_of_find?_eq_some h
  have h3 := List.mem_filter.mp h2
  simp at h1 h3
  exact ⟨h3.2, h1.1, h1.2, h3.1⟩

/-- a lookup for an entry of the index that matches itself always hits (whatever the time) -/
theorem get_finds (c : RCache) (now : Int) (e : CEntry) (he : e ∈ (c.get now e.key e.method e.query).1.all) :
    ∃ e', (c.get now e.key e.method e.query).2 = some e' := by
  unfold RCache.get at he ⊢
  simp only at he ⊢
  cases hf : List.find? (fun x => decide (x.method = e.method ∧ x.query = e.query))
      (List.filter (fun x => decide (x.key = e.key)) (c.removeExpired now).all) with
  | some e' => exact ⟨e', rfl⟩
  | none =>
    exfalso
    have := List.find?_eq_none.mp hf e (List.mem_filter.mpr ⟨he, by simp⟩)
    simp at this

theorem rtMiss_rel (c1 : RCache) (hi : c1.Inv) (now mc : Int) (k m q : Bytes) (i : Inner) :
    (c1.rtMiss now mc k m q i).1.Inv ∧ (c1.rtMiss now mc k m q i).1.maxBytes = c1.maxBytes ∧ Keeps c1 (c1.rtMiss now mc k m q i).1 := by
  have base : c1.Inv ∧ c1.maxBytes = c1.maxBytes ∧ Keeps c1 c1 := ⟨hi, rfl, fun e he hn => ⟨he, hn⟩⟩
  unfold RCache.rtMiss
  cases i with
  | fail => exact base
  | resp size cacheable =>
    simp only
    split
    · exact base
    · cases cacheable with
      | none => exact base
      | some t =>
        simp only
        split
        · rename_i c2 hins
          obtain ⟨i2, m2, k2, _⟩ := insert_inv c1 c2 hi _ _ _ _ _ hins
          exact ⟨i2, m2, k2⟩
        · exact base

theorem roundTrip_rel (c : RCache) (hi : c.Inv) (now mc : Int) (k m q : Bytes) (i : Inner) :
    (c.roundTrip now mc k m q i).1.Inv ∧ (c.roundTrip now mc k m q i).1.maxBytes = c.maxBytes ∧ Keeps c (c.roundTrip now mc k m q i).1 := by
  unfold RCache.roundTrip
  split
  · have hr := get_rel c hi now k m q
    split
    · rename_i c1 e heq
      rw [heq] at hr
      exact ⟨hr.inv, hr.maxEq, hr.keeps⟩
    · rename_i c1 heq
      rw [heq] at hr
      obtain ⟨a, b, d⟩ := rtMiss_rel c1 hr.inv now mc k m q i
      refine ⟨a, b.trans hr.maxEq, ?_⟩
      intro e he hn
      obtain ⟨x, y⟩ := hr.keeps e he hn
      exact d e x y
  · exact rtMiss_rel c hi now mc k m q i

theorem Keeps.trans {a b c : RCache} (h1 : Keeps a b) (h2 : Keeps b c) : Keeps a c :=
  fun e he hn => let ⟨x, y⟩ := h1 e he hn; h2 e x y

theorem new_inv (m : Int) : (RCache.new m).Inv := by
  refine ⟨?_, ?_, ?_, ?_, ?_, Or.inl rfl⟩
  · intro e he; cases he
  · show ([] : List CEntry).length ≤ 1; simp
  · intro e he; cases he
  · show (([] : List CEntry).map (·.id)).Nodup; simp
  · show (0 : Int) = sumSizes []; simp [sumSizes]

theorem step_inv (c c' : RCache) (hi : c.Inv) (o : COp) (h : c.step o = some c') :
    c'.Inv ∧ c'.maxBytes = c.maxBytes ∧ Keeps c c' := by
  cases o with
  | get now k m q =>
    simp only [RCache.step, Option.some.injEq] at h
    subst h
    have r := get_rel c hi now k m q
    exact ⟨r.inv, r.maxEq, r.keeps⟩
  | insert k m q sz t =>
    simp only [RCache.step] at h
    split at h
    · rename_i c2 hins
      cases h
      obtain ⟨a, b, d, _⟩ := insert_inv c _ hi _ _ _ _ _ hins
      exact ⟨a, b, d⟩
    · cases h
  | pop =>
    simp only [RCache.step, Option.some.injEq] at h
    subst h
    have r := pop_rel c hi
    exact ⟨r.inv, r.maxEq, r.keeps⟩
  | roundTrip now mc k m q i =>
    simp only [RCache.step] at h
    have r := roundTrip_rel c hi now mc k m q i
    split at h
    · cases h
    · rename_i c2 o heq
      cases h
      rw [heq] at r
      exact r

theorem run_inv (ops : List COp) (c c' : RCache) (hi : c.Inv) (h : c.run ops = some c') :
    c'.Inv ∧ c'.maxBytes = c.maxBytes ∧ Keeps c c' := by
  induction ops generalizing c with
  | nil =>
    simp only [RCache.run, Option.some.injEq] at h
    subst h
    exact ⟨hi, rfl, fun e he hn => ⟨he, hn⟩⟩
  | cons o os ih =>
    simp only [RCache.run] at h
    split at h
    · rename_i c1 hs
      obtain ⟨a, b, d⟩ := step_inv c c1 hi o hs
      obtain ⟨a2, b2, d2⟩ := ih c1 a h
      exact ⟨a2, b2.trans b, d.trans d2⟩
    · cases h

theorem hang_exact_fit (n : Nat) (k m q : Bytes) (t : Int) : (RCache.new n).insert k m q n t = .err "hang" := by
  simp [RCache.insert, RCache.new, makeRoomN]

end Nuts.C18
