/-
  C18 helper lemmas of the deepening round (core Lean only): the SQL lookup of the local resolver, the stateful
  response cache.
-/
import NutsModel.C18.LocalStore
import NutsModel.C18.RCache
import NutsModel.C18.DidKey
import NutsModel.Facts.C18

namespace Nuts.C18
open Nuts

/-! ### SqlDIDDocumentManager.Latest -/

theorem foldl_pickLatest_mem (l : List DocRow) (init : Option DocRow) (r : DocRow)
    (h : l.foldl pickLatest init = some r) : r ∈ l ∨ init = some r := by
  induction l generalizing init with
  | nil => right; simpa using h
  | cons x xs ih =>
    simp only [List.foldl_cons] at h
    rcases ih _ h with h1 | h1
    · left; exact List.mem_cons_of_mem _ h1
    · cases init with
      | none => simp [pickLatest] at h1; left; simp [h1]
      | some b =>
        simp only [pickLatest] at h1
        split at h1
        · left; simp at h1; simp [h1]
        · right; exact h1

theorem sqlLatest_exact (rows : List DocRow) (d : Bytes) (t : Int) (r : DocRow)
    (h : sqlLatest rows d t = some r) : r.did = d ∧ r ∈ rows ∧ r.updatedAt ≤ t := by
  unfold sqlLatest at h
  rcases foldl_pickLatest_mem _ _ _ h with h1 | h1
  · have := List.mem_filter.mp h1
    simp [latestWhere] at this
    exact ⟨this.2.1, this.1, this.2.2⟩
  · cases h1

theorem sqlLatest_filter (rows : List DocRow) (d : Bytes) (t : Int) :
    sqlLatest rows d t = sqlLatest (rows.filter (fun r => r.did = d)) d t := by
  unfold sqlLatest
  congr 1
  rw [List.filter_filter]
  congr 1
  funext r
  simp [latestWhere]
  intro h _; exact h

theorem sqlResolveLocal_refines (rows : List DocRow) (t : Int) (allow : Bool) (d : DID) :
    sqlResolveLocal rows t allow d = resolveLocal (sqlLocalState rows t d) allow d := by
  unfold sqlResolveLocal sqlLocalState
  cases h : sqlLatest rows d.str t with
  | none => simp [rowState, resolveLocal]
  | some r =>
    have := (sqlLatest_exact _ _ _ _ h).1
    by_cases ha : r.active <;> simp [rowState, ha, resolveLocal, this]

/-! ### the stateful response cache (http/client/caching.go, as repaired by b991549) -/

theorem eraseEntry_sub (h : CEntry) (l : List CEntry) : ∀ e ∈ eraseEntry h l, e ∈ l := by
  induction l with
  | nil => simp [eraseEntry]
  | cons x xs ih =>
    intro e he
    simp only [eraseEntry] at he
    split at he
    · exact List.mem_cons_of_mem _ he
    · rcases List.mem_cons.mp he with h1 | h1
      · simp [h1]
      · exact List.mem_cons_of_mem _ (ih e h1)

theorem eraseEntry_sum (h : CEntry) (l : List CEntry) (hm : h ∈ l) (nd : (l.map (·.id)).Nodup) :
    sumSizes (eraseEntry h l) = sumSizes l - (h.size : Int) ∧ (∀ e ∈ l, e.id ≠ h.id → e ∈ eraseEntry h l) ∧
    ((eraseEntry h l).map (·.id)).Nodup := by
  induction l with
  | nil => cases hm
  | cons x xs ih =>
    simp only [List.map_cons, List.nodup_cons] at nd
    simp only [eraseEntry]
    by_cases hx : x.key = h.key ∧ x.id = h.id
    · simp only [hx, and_self, if_true]
      have hxh : x = h := by
        rcases List.mem_cons.mp hm with h1 | h1
        · exact h1.symm
        · exfalso; apply nd.1; rw [hx.2]; exact List.mem_map_of_mem h1
      refine ⟨?_, ?_, nd.2⟩
      · simp [sumSizes, hxh]; omega
      · intro e he hne
        rcases List.mem_cons.mp he with h1 | h1
        · exfalso; apply hne; rw [h1, hxh]
        · exact h1
    · simp only [hx, if_false]
      have hm' : h ∈ xs := by
        rcases List.mem_cons.mp hm with h1 | h1
        · exfalso; apply hx; simp [h1]
        · exact h1
      obtain ⟨i1, i2, i3⟩ := ih hm' nd.2
      refine ⟨?_, ?_, ?_⟩
      · simp only [sumSizes, List.map_cons, List.sum_cons] at *; omega
      · intro e he hne
        rcases List.mem_cons.mp he with h1 | h1
        · simp [h1]
        · exact List.mem_cons_of_mem _ (i2 e h1 hne)
      · simp only [List.map_cons, List.nodup_cons]
        refine ⟨?_, i3⟩
        intro hc
        apply nd.1
        obtain ⟨y, hy, hyid⟩ := List.mem_map.mp hc
        exact List.mem_map.mpr ⟨y, eraseEntry_sub h xs y hy, hyid⟩

theorem id_inj (l : List CEntry) (nd : (l.map (·.id)).Nodup) (a b : CEntry) (ha : a ∈ l) (hb : b ∈ l) (h : a.id = b.id) : a = b := by
  induction l with
  | nil => cases ha
  | cons x xs ih =>
    simp only [List.map_cons, List.nodup_cons] at nd
    rcases List.mem_cons.mp ha with h1 | h1 <;> rcases List.mem_cons.mp hb with h2 | h2
    · rw [h1, h2]
    · exfalso; apply nd.1; rw [← h1, h]; exact List.mem_map_of_mem h2
    · exfalso; apply nd.1; rw [← h2, ← h]; exact List.mem_map_of_mem h1
    · exact ih nd.2 h1 h2


theorem eraseEntry_ne (h : CEntry) (l : List CEntry) (hm : h ∈ l) (nd : (l.map (·.id)).Nodup) :
    ∀ e ∈ eraseEntry h l, e.id ≠ h.id := by
  induction l with
  | nil => cases hm
  | cons x xs ih =>
    have nd0 := nd
    simp only [List.map_cons, List.nodup_cons] at nd
    intro e he
    simp only [eraseEntry] at he
    split at he
    · rename_i hx
      intro hid
      apply nd.1
      rw [hx.2, ← hid]
      exact List.mem_map_of_mem he
    · rename_i hx
      rcases List.mem_cons.mp he with h1 | h1
      · intro hid
        apply hx
        have : x = h := id_inj (x :: xs) nd0 x h (by simp) hm (by rw [← h1]; exact hid)
        simp [this]
      · have hm' : h ∈ xs := by
          rcases List.mem_cons.mp hm with h2 | h2
          · exfalso; apply hx; simp [h2]
          · exact h2
        exact ih hm' nd.2 e h1

/-- invariant on the three fields the loops touch (+ the id counter) -/
structure InvT (l all : List CEntry) (size : Int) (next : Nat) : Prop where
  same : ∀ e, e ∈ l ↔ e ∈ all
  sorted : l.Pairwise (fun a b => a.exp ≤ b.exp)
  ids : ∀ e ∈ all, e.id < next
  nodupAll : (all.map (·.id)).Nodup
  nodupList : (l.map (·.id)).Nodup
  acct : size = sumSizes all
  acctL : size = sumSizes l

theorem InvT.pop {h : CEntry} {t all : List CEntry} {size : Int} {next : Nat} (hi : InvT (h :: t) all size next) :
    InvT t (eraseEntry h all) (size - (h.size : Int)) next := by
  have hm : h ∈ all := (hi.same h).mp (by simp)
  obtain ⟨e1, e2, e3⟩ := eraseEntry_sum h all hm hi.nodupAll
  have ndl := hi.nodupList
  simp only [List.map_cons, List.nodup_cons] at ndl
  refine ⟨?_, (List.pairwise_cons.mp hi.sorted).2, ?_, e3, ndl.2, ?_, ?_⟩
  · intro e
    constructor
    · intro he
      apply e2 e ((hi.same e).mp (List.mem_cons_of_mem _ he))
      intro hid
      apply ndl.1
      rw [← hid]; exact List.mem_map_of_mem he
    · intro he
      have h1 := (hi.same e).mpr (eraseEntry_sub h all e he)
      rcases List.mem_cons.mp h1 with h2 | h2
      · exfalso; exact eraseEntry_ne h all hm hi.nodupAll e he (by rw [h2])
      · exact h2
  · intro e he; exact hi.ids e (eraseEntry_sub h all e he)
  · rw [e1, hi.acct]
  · have := hi.acctL
    simp only [sumSizes, List.map_cons, List.sum_cons] at this ⊢
    omega

theorem sumSizes_nonneg (l : List CEntry) : 0 ≤ sumSizes l := by
  induction l with
  | nil => simp [sumSizes]
  | cons x xs ih => simp only [sumSizes, List.map_cons, List.sum_cons] at ih ⊢; omega

/-- what a `popWhile` loop guarantees -/
structure PopW (p : CEntry → Int → Bool) (l all : List CEntry) (size : Int) (next : Nat) (r : List CEntry × List CEntry × Int) : Prop where
  inv : InvT r.1 r.2.1 r.2.2 next
  listSub : ∀ e ∈ r.1, e ∈ l
  allSub : ∀ e ∈ r.2.1, e ∈ all
  sizeLe : r.2.2 ≤ size
  stop : r.1 = [] ∨ ∃ h t, r.1 = h :: t ∧ p h r.2.2 = false

theorem popWhile_spec (p : CEntry → Int → Bool) (l all : List CEntry) (size : Int) (next : Nat) (hi : InvT l all size next) :
    PopW p l all size next (popWhile p l all size) := by
  induction l generalizing all size with
  | nil => exact ⟨hi, fun _ he => he, fun _ he => he, Int.le_refl _, Or.inl rfl⟩
  | cons h t ih =>
    unfold popWhile
    by_cases hp : p h size = true
    · simp only [hp, if_true]
      have r := ih _ _ hi.pop
      refine ⟨r.inv, fun e he => List.mem_cons_of_mem _ (r.listSub e he), fun e he => eraseEntry_sub h all e (r.allSub e he), ?_, r.stop⟩
      have := r.sizeLe
      omega
    · simp only [hp]
      exact ⟨hi, fun _ he => he, fun _ he => he, Int.le_refl _, Or.inr ⟨h, t, rfl, by simpa using hp⟩⟩

theorem linkAfter_perm (e : CEntry) (l : List CEntry) : (linkAfter e l).Perm (e :: l) := by
  induction l with
  | nil => exact List.Perm.refl _
  | cons x xs ih =>
    unfold linkAfter
    split
    · exact (List.Perm.cons x ih).trans (List.Perm.swap e x xs)
    · exact List.Perm.refl _

theorem linkIn_perm (e : CEntry) (l : List CEntry) : (linkIn e l).Perm (e :: l) := by
  cases l with
  | nil => exact List.Perm.refl _
  | cons h t =>
    simp only [linkIn]
    split
    · exact List.Perm.refl _
    · exact (List.Perm.cons h (linkAfter_perm e t)).trans (List.Perm.swap e h t)

theorem linkAfter_sorted (e : CEntry) (l : List CEntry) (hs : l.Pairwise (fun a b => a.exp ≤ b.exp)) :
    (linkAfter e l).Pairwise (fun a b => a.exp ≤ b.exp) := by
  induction l with
  | nil => simp [linkAfter]
  | cons x xs ih =>
    have hx := List.pairwise_cons.mp hs
    unfold linkAfter
    split
    · rename_i hlt
      refine List.pairwise_cons.mpr ⟨?_, ih hx.2⟩
      intro y hy
      rcases List.mem_cons.mp ((linkAfter_perm e xs).mem_iff.mp hy) with h1 | h1
      · rw [h1]; omega
      · exact hx.1 y h1
    · rename_i hge
      refine List.pairwise_cons.mpr ⟨?_, hs⟩
      intro y hy
      rcases List.mem_cons.mp hy with h1 | h1
      · rw [h1]; omega
      · have := hx.1 y h1; omega

theorem linkIn_sorted (e : CEntry) (l : List CEntry) (hs : l.Pairwise (fun a b => a.exp ≤ b.exp)) :
    (linkIn e l).Pairwise (fun a b => a.exp ≤ b.exp) := by
  cases l with
  | nil => simp [linkIn]
  | cons h t =>
    have hx := List.pairwise_cons.mp hs
    simp only [linkIn]
    split
    · rename_i hlt
      refine List.pairwise_cons.mpr ⟨?_, hs⟩
      intro y hy
      rcases List.mem_cons.mp hy with h1 | h1
      · rw [h1]; omega
      · have := hx.1 y h1; omega
    · rename_i hge
      refine List.pairwise_cons.mpr ⟨?_, linkAfter_sorted e t hx.2⟩
      intro y hy
      rcases List.mem_cons.mp ((linkAfter_perm e t).mem_iff.mp hy) with h1 | h1
      · rw [h1]; omega
      · exact hx.1 y h1

theorem sumSizes_perm {a b : List CEntry} (h : a.Perm b) : sumSizes a = sumSizes b := by
  induction h with
  | nil => rfl
  | cons x _ ih => simp only [sumSizes, List.map_cons, List.sum_cons] at ih ⊢; omega
  | swap x y l => simp only [sumSizes, List.map_cons, List.sum_cons]; omega
  | trans _ _ ih1 ih2 => exact ih1.trans ih2

theorem sumSizes_append (a b : List CEntry) : sumSizes (a ++ b) = sumSizes a + sumSizes b := by
  simp [sumSizes, List.sum_append]

/-- invariant of every reachable cache state -/
structure RCache.Inv (c : RCache) : Prop where
  t : InvT c.list c.all c.size c.nextId
  cap : c.list = [] ∨ c.size ≤ c.maxBytes

theorem popWhile_inv (c : RCache) (hi : c.Inv) (p : CEntry → Int → Bool) :
    (c.popWhile p).Inv ∧ PopW p c.list c.all c.size c.nextId (popWhile p c.list c.all c.size) := by
  have r := popWhile_spec p c.list c.all c.size c.nextId hi.t
  refine ⟨⟨r.inv, ?_⟩, r⟩
  show (popWhile p c.list c.all c.size).1 = [] ∨ (popWhile p c.list c.all c.size).2.2 ≤ c.maxBytes
  rcases hi.cap with h | h
  · left
    cases hl : (popWhile p c.list c.all c.size).1 with
    | nil => rfl
    | cons x xs => have := r.listSub x (by rw [hl]; simp); rw [h] at this; cases this
  · right; have := r.sizeLe; omega

theorem pop_inv (c : RCache) (hi : c.Inv) : c.pop.Inv ∧ (∀ e ∈ c.pop.all, e ∈ c.all) := by
  unfold RCache.pop
  cases hl : c.list with
  | nil => exact ⟨hi, fun _ he => he⟩
  | cons h t =>
    have ht := hi.t
    rw [hl] at ht
    refine ⟨⟨ht.pop, ?_⟩, fun e he => eraseEntry_sub h c.all e he⟩
    show t = [] ∨ c.size - (h.size : Int) ≤ c.maxBytes
    rcases hi.cap with hc | hc
    · rw [hl] at hc; cases hc
    · right; omega

theorem insert_inv (c : RCache) (hi : c.Inv) (key method query : Bytes) (size : Nat) (exp : Int) :
    (c.insert key method query size exp).Inv ∧ (c.insert key method query size exp).maxBytes = c.maxBytes := by
  unfold RCache.insert
  simp only
  have hi0 : ({ c with nextId := c.nextId + 1 } : RCache).Inv :=
    ⟨⟨hi.t.same, hi.t.sorted, fun e he => Nat.lt_succ_of_lt (hi.t.ids e he), hi.t.nodupAll, hi.t.nodupList, hi.t.acct, hi.t.acctL⟩, hi.cap⟩
  split
  · exact ⟨hi0, rfl⟩
  · rename_i hsz
    obtain ⟨i1, r⟩ := popWhile_inv { c with nextId := c.nextId + 1 } hi0 (fun _ sz => decide (sz + (size : Int) > c.maxBytes))
    let e : CEntry := { id := c.nextId, key := key, method := method, query := query, size := size, exp := exp }
    let c1 := ({ c with nextId := c.nextId + 1 } : RCache).makeRoom size
    have hc1 : c1 = ({ c with nextId := c.nextId + 1 } : RCache).popWhile (fun _ sz => decide (sz + (size : Int) > c.maxBytes)) := rfl
    have it : InvT c1.list c1.all c1.size (c.nextId + 1) := by rw [hc1]; exact i1.t
    have hperm := linkIn_perm e c1.list
    have hfresh : ∀ y ∈ c1.all, y.id < c.nextId := fun y hy => hi.t.ids y (by rw [hc1] at hy; exact r.allSub y hy)
    refine ⟨⟨⟨?_, linkIn_sorted e c1.list it.sorted, ?_, ?_, ?_, ?_, ?_⟩, ?_⟩, rfl⟩
    · intro x
      show x ∈ linkIn e c1.list ↔ x ∈ c1.all ++ [e]
      rw [hperm.mem_iff, List.mem_cons, List.mem_append, List.mem_singleton, it.same x]
      constructor <;> (intro h; rcases h with h | h) <;> simp [h]
    · intro x hx
      show x.id < c.nextId + 1
      rcases List.mem_append.mp hx with h | h
      · exact Nat.lt_succ_of_lt (hfresh x h)
      · simp only [List.mem_singleton] at h; rw [h]; exact Nat.lt_succ_self _
    · show ((c1.all ++ [e]).map (·.id)).Nodup
      simp only [List.map_append, List.map_cons, List.map_nil]
      rw [List.nodup_append]
      refine ⟨it.nodupAll, by simp, ?_⟩
      intro a ha b hb
      simp only [List.mem_singleton] at hb
      obtain ⟨y, hy, hyid⟩ := List.mem_map.mp ha
      have := hfresh y hy
      show a ≠ b
      rw [hb, ← hyid]
      exact Nat.ne_of_lt this
    · show ((linkIn e c1.list).map (·.id)).Nodup
      rw [(hperm.map (·.id)).nodup_iff]
      simp only [List.map_cons, List.nodup_cons]
      refine ⟨?_, it.nodupList⟩
      intro hc
      obtain ⟨y, hy, hyid⟩ := List.mem_map.mp hc
      have := hfresh y ((it.same y).mp hy)
      have : y.id = c.nextId := hyid
      omega
    · show c1.size + (size : Int) = sumSizes (c1.all ++ [e])
      rw [sumSizes_append, it.acct]; simp [sumSizes, e]
    · show c1.size + (size : Int) = sumSizes (linkIn e c1.list)
      rw [sumSizes_perm hperm, it.acctL]; simp only [sumSizes, List.map_cons, List.sum_cons]; simp [e]; omega
    · right
      show c1.size + (size : Int) ≤ c.maxBytes
      have hstop := r.stop
      have hsl : c1.size = sumSizes c1.list := it.acctL
      rcases hstop with h0 | ⟨hh, tt, h1, h2⟩
      · have : c1.list = [] := by rw [hc1]; exact h0
        rw [this] at hsl
        simp [sumSizes] at hsl
        have hsz' : ¬ ((size : Int) > c.maxBytes) := hsz
        omega
      · have : ¬ (c1.size + (size : Int) > c.maxBytes) := by
          have h2' : decide ((popWhile (fun _ sz => decide (sz + (size : Int) > c.maxBytes)) c.list c.all c.size).2.2 + (size : Int) > c.maxBytes) = false := h2
          show ¬ ((popWhile (fun _ sz => decide (sz + (size : Int) > c.maxBytes)) c.list c.all c.size).2.2 + (size : Int) > c.maxBytes)
          simpa using h2'
        omega

theorem get_hit (c : RCache) (now : Int) (k m q : Bytes) (e : CEntry) (h : (c.get now k m q).2 = some e) :
    e.key = k ∧ e.method = m ∧ e.query = q ∧ e ∈ (c.get now k m q).1.all := by
  unfold RCache.get at h ⊢
  simp only at h ⊢
  have h1 := List.find?_some h
  have h2 := List.mem_of_find?_eq_some h
  have h3 := List.mem_filter.mp h2
  simp at h1 h3
  exact ⟨h3.2, h1.1, h1.2, h3.1⟩


/-- after the prune of a lookup no entry of the cache has expired -/
theorem removeExpired_fresh (c : RCache) (hi : c.Inv) (now : Int) : ∀ e ∈ (c.removeExpired now).all, ¬ e.exp < now := by
  obtain ⟨i1, r⟩ := popWhile_inv c hi (fun h _ => decide (h.exp < now))
  intro e he
  have hl : e ∈ (c.removeExpired now).list := (i1.t.same e).mpr he
  rcases r.stop with h0 | ⟨h, t, h1, h2⟩
  · have : (c.removeExpired now).list = [] := h0
    rw [this] at hl; cases hl
  · have hlist : (c.removeExpired now).list = h :: t := h1
    have hs : List.Pairwise (fun a b => a.exp ≤ b.exp) (c.removeExpired now).list := i1.t.sorted
    rw [hlist] at hs hl
    have hh : ¬ h.exp < now := by simpa using h2
    rcases List.mem_cons.mp hl with h3 | h3
    · rw [h3]; exact hh
    · have := (List.pairwise_cons.mp hs).1 e h3; omega

theorem get_inv (c : RCache) (hi : c.Inv) (now : Int) (k m q : Bytes) :
    (c.get now k m q).1.Inv ∧ (c.get now k m q).1.maxBytes = c.maxBytes :=
  ⟨(popWhile_inv c hi _).1, rfl⟩

theorem roundTrip_inv (c : RCache) (hi : c.Inv) (now mc : Int) (k m q : Bytes) (i : Inner) :
    (c.roundTrip now mc k m q i).1.Inv ∧ (c.roundTrip now mc k m q i).1.maxBytes = c.maxBytes := by
  have miss : ∀ c1 : RCache, c1.Inv → (c1.rtMiss now mc k m q i).1.Inv ∧ (c1.rtMiss now mc k m q i).1.maxBytes = c1.maxBytes := by
    intro c1 h1
    unfold RCache.rtMiss
    cases i with
    | fail => exact ⟨h1, rfl⟩
    | resp size cacheable =>
      simp only
      split
      · exact ⟨h1, rfl⟩
      · cases cacheable with
        | none => exact ⟨h1, rfl⟩
        | some t => exact insert_inv c1 h1 _ _ _ _ _
  unfold RCache.roundTrip
  split
  · have g := get_inv c hi now k m q
    split
    · rename_i c1 e heq
      rw [heq] at g; exact g
    · rename_i c1 heq
      rw [heq] at g
      obtain ⟨a, b⟩ := miss c1 g.1
      exact ⟨a, b.trans g.2⟩
  · exact miss c hi

theorem new_inv (m : Int) : (RCache.new m).Inv := by
  refine ⟨⟨?_, ?_, ?_, ?_, ?_, ?_, ?_⟩, Or.inl rfl⟩
  · intro e; exact Iff.rfl
  · exact List.Pairwise.nil
  · intro e he; cases he
  · show (([] : List CEntry).map (·.id)).Nodup; simp
  · show (([] : List CEntry).map (·.id)).Nodup; simp
  · show (0 : Int) = sumSizes []; simp [sumSizes]
  · show (0 : Int) = sumSizes []; simp [sumSizes]

theorem step_inv (c : RCache) (hi : c.Inv) (o : COp) : (c.step o).Inv ∧ (c.step o).maxBytes = c.maxBytes := by
  cases o with
  | get now k m q => exact get_inv c hi now k m q
  | insert k m q sz t => exact insert_inv c hi k m q sz t
  | pop =>
    refine ⟨(pop_inv c hi).1, ?_⟩
    show c.pop.maxBytes = c.maxBytes
    unfold RCache.pop; split <;> rfl
  | roundTrip now mc k m q i => exact roundTrip_inv c hi now mc k m q i

theorem run_inv (ops : List COp) (c : RCache) (hi : c.Inv) : (c.run ops).Inv ∧ (c.run ops).maxBytes = c.maxBytes := by
  induction ops generalizing c with
  | nil => exact ⟨hi, rfl⟩
  | cons o os ih =>
    obtain ⟨a, b⟩ := step_inv c hi o
    obtain ⟨a2, b2⟩ := ih (c.step o) a
    exact ⟨a2, b2.trans b⟩

/-! ### what a round trip can add to the cache -/

theorem popWhile_allSub (p : CEntry → Int → Bool) (l all : List CEntry) (size : Int) :
    ∀ e ∈ (popWhile p l all size).2.1, e ∈ all := by
  induction l generalizing all size with
  | nil => intro e he; exact he
  | cons h t ih =>
    intro e he
    unfold popWhile at he
    split at he
    · exact eraseEntry_sub h all e (ih _ _ e he)
    · exact he

theorem insert_all (c : RCache) (k m q : Bytes) (s : Nat) (t : Int) :
    ∀ x ∈ (c.insert k m q s t).all, x ∈ c.all ∨ x = { id := c.nextId, key := k, method := m, query := q, size := s, exp := t } := by
  intro x hx
  unfold RCache.insert at hx
  simp only at hx
  split at hx
  · left; exact hx
  · rcases List.mem_append.mp hx with h | h
    · left; exact popWhile_allSub _ _ _ _ x h
    · right; simpa using h

theorem get_allSub (c : RCache) (now : Int) (k m q : Bytes) : ∀ x ∈ (c.get now k m q).1.all, x ∈ c.all :=
  fun x hx => popWhile_allSub _ _ _ _ x hx

theorem rtMiss_all (c : RCache) (now mc : Int) (k m q : Bytes) (i : Inner) :
    ∀ x ∈ (c.rtMiss now mc k m q i).1.all, x ∈ c.all ∨
      (m = sGET ∧ x.key = k ∧ x.method = m ∧ x.query = q ∧ x.exp ≤ now + mc ∧ ∃ size t, i = .resp size (some t) ∧ x.size = size ∧ x.exp ≤ t) := by
  intro x hx
  unfold RCache.rtMiss at hx
  cases i with
  | fail => left; exact hx
  | resp size cacheable =>
    simp only at hx
    split at hx
    · left; exact hx
    · rename_i hm
      cases cacheable with
      | none => left; exact hx
      | some t =>
        simp only at hx
        rcases insert_all c k m q size _ x hx with h | h
        · left; exact h
        · right
          have hm' : m = sGET := by simpa using hm
          subst h
          refine ⟨hm', rfl, rfl, rfl, ?_, size, t, rfl, rfl, ?_⟩
          · show (if t > now + mc then now + mc else t) ≤ now + mc
            split <;> omega
          · show (if t > now + mc then now + mc else t) ≤ t
            split <;> omega

theorem roundTrip_all (c : RCache) (now mc : Int) (k m q : Bytes) (i : Inner) :
    ∀ x ∈ (c.roundTrip now mc k m q i).1.all, x ∈ c.all ∨
      (m = sGET ∧ x.key = k ∧ x.method = m ∧ x.query = q ∧ x.exp ≤ now + mc ∧ ∃ size t, i = .resp size (some t) ∧ x.size = size ∧ x.exp ≤ t) := by
  intro x hx
  unfold RCache.roundTrip at hx
  split at hx
  · split at hx
    · rename_i c1 e heq
      left
      have := get_allSub c now k m q x (by rw [heq]; exact hx)
      exact this
    · rename_i c1 heq
      rcases rtMiss_all c1 now mc k m q i x hx with h | h
      · left; exact get_allSub c now k m q x (by rw [heq]; exact h)
      · right; exact h
  · exact rtMiss_all c now mc k m q i x hx

/-! ### did:key (vdr/didkey/resolver.go) -/

/-- acceptance is sound w.r.t. the table: an accepted identifier starts with `z`, decodes, carries a codec of the table
    whose case is not `unsupported`, and passes that case's length / library checks -/
theorem resolveKeyClass_ok (table : List (Nat × String × KeyAct)) (id : Bytes) (decoded : Option Bytes) (lib : KeyLib)
    (h : resolveKeyClass table id decoded lib = .ok) :
    id.head? = some cZ ∧ ∃ mc code key name act, decoded = some mc ∧ readUvarint mc = .ok (code, key) ∧
      table.find? (fun r => r.1 = code) = some (code, name, act) ∧
      (match act with
       | .unsupported => False
       | .fixedLen n => key.length = n
       | .ec (some n) => key.length = n ∧ lib.ecOK = true
       | .ec none => lib.ecOK = true
       | .rsa => lib.rsa ≠ "parse" ∧ lib.rsa ≠ "small") := by
  unfold resolveKeyClass at h
  cases id with
  | nil => simp at h
  | cons c cs =>
    simp only at h
    split at h
    · simp at h
    · rename_i hc
      have hc' : c = cZ := by simpa using hc
      cases decoded with
      | none => simp at h
      | some mc =>
        simp only at h
        cases hr : readUvarint mc with
        | err e => rw [hr] at h; simp at h
        | panic p => rw [hr] at h; simp at h
        | ok v =>
          obtain ⟨code, key⟩ := v
          rw [hr] at h
          simp only at h
          cases hf : table.find? (fun r => r.1 = code) with
          | none => rw [hf] at h; simp at h
          | some row =>
            obtain ⟨c0, name, act⟩ := row
            rw [hf] at h
            simp only at h
            have hc0 : c0 = code := by
              have := List.find?_some hf
              simpa using this
            subst hc0
            refine ⟨by simp [hc'], mc, c0, key, name, act, rfl, hr, hf, ?_⟩
            cases act with
            | unsupported =>
              simp at h
            | fixedLen n =>
              simp only at h ⊢
              split at h
              · simp at h
              · rename_i hl; simpa using hl
            | ec el =>
              cases el with
              | none =>
                simp only at h ⊢
                split at h
                · assumption
                · simp at h
              | some n =>
                simp only at h ⊢
                split at h
                · simp at h
                · rename_i hl
                  split at h
                  · rename_i he; exact ⟨by simpa using hl, he⟩
                  · simp at h
            | rsa =>
              simp only at h ⊢
              split at h
              · simp at h
              · split at h
                · simp at h
                · rename_i h1 h2; exact ⟨h1, h2⟩

theorem did_key_accept_sound' (id : Bytes) (decoded : Option Bytes) (lib : KeyLib)
    (h : resolveKeyClass Facts.C18.didKeyTable id decoded lib = .ok) :
    id.head? = some cZ ∧ ∃ mc code key, decoded = some mc ∧ readUvarint mc = .ok (code, key) ∧
      (((code = 236 ∨ code = 237) ∧ key.length = 32) ∨ (code = 4608 ∧ key.length = 33 ∧ lib.ecOK = true) ∨
       (code = 4609 ∧ key.length = 49 ∧ lib.ecOK = true) ∨ (code = 4610 ∧ lib.ecOK = true) ∨
       (code = 4613 ∧ lib.rsa ≠ "parse" ∧ lib.rsa ≠ "small")) := by
  obtain ⟨hz, mc, code, key, name, act, hd, hr, hf, hact⟩ := resolveKeyClass_ok _ id decoded lib h
  refine ⟨hz, mc, code, key, hd, hr, ?_⟩
  have hmem := List.mem_of_find?_eq_some hf
  simp only [Facts.C18.didKeyTable, List.mem_cons, Prod.mk.injEq, List.mem_nil_iff, or_false] at hmem
  rcases hmem with ⟨h1, _, h3⟩ | ⟨h1, _, h3⟩ | ⟨h1, _, h3⟩ | ⟨h1, _, h3⟩ | ⟨h1, _, h3⟩ | ⟨h1, _, h3⟩ | ⟨h1, _, h3⟩ | ⟨h1, _, h3⟩ <;>
    subst h1 <;> subst h3 <;> simp_all

theorem readUvarintAux_append (n : Nat) : ∀ (i x s : Nat) (rest : Bytes), i ≤ 9 → n < 2 ^ (64 - 7 * i) →
    readUvarintAux (appendUvarint n ++ rest) i x s = .ok (x + n * 2 ^ s, rest) := by
  induction n using Nat.strongRecOn with
  | _ n ih =>
    intro i x s rest hi hn
    unfold appendUvarint
    by_cases hlt : n < 128
    · simp only [hlt, dite_true, List.cons_append, List.nil_append]
      unfold readUvarintAux
      have h10 : ¬ i = 10 := by omega
      have h9 : ¬ (i = 9 ∧ n > 1) := by
        intro ⟨h9, h1⟩
        subst h9
        simp at hn
        omega
      simp [h10, hlt, h9]
    · simp only [hlt, dite_false, List.cons_append]
      unfold readUvarintAux
      have h10 : ¬ i = 10 := by omega
      have hb : ¬ (n % 128 + 128 < 128) := by omega
      have hi8 : i ≤ 8 := by
        rcases Nat.lt_or_ge i 9 with h | h
        · omega
        · have : i = 9 := by omega
          subst this
          simp at hn
          omega
      simp only [h10, hb, if_false]
      have hdiv : n / 128 < 2 ^ (64 - 7 * (i + 1)) := by
        have : 2 ^ (64 - 7 * i) = 2 ^ (64 - 7 * (i + 1)) * 128 := by
          have : 64 - 7 * i = (64 - 7 * (i + 1)) + 7 := by omega
          rw [this, Nat.pow_add]
        rw [this] at hn
        exact Nat.div_lt_of_lt_mul (by rw [Nat.mul_comm]; exact hn)
      rw [ih (n / 128) (Nat.div_lt_self (by omega) (by omega)) (i + 1) _ (s + 7) rest (by omega) hdiv]
      have hmod : (n % 128 + 128) % 128 = n % 128 := by omega
      rw [hmod]
      have hn' : n = 128 * (n / 128) + n % 128 := (Nat.div_add_mod n 128).symm
      have hp : 2 ^ (s + 7) = 2 ^ s * 128 := by rw [Nat.pow_add]
      rw [hp]
      congr 2
      conv => rhs; rw [hn']
      simp only [Nat.mul_comm, Nat.mul_left_comm, Nat.add_assoc, Nat.add_comm]
      rw [Nat.mul_add]

/-- round trip of the multicodec prefix: every 64-bit value, canonically encoded, reads back with the rest intact -/
theorem readUvarint_append (n : Nat) (hn : n < 2 ^ 64) (rest : Bytes) :
    readUvarint (appendUvarint n ++ rest) = .ok (n, rest) := by
  unfold readUvarint
  rw [readUvarintAux_append n 0 0 0 rest (by omega) (by simpa using hn)]
  simp

end Nuts.C18
