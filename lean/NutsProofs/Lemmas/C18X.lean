/-
  C18 deepening round 2 — lemmas about the did:x509 model (NutsModel/C18/X509.lean): split/join laws, the parsed reference is
  the identifier, soundness of the policy loop, the thumbprint selection and the whole Resolve order.
-/
import NutsModel.C18.X509
import NutsProofs.Lemmas.C18
namespace Nuts.C18
open Nuts

theorem splitDC_ne_nil : ∀ s : Bytes, splitDC s ≠ [] := by
  intro s
  induction s using splitDC.induct with
  | case1 => simp [splitDC]
  | case2 x => simp [splitDC]
  | case3 x y rest h ih => unfold splitDC; simp [h]
  | case4 x y rest h hs ih => exact absurd hs ih
  | case5 x y rest h p ps hs ih => unfold splitDC; simp [h, hs]

theorem joinDC_cons_cons (p q : Bytes) (ps : List Bytes) : joinDC (p :: q :: ps) = p ++ 58 :: 58 :: joinDC (q :: ps) := by
  simp [joinDC]

theorem joinDC_consc (x : Nat) (p : Bytes) (ps : List Bytes) : joinDC ((x :: p) :: ps) = x :: joinDC (p :: ps) := by
  cases ps <;> simp [joinDC]

theorem joinDC_splitDC : ∀ s : Bytes, joinDC (splitDC s) = s := by
  intro s
  induction s using splitDC.induct with
  | case1 => simp [splitDC, joinDC]
  | case2 x => simp [splitDC, joinDC]
  | case3 x y rest h ih =>
    unfold splitDC; simp only [h, and_self, if_true]
    cases hs : splitDC rest with
    | nil => exact absurd hs (splitDC_ne_nil rest)
    | cons q qs => rw [hs] at ih; rw [joinDC_cons_cons, ih]; simp [h.1, h.2]
  | case4 x y rest h hs ih => exact absurd hs (splitDC_ne_nil _)
  | case5 x y rest h p ps hs ih =>
    unfold splitDC; simp only [h, if_false, hs]
    rw [hs] at ih; rw [joinDC_consc, ih]

/-- the text of one policy element of the identifier -/
def polText (p : XPolicy) : Bytes := p.name ++ 58 :: p.value

theorem parsePolicies_shape : ∀ (l : List Bytes) (ps : List XPolicy), parsePolicies l = .ok ps → l = ps.map polText
  | [], ps, h => by simp [parsePolicies] at h; subst h; rfl
  | s :: rest, ps, h => by
    unfold parsePolicies at h
    have hj := join_splitOn 58 s
    split at h
    · rename_i name v vs hs
      split at h
      · rename_i l hl
        injection h with h; subst h
        have ih := parsePolicies_shape rest l hl
        rw [hs, joinWith_cons_cons] at hj
        simp [polText, hj, ← ih]
      · rename_i r hr; cases hrr : parsePolicies rest <;> simp_all
    · simp at h

/-- the text of a parsed reference -/
def refText (r : XRef) : Bytes := joinDC (([48] ++ 58 :: (r.method ++ 58 :: r.root)) :: r.policies.map polText)

theorem parseX509Did_shape (id : Bytes) (r : XRef) (h : parseX509Did id = .ok r) : id = refText r := by
  unfold parseX509Did at h
  have hj := joinDC_splitDC id
  split at h
  · simp at h
  · rename_i didString policyStrings hs
    have hd := join_splitOn 58 didString
    split at h
    · rename_i v m rt hsp
      split at h
      · simp at h
      · rename_i hv
        split at h
        · rename_i ps hps
          injection h with h; subst h
          have hp := parsePolicies_shape _ _ hps
          rw [hsp] at hd
          simp [joinWith] at hd
          have hv' : v = [48] := by simpa using hv
          rw [hs] at hj
          simp only [refText]
          rw [← hp, ← hj, ← hd, hv']
        · simp at h
        · simp at h
    · simp at h

abbrev XTbl := List ((Bytes × Bytes) × XAttr)

/-- what an accepted key/value list means: every pair names a known attribute of the certificate and matches it -/
def pairsHold (tbl : XTbl) (name : Bytes) (c : XCert) : List Bytes → Prop
  | k :: v :: rest => validEscapes v = true ∧ (∃ a, lookupValidator tbl name k = some a ∧ attrMatches c a (unescapeQ v) = .ok true) ∧ pairsHold tbl name c rest
  | [_] => False
  | [] => True

theorem validatePairs_sound (tbl : XTbl) (name : Bytes) (c : XCert) :
    ∀ kv : List Bytes, validatePairs tbl name c kv = .ok () → pairsHold tbl name c kv := by
  intro kv
  induction kv using validatePairs.induct tbl name c with
  | case1 k v rest hv => intro h; unfold validatePairs at h; simp [hv] at h
  | case2 k v rest hv hl => intro h; unfold validatePairs at h; simp [hv, hl] at h
  | case3 k v rest hv a hl hm ih =>
    intro h; unfold validatePairs at h; simp [hv, hl, hm] at h
    exact ⟨by simpa using hv, ⟨a, hl, hm⟩, ih h⟩
  | case4 k v rest hv a hl hm => intro h; unfold validatePairs at h; simp [hv, hl, hm] at h
  | case5 k v rest hv a hl e hm => intro h; unfold validatePairs at h; simp [hv, hl, hm] at h
  | case6 k v rest hv a hl p hm => intro h; unfold validatePairs at h; simp [hv, hl, hm] at h
  | case7 x => intro h; simp [validatePairs] at h
  | case8 => intro _; trivial

/-- what an accepted policy means -/
def policyHolds (tbl : XTbl) (c : XCert) (p : XPolicy) : Prop :=
  (p.name = sSubject ∨ p.name = sSan) ∧ pairsHold tbl p.name c (splitOn 58 p.value)

theorem validate_sound (tbl : XTbl) (p : XPolicy) (c : XCert) (h : validate tbl p c = .ok ()) :
    pairsHold tbl p.name c (splitOn 58 p.value) := by
  unfold validate at h
  simp only at h
  split at h
  · simp at h
  · exact validatePairs_sound tbl p.name c _ h

def policyStep (tbl : XTbl) (c : XCert) (p : XPolicy) : Res Unit :=
  if p.name = sSubject ∨ p.name = sSan then validate tbl p c else .err "unknown-policy"

theorem validatePolicy_cons (tbl : XTbl) (c : XCert) (p : XPolicy) (ps : List XPolicy) :
    validatePolicy tbl c (p :: ps) = .ok () ↔ (policyStep tbl c p = .ok () ∧ validatePolicy tbl c ps = .ok ()) := by
  rw [validatePolicy]
  show (match policyStep tbl c p with | .ok () => validatePolicy tbl c ps | r => r) = .ok () ↔ _
  cases h : policyStep tbl c p with
  | ok u => cases u; simp
  | err e => simp
  | panic q => simp

theorem validatePolicy_sound (tbl : XTbl) (c : XCert) :
    ∀ ps : List XPolicy, validatePolicy tbl c ps = .ok () → ∀ p ∈ ps, policyHolds tbl c p
  | [], _ => by simp
  | q :: qs, h => by
    rw [validatePolicy_cons] at h
    intro p hp
    rcases List.mem_cons.mp hp with rfl | hp
    · have hq := h.1
      unfold policyStep at hq
      by_cases hn : p.name = sSubject ∨ p.name = sSan
      · rw [if_pos hn] at hq; exact ⟨hn, validate_sound tbl p c hq⟩
      · rw [if_neg hn] at hq; simp at hq
    · exact validatePolicy_sound tbl c qs h.2 p hp

theorem validatePolicy_append (tbl : XTbl) (c : XCert) : ∀ ps qs : List XPolicy,
    validatePolicy tbl c (ps ++ qs) = .ok () ↔ (validatePolicy tbl c ps = .ok () ∧ validatePolicy tbl c qs = .ok ())
  | [], qs => by simp [validatePolicy]
  | p :: ps, qs => by
    have ih := validatePolicy_append tbl c ps qs
    simp only [List.cons_append, validatePolicy_cons, ih, and_assoc]

theorem findLoop_sound (t : XTarget) (alg : Bytes) : ∀ (ids : List Nat) (c : Nat),
    findLoop t alg ids = .ok c → c ∈ ids ∧ t = .hashOf c alg ∧ hashAlgs.contains alg = true
  | [], c, h => by simp [findLoop] at h
  | x :: xs, c, h => by
    unfold findLoop at h
    split at h
    · simp at h
    · rename_i ha
      split at h
      · rename_i ht
        injection h with h; subst h
        exact ⟨List.mem_cons_self, ht, by simpa using ha⟩
      · have := findLoop_sound t alg xs c h
        exact ⟨List.mem_cons_of_mem _ this.1, this.2⟩

theorem findByHash_sound (ids : List Nat) (t : XTarget) (alg : Bytes) (c : Nat) (h : findByHash ids t alg = .ok c) :
    c ∈ ids ∧ t = .hashOf c (lower alg) := by
  unfold findByHash at h
  split at h
  · split at h
    · simp at h
    · have := findLoop_sound _ _ _ _ h; exact ⟨this.1, this.2.1⟩
  · have := findLoop_sound _ _ _ _ h; exact ⟨this.1, this.2.1⟩

theorem lower_sha1 : lower sSha1 = sSha1 := by decide
theorem lower_sha256 : lower sSha256 = sSha256 := by decide

/-- the certificate the policies are checked against is named by EVERY thumbprint header that is present, and at least one is -/
theorem findValidationCert_sound (ids : List Nat) (x5t x5s : Option XTarget) (c : Nat)
    (h : findValidationCert ids x5t x5s = .ok c) :
    c ∈ ids ∧ (x5t = none ∨ x5t = some (.hashOf c sSha1)) ∧ (x5s = none ∨ x5s = some (.hashOf c sSha256)) ∧
      (x5t ≠ none ∨ x5s ≠ none) := by
  unfold findValidationCert at h
  cases x5t with
  | none =>
    cases x5s with
    | none => simp at h
    | some t2 =>
      simp only at h
      cases h2 : findByHash ids t2 sSha256 with
      | ok o =>
        rw [h2] at h; simp at h; subst h
        have := findByHash_sound _ _ _ _ h2
        rw [lower_sha256] at this
        exact ⟨this.1, Or.inl rfl, Or.inr (by rw [this.2]), Or.inr (by simp)⟩
      | err e => rw [h2] at h; simp at h
      | panic p => rw [h2] at h; simp at h
  | some t1 =>
    simp only at h
    cases h1 : findByHash ids t1 sSha1 with
    | ok v =>
      rw [h1] at h
      have s1 := findByHash_sound _ _ _ _ h1
      rw [lower_sha1] at s1
      cases x5s with
      | none => simp at h; subst h; exact ⟨s1.1, Or.inr (by rw [s1.2]), Or.inl rfl, Or.inl (by simp)⟩
      | some t2 =>
        simp only at h
        cases h2 : findByHash ids t2 sSha256 with
        | ok o =>
          rw [h2] at h
          have s2 := findByHash_sound _ _ _ _ h2
          rw [lower_sha256] at s2
          by_cases hov : o = v
          · simp [hov] at h; subst h; subst hov
            exact ⟨s1.1, Or.inr (by rw [s1.2]), Or.inr (by rw [s2.2]), Or.inl (by simp)⟩
          · simp [hov] at h
        | err e => rw [h2] at h; simp at h
        | panic p => rw [h2] at h; simp at h
    | err e => rw [h1] at h; simp at h
    | panic p => rw [h1] at h; simp at h

/-- everything a did:x509 resolution that returns a document has established -/
structure X509Accepted (tbl : XTbl) (method id : Bytes) (inp : XInput) (doc : Bytes) : Prop where
  idBound : doc = sDid ++ method ++ 58 :: id
  method : method = sX509
  parsed : ∃ ref ids root v, parseX509Did id = .ok ref ∧ id = refText ref ∧ inp.chain = .chain ids ∧
    root ∈ ids ∧ targetOf ref.root = .hashOf root (lower ref.method) ∧
    v ∈ ids ∧ (inp.x5t = none ∨ inp.x5t = some (.hashOf v sSha1)) ∧ (inp.x5tS256 = none ∨ inp.x5tS256 = some (.hashOf v sSha256)) ∧
    (inp.x5t ≠ none ∨ inp.x5tS256 ≠ none) ∧
    (∀ p ∈ ref.policies, policyHolds tbl (inp.certs v) p) ∧ inp.crlOK = true

theorem resolveX509_sound (tbl : XTbl) (method id : Bytes) (inp : XInput) (doc : Bytes)
    (h : resolveX509 tbl method id inp = .ok doc) : X509Accepted tbl method id inp doc := by
  unfold resolveX509 at h
  split at h
  · simp at h
  · rename_i hm
    cases hp : parseX509Did id with
    | err e => rw [hp] at h; simp at h
    | panic p => rw [hp] at h; simp at h
    | ok ref =>
      rw [hp] at h; simp only at h
      cases hc : inp.chain with
      | nilMeta => rw [hc] at h; simp at h
      | missing => rw [hc] at h; simp at h
      | badPem e => rw [hc] at h; simp at h
      | chain ids =>
        rw [hc] at h; simp only at h
        cases hr : findByHash ids (targetOf ref.root) ref.method with
        | err e => rw [hr] at h; simp at h
        | panic p => rw [hr] at h; simp at h
        | ok root =>
          rw [hr] at h; simp only at h
          cases hv : findValidationCert ids inp.x5t inp.x5tS256 with
          | err e => rw [hv] at h; simp at h
          | panic p => rw [hv] at h; simp at h
          | ok v =>
            rw [hv] at h; simp only at h
            cases hpol : validatePolicy tbl (inp.certs v) ref.policies with
            | err e => rw [hpol] at h; simp at h
            | panic p => rw [hpol] at h; simp at h
            | ok u =>
              cases u
              rw [hpol] at h; simp only at h
              by_cases hcrl : inp.crlOK = true
              · by_cases hvm : inp.vmOK = true
                · simp [hcrl, hvm] at h
                  have sr := findByHash_sound _ _ _ _ hr
                  have sv := findValidationCert_sound _ _ _ _ hv
                  exact ⟨h.symm, by simpa using hm, ref, ids, root, v, hp, parseX509Did_shape id ref hp, hc, sr.1, sr.2, sv.1, sv.2.1, sv.2.2.1, sv.2.2.2,
                    validatePolicy_sound tbl _ _ hpol, hcrl⟩
                · simp [hcrl, hvm] at h
              · simp [hcrl] at h

end Nuts.C18
