/-
  C14 — helper definitions and lemmas (invariants of the notifier model). Core Lean only.
-/
import NutsModel.C14.Notifier
namespace Nuts.C14

/-! ## definitions used by the property statements -/

def completedIn (l : List Entry) (s r : Nat) : Bool := l.any (Entry.completes s r)

/-- newest-first ledger: no call of (s, r) is newer than a completion record of (s, r) -/
def okLedger (s r : Nat) : List Entry → Bool
  | [] => true
  | e :: older => (!(e.isCallOf s r) || !(completedIn older s r)) && okLedger s r older

/-- every event the filters of subscriber `s` accept has type `ty` -/
def Typed (c : Cfg) (s : Nat) (ty : EvType) : Prop := ∀ r ty', c.sel s r ty' = true → ty' = ty

/-- the part of the state that survives a stop -/
structure SameDurable (σ σ' : St) : Prop where
  dag : σ'.dag = σ.dag
  payloads : σ'.payloads = σ.payloads
  shelf : σ'.shelf = σ.shelf
  admitted : σ'.admitted = σ.admitted
  ledger : σ'.ledger = σ.ledger
  evented : σ'.evented = σ.evented

theorem SameDurable.refl (σ : St) : SameDurable σ σ := ⟨rfl, rfl, rfl, rfl, rfl, rfl⟩
theorem SameDurable.trans {a b d : St} (h1 : SameDurable a b) (h2 : SameDurable b d) : SameDurable a d :=
  ⟨h2.dag.trans h1.dag, h2.payloads.trans h1.payloads, h2.shelf.trans h1.shelf, h2.admitted.trans h1.admitted, h2.ledger.trans h1.ledger,
   h2.evented.trans h1.evented⟩

theorem spawn_same (c : Cfg) (σ : St) (s r k : Nat) : SameDurable σ (spawn c σ s r k) := by
  unfold spawn; split <;> exact ⟨rfl, rfl, rfl, rfl, rfl, rfl⟩

theorem crashSt_same (σ : St) : SameDurable σ (crashSt σ) := ⟨rfl, rfl, rfl, rfl, rfl, rfl⟩

/-- what one `notifyNow` does to the durable state -/
inductive NowStep (c : Cfg) (s r : Nat) (σ σ' : St) : Prop where
  | skip (h : σ.shelf s r = none) (e : σ' = σ)
  | call (j : Job) (o : Outcome) (nj : Option Job)
      (h : σ.shelf s r = some j)
      (ho : o = c.beh s r (attemptNo σ s r))
      (hdone : nj = none ↔ o = .done)
      (hty : ∀ j', nj = some j' → j'.type = j.type)
      (hret : ∀ j', nj = some j' → j.retries ≤ j'.retries ∨ c.maxRetries + 1 ≤ j'.retries)
      (e : σ' = setJob (log σ (.call s r j.type j.retries o)) s r nj)
  | callFin (j : Job) (nj : Option Job)
      (h : σ.shelf s r = some j)
      (hty : ∀ j', nj = some j' → j'.type = j.type)
      (hfix : c.writeBackSkipsGone = true → nj = none)
      (hret : ∀ j', nj = some j' → j.retries ≤ j'.retries)
      (e : σ' = setJob (log (log σ (.call s r j.type j.retries .notDoneFin)) (.fin s r)) s r nj)

theorem setJob_self (σ : St) (s r : Nat) (j : Job) (h : σ.shelf s r = some j) : setJob σ s r (some j) = σ := by
  cases σ; simp only [setJob] at *; congr; funext s' r'; split
  · next hh => rw [hh.1, hh.2, h]
  · rfl

theorem notifyNow_step (c : Cfg) (σ : St) (s r : Nat) : NowStep c s r σ (notifyNow c σ s r).1 := by
  unfold notifyNow
  cases h : σ.shelf s r with
  | none => exact .skip h rfl
  | some j =>
    simp only
    generalize ho : c.beh s r (attemptNo σ s r) = o
    cases o
    · exact .call j .done none h ho.symm (by simp) (by simp) (by intro j' hj'; cases hj' <;> first | exact .inl (Nat.le_refl _) | exact .inl (Nat.le_succ _) | exact .inr (Nat.le_refl _)) rfl
    · exact .call j .doneFinishFail (some j) h ho.symm (by simp) (by simp) (by intro j' hj'; cases hj' <;> first | exact .inl (Nat.le_refl _) | exact .inl (Nat.le_succ _) | exact .inr (Nat.le_refl _)) (setJob_self _ s r j (by simpa [log] using h)).symm
    · exact .call j .notDone _ h ho.symm (by simp) (by simp) (by intro j' hj'; cases hj' <;> first | exact .inl (Nat.le_refl _) | exact .inl (Nat.le_succ _) | exact .inr (Nat.le_refl _)) rfl
    · exact .callFin j _ h (by intro j' hj'; split at hj' <;> simp at hj'; subst hj'; rfl) (by intro hf; simp [hf]) (by intro j' hj'; split at hj' <;> simp at hj'; subst hj'; exact Nat.le_succ _) rfl
    · exact .call j .fail _ h ho.symm (by simp) (by simp) (by intro j' hj'; cases hj' <;> first | exact .inl (Nat.le_refl _) | exact .inl (Nat.le_succ _) | exact .inr (Nat.le_refl _)) rfl
    · exact .call j .failCtx _ h ho.symm (by simp) (by simp) (by intro j' hj'; cases hj' <;> first | exact .inl (Nat.le_refl _) | exact .inl (Nat.le_succ _) | exact .inr (Nat.le_refl _)) rfl
    · exact .call j .fatal _ h ho.symm (by simp) (by simp) (by intro j' hj'; cases hj' <;> first | exact .inl (Nat.le_refl _) | exact .inl (Nat.le_succ _) | exact .inr (Nat.le_refl _)) rfl
    · exact .call j .crash (some j) h ho.symm (by simp) (by simp) (by intro j' hj'; cases hj' <;> first | exact .inl (Nat.le_refl _) | exact .inl (Nat.le_succ _) | exact .inr (Nat.le_refl _)) (setJob_self _ s r j (by simpa [log] using h)).symm
    · exact .call j .readFault (some j) h ho.symm (by simp) (by simp) (by intro j' hj'; cases hj' <;> first | exact .inl (Nat.le_refl _) | exact .inl (Nat.le_succ _) | exact .inr (Nat.le_refl _)) (setJob_self _ s r j (by simpa [log] using h)).symm
    · exact .call j .notDoneWriteFail (some j) h ho.symm (by simp) (by simp) (by intro j' hj'; cases hj' <;> first | exact .inl (Nat.le_refl _) | exact .inl (Nat.le_succ _) | exact .inr (Nat.le_refl _)) (setJob_self _ s r j (by simpa [log] using h)).symm
    · exact .call j .failWriteFail (some j) h ho.symm (by simp) (by simp) (by intro j' hj'; cases hj' <;> first | exact .inl (Nat.le_refl _) | exact .inl (Nat.le_succ _) | exact .inr (Nat.le_refl _)) (setJob_self _ s r j (by simpa [log] using h)).symm


/-- durable effect of the ops that only deliver: a sequence of `notifyNow`s and volatile changes -/
inductive DStep (c : Cfg) : St → St → Prop where
  | vol {σ σ' : St} : SameDurable σ σ' → DStep c σ σ'
  | now {σ σ' : St} (s r : Nat) : NowStep c s r σ σ' → DStep c σ σ'
  | trans {a b d : St} : DStep c a b → DStep c b d → DStep c a d

theorem DStep.refl (c : Cfg) (σ : St) : DStep c σ σ := .vol (SameDurable.refl σ)

theorem notify_dstep (c : Cfg) (σ : St) (s : Nat) (ev : Nat × EvType) : DStep c σ (notify c σ s ev).1 := by
  unfold notify
  split
  · have h := notifyNow_step c σ s ev.1
    generalize notifyNow c σ s ev.1 = p at h
    obtain ⟨σ', res⟩ := p
    cases res <;> simp only
    · exact .now _ _ h
    · exact .trans (.now _ _ h) (.vol (spawn_same _ _ _ _ _))
    · exact .now _ _ h
    · exact .now _ _ h
    · exact .trans (.now _ _ h) (.vol (spawn_same _ _ _ _ _))
  · exact DStep.refl _ _

theorem notifyAll_dstep (c : Cfg) (ev : Nat × EvType) (order : List Nat) (σ : St) :
    DStep c σ (notifyAll c ev order σ).1 := by
  induction order generalizing σ with
  | nil => exact DStep.refl _ _
  | cons s rest ih =>
    unfold notifyAll
    have h := notify_dstep c σ s ev
    generalize notify c σ s ev = p at h
    obtain ⟨σ', b⟩ := p
    cases b <;> simp only
    · exact .trans h (ih σ')
    · exact h

theorem afterCommit_dstep (c : Cfg) (σ : St) (order : List Nat) : DStep c σ (afterCommit c σ order) := by
  unfold afterCommit
  split
  · exact DStep.refl _ _
  · next ev rest hp =>
    have h := notifyAll_dstep c ev order { σ with pending := rest }
    generalize notifyAll c ev order { σ with pending := rest } = p at h
    obtain ⟨σ', b⟩ := p
    have h0 : DStep c σ { σ with pending := rest } := .vol ⟨rfl, rfl, rfl, rfl, rfl, rfl⟩
    cases b <;> simp only
    · exact .trans h0 h
    · exact .trans (.trans h0 h) (.vol (crashSt_same _))

theorem runCalls_dstep (c : Cfg) (s : Nat) (l : List (Nat × Nat)) (σ : St) (acc : List (Nat × Nat)) :
    DStep c σ (runCalls c s l σ acc).1 := by
  induction l generalizing σ acc with
  | nil => exact DStep.refl _ _
  | cons p rest ih =>
    obtain ⟨r, ret⟩ := p
    unfold runCalls
    have h := notifyNow_step c σ s r
    generalize notifyNow c σ s r = q at h
    obtain ⟨σ', res⟩ := q
    cases res <;> simp only
    · exact .trans (.now _ _ h) (ih _ _)
    · exact .trans (.now _ _ h) (ih _ _)
    · exact .trans (.now _ _ h) (ih _ _)
    · exact .now _ _ h
    · exact .trans (.now _ _ h) (ih _ _)

theorem spawnAll_same (c : Cfg) (s : Nat) (failed : List (Nat × Nat)) (σ : St) : SameDurable σ (spawnAll c s failed σ) := by
  unfold spawnAll
  induction failed generalizing σ with
  | nil => exact SameDurable.refl _
  | cons p rest ih => exact (spawn_same c σ s p.1 p.2).trans (ih _)

theorem runSub_dstep (c : Cfg) (σ : St) (s : Nat) : DStep c σ (runSub c σ s).1 := by
  unfold runSub
  have h := runCalls_dstep c s (runSnapshot c σ s) σ []
  generalize runCalls c s (runSnapshot c σ s) σ [] = q at h
  obtain ⟨σ1, failed, b⟩ := q
  cases b <;> simp only
  · exact .trans h (.vol (spawnAll_same _ _ _ _))
  · exact h

theorem runAll_dstep (c : Cfg) (order : List Nat) (σ : St) : DStep c σ (runAll c order σ).1 := by
  induction order generalizing σ with
  | nil => exact DStep.refl _ _
  | cons s rest ih =>
    unfold runAll
    have h := runSub_dstep c σ s
    generalize runSub c σ s = p at h
    obtain ⟨σ', b⟩ := p
    cases b <;> simp only
    · exact .trans h (ih σ')
    · exact h

theorem restart_dstep (c : Cfg) (σ : St) (order : List Nat) : DStep c σ (restart c σ order) := by
  unfold restart
  have h := runAll_dstep c order σ
  generalize runAll c order σ = p at h
  obtain ⟨σ', b⟩ := p
  cases b <;> simp only
  · exact h
  · exact .trans h (.vol (crashSt_same _))

theorem fire_dstep (c : Cfg) (σ : St) (s r : Nat) : DStep c σ (fire c σ s r) := by
  unfold fire
  split
  · exact DStep.refl _ _
  · next t ht =>
    simp only
    have h0 : DStep c σ { σ with running := σ.running.erase t } := .vol ⟨rfl, rfl, rfl, rfl, rfl, rfl⟩
    have h := notifyNow_step c { σ with running := σ.running.erase t } s r
    generalize notifyNow c { σ with running := σ.running.erase t } s r = p at h
    obtain ⟨σ', res⟩ := p
    cases res <;> simp only
    · exact .trans h0 (.now _ _ h)
    · split
      · exact .trans h0 (.now _ _ h)
      · exact .trans (.trans h0 (.now _ _ h)) (.vol ⟨rfl, rfl, rfl, rfl, rfl, rfl⟩)
    · exact .trans h0 (.now _ _ h)
    · exact .trans (.trans h0 (.now _ _ h)) (.vol (crashSt_same _))
    · split
      · exact .trans h0 (.now _ _ h)
      · exact .trans (.trans h0 (.now _ _ h)) (.vol ⟨rfl, rfl, rfl, rfl, rfl, rfl⟩)


@[simp] theorem setJob_shelf (σ : St) (s r : Nat) (nj : Option Job) (s' r' : Nat) :
    (setJob σ s r nj).shelf s' r' = if s' = s ∧ r' = r then nj else σ.shelf s' r' := rfl
@[simp] theorem setJob_dag (σ : St) (s r : Nat) (nj : Option Job) : (setJob σ s r nj).dag = σ.dag := rfl
@[simp] theorem setJob_payloads (σ : St) (s r : Nat) (nj : Option Job) : (setJob σ s r nj).payloads = σ.payloads := rfl
@[simp] theorem setJob_admitted (σ : St) (s r : Nat) (nj : Option Job) : (setJob σ s r nj).admitted = σ.admitted := rfl
@[simp] theorem setJob_ledger (σ : St) (s r : Nat) (nj : Option Job) : (setJob σ s r nj).ledger = σ.ledger := rfl
@[simp] theorem setJob_running (σ : St) (s r : Nat) (nj : Option Job) : (setJob σ s r nj).running = σ.running := rfl
@[simp] theorem setJob_pending (σ : St) (s r : Nat) (nj : Option Job) : (setJob σ s r nj).pending = σ.pending := rfl
@[simp] theorem log_shelf (σ : St) (e : Entry) : (log σ e).shelf = σ.shelf := rfl
@[simp] theorem log_dag (σ : St) (e : Entry) : (log σ e).dag = σ.dag := rfl
@[simp] theorem log_payloads (σ : St) (e : Entry) : (log σ e).payloads = σ.payloads := rfl
@[simp] theorem log_admitted (σ : St) (e : Entry) : (log σ e).admitted = σ.admitted := rfl
@[simp] theorem log_ledger (σ : St) (e : Entry) : (log σ e).ledger = e :: σ.ledger := rfl
@[simp] theorem log_running (σ : St) (e : Entry) : (log σ e).running = σ.running := rfl
@[simp] theorem log_pending (σ : St) (e : Entry) : (log σ e).pending = σ.pending := rfl

theorem completedIn_cons (e : Entry) (l : List Entry) (s r : Nat) :
    completedIn (e :: l) s r = (e.completes s r || completedIn l s r) := by
  simp [completedIn]

theorem completes_call_iff (s r s' r' : Nat) (ty : EvType) (k : Nat) (o : Outcome) :
    (Entry.call s' r' ty k o).completes s r = true ↔ s' = s ∧ r' = r ∧ o = .done := by
  simp [Entry.completes, and_assoc]

theorem completes_fin_iff (s r s' r' : Nat) :
    (Entry.fin s' r').completes s r = true ↔ s' = s ∧ r' = r := by
  simp [Entry.completes]

theorem completedIn_iff (l : List Entry) (s r : Nat) :
    completedIn l s r = true ↔ (∃ ty k, Entry.call s r ty k .done ∈ l) ∨ Entry.fin s r ∈ l := by
  unfold completedIn
  rw [List.any_eq_true]
  constructor
  · rintro ⟨e, he, hc⟩
    cases e with
    | call s' r' ty k o =>
      rw [completes_call_iff] at hc
      obtain ⟨rfl, rfl, rfl⟩ := hc
      exact .inl ⟨ty, k, he⟩
    | fin s' r' =>
      rw [completes_fin_iff] at hc
      obtain ⟨rfl, rfl⟩ := hc
      exact .inr he
  · rintro (⟨ty, k, he⟩ | he)
    · exact ⟨_, he, by simp [Entry.completes]⟩
    · exact ⟨_, he, by simp [Entry.completes]⟩

structure Inv (c : Cfg) (σ : St) : Prop where
  jobDag : ∀ s r j, σ.shelf s r = some j → r ∈ σ.dag
  jobSel : ∀ s r j, σ.shelf s r = some j → c.sel s r j.type = true
  jobPay : ∀ s r j, σ.shelf s r = some j → j.type = .payload → c.phash r ∈ σ.payloads ∧ r ∈ σ.evented
  callOk : ∀ s r ty k o, Entry.call s r ty k o ∈ σ.ledger →
    r ∈ σ.dag ∧ c.sel s r ty = true ∧ (ty = .payload → c.phash r ∈ σ.payloads ∧ r ∈ σ.evented)
  finOk : ∀ s r, Entry.fin s r ∈ σ.ledger →
    r ∈ σ.dag ∧ ∃ ty, c.sel s r ty = true ∧ (ty = .payload → c.phash r ∈ σ.payloads ∧ r ∈ σ.evented)
  admDag : ∀ r ty, (r, ty) ∈ σ.admitted → r ∈ σ.dag
  admPay : ∀ r, (r, EvType.payload) ∈ σ.admitted → c.phash r ∈ σ.payloads
  dagLt : ∀ r, r ∈ σ.dag → r < c.nRefs
  loss : ∀ r ty s t, (r, ty) ∈ σ.admitted → s < c.nSubs → c.sel s r ty = true → Typed c s t →
    (∃ j, σ.shelf s r = some j ∧ j.type = ty) ∨ completedIn σ.ledger s r = true

theorem Inv.same {c : Cfg} {σ σ' : St} (h : Inv c σ) (e : SameDurable σ σ') : Inv c σ' := by
  obtain ⟨e1, e2, e3, e4, e5, e6⟩ := e
  constructor
  · rw [e3, e1]; exact h.jobDag
  · rw [e3]; exact h.jobSel
  · rw [e3, e2, e6]; exact h.jobPay
  · rw [e5, e1, e2, e6]; exact h.callOk
  · rw [e5, e1, e2, e6]; exact h.finOk
  · rw [e4, e1]; exact h.admDag
  · rw [e4, e2]; exact h.admPay
  · rw [e1]; exact h.dagLt
  · rw [e4, e3, e5]; exact h.loss

theorem Inv.now {c : Cfg} {σ σ' : St} {s r : Nat} (h : Inv c σ) (st : NowStep c s r σ σ') : Inv c σ' := by
  cases st with
  | skip _ e => subst e; exact h
  | call j o nj hj ho hdone hty _ e =>
    subst e
    have hd := h.jobDag s r j hj
    have hs := h.jobSel s r j hj
    have hp := h.jobPay s r j hj
    constructor
    · intro s' r' j' hh
      simp only [setJob_shelf, log_shelf] at hh
      simp only [setJob_dag, log_dag]
      split at hh
      · next heq => rw [heq.2]; exact hd
      · exact h.jobDag _ _ _ hh
    · intro s' r' j' hh
      simp only [setJob_shelf, log_shelf] at hh
      split at hh
      · next heq => rw [heq.1, heq.2, hty j' hh]; exact hs
      · exact h.jobSel _ _ _ hh
    · intro s' r' j' hh
      simp only [setJob_shelf, log_shelf] at hh
      simp only [setJob_payloads, log_payloads]
      split at hh
      · next heq => rw [heq.2, hty j' hh]; exact hp
      · exact h.jobPay _ _ _ hh
    · intro s' r' ty k o' hm
      simp only [setJob_ledger, log_ledger, List.mem_cons, setJob_dag, log_dag, setJob_payloads, log_payloads] at hm ⊢
      rcases hm with hm | hm
      · injection hm with a1 a2 a3 a4 a5
        subst a1 a2 a3
        exact ⟨hd, hs, hp⟩
      · exact h.callOk _ _ _ _ _ hm
    · intro s' r' hm
      simp only [setJob_ledger, log_ledger, List.mem_cons, setJob_dag, log_dag, setJob_payloads, log_payloads] at hm ⊢
      rcases hm with hm | hm
      · cases hm
      · exact h.finOk _ _ hm
    · exact h.admDag
    · exact h.admPay
    · exact h.dagLt
    · intro r' ty s' t hm hlt hsel htyp
      simp only [setJob_admitted, log_admitted] at hm
      simp only [setJob_shelf, log_shelf, setJob_ledger, log_ledger, completedIn_cons]
      rcases h.loss r' ty s' t hm hlt hsel htyp with ⟨j', hj', hjt⟩ | hc
      · by_cases heq : s' = s ∧ r' = r
        · obtain ⟨rfl, rfl⟩ := heq
          rw [hj] at hj'; injection hj' with hj'; subst hj'
          cases nj with
          | none =>
            right
            have : o = .done := hdone.mp rfl
            subst this
            simp [Entry.completes]
          | some j2 =>
            left
            exact ⟨j2, by simp, (hty j2 rfl).trans hjt⟩
        · left; exact ⟨j', by rw [if_neg heq]; exact hj', hjt⟩
      · right; simp [hc]
  | callFin j nj hj hty hfix _ e =>
    subst e
    have hd := h.jobDag s r j hj
    have hs := h.jobSel s r j hj
    have hp := h.jobPay s r j hj
    constructor
    · intro s' r' j' hh
      simp only [setJob_shelf, log_shelf] at hh
      simp only [setJob_dag, log_dag]
      split at hh
      · next heq => rw [heq.2]; exact hd
      · exact h.jobDag _ _ _ hh
    · intro s' r' j' hh
      simp only [setJob_shelf, log_shelf] at hh
      split at hh
      · next heq => rw [heq.1, heq.2, hty j' hh]; exact hs
      · exact h.jobSel _ _ _ hh
    · intro s' r' j' hh
      simp only [setJob_shelf, log_shelf] at hh
      simp only [setJob_payloads, log_payloads]
      split at hh
      · next heq => rw [heq.2, hty j' hh]; exact hp
      · exact h.jobPay _ _ _ hh
    · intro s' r' ty k o' hm
      simp only [setJob_ledger, log_ledger, List.mem_cons, setJob_dag, log_dag, setJob_payloads, log_payloads] at hm ⊢
      rcases hm with hm | hm | hm
      · cases hm
      · injection hm with a1 a2 a3 a4 a5
        subst a1 a2 a3
        exact ⟨hd, hs, hp⟩
      · exact h.callOk _ _ _ _ _ hm
    · intro s' r' hm
      simp only [setJob_ledger, log_ledger, List.mem_cons, setJob_dag, log_dag, setJob_payloads, log_payloads] at hm ⊢
      rcases hm with hm | hm | hm
      · injection hm with a b; subst a b
        exact ⟨hd, j.type, hs, hp⟩
      · cases hm
      · exact h.finOk _ _ hm
    · exact h.admDag
    · exact h.admPay
    · exact h.dagLt
    · intro r' ty s' t hm hlt hsel htyp
      simp only [setJob_admitted, log_admitted] at hm
      simp only [setJob_shelf, log_shelf, setJob_ledger, log_ledger, completedIn_cons]
      by_cases heq : s' = s ∧ r' = r
      · right; obtain ⟨rfl, rfl⟩ := heq; simp [Entry.completes]
      · rcases h.loss r' ty s' t hm hlt hsel htyp with ⟨j', hj', hjt⟩ | hc
        · left; exact ⟨j', by rw [if_neg heq]; exact hj', hjt⟩
        · right; simp [hc]

def newJob (ty : EvType) : Job := { type := ty, retries := 0, err := .none }

structure SaveSpec (c : Cfg) (ev : Nat × EvType) (n : Nat) (σ σ' : St) : Prop where
  dag : σ'.dag = σ.dag
  payloads : σ'.payloads = σ.payloads
  admitted : σ'.admitted = σ.admitted
  ledger : σ'.ledger = σ.ledger
  running : σ'.running = σ.running
  pending : σ'.pending = σ.pending
  shelf : ∀ s r, σ'.shelf s r =
    if s < n ∧ r = ev.1 ∧ c.sel s r ev.2 = true ∧ σ.shelf s r = none then some (newJob ev.2) else σ.shelf s r
  evented : σ'.evented = σ.evented

theorem save_fold_spec (c : Cfg) (ev : Nat × EvType) (n : Nat) (σ : St) :
    SaveSpec c ev n σ ((List.range n).foldl (save c ev) σ) := by
  induction n with
  | zero => exact ⟨rfl, rfl, rfl, rfl, rfl, rfl, by intro s r; simp, rfl⟩
  | succ n ih =>
    rw [List.range_succ, List.foldl_append]
    simp only [List.foldl_cons, List.foldl_nil]
    generalize (List.range n).foldl (save c ev) σ = σ1 at ih
    obtain ⟨h1, h2, h3, h4, h5, h6, h7, h8⟩ := ih
    have hn : σ1.shelf n ev.1 = σ.shelf n ev.1 := by
      rw [h7]; simp
    unfold save
    by_cases hsel : c.sel n ev.1 ev.2 = true
    · rw [if_pos hsel]
      cases hsh : σ1.shelf n ev.1 with
      | none =>
        simp only
        refine ⟨h1, h2, h3, h4, h5, h6, ?_, h8⟩
        intro s r
        simp only [setJob_shelf, newJob]
        rw [hsh] at hn
        by_cases heq : s = n ∧ r = ev.1
        · obtain ⟨rfl, rfl⟩ := heq
          simp [hsel, hn.symm]
        · rw [if_neg heq, h7]
          have : ¬ (s = n ∧ r = ev.1) := heq
          by_cases hr : r = ev.1
          · have hsn : s ≠ n := fun hh => heq ⟨hh, hr⟩
            have : (s < n + 1) = (s < n) := by
              apply propext; constructor <;> intro hh <;> omega
            simp only [this, newJob]
          · simp [hr]
      | some j =>
        simp only
        refine ⟨h1, h2, h3, h4, h5, h6, ?_, h8⟩
        intro s r
        rw [h7]
        rw [hsh] at hn
        by_cases heq : s = n ∧ r = ev.1
        · obtain ⟨rfl, rfl⟩ := heq
          simp [← hn]
        · by_cases hr : r = ev.1
          · have hsn : s ≠ n := fun hh => heq ⟨hh, hr⟩
            have : (s < n + 1) = (s < n) := by
              apply propext; constructor <;> intro hh <;> omega
            simp only [this]
          · simp [hr]
    · rw [if_neg hsel]
      refine ⟨h1, h2, h3, h4, h5, h6, ?_, h8⟩
      intro s r
      rw [h7]
      by_cases heq : s = n ∧ r = ev.1
      · obtain ⟨rfl, rfl⟩ := heq
        simp [hsel]
      · by_cases hr : r = ev.1
        · have hsn : s ≠ n := fun hh => heq ⟨hh, hr⟩
          have : (s < n + 1) = (s < n) := by
            apply propext; constructor <;> intro hh <;> omega
          simp only [this]
        · simp [hr]

theorem saveEvent_spec (c : Cfg) (σ : St) (ev : Nat × EvType) : SaveSpec c ev c.nSubs σ (saveEvent c σ ev) :=
  save_fold_spec c ev c.nSubs σ


theorem saveEvent_dag (c : Cfg) (σ : St) (ev : Nat × EvType) : (saveEvent c σ ev).dag = σ.dag := (saveEvent_spec c σ ev).dag

/-- admission of one event inside a write transaction: DAG / payload store grow, the event is recorded, saveEvent runs -/
theorem Inv.admitEvent {c : Cfg} {σ : St} (h : Inv c σ) (r : Nat) (ty : EvType) (D' P' E' : List Nat)
    (hD : ∀ x, x ∈ σ.dag → x ∈ D') (hP : ∀ x, x ∈ σ.payloads → x ∈ P') (hE : ∀ x, x ∈ σ.evented → x ∈ E') (hr : r ∈ D')
    (hty : ty = .payload → c.phash r ∈ P' ∧ r ∈ E') (hDlt : ∀ x, x ∈ D' → x < c.nRefs) :
    Inv c (saveEvent c { σ with dag := D', payloads := P', evented := E', admitted := (r, ty) :: σ.admitted } (r, ty)) := by
  have sp := saveEvent_spec c { σ with dag := D', payloads := P', evented := E', admitted := (r, ty) :: σ.admitted } (r, ty)
  generalize saveEvent c { σ with dag := D', payloads := P', evented := E', admitted := (r, ty) :: σ.admitted } (r, ty) = σ' at sp
  obtain ⟨e1, e2, e3, e4, _, _, e7, e8⟩ := sp
  simp only at e1 e2 e3 e4 e7 e8
  constructor
  · intro s' r' j hh
    rw [e7] at hh; rw [e1]
    split at hh
    · next hc => rw [hc.2.1]; exact hr
    · exact hD _ (h.jobDag _ _ _ hh)
  · intro s' r' j hh
    rw [e7] at hh
    split at hh
    · next hc => injection hh with hh; subst hh; exact hc.2.2.1
    · exact h.jobSel _ _ _ hh
  · intro s' r' j hh hp
    rw [e7] at hh; rw [e2, e8]
    split at hh
    · next hc => injection hh with hh; subst hh; rw [hc.2.1]; exact hty hp
    · exact ⟨hP _ (h.jobPay _ _ _ hh hp).1, hE _ (h.jobPay _ _ _ hh hp).2⟩
  · intro s' r' ty' k o hm
    rw [e4] at hm; rw [e1, e2, e8]
    obtain ⟨a, b, d⟩ := h.callOk _ _ _ _ _ hm
    exact ⟨hD _ a, b, fun x => ⟨hP _ (d x).1, hE _ (d x).2⟩⟩
  · intro s' r' hm
    rw [e4] at hm; rw [e1, e2, e8]
    obtain ⟨a, ty', b, d⟩ := h.finOk _ _ hm
    exact ⟨hD _ a, ty', b, fun x => ⟨hP _ (d x).1, hE _ (d x).2⟩⟩
  · intro r' ty' hm
    rw [e3] at hm; rw [e1]
    rcases List.mem_cons.mp hm with hm | hm
    · injection hm with a b; rw [a]; exact hr
    · exact hD _ (h.admDag _ _ hm)
  · intro r' hm
    rw [e3] at hm; rw [e2]
    rcases List.mem_cons.mp hm with hm | hm
    · injection hm with a b; rw [a]; exact (hty b.symm).1
    · exact hP _ (h.admPay _ hm)
  · rw [e1]; exact hDlt
  · intro r' ty' s' t hm hlt hsel htyp
    rw [e3] at hm; rw [e4]
    rcases List.mem_cons.mp hm with hm | hm
    · injection hm with a b; subst a b
      left
      cases hsh : σ.shelf s' r' with
      | none => exact ⟨newJob ty', by rw [e7]; simp [hlt, hsel, hsh], rfl⟩
      | some j0 =>
        refine ⟨j0, by rw [e7]; simp [hsh], ?_⟩
        have := h.jobSel _ _ _ hsh
        rw [htyp _ _ this, htyp _ _ hsel]
    · rcases h.loss r' ty' s' t hm hlt hsel htyp with ⟨j, hj, hjt⟩ | hc
      · left; exact ⟨j, by rw [e7]; simp [hj], hjt⟩
      · right; exact hc

theorem Inv.finishedExt {c : Cfg} {σ : St} (h : Inv c σ) (s r : Nat) (f : Bool) : Inv c (Nuts.C14.finishedExt σ s r f) := by
  unfold Nuts.C14.finishedExt
  split
  · exact h
  · split
    · exact h
    · next j hj =>
      have hd := h.jobDag s r j hj
      have hs := h.jobSel s r j hj
      have hp := h.jobPay s r j hj
      constructor
      · intro s' r' j' hh
        simp only [log_shelf, setJob_shelf] at hh
        split at hh
        · cases hh
        · exact h.jobDag _ _ _ hh
      · intro s' r' j' hh
        simp only [log_shelf, setJob_shelf] at hh
        split at hh
        · cases hh
        · exact h.jobSel _ _ _ hh
      · intro s' r' j' hh
        simp only [log_shelf, setJob_shelf] at hh
        split at hh
        · cases hh
        · exact h.jobPay _ _ _ hh
      · intro s' r' ty k o hm
        simp only [log_ledger, setJob_ledger, List.mem_cons] at hm
        rcases hm with hm | hm
        · cases hm
        · exact h.callOk _ _ _ _ _ hm
      · intro s' r' hm
        simp only [log_ledger, setJob_ledger, List.mem_cons] at hm
        rcases hm with hm | hm
        · injection hm with a b; subst a b
          exact ⟨hd, j.type, hs, hp⟩
        · exact h.finOk _ _ hm
      · exact h.admDag
      · exact h.admPay
      · exact h.dagLt
      · intro r' ty s' t hm hlt hsel htyp
        simp only [log_ledger, setJob_ledger, log_shelf, setJob_shelf, completedIn_cons]
        by_cases heq : s' = s ∧ r' = r
        · right; obtain ⟨rfl, rfl⟩ := heq; simp [Entry.completes]
        · rcases h.loss r' ty s' t hm hlt hsel htyp with ⟨j', hj', hjt⟩ | hc
          · left; exact ⟨j', by rw [if_neg heq]; exact hj', hjt⟩
          · right; simp [hc]

theorem Inv.dstep {c : Cfg} {σ σ' : St} (h : Inv c σ) (d : DStep c σ σ') : Inv c σ' := by
  induction d with
  | vol e => exact h.same e
  | now s r st => exact h.now st
  | trans _ _ ih1 ih2 => exact ih2 (ih1 h)

theorem Inv.pending {c : Cfg} {σ : St} (h : Inv c σ) (p : List (Nat × EvType)) : Inv c { σ with pending := p } :=
  h.same ⟨rfl, rfl, rfl, rfl, rfl, rfl⟩

theorem Inv.addTx {c : Cfg} {σ : St} (h : Inv c σ) (a : AddArgs) : Inv c (addTx c σ a).1 := by
  unfold Nuts.C14.addTx
  split; · exact h
  split; · exact h
  split; · exact h
  split; · exact h
  split; · exact h
  split; · exact h
  split; · exact h
  split; · exact h
  next hlt hnd _ _ _ _ _ _ =>
  simp only
  apply Inv.pending
  have hDlt : ∀ x, x ∈ a.ref :: σ.dag → x < c.nRefs := by
    intro x hx
    rcases List.mem_cons.mp hx with rfl | hx
    · omega
    · exact h.dagLt x hx
  split
  · have h1 := h.admitEvent a.ref .payload (a.ref :: σ.dag) (c.phash a.ref :: σ.payloads) (a.ref :: σ.evented)
      (fun x hx => List.mem_cons_of_mem _ hx) (fun x hx => List.mem_cons_of_mem _ hx) (fun x hx => List.mem_cons_of_mem _ hx)
      List.mem_cons_self (fun _ => ⟨List.mem_cons_self, List.mem_cons_self⟩) hDlt
    generalize hσ1 : saveEvent c _ (a.ref, EvType.payload) = σ1 at h1 ⊢
    have hr : a.ref ∈ σ1.dag := by rw [← hσ1, saveEvent_dag]; exact List.mem_cons_self
    exact h1.admitEvent a.ref .tx σ1.dag σ1.payloads σ1.evented (fun x hx => hx) (fun x hx => hx) (fun x hx => hx) hr
      (fun hh => by cases hh) h1.dagLt
  · exact h.admitEvent a.ref .tx (a.ref :: σ.dag) σ.payloads σ.evented
      (fun x hx => List.mem_cons_of_mem _ hx) (fun x hx => hx) (fun x hx => hx) List.mem_cons_self (fun hh => by cases hh) hDlt


theorem Inv.writePayload {c : Cfg} {σ : St} (h : Inv c σ) (r : Nat) (cf : Bool) : Inv c (writePayload c σ r cf).1 := by
  unfold Nuts.C14.writePayload
  split; · exact h
  split; · exact h
  split; · (split; exact h; exact Inv.pending h _)
  next hd _ _ =>
  simp only
  apply Inv.pending
  have hd' : r ∈ σ.dag := Classical.not_not.mp hd
  exact h.admitEvent r .payload σ.dag (c.phash r :: σ.payloads) (r :: σ.evented) (fun x hx => hx)
    (fun x hx => List.mem_cons_of_mem _ hx) (fun x hx => List.mem_cons_of_mem _ hx) hd'
    (fun _ => ⟨List.mem_cons_self, List.mem_cons_self⟩) h.dagLt

theorem Inv.init (c : Cfg) : Inv c init := by
  constructor <;> intros <;> simp_all [Nuts.C14.init]

theorem Inv.step {c : Cfg} {σ : St} (h : Inv c σ) (op : Op) : Inv c (step c σ op) := by
  cases op with
  | add a => exact h.addTx a
  | afterCommit order => exact h.dstep (afterCommit_dstep c σ order)
  | writePayload r cf => exact h.writePayload r cf
  | finishedExt s r f => exact h.finishedExt s r f
  | fire s r => exact h.dstep (fire_dstep c σ s r)
  | crash => exact h.same (crashSt_same σ)
  | restart order => exact h.dstep (restart_dstep c σ order)

theorem Inv.run {c : Cfg} {σ : St} (h : Inv c σ) (ops : List Op) : Inv c (run c σ ops) := by
  induction ops generalizing σ with
  | nil => exact h
  | cons op rest ih => exact ih (h.step op)


/-! ## completion is final (needs: filters fix the event type, WritePayload skips a stored payload) -/

structure Inv2 (c : Cfg) (σ : St) : Prop where
  doneGone : ∀ s r t, Typed c s t → completedIn σ.ledger s r = true → σ.shelf s r = none
  ok : ∀ s r t, Typed c s t → okLedger s r σ.ledger = true

theorem Inv2.same {c : Cfg} {σ σ' : St} (h : Inv2 c σ) (e : SameDurable σ σ') : Inv2 c σ' := by
  obtain ⟨_, _, e3, _, e5, _⟩ := e
  constructor
  · rw [e3, e5]; exact h.doneGone
  · rw [e5]; exact h.ok

theorem isCallOf_call (s r s' r' : Nat) (ty : EvType) (k : Nat) (o : Outcome) :
    (Entry.call s' r' ty k o).isCallOf s r = true ↔ s' = s ∧ r' = r := by
  simp [Entry.isCallOf]

theorem Inv2.now {c : Cfg} {σ σ' : St} {s r : Nat} (hwb : c.writeBackSkipsGone = true) (h : Inv2 c σ) (st : NowStep c s r σ σ') :
    Inv2 c σ' := by
  cases st with
  | skip _ e => subst e; exact h
  | call j o nj hj ho hdone hty _ e =>
    subst e
    constructor
    · intro s' r' t htyp hc
      simp only [setJob_ledger, log_ledger, completedIn_cons, Bool.or_eq_true] at hc
      simp only [setJob_shelf, log_shelf]
      by_cases heq : s' = s ∧ r' = r
      · obtain ⟨rfl, rfl⟩ := heq
        simp only [and_self, if_true]
        cases nj with
        | none => rfl
        | some j2 =>
          exfalso
          rcases hc with hc | hc
          · rw [completes_call_iff] at hc
            have : (some j2 : Option Job) = none := hdone.mpr hc.2.2
            cases this
          · have := h.doneGone _ _ t htyp hc
            rw [hj] at this; cases this
      · rw [if_neg heq]
        rcases hc with hc | hc
        · rw [completes_call_iff] at hc
          exact absurd ⟨hc.1.symm, hc.2.1.symm⟩ heq
        · exact h.doneGone _ _ t htyp hc
    · intro s' r' t htyp
      simp only [setJob_ledger, log_ledger, okLedger, Bool.and_eq_true, Bool.or_eq_true, Bool.not_eq_true']
      refine ⟨?_, h.ok _ _ t htyp⟩
      by_cases heq : s' = s ∧ r' = r
      · obtain ⟨rfl, rfl⟩ := heq
        right
        cases hcc : completedIn σ.ledger s' r' with
        | false => rfl
        | true =>
          have := h.doneGone _ _ t htyp hcc
          rw [hj] at this; cases this
      · left
        cases hic : (Entry.call s r j.type j.retries o).isCallOf s' r' with
        | false => rfl
        | true =>
          rw [isCallOf_call] at hic
          exact absurd ⟨hic.1.symm, hic.2.symm⟩ heq

  | callFin j nj hj hty hfix _ e =>
    subst e
    have hnj : nj = none := hfix hwb
    subst hnj
    constructor
    · intro s' r' t htyp hc
      simp only [setJob_ledger, log_ledger, completedIn_cons, Bool.or_eq_true] at hc
      simp only [setJob_shelf, log_shelf]
      by_cases heq : s' = s ∧ r' = r
      · rw [if_pos heq]
      · rw [if_neg heq]
        rcases hc with hc | hc | hc
        · rw [completes_fin_iff] at hc
          exact absurd ⟨hc.1.symm, hc.2.symm⟩ heq
        · rw [completes_call_iff] at hc
          exact absurd ⟨hc.1.symm, hc.2.1.symm⟩ heq
        · exact h.doneGone _ _ t htyp hc
    · intro s' r' t htyp
      simp only [setJob_ledger, log_ledger, okLedger, Bool.and_eq_true, Bool.or_eq_true, Bool.not_eq_true']
      refine ⟨.inl rfl, ?_, h.ok _ _ t htyp⟩
      by_cases heq : s' = s ∧ r' = r
      · obtain ⟨rfl, rfl⟩ := heq
        right
        cases hcc : completedIn σ.ledger s' r' with
        | false => rfl
        | true =>
          have := h.doneGone _ _ t htyp hcc
          rw [hj] at this; cases this
      · left
        cases hic : (Entry.call s r j.type j.retries Outcome.notDoneFin).isCallOf s' r' with
        | false => rfl
        | true =>
          rw [isCallOf_call] at hic
          exact absurd ⟨hic.1.symm, hic.2.symm⟩ heq

theorem Inv2.dstep {c : Cfg} {σ σ' : St} (hwb : c.writeBackSkipsGone = true) (h : Inv2 c σ) (d : DStep c σ σ') : Inv2 c σ' := by
  induction d with
  | vol e => exact h.same e
  | now s r st => exact h.now hwb st
  | trans _ _ ih1 ih2 => exact ih2 (ih1 h)

theorem Inv2.finishedExt {c : Cfg} {σ : St} (h : Inv2 c σ) (s r : Nat) (f : Bool) :
    Inv2 c (Nuts.C14.finishedExt σ s r f) := by
  unfold Nuts.C14.finishedExt
  split
  · exact h
  · split
    · exact h
    · next j hj =>
      constructor
      · intro s' r' t htyp hc
        simp only [log_ledger, setJob_ledger, completedIn_cons, Bool.or_eq_true] at hc
        simp only [log_shelf, setJob_shelf]
        by_cases heq : s' = s ∧ r' = r
        · rw [if_pos heq]
        · rw [if_neg heq]
          rcases hc with hc | hc
          · rw [completes_fin_iff] at hc
            exact absurd ⟨hc.1.symm, hc.2.symm⟩ heq
          · exact h.doneGone _ _ t htyp hc
      · intro s' r' t htyp
        simp only [log_ledger, setJob_ledger, okLedger, Bool.and_eq_true, Bool.or_eq_true, Bool.not_eq_true']
        exact ⟨.inl rfl, h.ok _ _ t htyp⟩

theorem Inv2.admitEvent {c : Cfg} {σ : St} (h : Inv2 c σ) (r : Nat) (ty : EvType) (D' P' E' : List Nat)
    (hfresh : ∀ s' t, Typed c s' t → c.sel s' r ty = true → completedIn σ.ledger s' r = false) :
    Inv2 c (saveEvent c { σ with dag := D', payloads := P', evented := E', admitted := (r, ty) :: σ.admitted } (r, ty)) := by
  have sp := saveEvent_spec c { σ with dag := D', payloads := P', evented := E', admitted := (r, ty) :: σ.admitted } (r, ty)
  generalize saveEvent c { σ with dag := D', payloads := P', evented := E', admitted := (r, ty) :: σ.admitted } (r, ty) = σ' at sp
  obtain ⟨_, _, _, e4, _, _, e7, _⟩ := sp
  simp only at e4 e7
  constructor
  · intro s' r' t htyp hc
    rw [e4] at hc; rw [e7]
    split
    · next hcond =>
      obtain ⟨_, rfl, hsel, _⟩ := hcond
      rw [hfresh s' t htyp hsel] at hc; cases hc
    · exact h.doneGone _ _ t htyp hc
  · rw [e4]; exact h.ok

theorem Inv2.pending {c : Cfg} {σ : St} (h : Inv2 c σ) (p : List (Nat × EvType)) : Inv2 c { σ with pending := p } :=
  h.same ⟨rfl, rfl, rfl, rfl, rfl, rfl⟩

theorem saveEvent_ledger (c : Cfg) (σ : St) (ev : Nat × EvType) : (saveEvent c σ ev).ledger = σ.ledger := (saveEvent_spec c σ ev).ledger

theorem Inv.notCompleted_of_notInDag {c : Cfg} {σ : St} (h : Inv c σ) (s r : Nat) (hr : r ∉ σ.dag) :
    completedIn σ.ledger s r = false := by
  cases hc : completedIn σ.ledger s r with
  | false => rfl
  | true =>
    rw [completedIn_iff] at hc
    rcases hc with ⟨ty, k, hm⟩ | hm
    · exact absurd (h.callOk _ _ _ _ _ hm).1 hr
    · exact absurd (h.finOk _ _ hm).1 hr

theorem Inv2.addTx {c : Cfg} {σ : St} (h1 : Inv c σ) (h : Inv2 c σ) (a : AddArgs) : Inv2 c (addTx c σ a).1 := by
  unfold Nuts.C14.addTx
  split; · exact h
  split; · exact h
  split; · exact h
  split; · exact h
  split; · exact h
  split; · exact h
  split; · exact h
  split; · exact h
  next hnd _ _ _ _ _ _ =>
  simp only
  apply Inv2.pending
  have hfr : ∀ s', completedIn σ.ledger s' a.ref = false := fun s' => h1.notCompleted_of_notInDag s' a.ref hnd
  split
  · have h2 := h.admitEvent a.ref .payload (a.ref :: σ.dag) (c.phash a.ref :: σ.payloads) (a.ref :: σ.evented) (fun s' _ _ _ => hfr s')
    generalize hσ1 : saveEvent c _ (a.ref, EvType.payload) = σ1 at h2 ⊢
    have hl : σ1.ledger = σ.ledger := by rw [← hσ1, saveEvent_ledger]
    exact h2.admitEvent a.ref .tx σ1.dag σ1.payloads σ1.evented (fun s' _ _ _ => by rw [hl]; exact hfr s')
  · exact h.admitEvent a.ref .tx (a.ref :: σ.dag) σ.payloads σ.evented (fun s' _ _ _ => hfr s')

theorem Inv2.writePayload {c : Cfg} {σ : St} (hskip : c.skipPresent = true) (h1 : Inv c σ) (h : Inv2 c σ) (r : Nat) (cf : Bool) :
    Inv2 c (writePayload c σ r cf).1 := by
  unfold Nuts.C14.writePayload
  split; · exact h
  split; · exact h
  split; · (split; exact h; exact Inv2.pending h _)
  next _ _ hns =>
  simp only
  apply Inv2.pending
  have hnp : r ∉ σ.evented := fun hp => hns ⟨hskip, hp⟩
  refine h.admitEvent r .payload σ.dag (c.phash r :: σ.payloads) (r :: σ.evented) ?_
  intro s' t htyp hsel
  have ht : EvType.payload = t := htyp _ _ hsel
  cases hc : completedIn σ.ledger s' r with
  | false => rfl
  | true =>
    exfalso
    rw [completedIn_iff] at hc
    rcases hc with ⟨ty, k, hm⟩ | hm
    · obtain ⟨_, hs2, hp⟩ := h1.callOk _ _ _ _ _ hm
      exact hnp (hp ((htyp _ _ hs2).trans ht.symm)).2
    · obtain ⟨_, ty, hs2, hp⟩ := h1.finOk _ _ hm
      exact hnp (hp ((htyp _ _ hs2).trans ht.symm)).2

theorem Inv2.init (c : Cfg) : Inv2 c init := by
  constructor <;> intros <;> simp_all [Nuts.C14.init, completedIn, okLedger]

theorem Inv2.step {c : Cfg} {σ : St} (hskip : c.skipPresent = true) (hwb : c.writeBackSkipsGone = true) (h1 : Inv c σ) (h : Inv2 c σ) (op : Op) :
    Inv2 c (step c σ op) := by
  cases op with
  | add a => exact h.addTx h1 a
  | afterCommit order => exact h.dstep hwb (afterCommit_dstep c σ order)
  | writePayload r cf => exact h.writePayload hskip h1 r cf
  | finishedExt s r f => exact h.finishedExt s r f
  | fire s r => exact h.dstep hwb (fire_dstep c σ s r)
  | crash => exact h.same (crashSt_same σ)
  | restart order => exact h.dstep hwb (restart_dstep c σ order)

theorem Inv2.run {c : Cfg} {σ : St} (hskip : c.skipPresent = true) (hwb : c.writeBackSkipsGone = true) (h1 : Inv c σ) (h : Inv2 c σ) (ops : List Op) :
    Inv2 c (run c σ ops) := by
  induction ops generalizing σ with
  | nil => exact h
  | cons op rest ih => exact ih (h1.step op) (h.step hskip hwb h1 op)

/-- reading of `okLedger`: nothing newer than a completion record of (s, r) is a call of (s, r) -/
theorem okLedger_split (s r : Nat) (newer older : List Entry) (e : Entry)
    (h : okLedger s r (newer ++ e :: older) = true) (he : e.completes s r = true) :
    ∀ e' ∈ newer, e'.isCallOf s r = false := by
  induction newer with
  | nil => intro e' hm; cases hm
  | cons x rest ih =>
    simp only [List.cons_append, okLedger, Bool.and_eq_true, Bool.or_eq_true, Bool.not_eq_true'] at h
    intro e' hm
    rcases List.mem_cons.mp hm with rfl | hm
    · rcases h.1 with h1 | h1
      · exact h1
      · have : completedIn (rest ++ e :: older) s r = true := by
          simp [completedIn, he]
        rw [this] at h1; cases h1
    · exact ih h.2 e' hm

theorem saveEvent_admitted (c : Cfg) (σ : St) (ev : Nat × EvType) : (saveEvent c σ ev).admitted = σ.admitted := (saveEvent_spec c σ ev).admitted

theorem addTx_cases (c : Cfg) (σ : St) (a : AddArgs) :
    ((addTx c σ a).2 ≠ .ok ∧ (addTx c σ a).1 = σ) ∨
    ((addTx c σ a).2 = .ok ∧ a.ref ∉ σ.dag ∧ a.ref < c.nRefs ∧
      (a.ref, EvType.tx) ∈ (addTx c σ a).1.admitted ∧
      (a.withPayload = true → (a.ref, EvType.payload) ∈ (addTx c σ a).1.admitted)) := by
  unfold addTx
  split; · left; exact ⟨by simp, rfl⟩
  split; · left; exact ⟨by simp, rfl⟩
  split; · left; exact ⟨by simp, rfl⟩
  split; · left; exact ⟨by simp, rfl⟩
  split; · left; exact ⟨by simp, rfl⟩
  split; · left; exact ⟨by simp, rfl⟩
  split; · left; exact ⟨by simp, rfl⟩
  split; · left; exact ⟨by simp, rfl⟩
  next h1 h2 _ _ _ _ _ _ =>
  right
  refine ⟨rfl, h2, by omega, ?_, ?_⟩
  · simp only [saveEvent_admitted]; exact List.mem_cons_self
  · intro hp
    simp only [saveEvent_admitted, hp, if_true]
    exact List.mem_cons_of_mem _ List.mem_cons_self

/-! ## exact effect of one `notifyNow` -/

def jobAfter (c : Cfg) (j : Job) : Outcome → Option Job
  | .done => none
  | .doneFinishFail => some j
  | .notDone => some { j with retries := j.retries + 1, err := .incomplete }
  | .notDoneFin => if c.writeBackSkipsGone then none else some { j with retries := j.retries + 1, err := .incomplete }
  | .fail => some { j with retries := j.retries + 1, err := .generic }
  | .failCtx => some { j with retries := j.retries + 1, err := .ctx }
  | .fatal => some { j with retries := c.maxRetries + 1, err := .fatal }
  | .crash => some j
  | .readFault => some j
  | .notDoneWriteFail => some j
  | .failWriteFail => some j

def resAfter : Outcome → NRes
  | .done => .nil
  | .doneFinishFail => .err
  | .notDone => .err
  | .notDoneFin => .err
  | .fail => .err
  | .failCtx => .err
  | .fatal => .fatal
  | .crash => .crashed
  | .readFault => .unrec
  | .notDoneWriteFail => .unrec
  | .failWriteFail => .unrec

theorem notifyNow_none {c : Cfg} {σ : St} {s r : Nat} (h : σ.shelf s r = none) : notifyNow c σ s r = (σ, .nil) := by
  unfold notifyNow; rw [h]

/-- what one receiver call writes to the ledger: the call, and the `Finished` record when it happened during the call -/
def logAfter (σ : St) (s r : Nat) (j : Job) (o : Outcome) : St :=
  match o with
  | .notDoneFin => log (log σ (.call s r j.type j.retries o)) (.fin s r)
  | _ => log σ (.call s r j.type j.retries o)

def entriesAfter (s r : Nat) (j : Job) (o : Outcome) : List Entry :=
  match o with
  | .notDoneFin => [.fin s r, .call s r j.type j.retries o]
  | _ => [.call s r j.type j.retries o]

@[simp] theorem logAfter_shelf (σ : St) (s r : Nat) (j : Job) (o : Outcome) : (logAfter σ s r j o).shelf = σ.shelf := by cases o <;> rfl
@[simp] theorem logAfter_running (σ : St) (s r : Nat) (j : Job) (o : Outcome) : (logAfter σ s r j o).running = σ.running := by cases o <;> rfl
@[simp] theorem logAfter_pending (σ : St) (s r : Nat) (j : Job) (o : Outcome) : (logAfter σ s r j o).pending = σ.pending := by cases o <;> rfl
@[simp] theorem logAfter_ledger (σ : St) (s r : Nat) (j : Job) (o : Outcome) :
    (logAfter σ s r j o).ledger = entriesAfter s r j o ++ σ.ledger := by cases o <;> rfl
theorem call_mem_entriesAfter (s r : Nat) (j : Job) (o : Outcome) : Entry.call s r j.type j.retries o ∈ entriesAfter s r j o := by
  cases o <;> simp [entriesAfter]

theorem notifyNow_some {c : Cfg} {σ : St} {s r : Nat} {j : Job} (h : σ.shelf s r = some j) :
    notifyNow c σ s r =
      (setJob (logAfter σ s r j (c.beh s r (attemptNo σ s r))) s r (jobAfter c j (c.beh s r (attemptNo σ s r))),
       resAfter (c.beh s r (attemptNo σ s r))) := by
  unfold notifyNow; rw [h]; simp only
  generalize c.beh s r (attemptNo σ s r) = o
  cases o <;> simp only [jobAfter, resAfter, logAfter]
  · rw [setJob_self]; simpa [log] using h
  · rw [setJob_self]; simpa [log] using h
  · rw [setJob_self]; simpa [log] using h
  · rw [setJob_self]; simpa [log] using h
  · rw [setJob_self]; simpa [log] using h

/-- the ledger only grows -/
def Grows (σ σ' : St) : Prop := ∃ new, σ'.ledger = new ++ σ.ledger

theorem Grows.refl (σ : St) : Grows σ σ := ⟨[], rfl⟩
theorem Grows.trans {a b d : St} (h1 : Grows a b) (h2 : Grows b d) : Grows a d := by
  obtain ⟨n1, e1⟩ := h1; obtain ⟨n2, e2⟩ := h2
  exact ⟨n2 ++ n1, by rw [e2, e1, List.append_assoc]⟩

theorem DStep.grows {c : Cfg} {σ σ' : St} (d : DStep c σ σ') : Grows σ σ' := by
  induction d with
  | vol e => exact ⟨[], by rw [e.ledger]; rfl⟩
  | now s r st =>
    cases st with
    | skip _ e => subst e; exact Grows.refl _
    | call j o nj _ _ _ _ _ e => subst e; exact ⟨[_], rfl⟩
    | callFin j nj _ _ _ _ e => subst e; exact ⟨[_, _], rfl⟩
  | trans _ _ ih1 ih2 => exact ih1.trans ih2

theorem attemptNo_mono {σ σ' : St} (h : Grows σ σ') (s r : Nat) : attemptNo σ s r ≤ attemptNo σ' s r := by
  obtain ⟨new, e⟩ := h
  unfold attemptNo
  rw [e, List.filter_append, List.length_append]
  omega

def Outcome.calm : Outcome → Bool
  | .done | .notDone | .notDoneFin | .fail | .fatal => true
  | _ => false

/-- from this state on no receiver call stops the node, hits a storage fault (failed Finished write), or returns the
    context error; everything else (done, incomplete, error, fatal, Finished during the call) is allowed in any pattern -/
def CalmFrom (c : Cfg) (σ : St) : Prop := ∀ s r k, attemptNo σ s r ≤ k → (c.beh s r k).calm = true

theorem CalmFrom.mono {c : Cfg} {σ σ' : St} (h : CalmFrom c σ) (g : Grows σ σ') : CalmFrom c σ' :=
  fun s r k hk => h s r k (Nat.le_trans (attemptNo_mono g s r) hk)

theorem CalmFrom.now {c : Cfg} {σ : St} (h : CalmFrom c σ) (s r : Nat) : (c.beh s r (attemptNo σ s r)).calm = true :=
  h s r _ (Nat.le_refl _)

theorem notifyNow_grows (c : Cfg) (σ : St) (s r : Nat) : Grows σ (notifyNow c σ s r).1 :=
  (DStep.now s r (notifyNow_step c σ s r)).grows


/-! ## coverage: every job below the retry budget has a live retry loop with enough attempts left, or a pending notification -/

def CovAt (c : Cfg) (sh : Nat → Nat → Option Job) (run : List Task) (pen : List (Nat × EvType)) (s r : Nat) : Prop :=
  ∀ j, sh s r = some j → j.retries < c.maxRetries →
    (∃ t, t ∈ run ∧ t.sub = s ∧ t.ref = r ∧ 1 ≤ t.left ∧ c.maxRetries ≤ t.left + j.retries) ∨
    (∃ ty, (r, ty) ∈ pen ∧ c.sel s r ty = true)

def Cov (c : Cfg) (σ : St) (s r : Nat) : Prop := CovAt c σ.shelf σ.running σ.pending s r

def Covered (c : Cfg) (σ : St) : Prop := ∀ s r, s < c.nSubs → r < c.nRefs → Cov c σ s r

theorem CovAt.keep {c : Cfg} {sh sh' : Nat → Nat → Option Job} {run run' : List Task} {pen pen' : List (Nat × EvType)} {s r : Nat}
    (h : CovAt c sh run pen s r)
    (hsh : ∀ j', sh' s r = some j' → j'.retries < c.maxRetries → ∃ j, sh s r = some j ∧ j.retries ≤ j'.retries)
    (hrun : ∀ t, t ∈ run → t.sub = s → t.ref = r → t ∈ run')
    (hpen : ∀ ty, (r, ty) ∈ pen → c.sel s r ty = true → (r, ty) ∈ pen') : CovAt c sh' run' pen' s r := by
  intro j' hj' hlt
  obtain ⟨j, hj, hle⟩ := hsh j' hj' hlt
  rcases h j hj (by omega) with ⟨t, ht, h1, h2, h3, h4⟩ | ⟨ty, hp, hs⟩
  · exact .inl ⟨t, hrun t ht h1 h2, h1, h2, h3, by omega⟩
  · exact .inr ⟨ty, hpen ty hp hs, hs⟩

theorem jobAfter_calm_retries {c : Cfg} {j j' : Job} {o : Outcome} (ho : o.calm = true) (h : jobAfter c j o = some j')
    (hlt : j'.retries < c.maxRetries) : j'.retries = j.retries + 1 ∧ j'.err ≠ .ctx := by
  cases o <;> simp [Outcome.calm] at ho <;> simp [jobAfter] at h
  · subst h; exact ⟨rfl, by simp⟩
  · obtain ⟨_, h⟩ := h; subst h; exact ⟨rfl, by simp⟩
  · subst h; exact ⟨rfl, by simp⟩
  · subst h; simp at hlt; omega

/-- a calm `notifyNow` keeps every key covered (running and pending are untouched, retries only grow below the budget) -/
theorem notifyNow_keeps {c : Cfg} {σ : St} (hc : CalmFrom c σ) (s r s' r' : Nat) (h : Cov c σ s' r') :
    Cov c (notifyNow c σ s r).1 s' r' := by
  cases hj : σ.shelf s r with
  | none => rw [notifyNow_none hj]; exact h
  | some j =>
    rw [notifyNow_some hj]
    refine CovAt.keep h ?_ (fun t ht _ _ => by simpa using ht) (fun ty hp _ => by simpa using hp)
    intro j' hj' hlt
    simp only [setJob_shelf, logAfter_shelf] at hj'
    split at hj'
    · next heq =>
      obtain ⟨rfl, rfl⟩ := heq
      have := jobAfter_calm_retries (hc.now s' r') hj' hlt
      exact ⟨j, hj, by omega⟩
    · exact ⟨j', hj', Nat.le_refl _⟩

theorem notifyNow_running (c : Cfg) (σ : St) (s r : Nat) : (notifyNow c σ s r).1.running = σ.running := by
  cases hj : σ.shelf s r with
  | none => rw [notifyNow_none hj]
  | some j => rw [notifyNow_some hj]; simp

theorem notifyNow_pending (c : Cfg) (σ : St) (s r : Nat) : (notifyNow c σ s r).1.pending = σ.pending := by
  cases hj : σ.shelf s r with
  | none => rw [notifyNow_none hj]
  | some j => rw [notifyNow_some hj]; simp

theorem notifyNow_not_crashed {c : Cfg} {σ : St} (hc : CalmFrom c σ) (s r : Nat) : (notifyNow c σ s r).2 ≠ .crashed := by
  cases hj : σ.shelf s r with
  | none => rw [notifyNow_none hj]; simp
  | some j =>
    rw [notifyNow_some hj]
    have := hc.now s r
    generalize c.beh s r (attemptNo σ s r) = o at this
    cases o <;> simp [Outcome.calm] at this <;> simp [resAfter]

def NoCtx (σ : St) : Prop := ∀ s r j, σ.shelf s r = some j → j.err ≠ .ctx

theorem notifyNow_noCtx {c : Cfg} {σ : St} (hc : CalmFrom c σ) (s r : Nat) (h : NoCtx σ) : NoCtx (notifyNow c σ s r).1 := by
  cases hj : σ.shelf s r with
  | none => rw [notifyNow_none hj]; exact h
  | some j =>
    rw [notifyNow_some hj]
    intro s' r' j' hj'
    simp only [setJob_shelf, logAfter_shelf] at hj'
    split at hj'
    · have hcalm := hc.now s r
      generalize c.beh s r (attemptNo σ s r) = o at hcalm hj'
      cases o <;> simp [Outcome.calm] at hcalm <;> simp [jobAfter] at hj' <;>
        first | (subst hj'; simp) | (obtain ⟨_, hj'⟩ := hj'; subst hj'; simp)
    · exact h _ _ _ hj'

theorem spawn_running_sub (c : Cfg) (σ : St) (s r k : Nat) : ∀ t, t ∈ σ.running → t ∈ (spawn c σ s r k).running := by
  intro t ht; unfold spawn; split
  · simp [ht]
  · exact ht

theorem spawn_shelf (c : Cfg) (σ : St) (s r k : Nat) : (spawn c σ s r k).shelf = σ.shelf := (spawn_same c σ s r k).shelf
theorem spawn_pending (c : Cfg) (σ : St) (s r k : Nat) : (spawn c σ s r k).pending = σ.pending := by
  unfold spawn; split <;> rfl
theorem spawn_ledger (c : Cfg) (σ : St) (s r k : Nat) : (spawn c σ s r k).ledger = σ.ledger := (spawn_same c σ s r k).ledger

theorem spawn_keeps {c : Cfg} {σ : St} (s r k s' r' : Nat) (h : Cov c σ s' r') : Cov c (spawn c σ s r k) s' r' := by
  unfold Cov; rw [spawn_shelf, spawn_pending]
  exact CovAt.keep h (fun j' hj' _ => ⟨j', hj', Nat.le_refl _⟩) (fun t ht _ _ => spawn_running_sub c σ s r k t ht) (fun ty hp _ => hp)

theorem spawn_mem {c : Cfg} {σ : St} {s r k : Nat} (h : k + 1 < c.maxRetries) :
    ∃ t, t ∈ (spawn c σ s r k).running ∧ t.sub = s ∧ t.ref = r ∧ t.left = c.maxRetries - (k + 1) := by
  unfold spawn retryAttempts; rw [if_pos h]
  exact ⟨{ sub := s, ref := r, left := c.maxRetries - (k + 1), n := 0, base := k + 1 }, by simp, rfl, rfl, rfl⟩

theorem spawn_noCtx {c : Cfg} {σ : St} (s r k : Nat) (h : NoCtx σ) : NoCtx (spawn c σ s r k) := by
  unfold NoCtx; rw [spawn_shelf]; exact h

theorem cov_after_spawn {c : Cfg} {σ1 : St} {s r : Nat} {j1 : Job} (hsh : σ1.shelf s r = some j1) (h1 : 1 ≤ j1.retries) :
    Cov c (spawn c σ1 s r 0) s r := by
  intro j' hj' hlt
  rw [spawn_shelf, hsh] at hj'
  injection hj' with hj'; subst hj'
  obtain ⟨t, ht, a, b, d⟩ := spawn_mem (c := c) (σ := σ1) (s := s) (r := r) (k := 0) (by omega)
  exact .inl ⟨t, ht, a, b, by omega, by omega⟩

/-- a calm `Notify` of a selected event leaves its own key covered -/
theorem notify_covers {c : Cfg} {σ : St} (hc : CalmFrom c σ) (s r : Nat) (ty : EvType) (hsel : c.sel s r ty = true) :
    Cov c (notify c σ s (r, ty)).1 s r := by
  unfold notify; simp only [hsel, if_true]
  cases hj : σ.shelf s r with
  | none => rw [notifyNow_none hj]; intro j hj'; rw [hj] at hj'; cases hj'
  | some j =>
    rw [notifyNow_some hj]
    have hcalm := hc.now s r
    generalize c.beh s r (attemptNo σ s r) = o at hcalm
    cases o <;> simp [Outcome.calm] at hcalm <;> simp only [resAfter, jobAfter]
    · intro j' hj'; simp at hj'
    · exact cov_after_spawn (j1 := { j with retries := j.retries + 1, err := .incomplete }) (by simp) (by simp)
    · by_cases hwb : c.writeBackSkipsGone = true
      · intro j' hj'; rw [spawn_shelf] at hj'; simp [hwb] at hj'
      · exact cov_after_spawn (j1 := { j with retries := j.retries + 1, err := .incomplete }) (by simp [hwb]) (by simp)
    · exact cov_after_spawn (j1 := { j with retries := j.retries + 1, err := .generic }) (by simp) (by simp)
    · intro j' hj' hlt
      simp at hj'; subst hj'; simp at hlt; omega


theorem spawn_grows (c : Cfg) (σ : St) (s r k : Nat) : Grows σ (spawn c σ s r k) := ⟨[], by rw [spawn_ledger]; rfl⟩

/-- facts about one calm `Notify` -/
structure NotifyOk (c : Cfg) (σ σ' : St) : Prop where
  grows : Grows σ σ'
  keeps : ∀ s' r', Cov c σ s' r' → Cov c σ' s' r'
  pending : σ'.pending = σ.pending
  noCtx : NoCtx σ → NoCtx σ'

theorem notify_ok {c : Cfg} {σ : St} (hc : CalmFrom c σ) (s : Nat) (ev : Nat × EvType) :
    (notify c σ s ev).2 = false ∧ NotifyOk c σ (notify c σ s ev).1 := by
  unfold notify
  split
  · have hg := notifyNow_grows c σ s ev.1
    have hk := fun s' r' => notifyNow_keeps hc s ev.1 s' r'
    have hp := notifyNow_pending c σ s ev.1
    have hn := notifyNow_not_crashed hc s ev.1
    have hx := notifyNow_noCtx hc s ev.1
    generalize notifyNow c σ s ev.1 = p at hg hk hp hn hx
    obtain ⟨σ', res⟩ := p
    cases res <;> simp only
    · exact ⟨trivial, hg, hk, hp, hx⟩
    · exact ⟨trivial, hg.trans (spawn_grows _ _ _ _ _), fun s' r' h => spawn_keeps _ _ _ _ _ (hk s' r' h),
        by rw [spawn_pending]; exact hp, fun h => spawn_noCtx _ _ _ (hx h)⟩
    · exact ⟨trivial, hg, hk, hp, hx⟩
    · exact absurd rfl hn
    · exact ⟨trivial, hg.trans (spawn_grows _ _ _ _ _), fun s' r' h => spawn_keeps _ _ _ _ _ (hk s' r' h),
        by rw [spawn_pending]; exact hp, fun h => spawn_noCtx _ _ _ (hx h)⟩
  · exact ⟨rfl, Grows.refl _, fun _ _ h => h, rfl, fun h => h⟩

theorem NotifyOk.trans {c : Cfg} {a b d : St} (h1 : NotifyOk c a b) (h2 : NotifyOk c b d) : NotifyOk c a d :=
  ⟨h1.grows.trans h2.grows, fun s r h => h2.keeps s r (h1.keeps s r h), h2.pending.trans h1.pending, fun h => h2.noCtx (h1.noCtx h)⟩

theorem notifyAll_ok {c : Cfg} (ev : Nat × EvType) (order : List Nat) {σ : St} (hc : CalmFrom c σ) :
    (notifyAll c ev order σ).2 = false ∧ NotifyOk c σ (notifyAll c ev order σ).1 ∧
    (∀ s, s ∈ order → c.sel s ev.1 ev.2 = true → Cov c (notifyAll c ev order σ).1 s ev.1) := by
  induction order generalizing σ with
  | nil => exact ⟨rfl, ⟨Grows.refl _, fun _ _ h => h, rfl, fun h => h⟩, fun s hs => by cases hs⟩
  | cons s0 rest ih =>
    unfold notifyAll
    have h1 := notify_ok hc s0 ev
    have h2 : c.sel s0 ev.1 ev.2 = true → Cov c (notify c σ s0 ev).1 s0 ev.1 := fun hsel => notify_covers hc s0 ev.1 ev.2 hsel
    generalize notify c σ s0 ev = p at h1 h2
    obtain ⟨σ', b⟩ := p
    obtain ⟨hb, hok⟩ := h1
    simp only at hb; subst hb
    simp only
    obtain ⟨i1, i2, i3⟩ := ih (hc.mono hok.grows)
    refine ⟨i1, hok.trans i2, ?_⟩
    intro s hs hsel
    rcases List.mem_cons.mp hs with rfl | hs
    · exact i2.keeps _ _ (h2 hsel)
    · exact i3 s hs hsel

theorem Covered.afterCommit {c : Cfg} {σ : St} (h : Covered c σ) (hc : CalmFrom c σ) (order : List Nat)
    (hord : ∀ s, s < c.nSubs → s ∈ order) :
    Covered c (afterCommit c σ order) ∧ Grows σ (afterCommit c σ order) ∧ (NoCtx σ → NoCtx (afterCommit c σ order)) := by
  unfold Nuts.C14.afterCommit
  split
  · exact ⟨h, Grows.refl _, fun h => h⟩
  · next ev rest hp =>
    have hc' : CalmFrom c { σ with pending := rest } := hc
    obtain ⟨i1, i2, i3⟩ := notifyAll_ok ev order hc'
    generalize notifyAll c ev order { σ with pending := rest } = p at i1 i2 i3
    obtain ⟨σ', b⟩ := p
    simp only at i1; subst i1
    simp only
    refine ⟨?_, i2.grows, i2.noCtx⟩
    intro s r hs hr
    by_cases hk : r = ev.1 ∧ c.sel s ev.1 ev.2 = true
    · rw [hk.1]; exact i3 s (hord s hs) hk.2
    · apply i2.keeps
      refine CovAt.keep (h s r hs hr) (fun j' hj' _ => ⟨j', hj', Nat.le_refl _⟩) (fun t ht _ _ => ht) ?_
      intro ty hm hsel
      rw [hp] at hm
      rcases List.mem_cons.mp hm with he | hm
      · exfalso; apply hk
        rw [← he]; exact ⟨rfl, hsel⟩
      · exact hm


theorem fire_err_cov {c : Cfg} {σ σL : St} {t : Task} {s r : Nat} {j j1 : Job} (h : Covered c σ)
    (htk : t.sub = s ∧ t.ref = r) (hj : σ.shelf s r = some j) (h1 : j1.retries = j.retries + 1)
    (hLs : σL.shelf = σ.shelf) (hLr : σL.running = σ.running.erase t) (hLp : σL.pending = σ.pending) :
    Covered c (if t.left ≤ 1 then setJob σL s r (some j1)
      else { setJob σL s r (some j1) with
        running := (setJob σL s r (some j1)).running ++ [{ t with left := t.left - 1, n := t.n + 1 }] }) := by
  intro s' r' hs hr
  by_cases hk : s' = s ∧ r' = r
  · obtain ⟨rfl, rfl⟩ := hk
    have hcov := h s' r' hs hr j hj
    split
    · next hle =>
      intro j' hj' hlt
      simp at hj'; subst hj'
      rcases hcov (by omega) with ⟨w, hw, a, b, d, f⟩ | ⟨ty, hp, hsel⟩
      · by_cases hwt : w = t
        · subst hwt; omega
        · exact .inl ⟨w, by simp only [setJob_running, hLr]; exact (List.mem_erase_of_ne hwt).mpr hw, a, b, d, by omega⟩
      · exact .inr ⟨ty, by simp only [setJob_pending, hLp]; exact hp, hsel⟩
    · next hle =>
      intro j' hj' hlt
      simp at hj'; subst hj'
      rcases hcov (by omega) with ⟨w, hw, a, b, d, f⟩ | ⟨ty, hp, hsel⟩
      · by_cases hwt : w = t
        · subst hwt
          exact .inl ⟨{ w with left := w.left - 1, n := w.n + 1 }, by simp, a, b, by simp only; omega, by simp only; omega⟩
        · exact .inl ⟨w, by simp only [setJob_running, hLr, List.mem_append]; exact .inl ((List.mem_erase_of_ne hwt).mpr hw), a, b, d, by omega⟩
      · exact .inr ⟨ty, by simp only [setJob_pending, hLp]; exact hp, hsel⟩
  · have keep : ∀ (run' : List Task), (∀ t', t' ∈ σ.running.erase t → t' ∈ run') →
        CovAt c (setJob σL s r (some j1)).shelf run' σ.pending s' r' := by
      intro run' hr'
      refine CovAt.keep (h s' r' hs hr) ?_ ?_ (fun ty hp _ => hp)
      · intro j' hj' _
        simp only [setJob_shelf, hLs, if_neg hk] at hj'
        exact ⟨j', hj', Nat.le_refl _⟩
      · intro t' ht' a b
        have : t' ≠ t := by
          intro e; subst e; exact hk ⟨a.symm.trans htk.1 |>.symm ▸ rfl, by rw [← b, htk.2]⟩
        exact hr' t' ((List.mem_erase_of_ne this).mpr ht')
    split
    · unfold Cov; simp only [setJob_running, setJob_pending, hLr, hLp]
      exact keep _ (fun t' ht' => ht')
    · unfold Cov; simp only [setJob_running, setJob_pending, hLr, hLp]
      exact keep _ (fun t' ht' => by simp; exact .inl ht')

theorem Covered.fire {c : Cfg} {σ : St} (h : Covered c σ) (hc : CalmFrom c σ) (s r : Nat) :
    Covered c (fire c σ s r) ∧ Grows σ (fire c σ s r) ∧ (NoCtx σ → NoCtx (fire c σ s r)) := by
  unfold Nuts.C14.fire
  split
  · exact ⟨h, Grows.refl _, fun h => h⟩
  · next t ht =>
    simp only
    have htm : t ∈ σ.running := List.mem_of_find?_eq_some ht
    have htk : t.sub = s ∧ t.ref = r := by
      have := List.find?_some ht
      simpa [Task.isFor] using this
    have hc0 : CalmFrom c { σ with running := σ.running.erase t } := hc
    -- coverage in the state without the fired task, for keys other than (s, r) and for witnesses other than t
    have hg := notifyNow_grows c { σ with running := σ.running.erase t } s r
    have hn := notifyNow_not_crashed hc0 s r
    have hx := notifyNow_noCtx hc0 s r
    have hrun := notifyNow_running c { σ with running := σ.running.erase t } s r
    have hpen := notifyNow_pending c { σ with running := σ.running.erase t } s r
    cases hj : σ.shelf s r with
    | none =>
      have e := notifyNow_none (c := c) (σ := { σ with running := σ.running.erase t }) (s := s) (r := r) hj
      rw [e]; simp only
      refine ⟨?_, Grows.refl _, fun h => h⟩
      intro s' r' hs hr
      by_cases hk : s' = s ∧ r' = r
      · obtain ⟨rfl, rfl⟩ := hk
        intro j hj'; simp only at hj'; rw [hj] at hj'; cases hj'
      · refine CovAt.keep (h s' r' hs hr) (fun j' hj' _ => ⟨j', hj', Nat.le_refl _⟩) ?_ (fun ty hp _ => hp)
        intro t' ht' h1 h2
        have : t' ≠ t := by
          intro e; subst e; exact hk ⟨h1.symm.trans htk.1 |>.symm ▸ rfl, by rw [← h2, htk.2]⟩
        exact (List.mem_erase_of_ne this).mpr ht'
    | some j =>
      have e := notifyNow_some (c := c) (σ := { σ with running := σ.running.erase t }) (s := s) (r := r) hj
      have hcalm := hc0.now s r
      rw [e] at hg hn hx ⊢
      generalize c.beh s r (attemptNo { σ with running := σ.running.erase t } s r) = o at hcalm hg hn hx ⊢
      -- common part: keys other than (s, r)
      have hother : ∀ (fin : St), fin.shelf = (setJob (log { σ with running := σ.running.erase t }
            (Entry.call s r j.type j.retries o)) s r (jobAfter c j o)).shelf →
          (∀ t', t' ∈ σ.running.erase t → t' ∈ fin.running) → fin.pending = σ.pending →
          ∀ s' r', s' < c.nSubs → r' < c.nRefs → ¬(s' = s ∧ r' = r) → Cov c fin s' r' := by
        intro fin hsh hr' hp' s' r' hs hr hk
        refine CovAt.keep (h s' r' hs hr) ?_ ?_ (fun ty hp _ => by rw [hp']; exact hp)
        · intro j' hj' _
          rw [hsh] at hj'
          simp only [setJob_shelf, log_shelf, if_neg hk] at hj'
          exact ⟨j', hj', Nat.le_refl _⟩
        · intro t' ht' h1 h2
          have : t' ≠ t := by
            intro e; subst e; exact hk ⟨h1.symm.trans htk.1 |>.symm ▸ rfl, by rw [← h2, htk.2]⟩
          exact hr' t' ((List.mem_erase_of_ne this).mpr ht')
      cases o <;> simp [Outcome.calm] at hcalm <;> simp only [resAfter, jobAfter, logAfter] at hg hx hother ⊢
      · -- done
        refine ⟨?_, hg, hx⟩
        intro s' r' hs hr
        by_cases hk : s' = s ∧ r' = r
        · obtain ⟨rfl, rfl⟩ := hk
          intro j' hj'; simp at hj'
        · exact hother _ rfl (fun t' ht' => ht') rfl s' r' hs hr hk
      · -- notDone
        exact ⟨by
          have := fire_err_cov (c := c) (σ := σ) (t := t) (s := s) (r := r) (j := j)
            (j1 := { j with retries := j.retries + 1, err := .incomplete })
            (σL := log { σ with running := σ.running.erase t } (Entry.call s r j.type j.retries Outcome.notDone)) h htk hj rfl rfl rfl rfl
          split
          · next hle => simpa [hle] using this
          · next hle => simpa [hle] using this,
          by split
             · exact hg
             · exact hg.trans ⟨[], rfl⟩,
          by intro hh; split
             · exact hx hh
             · exact hx hh⟩
      · -- notDoneFin: Finished ran during the call
        by_cases hwb : c.writeBackSkipsGone = true
        · simp only [hwb, if_true] at hg hx hother ⊢
          refine ⟨?_, ?_, ?_⟩
          rotate_left
          · split
            · exact hg
            · exact hg.trans ⟨[], rfl⟩
          · intro hh; split
            · exact hx hh
            · exact hx hh
          intro s' r' hs hr
          by_cases hk : s' = s ∧ r' = r
          · obtain ⟨rfl, rfl⟩ := hk
            split
            · intro j' hj'; simp at hj'
            · intro j' hj'; simp at hj'
          · split
            · exact hother _ rfl (fun t' ht' => ht') rfl s' r' hs hr hk
            · refine hother _ ?_ ?_ ?_ s' r' hs hr hk
              · rfl
              · intro t' ht'; exact List.mem_append_left _ ht'
              · rfl
        · simp only [hwb, Bool.false_eq_true, if_false] at hg hx hother ⊢
          exact ⟨by
            have := fire_err_cov (c := c) (σ := σ) (t := t) (s := s) (r := r) (j := j)
              (j1 := { j with retries := j.retries + 1, err := .incomplete })
              (σL := log (log { σ with running := σ.running.erase t } (Entry.call s r j.type j.retries Outcome.notDoneFin)) (Entry.fin s r)) h htk hj rfl rfl rfl rfl
            split
            · next hle => simpa [hle] using this
            · next hle => simpa [hle] using this,
            by split
               · exact hg
               · exact hg.trans ⟨[], rfl⟩,
            by intro hh; split
               · exact hx hh
               · exact hx hh⟩
      · -- fail
        exact ⟨by
          have := fire_err_cov (c := c) (σ := σ) (t := t) (s := s) (r := r) (j := j)
            (j1 := { j with retries := j.retries + 1, err := .generic })
            (σL := log { σ with running := σ.running.erase t } (Entry.call s r j.type j.retries Outcome.fail)) h htk hj rfl rfl rfl rfl
          split
          · next hle => simpa [hle] using this
          · next hle => simpa [hle] using this,
          by split
             · exact hg
             · exact hg.trans ⟨[], rfl⟩,
          by intro hh; split
             · exact hx hh
             · exact hx hh⟩
      · -- fatal
        refine ⟨?_, hg, hx⟩
        intro s' r' hs hr
        by_cases hk : s' = s ∧ r' = r
        · obtain ⟨rfl, rfl⟩ := hk
          intro j' hj' hlt; simp at hj'; subst hj'; simp at hlt; omega
        · exact hother _ rfl (fun t' ht' => ht') rfl s' r' hs hr hk


theorem Covered.finishedExt {c : Cfg} {σ : St} (h : Covered c σ) (s r : Nat) (f : Bool) :
    Covered c (Nuts.C14.finishedExt σ s r f) ∧ Grows σ (Nuts.C14.finishedExt σ s r f) ∧
    (NoCtx σ → NoCtx (Nuts.C14.finishedExt σ s r f)) := by
  unfold Nuts.C14.finishedExt
  split
  · exact ⟨h, Grows.refl _, fun h => h⟩
  · split
    · exact ⟨h, Grows.refl _, fun h => h⟩
    · refine ⟨?_, ⟨[_], rfl⟩, ?_⟩
      · intro s' r' hs hr
        refine CovAt.keep (h s' r' hs hr) ?_ (fun t ht _ _ => ht) (fun ty hp _ => hp)
        intro j' hj' _
        simp only [log_shelf, setJob_shelf] at hj'
        split at hj'
        · cases hj'
        · exact ⟨j', hj', Nat.le_refl _⟩
      · intro hn s' r' j' hj'
        simp only [log_shelf, setJob_shelf] at hj'
        split at hj'
        · cases hj'
        · exact hn _ _ _ hj'

/-- saving an event whose notification is pending keeps everything covered -/
theorem covAt_save {c : Cfg} {σa : St} {run : List Task} {pen : List (Nat × EvType)} (ev : Nat × EvType) (hev : ev ∈ pen)
    {s r : Nat} (h : CovAt c σa.shelf run pen s r) : CovAt c (saveEvent c σa ev).shelf run pen s r := by
  intro j' hj' hlt
  rw [(saveEvent_spec c σa ev).shelf] at hj'
  split at hj'
  · next hcond =>
    obtain ⟨_, rfl, hsel, _⟩ := hcond
    exact .inr ⟨ev.2, hev, hsel⟩
  · exact h j' hj' hlt

theorem saveEvent_running (c : Cfg) (σ : St) (ev : Nat × EvType) : (saveEvent c σ ev).running = σ.running := (saveEvent_spec c σ ev).running
theorem saveEvent_pending (c : Cfg) (σ : St) (ev : Nat × EvType) : (saveEvent c σ ev).pending = σ.pending := (saveEvent_spec c σ ev).pending

theorem noCtx_save {c : Cfg} {σa : St} (ev : Nat × EvType) (h : NoCtx σa) : NoCtx (saveEvent c σa ev) := by
  intro s r j hj
  rw [(saveEvent_spec c σa ev).shelf] at hj
  split at hj
  · injection hj with hj; subst hj; simp [newJob]
  · exact h _ _ _ hj

theorem Covered.addTx {c : Cfg} {σ : St} (h : Covered c σ) (a : AddArgs) :
    Covered c (addTx c σ a).1 ∧ Grows σ (addTx c σ a).1 ∧ (NoCtx σ → NoCtx (addTx c σ a).1) := by
  unfold Nuts.C14.addTx
  split; · exact ⟨h, Grows.refl _, fun h => h⟩
  split; · exact ⟨h, Grows.refl _, fun h => h⟩
  split; · exact ⟨h, Grows.refl _, fun h => h⟩
  split; · exact ⟨h, Grows.refl _, fun h => h⟩
  split; · exact ⟨h, Grows.refl _, fun h => h⟩
  split; · exact ⟨h, Grows.refl _, fun h => h⟩
  split; · exact ⟨h, Grows.refl _, fun h => h⟩
  split; · exact ⟨h, Grows.refl _, fun h => h⟩
  simp only
  split
  · next hp =>
    refine ⟨?_, ⟨[], by simp [saveEvent_ledger]⟩, ?_⟩
    · intro s r hs hr
      unfold Cov
      simp only [saveEvent_running, saveEvent_pending]
      apply covAt_save (a.ref, EvType.tx) (by simp)
      simp only
      apply covAt_save (a.ref, EvType.payload) (by simp)
      exact CovAt.keep (h s r hs hr) (fun j' hj' _ => ⟨j', hj', Nat.le_refl _⟩) (fun t ht _ _ => ht)
        (fun ty hp _ => by simp [hp])
    · intro hn
      exact noCtx_save _ (noCtx_save _ hn)
  · next hp =>
    refine ⟨?_, ⟨[], by simp [saveEvent_ledger]⟩, ?_⟩
    · intro s r hs hr
      unfold Cov
      simp only [saveEvent_running, saveEvent_pending]
      apply covAt_save (a.ref, EvType.tx) (by simp)
      exact CovAt.keep (h s r hs hr) (fun j' hj' _ => ⟨j', hj', Nat.le_refl _⟩) (fun t ht _ _ => ht)
        (fun ty hp _ => by simp [hp])
    · intro hn
      exact noCtx_save _ hn

theorem Covered.writePayload {c : Cfg} {σ : St} (h : Covered c σ) (r : Nat) (cf : Bool) :
    Covered c (writePayload c σ r cf).1 ∧ Grows σ (writePayload c σ r cf).1 ∧ (NoCtx σ → NoCtx (writePayload c σ r cf).1) := by
  unfold Nuts.C14.writePayload
  split; · exact ⟨h, Grows.refl _, fun h => h⟩
  split; · exact ⟨h, Grows.refl _, fun h => h⟩
  split
  · split
    · exact ⟨h, Grows.refl _, fun h => h⟩
    · refine ⟨?_, Grows.refl _, fun h => h⟩
      intro s r' hs hr
      exact CovAt.keep (h s r' hs hr) (fun j' hj' _ => ⟨j', hj', Nat.le_refl _⟩) (fun t ht _ _ => ht)
        (fun ty hp _ => by simp [hp])
  simp only
  refine ⟨?_, ⟨[], by simp [saveEvent_ledger]⟩, ?_⟩
  · intro s r' hs hr
    unfold Cov
    simp only [saveEvent_running, saveEvent_pending]
    apply covAt_save (r, EvType.payload) (by simp)
    exact CovAt.keep (h s r' hs hr) (fun j' hj' _ => ⟨j', hj', Nat.le_refl _⟩) (fun t ht _ _ => ht)
      (fun ty hp _ => by simp [hp])
  · intro hn
    exact noCtx_save _ hn


def accNext (c : Cfg) (o : Outcome) (acc : List (Nat × Nat)) (r ret : Nat) : List (Nat × Nat) :=
  if o = .done then acc else if ret < c.maxRetries then acc ++ [(r, ret)] else acc

theorem runCalls_cons_some {c : Cfg} {s : Nat} {σ : St} {r0 ret0 : Nat} {rest acc : List (Nat × Nat)} {j : Job}
    (hj : σ.shelf s r0 = some j) (hcalm : (c.beh s r0 (attemptNo σ s r0)).calm = true) :
    runCalls c s ((r0, ret0) :: rest) σ acc =
      runCalls c s rest (setJob (logAfter σ s r0 j (c.beh s r0 (attemptNo σ s r0))) s r0
          (jobAfter c j (c.beh s r0 (attemptNo σ s r0))))
        (accNext c (c.beh s r0 (attemptNo σ s r0)) acc r0 ret0) := by
  conv => lhs; unfold runCalls
  rw [notifyNow_some hj]
  generalize c.beh s r0 (attemptNo σ s r0) = o at hcalm
  cases o <;> simp [Outcome.calm] at hcalm <;> simp [resAfter, accNext]

structure RunCallsOk (c : Cfg) (s : Nat) (l : List (Nat × Nat)) (σ : St) (acc : List (Nat × Nat))
    (res : St × List (Nat × Nat) × Bool) : Prop where
  notCrashed : res.2.2 = false
  ok : NotifyOk c σ res.1
  running : res.1.running = σ.running
  accSub : ∀ p, p ∈ acc → p ∈ res.2.1
  frame : ∀ r, (∀ p, p ∈ l → p.1 ≠ r) → res.1.shelf s r = σ.shelf s r
  main : ∀ p, p ∈ l → ∀ j', res.1.shelf s p.1 = some j' → j'.retries < c.maxRetries →
    1 ≤ j'.retries ∧ (p.1, j'.retries - 1) ∈ res.2.1

theorem runCalls_ok {c : Cfg} (s : Nat) (l : List (Nat × Nat)) : ∀ (σ : St) (acc : List (Nat × Nat)),
    CalmFrom c σ → l.Pairwise (fun a b => a.1 < b.1) →
    (∀ p, p ∈ l → ∃ j, σ.shelf s p.1 = some j ∧ j.retries = p.2) →
    RunCallsOk c s l σ acc (runCalls c s l σ acc) := by
  induction l with
  | nil =>
    intro σ acc _ _ _
    exact ⟨rfl, ⟨Grows.refl _, fun _ _ h => h, rfl, fun h => h⟩, rfl, fun p hp => hp, fun r _ => rfl, fun p hp => by cases hp⟩
  | cons p0 rest ih =>
    intro σ acc hc hpw hpre
    obtain ⟨r0, ret0⟩ := p0
    obtain ⟨j, hj, hret⟩ := hpre (r0, ret0) List.mem_cons_self
    simp only at hj hret
    have hcalm := hc.now s r0
    rw [runCalls_cons_some hj hcalm]
    have hpw' := List.pairwise_cons.mp hpw
    -- the state after the first call
    have hσ1 : (notifyNow c σ s r0).1 = setJob (logAfter σ s r0 j (c.beh s r0 (attemptNo σ s r0))) s r0
          (jobAfter c j (c.beh s r0 (attemptNo σ s r0))) := by rw [notifyNow_some hj]
    have ok1 : NotifyOk c σ (notifyNow c σ s r0).1 :=
      ⟨notifyNow_grows c σ s r0, fun s' r' => notifyNow_keeps hc s r0 s' r', notifyNow_pending c σ s r0, notifyNow_noCtx hc s r0⟩
    rw [hσ1] at ok1
    generalize hoe : c.beh s r0 (attemptNo σ s r0) = o at hcalm ok1 ⊢
    generalize hσe : setJob (logAfter σ s r0 j o) s r0 (jobAfter c j o) = σ1 at ok1 ⊢
    have hsh1 : ∀ r, r ≠ r0 → σ1.shelf s r = σ.shelf s r := by
      intro r hr; rw [← hσe]; simp [hr]
    have hsh0 : σ1.shelf s r0 = jobAfter c j o := by rw [← hσe]; simp
    have hrun1 : σ1.running = σ.running := by rw [← hσe]; simp
    have hne : ∀ p, p ∈ rest → p.1 ≠ r0 := fun p hp => by have := hpw'.1 p hp; simp only at this; omega
    have hI := ih σ1 (accNext c o acc r0 ret0) (hc.mono ok1.grows) hpw'.2 (by
      intro p hp
      obtain ⟨j', hj', hr'⟩ := hpre p (List.mem_cons_of_mem _ hp)
      exact ⟨j', by rw [hsh1 _ (hne p hp)]; exact hj', hr'⟩)
    generalize runCalls c s rest σ1 (accNext c o acc r0 ret0) = res at hI
    obtain ⟨h1, h2, h3, h4, h5, h6⟩ := hI
    have haccsub : ∀ p, p ∈ acc → p ∈ accNext c o acc r0 ret0 := by
      intro p hp; unfold accNext; split
      · exact hp
      · split
        · simp [hp]
        · exact hp
    refine ⟨h1, ok1.trans h2, h3.trans hrun1, fun p hp => h4 p (haccsub p hp), ?_, ?_⟩
    · intro r hr
      have hr0 : r ≠ r0 := fun e => hr (r0, ret0) List.mem_cons_self e.symm
      rw [h5 r (fun p hp => hr p (List.mem_cons_of_mem _ hp)), hsh1 r hr0]
    · intro p hp j' hj' hlt
      rcases List.mem_cons.mp hp with rfl | hp
      · simp only at hj' ⊢
        rw [h5 r0 hne, hsh0] at hj'
        have := jobAfter_calm_retries hcalm hj' hlt
        refine ⟨by omega, h4 _ ?_⟩
        have hnd : o ≠ .done := by intro e; subst e; simp [jobAfter] at hj'
        unfold accNext
        rw [if_neg hnd, if_pos (by omega)]
        have : j'.retries - 1 = ret0 := by omega
        rw [this]; simp
      · exact h6 p hp j' hj' hlt


theorem spawnAll_spec (c : Cfg) (s : Nat) (failed : List (Nat × Nat)) (σ : St) :
    (∀ t, t ∈ σ.running → t ∈ (spawnAll c s failed σ).running) ∧
    (∀ p, p ∈ failed → p.2 + 1 < c.maxRetries →
      ∃ t, t ∈ (spawnAll c s failed σ).running ∧ t.sub = s ∧ t.ref = p.1 ∧ t.left = c.maxRetries - (p.2 + 1)) := by
  unfold spawnAll
  induction failed generalizing σ with
  | nil => exact ⟨fun t ht => ht, fun p hp => by cases hp⟩
  | cons p0 rest ih =>
    simp only [List.foldl_cons]
    obtain ⟨i1, i2⟩ := ih (spawn c σ s p0.1 p0.2)
    refine ⟨fun t ht => i1 t (spawn_running_sub c σ s _ _ t ht), ?_⟩
    intro p hp hlt
    rcases List.mem_cons.mp hp with rfl | hp
    · obtain ⟨t, ht, a, b, d⟩ := spawn_mem (c := c) (σ := σ) (s := s) (r := p.1) (k := p.2) hlt
      exact ⟨t, i1 t ht, a, b, d⟩
    · exact i2 p hp hlt

theorem spawnAll_pending (c : Cfg) (s : Nat) (failed : List (Nat × Nat)) (σ : St) : (spawnAll c s failed σ).pending = σ.pending := by
  unfold spawnAll
  induction failed generalizing σ with
  | nil => rfl
  | cons p rest ih => simp only [List.foldl_cons]; rw [ih, spawn_pending]

theorem snapshot_pairwise (c : Cfg) (σ : St) (s : Nat) : (runSnapshot c σ s).Pairwise (fun a b => a.1 < b.1) := by
  unfold runSnapshot
  refine List.Pairwise.filterMap _ ?_ List.pairwise_lt_range
  intro a a' hlt b hb b' hb'
  have e1 : b.1 = a := by
    cases h : σ.shelf s a with
    | none => simp [h] at hb
    | some j => simp only [h] at hb; split at hb <;> simp at hb; rw [← hb]
  have e2 : b'.1 = a' := by
    cases h : σ.shelf s a' with
    | none => simp [h] at hb'
    | some j => simp only [h] at hb'; split at hb' <;> simp at hb'; rw [← hb']
  rw [e1, e2]; exact hlt

theorem snapshot_mem {c : Cfg} {σ : St} {s : Nat} {p : Nat × Nat} (h : p ∈ runSnapshot c σ s) :
    ∃ j, σ.shelf s p.1 = some j ∧ j.retries = p.2 := by
  unfold runSnapshot at h
  obtain ⟨a, _, ha⟩ := List.mem_filterMap.mp h
  cases hj : σ.shelf s a with
  | none => simp [hj] at ha
  | some j =>
    simp only [hj] at ha
    split at ha
    · cases ha
    · injection ha with ha; subst ha; exact ⟨j, hj, rfl⟩

theorem mem_snapshot {c : Cfg} {σ : St} {s r : Nat} {j : Job} (hr : r < c.nRefs) (hj : σ.shelf s r = some j) (hctx : j.err ≠ .ctx) :
    (r, j.retries) ∈ runSnapshot c σ s := by
  unfold runSnapshot
  refine List.mem_filterMap.mpr ⟨r, List.mem_range.mpr hr, ?_⟩
  simp [hj, hctx]

/-- a calm `Run` of one notifier: everything stays covered; every job of this notifier (not parked) gets covered -/
theorem runSub_ok {c : Cfg} {σ : St} (hc : CalmFrom c σ) (s : Nat) :
    (runSub c σ s).2 = false ∧ NotifyOk c σ (runSub c σ s).1 ∧
    (NoCtx σ → ∀ r, r < c.nRefs → Cov c (runSub c σ s).1 s r) := by
  unfold runSub
  have h := runCalls_ok (c := c) s (runSnapshot c σ s) σ [] hc (snapshot_pairwise c σ s) (fun p hp => snapshot_mem hp)
  generalize runCalls c s (runSnapshot c σ s) σ [] = res at h
  obtain ⟨σ1, failed, b⟩ := res
  obtain ⟨h1, h2, h3, _, h5, h6⟩ := h
  simp only at h1 h2 h3 h5 h6; subst h1
  simp only
  obtain ⟨sp1, sp2⟩ := spawnAll_spec c s failed σ1
  have hsame := spawnAll_same c s failed σ1
  have hpen := spawnAll_pending c s failed σ1
  have ok2 : NotifyOk c σ1 (spawnAll c s failed σ1) :=
    ⟨⟨[], by rw [hsame.ledger]; rfl⟩,
     fun s' r' hcov => by
       unfold Cov; rw [hsame.shelf, hpen]
       exact CovAt.keep hcov (fun j' hj' _ => ⟨j', hj', Nat.le_refl _⟩) (fun t ht _ _ => sp1 t ht) (fun ty hp _ => hp),
     hpen,
     fun hn => by unfold NoCtx; rw [hsame.shelf]; exact hn⟩
  refine ⟨trivial, h2.trans ok2, ?_⟩
  intro hn r hr j' hj' hlt
  rw [hsame.shelf] at hj'
  -- was there a job for r when Run took its snapshot?
  cases hj0 : σ.shelf s r with
  | none =>
    have : σ1.shelf s r = σ.shelf s r := h5 r (fun p hp e => by
      obtain ⟨j, hj, _⟩ := snapshot_mem hp; rw [e, hj0] at hj; cases hj)
    rw [this, hj0] at hj'; cases hj'
  | some j0 =>
    have hm := mem_snapshot hr hj0 (hn s r j0 hj0)
    obtain ⟨g1, g2⟩ := h6 _ hm j' hj' hlt
    simp only at g2
    obtain ⟨t, ht, a, b, d⟩ := sp2 _ g2 (by simp only; omega)
    simp only at b d
    exact .inl ⟨t, ht, a, b, by omega, by omega⟩

theorem runAll_ok {c : Cfg} (order : List Nat) {σ : St} (hc : CalmFrom c σ) :
    (runAll c order σ).2 = false ∧ NotifyOk c σ (runAll c order σ).1 ∧
    (NoCtx σ → ∀ s, s ∈ order → ∀ r, r < c.nRefs → Cov c (runAll c order σ).1 s r) := by
  induction order generalizing σ with
  | nil => exact ⟨rfl, ⟨Grows.refl _, fun _ _ h => h, rfl, fun h => h⟩, fun _ s hs => by cases hs⟩
  | cons s0 rest ih =>
    unfold runAll
    have h := runSub_ok hc s0
    generalize runSub c σ s0 = p at h
    obtain ⟨σ', b⟩ := p
    obtain ⟨h1, h2, h3⟩ := h
    simp only at h1; subst h1
    simp only
    obtain ⟨i1, i2, i3⟩ := ih (hc.mono h2.grows)
    refine ⟨i1, h2.trans i2, ?_⟩
    intro hn s hs r hr
    rcases List.mem_cons.mp hs with rfl | hs
    · exact i2.keeps _ _ (h3 hn r hr)
    · exact i3 (h2.noCtx hn) s hs r hr

theorem restart_ok {c : Cfg} {σ : St} (hc : CalmFrom c σ) (order : List Nat) :
    NotifyOk c σ (restart c σ order) ∧
    (NoCtx σ → ∀ s, s ∈ order → ∀ r, r < c.nRefs → Cov c (restart c σ order) s r) := by
  unfold Nuts.C14.restart
  have h := runAll_ok order hc
  generalize runAll c order σ = p at h
  obtain ⟨σ', b⟩ := p
  obtain ⟨h1, h2, h3⟩ := h
  simp only at h1; subst h1
  exact ⟨h2, h3⟩

/-- ops of a calm suffix: no stop; AfterCommit reaches every registered notifier -/
def CalmOp (c : Cfg) : Op → Prop
  | .afterCommit order => ∀ s, s < c.nSubs → s ∈ order
  | .crash => False
  | _ => True

theorem Covered.step {c : Cfg} {σ : St} (h : Covered c σ) (hc : CalmFrom c σ) (op : Op) (hop : CalmOp c op) :
    Covered c (step c σ op) ∧ Grows σ (step c σ op) ∧ (NoCtx σ → NoCtx (step c σ op)) := by
  cases op with
  | add a => exact h.addTx a
  | afterCommit order => exact h.afterCommit hc order hop
  | writePayload r cf => exact h.writePayload r cf
  | finishedExt s r f => exact h.finishedExt s r f
  | fire s r => exact h.fire hc s r
  | crash => exact absurd hop id
  | restart order =>
    obtain ⟨h1, _⟩ := restart_ok hc order
    exact ⟨fun s r hs hr => h1.keeps s r (h s r hs hr), h1.grows, h1.noCtx⟩

theorem Covered.run {c : Cfg} {σ : St} (h : Covered c σ) (hc : CalmFrom c σ) (ops : List Op) (hops : ∀ op, op ∈ ops → CalmOp c op) :
    Covered c (run c σ ops) := by
  induction ops generalizing σ with
  | nil => exact h
  | cons op rest ih =>
    obtain ⟨h1, h2, _⟩ := h.step hc op (hops op List.mem_cons_self)
    exact ih h1 (hc.mono h2) (fun o ho => hops o (List.mem_cons_of_mem _ ho))

/-- at rest (no retry loop, no pending notification) a covered state only holds jobs that exhausted the budget -/
theorem Covered.quiescent {c : Cfg} {σ : St} (h : Covered c σ) (hr : σ.running = []) (hp : σ.pending = [])
    (s r : Nat) (j : Job) (hs : s < c.nSubs) (hrr : r < c.nRefs) (hj : σ.shelf s r = some j) : c.maxRetries ≤ j.retries := by
  cases Nat.lt_or_ge j.retries c.maxRetries with
  | inr h' => exact h'
  | inl hlt =>
    rcases h s r hs hrr j hj hlt with ⟨t, ht, _⟩ | ⟨ty, hm, _⟩
    · rw [hr] at ht; cases ht
    · rw [hp] at hm; cases hm


/-! ## Run re-delivers every job on the shelf (no assumption on the receivers) -/

def hasCrash (l : List Entry) : Prop := ∃ s r ty k, Entry.call s r ty k .crash ∈ l

def deliveredIn (s r : Nat) (l : List Entry) : Prop := ∃ ty k o, o ≠ Outcome.crash ∧ Entry.call s r ty k o ∈ l

theorem hasCrash_append_left {a b : List Entry} (h : hasCrash b) : hasCrash (a ++ b) := by
  obtain ⟨s, r, ty, k, hm⟩ := h; exact ⟨s, r, ty, k, List.mem_append_right _ hm⟩
theorem hasCrash_append_right {a b : List Entry} (h : hasCrash a) : hasCrash (a ++ b) := by
  obtain ⟨s, r, ty, k, hm⟩ := h; exact ⟨s, r, ty, k, List.mem_append_left _ hm⟩
theorem deliveredIn_append_left {s r : Nat} {a b : List Entry} (h : deliveredIn s r b) : deliveredIn s r (a ++ b) := by
  obtain ⟨ty, k, o, ho, hm⟩ := h; exact ⟨ty, k, o, ho, List.mem_append_right _ hm⟩
theorem deliveredIn_append_right {s r : Nat} {a b : List Entry} (h : deliveredIn s r a) : deliveredIn s r (a ++ b) := by
  obtain ⟨ty, k, o, ho, hm⟩ := h; exact ⟨ty, k, o, ho, List.mem_append_left _ hm⟩

theorem runCalls_cons_crash {c : Cfg} {s : Nat} {σ : St} {r0 ret0 : Nat} {rest acc : List (Nat × Nat)} {j : Job}
    (hj : σ.shelf s r0 = some j) (ho : c.beh s r0 (attemptNo σ s r0) = .crash) :
    runCalls c s ((r0, ret0) :: rest) σ acc = (log σ (.call s r0 j.type j.retries .crash), acc, true) := by
  conv => lhs; unfold runCalls
  rw [notifyNow_some hj, ho]
  simp only [resAfter, jobAfter, logAfter]
  rw [setJob_self]; simpa [log] using hj

theorem runCalls_cons_go {c : Cfg} {s : Nat} {σ : St} {r0 ret0 : Nat} {rest acc : List (Nat × Nat)} {j : Job}
    (hj : σ.shelf s r0 = some j) (ho : c.beh s r0 (attemptNo σ s r0) ≠ .crash) :
    ∃ acc', runCalls c s ((r0, ret0) :: rest) σ acc =
      runCalls c s rest (setJob (logAfter σ s r0 j (c.beh s r0 (attemptNo σ s r0))) s r0
          (jobAfter c j (c.beh s r0 (attemptNo σ s r0)))) acc' := by
  conv => arg 1; intro acc'; lhs; unfold runCalls
  rw [notifyNow_some hj]
  generalize c.beh s r0 (attemptNo σ s r0) = o at ho
  cases o <;> simp only [resAfter] <;> first | exact ⟨_, rfl⟩ | exact absurd rfl ho

theorem runCalls_cons_none {c : Cfg} {s : Nat} {σ : St} {r0 ret0 : Nat} {rest acc : List (Nat × Nat)}
    (hj : σ.shelf s r0 = none) : runCalls c s ((r0, ret0) :: rest) σ acc = runCalls c s rest σ acc := by
  conv => lhs; unfold runCalls
  rw [notifyNow_none hj]

/-- ledger growth, "stopped ⇒ a crash call was logged", and only shelf `s` is touched -/
theorem runCalls_info {c : Cfg} (s : Nat) (l : List (Nat × Nat)) : ∀ (σ : St) (acc : List (Nat × Nat)),
    ∃ new, (runCalls c s l σ acc).1.ledger = new ++ σ.ledger ∧ ((runCalls c s l σ acc).2.2 = true → hasCrash new) ∧
      (∀ s' r', s' ≠ s → (runCalls c s l σ acc).1.shelf s' r' = σ.shelf s' r') := by
  induction l with
  | nil => intro σ acc; exact ⟨[], rfl, fun h => (by cases h), fun _ _ _ => rfl⟩
  | cons p rest ih =>
    intro σ acc
    obtain ⟨r0, ret0⟩ := p
    cases hj : σ.shelf s r0 with
    | none => rw [runCalls_cons_none hj]; exact ih σ acc
    | some j =>
      by_cases ho : c.beh s r0 (attemptNo σ s r0) = .crash
      · rw [runCalls_cons_crash hj ho]
        exact ⟨[_], rfl, fun _ => ⟨s, r0, j.type, j.retries, by simp⟩, fun _ _ _ => rfl⟩
      · obtain ⟨acc', e⟩ := runCalls_cons_go (ret0 := ret0) (rest := rest) (acc := acc) hj ho
        rw [e]
        obtain ⟨new, h1, h2, h3⟩ := ih (setJob (logAfter σ s r0 j (c.beh s r0 (attemptNo σ s r0))) s r0
          (jobAfter c j (c.beh s r0 (attemptNo σ s r0)))) acc'
        refine ⟨new ++ entriesAfter s r0 j (c.beh s r0 (attemptNo σ s r0)), ?_, fun hb => hasCrash_append_right (h2 hb), ?_⟩
        · rw [h1]; simp
        · intro s' r' hs; rw [h3 s' r' hs]; simp [hs]

theorem runCalls_delivers {c : Cfg} (s r : Nat) (l : List (Nat × Nat)) : ∀ (σ : St) (acc : List (Nat × Nat)) (j : Job),
    (∃ ret, (r, ret) ∈ l) → σ.shelf s r = some j →
    ∃ new, (runCalls c s l σ acc).1.ledger = new ++ σ.ledger ∧ (deliveredIn s r new ∨ hasCrash new) := by
  induction l with
  | nil => intro σ acc j ⟨ret, h⟩; cases h
  | cons p rest ih =>
    intro σ acc j ⟨ret, hm⟩ hj
    obtain ⟨r0, ret0⟩ := p
    by_cases hr : r0 = r
    · subst hr
      by_cases ho : c.beh s r0 (attemptNo σ s r0) = .crash
      · rw [runCalls_cons_crash hj ho]
        exact ⟨[_], rfl, .inr ⟨s, r0, j.type, j.retries, by simp⟩⟩
      · obtain ⟨acc', e⟩ := runCalls_cons_go (ret0 := ret0) (rest := rest) (acc := acc) hj ho
        rw [e]
        obtain ⟨new, h1, _, _⟩ := runCalls_info (c := c) s rest (setJob (logAfter σ s r0 j (c.beh s r0 (attemptNo σ s r0))) s r0
          (jobAfter c j (c.beh s r0 (attemptNo σ s r0)))) acc'
        refine ⟨new ++ entriesAfter s r0 j (c.beh s r0 (attemptNo σ s r0)), by rw [h1]; simp, .inl ?_⟩
        exact ⟨j.type, j.retries, _, ho, List.mem_append_right _ (call_mem_entriesAfter s r0 j _)⟩
    · have hm' : ∃ ret, (r, ret) ∈ rest := by
        rcases List.mem_cons.mp hm with e | hm
        · injection e with e1 _; exact absurd e1.symm hr
        · exact ⟨ret, hm⟩
      cases hj0 : σ.shelf s r0 with
      | none => rw [runCalls_cons_none hj0]; exact ih σ acc j hm' hj
      | some j0 =>
        by_cases ho : c.beh s r0 (attemptNo σ s r0) = .crash
        · rw [runCalls_cons_crash hj0 ho]
          exact ⟨[_], rfl, .inr ⟨s, r0, j0.type, j0.retries, by simp⟩⟩
        · obtain ⟨acc', e⟩ := runCalls_cons_go (ret0 := ret0) (rest := rest) (acc := acc) hj0 ho
          rw [e]
          obtain ⟨new, h1, h2⟩ := ih (setJob (logAfter σ s r0 j0 (c.beh s r0 (attemptNo σ s r0))) s r0
            (jobAfter c j0 (c.beh s r0 (attemptNo σ s r0)))) acc' j hm' (by simp [Ne.symm hr, hj])
          refine ⟨new ++ entriesAfter s r0 j0 (c.beh s r0 (attemptNo σ s r0)), by rw [h1]; simp, ?_⟩
          rcases h2 with h2 | h2
          · exact .inl (deliveredIn_append_right h2)
          · exact .inr (hasCrash_append_right h2)

theorem runSub_info {c : Cfg} (σ : St) (s : Nat) :
    ∃ new, (runSub c σ s).1.ledger = new ++ σ.ledger ∧ ((runSub c σ s).2 = true → hasCrash new) ∧
      (∀ s' r', s' ≠ s → (runSub c σ s).1.shelf s' r' = σ.shelf s' r') := by
  unfold runSub
  obtain ⟨new, h1, h2, h3⟩ := runCalls_info (c := c) s (runSnapshot c σ s) σ []
  generalize runCalls c s (runSnapshot c σ s) σ [] = res at h1 h2 h3
  obtain ⟨σ1, failed, b⟩ := res
  cases b <;> simp only at h1 h2 h3 ⊢
  · have hs := spawnAll_same c s failed σ1
    exact ⟨new, by rw [hs.ledger]; exact h1, fun h => (by cases h), fun s' r' hne => by rw [hs.shelf]; exact h3 s' r' hne⟩
  · exact ⟨new, h1, fun _ => h2 trivial, h3⟩

theorem runSub_delivers {c : Cfg} (σ : St) (s r : Nat) (j : Job) (hr : r < c.nRefs) (hj : σ.shelf s r = some j) (hctx : j.err ≠ .ctx) :
    ∃ new, (runSub c σ s).1.ledger = new ++ σ.ledger ∧ (deliveredIn s r new ∨ hasCrash new) := by
  unfold runSub
  obtain ⟨new, h1, h2⟩ := runCalls_delivers (c := c) s r (runSnapshot c σ s) σ [] j ⟨_, mem_snapshot hr hj hctx⟩ hj
  generalize runCalls c s (runSnapshot c σ s) σ [] = res at h1 h2
  obtain ⟨σ1, failed, b⟩ := res
  cases b <;> simp only at h1 ⊢
  · exact ⟨new, by rw [(spawnAll_same c s failed σ1).ledger]; exact h1, h2⟩
  · exact ⟨new, h1, h2⟩

theorem runAll_info {c : Cfg} (order : List Nat) : ∀ (σ : St), ∃ new, (runAll c order σ).1.ledger = new ++ σ.ledger := by
  intro σ; exact (runAll_dstep c order σ).grows

theorem runAll_delivers {c : Cfg} (s r : Nat) (order : List Nat) : ∀ (σ : St) (j : Job), s ∈ order → r < c.nRefs →
    σ.shelf s r = some j → j.err ≠ .ctx →
    ∃ new, (runAll c order σ).1.ledger = new ++ σ.ledger ∧ (deliveredIn s r new ∨ hasCrash new) := by
  induction order with
  | nil => intro σ j hs; cases hs
  | cons s0 rest ih =>
    intro σ j hs hr hj hctx
    unfold runAll
    by_cases h0 : s0 = s
    · subst h0
      obtain ⟨new1, h1, h2⟩ := runSub_delivers (c := c) σ s0 r j hr hj hctx
      generalize runSub c σ s0 = p at h1
      obtain ⟨σ', b⟩ := p
      cases b <;> simp only at h1 ⊢
      · obtain ⟨new2, g⟩ := runAll_info (c := c) rest σ'
        refine ⟨new2 ++ new1, by rw [g, h1, List.append_assoc], ?_⟩
        rcases h2 with h2 | h2
        · exact .inl (deliveredIn_append_left h2)
        · exact .inr (hasCrash_append_left h2)
      · exact ⟨new1, h1, h2⟩
    · have hs' : s ∈ rest := by
        rcases List.mem_cons.mp hs with e | hs
        · exact absurd e.symm h0
        · exact hs
      obtain ⟨new1, h1, h2, h3⟩ := runSub_info (c := c) σ s0
      generalize runSub c σ s0 = p at h1 h2 h3
      obtain ⟨σ', b⟩ := p
      cases b <;> simp only at h1 h2 h3 ⊢
      · obtain ⟨new2, g1, g2⟩ := ih σ' j hs' hr (by rw [h3 s r (Ne.symm h0)]; exact hj) hctx
        refine ⟨new2 ++ new1, by rw [g1, h1, List.append_assoc], ?_⟩
        rcases g2 with g2 | g2
        · exact .inl (deliveredIn_append_right g2)
        · exact .inr (hasCrash_append_right g2)
      · exact ⟨new1, h1, .inr (h2 trivial)⟩

theorem restart_delivers {c : Cfg} (σ : St) (order : List Nat) (s r : Nat) (j : Job) (hs : s ∈ order) (hr : r < c.nRefs)
    (hj : σ.shelf s r = some j) (hctx : j.err ≠ .ctx) :
    ∃ new, (restart c σ order).ledger = new ++ σ.ledger ∧ (deliveredIn s r new ∨ hasCrash new) := by
  unfold Nuts.C14.restart
  obtain ⟨new, h1, h2⟩ := runAll_delivers (c := c) s r order σ j hs hr hj hctx
  generalize runAll c order σ = p at h1
  obtain ⟨σ', b⟩ := p
  cases b <;> exact ⟨new, h1, h2⟩



/-! ## Run looks at the shelf again for every job of its snapshot -/

theorem entriesAfter_not_call_of_other (s r r0 : Nat) (j : Job) (o : Outcome) (h : r0 ≠ r) :
    ∀ e, e ∈ entriesAfter s r0 j o → e.isCallOf s r = false := by
  intro e he
  cases o <;> simp [entriesAfter] at he <;>
    first
      | (subst he; simp [Entry.isCallOf, h])
      | (rcases he with he | he <;> subst he <;> simp [Entry.isCallOf, h])

/-- whatever snapshot `l` Run took: a job that is no longer on the shelf when the loop runs (its completion was
    recorded in the meantime) is not delivered, and stays gone -/
theorem runCalls_no_call_of_absent {c : Cfg} (s r : Nat) (l : List (Nat × Nat)) : ∀ (σ : St) (acc : List (Nat × Nat)),
    σ.shelf s r = none →
    ∃ new, (runCalls c s l σ acc).1.ledger = new ++ σ.ledger ∧ (∀ e, e ∈ new → e.isCallOf s r = false) ∧
      (runCalls c s l σ acc).1.shelf s r = none := by
  induction l with
  | nil => intro σ acc h; exact ⟨[], rfl, fun e he => (by cases he), h⟩
  | cons p rest ih =>
    intro σ acc h
    obtain ⟨r0, ret0⟩ := p
    cases hj : σ.shelf s r0 with
    | none => rw [runCalls_cons_none hj]; exact ih σ acc h
    | some j =>
      have hne : r0 ≠ r := by intro e; subst e; rw [h] at hj; cases hj
      by_cases ho : c.beh s r0 (attemptNo σ s r0) = .crash
      · rw [runCalls_cons_crash hj ho]
        refine ⟨[_], rfl, ?_, h⟩
        intro e he
        simp only [List.mem_singleton] at he
        subst he; simp [Entry.isCallOf, hne]
      · obtain ⟨acc', e⟩ := runCalls_cons_go (ret0 := ret0) (rest := rest) (acc := acc) hj ho
        rw [e]
        obtain ⟨new, h1, h2, h3⟩ := ih (setJob (logAfter σ s r0 j (c.beh s r0 (attemptNo σ s r0))) s r0
          (jobAfter c j (c.beh s r0 (attemptNo σ s r0)))) acc' (by simp [Ne.symm hne, h])
        refine ⟨new ++ entriesAfter s r0 j (c.beh s r0 (attemptNo σ s r0)), by rw [h1]; simp, ?_, h3⟩
        intro e he
        rcases List.mem_append.mp he with he | he
        · exact h2 e he
        · exact entriesAfter_not_call_of_other s r r0 j _ hne e he

end Nuts.C14
