/-
  C14 — helper definitions and lemmas (invariants of the notifier model). Core Lean only.
-/
import NutsModel.C14.Notifier
namespace Nuts.C14

/-! ## definitions used by the property statements -/

def completedIn (l : List Entry) (s r : Nat) : Bool := l.any (Entry.completes s r)

/-- newest-first ledger: no call of (s, r) is newer than a completion record of (s, r) -/
def okLedger (s r : Nat) : List Entry → Bool
  | [] => true
  | e :: older => (!(e.isCallOf s r) || !(completedIn older s r)) && okLedger s r older

/-- every event the filters of subscriber `s` accept has type `ty` -/
def Typed (c : Cfg) (s : Nat) (ty : EvType) : Prop := ∀ r ty', c.sel s r ty' = true → ty' = ty

/-- the part of the state that survives a stop -/
structure SameDurable (σ σ' : St) : Prop where
  dag : σ'.dag = σ.dag
  payloads : σ'.payloads = σ.payloads
  shelf : σ'.shelf = σ.shelf
  admitted : σ'.admitted = σ.admitted
  ledger : σ'.ledger = σ.ledger

theorem SameDurable.refl (σ : St) : SameDurable σ σ := ⟨rfl, rfl, rfl, rfl, rfl⟩
theorem SameDurable.trans {a b d : St} (h1 : SameDurable a b) (h2 : SameDurable b d) : SameDurable a d :=
  ⟨h2.dag.trans h1.dag, h2.payloads.trans h1.payloads, h2.shelf.trans h1.shelf, h2.admitted.trans h1.admitted, h2.ledger.trans h1.ledger⟩

theorem spawn_same (c : Cfg) (σ : St) (s r k : Nat) : SameDurable σ (spawn c σ s r k) := by
  unfold spawn; split <;> exact ⟨rfl, rfl, rfl, rfl, rfl⟩

theorem crashSt_same (σ : St) : SameDurable σ (crashSt σ) := ⟨rfl, rfl, rfl, rfl, rfl⟩

/-- what one `notifyNow` does to the durable state -/
inductive NowStep (c : Cfg) (s r : Nat) (σ σ' : St) : Prop where
  | skip (h : σ.shelf s r = none) (e : σ' = σ)
  | call (j : Job) (o : Outcome) (nj : Option Job)
      (h : σ.shelf s r = some j)
      (ho : o = c.beh s r (attemptNo σ s r))
      (hdone : nj = none ↔ o = .done)
      (hty : ∀ j', nj = some j' → j'.type = j.type)
      (e : σ' = setJob (log σ (.call s r j.type j.retries o)) s r nj)

theorem setJob_self (σ : St) (s r : Nat) (j : Job) (h : σ.shelf s r = some j) : setJob σ s r (some j) = σ := by
  cases σ; simp only [setJob] at *; congr; funext s' r'; split
  · next hh => rw [hh.1, hh.2, h]
  · rfl

theorem notifyNow_step (c : Cfg) (σ : St) (s r : Nat) : NowStep c s r σ (notifyNow c σ s r).1 := by
  unfold notifyNow
  cases h : σ.shelf s r with
  | none => exact .skip h rfl
  | some j =>
    simp only
    generalize ho : c.beh s r (attemptNo σ s r) = o
    cases o
    · exact .call j .done none h ho.symm (by simp) (by simp) rfl
    · exact .call j .doneFinishFail (some j) h ho.symm (by simp) (by simp) (setJob_self _ s r j (by simpa [log] using h)).symm
    · exact .call j .notDone _ h ho.symm (by simp) (by simp) rfl
    · exact .call j .fail _ h ho.symm (by simp) (by simp) rfl
    · exact .call j .failCtx _ h ho.symm (by simp) (by simp) rfl
    · exact .call j .fatal _ h ho.symm (by simp) (by simp) rfl
    · exact .call j .crash (some j) h ho.symm (by simp) (by simp) (setJob_self _ s r j (by simpa [log] using h)).symm


/-- durable effect of the ops that only deliver: a sequence of `notifyNow`s and volatile changes -/
inductive DStep (c : Cfg) : St → St → Prop where
  | vol {σ σ' : St} : SameDurable σ σ' → DStep c σ σ'
  | now {σ σ' : St} (s r : Nat) : NowStep c s r σ σ' → DStep c σ σ'
  | trans {a b d : St} : DStep c a b → DStep c b d → DStep c a d

theorem DStep.refl (c : Cfg) (σ : St) : DStep c σ σ := .vol (SameDurable.refl σ)

theorem notify_dstep (c : Cfg) (σ : St) (s : Nat) (ev : Nat × EvType) : DStep c σ (notify c σ s ev).1 := by
  unfold notify
  split
  · have h := notifyNow_step c σ s ev.1
    generalize notifyNow c σ s ev.1 = p at h
    obtain ⟨σ', res⟩ := p
    cases res <;> simp only
    · exact .now _ _ h
    · exact .trans (.now _ _ h) (.vol (spawn_same _ _ _ _ _))
    · exact .now _ _ h
    · exact .now _ _ h
  · exact DStep.refl _ _

theorem notifyAll_dstep (c : Cfg) (ev : Nat × EvType) (order : List Nat) (σ : St) :
    DStep c σ (notifyAll c ev order σ).1 := by
  induction order generalizing σ with
  | nil => exact DStep.refl _ _
  | cons s rest ih =>
    unfold notifyAll
    have h := notify_dstep c σ s ev
    generalize notify c σ s ev = p at h
    obtain ⟨σ', b⟩ := p
    cases b <;> simp only
    · exact .trans h (ih σ')
    · exact h

theorem afterCommit_dstep (c : Cfg) (σ : St) (order : List Nat) : DStep c σ (afterCommit c σ order) := by
  unfold afterCommit
  split
  · exact DStep.refl _ _
  · next ev rest hp =>
    have h := notifyAll_dstep c ev order { σ with pending := rest }
    generalize notifyAll c ev order { σ with pending := rest } = p at h
    obtain ⟨σ', b⟩ := p
    have h0 : DStep c σ { σ with pending := rest } := .vol ⟨rfl, rfl, rfl, rfl, rfl⟩
    cases b <;> simp only
    · exact .trans h0 h
    · exact .trans (.trans h0 h) (.vol (crashSt_same _))

theorem runCalls_dstep (c : Cfg) (s : Nat) (l : List (Nat × Nat)) (σ : St) (acc : List (Nat × Nat)) :
    DStep c σ (runCalls c s l σ acc).1 := by
  induction l generalizing σ acc with
  | nil => exact DStep.refl _ _
  | cons p rest ih =>
    obtain ⟨r, ret⟩ := p
    unfold runCalls
    have h := notifyNow_step c σ s r
    generalize notifyNow c σ s r = q at h
    obtain ⟨σ', res⟩ := q
    cases res <;> simp only
    · exact .trans (.now _ _ h) (ih _ _)
    · exact .trans (.now _ _ h) (ih _ _)
    · exact .trans (.now _ _ h) (ih _ _)
    · exact .now _ _ h

theorem spawnAll_same (c : Cfg) (s : Nat) (failed : List (Nat × Nat)) (σ : St) : SameDurable σ (spawnAll c s failed σ) := by
  unfold spawnAll
  induction failed generalizing σ with
  | nil => exact SameDurable.refl _
  | cons p rest ih => exact (spawn_same c σ s p.1 p.2).trans (ih _)

theorem runSub_dstep (c : Cfg) (σ : St) (s : Nat) : DStep c σ (runSub c σ s).1 := by
  unfold runSub
  have h := runCalls_dstep c s (runSnapshot c σ s) σ []
  generalize runCalls c s (runSnapshot c σ s) σ [] = q at h
  obtain ⟨σ1, failed, b⟩ := q
  cases b <;> simp only
  · exact .trans h (.vol (spawnAll_same _ _ _ _))
  · exact h

theorem runAll_dstep (c : Cfg) (order : List Nat) (σ : St) : DStep c σ (runAll c order σ).1 := by
  induction order generalizing σ with
  | nil => exact DStep.refl _ _
  | cons s rest ih =>
    unfold runAll
    have h := runSub_dstep c σ s
    generalize runSub c σ s = p at h
    obtain ⟨σ', b⟩ := p
    cases b <;> simp only
    · exact .trans h (ih σ')
    · exact h

theorem restart_dstep (c : Cfg) (σ : St) (order : List Nat) : DStep c σ (restart c σ order) := by
  unfold restart
  have h := runAll_dstep c order σ
  generalize runAll c order σ = p at h
  obtain ⟨σ', b⟩ := p
  cases b <;> simp only
  · exact h
  · exact .trans h (.vol (crashSt_same _))

theorem fire_dstep (c : Cfg) (σ : St) (s r : Nat) : DStep c σ (fire c σ s r) := by
  unfold fire
  split
  · exact DStep.refl _ _
  · next t ht =>
    simp only
    have h0 : DStep c σ { σ with running := σ.running.erase t } := .vol ⟨rfl, rfl, rfl, rfl, rfl⟩
    have h := notifyNow_step c { σ with running := σ.running.erase t } s r
    generalize notifyNow c { σ with running := σ.running.erase t } s r = p at h
    obtain ⟨σ', res⟩ := p
    cases res <;> simp only
    · exact .trans h0 (.now _ _ h)
    · split
      · exact .trans h0 (.now _ _ h)
      · exact .trans (.trans h0 (.now _ _ h)) (.vol ⟨rfl, rfl, rfl, rfl, rfl⟩)
    · exact .trans h0 (.now _ _ h)
    · exact .trans (.trans h0 (.now _ _ h)) (.vol (crashSt_same _))


@[simp] theorem setJob_shelf (σ : St) (s r : Nat) (nj : Option Job) (s' r' : Nat) :
    (setJob σ s r nj).shelf s' r' = if s' = s ∧ r' = r then nj else σ.shelf s' r' := rfl
@[simp] theorem setJob_dag (σ : St) (s r : Nat) (nj : Option Job) : (setJob σ s r nj).dag = σ.dag := rfl
@[simp] theorem setJob_payloads (σ : St) (s r : Nat) (nj : Option Job) : (setJob σ s r nj).payloads = σ.payloads := rfl
@[simp] theorem setJob_admitted (σ : St) (s r : Nat) (nj : Option Job) : (setJob σ s r nj).admitted = σ.admitted := rfl
@[simp] theorem setJob_ledger (σ : St) (s r : Nat) (nj : Option Job) : (setJob σ s r nj).ledger = σ.ledger := rfl
@[simp] theorem setJob_running (σ : St) (s r : Nat) (nj : Option Job) : (setJob σ s r nj).running = σ.running := rfl
@[simp] theorem setJob_pending (σ : St) (s r : Nat) (nj : Option Job) : (setJob σ s r nj).pending = σ.pending := rfl
@[simp] theorem log_shelf (σ : St) (e : Entry) : (log σ e).shelf = σ.shelf := rfl
@[simp] theorem log_dag (σ : St) (e : Entry) : (log σ e).dag = σ.dag := rfl
@[simp] theorem log_payloads (σ : St) (e : Entry) : (log σ e).payloads = σ.payloads := rfl
@[simp] theorem log_admitted (σ : St) (e : Entry) : (log σ e).admitted = σ.admitted := rfl
@[simp] theorem log_ledger (σ : St) (e : Entry) : (log σ e).ledger = e :: σ.ledger := rfl
@[simp] theorem log_running (σ : St) (e : Entry) : (log σ e).running = σ.running := rfl
@[simp] theorem log_pending (σ : St) (e : Entry) : (log σ e).pending = σ.pending := rfl

theorem completedIn_cons (e : Entry) (l : List Entry) (s r : Nat) :
    completedIn (e :: l) s r = (e.completes s r || completedIn l s r) := by
  simp [completedIn]

theorem completes_call_iff (s r s' r' : Nat) (ty : EvType) (k : Nat) (o : Outcome) :
    (Entry.call s' r' ty k o).completes s r = true ↔ s' = s ∧ r' = r ∧ o = .done := by
  simp [Entry.completes, and_assoc]

theorem completes_fin_iff (s r s' r' : Nat) :
    (Entry.fin s' r').completes s r = true ↔ s' = s ∧ r' = r := by
  simp [Entry.completes]

theorem completedIn_iff (l : List Entry) (s r : Nat) :
    completedIn l s r = true ↔ (∃ ty k, Entry.call s r ty k .done ∈ l) ∨ Entry.fin s r ∈ l := by
  unfold completedIn
  rw [List.any_eq_true]
  constructor
  · rintro ⟨e, he, hc⟩
    cases e with
    | call s' r' ty k o =>
      rw [completes_call_iff] at hc
      obtain ⟨rfl, rfl, rfl⟩ := hc
      exact .inl ⟨ty, k, he⟩
    | fin s' r' =>
      rw [completes_fin_iff] at hc
      obtain ⟨rfl, rfl⟩ := hc
      exact .inr he
  · rintro (⟨ty, k, he⟩ | he)
    · exact ⟨_, he, by simp [Entry.completes]⟩
    · exact ⟨_, he, by simp [Entry.completes]⟩

structure Inv (c : Cfg) (σ : St) : Prop where
  jobDag : ∀ s r j, σ.shelf s r = some j → r ∈ σ.dag
  jobSel : ∀ s r j, σ.shelf s r = some j → c.sel s r j.type = true
  jobPay : ∀ s r j, σ.shelf s r = some j → j.type = .payload → c.phash r ∈ σ.payloads
  callOk : ∀ s r ty k o, Entry.call s r ty k o ∈ σ.ledger →
    r ∈ σ.dag ∧ c.sel s r ty = true ∧ (ty = .payload → c.phash r ∈ σ.payloads)
  finOk : ∀ s r, Entry.fin s r ∈ σ.ledger →
    r ∈ σ.dag ∧ ∃ ty, c.sel s r ty = true ∧ (ty = .payload → c.phash r ∈ σ.payloads)
  admDag : ∀ r ty, (r, ty) ∈ σ.admitted → r ∈ σ.dag
  admPay : ∀ r, (r, EvType.payload) ∈ σ.admitted → c.phash r ∈ σ.payloads
  loss : ∀ r ty s t, (r, ty) ∈ σ.admitted → s < c.nSubs → c.sel s r ty = true → Typed c s t →
    (∃ j, σ.shelf s r = some j ∧ j.type = ty) ∨ completedIn σ.ledger s r = true

theorem Inv.same {c : Cfg} {σ σ' : St} (h : Inv c σ) (e : SameDurable σ σ') : Inv c σ' := by
  obtain ⟨e1, e2, e3, e4, e5⟩ := e
  constructor
  · rw [e3, e1]; exact h.jobDag
  · rw [e3]; exact h.jobSel
  · rw [e3, e2]; exact h.jobPay
  · rw [e5, e1, e2]; exact h.callOk
  · rw [e5, e1, e2]; exact h.finOk
  · rw [e4, e1]; exact h.admDag
  · rw [e4, e2]; exact h.admPay
  · rw [e4, e3, e5]; exact h.loss

theorem Inv.now {c : Cfg} {σ σ' : St} {s r : Nat} (h : Inv c σ) (st : NowStep c s r σ σ') : Inv c σ' := by
  cases st with
  | skip _ e => subst e; exact h
  | call j o nj hj ho hdone hty e =>
    subst e
    have hd := h.jobDag s r j hj
    have hs := h.jobSel s r j hj
    have hp := h.jobPay s r j hj
    constructor
    · intro s' r' j' hh
      simp only [setJob_shelf, log_shelf] at hh
      simp only [setJob_dag, log_dag]
      split at hh
      · next heq => rw [heq.2]; exact hd
      · exact h.jobDag _ _ _ hh
    · intro s' r' j' hh
      simp only [setJob_shelf, log_shelf] at hh
      split at hh
      · next heq => rw [heq.1, heq.2, hty j' hh]; exact hs
      · exact h.jobSel _ _ _ hh
    · intro s' r' j' hh
      simp only [setJob_shelf, log_shelf] at hh
      simp only [setJob_payloads, log_payloads]
      split at hh
      · next heq => rw [heq.2, hty j' hh]; exact hp
      · exact h.jobPay _ _ _ hh
    · intro s' r' ty k o' hm
      simp only [setJob_ledger, log_ledger, List.mem_cons, setJob_dag, log_dag, setJob_payloads, log_payloads] at hm ⊢
      rcases hm with hm | hm
      · injection hm with a1 a2 a3 a4 a5
        subst a1 a2 a3
        exact ⟨hd, hs, hp⟩
      · exact h.callOk _ _ _ _ _ hm
    · intro s' r' hm
      simp only [setJob_ledger, log_ledger, List.mem_cons, setJob_dag, log_dag, setJob_payloads, log_payloads] at hm ⊢
      rcases hm with hm | hm
      · cases hm
      · exact h.finOk _ _ hm
    · exact h.admDag
    · exact h.admPay
    · intro r' ty s' t hm hlt hsel htyp
      simp only [setJob_admitted, log_admitted] at hm
      simp only [setJob_shelf, log_shelf, setJob_ledger, log_ledger, completedIn_cons]
      rcases h.loss r' ty s' t hm hlt hsel htyp with ⟨j', hj', hjt⟩ | hc
      · by_cases heq : s' = s ∧ r' = r
        · obtain ⟨rfl, rfl⟩ := heq
          rw [hj] at hj'; injection hj' with hj'; subst hj'
          cases nj with
          | none =>
            right
            have : o = .done := hdone.mp rfl
            subst this
            simp [Entry.completes]
          | some j2 =>
            left
            exact ⟨j2, by simp, (hty j2 rfl).trans hjt⟩
        · left; exact ⟨j', by rw [if_neg heq]; exact hj', hjt⟩
      · right; simp [hc]


def newJob (ty : EvType) : Job := { type := ty, retries := 0, err := .none }

structure SaveSpec (c : Cfg) (ev : Nat × EvType) (n : Nat) (σ σ' : St) : Prop where
  dag : σ'.dag = σ.dag
  payloads : σ'.payloads = σ.payloads
  admitted : σ'.admitted = σ.admitted
  ledger : σ'.ledger = σ.ledger
  running : σ'.running = σ.running
  pending : σ'.pending = σ.pending
  shelf : ∀ s r, σ'.shelf s r =
    if s < n ∧ r = ev.1 ∧ c.sel s r ev.2 = true ∧ σ.shelf s r = none then some (newJob ev.2) else σ.shelf s r

theorem save_fold_spec (c : Cfg) (ev : Nat × EvType) (n : Nat) (σ : St) :
    SaveSpec c ev n σ ((List.range n).foldl (save c ev) σ) := by
  induction n with
  | zero => exact ⟨rfl, rfl, rfl, rfl, rfl, rfl, by intro s r; simp⟩
  | succ n ih =>
    rw [List.range_succ, List.foldl_append]
    simp only [List.foldl_cons, List.foldl_nil]
    generalize (List.range n).foldl (save c ev) σ = σ1 at ih
    obtain ⟨h1, h2, h3, h4, h5, h6, h7⟩ := ih
    have hn : σ1.shelf n ev.1 = σ.shelf n ev.1 := by
      rw [h7]; simp
    unfold save
    by_cases hsel : c.sel n ev.1 ev.2 = true
    · rw [if_pos hsel]
      cases hsh : σ1.shelf n ev.1 with
      | none =>
        simp only
        refine ⟨h1, h2, h3, h4, h5, h6, ?_⟩
        intro s r
        simp only [setJob_shelf, newJob]
        rw [hsh] at hn
        by_cases heq : s = n ∧ r = ev.1
        · obtain ⟨rfl, rfl⟩ := heq
          simp [hsel, hn.symm]
        · rw [if_neg heq, h7]
          have : ¬ (s = n ∧ r = ev.1) := heq
          by_cases hr : r = ev.1
          · have hsn : s ≠ n := fun hh => heq ⟨hh, hr⟩
            have : (s < n + 1) = (s < n) := by
              apply propext; constructor <;> intro hh <;> omega
            simp only [this, newJob]
          · simp [hr]
      | some j =>
        simp only
        refine ⟨h1, h2, h3, h4, h5, h6, ?_⟩
        intro s r
        rw [h7]
        rw [hsh] at hn
        by_cases heq : s = n ∧ r = ev.1
        · obtain ⟨rfl, rfl⟩ := heq
          simp [← hn]
        · by_cases hr : r = ev.1
          · have hsn : s ≠ n := fun hh => heq ⟨hh, hr⟩
            have : (s < n + 1) = (s < n) := by
              apply propext; constructor <;> intro hh <;> omega
            simp only [this]
          · simp [hr]
    · rw [if_neg hsel]
      refine ⟨h1, h2, h3, h4, h5, h6, ?_⟩
      intro s r
      rw [h7]
      by_cases heq : s = n ∧ r = ev.1
      · obtain ⟨rfl, rfl⟩ := heq
        simp [hsel]
      · by_cases hr : r = ev.1
        · have hsn : s ≠ n := fun hh => heq ⟨hh, hr⟩
          have : (s < n + 1) = (s < n) := by
            apply propext; constructor <;> intro hh <;> omega
          simp only [this]
        · simp [hr]

theorem saveEvent_spec (c : Cfg) (σ : St) (ev : Nat × EvType) : SaveSpec c ev c.nSubs σ (saveEvent c σ ev) :=
  save_fold_spec c ev c.nSubs σ


theorem saveEvent_dag (c : Cfg) (σ : St) (ev : Nat × EvType) : (saveEvent c σ ev).dag = σ.dag := (saveEvent_spec c σ ev).dag

/-- admission of one event inside a write transaction: DAG / payload store grow, the event is recorded, saveEvent runs -/
theorem Inv.admitEvent {c : Cfg} {σ : St} (h : Inv c σ) (r : Nat) (ty : EvType) (D' P' : List Nat)
    (hD : ∀ x, x ∈ σ.dag → x ∈ D') (hP : ∀ x, x ∈ σ.payloads → x ∈ P') (hr : r ∈ D')
    (hty : ty = .payload → c.phash r ∈ P') :
    Inv c (saveEvent c { σ with dag := D', payloads := P', admitted := (r, ty) :: σ.admitted } (r, ty)) := by
  have sp := saveEvent_spec c { σ with dag := D', payloads := P', admitted := (r, ty) :: σ.admitted } (r, ty)
  generalize saveEvent c { σ with dag := D', payloads := P', admitted := (r, ty) :: σ.admitted } (r, ty) = σ' at sp
  obtain ⟨e1, e2, e3, e4, _, _, e7⟩ := sp
  simp only at e1 e2 e3 e4 e7
  constructor
  · intro s' r' j hh
    rw [e7] at hh; rw [e1]
    split at hh
    · next hc => rw [hc.2.1]; exact hr
    · exact hD _ (h.jobDag _ _ _ hh)
  · intro s' r' j hh
    rw [e7] at hh
    split at hh
    · next hc => injection hh with hh; subst hh; exact hc.2.2.1
    · exact h.jobSel _ _ _ hh
  · intro s' r' j hh hp
    rw [e7] at hh; rw [e2]
    split at hh
    · next hc => injection hh with hh; subst hh; rw [hc.2.1]; exact hty hp
    · exact hP _ (h.jobPay _ _ _ hh hp)
  · intro s' r' ty' k o hm
    rw [e4] at hm; rw [e1, e2]
    obtain ⟨a, b, d⟩ := h.callOk _ _ _ _ _ hm
    exact ⟨hD _ a, b, fun x => hP _ (d x)⟩
  · intro s' r' hm
    rw [e4] at hm; rw [e1, e2]
    obtain ⟨a, ty', b, d⟩ := h.finOk _ _ hm
    exact ⟨hD _ a, ty', b, fun x => hP _ (d x)⟩
  · intro r' ty' hm
    rw [e3] at hm; rw [e1]
    rcases List.mem_cons.mp hm with hm | hm
    · injection hm with a b; rw [a]; exact hr
    · exact hD _ (h.admDag _ _ hm)
  · intro r' hm
    rw [e3] at hm; rw [e2]
    rcases List.mem_cons.mp hm with hm | hm
    · injection hm with a b; rw [a]; exact hty b.symm
    · exact hP _ (h.admPay _ hm)
  · intro r' ty' s' t hm hlt hsel htyp
    rw [e3] at hm; rw [e4]
    rcases List.mem_cons.mp hm with hm | hm
    · injection hm with a b; subst a b
      left
      cases hsh : σ.shelf s' r' with
      | none => exact ⟨newJob ty', by rw [e7]; simp [hlt, hsel, hsh], rfl⟩
      | some j0 =>
        refine ⟨j0, by rw [e7]; simp [hsh], ?_⟩
        have := h.jobSel _ _ _ hsh
        rw [htyp _ _ this, htyp _ _ hsel]
    · rcases h.loss r' ty' s' t hm hlt hsel htyp with ⟨j, hj, hjt⟩ | hc
      · left; exact ⟨j, by rw [e7]; simp [hj], hjt⟩
      · right; exact hc

theorem Inv.finishedExt {c : Cfg} {σ : St} (h : Inv c σ) (s r : Nat) (f : Bool) : Inv c (Nuts.C14.finishedExt σ s r f) := by
  unfold Nuts.C14.finishedExt
  split
  · exact h
  · split
    · exact h
    · next j hj =>
      have hd := h.jobDag s r j hj
      have hs := h.jobSel s r j hj
      have hp := h.jobPay s r j hj
      constructor
      · intro s' r' j' hh
        simp only [log_shelf, setJob_shelf] at hh
        split at hh
        · cases hh
        · exact h.jobDag _ _ _ hh
      · intro s' r' j' hh
        simp only [log_shelf, setJob_shelf] at hh
        split at hh
        · cases hh
        · exact h.jobSel _ _ _ hh
      · intro s' r' j' hh
        simp only [log_shelf, setJob_shelf] at hh
        split at hh
        · cases hh
        · exact h.jobPay _ _ _ hh
      · intro s' r' ty k o hm
        simp only [log_ledger, setJob_ledger, List.mem_cons] at hm
        rcases hm with hm | hm
        · cases hm
        · exact h.callOk _ _ _ _ _ hm
      · intro s' r' hm
        simp only [log_ledger, setJob_ledger, List.mem_cons] at hm
        rcases hm with hm | hm
        · injection hm with a b; subst a b
          exact ⟨hd, j.type, hs, hp⟩
        · exact h.finOk _ _ hm
      · exact h.admDag
      · exact h.admPay
      · intro r' ty s' t hm hlt hsel htyp
        simp only [log_ledger, setJob_ledger, log_shelf, setJob_shelf, completedIn_cons]
        by_cases heq : s' = s ∧ r' = r
        · right; obtain ⟨rfl, rfl⟩ := heq; simp [Entry.completes]
        · rcases h.loss r' ty s' t hm hlt hsel htyp with ⟨j', hj', hjt⟩ | hc
          · left; exact ⟨j', by rw [if_neg heq]; exact hj', hjt⟩
          · right; simp [hc]

theorem Inv.dstep {c : Cfg} {σ σ' : St} (h : Inv c σ) (d : DStep c σ σ') : Inv c σ' := by
  induction d with
  | vol e => exact h.same e
  | now s r st => exact h.now st
  | trans _ _ ih1 ih2 => exact ih2 (ih1 h)

theorem Inv.pending {c : Cfg} {σ : St} (h : Inv c σ) (p : List (Nat × EvType)) : Inv c { σ with pending := p } :=
  h.same ⟨rfl, rfl, rfl, rfl, rfl⟩

theorem Inv.addTx {c : Cfg} {σ : St} (h : Inv c σ) (a : AddArgs) : Inv c (addTx c σ a).1 := by
  unfold Nuts.C14.addTx
  split; · exact h
  split; · exact h
  split; · exact h
  split; · exact h
  split; · exact h
  split; · exact h
  next hnd _ _ _ _ =>
  simp only
  apply Inv.pending
  split
  · have h1 := h.admitEvent a.ref .payload (a.ref :: σ.dag) (c.phash a.ref :: σ.payloads)
      (fun x hx => List.mem_cons_of_mem _ hx) (fun x hx => List.mem_cons_of_mem _ hx) List.mem_cons_self
      (fun _ => List.mem_cons_self)
    generalize hσ1 : saveEvent c _ (a.ref, EvType.payload) = σ1 at h1 ⊢
    have hr : a.ref ∈ σ1.dag := by rw [← hσ1, saveEvent_dag]; exact List.mem_cons_self
    exact h1.admitEvent a.ref .tx σ1.dag σ1.payloads (fun x hx => hx) (fun x hx => hx) hr (fun hh => by cases hh)
  · exact h.admitEvent a.ref .tx (a.ref :: σ.dag) σ.payloads
      (fun x hx => List.mem_cons_of_mem _ hx) (fun x hx => hx) List.mem_cons_self (fun hh => by cases hh)


theorem Inv.writePayload {c : Cfg} {σ : St} (h : Inv c σ) (r : Nat) (cf : Bool) : Inv c (writePayload c σ r cf).1 := by
  unfold Nuts.C14.writePayload
  split; · exact h
  split; · exact h
  split; · exact h
  next hd _ _ =>
  simp only
  apply Inv.pending
  have hd' : r ∈ σ.dag := Classical.not_not.mp hd
  exact h.admitEvent r .payload σ.dag (c.phash r :: σ.payloads) (fun x hx => hx)
    (fun x hx => List.mem_cons_of_mem _ hx) hd' (fun _ => List.mem_cons_self)

theorem Inv.init (c : Cfg) : Inv c init := by
  constructor <;> intros <;> simp_all [Nuts.C14.init]

theorem Inv.step {c : Cfg} {σ : St} (h : Inv c σ) (op : Op) : Inv c (step c σ op) := by
  cases op with
  | add a => exact h.addTx a
  | afterCommit order => exact h.dstep (afterCommit_dstep c σ order)
  | writePayload r cf => exact h.writePayload r cf
  | finishedExt s r f => exact h.finishedExt s r f
  | fire s r => exact h.dstep (fire_dstep c σ s r)
  | crash => exact h.same (crashSt_same σ)
  | restart order => exact h.dstep (restart_dstep c σ order)

theorem Inv.run {c : Cfg} {σ : St} (h : Inv c σ) (ops : List Op) : Inv c (run c σ ops) := by
  induction ops generalizing σ with
  | nil => exact h
  | cons op rest ih => exact ih (h.step op)


/-! ## completion is final (needs: filters fix the event type, WritePayload skips a stored payload) -/

structure Inv2 (c : Cfg) (σ : St) : Prop where
  doneGone : ∀ s r t, Typed c s t → completedIn σ.ledger s r = true → σ.shelf s r = none
  ok : ∀ s r t, Typed c s t → okLedger s r σ.ledger = true

theorem Inv2.same {c : Cfg} {σ σ' : St} (h : Inv2 c σ) (e : SameDurable σ σ') : Inv2 c σ' := by
  obtain ⟨_, _, e3, _, e5⟩ := e
  constructor
  · rw [e3, e5]; exact h.doneGone
  · rw [e5]; exact h.ok

theorem isCallOf_call (s r s' r' : Nat) (ty : EvType) (k : Nat) (o : Outcome) :
    (Entry.call s' r' ty k o).isCallOf s r = true ↔ s' = s ∧ r' = r := by
  simp [Entry.isCallOf]

theorem Inv2.now {c : Cfg} {σ σ' : St} {s r : Nat} (h : Inv2 c σ) (st : NowStep c s r σ σ') : Inv2 c σ' := by
  cases st with
  | skip _ e => subst e; exact h
  | call j o nj hj ho hdone hty e =>
    subst e
    constructor
    · intro s' r' t htyp hc
      simp only [setJob_ledger, log_ledger, completedIn_cons, Bool.or_eq_true] at hc
      simp only [setJob_shelf, log_shelf]
      by_cases heq : s' = s ∧ r' = r
      · obtain ⟨rfl, rfl⟩ := heq
        simp only [and_self, if_true]
        cases nj with
        | none => rfl
        | some j2 =>
          exfalso
          rcases hc with hc | hc
          · rw [completes_call_iff] at hc
            have : (some j2 : Option Job) = none := hdone.mpr hc.2.2
            cases this
          · have := h.doneGone _ _ t htyp hc
            rw [hj] at this; cases this
      · rw [if_neg heq]
        rcases hc with hc | hc
        · rw [completes_call_iff] at hc
          exact absurd ⟨hc.1.symm, hc.2.1.symm⟩ heq
        · exact h.doneGone _ _ t htyp hc
    · intro s' r' t htyp
      simp only [setJob_ledger, log_ledger, okLedger, Bool.and_eq_true, Bool.or_eq_true, Bool.not_eq_true']
      refine ⟨?_, h.ok _ _ t htyp⟩
      by_cases heq : s' = s ∧ r' = r
      · obtain ⟨rfl, rfl⟩ := heq
        right
        cases hcc : completedIn σ.ledger s' r' with
        | false => rfl
        | true =>
          have := h.doneGone _ _ t htyp hcc
          rw [hj] at this; cases this
      · left
        cases hic : (Entry.call s r j.type j.retries o).isCallOf s' r' with
        | false => rfl
        | true =>
          rw [isCallOf_call] at hic
          exact absurd ⟨hic.1.symm, hic.2.symm⟩ heq

theorem Inv2.dstep {c : Cfg} {σ σ' : St} (h : Inv2 c σ) (d : DStep c σ σ') : Inv2 c σ' := by
  induction d with
  | vol e => exact h.same e
  | now s r st => exact h.now st
  | trans _ _ ih1 ih2 => exact ih2 (ih1 h)

theorem Inv2.finishedExt {c : Cfg} {σ : St} (h : Inv2 c σ) (s r : Nat) (f : Bool) :
    Inv2 c (Nuts.C14.finishedExt σ s r f) := by
  unfold Nuts.C14.finishedExt
  split
  · exact h
  · split
    · exact h
    · next j hj =>
      constructor
      · intro s' r' t htyp hc
        simp only [log_ledger, setJob_ledger, completedIn_cons, Bool.or_eq_true] at hc
        simp only [log_shelf, setJob_shelf]
        by_cases heq : s' = s ∧ r' = r
        · rw [if_pos heq]
        · rw [if_neg heq]
          rcases hc with hc | hc
          · rw [completes_fin_iff] at hc
            exact absurd ⟨hc.1.symm, hc.2.symm⟩ heq
          · exact h.doneGone _ _ t htyp hc
      · intro s' r' t htyp
        simp only [log_ledger, setJob_ledger, okLedger, Bool.and_eq_true, Bool.or_eq_true, Bool.not_eq_true']
        exact ⟨.inl rfl, h.ok _ _ t htyp⟩

theorem Inv2.admitEvent {c : Cfg} {σ : St} (h : Inv2 c σ) (r : Nat) (ty : EvType) (D' P' : List Nat)
    (hfresh : ∀ s' t, Typed c s' t → c.sel s' r ty = true → completedIn σ.ledger s' r = false) :
    Inv2 c (saveEvent c { σ with dag := D', payloads := P', admitted := (r, ty) :: σ.admitted } (r, ty)) := by
  have sp := saveEvent_spec c { σ with dag := D', payloads := P', admitted := (r, ty) :: σ.admitted } (r, ty)
  generalize saveEvent c { σ with dag := D', payloads := P', admitted := (r, ty) :: σ.admitted } (r, ty) = σ' at sp
  obtain ⟨_, _, _, e4, _, _, e7⟩ := sp
  simp only at e4 e7
  constructor
  · intro s' r' t htyp hc
    rw [e4] at hc; rw [e7]
    split
    · next hcond =>
      obtain ⟨_, rfl, hsel, _⟩ := hcond
      rw [hfresh s' t htyp hsel] at hc; cases hc
    · exact h.doneGone _ _ t htyp hc
  · rw [e4]; exact h.ok

theorem Inv2.pending {c : Cfg} {σ : St} (h : Inv2 c σ) (p : List (Nat × EvType)) : Inv2 c { σ with pending := p } :=
  h.same ⟨rfl, rfl, rfl, rfl, rfl⟩

theorem saveEvent_ledger (c : Cfg) (σ : St) (ev : Nat × EvType) : (saveEvent c σ ev).ledger = σ.ledger := (saveEvent_spec c σ ev).ledger

theorem Inv.notCompleted_of_notInDag {c : Cfg} {σ : St} (h : Inv c σ) (s r : Nat) (hr : r ∉ σ.dag) :
    completedIn σ.ledger s r = false := by
  cases hc : completedIn σ.ledger s r with
  | false => rfl
  | true =>
    rw [completedIn_iff] at hc
    rcases hc with ⟨ty, k, hm⟩ | hm
    · exact absurd (h.callOk _ _ _ _ _ hm).1 hr
    · exact absurd (h.finOk _ _ hm).1 hr

theorem Inv2.addTx {c : Cfg} {σ : St} (h1 : Inv c σ) (h : Inv2 c σ) (a : AddArgs) : Inv2 c (addTx c σ a).1 := by
  unfold Nuts.C14.addTx
  split; · exact h
  split; · exact h
  split; · exact h
  split; · exact h
  split; · exact h
  split; · exact h
  next hnd _ _ _ _ =>
  simp only
  apply Inv2.pending
  have hfr : ∀ s', completedIn σ.ledger s' a.ref = false := fun s' => h1.notCompleted_of_notInDag s' a.ref hnd
  split
  · have h2 := h.admitEvent a.ref .payload (a.ref :: σ.dag) (c.phash a.ref :: σ.payloads) (fun s' _ _ _ => hfr s')
    generalize hσ1 : saveEvent c _ (a.ref, EvType.payload) = σ1 at h2 ⊢
    have hl : σ1.ledger = σ.ledger := by rw [← hσ1, saveEvent_ledger]
    exact h2.admitEvent a.ref .tx σ1.dag σ1.payloads (fun s' _ _ _ => by rw [hl]; exact hfr s')
  · exact h.admitEvent a.ref .tx (a.ref :: σ.dag) σ.payloads (fun s' _ _ _ => hfr s')

theorem Inv2.writePayload {c : Cfg} {σ : St} (hskip : c.skipPresent = true) (h1 : Inv c σ) (h : Inv2 c σ) (r : Nat) (cf : Bool) :
    Inv2 c (writePayload c σ r cf).1 := by
  unfold Nuts.C14.writePayload
  split; · exact h
  split; · exact h
  split; · exact h
  next _ _ hns =>
  simp only
  apply Inv2.pending
  have hnp : c.phash r ∉ σ.payloads := fun hp => hns ⟨hskip, hp⟩
  refine h.admitEvent r .payload σ.dag (c.phash r :: σ.payloads) ?_
  intro s' t htyp hsel
  have ht : EvType.payload = t := htyp _ _ hsel
  cases hc : completedIn σ.ledger s' r with
  | false => rfl
  | true =>
    exfalso
    rw [completedIn_iff] at hc
    rcases hc with ⟨ty, k, hm⟩ | hm
    · obtain ⟨_, hs2, hp⟩ := h1.callOk _ _ _ _ _ hm
      exact hnp (hp ((htyp _ _ hs2).trans ht.symm))
    · obtain ⟨_, ty, hs2, hp⟩ := h1.finOk _ _ hm
      exact hnp (hp ((htyp _ _ hs2).trans ht.symm))

theorem Inv2.init (c : Cfg) : Inv2 c init := by
  constructor <;> intros <;> simp_all [Nuts.C14.init, completedIn, okLedger]

theorem Inv2.step {c : Cfg} {σ : St} (hskip : c.skipPresent = true) (h1 : Inv c σ) (h : Inv2 c σ) (op : Op) :
    Inv2 c (step c σ op) := by
  cases op with
  | add a => exact h.addTx h1 a
  | afterCommit order => exact h.dstep (afterCommit_dstep c σ order)
  | writePayload r cf => exact h.writePayload hskip h1 r cf
  | finishedExt s r f => exact h.finishedExt s r f
  | fire s r => exact h.dstep (fire_dstep c σ s r)
  | crash => exact h.same (crashSt_same σ)
  | restart order => exact h.dstep (restart_dstep c σ order)

theorem Inv2.run {c : Cfg} {σ : St} (hskip : c.skipPresent = true) (h1 : Inv c σ) (h : Inv2 c σ) (ops : List Op) :
    Inv2 c (run c σ ops) := by
  induction ops generalizing σ with
  | nil => exact h
  | cons op rest ih => exact ih (h1.step op) (h.step hskip h1 op)

/-- reading of `okLedger`: nothing newer than a completion record of (s, r) is a call of (s, r) -/
theorem okLedger_split (s r : Nat) (newer older : List Entry) (e : Entry)
    (h : okLedger s r (newer ++ e :: older) = true) (he : e.completes s r = true) :
    ∀ e' ∈ newer, e'.isCallOf s r = false := by
  induction newer with
  | nil => intro e' hm; cases hm
  | cons x rest ih =>
    simp only [List.cons_append, okLedger, Bool.and_eq_true, Bool.or_eq_true, Bool.not_eq_true'] at h
    intro e' hm
    rcases List.mem_cons.mp hm with rfl | hm
    · rcases h.1 with h1 | h1
      · exact h1
      · have : completedIn (rest ++ e :: older) s r = true := by
          simp [completedIn, he]
        rw [this] at h1; cases h1
    · exact ih h.2 e' hm

theorem saveEvent_admitted (c : Cfg) (σ : St) (ev : Nat × EvType) : (saveEvent c σ ev).admitted = σ.admitted := (saveEvent_spec c σ ev).admitted

theorem addTx_cases (c : Cfg) (σ : St) (a : AddArgs) :
    ((addTx c σ a).2 ≠ .ok ∧ (addTx c σ a).1 = σ) ∨
    ((addTx c σ a).2 = .ok ∧ a.ref ∉ σ.dag ∧ a.ref < c.nRefs ∧
      (a.ref, EvType.tx) ∈ (addTx c σ a).1.admitted ∧
      (a.withPayload = true → (a.ref, EvType.payload) ∈ (addTx c σ a).1.admitted)) := by
  unfold addTx
  split; · left; exact ⟨by simp, rfl⟩
  split; · left; exact ⟨by simp, rfl⟩
  split; · left; exact ⟨by simp, rfl⟩
  split; · left; exact ⟨by simp, rfl⟩
  split; · left; exact ⟨by simp, rfl⟩
  split; · left; exact ⟨by simp, rfl⟩
  next h1 h2 _ _ _ _ =>
  right
  refine ⟨rfl, h2, by omega, ?_, ?_⟩
  · simp only [saveEvent_admitted]; exact List.mem_cons_self
  · intro hp
    simp only [saveEvent_admitted, hp, if_true]
    exact List.mem_cons_of_mem _ List.mem_cons_self

end Nuts.C14
