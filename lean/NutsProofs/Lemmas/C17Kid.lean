/-
  C17 — lemmas about kid handling on characters (NutsModel/C17/Kid.lean). Core Lean only.
-/
import NutsModel.C17.Kid
namespace Nuts.C17.Kid

theorem takeWhile_eq_self_or_split (p : Char → Bool) : ∀ (l : List Char),
    l.takeWhile p = l ∨ ∃ c rest, l = l.takeWhile p ++ c :: rest ∧ p c = false
  | [] => Or.inl rfl
  | x :: r => by
    simp only [List.takeWhile]
    cases hp : p x with
    | false => exact Or.inr ⟨x, r, by simp, hp⟩
    | true =>
      rcases takeWhile_eq_self_or_split p r with h | ⟨c, rest, h1, h2⟩
      · exact Or.inl (by simp [h])
      · exact Or.inr ⟨c, rest, by simp; exact h1, h2⟩

/-- `Split(kid, "#")[0] == issuer` on the characters: the kid IS the issuer or the issuer followed by `#…` — a DID that merely
    starts with, extends or resembles the issuer's never passes -/
theorem didPart_eq {kid issuer : List Char} (h : didPart kid = issuer) :
    kid = issuer ∨ ∃ rest, kid = issuer ++ '#' :: rest := by
  unfold didPart at h
  rcases takeWhile_eq_self_or_split (· ≠ '#') kid with h1 | ⟨c, rest, h1, h2⟩
  · exact Or.inl (by rw [← h, h1])
  · have : c = '#' := by simpa using h2
    subst this
    exact Or.inr ⟨rest, by rw [← h]; exact h1⟩

theorem didPart_no_hash (l : List Char) (h : '#' ∉ l) : didPart l = l := by
  unfold didPart
  induction l with
  | nil => rfl
  | cons x r ih =>
    have hx : x ≠ '#' := fun e => h (by simp [e])
    have hr : '#' ∉ r := fun e => h (by simp [e])
    have ih' := ih hr
    simp [List.takeWhile, hx] at ih' ⊢
    exact ih'

theorem didPart_append_hash (l rest : List Char) (h : '#' ∉ l) : didPart (l ++ '#' :: rest) = l := by
  unfold didPart
  induction l with
  | nil => simp [List.takeWhile]
  | cons x r ih =>
    have hx : x ≠ '#' := fun e => h (by simp [e])
    have hr : '#' ∉ r := fun e => h (by simp [e])
    have ih' := ih hr
    simp [List.takeWhile, hx] at ih' ⊢
    exact ih'

/-- the kid handed to the resolver names the ISSUER's DID whenever the later kid ↔ issuer test passes -/
theorem normKid_is_issuers (kid issuer : List Char) (hi : '#' ∉ issuer) (h : kid = [] ∨ didPart kid = issuer) :
    didPart (normKid kid issuer) = issuer := by
  unfold normKid
  simp only
  rcases h with rfl | h
  · simp only [if_true]
    split
    · exact didPart_append_hash issuer _ hi
    · exact didPart_no_hash issuer hi
  · by_cases hk : kid = []
    · subst hk
      simp only [if_true]
      split
      · exact didPart_append_hash issuer _ hi
      · exact didPart_no_hash issuer hi
    · simp only [if_neg hk]
      split
      · next hc =>
        have hnh : '#' ∉ kid := by
          have := (Bool.and_eq_true _ _).mp hc
          simpa using this.2
        rw [didPart_no_hash kid hnh] at h
        subst h
        exact didPart_append_hash kid _ hnh
      · exact h

end Nuts.C17.Kid
