/-
  C14 — the retry budget as an invariant: without a restart (Run replays every job once more) a typed subscriber
  is called at most `maxRetries` times for one event, over ALL op sequences (duplicate payload writes, stops,
  storage faults, timers in any order).  Potential function: calls made + attempts left in live retry loops
  + maxRetries for every notification still pending / every admission still to come.
-/
import NutsProofs.Lemmas.C14

namespace Nuts.C14

def leftSum (s r : Nat) : List Task → Nat
  | [] => 0
  | t :: l => (if t.isFor s r then t.left else 0) + leftSum s r l

def pendCount (e : Nat × EvType) : List (Nat × EvType) → Nat
  | [] => 0
  | x :: l => (if x = e then 1 else 0) + pendCount e l

/-- 1 while the admission that creates event (r, t) has not happened yet -/
def unadm (σ : St) (r : Nat) : EvType → Nat
  | .tx => if r ∈ σ.dag then 0 else 1
  | .payload => if r ∈ σ.evented then 0 else 1

/-- receiver calls made for (s, r) plus the attempts the live retry loops for (s, r) may still make -/
def spent (σ : St) (s r : Nat) : Nat := attemptNo σ s r + leftSum s r σ.running

structure Bud (c : Cfg) (B : Nat) (s r : Nat) (t : EvType) (σ : St) : Prop where
  pot : spent σ s r + c.maxRetries * (pendCount (r, t) σ.pending + unadm σ r t) ≤ B
  leftPos : ∀ x, x ∈ σ.running → 1 ≤ x.left
  evDag : ∀ x, x ∈ σ.evented → x ∈ σ.dag

theorem leftSum_append (s r : Nat) (l l' : List Task) : leftSum s r (l ++ l') = leftSum s r l + leftSum s r l' := by
  induction l with
  | nil => simp [leftSum]
  | cons a l ih => simp only [List.cons_append, leftSum, ih]; omega

theorem leftSum_erase (s r : Nat) (t : Task) (l : List Task) (h : t ∈ l) :
    leftSum s r (l.erase t) + (if t.isFor s r then t.left else 0) = leftSum s r l := by
  induction l with
  | nil => cases h
  | cons a l ih =>
    rw [List.erase_cons]
    by_cases hat : a = t
    · subst hat; simp only [beq_self_eq_true, if_true, leftSum]; omega
    · have hne : (a == t) = false := by simp [hat]
      rw [hne]; simp only [Bool.false_eq_true, if_false, leftSum]
      have hm : t ∈ l := by
        rcases List.mem_cons.mp h with h | h
        · exact absurd h.symm hat
        · exact h
      have := ih hm; omega

theorem pendCount_append (e : Nat × EvType) (l l' : List (Nat × EvType)) :
    pendCount e (l ++ l') = pendCount e l + pendCount e l' := by
  induction l with
  | nil => simp [pendCount]
  | cons a l ih => simp only [List.cons_append, pendCount, ih]; omega

/-- what one `notifyNow` on (s', r') does to the quantities of (s, r) -/
structure NowFrame (σ σ' : St) (s r s' r' : Nat) : Prop where
  calls : attemptNo σ' s r ≤ attemptNo σ s r + (if s' = s ∧ r' = r then 1 else 0)
  running : σ'.running = σ.running
  pending : σ'.pending = σ.pending
  dag : σ'.dag = σ.dag
  evented : σ'.evented = σ.evented

theorem attemptNo_call (s r s' r' : Nat) (ty : EvType) (k : Nat) (o : Outcome) (l : List Entry) :
    (((Entry.call s' r' ty k o) :: l).filter (Entry.isCallOf s r)).length =
      (l.filter (Entry.isCallOf s r)).length + (if s' = s ∧ r' = r then 1 else 0) := by
  rw [List.filter_cons]
  by_cases h : s' = s ∧ r' = r
  · obtain ⟨rfl, rfl⟩ := h
    have : Entry.isCallOf s' r' (Entry.call s' r' ty k o) = true := by simp [Entry.isCallOf]
    rw [this]; simp
  · have : Entry.isCallOf s r (Entry.call s' r' ty k o) = false := by
      simp only [Entry.isCallOf, Bool.and_eq_false_iff, beq_eq_false_iff_ne, ne_eq]
      by_cases h1 : s' = s
      · exact .inr (fun h2 => h ⟨h1, h2⟩)
      · exact .inl h1
    simp [this, h]

theorem attemptNo_fin (s r s' r' : Nat) (l : List Entry) :
    (((Entry.fin s' r') :: l).filter (Entry.isCallOf s r)).length = (l.filter (Entry.isCallOf s r)).length := by
  rw [List.filter_cons]; simp [Entry.isCallOf]

theorem notifyNow_frame (c : Cfg) (σ : St) (s' r' s r : Nat) : NowFrame σ (notifyNow c σ s' r').1 s r s' r' := by
  cases notifyNow_step c σ s' r' with
  | skip _ e => rw [e]; exact ⟨by omega, rfl, rfl, rfl, rfl⟩
  | call j o nj _ _ _ _ _ e =>
    rw [e]
    refine ⟨?_, rfl, rfl, rfl, rfl⟩
    simp only [attemptNo, setJob_ledger, log_ledger]
    rw [attemptNo_call]; omega
  | callFin j nj _ _ _ _ e =>
    rw [e]
    refine ⟨?_, rfl, rfl, rfl, rfl⟩
    simp only [attemptNo, setJob_ledger, log_ledger]
    rw [attemptNo_fin, attemptNo_call]; omega

/-! ### spawn / notify / notifyAll -/

theorem spawn_frame (c : Cfg) (σ : St) (s' r' k s r : Nat) (hl : ∀ x, x ∈ σ.running → 1 ≤ x.left) :
    leftSum s r (spawn c σ s' r' k).running ≤ leftSum s r σ.running + (if s' = s ∧ r' = r then c.maxRetries - (k + 1) else 0) ∧
    (∀ x, x ∈ (spawn c σ s' r' k).running → 1 ≤ x.left) ∧
    attemptNo (spawn c σ s' r' k) s r = attemptNo σ s r ∧ (spawn c σ s' r' k).pending = σ.pending ∧
    (spawn c σ s' r' k).dag = σ.dag ∧ (spawn c σ s' r' k).evented = σ.evented := by
  unfold spawn retryAttempts
  split
  · next a ha =>
    split at ha
    · next hlt =>
      cases ha
      refine ⟨?_, ?_, rfl, rfl, rfl, rfl⟩
      · simp only [leftSum_append, leftSum, Task.isFor]
        by_cases h : s' = s ∧ r' = r
        · simp [h]
        · have : (s' == s && r' == r) = false := by
            simp only [Bool.and_eq_false_iff, beq_eq_false_iff_ne, ne_eq]
            by_cases h1 : s' = s
            · exact .inr (fun h2 => h ⟨h1, h2⟩)
            · exact .inl h1
          simp [this, h]
      · intro x hx
        simp only [List.mem_append, List.mem_singleton] at hx
        rcases hx with hx | hx
        · exact hl x hx
        · subst hx; simp only; omega
    · cases ha
  · exact ⟨by omega, hl, rfl, rfl, rfl, rfl⟩

/-- the effect of one `Notify` of subscriber s' on the budget of (s, r) -/
structure NotifyFrame (c : Cfg) (σ σ' : St) (s r : Nat) (credit : Nat) : Prop where
  spent : spent σ' s r ≤ spent σ s r + credit
  pending : σ'.pending = σ.pending
  dag : σ'.dag = σ.dag
  evented : σ'.evented = σ.evented
  leftPos : ∀ x, x ∈ σ'.running → 1 ≤ x.left

theorem notify_frame (c : Cfg) (hM : 1 ≤ c.maxRetries) (σ : St) (s' : Nat) (ev : Nat × EvType) (s r : Nat)
    (hl : ∀ x, x ∈ σ.running → 1 ≤ x.left) :
    NotifyFrame c σ (notify c σ s' ev).1 s r (if s' = s ∧ ev.1 = r ∧ c.sel s r ev.2 = true then c.maxRetries else 0) := by
  unfold notify
  split
  · next hsel =>
    have f := notifyNow_frame c σ s' ev.1 s r
    have hcond : (s' = s ∧ ev.1 = r) → (s' = s ∧ ev.1 = r ∧ c.sel s r ev.2 = true) := by
      intro h; obtain ⟨h1, h2⟩ := h; subst h1; subst h2; exact ⟨rfl, rfl, hsel⟩
    have plain : ∀ σ1, NowFrame σ σ1 s r s' ev.1 →
        NotifyFrame c σ σ1 s r (if s' = s ∧ ev.1 = r ∧ c.sel s r ev.2 = true then c.maxRetries else 0) := by
      intro σ1 f
      refine ⟨?_, f.pending, f.dag, f.evented, by rw [f.running]; exact hl⟩
      unfold spent; rw [f.running]
      have := f.calls
      by_cases h : s' = s ∧ ev.1 = r
      · rw [if_pos (hcond h)]; rw [if_pos h] at this; omega
      · rw [if_neg h] at this; split <;> omega
    have spawned : ∀ σ1, NowFrame σ σ1 s r s' ev.1 →
        NotifyFrame c σ (spawn c σ1 s' ev.1 0) s r (if s' = s ∧ ev.1 = r ∧ c.sel s r ev.2 = true then c.maxRetries else 0) := by
      intro σ1 f
      obtain ⟨g1, g2, g3, g4, g5, g6⟩ := spawn_frame c σ1 s' ev.1 0 s r (by rw [f.running]; exact hl)
      refine ⟨?_, by rw [g4, f.pending], by rw [g5, f.dag], by rw [g6, f.evented], g2⟩
      unfold spent; rw [g3]
      rw [f.running] at g1
      have := f.calls
      by_cases h : s' = s ∧ ev.1 = r
      · rw [if_pos (hcond h)]; rw [if_pos h] at this g1; omega
      · rw [if_neg h] at this g1; split <;> omega
    split
    · next σ1 heq => simp only; have f1 := f; rw [heq] at f1; exact plain σ1 f1
    · next σ1 heq => simp only; have f1 := f; rw [heq] at f1; exact plain σ1 f1
    · next σ1 heq => simp only; have f1 := f; rw [heq] at f1; exact spawned σ1 f1
    · next σ1 heq => simp only; have f1 := f; rw [heq] at f1; exact spawned σ1 f1
    · next σ1 heq => simp only; have f1 := f; rw [heq] at f1; exact plain σ1 f1
  · exact ⟨Nat.le_add_right _ _, rfl, rfl, rfl, hl⟩

theorem notifyAll_frame (c : Cfg) (hM : 1 ≤ c.maxRetries) (ev : Nat × EvType) (s r : Nat) (order : List Nat) (hnd : order.Nodup)
    (σ : St) (hl : ∀ x, x ∈ σ.running → 1 ≤ x.left) :
    NotifyFrame c σ (notifyAll c ev order σ).1 s r (if s ∈ order ∧ ev.1 = r ∧ c.sel s r ev.2 = true then c.maxRetries else 0) := by
  induction order generalizing σ with
  | nil => simp only [notifyAll]; exact ⟨by omega, rfl, rfl, rfl, hl⟩
  | cons s' rest ih =>
    have hnd' := List.nodup_cons.mp hnd
    have f := notify_frame c hM σ s' ev s r hl
    unfold notifyAll
    split
    · next σ1 heq =>
      rw [heq] at f; simp only at f
      show NotifyFrame c σ σ1 s r _
      refine ⟨?_, f.pending, f.dag, f.evented, f.leftPos⟩
      have := f.spent
      split at this
      · next h => rw [if_pos ⟨by rw [h.1]; exact List.mem_cons_self, h.2⟩]; exact this
      · split <;> omega
    · next σ1 heq =>
      rw [heq] at f; simp only at f
      have g := ih hnd'.2 σ1 f.leftPos
      refine ⟨?_, by rw [g.pending, f.pending], by rw [g.dag, f.dag], by rw [g.evented, f.evented], g.leftPos⟩
      have h1 := f.spent
      have h2 := g.spent
      by_cases hs : s' = s
      · subst hs
        have hnot : ¬ (s' ∈ rest ∧ ev.1 = r ∧ c.sel s' r ev.2 = true) := fun h => hnd'.1 h.1
        rw [if_neg hnot] at h2
        by_cases hc : ev.1 = r ∧ c.sel s' r ev.2 = true
        · rw [if_pos ⟨rfl, hc⟩] at h1; rw [if_pos ⟨List.mem_cons_self, hc⟩]; omega
        · have : ¬ (s' = s' ∧ ev.1 = r ∧ c.sel s' r ev.2 = true) := fun h => hc h.2
          rw [if_neg this] at h1; split <;> omega
      · have : ¬ (s' = s ∧ ev.1 = r ∧ c.sel s r ev.2 = true) := fun h => hs h.1
        rw [if_neg this] at h1
        by_cases hc : s ∈ rest ∧ ev.1 = r ∧ c.sel s r ev.2 = true
        · rw [if_pos hc] at h2; rw [if_pos ⟨List.mem_cons_of_mem _ hc.1, hc.2⟩]; omega
        · rw [if_neg hc] at h2; split <;> omega

/-! ### the ops -/

theorem pot_of {M B sp sp' W W' k : Nat} (h : sp + M * W ≤ B) (h1 : sp' ≤ sp + M * k) (h2 : W' + k ≤ W) : sp' + M * W' ≤ B := by
  have h3 : M * (W' + k) ≤ M * W := Nat.mul_le_mul_left M h2
  rw [Nat.mul_add] at h3
  omega

theorem unadm_congr {σ σ' : St} (r : Nat) (t : EvType) (hd : σ'.dag = σ.dag) (he : σ'.evented = σ.evented) :
    unadm σ' r t = unadm σ r t := by
  cases t <;> simp [unadm, hd, he]

theorem Bud.crash {c : Cfg} {B : Nat} {s r : Nat} {t : EvType} {σ : St} (h : Bud c B s r t σ) : Bud c B s r t (crashSt σ) := by
  refine ⟨?_, (by intro x hx; cases hx), h.evDag⟩
  have hu : unadm (crashSt σ) r t = unadm σ r t := unadm_congr r t rfl rfl
  rw [hu]
  refine pot_of (k := 0) h.pot ?_ ?_
  · simp only [spent, crashSt, leftSum, attemptNo]; omega
  · simp only [crashSt, pendCount]; omega

theorem Bud.afterCommit {c : Cfg} {B : Nat} {s r : Nat} {t : EvType} {σ : St} (hM : 1 ≤ c.maxRetries) (htyp : Typed c s t)
    (h : Bud c B s r t σ) (order : List Nat) (hnd : order.Nodup) : Bud c B s r t (afterCommit c σ order) := by
  unfold Nuts.C14.afterCommit
  split
  · exact h
  · next ev rest hp =>
    have f := notifyAll_frame c hM ev s r order hnd { σ with pending := rest } h.leftPos
    have key : ∀ σ', NotifyFrame c { σ with pending := rest } σ' s r
        (if s ∈ order ∧ ev.1 = r ∧ c.sel s r ev.2 = true then c.maxRetries else 0) → Bud c B s r t σ' := by
      intro σ' f
      refine ⟨?_, f.leftPos, by rw [f.evented, f.dag]; exact h.evDag⟩
      have hu : unadm σ' r t = unadm σ r t := unadm_congr r t f.dag f.evented
      have hpot := h.pot
      rw [hp] at hpot
      simp only [pendCount] at hpot
      rw [hu, f.pending]
      have hs := f.spent
      have hsp : spent { σ with pending := rest } s r = spent σ s r := rfl
      rw [hsp] at hs
      show spent σ' s r + c.maxRetries * (pendCount (r, t) rest + unadm σ r t) ≤ B
      split at hs
      · next hc =>
        have hev : ev = (r, t) := Prod.ext hc.2.1 (htyp _ _ hc.2.2)
        rw [if_pos hev] at hpot
        exact pot_of (k := 1) hpot (by omega) (by omega)
      · exact pot_of (k := 0) hpot (by omega) (by omega)
    split
    · next σ' heq => rw [heq] at f; exact (key σ' f).crash
    · next σ' heq => rw [heq] at f; exact key σ' f

theorem isFor_iff (s r : Nat) (t : Task) : t.isFor s r = true ↔ t.sub = s ∧ t.ref = r := by
  simp [Task.isFor]

theorem Bud.fire {c : Cfg} {B : Nat} {s r : Nat} {t : EvType} {σ : St} (h : Bud c B s r t σ) (s' r' : Nat) : Bud c B s r t (fire c σ s' r') := by
  unfold Nuts.C14.fire
  split
  · exact h
  · next tk hfind =>
    have hmem : tk ∈ σ.running := List.mem_of_find?_eq_some hfind
    have hfor : tk.isFor s' r' = true := List.find?_some hfind
    have hfor' := (isFor_iff s' r' tk).mp hfor
    have hle := h.leftPos tk hmem
    have he := leftSum_erase s r tk σ.running hmem
    have f := notifyNow_frame c { σ with running := σ.running.erase tk } s' r' s r
    have hpos0 : ∀ x, x ∈ σ.running.erase tk → 1 ≤ x.left := fun x hx => h.leftPos x (List.mem_of_mem_erase hx)
    -- the state after the attempt, loop not continued
    have plain : ∀ σ1, NowFrame { σ with running := σ.running.erase tk } σ1 s r s' r' → Bud c B s r t σ1 := by
      intro σ1 f
      refine ⟨?_, by rw [f.running]; exact hpos0, by rw [f.evented, f.dag]; exact h.evDag⟩
      rw [unadm_congr r t f.dag f.evented, f.pending]
      show spent σ1 s r + c.maxRetries * (pendCount (r, t) σ.pending + unadm σ r t) ≤ B
      refine pot_of (k := 0) h.pot ?_ (by omega)
      unfold spent; rw [f.running]
      have hc := f.calls
      show attemptNo σ1 s r + leftSum s r (σ.running.erase tk) ≤ attemptNo σ s r + leftSum s r σ.running + c.maxRetries * 0
      have ha : attemptNo { σ with running := σ.running.erase tk } s r = attemptNo σ s r := rfl
      rw [ha] at hc
      by_cases hsr : s' = s ∧ r' = r
      · have : tk.isFor s r = true := (isFor_iff s r tk).mpr ⟨hfor'.1.trans hsr.1, hfor'.2.trans hsr.2⟩
        rw [if_pos this] at he; rw [if_pos hsr] at hc; omega
      · rw [if_neg hsr] at hc; omega
    -- … and continued with one attempt less
    have readd : ∀ σ1, NowFrame { σ with running := σ.running.erase tk } σ1 s r s' r' → ¬ tk.left ≤ 1 →
        Bud c B s r t { σ1 with running := σ1.running ++ [{ tk with left := tk.left - 1, n := tk.n + 1 }] } := by
      intro σ1 f hgt
      refine ⟨?_, ?_, by show ∀ x, x ∈ σ1.evented → x ∈ σ1.dag; rw [f.evented, f.dag]; exact h.evDag⟩
      · have hu : unadm { σ1 with running := σ1.running ++ [{ tk with left := tk.left - 1, n := tk.n + 1 }] } r t = unadm σ r t :=
          unadm_congr r t f.dag f.evented
        rw [hu]
        show spent _ s r + c.maxRetries * (pendCount (r, t) σ1.pending + unadm σ r t) ≤ B
        rw [f.pending]
        show spent _ s r + c.maxRetries * (pendCount (r, t) σ.pending + unadm σ r t) ≤ B
        refine pot_of (k := 0) h.pot ?_ (by omega)
        show attemptNo σ1 s r + leftSum s r (σ1.running ++ [{ tk with left := tk.left - 1, n := tk.n + 1 }]) ≤
          attemptNo σ s r + leftSum s r σ.running + c.maxRetries * 0
        rw [leftSum_append, f.running]
        simp only [leftSum]
        have hc := f.calls
        have ha : attemptNo { σ with running := σ.running.erase tk } s r = attemptNo σ s r := rfl
        rw [ha] at hc
        have hiso : Task.isFor s r { tk with left := tk.left - 1, n := tk.n + 1 } = tk.isFor s r := rfl
        rw [hiso]
        by_cases hsr : s' = s ∧ r' = r
        · have : tk.isFor s r = true := (isFor_iff s r tk).mpr ⟨hfor'.1.trans hsr.1, hfor'.2.trans hsr.2⟩
          rw [if_pos this] at he ⊢; rw [if_pos hsr] at hc; omega
        · rw [if_neg hsr] at hc
          have : tk.isFor s r = false := by
            cases hx : tk.isFor s r with
            | false => rfl
            | true => exact absurd ⟨hfor'.1.symm.trans ((isFor_iff s r tk).mp hx).1, hfor'.2.symm.trans ((isFor_iff s r tk).mp hx).2⟩ hsr
          rw [this] at he ⊢; simp only [Bool.false_eq_true, if_false] at he ⊢; omega
      · intro x hx
        simp only [List.mem_append, List.mem_singleton] at hx
        rcases hx with hx | hx
        · rw [f.running] at hx; exact hpos0 x hx
        · subst hx; simp only; omega
    simp only
    split
    · next σ1 heq => rw [heq] at f; exact (plain σ1 f).crash
    · next σ1 heq => rw [heq] at f; exact plain σ1 f
    · next σ1 heq => rw [heq] at f; exact plain σ1 f
    · next σ1 heq =>
      rw [heq] at f
      split
      · exact plain σ1 f
      · next hn => exact readd σ1 f (by intro hle1; apply hn; simp [hle1])
    · next σ1 heq =>
      rw [heq] at f
      split
      · exact plain σ1 f
      · next hn => exact readd σ1 f hn

theorem saveEvent_evented (c : Cfg) (σ : St) (ev : Nat × EvType) : (saveEvent c σ ev).evented = σ.evented := (saveEvent_spec c σ ev).evented

/-- the fields of the state after an admission that the budget looks at -/
theorem addTx_fields (c : Cfg) (σ : St) (a : AddArgs) :
    (addTx c σ a).1 = σ ∨
    (a.ref ∉ σ.dag ∧ (addTx c σ a).1.ledger = σ.ledger ∧ (addTx c σ a).1.running = σ.running ∧
      (addTx c σ a).1.pending = σ.pending ++ ((a.ref, EvType.tx) :: (if a.withPayload then [(a.ref, EvType.payload)] else [])) ∧
      (addTx c σ a).1.dag = a.ref :: σ.dag ∧
      (addTx c σ a).1.evented = (if a.withPayload then a.ref :: σ.evented else σ.evented)) := by
  unfold addTx
  split; · left; rfl
  split; · left; rfl
  split; · left; rfl
  split; · left; rfl
  split; · left; rfl
  split; · left; rfl
  split; · left; rfl
  split; · left; rfl
  next _ h2 _ _ _ _ _ _ =>
  right
  refine ⟨h2, ?_⟩
  cases hw : a.withPayload <;>
    simp [saveEvent_ledger, saveEvent_running, saveEvent_pending, saveEvent_dag, saveEvent_evented]

theorem Bud.addTx {c : Cfg} {B : Nat} {s r : Nat} {t : EvType} {σ : St} (h : Bud c B s r t σ) (a : AddArgs) : Bud c B s r t (Nuts.C14.addTx c σ a).1 := by
  rcases addTx_fields c σ a with e | ⟨hnd, hl, hr, hp, hd, he⟩
  · rw [e]; exact h
  · have hne : a.ref ∉ σ.evented := fun hx => hnd (h.evDag _ hx)
    refine ⟨?_, by rw [hr]; exact h.leftPos, ?_⟩
    · have hsp : spent (Nuts.C14.addTx c σ a).1 s r = spent σ s r := by unfold spent attemptNo; rw [hl, hr]
      rw [hsp, hp, pendCount_append]
      refine pot_of (k := 0) h.pot (by omega) ?_
      by_cases hr' : a.ref = r
      · subst hr'
        cases t with
        | tx =>
          have h1 : unadm (Nuts.C14.addTx c σ a).1 a.ref .tx = 0 := by simp [unadm, hd]
          have h2 : unadm σ a.ref .tx = 1 := by simp [unadm, hnd]
          rw [h1, h2]
          cases hw : a.withPayload <;> simp [pendCount]
        | payload =>
          have h2 : unadm σ a.ref .payload = 1 := by simp [unadm, hne]
          rw [h2]
          cases hw : a.withPayload
          · have h1 : unadm (Nuts.C14.addTx c σ a).1 a.ref .payload = 1 := by simp [unadm, he, hw, hne]
            rw [h1]; simp [pendCount]
          · have h1 : unadm (Nuts.C14.addTx c σ a).1 a.ref .payload = 0 := by simp [unadm, he, hw]
            rw [h1]; simp [pendCount]
      · have hu : unadm (Nuts.C14.addTx c σ a).1 r t = unadm σ r t := by
          cases t
          · simp only [unadm, hd, List.mem_cons]
            have : ¬ r = a.ref := fun hx => hr' hx.symm
            simp [this]
          · simp only [unadm, he]
            cases hw : a.withPayload
            · simp
            · have : ¬ r = a.ref := fun hx => hr' hx.symm
              simp [this]
        rw [hu]
        have hz : pendCount (r, t) ((a.ref, EvType.tx) :: (if a.withPayload then [(a.ref, EvType.payload)] else [])) = 0 := by
          cases hw : a.withPayload <;> simp [pendCount, hr']
        rw [hz]; omega
    · intro x hx
      rw [he] at hx; rw [hd]
      cases hw : a.withPayload
      · rw [hw] at hx; exact List.mem_cons_of_mem _ (h.evDag x (by simpa using hx))
      · rw [hw] at hx
        simp only [if_true] at hx
        rcases List.mem_cons.mp hx with rfl | hx
        · exact List.mem_cons_self
        · exact List.mem_cons_of_mem _ (h.evDag x hx)

theorem writePayload_fields (c : Cfg) (hg : c.notifyGuarded = true) (σ : St) (ref : Nat) (cf : Bool) :
    (writePayload c σ ref cf).1 = σ ∨
    (ref ∈ σ.dag ∧ ¬ (c.skipPresent = true ∧ ref ∈ σ.evented) ∧ (writePayload c σ ref cf).1.ledger = σ.ledger ∧
      (writePayload c σ ref cf).1.running = σ.running ∧
      (writePayload c σ ref cf).1.pending = σ.pending ++ [(ref, EvType.payload)] ∧
      (writePayload c σ ref cf).1.dag = σ.dag ∧ (writePayload c σ ref cf).1.evented = ref :: σ.evented) := by
  unfold Nuts.C14.writePayload
  split; · left; rfl
  split; · left; rfl
  split; · left; simp [hg]
  next hd _ hns =>
  right
  refine ⟨Classical.not_not.mp hd, hns, ?_⟩
  simp [saveEvent_ledger, saveEvent_running, saveEvent_pending, saveEvent_dag, saveEvent_evented]

theorem Bud.writePayload {c : Cfg} {B : Nat} {s r : Nat} {t : EvType} {σ : St} (hskip : c.skipPresent = true) (hg : c.notifyGuarded = true)
    (h : Bud c B s r t σ) (ref : Nat) (cf : Bool) : Bud c B s r t (Nuts.C14.writePayload c σ ref cf).1 := by
  rcases writePayload_fields c hg σ ref cf with e | ⟨hd', hns, hl, hr, hp, hd, he⟩
  · rw [e]; exact h
  · have hne : ref ∉ σ.evented := fun hp => hns ⟨hskip, hp⟩
    refine ⟨?_, by rw [hr]; exact h.leftPos, ?_⟩
    · have hsp : spent (Nuts.C14.writePayload c σ ref cf).1 s r = spent σ s r := by unfold spent attemptNo; rw [hl, hr]
      rw [hsp, hp, pendCount_append]
      refine pot_of (k := 0) h.pot (by omega) ?_
      by_cases hr' : ref = r
      · subst hr'
        cases t with
        | tx =>
          have : unadm (Nuts.C14.writePayload c σ ref cf).1 ref .tx = unadm σ ref .tx := by simp [unadm, hd]
          rw [this]; simp [pendCount]
        | payload =>
          have h1 : unadm (Nuts.C14.writePayload c σ ref cf).1 ref .payload = 0 := by simp [unadm, he]
          have h2 : unadm σ ref .payload = 1 := by simp [unadm, hne]
          rw [h1, h2]; simp [pendCount]
      · have hu : unadm (Nuts.C14.writePayload c σ ref cf).1 r t = unadm σ r t := by
          have : ¬ r = ref := fun hx => hr' hx.symm
          cases t <;> simp [unadm, hd, he, this]
        rw [hu]
        have hz : pendCount (r, t) [(ref, EvType.payload)] = 0 := by simp [pendCount, hr']
        rw [hz]; omega
    · intro x hx
      rw [he] at hx; rw [hd]
      rcases List.mem_cons.mp hx with rfl | hx
      · exact hd'
      · exact h.evDag x hx

theorem Bud.finishedExt {c : Cfg} {B : Nat} {s r : Nat} {t : EvType} {σ : St} (h : Bud c B s r t σ) (s' r' : Nat) (fail : Bool) :
    Bud c B s r t (finishedExt σ s' r' fail) := by
  unfold Nuts.C14.finishedExt
  split; · exact h
  split; · exact h
  refine ⟨?_, h.leftPos, h.evDag⟩
  have hu : unadm (log (setJob σ s' r' none) (.fin s' r')) r t = unadm σ r t := unadm_congr r t rfl rfl
  rw [hu]
  refine pot_of (k := 0) h.pot ?_ (by simp only [setJob_pending, log_pending]; omega)
  simp only [spent, attemptNo, setJob_ledger, log_ledger, setJob_running, log_running]
  rw [attemptNo_fin]; omega

/-- an op of a run of the node between two restarts; `sync.Map.Range` visits every notifier once -/
def NoRestart : Op → Prop
  | .restart _ => False
  | .afterCommit order => order.Nodup
  | _ => True

theorem Bud.step {c : Cfg} {B : Nat} {s r : Nat} {t : EvType} {σ : St} (hM : 1 ≤ c.maxRetries) (hskip : c.skipPresent = true)
    (hg : c.notifyGuarded = true) (htyp : Typed c s t) (h : Bud c B s r t σ) (op : Op) (hop : NoRestart op) : Bud c B s r t (step c σ op) := by
  cases op with
  | add a => exact h.addTx a
  | afterCommit order => exact h.afterCommit hM htyp order hop
  | writePayload ref cf => exact h.writePayload hskip hg ref cf
  | finishedExt s' r' f => exact h.finishedExt s' r' f
  | fire s' r' => exact h.fire s' r'
  | crash => exact h.crash
  | restart order => cases hop

theorem Bud.init (c : Cfg) (s r : Nat) (t : EvType) : Bud c c.maxRetries s r t init := by
  refine ⟨?_, (by intro x hx; cases hx), (by intro x hx; cases hx)⟩
  cases t <;> simp [spent, attemptNo, leftSum, pendCount, unadm, Nuts.C14.init]

theorem Bud.run {c : Cfg} {B : Nat} {s r : Nat} {t : EvType} (hM : 1 ≤ c.maxRetries) (hskip : c.skipPresent = true)
    (hg : c.notifyGuarded = true) (htyp : Typed c s t) (ops : List Op) (hops : ∀ op, op ∈ ops → NoRestart op) (σ : St)
    (h : Bud c B s r t σ) : Bud c B s r t (run c σ ops) := by
  induction ops generalizing σ with
  | nil => exact h
  | cons op ops ih =>
    exact ih (fun o ho => hops o (List.mem_cons_of_mem _ ho)) _ (h.step hM hskip hg htyp op (hops op List.mem_cons_self))

/-! ## restarts: `Run` costs at most one more budget per event -/

theorem Bud.mono {c : Cfg} {B B' : Nat} {s r : Nat} {t : EvType} {σ : St} (h : Bud c B s r t σ) (hb : B ≤ B') : Bud c B' s r t σ :=
  ⟨Nat.le_trans h.pot hb, h.leftPos, h.evDag⟩

/-- how often transaction `r` occurs in a replay list of Run -/
def occ (r : Nat) : List (Nat × Nat) → Nat
  | [] => 0
  | p :: l => (if p.1 = r then 1 else 0) + occ r l

theorem occ_append (r : Nat) (l l' : List (Nat × Nat)) : occ r (l ++ l') = occ r l + occ r l' := by
  induction l with
  | nil => simp [occ]
  | cons p l ih => simp only [List.cons_append, occ, ih]; omega

theorem occ_zero (r : Nat) (l : List (Nat × Nat)) (h : ∀ b, b ∈ l → b.1 ≠ r) : occ r l = 0 := by
  induction l with
  | nil => rfl
  | cons p l ih =>
    simp only [occ]
    rw [ih (fun b hb => h b (List.mem_cons_of_mem _ hb)), if_neg (h p List.mem_cons_self)]

theorem occ_le_one_of_sorted (r : Nat) (l : List (Nat × Nat)) (h : l.Pairwise (fun a b => a.1 < b.1)) : occ r l ≤ 1 := by
  induction l with
  | nil => simp [occ]
  | cons p l ih =>
    obtain ⟨h1, h2⟩ := List.pairwise_cons.mp h
    simp only [occ]
    by_cases hp : p.1 = r
    · rw [occ_zero r l (fun b hb => by have := h1 b hb; omega)]; simp [hp]
    · have := ih h2; simp [hp]; omega

/-- quantities of (s, r) across the first loop of Run of subscriber s0: at most `k` more calls, nothing else moves -/
structure CallsFrame (σ σ' : St) (s r s0 : Nat) (k : Nat) : Prop where
  calls : attemptNo σ' s r ≤ attemptNo σ s r + (if s0 = s then k else 0)
  running : σ'.running = σ.running
  pending : σ'.pending = σ.pending
  dag : σ'.dag = σ.dag
  evented : σ'.evented = σ.evented

theorem CallsFrame.ofNow {σ σ' : St} {s r s0 r1 k : Nat} (hf : NowFrame σ σ' s r s0 r1) :
    CallsFrame σ σ' s r s0 ((if r1 = r then 1 else 0) + k) := by
  refine ⟨?_, hf.running, hf.pending, hf.dag, hf.evented⟩
  have h1 := hf.calls
  by_cases hs : s0 = s <;> by_cases hr : r1 = r <;> simp [hs, hr] at h1 ⊢ <;> omega

theorem CallsFrame.step {σ σ' σ'' : St} {s r s0 r1 k : Nat} (hf : NowFrame σ σ' s r s0 r1) (f : CallsFrame σ' σ'' s r s0 k) :
    CallsFrame σ σ'' s r s0 ((if r1 = r then 1 else 0) + k) := by
  refine ⟨?_, f.running.trans hf.running, f.pending.trans hf.pending, f.dag.trans hf.dag, f.evented.trans hf.evented⟩
  have h1 := hf.calls
  have h2 := f.calls
  by_cases hs : s0 = s <;> by_cases hr : r1 = r <;> simp [hs, hr] at h1 h2 ⊢ <;> omega

theorem occ_accNext (c : Cfg) (r r1 ret : Nat) (acc : List (Nat × Nat)) :
    occ r (if ret < c.maxRetries then acc ++ [(r1, ret)] else acc) ≤ occ r acc + (if r1 = r then 1 else 0) := by
  split
  · rw [occ_append]; simp [occ]
  · omega

theorem runCalls_bud (c : Cfg) (s0 s r : Nat) (l : List (Nat × Nat)) (σ : St) (acc : List (Nat × Nat)) :
    CallsFrame σ (runCalls c s0 l σ acc).1 s r s0 (occ r l) ∧ occ r (runCalls c s0 l σ acc).2.1 ≤ occ r acc + occ r l := by
  induction l generalizing σ acc with
  | nil => exact ⟨⟨by simp [runCalls], rfl, rfl, rfl, rfl⟩, by simp [runCalls, occ]⟩
  | cons p rest ih =>
    obtain ⟨r1, ret⟩ := p
    unfold runCalls
    have hf := notifyNow_frame c σ s0 r1 s r
    generalize notifyNow c σ s0 r1 = q at hf
    obtain ⟨σ', res⟩ := q
    simp only at hf
    have hacc := occ_accNext c r r1 ret acc
    cases res <;> simp only [occ]
    · obtain ⟨f, ha⟩ := ih σ' acc
      exact ⟨CallsFrame.step hf f, by omega⟩
    · obtain ⟨f, ha⟩ := ih σ' (if ret < c.maxRetries then acc ++ [(r1, ret)] else acc)
      exact ⟨CallsFrame.step hf f, by omega⟩
    · obtain ⟨f, ha⟩ := ih σ' (if ret < c.maxRetries then acc ++ [(r1, ret)] else acc)
      exact ⟨CallsFrame.step hf f, by omega⟩
    · exact ⟨CallsFrame.ofNow hf, by omega⟩
    · obtain ⟨f, ha⟩ := ih σ' (if ret < c.maxRetries then acc ++ [(r1, ret)] else acc)
      exact ⟨CallsFrame.step hf f, by omega⟩

theorem spawnAll_cons (c : Cfg) (s0 : Nat) (p : Nat × Nat) (rest : List (Nat × Nat)) (σ : St) :
    spawnAll c s0 (p :: rest) σ = spawnAll c s0 rest (spawn c σ s0 p.1 p.2) := rfl

theorem spawnAll_bud (c : Cfg) (s0 s r : Nat) (failed : List (Nat × Nat)) (σ : St) (hl : ∀ x, x ∈ σ.running → 1 ≤ x.left) :
    leftSum s r (spawnAll c s0 failed σ).running ≤ leftSum s r σ.running + (if s0 = s then occ r failed * (c.maxRetries - 1) else 0) ∧
    (∀ x, x ∈ (spawnAll c s0 failed σ).running → 1 ≤ x.left) ∧
    attemptNo (spawnAll c s0 failed σ) s r = attemptNo σ s r ∧ (spawnAll c s0 failed σ).pending = σ.pending ∧
    (spawnAll c s0 failed σ).dag = σ.dag ∧ (spawnAll c s0 failed σ).evented = σ.evented := by
  induction failed generalizing σ with
  | nil => exact ⟨by simp [spawnAll, occ], hl, rfl, rfl, rfl, rfl⟩
  | cons p rest ih =>
    rw [spawnAll_cons]
    obtain ⟨h1, h2, h3, h4, h5, h6⟩ := spawn_frame c σ s0 p.1 p.2 s r hl
    obtain ⟨i1, i2, i3, i4, i5, i6⟩ := ih (spawn c σ s0 p.1 p.2) h2
    refine ⟨?_, i2, i3.trans h3, i4.trans h4, i5.trans h5, i6.trans h6⟩
    simp only [occ, Nat.add_mul]
    by_cases hs : s0 = s <;> by_cases hr : p.1 = r <;> simp [hs, hr] at h1 i1 ⊢ <;> omega

theorem pot_add {M B sp sp' W d : Nat} (h : sp + M * W ≤ B) (h1 : sp' ≤ sp + d) : sp' + M * W ≤ B + d := by omega

/-- Run of subscriber s0: for (s, r) at most one synchronous call and one retry loop of at most maxRetries - 1 attempts -/
theorem Bud.runSub {c : Cfg} {B : Nat} {s r : Nat} {t : EvType} {σ : St} (hM : 1 ≤ c.maxRetries) (h : Bud c B s r t σ) (s0 : Nat) :
    Bud c (B + (if s0 = s then c.maxRetries else 0)) s r t (Nuts.C14.runSub c σ s0).1 := by
  unfold Nuts.C14.runSub
  obtain ⟨f, ha⟩ := runCalls_bud c s0 s r (runSnapshot c σ s0) σ []
  have hocc := occ_le_one_of_sorted r _ (snapshot_pairwise c σ s0)
  generalize runCalls c s0 (runSnapshot c σ s0) σ [] = q at f ha
  obtain ⟨σ1, failed, b⟩ := q
  simp only at f ha
  have hl1 : ∀ x, x ∈ σ1.running → 1 ≤ x.left := by rw [f.running]; exact h.leftPos
  have hu1 : unadm σ1 r t = unadm σ r t := unadm_congr r t f.dag f.evented
  have hc := f.calls
  cases b <;> simp only
  · obtain ⟨i1, i2, i3, i4, i5, i6⟩ := spawnAll_bud c s0 s r failed σ1 hl1
    refine ⟨?_, i2, by rw [i6, i5, f.evented, f.dag]; exact h.evDag⟩
    rw [unadm_congr r t (i5.trans f.dag) (i6.trans f.evented), i4, f.pending]
    refine pot_add h.pot ?_
    simp only [spent, i3]
    rw [f.running] at i1
    have hof : occ r failed ≤ 1 := by simp [occ] at ha; omega
    by_cases hs : s0 = s
    · subst hs
      simp only [if_true] at i1 hc ⊢
      have : occ r failed * (c.maxRetries - 1) ≤ c.maxRetries - 1 := by
        rcases Nat.le_one_iff_eq_zero_or_eq_one.mp hof with h0 | h1 <;> simp [*]
      omega
    · simp only [hs, if_false] at i1 hc ⊢; omega
  · refine ⟨?_, hl1, by rw [f.evented, f.dag]; exact h.evDag⟩
    rw [hu1, f.pending]
    refine pot_add h.pot ?_
    simp only [spent, f.running]
    by_cases hs : s0 = s
    · subst hs; simp only [if_true] at hc ⊢; omega
    · simp only [hs, if_false] at hc ⊢; omega

/-- how often subscriber `s` is run by one Network.Start (once: `Notifiers()` lists every notifier once) -/
def cnt (s : Nat) : List Nat → Nat
  | [] => 0
  | x :: l => (if x = s then 1 else 0) + cnt s l

theorem Bud.runAll {c : Cfg} {s r : Nat} {t : EvType} (hM : 1 ≤ c.maxRetries) (order : List Nat) :
    ∀ {B : Nat} {σ : St}, Bud c B s r t σ → Bud c (B + c.maxRetries * cnt s order) s r t (Nuts.C14.runAll c order σ).1 := by
  induction order with
  | nil => intro B σ h; exact h.mono (by simp [cnt])
  | cons s0 rest ih =>
    intro B σ h
    unfold Nuts.C14.runAll
    have h1 := h.runSub hM s0
    generalize Nuts.C14.runSub c σ s0 = p at h1
    obtain ⟨σ', b⟩ := p
    simp only [cnt, Nat.mul_add]
    cases b <;> simp only
    · refine (ih h1).mono ?_
      by_cases hs : s0 = s <;> simp [hs] <;> omega
    · refine h1.mono ?_
      by_cases hs : s0 = s <;> simp [hs] <;> omega

theorem Bud.restart {c : Cfg} {B : Nat} {s r : Nat} {t : EvType} {σ : St} (hM : 1 ≤ c.maxRetries) (h : Bud c B s r t σ) (order : List Nat) :
    Bud c (B + c.maxRetries * cnt s order) s r t (Nuts.C14.restart c σ order) := by
  unfold Nuts.C14.restart
  have h1 := Bud.runAll hM order h
  generalize Nuts.C14.runAll c order σ = p at h1
  obtain ⟨σ', b⟩ := p
  cases b <;> simp only
  · exact h1
  · exact h1.crash

/-- the ops of a history with restarts: only the Range orders of state.notify have to be duplicate-free -/
def OkOp : Op → Prop
  | .afterCommit order => order.Nodup
  | _ => True

/-- what an op adds to the budget of subscriber `s` -/
def opCost (c : Cfg) (s : Nat) : Op → Nat
  | .restart order => c.maxRetries * cnt s order
  | _ => 0

def runCost (c : Cfg) (s : Nat) (ops : List Op) : Nat := (ops.map (opCost c s)).sum

theorem Bud.stepR {c : Cfg} {B : Nat} {s r : Nat} {t : EvType} {σ : St} (hM : 1 ≤ c.maxRetries) (hskip : c.skipPresent = true)
    (hg : c.notifyGuarded = true) (htyp : Typed c s t) (h : Bud c B s r t σ) (op : Op) (hop : OkOp op) :
    Bud c (B + opCost c s op) s r t (Nuts.C14.step c σ op) := by
  cases op with
  | restart order => exact h.restart hM order
  | add a => exact h.step hM hskip hg htyp (.add a) trivial
  | afterCommit order => exact h.step hM hskip hg htyp (.afterCommit order) hop
  | writePayload ref cf => exact h.step hM hskip hg htyp (.writePayload ref cf) trivial
  | finishedExt s' r' f => exact h.step hM hskip hg htyp (.finishedExt s' r' f) trivial
  | fire s' r' => exact h.step hM hskip hg htyp (.fire s' r') trivial
  | crash => exact h.step hM hskip hg htyp .crash trivial

theorem Bud.runR {c : Cfg} {s r : Nat} {t : EvType} (hM : 1 ≤ c.maxRetries) (hskip : c.skipPresent = true)
    (hg : c.notifyGuarded = true) (htyp : Typed c s t) (ops : List Op) (hops : ∀ op, op ∈ ops → OkOp op) :
    ∀ {B : Nat} (σ : St), Bud c B s r t σ → Bud c (B + runCost c s ops) s r t (Nuts.C14.run c σ ops) := by
  induction ops with
  | nil => intro B σ h; exact h
  | cons op ops ih =>
    intro B σ h
    have h1 := h.stepR hM hskip hg htyp op (hops op List.mem_cons_self)
    have h2 := ih (fun o ho => hops o (List.mem_cons_of_mem _ ho)) _ h1
    refine h2.mono ?_
    simp [runCost, Nat.add_assoc]

end Nuts.C14
