/-
  C16 — helper lemmas for NutsProofs/Props/C16.lean (core Lean only).
-/
import NutsModel.C16.Discovery
import NutsModel.C16.Spec

namespace Nuts.C16

/-! ### the registration predicate of the property text -/

theorem hasKey_iff (s : Store) (subj id : String) :
    s.hasKey subj id = true ↔ ∃ r ∈ s.rows, r.subject = subj ∧ r.id = id := by
  simp [Store.hasKey, List.any_eq_true]

theorem validateRegistration_ok (e : Nat) (vp : VP) :
    validateRegistration e vp = .ok () ↔
      (vp.creds.any (fun c => !c.hasId) = false ∧
       (∀ c ∈ vp.creds, ∀ ce, c.exp = some ce → e ≤ ce) ∧ vp.pex = .matched vp.creds.length) := by
  unfold validateRegistration
  constructor
  · intro h
    split at h
    · cases h
    · rename_i hid
      split at h
      · cases h
      · rename_i hany
        split at h
        · cases h
        · rename_i n hp
          split at h
          · cases h
          · rename_i hn
            refine ⟨by simpa using hid, ?_, ?_⟩
            · intro c hc ce hce
              apply Nat.le_of_not_lt
              intro hlt
              apply hany
              simp only [List.any_eq_true]
              exact ⟨c, hc, by simp [Cred.expiresBefore, hce, hlt]⟩
            · have : n = vp.creds.length := by
                apply Decidable.byContradiction; intro hne; exact hn hne
              rw [hp, this]
  · rintro ⟨h0, h1, h2⟩
    have hany : ¬ (vp.creds.any (fun c => c.expiresBefore e) = true) := by
      simp only [List.any_eq_true]
      rintro ⟨c, hc, hx⟩
      cases hce : c.exp with
      | none => simp [Cred.expiresBefore, hce] at hx
      | some ce =>
        simp [Cred.expiresBefore, hce] at hx
        have := h1 c hc ce hce
        omega
    rw [h0, if_neg hany, h2]
    simp

theorem Acceptable.credsHaveId {d : Def} {side : Side} {s : Store} {now : Nat} {vp : VP} {subj : String} {e : Nat}
    (h : Acceptable d side s now vp subj e) : vp.creds.any (fun c => !c.hasId) = false := by
  cases hr : vp.retraction with
  | true => rw [(h.retraction hr).1]; rfl
  | false => exact (h.registration hr).1

theorem validateRetraction_ok (s : Store) (subj : String) (vp : VP) :
    validateRetraction s subj vp = .ok () ↔
      (vp.creds = [] ∧ ∃ j, vp.retractJti = some j ∧ j ≠ "" ∧ ∃ r ∈ s.rows, r.subject = subj ∧ r.id = j) := by
  unfold validateRetraction
  constructor
  · intro h
    split at h
    · cases h
    · rename_i hl
      split at h
      · cases h
      · rename_i j hj
        split at h
        · cases h
        · rename_i hne
          split at h
          · rename_i hk
            refine ⟨?_, j, hj, hne, (hasKey_iff s subj j).mp hk⟩
            cases hc : vp.creds with
            | nil => rfl
            | cons a l => simp [hc] at hl
          · cases h
  · rintro ⟨hc, j, hj, hne, hr⟩
    have hk := (hasKey_iff s subj j).mpr hr
    simp [hc, hj, hne, hk]

theorem verify_ok_acceptable (d : Def) (side : Side) (s : Store) (now : Nat) (vp : VP) :
    verify d s now side vp = .ok () ↔ ∃ subj e, Acceptable d side s now vp subj e := by
  constructor
  · intro h
    unfold verify at h
    split at h
    · cases h
    · rename_i hjwt
      split at h
      · cases h
      · rename_i i hid
        split at h
        · cases h
        · rename_i haud
          split at h
          · cases h
          · rename_i e hexp
            split at h
            · cases h
            · rename_i hlong
              split at h
              · cases h
              · rename_i subj m hsig
                split at h
                · cases h
                · rename_i hmeth
                  split at h
                  · cases h
                  · cases h
                  · rename_i hbody
                    split at h
                    · rename_i hver
                      refine ⟨subj, e, ?_⟩
                      have hj : vp.jwt = true := by cases hv : vp.jwt <;> simp_all
                      refine ⟨hj, ⟨i, hid⟩, ?_, hexp, by omega, ⟨m, hsig, ?_⟩, (by simp only [Bool.and_eq_true] at hver; exact hver.1), (by simp only [Bool.and_eq_true] at hver; exact hver.2), ?_, ?_⟩
                      · simpa using haud
                      · cases hm : d.didMethods with
                        | nil => exact Or.inl rfl
                        | cons a l =>
                          right
                          rw [← hm]
                          apply Decidable.byContradiction
                          intro hn
                          apply hmeth
                          simp [hm] at hn ⊢
                          simp [hn]
                      · intro hr
                        rw [hr] at hbody
                        exact (validateRegistration_ok e vp).mp (by simpa using hbody)
                      · intro hr
                        rw [hr] at hbody
                        exact (validateRetraction_ok s subj vp).mp (by simpa using hbody)
                    · cases h
  · rintro ⟨subj, e, hA⟩
    obtain ⟨i, hid⟩ := hA.hasId
    obtain ⟨m, hsig, hmeth⟩ := hA.signer
    have hbody : (if vp.retraction then validateRetraction s subj vp else validateRegistration e vp) = .ok () := by
      cases hr : vp.retraction with
      | true => simpa using (validateRetraction_ok s subj vp).mpr (hA.retraction hr)
      | false => simpa using (validateRegistration_ok e vp).mpr (hA.registration hr)
    have hm : 0 < d.didMethods.length → m ∈ d.didMethods := by
      intro h1
      rcases hmeth with h | h
      · simp [h] at h1
      · exact h
    have hl : ¬ (now + d.maxValidity < e) := by have := hA.within; omega
    unfold verify
    simp [hA.jwt, hid, hA.addressed, hA.exp, hl, hsig, hbody, hA.verifiable, hA.available]
    exact hm

/-! ### `add` and `Register` -/

/-- the successful branch of `sqlStore.add` -/
def addOk (s : Store) (now : Nat) (vp : VP) (subj id : String) (e seed ts : Nat) : Store × Row :=
  let s1 := s.prune now
  let row : Row := { pk := s1.nextPk, ts := ts, subject := subj, id := id, exp := e, vp := vp }
  ({ s1 with seed := seed, lastTs := ts, rows := s1.rows.filter (fun r => !(r.subject == subj)) ++ [row],
             nextPk := s1.nextPk + 1 }, row)

theorem add_eq (s : Store) (now : Nat) (vp : VP) (seed ts fresh : Nat) (subj m id : String) (e : Nat)
    (hs : vp.signer = some (subj, m)) (hi : vp.id = some id) (he : vp.exp = some e) (hj : vp.jwt = true)
    (hc : vp.creds.any (fun c => !c.hasId) = false) :
    s.add now vp seed ts fresh =
      ((addOk s now vp subj id e
          (if ts = 0 then (if s.seed = 0 then (if seed = 0 then fresh else seed) else s.seed) else seed)
          (if ts = 0 then s.lastTs + 1 else ts)).1,
       .ok (addOk s now vp subj id e
          (if ts = 0 then (if s.seed = 0 then (if seed = 0 then fresh else seed) else s.seed) else seed)
          (if ts = 0 then s.lastTs + 1 else ts)).2) := by
  unfold Store.add addOk
  simp only [hs, hi, he, hj, hc]
  simp [Store.prune]
  rfl

theorem register_cases (d : Def) (s : Store) (now fresh : Nat) (vp : VP) :
    (∃ o, register d s now fresh vp = (s, o) ∧ o ≠ .ok ()) ∨
    (∃ subj e id, Acceptable d .server s now vp subj e ∧ vp.id = some id ∧ s.hasKey subj id = false ∧
      register d s now fresh vp =
        (((addOk s now vp subj id e (if s.seed = 0 then fresh else s.seed) (s.lastTs + 1)).1).setValidated s.nextPk, .ok ())) := by
  cases hv : verify d s now .server vp with
  | err e => left; exact ⟨.err e, by simp [register, hv], by simp⟩
  | panic p => left; exact ⟨.panic p, by simp [register, hv], by simp⟩
  | ok u =>
    obtain ⟨subj, e, hA⟩ := (verify_ok_acceptable d .server s now vp).mp hv
    obtain ⟨id, hid⟩ := hA.hasId
    obtain ⟨m, hsig, _⟩ := hA.signer
    cases hk : s.hasKey subj id with
    | true => left; exact ⟨.err "exists", by simp [register, hv, hsig, hid, hk], by simp⟩
    | false =>
      right
      refine ⟨subj, e, id, hA, hid, hk, ?_⟩
      have := add_eq s now vp 0 0 fresh subj m id e hsig hid hA.exp hA.jwt hA.credsHaveId
      simp only [if_true] at this
      simp [register, hv, hsig, hid, hk, this, addOk, Store.prune]


/-! ### invariant of a list that hands out its own timestamps (the server) -/

theorem sinv_empty : SInv {} where
  sorted := List.Pairwise.nil
  bound := by intro r h; cases h
  onePer := List.Pairwise.nil
  seed0 := fun _ => ⟨rfl, rfl⟩
  seedPos := fun h => absurd rfl h
  wf := by intro r h; cases h

theorem mem_prune {s : Store} {now : Nat} {r : Row} : r ∈ (s.prune now).rows ↔ r ∈ s.rows ∧ ¬ r.exp < now := by
  simp [Store.prune, List.mem_filter]

theorem mem_kept {s : Store} {now : Nat} {subj : String} {r : Row} :
    r ∈ ((s.prune now).rows.filter (fun r => !(r.subject == subj))) ↔ r ∈ s.rows ∧ ¬ r.exp < now ∧ r.subject ≠ subj := by
  simp only [Store.prune, List.mem_filter, beq_eq_false_iff_ne, ne_eq, decide_eq_false_iff_not, Bool.not_eq_eq_eq_not, Bool.not_true]
  constructor
  · rintro ⟨⟨a, b⟩, c⟩; exact ⟨a, by simpa using b, c⟩
  · rintro ⟨a, b, c⟩; exact ⟨⟨a, by simpa using b⟩, c⟩

theorem mem_addOk {s : Store} {now : Nat} {vp : VP} {subj id : String} {e seed ts : Nat} {r : Row} :
    r ∈ (addOk s now vp subj id e seed ts).1.rows ↔
      (r ∈ s.rows ∧ ¬ r.exp < now ∧ r.subject ≠ subj) ∨ r = (addOk s now vp subj id e seed ts).2 := by
  unfold addOk
  simp only [List.mem_append, List.mem_singleton]
  rw [mem_kept]

theorem sinv_addOk (s : Store) (now : Nat) (vp : VP) (subj m id : String) (e seed : Nat) (h : SInv s)
    (hs : vp.signer = some (subj, m)) (hi : vp.id = some id) (he : vp.exp = some e) (hj : vp.jwt = true)
    (hcr : vp.creds.any (fun c => !c.hasId) = false) (hseed : seed ≠ 0) :
    SInv (addOk s now vp subj id e seed (s.lastTs + 1)).1 := by
  have hsub : ∀ r, r ∈ ((s.prune now).rows.filter (fun r => !(r.subject == subj))) → r ∈ s.rows :=
    fun r hr => (mem_kept.mp hr).1
  have hsl : ((s.prune now).rows.filter (fun r => !(r.subject == subj))).Sublist s.rows := by
    unfold Store.prune
    exact (List.filter_sublist).trans List.filter_sublist
  refine ⟨?_, ?_, ?_, ?_, ?_, ?_⟩
  · show (_ ++ [_]).Pairwise _
    rw [List.pairwise_append]
    refine ⟨h.sorted.sublist hsl, List.pairwise_singleton _ _, ?_⟩
    intro a ha b hb
    simp only [List.mem_singleton] at hb
    subst hb
    have := (h.bound a (hsub a ha)).2
    show a.ts < s.lastTs + 1
    omega
  · intro r hr
    rcases mem_addOk.mp hr with ⟨h1, _, _⟩ | h1
    · have := h.bound r h1
      show 1 ≤ r.ts ∧ r.ts ≤ s.lastTs + 1
      omega
    · subst h1
      show 1 ≤ s.lastTs + 1 ∧ s.lastTs + 1 ≤ s.lastTs + 1
      omega
  · show (_ ++ [_]).Pairwise _
    rw [List.pairwise_append]
    refine ⟨h.onePer.sublist hsl, List.pairwise_singleton _ _, ?_⟩
    intro a ha b hb
    simp only [List.mem_singleton] at hb
    subst hb
    exact (mem_kept.mp ha).2.2
  · intro h0
    exact absurd h0 hseed
  · intro _
    refine ⟨by show 1 ≤ s.lastTs + 1; omega, ?_⟩
    show _ ++ [_] ≠ []
    simp
  · intro r hr
    rcases mem_addOk.mp hr with ⟨h1, _, _⟩ | h1
    · exact h.wf r h1
    · subst h1
      exact ⟨⟨m, hs⟩, hi, he, hj, hcr⟩

theorem sinv_setValidated {s : Store} (pk : Nat) (h : SInv s) : SInv (s.setValidated pk) :=
  ⟨h.sorted, h.bound, h.onePer, h.seed0, h.seedPos, h.wf⟩


/-! ### the server side of a world -/

theorem Listed.mono {d : Def} {t t' : Nat} {r : Row} (h : Listed d t r) (ht : t ≤ t') : Listed d t' r := by
  obtain ⟨s, now, h1, h2, h3⟩ := h
  exact ⟨s, now, by omega, h2, h3⟩

structure ServerOK (d : Def) (w : World) : Prop where
  inv : SInv w.S
  listed : ∀ r ∈ w.S.rows, Listed d w.t r

theorem serverOK_init (d : Def) (t : Nat) : ServerOK d { t := t } :=
  ⟨sinv_empty, by intro r h; cases h⟩

/-- only `register`, `reset` and the clock touch the server side -/
theorem step_server (cfg : Cfg) (d : Def) (w : World) (e : Ev) :
    ((step cfg d w e).1.S = w.S ∧ w.t ≤ (step cfg d w e).1.t) ∨
    ((step cfg d w e).1.S = {} ∧ (step cfg d w e).1.t = w.t) ∨
    (∃ vp, (step cfg d w e).1.S = (register d w.S w.t (w.ctr + 1) vp).1 ∧ (step cfg d w e).1.t = w.t) := by
  cases e with
  | tick n => left; simp [step]
  | register vp => right; right; exact ⟨vp, by simp [step], by simp [step]⟩
  | reset => right; left; simp [step]
  | pollA => left; simp [step]
  | pollB perm =>
    left
    unfold step
    cases w.pending <;> simp
  | validate => left; simp [step]
  | clientVerifier up => left; simp [step]
  | restartServer => left; simp [step]
  | restartClient => left; simp [step]
  | dpollStart => left; simp [step]
  | dpollFinish i perm =>
    left
    simp only [step]
    split <;> simp

theorem serverOK_register (d : Def) (s : Store) (t fresh : Nat) (vp : VP) (hf : fresh ≠ 0)
    (hi : SInv s) (hl : ∀ r ∈ s.rows, Listed d t r) :
    SInv (register d s t fresh vp).1 ∧ ∀ r ∈ (register d s t fresh vp).1.rows, Listed d t r := by
  rcases register_cases d s t fresh vp with ⟨o, ho, _⟩ | ⟨subj, e, id, hA, hid, _, hreg⟩
  · rw [ho]; exact ⟨hi, hl⟩
  · rw [hreg]
    obtain ⟨m, hsig, _⟩ := hA.signer
    have hseed : (if s.seed = 0 then fresh else s.seed) ≠ 0 := by
      split <;> assumption
    refine ⟨sinv_setValidated _ (sinv_addOk s t vp subj m id e _ hi hsig hid hA.exp hA.jwt hA.credsHaveId hseed), ?_⟩
    intro r hr
    have hr' : r ∈ (addOk s t vp subj id e (if s.seed = 0 then fresh else s.seed) (s.lastTs + 1)).1.rows := hr
    rcases mem_addOk.mp hr' with ⟨h1, _, _⟩ | h1
    · exact hl r h1
    · subst h1
      exact ⟨s, t, Nat.le_refl _, hi, hA⟩

theorem serverOK_step (cfg : Cfg) (d : Def) (w : World) (e : Ev) (h : ServerOK d w) :
    ServerOK d (step cfg d w e).1 := by
  rcases step_server cfg d w e with ⟨hS, ht⟩ | ⟨hS, _⟩ | ⟨vp, hS, ht⟩
  · exact ⟨by rw [hS]; exact h.inv, by rw [hS]; intro r hr; exact (h.listed r hr).mono ht⟩
  · exact ⟨by rw [hS]; exact sinv_empty, by rw [hS]; intro r hr; cases hr⟩
  · have := serverOK_register d w.S w.t (w.ctr + 1) vp (by omega) h.inv h.listed
    exact ⟨by rw [hS]; exact this.1, by rw [hS, ht]; exact this.2⟩

theorem run_inv (cfg : Cfg) (d : Def) (P : World → Prop) (hstep : ∀ w e, P w → P (step cfg d w e).1) :
    ∀ (evs : List Ev) (w : World), P w → P (run cfg d w evs) := by
  intro evs
  induction evs with
  | nil => intro w h; exact h
  | cons e es ih => intro w h; exact ih _ (hstep w e h)

theorem serverOK_run (cfg : Cfg) (d : Def) (evs : List Ev) (w : World) (h : ServerOK d w) :
    ServerOK d (run cfg d w evs) :=
  run_inv cfg d (ServerOK d) (fun w e => serverOK_step cfg d w e) evs w h


/-! ### the client loop as an iteration -/

theorem RowWF.vpwf {r : Row} (h : RowWF r) : VPWF r.vp r.subject r.id r.exp := h

def seedOf (c : Store) (seed ts fresh : Nat) : Nat :=
  if ts = 0 then (if c.seed = 0 then (if seed = 0 then fresh else seed) else c.seed) else seed
def tsOf (c : Store) (ts : Nat) : Nat := if ts = 0 then c.lastTs + 1 else ts

/-- one round of the loop in `updateService` for a well-formed presentation -/
def clientIter (d : Def) (now seed ts : Nat) (c : Store) (ctr : Nat) (vp : VP) (subj id : String) (e : Nat) : Store × Nat :=
  if c.hasKey subj id then (c, ctr) else
    let a := addOk c now vp subj id e (seedOf c seed ts (ctr + 1)) (tsOf c ts)
    (match verify d a.1 now .client vp with
      | .ok () => a.1.setValidated a.2.pk
      | _ => a.1, ctr + 1)

theorem clientLoop_cons (d : Def) (now seed ts : Nat) (c : Store) (ctr : Nat) (vp : VP) (rest : List VP)
    (subj id : String) (e : Nat) (h : VPWF vp subj id e) :
    clientLoop d now seed ts c ctr (vp :: rest) =
      clientLoop d now seed ts (clientIter d now seed ts c ctr vp subj id e).1 (clientIter d now seed ts c ctr vp subj id e).2 rest := by
  obtain ⟨⟨m, hs⟩, hi, he, hj, hcr⟩ := h
  unfold clientIter
  conv => lhs; unfold clientLoop
  simp only [hj, hs, hi, Bool.true_eq_false, ↓reduceIte]
  cases hk : c.hasKey subj id with
  | true => simp
  | false =>
    have := add_eq c now vp seed ts (ctr + 1) subj m id e hs hi he hj hcr
    simp only [Bool.false_eq_true, if_false]
    rw [this]
    simp only [seedOf, tsOf]
    generalize verify d _ now Side.client vp = v
    cases v with
    | ok u => cases u; rfl
    | err e => rfl
    | panic p => rfl

/-- induction principle for the loop: `P done c ctr` is kept by every round -/
theorem clientLoop_ind (d : Def) (now seed ts : Nat) (P : List VP → Store → Nat → Prop) :
    ∀ (resp : List VP) (done : List VP) (c : Store) (ctr : Nat),
      (∀ vp ∈ resp, ∃ subj id e, VPWF vp subj id e) →
      (∀ done c ctr vp subj id e, vp ∈ resp → VPWF vp subj id e → P done c ctr →
          P (vp :: done) (clientIter d now seed ts c ctr vp subj id e).1 (clientIter d now seed ts c ctr vp subj id e).2) →
      P done c ctr →
      ∃ done', (∀ vp, vp ∈ done' ↔ vp ∈ resp ∨ vp ∈ done) ∧
        P done' (clientLoop d now seed ts c ctr resp).1 (clientLoop d now seed ts c ctr resp).2.1 ∧
        (clientLoop d now seed ts c ctr resp).2.2 = .ok () := by
  intro resp
  induction resp with
  | nil =>
    intro done c ctr _ _ h
    exact ⟨done, by simp, by simpa [clientLoop] using h, by simp [clientLoop]⟩
  | cons vp rest ih =>
    intro done c ctr hwf hstep h
    obtain ⟨subj, id, e, hv⟩ := hwf vp (by simp)
    rw [clientLoop_cons d now seed ts c ctr vp rest subj id e hv]
    have h1 := hstep done c ctr vp subj id e (by simp) hv h
    obtain ⟨done', hd, hp, hok⟩ := ih (vp :: done) _ _ (fun v hv' => hwf v (by simp [hv']))
      (fun done c ctr v s i e' hv' => hstep done c ctr v s i e' (by simp [hv'])) h1
    refine ⟨done', ?_, hp, hok⟩
    intro v
    rw [hd v]
    simp only [List.mem_cons]
    constructor
    · rintro (h | h | h)
      · exact Or.inl (Or.inr h)
      · exact Or.inl (Or.inl h)
      · exact Or.inr h
    · rintro ((h | h) | h)
      · exact Or.inr (Or.inl h)
      · exact Or.inl h
      · exact Or.inr (Or.inr h)


/-! ### replica invariants -/

def keyIn (rows : List Row) (subj id : String) : Prop := ∃ r ∈ rows, r.subject = subj ∧ r.id = id

/-- every live server row at or below `τ` is held by the client -/
def J2 (S C : Store) (t τ : Nat) : Prop :=
  ∀ r ∈ S.rows, r.ts ≤ τ → t < r.exp → keyIn C.rows r.subject r.id

/-- every live client row is listed by the server, or its subject has a newer entry (above `τ`) that does not expire earlier -/
def J3 (S C : Store) (t τ : Nat) : Prop :=
  ∀ c ∈ C.rows, t < c.exp → keyIn S.rows c.subject c.id ∨ ∃ r ∈ S.rows, r.subject = c.subject ∧ τ < r.ts ∧ c.exp ≤ r.exp

theorem pairwise_subject_inj {l : List Row} (h : l.Pairwise (fun a b => a.subject ≠ b.subject)) {a b : Row}
    (ha : a ∈ l) (hb : b ∈ l) (hs : a.subject = b.subject) : a = b := by
  induction l with
  | nil => cases ha
  | cons x xs ih =>
    rw [List.pairwise_cons] at h
    rcases List.mem_cons.mp ha with rfl | ha'
    · rcases List.mem_cons.mp hb with rfl | hb'
      · rfl
      · exact absurd hs (h.1 b hb')
    · rcases List.mem_cons.mp hb with rfl | hb'
      · exact absurd hs.symm (h.1 a ha')
      · exact ih h.2 ha' hb'

theorem same_key {K : VP → Prop} (hK : IdFun K) {a b : Row} (wa : RowWF a) (wb : RowWF b) (ka : K a.vp) (kb : K b.vp)
    (hs : a.subject = b.subject) (hi : a.id = b.id) : a.vp = b.vp ∧ a.exp = b.exp := by
  obtain ⟨⟨ma, sa⟩, ia, ea, _⟩ := wa
  obtain ⟨⟨mb, sb⟩, ib, eb, _⟩ := wb
  have : a.vp = b.vp := hK a.vp b.vp ka kb a.subject ma mb sa (by rw [hs]; exact sb) (by rw [ia, ib, hi])
  refine ⟨this, ?_⟩
  rw [this, eb] at ea
  exact (Option.some.inj ea).symm

theorem vpwf_of_row {r : Row} (h : RowWF r) {subj id : String} {e : Nat} (hv : VPWF r.vp subj id e) :
    subj = r.subject ∧ id = r.id ∧ e = r.exp := by
  obtain ⟨⟨m, s1⟩, i1, e1, _⟩ := h
  obtain ⟨⟨m', s2⟩, i2, e2, _⟩ := hv
  rw [s1] at s2; rw [i1] at i2; rw [e1] at e2
  cases s2; cases i2; cases e2
  exact ⟨rfl, rfl, rfl⟩

theorem iter_rows_skip {d : Def} {now seed ts : Nat} {c : Store} {ctr : Nat} {vp : VP} {subj id : String} {e : Nat}
    (hk : c.hasKey subj id = true) : clientIter d now seed ts c ctr vp subj id e = (c, ctr) := by
  simp [clientIter, hk]

theorem iter_rows_add {d : Def} {now seed ts : Nat} {c : Store} {ctr : Nat} {vp : VP} {subj id : String} {e : Nat}
    (hk : c.hasKey subj id = false) :
    (clientIter d now seed ts c ctr vp subj id e).1.rows =
      (addOk c now vp subj id e (seedOf c seed ts (ctr + 1)) (tsOf c ts)).1.rows := by
  simp only [clientIter, hk, Bool.false_eq_true, if_false]
  split <;> rfl

structure PB (K : VP → Prop) (S : Store) (t after : Nat) (done : List VP) (c : Store) : Prop where
  wf : ∀ r ∈ c.rows, RowWF r
  k : ∀ r ∈ c.rows, K r.vp
  one : c.rows.Pairwise (fun a b => a.subject ≠ b.subject)
  j2 : J2 S c t after
  j3 : J3 S c t after
  q : ∀ vp ∈ done, ∀ r ∈ S.rows, r.vp = vp → t < r.exp → keyIn c.rows r.subject r.id

theorem pb_step {K : VP → Prop} (hK : IdFun K) {S : Store} (hS : SInv S) (hSK : ∀ r ∈ S.rows, K r.vp)
    {d : Def} {t after seed ts : Nat} {done : List VP} {c : Store} {ctr : Nat} {vp : VP} {subj id : String} {e : Nat}
    (rv : Row) (hrv : rv ∈ S.rows) (hvp : rv.vp = vp) (hafter : after < rv.ts) (hv : VPWF vp subj id e)
    (h : PB K S t after done c) :
    PB K S t after (vp :: done) (clientIter d t seed ts c ctr vp subj id e).1 := by
  have hwrv := hS.wf rv hrv
  obtain ⟨hsubj, hid, he⟩ := vpwf_of_row hwrv (hvp ▸ hv)
  cases hk : c.hasKey subj id with
  | true =>
    rw [iter_rows_skip hk]
    refine ⟨h.wf, h.k, h.one, h.j2, h.j3, ?_⟩
    intro v hvm r hr hrvp hlive
    rcases List.mem_cons.mp hvm with rfl | hd
    · obtain ⟨s1, i1, _⟩ := vpwf_of_row (hS.wf r hr) (hrvp ▸ hv)
      rw [← s1, ← i1]
      exact (hasKey_iff c subj id).mp hk
    · exact h.q v hd r hr hrvp hlive
  | false =>
    have hrows := iter_rows_add (d := d) (now := t) (seed := seed) (ts := ts) (ctr := ctr) (vp := vp) (e := e) hk
    have hmem : ∀ r, r ∈ (clientIter d t seed ts c ctr vp subj id e).1.rows ↔
        (r ∈ c.rows ∧ ¬ r.exp < t ∧ r.subject ≠ subj) ∨ r = (addOk c t vp subj id e (seedOf c seed ts (ctr + 1)) (tsOf c ts)).2 := by
      intro r; rw [hrows]; exact mem_addOk
    have hnk : ∀ x ∈ c.rows, x.subject = subj → x.id = id → False := by
      intro x hx h1 h2
      have := (hasKey_iff c subj id).mpr ⟨x, hx, h1, h2⟩
      rw [hk] at this; cases this
    -- a client row with the key of a live server row other than `rv` survives the add
    have hkeep : ∀ r ∈ S.rows, t < r.exp → r ≠ rv → ∀ x ∈ c.rows, x.subject = r.subject → x.id = r.id →
        x ∈ (clientIter d t seed ts c ctr vp subj id e).1.rows := by
      intro r hr hlive hne x hx h1 h2
      refine (hmem x).mpr (Or.inl ⟨hx, ?_, ?_⟩)
      · have := (same_key hK (h.wf x hx) (hS.wf r hr) (h.k x hx) (hSK r hr) h1 h2).2
        omega
      · intro hxs
        apply hne
        exact pairwise_subject_inj hS.onePer hr hrv (by rw [← h1, hxs, hsubj])
    refine ⟨?_, ?_, ?_, ?_, ?_, ?_⟩
    · intro r hr
      rcases (hmem r).mp hr with ⟨h1, _, _⟩ | h1
      · exact h.wf r h1
      · subst h1; exact hv
    · intro r hr
      rcases (hmem r).mp hr with ⟨h1, _, _⟩ | h1
      · exact h.k r h1
      · subst h1; show K vp; rw [← hvp]; exact hSK rv hrv
    · rw [hrows]
      show (_ ++ [_]).Pairwise _
      rw [List.pairwise_append]
      refine ⟨h.one.sublist ?_, List.pairwise_singleton _ _, ?_⟩
      · unfold Store.prune
        exact (List.filter_sublist).trans List.filter_sublist
      · intro a ha b hb
        simp only [List.mem_singleton] at hb
        subst hb
        exact (mem_kept.mp ha).2.2
    · intro r hr hts hlive
      obtain ⟨x, hx, h1, h2⟩ := h.j2 r hr hts hlive
      have hne : r ≠ rv := by intro h; subst h; omega
      exact ⟨x, hkeep r hr hlive hne x hx h1 h2, h1, h2⟩
    · intro y hy hlive
      rcases (hmem y).mp hy with ⟨h1, _, _⟩ | h1
      · exact h.j3 y h1 hlive
      · subst h1
        left
        exact ⟨rv, hrv, hsubj.symm, hid.symm⟩
    · intro v hvm r hr hrvp hlive
      rcases List.mem_cons.mp hvm with rfl | hd
      · obtain ⟨s1, i1, _⟩ := vpwf_of_row (hS.wf r hr) (hrvp ▸ hv)
        exact ⟨_, (hmem _).mpr (Or.inr rfl), s1, i1⟩
      · obtain ⟨x, hx, h1, h2⟩ := h.q v hd r hr hrvp hlive
        by_cases hne : r = rv
        · subst hne
          exact (hnk x hx (h1.trans hsubj.symm) (h2.trans hid.symm)).elim
        · exact ⟨x, hkeep r hr hlive hne x hx h1 h2, h1, h2⟩


/-- the rows part that holds of every replica, synchronised or not -/
structure PA (K : VP → Prop) (c : Store) : Prop where
  wf : ∀ r ∈ c.rows, RowWF r
  k : ∀ r ∈ c.rows, K r.vp
  one : c.rows.Pairwise (fun a b => a.subject ≠ b.subject)

theorem PB.pa {K : VP → Prop} {S : Store} {t after : Nat} {done : List VP} {c : Store} (h : PB K S t after done c) : PA K c :=
  ⟨h.wf, h.k, h.one⟩

theorem pa_step {K : VP → Prop} {d : Def} {t seed ts : Nat} {c : Store} {ctr : Nat} {vp : VP} {subj id : String} {e : Nat}
    (hkv : K vp) (hv : VPWF vp subj id e) (h : PA K c) :
    PA K (clientIter d t seed ts c ctr vp subj id e).1 := by
  cases hk : c.hasKey subj id with
  | true => rw [iter_rows_skip hk]; exact h
  | false =>
    have hrows := iter_rows_add (d := d) (now := t) (seed := seed) (ts := ts) (ctr := ctr) (vp := vp) (e := e) hk
    have hmem : ∀ r, r ∈ (clientIter d t seed ts c ctr vp subj id e).1.rows ↔
        (r ∈ c.rows ∧ ¬ r.exp < t ∧ r.subject ≠ subj) ∨ r = (addOk c t vp subj id e (seedOf c seed ts (ctr + 1)) (tsOf c ts)).2 := by
      intro r; rw [hrows]; exact mem_addOk
    refine ⟨?_, ?_, ?_⟩
    · intro r hr
      rcases (hmem r).mp hr with ⟨h1, _, _⟩ | h1
      · exact h.wf r h1
      · subst h1; exact hv
    · intro r hr
      rcases (hmem r).mp hr with ⟨h1, _, _⟩ | h1
      · exact h.k r h1
      · subst h1; exact hkv
    · rw [hrows]
      show (_ ++ [_]).Pairwise _
      rw [List.pairwise_append]
      refine ⟨h.one.sublist ?_, List.pairwise_singleton _ _, ?_⟩
      · unfold Store.prune
        exact (List.filter_sublist).trans List.filter_sublist
      · intro a ha b hb
        simp only [List.mem_singleton] at hb
        subst hb
        exact (mem_kept.mp ha).2.2

/-- what the response of `get` is made of: presentations of server rows above `after` -/
def RespOf (S : Store) (after : Nat) (resp : List VP) : Prop :=
  ∀ vp ∈ resp, ∃ rv ∈ S.rows, rv.vp = vp ∧ after < rv.ts

theorem pa_loop {K : VP → Prop} {S : Store} (hS : SInv S) (hSK : ∀ r ∈ S.rows, K r.vp)
    (d : Def) (t after seed ts : Nat) (resp : List VP) (hresp : RespOf S after resp) (c : Store) (ctr : Nat) (h : PA K c) :
    PA K (clientLoop d t seed ts c ctr resp).1 ∧ (clientLoop d t seed ts c ctr resp).2.2 = .ok () := by
  have hwf : ∀ vp ∈ resp, ∃ subj id e, VPWF vp subj id e := by
    intro vp hvp
    obtain ⟨rv, hrv, rfl, _⟩ := hresp vp hvp
    exact ⟨_, _, _, (hS.wf rv hrv).vpwf⟩
  obtain ⟨_, _, hp, hok⟩ := clientLoop_ind d t seed ts (fun _ c _ => PA K c) resp [] c ctr hwf
    (by
      intro done c ctr vp subj id e hvp hv hpa
      obtain ⟨rv, hrv, rfl, _⟩ := hresp vp hvp
      exact pa_step (hSK rv hrv) hv hpa) h
  exact ⟨hp, hok⟩

theorem pb_loop {K : VP → Prop} (hK : IdFun K) {S : Store} (hS : SInv S) (hSK : ∀ r ∈ S.rows, K r.vp)
    (d : Def) (t after seed ts : Nat) (resp : List VP) (hresp : RespOf S after resp) (c : Store) (ctr : Nat)
    (h : PB K S t after [] c) :
    ∃ done, (∀ vp, vp ∈ done ↔ vp ∈ resp) ∧ PB K S t after done (clientLoop d t seed ts c ctr resp).1 := by
  have hwf : ∀ vp ∈ resp, ∃ subj id e, VPWF vp subj id e := by
    intro vp hvp
    obtain ⟨rv, hrv, rfl, _⟩ := hresp vp hvp
    exact ⟨_, _, _, (hS.wf rv hrv).vpwf⟩
  obtain ⟨done, hd, hp, _⟩ := clientLoop_ind d t seed ts (fun done c _ => PB K S t after done c) resp [] c ctr hwf
    (by
      intro done c ctr vp subj id e hvp hv hpb
      obtain ⟨rv, hrv, hrvp, haf⟩ := hresp vp hvp
      exact pb_step hK hS hSK rv hrv hrvp haf hv hpb) h
  exact ⟨done, by intro vp; rw [hd vp]; simp, hp⟩

/-- once every row above `after` has been processed the live keys agree, whatever the timestamps -/
theorem pb_upgrade {K : VP → Prop} {S : Store} {t after : Nat} {done : List VP} {c : Store}
    (h : PB K S t after done c) (hall : ∀ r ∈ S.rows, after < r.ts → r.vp ∈ done) :
    (∀ r ∈ S.rows, t < r.exp → keyIn c.rows r.subject r.id) ∧ (∀ y ∈ c.rows, t < y.exp → keyIn S.rows y.subject y.id) := by
  have h1 : ∀ r ∈ S.rows, t < r.exp → keyIn c.rows r.subject r.id := by
    intro r hr hlive
    by_cases hts : r.ts ≤ after
    · exact h.j2 r hr hts hlive
    · exact h.q _ (hall r hr (by omega)) r hr rfl hlive
  refine ⟨h1, ?_⟩
  intro y hy hlive
  rcases h.j3 y hy hlive with hk | ⟨r, hr, hs, _, hexp⟩
  · exact hk
  · obtain ⟨x, hx, hxs, hxi⟩ := h1 r hr (by omega)
    have : x = y := pairwise_subject_inj h.one hx hy (hxs.trans hs)
    subst this
    exact ⟨r, hr, hxs.symm, hxi.symm⟩


theorem iter_add_fields {d : Def} {now seed ts : Nat} {c : Store} {ctr : Nat} {vp : VP} {subj id : String} {e : Nat}
    (hk : c.hasKey subj id = false) :
    (clientIter d now seed ts c ctr vp subj id e).1.seed = seedOf c seed ts (ctr + 1) ∧
    (clientIter d now seed ts c ctr vp subj id e).1.lastTs = tsOf c ts ∧
    (clientIter d now seed ts c ctr vp subj id e).2 = ctr + 1 := by
  simp only [clientIter, hk, Bool.false_eq_true, if_false]
  refine ⟨?_, ?_, trivial⟩ <;> (split <;> rfl)

/-- seed / timestamp bookkeeping of the replica through the loop -/
structure PT (C0 : Store) (ctr0 seed ts : Nat) (c : Store) (ctr : Nat) : Prop where
  mono : ctr0 ≤ ctr
  le : c.seed ≤ ctr
  z : c.seed = 0 → c.lastTs = 0 ∧ c.rows = []
  tr : (c.seed = C0.seed ∧ c.lastTs = C0.lastTs) ∨ (ts ≠ 0 ∧ c.seed = seed ∧ c.lastTs = ts) ∨ (ts = 0 ∧ ctr0 < c.seed)

theorem pt_step {C0 : Store} {ctr0 seed ts : Nat} (hseed : seed ≤ ctr0) (h0 : ts = 0 → seed = 0 ∧ C0.seed = 0) (h1 : ts ≠ 0 → seed ≠ 0)
    {d : Def} {t : Nat} {c : Store} {ctr : Nat} {vp : VP} {subj id : String} {e : Nat}
    (h : PT C0 ctr0 seed ts c ctr) :
    PT C0 ctr0 seed ts (clientIter d t seed ts c ctr vp subj id e).1 (clientIter d t seed ts c ctr vp subj id e).2 := by
  cases hk : c.hasKey subj id with
  | true => rw [iter_rows_skip hk]; exact h
  | false =>
    obtain ⟨hs, hl, hc⟩ := iter_add_fields (d := d) (now := t) (seed := seed) (ts := ts) (ctr := ctr) (vp := vp) (e := e) hk
    have hm := h.mono
    have hle := h.le
    by_cases hts : ts = 0
    · obtain ⟨hs0, hc0⟩ := h0 hts
      have hseed' : (clientIter d t seed ts c ctr vp subj id e).1.seed = if c.seed = 0 then ctr + 1 else c.seed := by
        rw [hs]; simp [seedOf, hts, hs0]
      have hgt : ctr0 < (clientIter d t seed ts c ctr vp subj id e).1.seed := by
        rw [hseed']
        split
        · omega
        · rename_i hne
          rcases h.tr with ⟨h2, _⟩ | ⟨h2, _⟩ | ⟨_, h2⟩
          · rw [hc0] at h2; exact absurd h2 hne
          · exact absurd hts h2
          · exact h2
      refine ⟨by rw [hc]; omega, ?_, ?_, Or.inr (Or.inr ⟨hts, hgt⟩)⟩
      · rw [hc, hseed']; split <;> omega
      · intro hz; omega
    · have hseed' : (clientIter d t seed ts c ctr vp subj id e).1.seed = seed := by
        rw [hs]; simp [seedOf, hts]
      have hl' : (clientIter d t seed ts c ctr vp subj id e).1.lastTs = ts := by
        rw [hl]; simp [tsOf, hts]
      refine ⟨by rw [hc]; omega, by rw [hc, hseed']; omega, ?_, Or.inr (Or.inl ⟨hts, hseed', hl'⟩)⟩
      intro hz; rw [hseed'] at hz; exact absurd hz (h1 hts)

theorem pt_loop {S : Store} (hS : SInv S) {C0 : Store} {ctr0 seed ts : Nat} (hseed : seed ≤ ctr0)
    (h0 : ts = 0 → seed = 0 ∧ C0.seed = 0) (h1 : ts ≠ 0 → seed ≠ 0)
    (d : Def) (t after : Nat) (resp : List VP) (hresp : RespOf S after resp) (c : Store) (ctr : Nat)
    (h : PT C0 ctr0 seed ts c ctr) :
    PT C0 ctr0 seed ts (clientLoop d t seed ts c ctr resp).1 (clientLoop d t seed ts c ctr resp).2.1 := by
  have hwf : ∀ vp ∈ resp, ∃ subj id e, VPWF vp subj id e := by
    intro vp hvp
    obtain ⟨rv, hrv, rfl, _⟩ := hresp vp hvp
    exact ⟨_, _, _, (hS.wf rv hrv).vpwf⟩
  obtain ⟨_, _, hp, _⟩ := clientLoop_ind d t seed ts (fun _ c ctr => PT C0 ctr0 seed ts c ctr) resp [] c ctr hwf
    (by
      intro done c ctr vp subj id e _ _ hpt
      exact pt_step hseed h0 h1 hpt) h
  exact hp


/-! ### the invariant of the two nodes -/

def Sync (S C : Store) (t : Nat) : Prop := C.lastTs ≤ S.lastTs ∧ J2 S C t C.lastTs ∧ J3 S C t C.lastTs

structure PendOK (w : World) (p : Pending) : Prop where
  after : p.after = w.C.lastTs
  le : p.seed ≤ w.ctr
  zero : p.ts = 0 ↔ p.seed = 0
  bound : p.seed = w.S.seed → p.ts ≤ w.S.lastTs

structure WInv (K : VP → Prop) (w : World) : Prop where
  srv : SInv w.S
  sK : ∀ r ∈ w.S.rows, K r.vp
  cli : PA K w.C
  cz : w.C.seed = 0 → w.C.lastTs = 0 ∧ w.C.rows = []
  sLe : w.S.seed ≤ w.ctr
  cLe : w.C.seed ≤ w.ctr
  pend : ∀ p, w.pending = some p → PendOK w p
  sync : w.C.seed = w.S.seed → Sync w.S w.C w.t

theorem winv_init (K : VP → Prop) (t : Nat) : WInv K { t := t } where
  srv := sinv_empty
  sK := by intro r h; cases h
  cli := ⟨(by intro r h; cases h), (by intro r h; cases h), List.Pairwise.nil⟩
  cz := fun _ => ⟨rfl, rfl⟩
  sLe := Nat.le_refl _
  cLe := Nat.le_refl _
  pend := by intro p h; cases h
  sync := fun _ => ⟨Nat.le_refl _, (by intro r h; cases h), (by intro r h; cases h)⟩

theorem sync_mono {S C : Store} {t t' : Nat} (h : Sync S C t) (ht : t ≤ t') : Sync S C t' :=
  ⟨h.1, fun r hr hts hl => h.2.1 r hr hts (by omega), fun c hc hl => h.2.2 c hc (by omega)⟩

theorem winv_tick {K : VP → Prop} (cfg : Cfg) (d : Def) (w : World) (n : Nat) (h : WInv K w) :
    WInv K (step cfg d w (.tick n)).1 := by
  show WInv K { w with t := w.t + n }
  exact ⟨h.srv, h.sK, h.cli, h.cz, h.sLe, h.cLe,
    fun p hp => let q := h.pend p hp; ⟨q.after, q.le, q.zero, q.bound⟩,
    fun hs => sync_mono (h.sync hs) (by show w.t ≤ w.t + n; omega)⟩

theorem winv_reset {K : VP → Prop} (cfg : Cfg) (d : Def) (w : World) (h : WInv K w) :
    WInv K (step cfg d w .reset).1 := by
  show WInv K { w with S := {} }
  refine ⟨sinv_empty, (by intro r hr; cases hr), h.cli, h.cz, Nat.zero_le _, h.cLe, ?_, ?_⟩
  · intro p hp
    have q := h.pend p hp
    refine ⟨q.after, q.le, q.zero, ?_⟩
    intro hs
    have : p.ts = 0 := q.zero.mpr hs
    show p.ts ≤ 0
    omega
  · intro hs
    obtain ⟨h1, h2⟩ := h.cz hs
    refine ⟨(by show w.C.lastTs ≤ 0; omega), (by intro r hr; cases hr), ?_⟩
    intro c hc
    rw [h2] at hc; cases hc

theorem winv_pollA {K : VP → Prop} (cfg : Cfg) (hcfg : cfg.serviceFirst = true) (d : Def) (w : World) (h : WInv K w) :
    WInv K (step cfg d w .pollA).1 := by
  show WInv K { w with pending := some _ }
  simp only [hcfg, if_true]
  refine ⟨h.srv, h.sK, h.cli, h.cz, h.sLe, h.cLe, ?_, h.sync⟩
  intro p hp
  cases hp
  refine ⟨rfl, h.sLe, ?_, fun _ => Nat.le_refl _⟩
  constructor
  · intro h0
    apply Decidable.byContradiction
    intro hne
    have := (h.srv.seedPos hne).1
    have h0' : w.S.lastTs = 0 := h0
    omega
  · intro h0
    exact (h.srv.seed0 h0).1

theorem winv_validate {K : VP → Prop} (cfg : Cfg) (d : Def) (w : World) (h : WInv K w) :
    WInv K (step cfg d w .validate).1 := by
  show WInv K { w with C := clientValidate d w.C w.t }
  have hc : PA K (clientValidate d w.C w.t) := ⟨h.cli.wf, h.cli.k, h.cli.one⟩
  exact ⟨h.srv, h.sK, hc, h.cz, h.sLe, h.cLe,
    fun p hp => let q := h.pend p hp; ⟨q.after, q.le, q.zero, q.bound⟩,
    fun hs => let q := h.sync hs; ⟨q.1, q.2.1, q.2.2⟩⟩


theorem winv_register {K : VP → Prop} (hK : IdFun K) (cfg : Cfg) (d : Def) (w : World) (vp : VP)
    (hkv : K vp) (hmono : ExpMono d w vp) (h : WInv K w) :
    WInv K (step cfg d w (.register vp)).1 := by
  show WInv K { w with S := (register d w.S w.t (w.ctr + 1) vp).1, ctr := w.ctr + 1 }
  have hsLe := h.sLe
  have hcLe := h.cLe
  rcases register_cases d w.S w.t (w.ctr + 1) vp with ⟨o, ho, _⟩ | ⟨subj, e, id, hA, hid, _, hreg⟩
  · rw [ho]
    exact ⟨h.srv, h.sK, h.cli, h.cz, by show w.S.seed ≤ w.ctr + 1; omega, by show w.C.seed ≤ w.ctr + 1; omega,
      fun p hp => let q := h.pend p hp; ⟨q.after, by have := q.le; show p.seed ≤ w.ctr + 1; omega, q.zero, q.bound⟩, h.sync⟩
  · have hok : (register d w.S w.t (w.ctr + 1) vp).2 = .ok () := by rw [hreg]
    obtain ⟨m, hsig, _⟩ := hA.signer
    have hmono' := hmono hok subj m e hsig hA.exp
    rw [hreg]
    have hseedne : (if w.S.seed = 0 then w.ctr + 1 else w.S.seed) ≠ 0 := by split <;> omega
    have hsinv := sinv_addOk w.S w.t vp subj m id e _ h.srv hsig hid hA.exp hA.jwt hA.credsHaveId hseedne
    have hmem : ∀ r, r ∈ (addOk w.S w.t vp subj id e (if w.S.seed = 0 then w.ctr + 1 else w.S.seed) (w.S.lastTs + 1)).1.rows ↔
        (r ∈ w.S.rows ∧ ¬ r.exp < w.t ∧ r.subject ≠ subj) ∨
          r = (addOk w.S w.t vp subj id e (if w.S.seed = 0 then w.ctr + 1 else w.S.seed) (w.S.lastTs + 1)).2 := fun r => mem_addOk
    refine ⟨sinv_setValidated _ hsinv, ?_, h.cli, h.cz, ?_, by show w.C.seed ≤ w.ctr + 1; omega, ?_, ?_⟩
    · intro r hr
      rcases (hmem r).mp hr with ⟨h1, _, _⟩ | h1
      · exact h.sK r h1
      · subst h1; exact hkv
    · show (if w.S.seed = 0 then w.ctr + 1 else w.S.seed) ≤ w.ctr + 1
      split <;> omega
    · intro p hp
      have q := h.pend p hp
      refine ⟨q.after, by have := q.le; show p.seed ≤ w.ctr + 1; omega, q.zero, ?_⟩
      intro hs
      have hs' : p.seed = (if w.S.seed = 0 then w.ctr + 1 else w.S.seed) := hs
      show p.ts ≤ w.S.lastTs + 1
      by_cases h0 : w.S.seed = 0
      · rw [if_pos h0] at hs'; have := q.le; omega
      · rw [if_neg h0] at hs'; have := q.bound hs'; omega
    · intro hs
      have hs' : w.C.seed = (if w.S.seed = 0 then w.ctr + 1 else w.S.seed) := hs
      by_cases h0 : w.S.seed = 0
      · rw [if_pos h0] at hs'; omega
      · rw [if_neg h0] at hs'
        obtain ⟨hle, hj2, hj3⟩ := h.sync hs'
        refine ⟨by show w.C.lastTs ≤ w.S.lastTs + 1; omega, ?_, ?_⟩
        · intro r hr hts hlive
          rcases (hmem r).mp hr with ⟨h1, _, _⟩ | h1
          · exact hj2 r h1 hts hlive
          · subst h1
            have : w.S.lastTs + 1 ≤ w.C.lastTs := hts
            omega
        · intro c hc hlive0
          have hlive : w.t < c.exp := hlive0
          -- the replacement of a same-subject server row is a newer entry that does not expire earlier
          have hrepl : ∀ r0 ∈ w.S.rows, r0.subject = c.subject → c.exp ≤ r0.exp → r0.subject = subj →
              ∃ r ∈ (addOk w.S w.t vp subj id e (if w.S.seed = 0 then w.ctr + 1 else w.S.seed) (w.S.lastTs + 1)).1.rows,
                r.subject = c.subject ∧ w.C.lastTs < r.ts ∧ c.exp ≤ r.exp := by
            intro r0 hr0 hs0 he0 hsub
            refine ⟨_, (hmem _).mpr (Or.inr rfl), ?_, ?_, ?_⟩
            · show subj = c.subject; rw [← hsub, hs0]
            · show w.C.lastTs < w.S.lastTs + 1; omega
            · show c.exp ≤ e
              have := hmono' r0 hr0 hsub
              omega
          rcases hj3 c hc hlive with ⟨r0, hr0, hs0, hi0⟩ | ⟨r1, hr1, hs1, hts1, he1⟩
          · have hexp : c.exp = r0.exp :=
              (same_key hK (h.cli.wf c hc) (h.srv.wf r0 hr0) (h.cli.k c hc) (h.sK r0 hr0) hs0.symm hi0.symm).2
            by_cases hsub : r0.subject = subj
            · exact Or.inr (hrepl r0 hr0 hs0 (by omega) hsub)
            · exact Or.inl ⟨r0, (hmem r0).mpr (Or.inl ⟨hr0, by omega, hsub⟩), hs0, hi0⟩
          · by_cases hsub : r1.subject = subj
            · exact Or.inr (hrepl r1 hr1 hs1 he1 hsub)
            · exact Or.inr ⟨r1, (hmem r1).mpr (Or.inl ⟨hr1, by omega, hsub⟩), hs1, hts1, he1⟩


theorem clientApply_cases (cfg : Cfg) (hcfg : cfg.restartOnWipe = true) (d : Def) (c : Store) (now ctr seed ts : Nat) (resp : List VP) :
    (c.seed ≠ seed ∧ c.seed ≠ 0 ∧
      clientApply cfg d c now ctr seed ts resp = ({ c with seed := seed, lastTs := 0, rows := [] }, ctr, .ok ())) ∨
    ((c.seed = seed ∨ c.seed = 0) ∧ clientApply cfg d c now ctr seed ts resp = clientLoop d now seed ts c ctr resp) := by
  unfold clientApply Store.wipeOnSeedChange
  by_cases h : c.seed ≠ seed ∧ c.seed ≠ 0
  · left
    refine ⟨h.1, h.2, ?_⟩
    simp [h, hcfg]
  · right
    refine ⟨?_, ?_⟩
    · by_cases h1 : c.seed = seed
      · exact Or.inl h1
      · right
        apply Decidable.byContradiction
        intro h2
        exact h ⟨h1, h2⟩
    · simp [h]

theorem respOf_perm {S : Store} {after : Nat} {perm : List VP → List VP} (hperm : ∀ l, (perm l).Perm l) :
    RespOf S after (perm ((S.rowsAfter after).map (·.vp))) ∧
    ∀ r ∈ S.rows, after < r.ts → r.vp ∈ perm ((S.rowsAfter after).map (·.vp)) := by
  constructor
  · intro vp hvp
    have := (hperm _).mem_iff.mp hvp
    obtain ⟨rv, hrv, rfl⟩ := List.mem_map.mp this
    have hm := List.mem_filter.mp hrv
    exact ⟨rv, hm.1, rfl, by simpa using hm.2⟩
  · intro r hr hts
    apply (hperm _).mem_iff.mpr
    exact List.mem_map.mpr ⟨r, List.mem_filter.mpr ⟨hr, by simpa using hts⟩, rfl⟩

theorem winv_pollB {K : VP → Prop} (hK : IdFun K) (cfg : Cfg) (hsf : cfg.serviceFirst = true) (hrw : cfg.restartOnWipe = true)
    (d : Def) (w : World) (perm : List VP → List VP) (hperm : ∀ l, (perm l).Perm l) (h : WInv K w) :
    WInv K (step cfg d w (.pollB perm)).1 := by
  unfold step
  cases hp : w.pending with
  | none => simp only; exact h
  | some p =>
    simp only [hsf, if_true]
    have q := h.pend p hp
    obtain ⟨hresp, hall⟩ := respOf_perm (S := w.S) (after := p.after) hperm
    rcases clientApply_cases cfg hrw d w.C w.t w.ctr p.seed p.ts (perm ((w.S.rowsAfter p.after).map (·.vp)))
      with ⟨_, _, heq⟩ | ⟨hnw, heq⟩
    · rw [heq]
      refine ⟨h.srv, h.sK, ⟨(by intro r hr; cases hr), (by intro r hr; cases hr), List.Pairwise.nil⟩,
        fun _ => ⟨rfl, rfl⟩, h.sLe, q.le, (by intro p' hp'; cases hp'), ?_⟩
      intro _
      refine ⟨Nat.zero_le _, ?_, (by intro c hc; cases hc)⟩
      intro r hr hts _
      have := (h.srv.bound r hr).1
      have : r.ts ≤ 0 := hts
      omega
    · rw [heq]
      obtain ⟨hpa, _⟩ := pa_loop h.srv h.sK d w.t p.after p.seed p.ts _ hresp w.C w.ctr h.cli
      have h0 : p.ts = 0 → p.seed = 0 ∧ w.C.seed = 0 := by
        intro hz
        have := q.zero.mp hz
        refine ⟨this, ?_⟩
        rcases hnw with h1 | h1
        · rw [h1]; exact this
        · exact h1
      have h1 : p.ts ≠ 0 → p.seed ≠ 0 := fun hne hz => hne (q.zero.mpr hz)
      have hpt := pt_loop h.srv q.le h0 h1 d w.t p.after _ hresp w.C w.ctr
        ⟨Nat.le_refl _, h.cLe, h.cz, Or.inl ⟨rfl, rfl⟩⟩
      refine ⟨h.srv, h.sK, hpa, hpt.z, (Nat.le_trans h.sLe hpt.mono), hpt.le,
        (by intro p' hp'; cases hp'), ?_⟩
      intro hs
      have hs' : (clientLoop d w.t p.seed p.ts w.C w.ctr (perm ((w.S.rowsAfter p.after).map (·.vp)))).1.seed = w.S.seed := hs
      -- the replica we started from was in step with the list, or empty
      have hinit : (w.C.seed = w.S.seed ∨ w.C.seed = 0) →
          PB K w.S w.t p.after [] w.C := by
        intro hc
        refine ⟨h.cli.wf, h.cli.k, h.cli.one, ?_, ?_, (by intro vp hvp; cases hvp)⟩
        · rcases hc with hc | hc
          · rw [q.after]; exact (h.sync hc).2.1
          · intro r hr hts _
            have := (h.srv.bound r hr).1
            have := (h.cz hc).1
            have := q.after
            omega
        · rcases hc with hc | hc
          · rw [q.after]; exact (h.sync hc).2.2
          · intro c hcm
            rw [(h.cz hc).2] at hcm; cases hcm
      have hfin : (w.C.seed = w.S.seed ∨ w.C.seed = 0) →
          (clientLoop d w.t p.seed p.ts w.C w.ctr (perm ((w.S.rowsAfter p.after).map (·.vp)))).1.lastTs ≤ w.S.lastTs →
          Sync w.S (clientLoop d w.t p.seed p.ts w.C w.ctr (perm ((w.S.rowsAfter p.after).map (·.vp)))).1 w.t := by
        intro hc hle
        obtain ⟨done, hd, hpb⟩ := pb_loop hK h.srv h.sK d w.t p.after p.seed p.ts _ hresp w.C w.ctr (hinit hc)
        obtain ⟨u1, u2⟩ := pb_upgrade hpb (fun r hr hts => (hd _).mpr (hall r hr hts))
        exact ⟨hle, fun r hr _ hl => u1 r hr hl, fun c hc hl => Or.inl (u2 c hc hl)⟩
      rcases hpt.tr with ⟨t1, t2⟩ | ⟨_, t1, t2⟩ | ⟨_, t1⟩
      · have hc : w.C.seed = w.S.seed := by rw [← t1]; exact hs'
        exact hfin (Or.inl hc) (by rw [t2]; exact (h.sync hc).1)
      · have hps : p.seed = w.S.seed := by rw [← t1]; exact hs'
        refine hfin ?_ (by rw [t2]; exact q.bound hps)
        rcases hnw with h2 | h2
        · exact Or.inl (h2.trans hps)
        · exact Or.inr h2
      · have := h.sLe
        omega


theorem winv_clientVerifier {K : VP → Prop} (cfg : Cfg) (d : Def) (w : World) (up : Bool) (h : WInv K w) :
    WInv K (step cfg d w (.clientVerifier up)).1 := by
  show WInv K { w with C := { w.C with verifierUp := up } }
  have hc : PA K { w.C with verifierUp := up } := ⟨h.cli.wf, h.cli.k, h.cli.one⟩
  exact ⟨h.srv, h.sK, hc, h.cz, h.sLe, h.cLe,
    fun p hp => let q := h.pend p hp; ⟨q.after, q.le, q.zero, q.bound⟩,
    fun hs => let q := h.sync hs; ⟨q.1, q.2.1, q.2.2⟩⟩

/-! ### admissible histories -/

theorem winv_step {K : VP → Prop} (hK : IdFun K) (cfg : Cfg) (hsf : cfg.serviceFirst = true) (hrw : cfg.restartOnWipe = true)
    (d : Def) (w : World) (e : Ev) (he : EvOK K d w e) (h : WInv K w) : WInv K (step cfg d w e).1 := by
  cases e with
  | tick n => exact winv_tick cfg d w n h
  | register vp => exact winv_register hK cfg d w vp he.1 he.2 h
  | reset => exact winv_reset cfg d w h
  | pollA => exact winv_pollA cfg hsf d w h
  | pollB perm => exact winv_pollB hK cfg hsf hrw d w perm he h
  | validate => exact winv_validate cfg d w h
  | clientVerifier up => exact winv_clientVerifier cfg d w up h
  | restartServer => exact h
  | restartClient =>
    exact ⟨h.srv, h.sK, h.cli, h.cz, h.sLe, h.cLe, (by intro p hp; cases hp), h.sync⟩
  | dpollStart => exact he.elim
  | dpollFinish i perm => exact he.elim

theorem winv_reach {K : VP → Prop} (hK : IdFun K) (cfg : Cfg) (hsf : cfg.serviceFirst = true) (hrw : cfg.restartOnWipe = true)
    (d : Def) {w : World} (h : Reach cfg d K w) : WInv K w := by
  induction h with
  | init t => exact winv_init K t
  | step w e _ he ih => exact winv_step hK cfg hsf hrw d w e he ih

/-! ### convergence -/

theorem mem_liveKeys {s : Store} {t : Nat} {k : String × String} :
    k ∈ s.liveKeys t ↔ ∃ r ∈ s.rows, t < r.exp ∧ r.subject = k.1 ∧ r.id = k.2 := by
  unfold Store.liveKeys
  simp only [List.mem_map, List.mem_filter, Row.live, decide_eq_true_eq]
  constructor
  · rintro ⟨r, ⟨h1, h2⟩, rfl⟩; exact ⟨r, h1, h2, rfl, rfl⟩
  · rintro ⟨r, h1, h2, h3, h4⟩; exact ⟨r, ⟨h1, h2⟩, by rw [h3, h4]⟩

theorem liveEq_of_upgrade {K : VP → Prop} (hK : IdFun K) {S C : Store} {t : Nat}
    (hSwf : ∀ r ∈ S.rows, RowWF r) (hSK : ∀ r ∈ S.rows, K r.vp) (hC : PA K C)
    (u1 : ∀ r ∈ S.rows, t < r.exp → keyIn C.rows r.subject r.id)
    (u2 : ∀ y ∈ C.rows, t < y.exp → keyIn S.rows y.subject y.id) : LiveEq S C t := by
  intro k
  rw [mem_liveKeys, mem_liveKeys]
  constructor
  · rintro ⟨r, hr, hl, h1, h2⟩
    obtain ⟨x, hx, hs, hi⟩ := u1 r hr hl
    have := (same_key hK (hC.wf x hx) (hSwf r hr) (hC.k x hx) (hSK r hr) hs hi).2
    exact ⟨x, hx, by omega, hs.trans h1, hi.trans h2⟩
  · rintro ⟨y, hy, hl, h1, h2⟩
    obtain ⟨x, hx, hs, hi⟩ := u2 y hy hl
    have := (same_key hK (hSwf x hx) (hC.wf y hy) (hSK x hx) (hC.k y hy) hs hi).2
    exact ⟨x, hx, by omega, hs.trans h1, hi.trans h2⟩


/-- the response a quiescent poll gets -/
def quietResp (w : World) (perm : List VP → List VP) : List VP := perm ((w.S.rowsAfter w.C.lastTs).map (·.vp))

theorem poll_eq (cfg : Cfg) (hsf : cfg.serviceFirst = true) (d : Def) (w : World) (perm : List VP → List VP) :
    poll cfg d w perm =
      { w with C := (clientApply cfg d w.C w.t w.ctr w.S.seed w.S.lastTs (quietResp w perm)).1,
               ctr := (clientApply cfg d w.C w.t w.ctr w.S.seed w.S.lastTs (quietResp w perm)).2.1,
               pending := none } := by
  simp [poll, step, hsf, quietResp]

theorem pb_init {K : VP → Prop} {w : World} (h : WInv K w) (hc : w.C.seed = w.S.seed ∨ w.C.seed = 0) :
    PB K w.S w.t w.C.lastTs [] w.C := by
  refine ⟨h.cli.wf, h.cli.k, h.cli.one, ?_, ?_, (by intro vp hvp; cases hvp)⟩
  · rcases hc with hc | hc
    · exact (h.sync hc).2.1
    · intro r hr hts _
      have := (h.srv.bound r hr).1
      have := (h.cz hc).1
      omega
  · rcases hc with hc | hc
    · exact (h.sync hc).2.2
    · intro c hcm
      rw [(h.cz hc).2] at hcm; cases hcm

/-- a quiescent poll of a replica that carries the list's seed (or none yet) ends with the list's live set -/
theorem converge_one {K : VP → Prop} (hK : IdFun K) (cfg : Cfg) (hsf : cfg.serviceFirst = true) (hrw : cfg.restartOnWipe = true)
    (d : Def) (w : World) (perm : List VP → List VP) (hperm : ∀ l, (perm l).Perm l) (h : WInv K w)
    (hc : w.C.seed = w.S.seed ∨ w.C.seed = 0) :
    (poll cfg d w perm).S = w.S ∧ (poll cfg d w perm).t = w.t ∧
    LiveEq w.S (poll cfg d w perm).C w.t ∧
    ((poll cfg d w perm).C.seed = w.S.seed ∨ (poll cfg d w perm).C.seed = 0) := by
  rw [poll_eq cfg hsf]
  unfold quietResp
  refine ⟨rfl, rfl, ?_⟩
  obtain ⟨hresp, hall⟩ := respOf_perm (S := w.S) (after := w.C.lastTs) hperm
  rcases clientApply_cases cfg hrw d w.C w.t w.ctr w.S.seed w.S.lastTs (perm ((w.S.rowsAfter w.C.lastTs).map (·.vp))) with ⟨h1, h2, _⟩ | ⟨_, heq⟩
  · rcases hc with hc | hc
    · exact absurd hc h1
    · exact absurd hc h2
  · rw [heq]
    show LiveEq w.S (clientLoop d w.t w.S.seed w.S.lastTs w.C w.ctr (perm ((w.S.rowsAfter w.C.lastTs).map (·.vp)))).1 w.t ∧
      ((clientLoop d w.t w.S.seed w.S.lastTs w.C w.ctr (perm ((w.S.rowsAfter w.C.lastTs).map (·.vp)))).1.seed = w.S.seed ∨
       (clientLoop d w.t w.S.seed w.S.lastTs w.C w.ctr (perm ((w.S.rowsAfter w.C.lastTs).map (·.vp)))).1.seed = 0)
    obtain ⟨hpa, _⟩ := pa_loop h.srv h.sK d w.t w.C.lastTs w.S.seed w.S.lastTs _ hresp w.C w.ctr h.cli
    obtain ⟨done, hd, hpb⟩ := pb_loop hK h.srv h.sK d w.t w.C.lastTs w.S.seed w.S.lastTs _ hresp w.C w.ctr (pb_init h hc)
    obtain ⟨u1, u2⟩ := pb_upgrade hpb (fun r hr hts => (hd _).mpr (hall r hr hts))
    refine ⟨liveEq_of_upgrade hK h.srv.wf h.sK hpa u1 u2, ?_⟩
    -- the seed: unchanged, or the list's
    have hz : w.S.lastTs = 0 ↔ w.S.seed = 0 := by
      constructor
      · intro h0
        apply Decidable.byContradiction
        intro hne
        have := (h.srv.seedPos hne).1
        omega
      · intro h0; exact (h.srv.seed0 h0).1
    by_cases hs0 : w.S.seed = 0
    · -- an empty list: nothing to apply
      have hrows : w.S.rows = [] := (h.srv.seed0 hs0).2
      have : perm ((w.S.rowsAfter w.C.lastTs).map (·.vp)) = [] := by
        have hp := hperm ((w.S.rowsAfter w.C.lastTs).map (·.vp))
        have : (w.S.rowsAfter w.C.lastTs).map (·.vp) = [] := by simp [Store.rowsAfter, hrows]
        rw [this] at hp ⊢
        exact List.Perm.eq_nil hp
      rw [this]
      simp only [clientLoop]
      rcases hc with hc | hc
      · exact Or.inl hc
      · exact Or.inr hc
    · have h0 : w.S.lastTs = 0 → w.S.seed = 0 ∧ w.C.seed = 0 := fun hz0 => absurd (hz.mp hz0) hs0
      have h1 : w.S.lastTs ≠ 0 → w.S.seed ≠ 0 := fun _ => hs0
      have hpt := pt_loop h.srv h.sLe h0 h1 d w.t w.C.lastTs _ hresp w.C w.ctr
        ⟨Nat.le_refl _, h.cLe, h.cz, Or.inl ⟨rfl, rfl⟩⟩
      rcases hpt.tr with ⟨t1, _⟩ | ⟨_, t1, _⟩ | ⟨t0, _⟩
      · rw [t1]
        rcases hc with hc | hc
        · exact Or.inl hc
        · exact Or.inr hc
      · exact Or.inl t1
      · exact absurd (hz.mp t0) hs0


theorem winv_poll {K : VP → Prop} (hK : IdFun K) (cfg : Cfg) (hsf : cfg.serviceFirst = true) (hrw : cfg.restartOnWipe = true)
    (d : Def) (w : World) (perm : List VP → List VP) (hperm : ∀ l, (perm l).Perm l) (h : WInv K w) :
    WInv K (poll cfg d w perm) :=
  winv_pollB hK cfg hsf hrw d _ perm hperm (winv_pollA cfg hsf d w h)

/-- a poll that sees another seed leaves an empty replica with timestamp 0 and the new seed — whatever the response held -/
theorem poll_wipes (cfg : Cfg) (hsf : cfg.serviceFirst = true) (hrw : cfg.restartOnWipe = true)
    (d : Def) (w : World) (perm : List VP → List VP) (h1 : w.C.seed ≠ w.S.seed) (h2 : w.C.seed ≠ 0) :
    (poll cfg d w perm).C = { w.C with seed := w.S.seed, lastTs := 0, rows := [] } ∧
    (poll cfg d w perm).S = w.S ∧ (poll cfg d w perm).t = w.t := by
  rw [poll_eq cfg hsf]
  refine ⟨?_, rfl, rfl⟩
  rcases clientApply_cases cfg hrw d w.C w.t w.ctr w.S.seed w.S.lastTs (quietResp w perm) with ⟨_, _, heq⟩ | ⟨hc, _⟩
  · show (clientApply cfg d w.C w.t w.ctr w.S.seed w.S.lastTs (quietResp w perm)).1 = _
    rw [heq]
  · rcases hc with hc | hc
    · exact absurd hc h1
    · exact absurd hc h2

/-- two quiescent polls always suffice -/
theorem converge_two {K : VP → Prop} (hK : IdFun K) (cfg : Cfg) (hsf : cfg.serviceFirst = true) (hrw : cfg.restartOnWipe = true)
    (d : Def) (w : World) (p1 p2 : List VP → List VP) (hp1 : ∀ l, (p1 l).Perm l) (hp2 : ∀ l, (p2 l).Perm l) (h : WInv K w) :
    (poll cfg d (poll cfg d w p1) p2).S = w.S ∧ (poll cfg d (poll cfg d w p1) p2).t = w.t ∧
    LiveEq w.S (poll cfg d (poll cfg d w p1) p2).C w.t ∧
    ((poll cfg d (poll cfg d w p1) p2).C.seed = w.S.seed ∨ (poll cfg d (poll cfg d w p1) p2).C.seed = 0) := by
  have hw1 := winv_poll hK cfg hsf hrw d w p1 hp1 h
  have key : (poll cfg d w p1).S = w.S ∧ (poll cfg d w p1).t = w.t ∧
      ((poll cfg d w p1).C.seed = w.S.seed ∨ (poll cfg d w p1).C.seed = 0) := by
    by_cases hc : w.C.seed = w.S.seed ∨ w.C.seed = 0
    · obtain ⟨a, b, _, c⟩ := converge_one hK cfg hsf hrw d w p1 hp1 h hc
      exact ⟨a, b, c⟩
    · have h1 : w.C.seed ≠ w.S.seed := fun x => hc (Or.inl x)
      have h2 : w.C.seed ≠ 0 := fun x => hc (Or.inr x)
      obtain ⟨a, b, c⟩ := poll_wipes cfg hsf hrw d w p1 h1 h2
      exact ⟨b, c, Or.inl (by rw [a])⟩
  obtain ⟨hS, ht, hseed⟩ := key
  have := converge_one hK cfg hsf hrw d (poll cfg d w p1) p2 hp2 hw1 (by rw [hS]; exact hseed)
  rw [hS, ht] at this
  exact this

/-- duplicates are skipped: a response whose presentations are all held already changes nothing -/
theorem clientLoop_all_present (d : Def) (now seed ts : Nat) (c : Store) (ctr : Nat) :
    ∀ (resp : List VP), (∀ vp ∈ resp, ∃ subj id e, VPWF vp subj id e ∧ c.hasKey subj id = true) →
      clientLoop d now seed ts c ctr resp = (c, ctr, .ok ()) := by
  intro resp
  induction resp with
  | nil => intro _; rfl
  | cons vp rest ih =>
    intro h
    obtain ⟨subj, id, e, hv, hk⟩ := h vp (by simp)
    rw [clientLoop_cons d now seed ts c ctr vp rest subj id e hv, iter_rows_skip hk]
    exact ih (fun v hv' => h v (by simp [hv']))


/-! ### search returns only what the client verified itself -/

structure CV (d : Def) (t : Nat) (c : Store) : Prop where
  rowsLt : ∀ r ∈ c.rows, r.pk < c.nextPk
  valLt : ∀ pk ∈ c.validated, pk < c.nextPk
  inj : c.rows.Pairwise (fun a b => a.pk ≠ b.pk)
  ver : ∀ r ∈ c.rows, c.isValidated r = true → ClientVerified d t r.vp

theorem pairwise_pk_inj {l : List Row} (h : l.Pairwise (fun a b => a.pk ≠ b.pk)) {a b : Row}
    (ha : a ∈ l) (hb : b ∈ l) (hs : a.pk = b.pk) : a = b := by
  induction l with
  | nil => cases ha
  | cons x xs ih =>
    rw [List.pairwise_cons] at h
    rcases List.mem_cons.mp ha with rfl | ha'
    · rcases List.mem_cons.mp hb with rfl | hb'
      · rfl
      · exact absurd hs (h.1 b hb')
    · rcases List.mem_cons.mp hb with rfl | hb'
      · exact absurd hs.symm (h.1 a ha')
      · exact ih h.2 ha' hb'

theorem cv_empty (d : Def) (t : Nat) : CV d t {} :=
  ⟨(by intro r h; cases h), (by intro r h; cases h), List.Pairwise.nil, (by intro r h; cases h)⟩

theorem cv_mono {d : Def} {t t' : Nat} {c : Store} (h : CV d t c) (ht : t ≤ t') : CV d t' c :=
  ⟨h.rowsLt, h.valLt, h.inj, fun r hr hv => by
    obtain ⟨s, now, h1, h2⟩ := h.ver r hr hv
    exact ⟨s, now, by omega, h2⟩⟩

theorem cv_iter {d : Def} {t seed ts : Nat} {c : Store} {ctr : Nat} {vp : VP} {subj id : String} {e : Nat}
    (h : CV d t c) : CV d t (clientIter d t seed ts c ctr vp subj id e).1 := by
  cases hk : c.hasKey subj id with
  | true => rw [iter_rows_skip hk]; exact h
  | false =>
    simp only [clientIter, hk, Bool.false_eq_true, if_false]
    have hmem : ∀ r, r ∈ (addOk c t vp subj id e (seedOf c seed ts (ctr + 1)) (tsOf c ts)).1.rows ↔
        (r ∈ c.rows ∧ ¬ r.exp < t ∧ r.subject ≠ subj) ∨ r = (addOk c t vp subj id e (seedOf c seed ts (ctr + 1)) (tsOf c ts)).2 :=
      fun r => mem_addOk
    have hpk : (addOk c t vp subj id e (seedOf c seed ts (ctr + 1)) (tsOf c ts)).2.pk = c.nextPk := rfl
    have hnext : (addOk c t vp subj id e (seedOf c seed ts (ctr + 1)) (tsOf c ts)).1.nextPk = c.nextPk + 1 := rfl
    have hval : (addOk c t vp subj id e (seedOf c seed ts (ctr + 1)) (tsOf c ts)).1.validated = c.validated := rfl
    -- after the add
    have hA : CV d t (addOk c t vp subj id e (seedOf c seed ts (ctr + 1)) (tsOf c ts)).1 := by
      refine ⟨?_, ?_, ?_, ?_⟩
      · intro r hr
        rw [hnext]
        rcases (hmem r).mp hr with ⟨h1, _, _⟩ | h1
        · have := h.rowsLt r h1; omega
        · rw [h1, hpk]; omega
      · intro pk hpkm
        rw [hnext]
        rw [hval] at hpkm
        have := h.valLt pk hpkm; omega
      · show (_ ++ [_]).Pairwise _
        rw [List.pairwise_append]
        refine ⟨h.inj.sublist ?_, List.pairwise_singleton _ _, ?_⟩
        · unfold Store.prune
          exact (List.filter_sublist).trans List.filter_sublist
        · intro a ha b hb
          simp only [List.mem_singleton] at hb
          subst hb
          have := h.rowsLt a (mem_kept.mp ha).1
          show a.pk ≠ c.nextPk
          omega
      · intro r hr hv
        rcases (hmem r).mp hr with ⟨h1, _, _⟩ | h1
        · exact h.ver r h1 hv
        · have : c.validated.contains c.nextPk = true := by
            rw [h1] at hv; exact hv
          have := h.valLt c.nextPk (by simpa using this)
          omega
    split
    · rename_i hver
      refine ⟨hA.rowsLt, ?_, hA.inj, ?_⟩
      · intro pk hpkm
        rcases List.mem_cons.mp hpkm with rfl | h1
        · show c.nextPk < c.nextPk + 1; omega
        · exact hA.valLt pk h1
      · intro r hr hv
        have hv' : (c.nextPk :: c.validated).contains r.pk = true := hv
        by_cases hrp : r.pk = c.nextPk
        · rcases (hmem r).mp hr with ⟨h1, _, _⟩ | h1
          · have := h.rowsLt r h1; omega
          · rw [h1]
            exact ⟨_, t, Nat.le_refl _, hver⟩
        · apply hA.ver r hr
          show c.validated.contains r.pk = true
          simp only [List.contains_cons, Bool.or_eq_true, beq_iff_eq] at hv'
          rcases hv' with h1 | h1
          · exact absurd h1 hrp
          · exact h1
    · exact hA

theorem cv_loop {S : Store} (hS : SInv S) (d : Def) (t after seed ts : Nat) (resp : List VP) (hresp : RespOf S after resp)
    (c : Store) (ctr : Nat) (h : CV d t c) : CV d t (clientLoop d t seed ts c ctr resp).1 := by
  have hwf : ∀ vp ∈ resp, ∃ subj id e, VPWF vp subj id e := by
    intro vp hvp
    obtain ⟨rv, hrv, rfl, _⟩ := hresp vp hvp
    exact ⟨_, _, _, (hS.wf rv hrv).vpwf⟩
  obtain ⟨_, _, hp, _⟩ := clientLoop_ind d t seed ts (fun _ c _ => CV d t c) resp [] c ctr hwf
    (by intro done c ctr vp subj id e _ _ hcv; exact cv_iter hcv) h
  exact hp

theorem cv_validate {d : Def} {t : Nat} {c : Store} (h : CV d t c) : CV d t (clientValidate d c t) := by
  refine ⟨h.rowsLt, ?_, h.inj, ?_⟩
  · intro pk hpk
    show pk < c.nextPk
    have hpk' : pk ∈ ((c.rows.filter (fun r => !(c.isValidated r) && (verify d c t .client r.vp).isOk)).map (·.pk)) ++ c.validated := hpk
    rcases List.mem_append.mp hpk' with h1 | h1
    · obtain ⟨r, hr, rfl⟩ := List.mem_map.mp h1
      exact h.rowsLt r (List.mem_filter.mp hr).1
    · exact h.valLt pk h1
  · intro r hr hv
    have hv' : (((c.rows.filter (fun r => !(c.isValidated r) && (verify d c t .client r.vp).isOk)).map (·.pk)) ++ c.validated).contains r.pk = true := hv
    have hm : r.pk ∈ ((c.rows.filter (fun r => !(c.isValidated r) && (verify d c t .client r.vp).isOk)).map (·.pk)) ++ c.validated := by
      simpa using hv'
    rcases List.mem_append.mp hm with h1 | h1
    · obtain ⟨r', hr', hpk⟩ := List.mem_map.mp h1
      have hf := List.mem_filter.mp hr'
      have : r' = r := pairwise_pk_inj h.inj hf.1 hr hpk
      subst this
      have hok : (verify d c t .client r'.vp).isOk = true := by
        have := hf.2; simp only [Bool.and_eq_true] at this; exact this.2
      refine ⟨c, t, Nat.le_refl _, ?_⟩
      cases hvv : verify d c t .client r'.vp with
      | ok u => cases u; rfl
      | err e => rw [hvv] at hok; cases hok
      | panic p => rw [hvv] at hok; cases hok
    · exact h.ver r hr (by show c.validated.contains r.pk = true; simpa using h1)


structure SrchInv (d : Def) (w : World) : Prop where
  srv : ServerOK d w
  cv : CV d w.t w.C

theorem srchInv_step (cfg : Cfg) (hsf : cfg.serviceFirst = true) (hrw : cfg.restartOnWipe = true) (d : Def) (w : World) (e : Ev)
    (he : PermOK e) (h : SrchInv d w) : SrchInv d (step cfg d w e).1 := by
  refine ⟨serverOK_step cfg d w e h.srv, ?_⟩
  cases e with
  | tick n => exact cv_mono h.cv (by show w.t ≤ w.t + n; omega)
  | register vp => exact h.cv
  | reset => exact h.cv
  | pollA => exact h.cv
  | validate => exact cv_validate h.cv
  | clientVerifier up => exact ⟨h.cv.rowsLt, h.cv.valLt, h.cv.inj, h.cv.ver⟩
  | restartServer => exact h.cv
  | restartClient => exact h.cv
  | dpollStart => exact he.elim
  | dpollFinish i perm => exact he.elim
  | pollB perm =>
    unfold step
    cases hp : w.pending with
    | none => exact h.cv
    | some p =>
      simp only [hsf, if_true]
      obtain ⟨hresp, _⟩ := respOf_perm (S := w.S) (after := p.after) he
      rcases clientApply_cases cfg hrw d w.C w.t w.ctr p.seed p.ts (perm ((w.S.rowsAfter p.after).map (·.vp)))
        with ⟨_, _, heq⟩ | ⟨_, heq⟩
      · rw [heq]
        exact ⟨(by intro r hr; cases hr), h.cv.valLt, List.Pairwise.nil, (by intro r hr; cases hr)⟩
      · rw [heq]
        exact cv_loop h.srv.inv d w.t p.after p.seed p.ts _ hresp w.C w.ctr h.cv

theorem run_inv_ev (cfg : Cfg) (d : Def) (Q : Ev → Prop) (P : World → Prop)
    (hstep : ∀ w e, Q e → P w → P (step cfg d w e).1) :
    ∀ (evs : List Ev) (w : World), (∀ e ∈ evs, Q e) → P w → P (run cfg d w evs) := by
  intro evs
  induction evs with
  | nil => intro w _ h; exact h
  | cons e es ih =>
    intro w hq h
    exact ih _ (fun e' he' => hq e' (by simp [he'])) (hstep w e (hq e (by simp)) h)

theorem srchInv_run (cfg : Cfg) (hsf : cfg.serviceFirst = true) (hrw : cfg.restartOnWipe = true) (d : Def)
    (evs : List Ev) (t0 : Nat) (hq : ∀ e ∈ evs, PermOK e) : SrchInv d (run cfg d { t := t0 } evs) :=
  run_inv_ev cfg d PermOK (SrchInv d) (fun w e => srchInv_step cfg hsf hrw d w e) evs _ hq
    ⟨serverOK_init d t0, cv_empty d t0⟩


theorem validateRetraction_ne_panic (s : Store) (subj : String) (vp : VP) (p : String) :
    validateRetraction s subj vp ≠ .panic p := by
  unfold validateRetraction
  split
  · simp
  · split
    · simp
    · split
      · simp
      · split <;> simp

theorem validateRegistration_ne_panic (e : Nat) (vp : VP) (p : String) : validateRegistration e vp ≠ .panic p := by
  unfold validateRegistration
  split
  · simp
  · split
    · simp
    · split
      · simp
      · split <;> simp

theorem verify_ne_panic (d : Def) (s : Store) (now : Nat) (side : Side) (vp : VP) (p : String) :
    verify d s now side vp ≠ .panic p := by
  unfold verify
  split
  · simp
  · split
    · simp
    · split
      · simp
      · split
        · simp
        · split
          · simp
          · split
            · simp
            · split
              · simp
              · split
                · simp
                · rename_i hb
                  split at hb
                  · exact absurd hb (validateRetraction_ne_panic _ _ _ _)
                  · exact absurd hb (validateRegistration_ne_panic _ _ _)
                · split <;> simp

/-- `Register` never panics, whatever is submitted -/
theorem register_ne_panic (d : Def) (s : Store) (now fresh : Nat) (vp : VP) (p : String) :
    (register d s now fresh vp).2 ≠ .panic p := by
  rcases register_cases d s now fresh vp with ⟨o, ho, _⟩ | ⟨subj, e, id, hA, hid, hk, hreg⟩
  · rw [ho]
    -- the unchanged cases are: verify's error, or "exists"
    intro h
    have h' : o = .panic p := h
    subst h'
    unfold register at ho
    cases hv : verify d s now .server vp with
    | err e => rw [hv] at ho; simp at ho
    | panic q => exact absurd hv (verify_ne_panic d s now .server vp q)
    | ok u =>
      obtain ⟨subj, e, hA⟩ := (verify_ok_acceptable d .server s now vp).mp hv
      obtain ⟨id, hid⟩ := hA.hasId
      obtain ⟨m, hsig, _⟩ := hA.signer
      rw [hv] at ho
      simp only [hsig, hid] at ho
      cases hk : s.hasKey subj id with
      | true => rw [hk] at ho; simp at ho
      | false =>
        rw [hk] at ho
        have := add_eq s now vp 0 0 fresh subj m id e hsig hid hA.exp hA.jwt hA.credsHaveId
        simp only [Bool.false_eq_true, if_false] at ho
        rw [this] at ho
        simp at ho
  · rw [hreg]; simp

/-- accepted exactly when the registration predicate holds and the same presentation is not listed already -/
theorem register_ok_iff (d : Def) (s : Store) (now fresh : Nat) (vp : VP) :
    (register d s now fresh vp).2 = .ok () ↔
      ∃ subj e id, Acceptable d .server s now vp subj e ∧ vp.id = some id ∧ s.hasKey subj id = false := by
  constructor
  · intro h
    rcases register_cases d s now fresh vp with ⟨o, ho, hne⟩ | ⟨subj, e, id, hA, hid, hk, _⟩
    · rw [ho] at h; exact absurd h hne
    · exact ⟨subj, e, id, hA, hid, hk⟩
  · rintro ⟨subj, e, id, hA, hid, hk⟩
    have hv := (verify_ok_acceptable d .server s now vp).mpr ⟨subj, e, hA⟩
    obtain ⟨m, hsig, _⟩ := hA.signer
    have := add_eq s now vp 0 0 fresh subj m id e hsig hid hA.exp hA.jwt hA.credsHaveId
    unfold register
    simp only [hv, hsig, hid, hk, Bool.false_eq_true, if_false]
    rw [this]


/-- against the real server the client's update never fails: no error, no nil dereference -/
theorem pollB_ok {K : VP → Prop} (cfg : Cfg) (hsf : cfg.serviceFirst = true) (hrw : cfg.restartOnWipe = true)
    (d : Def) (w : World) (perm : List VP → List VP) (hperm : ∀ l, (perm l).Perm l) (h : WInv K w)
    (p : Pending) (hp : w.pending = some p) : (step cfg d w (.pollB perm)).2 = .ok () := by
  unfold step
  simp only [hp, hsf, if_true]
  obtain ⟨hresp, _⟩ := respOf_perm (S := w.S) (after := p.after) hperm
  rcases clientApply_cases cfg hrw d w.C w.t w.ctr p.seed p.ts (perm ((w.S.rowsAfter p.after).map (·.vp)))
    with ⟨_, _, heq⟩ | ⟨_, heq⟩
  · rw [heq]
  · rw [heq]
    exact (pa_loop h.srv h.sK d w.t p.after p.seed p.ts _ hresp w.C w.ctr h.cli).2


theorem loop_sets_seed {S : Store} (hS : SInv S) (d : Def) (t after seed ts : Nat) (hts : ts ≠ 0) (hseed : seed ≠ 0)
    (c : Store) (ctr : Nat) (hle : seed ≤ ctr) (hc : c.rows = []) :
    ∀ (resp : List VP), resp ≠ [] → RespOf S after resp → (clientLoop d t seed ts c ctr resp).1.seed = seed := by
  intro resp hne hresp
  cases resp with
  | nil => exact absurd rfl hne
  | cons vp rest =>
    obtain ⟨rv, hrv, hvp, _⟩ := hresp vp (by simp)
    have hv : VPWF vp rv.subject rv.id rv.exp := hvp ▸ (hS.wf rv hrv).vpwf
    rw [clientLoop_cons d t seed ts c ctr vp rest _ _ _ hv]
    have hk : c.hasKey rv.subject rv.id = false := by simp [Store.hasKey, hc]
    obtain ⟨f1, f2, f3⟩ := iter_add_fields (d := d) (now := t) (seed := seed) (ts := ts) (ctr := ctr) (vp := vp) (e := rv.exp) hk
    have hs1 : (clientIter d t seed ts c ctr vp rv.subject rv.id rv.exp).1.seed = seed := by
      rw [f1]; simp [seedOf, hts]
    have hrest : RespOf S after rest := fun v hv' => hresp v (by simp [hv'])
    have hpt := pt_loop (C0 := (clientIter d t seed ts c ctr vp rv.subject rv.id rv.exp).1)
      (ctr0 := (clientIter d t seed ts c ctr vp rv.subject rv.id rv.exp).2) hS (seed := seed) (ts := ts)
      (by rw [f3]; omega) (fun h0 => absurd h0 hts) (fun _ => hseed) d t after rest hrest
      (clientIter d t seed ts c ctr vp rv.subject rv.id rv.exp).1 (clientIter d t seed ts c ctr vp rv.subject rv.id rv.exp).2
      ⟨Nat.le_refl _, by rw [hs1, f3]; omega, fun h0 => absurd (hs1 ▸ h0) hseed, Or.inl ⟨rfl, rfl⟩⟩
    rcases hpt.tr with ⟨t1, _⟩ | ⟨_, t1, _⟩ | ⟨t0, _⟩
    · rw [t1]; exact hs1
    · exact t1
    · exact absurd t0 hts

/-- after a quiescent poll of a replica that carried the list's seed (or none) the replica carries the list's seed -/
theorem converge_one_seed {K : VP → Prop} (cfg : Cfg) (hsf : cfg.serviceFirst = true) (hrw : cfg.restartOnWipe = true)
    (d : Def) (w : World) (perm : List VP → List VP) (hperm : ∀ l, (perm l).Perm l) (h : WInv K w)
    (hc : w.C.seed = w.S.seed ∨ w.C.seed = 0) : (poll cfg d w perm).C.seed = w.S.seed := by
  rw [poll_eq cfg hsf]
  unfold quietResp
  obtain ⟨hresp, hall⟩ := respOf_perm (S := w.S) (after := w.C.lastTs) hperm
  rcases clientApply_cases cfg hrw d w.C w.t w.ctr w.S.seed w.S.lastTs (perm ((w.S.rowsAfter w.C.lastTs).map (·.vp))) with ⟨h1, h2, _⟩ | ⟨_, heq⟩
  · rcases hc with hc | hc
    · exact absurd hc h1
    · exact absurd hc h2
  · rw [heq]
    show (clientLoop d w.t w.S.seed w.S.lastTs w.C w.ctr (perm ((w.S.rowsAfter w.C.lastTs).map (·.vp)))).1.seed = w.S.seed
    by_cases hs0 : w.S.seed = 0
    · have hrows : w.S.rows = [] := (h.srv.seed0 hs0).2
      have : perm ((w.S.rowsAfter w.C.lastTs).map (·.vp)) = [] := by
        have hp := hperm ((w.S.rowsAfter w.C.lastTs).map (·.vp))
        have : (w.S.rowsAfter w.C.lastTs).map (·.vp) = [] := by simp [Store.rowsAfter, hrows]
        rw [this] at hp ⊢
        exact List.Perm.eq_nil hp
      rw [this]
      simp only [clientLoop]
      rcases hc with hc | hc
      · exact hc
      · rw [hc, hs0]
    · have hts : w.S.lastTs ≠ 0 := by have := (h.srv.seedPos hs0).1; omega
      rcases hc with hc | hc
      · have hpt := pt_loop h.srv h.sLe (fun hz0 => absurd hz0 hts) (fun _ => hs0) d w.t w.C.lastTs _ hresp w.C w.ctr
          ⟨Nat.le_refl _, h.cLe, h.cz, Or.inl ⟨rfl, rfl⟩⟩
        rcases hpt.tr with ⟨t1, _⟩ | ⟨_, t1, _⟩ | ⟨t0, _⟩
        · rw [t1]; exact hc
        · exact t1
        · exact absurd t0 hts
      · obtain ⟨hl0, hr0⟩ := h.cz hc
        apply loop_sets_seed h.srv d w.t w.C.lastTs w.S.seed w.S.lastTs hts hs0 w.C w.ctr h.sLe hr0 _ _ hresp
        -- the list is not empty, so neither is the response
        intro hnil
        obtain ⟨r, hr⟩ := List.exists_mem_of_ne_nil _ (h.srv.seedPos hs0).2
        have := hall r hr (by have := (h.srv.bound r hr).1; omega)
        rw [hnil] at this
        cases this


theorem converge_two_seed {K : VP → Prop} (hK : IdFun K) (cfg : Cfg) (hsf : cfg.serviceFirst = true) (hrw : cfg.restartOnWipe = true)
    (d : Def) (w : World) (p1 p2 : List VP → List VP) (hp1 : ∀ l, (p1 l).Perm l) (hp2 : ∀ l, (p2 l).Perm l) (h : WInv K w) :
    (poll cfg d (poll cfg d w p1) p2).C.seed = w.S.seed := by
  have hw1 := winv_poll hK cfg hsf hrw d w p1 hp1 h
  have key : (poll cfg d w p1).S = w.S ∧ (poll cfg d w p1).C.seed = w.S.seed := by
    by_cases hc : w.C.seed = w.S.seed ∨ w.C.seed = 0
    · obtain ⟨a, _, _, _⟩ := converge_one hK cfg hsf hrw d w p1 hp1 h hc
      exact ⟨a, converge_one_seed cfg hsf hrw d w p1 hp1 h hc⟩
    · have h1 : w.C.seed ≠ w.S.seed := fun x => hc (Or.inl x)
      have h2 : w.C.seed ≠ 0 := fun x => hc (Or.inr x)
      obtain ⟨a, b, _⟩ := poll_wipes cfg hsf hrw d w p1 h1 h2
      exact ⟨b, by rw [a]⟩
  obtain ⟨hS, hseed⟩ := key
  have := converge_one_seed cfg hsf hrw d (poll cfg d w p1) p2 hp2 hw1 (by rw [hS]; exact Or.inl hseed)
  rw [hS] at this
  exact this


end Nuts.C16
