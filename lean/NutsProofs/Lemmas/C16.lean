/-
  C16 — helper lemmas for NutsProofs/Props/C16.lean (core Lean only).
-/
import NutsModel.C16.Discovery

namespace Nuts.C16

/-! ### the registration predicate of the property text -/

/-- a row's columns are what `storePresentation` reads off the presentation -/
def RowWF (r : Row) : Prop :=
  (∃ m, r.vp.signer = some (r.subject, m)) ∧ r.vp.id = some r.id ∧ r.vp.exp = some r.exp ∧ r.vp.jwt = true

/-- What the property demands of a listed presentation, relative to the list `s` and the clock `now` at which it was
    offered: a JWT presentation with an id, addressed to the service, expiring within the maximum validity, signed by a
    DID of an allowed method, verifiable; a registration does not outlive its credentials and its credentials all and
    only fulfil the definition; a retraction carries no credentials and names an entry of the same signer. -/
structure Acceptable (d : Def) (s : Store) (now : Nat) (vp : VP) (subj : String) (e : Nat) : Prop where
  jwt : vp.jwt = true
  hasId : ∃ i, vp.id = some i
  addressed : d.id ∈ vp.aud
  exp : vp.exp = some e
  within : e ≤ now + d.maxValidity
  signer : ∃ m, vp.signer = some (subj, m) ∧ (d.didMethods = [] ∨ m ∈ d.didMethods)
  verifiable : vp.verifyS = true
  registration : vp.retraction = false →
    (∀ c ∈ vp.creds, ∀ ce, c.exp = some ce → e ≤ ce) ∧ vp.pex = .matched vp.creds.length
  retraction : vp.retraction = true →
    vp.creds = [] ∧ ∃ j, vp.retractJti = some j ∧ j ≠ "" ∧ ∃ r ∈ s.rows, r.subject = subj ∧ r.id = j

theorem hasKey_iff (s : Store) (subj id : String) :
    s.hasKey subj id = true ↔ ∃ r ∈ s.rows, r.subject = subj ∧ r.id = id := by
  simp [Store.hasKey, List.any_eq_true]

theorem validateRegistration_ok (e : Nat) (vp : VP) :
    validateRegistration e vp = .ok () ↔
      ((∀ c ∈ vp.creds, ∀ ce, c.exp = some ce → e ≤ ce) ∧ vp.pex = .matched vp.creds.length) := by
  unfold validateRegistration
  constructor
  · intro h
    split at h
    · cases h
    · rename_i hany
      split at h
      · cases h
      · rename_i n hp
        split at h
        · cases h
        · rename_i hn
          refine ⟨?_, ?_⟩
          · intro c hc ce hce
            apply Nat.le_of_not_lt
            intro hlt
            apply hany
            simp only [List.any_eq_true]
            exact ⟨c, hc, by simp [Cred.expiresBefore, hce, hlt]⟩
          · have : n = vp.creds.length := by
              apply Decidable.byContradiction; intro hne; exact hn hne
            rw [hp, this]
  · rintro ⟨h1, h2⟩
    have hany : ¬ (vp.creds.any (fun c => c.expiresBefore e) = true) := by
      simp only [List.any_eq_true]
      rintro ⟨c, hc, hx⟩
      cases hce : c.exp with
      | none => simp [Cred.expiresBefore, hce] at hx
      | some ce =>
        simp [Cred.expiresBefore, hce] at hx
        have := h1 c hc ce hce
        omega
    rw [if_neg hany, h2]
    simp

theorem validateRetraction_ok (s : Store) (subj : String) (vp : VP) :
    validateRetraction s subj vp = .ok () ↔
      (vp.creds = [] ∧ ∃ j, vp.retractJti = some j ∧ j ≠ "" ∧ ∃ r ∈ s.rows, r.subject = subj ∧ r.id = j) := by
  unfold validateRetraction
  constructor
  · intro h
    split at h
    · cases h
    · rename_i hl
      split at h
      · cases h
      · rename_i j hj
        split at h
        · cases h
        · rename_i hne
          split at h
          · rename_i hk
            refine ⟨?_, j, hj, hne, (hasKey_iff s subj j).mp hk⟩
            cases hc : vp.creds with
            | nil => rfl
            | cons a l => simp [hc] at hl
          · cases h
  · rintro ⟨hc, j, hj, hne, hr⟩
    have hk := (hasKey_iff s subj j).mpr hr
    simp [hc, hj, hne, hk]

theorem verify_ok_acceptable (d : Def) (s : Store) (now : Nat) (vp : VP) :
    verify d s now .server vp = .ok () ↔ ∃ subj e, Acceptable d s now vp subj e := by
  constructor
  · intro h
    unfold verify at h
    split at h
    · cases h
    · rename_i hjwt
      split at h
      · cases h
      · rename_i i hid
        split at h
        · cases h
        · rename_i haud
          split at h
          · cases h
          · rename_i e hexp
            split at h
            · cases h
            · rename_i hlong
              split at h
              · cases h
              · rename_i subj m hsig
                split at h
                · cases h
                · rename_i hmeth
                  split at h
                  · cases h
                  · cases h
                  · rename_i hbody
                    split at h
                    · rename_i hver
                      refine ⟨subj, e, ?_⟩
                      have hj : vp.jwt = true := by cases hv : vp.jwt <;> simp_all
                      refine ⟨hj, ⟨i, hid⟩, ?_, hexp, by omega, ⟨m, hsig, ?_⟩, by simpa [VP.verdict] using hver, ?_, ?_⟩
                      · simpa using haud
                      · cases hm : d.didMethods with
                        | nil => exact Or.inl rfl
                        | cons a l =>
                          right
                          rw [← hm]
                          apply Decidable.byContradiction
                          intro hn
                          apply hmeth
                          simp [hm] at hn ⊢
                          simp [hn]
                      · intro hr
                        rw [hr] at hbody
                        exact (validateRegistration_ok e vp).mp (by simpa using hbody)
                      · intro hr
                        rw [hr] at hbody
                        exact (validateRetraction_ok s subj vp).mp (by simpa using hbody)
                    · cases h
  · rintro ⟨subj, e, hA⟩
    obtain ⟨i, hid⟩ := hA.hasId
    obtain ⟨m, hsig, hmeth⟩ := hA.signer
    have hbody : (if vp.retraction then validateRetraction s subj vp else validateRegistration e vp) = .ok () := by
      cases hr : vp.retraction with
      | true => simpa using (validateRetraction_ok s subj vp).mpr (hA.retraction hr)
      | false => simpa using (validateRegistration_ok e vp).mpr (hA.registration hr)
    have hm : 0 < d.didMethods.length → m ∈ d.didMethods := by
      intro h1
      rcases hmeth with h | h
      · simp [h] at h1
      · exact h
    have hl : ¬ (now + d.maxValidity < e) := by have := hA.within; omega
    unfold verify
    simp [hA.jwt, hid, hA.addressed, hA.exp, hl, hsig, hbody, VP.verdict, hA.verifiable]
    exact hm

/-! ### `add` and `Register` -/

/-- the successful branch of `sqlStore.add` -/
def addOk (s : Store) (now : Nat) (vp : VP) (subj id : String) (e seed ts : Nat) : Store × Row :=
  let s1 := s.prune now
  let row : Row := { pk := s1.nextPk, ts := ts, subject := subj, id := id, exp := e, vp := vp }
  ({ s1 with seed := seed, lastTs := ts, rows := s1.rows.filter (fun r => !(r.subject == subj)) ++ [row],
             nextPk := s1.nextPk + 1 }, row)

theorem add_eq (s : Store) (now : Nat) (vp : VP) (seed ts fresh : Nat) (subj m id : String) (e : Nat)
    (hs : vp.signer = some (subj, m)) (hi : vp.id = some id) (he : vp.exp = some e) (hj : vp.jwt = true) :
    s.add now vp seed ts fresh =
      ((addOk s now vp subj id e
          (if ts = 0 then (if s.seed = 0 then (if seed = 0 then fresh else seed) else s.seed) else seed)
          (if ts = 0 then s.lastTs + 1 else ts)).1,
       .ok (addOk s now vp subj id e
          (if ts = 0 then (if s.seed = 0 then (if seed = 0 then fresh else seed) else s.seed) else seed)
          (if ts = 0 then s.lastTs + 1 else ts)).2) := by
  unfold Store.add addOk
  simp [hs, hi, he, hj, Store.prune]
  rfl

theorem register_cases (d : Def) (s : Store) (now fresh : Nat) (vp : VP) :
    (∃ o, register d s now fresh vp = (s, o) ∧ o ≠ .ok ()) ∨
    (∃ subj e id, Acceptable d s now vp subj e ∧ vp.id = some id ∧ s.hasKey subj id = false ∧
      register d s now fresh vp =
        (((addOk s now vp subj id e (if s.seed = 0 then fresh else s.seed) (s.lastTs + 1)).1).setValidated s.nextPk, .ok ())) := by
  cases hv : verify d s now .server vp with
  | err e => left; exact ⟨.err e, by simp [register, hv], by simp⟩
  | panic p => left; exact ⟨.panic p, by simp [register, hv], by simp⟩
  | ok u =>
    obtain ⟨subj, e, hA⟩ := (verify_ok_acceptable d s now vp).mp hv
    obtain ⟨id, hid⟩ := hA.hasId
    obtain ⟨m, hsig, _⟩ := hA.signer
    cases hk : s.hasKey subj id with
    | true => left; exact ⟨.err "exists", by simp [register, hv, hsig, hid, hk], by simp⟩
    | false =>
      right
      refine ⟨subj, e, id, hA, hid, hk, ?_⟩
      have := add_eq s now vp 0 0 fresh subj m id e hsig hid hA.exp hA.jwt
      simp only [if_true] at this
      simp [register, hv, hsig, hid, hk, this, addOk, Store.prune]


/-! ### invariant of a list that hands out its own timestamps (the server) -/

structure SInv (s : Store) : Prop where
  sorted : s.rows.Pairwise (fun a b => a.ts < b.ts)
  bound : ∀ r ∈ s.rows, 1 ≤ r.ts ∧ r.ts ≤ s.lastTs
  onePer : s.rows.Pairwise (fun a b => a.subject ≠ b.subject)
  seed0 : s.seed = 0 → s.lastTs = 0 ∧ s.rows = []
  seedPos : s.seed ≠ 0 → 1 ≤ s.lastTs ∧ s.rows ≠ []
  wf : ∀ r ∈ s.rows, RowWF r

theorem sinv_empty : SInv {} where
  sorted := List.Pairwise.nil
  bound := by intro r h; cases h
  onePer := List.Pairwise.nil
  seed0 := fun _ => ⟨rfl, rfl⟩
  seedPos := fun h => absurd rfl h
  wf := by intro r h; cases h

theorem mem_prune {s : Store} {now : Nat} {r : Row} : r ∈ (s.prune now).rows ↔ r ∈ s.rows ∧ ¬ r.exp < now := by
  simp [Store.prune, List.mem_filter]

theorem mem_kept {s : Store} {now : Nat} {subj : String} {r : Row} :
    r ∈ ((s.prune now).rows.filter (fun r => !(r.subject == subj))) ↔ r ∈ s.rows ∧ ¬ r.exp < now ∧ r.subject ≠ subj := by
  simp only [Store.prune, List.mem_filter, beq_eq_false_iff_ne, ne_eq, decide_eq_false_iff_not, Bool.not_eq_eq_eq_not, Bool.not_true]
  constructor
  · rintro ⟨⟨a, b⟩, c⟩; exact ⟨a, by simpa using b, c⟩
  · rintro ⟨a, b, c⟩; exact ⟨⟨a, by simpa using b⟩, c⟩

theorem mem_addOk {s : Store} {now : Nat} {vp : VP} {subj id : String} {e seed ts : Nat} {r : Row} :
    r ∈ (addOk s now vp subj id e seed ts).1.rows ↔
      (r ∈ s.rows ∧ ¬ r.exp < now ∧ r.subject ≠ subj) ∨ r = (addOk s now vp subj id e seed ts).2 := by
  unfold addOk
  simp only [List.mem_append, List.mem_singleton]
  rw [mem_kept]

theorem sinv_addOk (s : Store) (now : Nat) (vp : VP) (subj m id : String) (e seed : Nat) (h : SInv s)
    (hs : vp.signer = some (subj, m)) (hi : vp.id = some id) (he : vp.exp = some e) (hj : vp.jwt = true)
    (hseed : seed ≠ 0) :
    SInv (addOk s now vp subj id e seed (s.lastTs + 1)).1 := by
  have hsub : ∀ r, r ∈ ((s.prune now).rows.filter (fun r => !(r.subject == subj))) → r ∈ s.rows :=
    fun r hr => (mem_kept.mp hr).1
  have hsl : ((s.prune now).rows.filter (fun r => !(r.subject == subj))).Sublist s.rows := by
    unfold Store.prune
    exact (List.filter_sublist).trans List.filter_sublist
  refine ⟨?_, ?_, ?_, ?_, ?_, ?_⟩
  · show (_ ++ [_]).Pairwise _
    rw [List.pairwise_append]
    refine ⟨h.sorted.sublist hsl, List.pairwise_singleton _ _, ?_⟩
    intro a ha b hb
    simp only [List.mem_singleton] at hb
    subst hb
    have := (h.bound a (hsub a ha)).2
    show a.ts < s.lastTs + 1
    omega
  · intro r hr
    rcases mem_addOk.mp hr with ⟨h1, _, _⟩ | h1
    · have := h.bound r h1
      show 1 ≤ r.ts ∧ r.ts ≤ s.lastTs + 1
      omega
    · subst h1
      show 1 ≤ s.lastTs + 1 ∧ s.lastTs + 1 ≤ s.lastTs + 1
      omega
  · show (_ ++ [_]).Pairwise _
    rw [List.pairwise_append]
    refine ⟨h.onePer.sublist hsl, List.pairwise_singleton _ _, ?_⟩
    intro a ha b hb
    simp only [List.mem_singleton] at hb
    subst hb
    exact (mem_kept.mp ha).2.2
  · intro h0
    exact absurd h0 hseed
  · intro _
    refine ⟨by show 1 ≤ s.lastTs + 1; omega, ?_⟩
    show _ ++ [_] ≠ []
    simp
  · intro r hr
    rcases mem_addOk.mp hr with ⟨h1, _, _⟩ | h1
    · exact h.wf r h1
    · subst h1
      exact ⟨⟨m, hs⟩, hi, he, hj⟩

theorem sinv_setValidated {s : Store} (pk : Nat) (h : SInv s) : SInv (s.setValidated pk) :=
  ⟨h.sorted, h.bound, h.onePer, h.seed0, h.seedPos, h.wf⟩


/-! ### the server side of a world -/

/-- `r` was accepted at some earlier moment: the registration predicate held of its presentation, against the
    (well-formed) list `s` of that moment -/
def Listed (d : Def) (t : Nat) (r : Row) : Prop :=
  ∃ s now, now ≤ t ∧ SInv s ∧ Acceptable d s now r.vp r.subject r.exp

theorem Listed.mono {d : Def} {t t' : Nat} {r : Row} (h : Listed d t r) (ht : t ≤ t') : Listed d t' r := by
  obtain ⟨s, now, h1, h2, h3⟩ := h
  exact ⟨s, now, by omega, h2, h3⟩

structure ServerOK (d : Def) (w : World) : Prop where
  inv : SInv w.S
  listed : ∀ r ∈ w.S.rows, Listed d w.t r

theorem serverOK_init (d : Def) (t : Nat) : ServerOK d { t := t } :=
  ⟨sinv_empty, by intro r h; cases h⟩

/-- only `register`, `reset` and the clock touch the server side -/
theorem step_server (cfg : Cfg) (d : Def) (w : World) (e : Ev) :
    ((step cfg d w e).1.S = w.S ∧ w.t ≤ (step cfg d w e).1.t) ∨
    ((step cfg d w e).1.S = {} ∧ (step cfg d w e).1.t = w.t) ∨
    (∃ vp, (step cfg d w e).1.S = (register d w.S w.t (w.ctr + 1) vp).1 ∧ (step cfg d w e).1.t = w.t) := by
  cases e with
  | tick n => left; simp [step]
  | register vp => right; right; exact ⟨vp, by simp [step], by simp [step]⟩
  | reset => right; left; simp [step]
  | pollA => left; simp [step]
  | pollB perm =>
    left
    unfold step
    cases w.pending <;> simp
  | validate => left; simp [step]

theorem serverOK_register (d : Def) (s : Store) (t fresh : Nat) (vp : VP) (hf : fresh ≠ 0)
    (hi : SInv s) (hl : ∀ r ∈ s.rows, Listed d t r) :
    SInv (register d s t fresh vp).1 ∧ ∀ r ∈ (register d s t fresh vp).1.rows, Listed d t r := by
  rcases register_cases d s t fresh vp with ⟨o, ho, _⟩ | ⟨subj, e, id, hA, hid, _, hreg⟩
  · rw [ho]; exact ⟨hi, hl⟩
  · rw [hreg]
    obtain ⟨m, hsig, _⟩ := hA.signer
    have hseed : (if s.seed = 0 then fresh else s.seed) ≠ 0 := by
      split <;> assumption
    refine ⟨sinv_setValidated _ (sinv_addOk s t vp subj m id e _ hi hsig hid hA.exp hA.jwt hseed), ?_⟩
    intro r hr
    have hr' : r ∈ (addOk s t vp subj id e (if s.seed = 0 then fresh else s.seed) (s.lastTs + 1)).1.rows := hr
    rcases mem_addOk.mp hr' with ⟨h1, _, _⟩ | h1
    · exact hl r h1
    · subst h1
      exact ⟨s, t, Nat.le_refl _, hi, hA⟩

theorem serverOK_step (cfg : Cfg) (d : Def) (w : World) (e : Ev) (h : ServerOK d w) :
    ServerOK d (step cfg d w e).1 := by
  rcases step_server cfg d w e with ⟨hS, ht⟩ | ⟨hS, _⟩ | ⟨vp, hS, ht⟩
  · exact ⟨by rw [hS]; exact h.inv, by rw [hS]; intro r hr; exact (h.listed r hr).mono ht⟩
  · exact ⟨by rw [hS]; exact sinv_empty, by rw [hS]; intro r hr; cases hr⟩
  · have := serverOK_register d w.S w.t (w.ctr + 1) vp (by omega) h.inv h.listed
    exact ⟨by rw [hS]; exact this.1, by rw [hS, ht]; exact this.2⟩

theorem run_inv (cfg : Cfg) (d : Def) (P : World → Prop) (hstep : ∀ w e, P w → P (step cfg d w e).1) :
    ∀ (evs : List Ev) (w : World), P w → P (run cfg d w evs) := by
  intro evs
  induction evs with
  | nil => intro w h; exact h
  | cons e es ih => intro w h; exact ih _ (hstep w e h)

theorem serverOK_run (cfg : Cfg) (d : Def) (evs : List Ev) (w : World) (h : ServerOK d w) :
    ServerOK d (run cfg d w evs) :=
  run_inv cfg d (ServerOK d) (fun w e => serverOK_step cfg d w e) evs w h


end Nuts.C16
