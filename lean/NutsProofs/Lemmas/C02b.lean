/-
  C02 — helper lemmas, part 2: authorization-code flow (authorize response, token request).
-/
import NutsProofs.Lemmas.C02

namespace Nuts.C02

/-- what the loop of the authorize-response handler establishes for one presentation (no validity bound here) -/
structure CodePreOK (cfg : Cfg) (subj : String) (vp : VP) (s : String) : Prop where
  signer : vp.signer = some s
  subjects : ∀ x ∈ vp.subjects, x = some s ∨ x = some ""
  audience : cfg.issuerURL subj ∈ vp.aud

theorem codePre_ok (cfg : Cfg) (subj : String) (hchk : cfg.emptyVpChecked = true) :
    ∀ (vps : List VP) (cur s : String), (∀ vp ∈ vps, vp.signer ≠ some "") →
      codePre cfg subj vps cur = .ok s →
      (∀ vp ∈ vps, CodePreOK cfg subj vp s) ∧ (cur = "" ∨ s = cur) := by
  intro vps
  induction vps with
  | nil => intro cur s _ h; simp only [codePre, Res.ok.injEq] at h; exact ⟨fun vp hvp => (nomatch hvp), Or.inr h.symm⟩
  | cons vp rest ih =>
    intro cur s hwf h
    unfold codePre at h
    split at h
    · rename_i s1 hs1
      split at h
      · rename_i haud
        obtain ⟨hsg, hsub, hexp⟩ := validateSigner_ok cfg vp cur s1 hs1
        have hs1ne : s1 ≠ "" := by
          intro he; subst he; exact hwf vp List.mem_cons_self hsg
        have hrest := ih s1 s (fun v hv => hwf v (List.mem_cons_of_mem _ hv)) h
        have hss : s = s1 := by
          rcases hrest.2 with h0 | h0
          · exact absurd h0 hs1ne
          · exact h0
        subst hss
        refine ⟨?_, hexp (Or.inr hchk)⟩
        intro v hv
        rcases List.mem_cons.mp hv with rfl | hv
        · exact ⟨hsg, hsub, checkAudience_ok cfg subj v haud⟩
        · exact hrest.1 v hv
      · cases h
      · cases h
    · cases h
    · cases h

theorem collectNonces_acc (vps : List VP) : ∀ acc x, x ∈ acc → x ∈ collectNonces vps acc := by
  induction vps with
  | nil => intro acc x h; exact h
  | cons vp rest ih =>
    intro acc x h
    unfold collectNonces
    simp only
    apply ih
    split
    · exact List.mem_append_left _ h
    · exact h

theorem collectNonces_mem (vps : List VP) : ∀ acc vp, vp ∈ vps → vpChallenge vp ≠ "" →
    vpChallenge vp ∈ collectNonces vps acc := by
  induction vps with
  | nil => intro acc vp h; cases h
  | cons v rest ih =>
    intro acc vp hvp hne
    unfold collectNonces
    simp only
    rcases List.mem_cons.mp hvp with rfl | hvp
    · apply collectNonces_acc
      split
      · exact List.mem_append_right _ (List.mem_singleton.mpr rfl)
      · rename_i hnot
        by_cases hin : vpChallenge vp ∈ acc
        · exact hin
        · exact absurd ⟨hne, hin⟩ hnot
    · exact ih _ vp hvp hne

theorem Store.getAndDelete_some {α : Type} (s : Store α) (now : Nat) (k : String) (v : α) (s' : Store α)
    (h : s.getAndDelete now k = (some v, s')) : s.get now k = some v ∧ s' = s.del k := by
  unfold Store.getAndDelete at h
  split at h
  · rename_i v' hv'
    simp only [Prod.mk.injEq, Option.some.injEq] at h
    exact ⟨by rw [hv', h.1], h.2.symm⟩
  · simp at h

theorem Store.getAndDelete_none {α : Type} (s : Store α) (now : Nat) (k : String) (s' : Store α)
    (h : s.getAndDelete now k = (none, s')) : s.get now k = none ∧ s' = s := by
  unfold Store.getAndDelete at h
  split at h
  · simp at h
  · rename_i hn
    simp only [Prod.mk.injEq, true_and] at h
    exact ⟨hn, h.symm⟩

theorem validatePresentationNonce_ok (now : Nat) (vps : List VP) (state : String) (st st' : Store String)
    (h : validatePresentationNonce now vps state st = (st', .ok ())) :
    ∃ n, n ≠ "" ∧ (∀ vp ∈ vps, vpChallenge vp = n) ∧ st.get now n = some state ∧ st' = st.del n := by
  unfold validatePresentationNonce at h
  simp only at h
  split at h
  · simp at h
  · rename_i hcond
    have hlen : ¬ (collectNonces vps []).length > 1 := fun hh => hcond (Or.inl hh)
    have hall : vps.all (fun vp => decide (vpChallenge vp ≠ "")) = true := by
      cases hb : vps.all (fun vp => decide (vpChallenge vp ≠ "")) with
      | true => rfl
      | false => exact absurd (Or.inr hb) hcond
    split at h
    · simp at h
    · rename_i n rest hn
      have hrest : rest = [] := by
        cases rest with
        | nil => rfl
        | cons a b => rw [hn] at hlen; simp at hlen
      subst hrest
      have hmem : ∀ vp ∈ vps, vpChallenge vp = n := by
        intro vp hvp
        have hne : vpChallenge vp ≠ "" := by
          have := List.all_eq_true.mp hall vp hvp
          simpa using this
        have := collectNonces_mem vps [] vp hvp hne
        rw [hn] at this
        exact List.mem_singleton.mp this
      split at h
      · simp at h
      · rename_i v stx hgd
        obtain ⟨hv, hstx⟩ := Store.getAndDelete_some st now n v stx hgd
        split at h
        · simp at h
        · rename_i heq
          simp only [Prod.mk.injEq, and_true] at h
          have hs : state = v := by
            by_cases hh : state = v
            · exact hh
            · exact absurd hh heq
          subst hs
          subst hstx
          refine ⟨n, ?_, hmem, hv, h.symm⟩
          -- n is the challenge of some presentation or … the list [n] is non-empty so it came from a presentation
          intro he
          subst he
          -- "" is never collected
          have : ∀ (l : List VP) (acc : List String), "" ∉ acc → "" ∉ collectNonces l acc := by
            intro l
            induction l with
            | nil => intro acc h; exact h
            | cons v rest ih =>
              intro acc hacc
              unfold collectNonces
              simp only
              apply ih
              split
              · rename_i hc
                intro hm
                rcases List.mem_append.mp hm with hm | hm
                · exact hacc hm
                · exact hc.1 (List.mem_singleton.mp hm).symm
              · exact hacc
          exact this vps [] (by simp) (by rw [hn]; simp)

/-- everything the authorize-response (direct_post) handler has established when it accepts a submission -/
structure AuthChecked (cfg : Cfg) (w : World) (now : Nat) (r : AuthResp) (state : String) (session : Session)
    (n s : String) (d : Def) : Prop where
  stateGiven : r.state = some state
  sessionFound : w.states.get now state = some session
  tenant : r.subject = session.ownSubject
  wellformed : r.vpToken = true ∧ r.envelopeOK = true ∧ r.vps ≠ [] ∧ r.submission = true ∧ r.submissionOK = true
  challenge : n ≠ "" ∧ ∀ vp ∈ r.vps, vpChallenge vp = n
  bound : w.oauthNonces.get now n = some state
  pre : ∀ vp ∈ r.vps, CodePreOK cfg r.subject vp s
  verified : ∀ vp ∈ r.vps, vpVerifies cfg now vp = true
  required : findDef session.consumer.required r.subDefId = some d
  notYet : r.subDefId ∉ session.consumer.fulfilled
  pex : r.pex d.key = true

def Session.fulfilledWith (session : Session) (r : AuthResp) (d : Def) : Session :=
  { session with consumer := { session.consumer with
      fulfilled := r.subDefId :: session.consumer.fulfilled,
      claims := r.claims d.key :: session.consumer.claims,
      vps := session.consumer.vps + r.vps.length } }

/-- state change of an accepted submission: the nonce is deleted, the session is updated, and either a code is
    stored (everything fulfilled) or a fresh nonce for the next wallet -/
inductive AuthEffect (cfg : Cfg) (w w' : World) (now : Nat) (r : AuthResp) (state : String) (session : Session)
    (n : String) (d : Def) : AuthOut → Prop where
  | code :
      (session.fulfilledWith r d).consumer.next = none →
      w' = { w with oauthNonces := w.oauthNonces.del n,
                    states := w.states.put now cfg.stateTtl state (session.fulfilledWith r d),
                    codes := w.codes.put now cfg.codeTtl (codeName w.nextCode) (session.fulfilledWith r d),
                    nextCode := w.nextCode + 1 } →
      AuthEffect cfg w w' now r state session n d (.code (codeName w.nextCode) session.clientState)
  | next (owner : String) :
      (session.fulfilledWith r d).consumer.next = some owner →
      w' = { w with oauthNonces := (w.oauthNonces.del n).put now cfg.oauthNonceTtl (nonceName w.nextNonce) state,
                    states := w.states.put now cfg.stateTtl state (session.fulfilledWith r d),
                    nextNonce := w.nextNonce + 1 } →
      AuthEffect cfg w w' now r state session n d (.next owner (nonceName w.nextNonce))

theorem authorizeResponse_ok (cfg : Cfg) (w w' : World) (now : Nat) (r : AuthResp) (out : AuthOut)
    (hchk : cfg.emptyVpChecked = true) (hwf : ∀ vp ∈ r.vps, vp.signer ≠ some "")
    (h : authorizeResponse cfg w now r = (w', .ok out)) :
    ∃ state session n s d, AuthChecked cfg w now r state session n s d ∧
      AuthEffect cfg w w' now r state session n d out := by
  unfold authorizeResponse at h
  split at h
  · simp at h
  · rename_i state hstate
    split at h
    · simp at h
    · rename_i hvp
      split at h
      · simp at h
      · rename_i henv
        split at h
        · simp at h
        · rename_i session hsess
          split at h
          · simp at h
          · rename_i htenant
            split at h
            rename_i on nres hnonce
            simp only at h
            split at h
            · simp at h
            · simp at h
            · split at h
              · simp at h
              · rename_i hsubm
                split at h
                · simp at h
                · rename_i hsubok
                  split at h
                  · simp at h
                  · simp at h
                  · rename_i s hpre
                    split at h
                    · simp at h
                    · simp at h
                    · rename_i hver
                      split at h
                      · simp at h
                      · simp at h
                      · rename_i consumer hful
                        obtain ⟨n, hnne, hall, hbound, hon⟩ := validatePresentationNonce_ok now r.vps state w.oauthNonces on hnonce
                        obtain ⟨d, hd, hnf, hpex, hcons⟩ := fulfill_ok _ _ _ _ _ _ hful
                        have hp := codePre_ok cfg r.subject hchk r.vps "" s hwf hpre
                        have henv' : r.envelopeOK = true ∧ r.vps ≠ [] := by
                          constructor
                          · cases hb : r.envelopeOK with
                            | true => rfl
                            | false => exact absurd (Or.inl hb) henv
                          · intro hnil; exact henv (Or.inr hnil)
                        have hchecked : AuthChecked cfg w now r state session n s d :=
                          { stateGiven := hstate, sessionFound := hsess, tenant := by simpa using htenant
                            wellformed := ⟨by simpa using hvp, henv'.1, henv'.2, by simpa using hsubm, by simpa using hsubok⟩
                            challenge := ⟨hnne, hall⟩, bound := hbound, pre := hp.1
                            verified := verifyAll_ok cfg now r.vps hver
                            required := hd, notYet := hnf, pex := hpex }
                        subst hcons
                        subst hon
                        refine ⟨state, session, n, s, d, hchecked, ?_⟩
                        split at h
                        · rename_i owner hnext
                          simp only [Prod.mk.injEq, Res.ok.injEq] at h
                          obtain ⟨hw, hout⟩ := h
                          subst hout
                          exact AuthEffect.next owner hnext (by rw [← hw]; rfl)
                        · rename_i hnext
                          simp only [Prod.mk.injEq, Res.ok.injEq] at h
                          obtain ⟨hw, hout⟩ := h
                          subst hout
                          exact AuthEffect.code hnext (by rw [← hw]; rfl)

theorem Store.del_del {α : Type} (s : Store α) (k : String) : (s.del k).del k = s.del k := by
  unfold Store.del
  rw [List.filter_filter]
  congr 1
  funext e
  simp

/-- everything the authorization_code token request has established when it answers 200 -/
structure CodeChecked (cfg : Cfg) (sha : String → String) (w : World) (now : Nat) (r : CodeReq)
    (code verifier : String) (session : Session) : Prop where
  subject : r.subject ∈ cfg.subjects
  codeGiven : r.code = some code
  verifierGiven : r.verifier = some verifier
  known : w.codes.get now code = some session
  client : r.clientId = some session.clientId
  method : session.method = "S256"
  pkce : sha verifier = session.challenge
  dpop : r.dpop ≠ .invalid

structure CodeEffect (cfg : Cfg) (w w' : World) (now : Nat) (r : CodeReq) (code : String) (session : Session)
    (resp : TokenResponse) : Prop where
  token : resp.token = tokName w.nextTok
  scope : resp.scope = session.scope
  record : ∃ claims dpop, mergeClaims session.consumer.claims [] = .ok claims ∧ parseDPoP r.dpop = .ok dpop ∧
    w'.tokens = w.tokens.put now cfg.tokenTtl (tokName w.nextTok)
      { issuer := cfg.issuerURL session.ownSubject, clientId := session.clientId, scope := session.scope, issuedAt := now,
        expiration := now + cfg.tokenValidity, dpop := dpop, claims := claims, defs := session.consumer.required,
        submissions := session.consumer.fulfilled, vps := session.consumer.vps }
  next : w'.nextTok = w.nextTok + 1
  burned : w'.codes = w.codes.del code
  others : w'.states = w.states ∧ w'.oauthNonces = w.oauthNonces ∧ w'.s2sNonces = w.s2sNonces ∧
    w'.nextCode = w.nextCode ∧ w'.nextNonce = w.nextNonce

theorem issueCode_ok (cfg : Cfg) (sha : String → String) (w w' : World) (now : Nat) (r : CodeReq) (resp : TokenResponse)
    (h : issueCode cfg sha w now r = (w', .ok resp)) :
    ∃ code verifier session, CodeChecked cfg sha w now r code verifier session ∧
      CodeEffect cfg w w' now r code session resp := by
  unfold issueCode at h
  split at h
  · simp at h
  · rename_i hsubj
    split at h
    · simp at h
    · rename_i code hcode
      simp only at h
      split at h
      · simp at h
      · rename_i verifier hverifier
        split at h
        · simp at h
        · rename_i clientId hclient
          split at h
          · simp at h
          · rename_i session cs hgd
            obtain ⟨hget, hcs⟩ := Store.getAndDelete_some w.codes now code session cs hgd
            split at h
            · simp at h
            · rename_i hcid
              split at h
              · simp at h
              · rename_i hpk
                split at h
                · simp at h
                · simp at h
                · rename_i dpop hdpop
                  split at h
                  · rename_i w2 resp' hcreate
                    simp only [Prod.mk.injEq, Res.ok.injEq] at h
                    obtain ⟨hw2, hresp⟩ := h
                    subst hw2; subst hresp
                    obtain ⟨claims, hclaims, htok, hscope, _, _, _, hw'⟩ := createAccessToken_ok _ _ _ _ _ _ _ _ _ _ hcreate
                    have hpk' : pkceOK sha session verifier = true := by
                      cases hb : pkceOK sha session verifier with
                      | true => rfl
                      | false => exact absurd hb hpk
                    unfold pkceOK at hpk'
                    split at hpk'
                    · rename_i hm
                      refine ⟨code, verifier, session, ?_, ?_⟩
                      · exact { subject := by simpa using hsubj, codeGiven := hcode, verifierGiven := hverifier, known := hget
                                client := by
                                  rw [hclient]; congr 1
                                  by_cases hh : session.clientId = clientId
                                  · exact hh.symm
                                  · exact absurd hh hcid
                                method := hm
                                pkce := by simpa using hpk'
                                dpop := by intro hi; rw [hi] at hdpop; cases hdpop }
                      · subst hw'
                        subst hcs
                        exact { token := htok, scope := hscope
                                record := ⟨claims, dpop, hclaims, hdpop, rfl⟩
                                next := rfl
                                burned := by simp [Store.del_del]
                                others := ⟨rfl, rfl, rfl, rfl, rfl⟩ }
                    · cases hpk'
                  · simp at h
                  · simp at h

/-- a presented authorization code is gone afterwards, whatever the outcome of the request -/
theorem issueCode_burns (cfg : Cfg) (sha : String → String) (w : World) (now : Nat) (r : CodeReq) (code : String)
    (hs : r.subject ∈ cfg.subjects) (hc : r.code = some code) :
    (issueCode cfg sha w now r).1.codes.find code = none := by
  unfold issueCode
  rw [if_neg (by simpa using hs)]
  simp only [hc]
  split
  · exact Store.find_del_same _ _
  · split
    · exact Store.find_del_same _ _
    · split
      · exact Store.find_del_same _ _
      · split
        · exact Store.find_del_same _ _
        · split
          · exact Store.find_del_same _ _
          · split
            · exact Store.find_del_same _ _
            · exact Store.find_del_same _ _
            · rename_i dpop _
              split
              · rename_i w2 resp hcreate
                obtain ⟨_, _, _, _, _, _, _, hw'⟩ := createAccessToken_ok _ _ _ _ _ _ _ _ _ _ hcreate
                subst hw'
                exact Store.find_del_same _ _
              · rename_i w2 e hcreate
                unfold createAccessToken at hcreate
                split at hcreate
                · simp at hcreate
                · simp only [Prod.mk.injEq] at hcreate; rw [← hcreate.1]; exact Store.find_del_same _ _
                · simp at hcreate
              · rename_i w2 e hcreate
                unfold createAccessToken at hcreate
                split at hcreate
                · simp at hcreate
                · simp at hcreate
                · simp only [Prod.mk.injEq] at hcreate; rw [← hcreate.1]; exact Store.find_del_same _ _

end Nuts.C02
