/-
  C07 deepening: the peeling loop of Iblt.Decode — invariant and contract.
-/
import NutsProofs.Lemmas.C07Iblt
open Nuts.Proto Nuts

namespace Nuts.Proto.Iblt

def xorL (L : List Nat) : Nat := L.foldr (· ^^^ ·) 0

theorem xorL_append (L M : List Nat) : xorL (L ++ M) = xorL L ^^^ xorL M := by
  induction L with
  | nil => simp [xorL]
  | cons x L ih =>
    have h1 : xorL (x :: L ++ M) = x ^^^ xorL (L ++ M) := rfl
    have h2 : xorL (x :: L) = x ^^^ xorL L := rfl
    rw [h1, h2, ih, Nat.xor_assoc]

/-- **hash faithfulness** (the one property of murmur3 the decode contract needs, over the keys `U` in play):
    no set of two or more distinct keys looks like a single key (hashKey of the XOR of the keys = XOR of their hashKeys),
    and no non-empty set of distinct keys cancels to the all-zero bucket. Fails only on a 64-bit hash-sum collision. -/
structure Faithful (H : Hash) (U : Ref → Prop) : Prop where
  pure : ∀ S : List Ref, S.Nodup → (∀ x ∈ S, U x) → 2 ≤ S.length → H.hashKey (xorL S) ≠ xorL (S.map H.hashKey)
  nonzero : ∀ S : List Ref, S.Nodup → (∀ x ∈ S, U x) → S ≠ [] → ¬ (xorL S = 0 ∧ xorL (S.map H.hashKey) = 0)

section Peel
variable (H : Hash) (P : Par) (n : Nat)

theorem sumB_view (j : Nat) (L : List Ref) :
    sumB H P n j L = ⟨((L.filter (inB H P n j)).length : Int), xorL ((L.filter (inB H P n j)).map H.hashKey), xorL (L.filter (inB H P n j))⟩ := by
  induction L with
  | nil => rfl
  | cons x L ih =>
    by_cases hx : inB H P n j x = true
    · simp only [sumB, hx, if_true, List.filter_cons, ih, Bucket.ins, List.length_cons, List.map_cons]
      apply Bucket.ext'
      · simp only; omega
      · show _ ^^^ _ = H.hashKey x ^^^ _; rw [Nat.xor_comm]; rfl
      · show _ ^^^ _ = x ^^^ _; rw [Nat.xor_comm]; rfl
    · simp [sumB, hx, List.filter_cons, ih]

theorem sumB_erase (j : Nat) {A : List Ref} {x : Ref} (hx : x ∈ A) :
    sumB H P n j A = if inB H P n j x then (sumB H P n j (A.erase x)).ins x (H.hashKey x) else sumB H P n j (A.erase x) := by
  rw [sumB_perm H P n j (List.perm_cons_erase hx)]
  rfl

theorem Bucket.peel_pos (s t : Bucket) (y hy : Nat) : ((s.ins y hy).sub t).del y hy = s.sub t := by
  apply Bucket.ext' <;> simp only [Bucket.ins, Bucket.sub, Bucket.del]
  · omega
  · rw [show s.hashSum ^^^ hy ^^^ t.hashSum ^^^ hy = s.hashSum ^^^ t.hashSum ^^^ (hy ^^^ hy) by ac_rfl, Nat.xor_self, Nat.xor_zero]
  · rw [show s.keySum ^^^ y ^^^ t.keySum ^^^ y = s.keySum ^^^ t.keySum ^^^ (y ^^^ y) by ac_rfl, Nat.xor_self, Nat.xor_zero]

theorem Bucket.peel_neg (s t : Bucket) (y hy : Nat) : (s.sub (t.ins y hy)).ins y hy = s.sub t := by
  apply Bucket.ext' <;> simp only [Bucket.ins, Bucket.sub]
  · omega
  · rw [show s.hashSum ^^^ (t.hashSum ^^^ hy) ^^^ hy = s.hashSum ^^^ t.hashSum ^^^ (hy ^^^ hy) by ac_rfl, Nat.xor_self, Nat.xor_zero]
  · rw [show s.keySum ^^^ (t.keySum ^^^ y) ^^^ y = s.keySum ^^^ t.keySum ^^^ (y ^^^ y) by ac_rfl, Nat.xor_self, Nat.xor_zero]

/-- peeling a key of the positive side: `Delete` -/
theorem rep_delete (hn : 0 < n) {t : Table} {A B : List Ref} (h : Rep H P n t A B) {y : Ref} (hy : y ∈ A) :
    Rep H P n (delete H P t y) (A.erase y) B := by
  refine ⟨by rw [delete_length]; exact h.1, ?_⟩
  intro j hj
  rw [delete_get H P n hn t h.1 y j, h.2 j hj, sumB_erase H P n j hy]
  by_cases hin : inB H P n j y = true
  · simp only [hin, if_true, Option.map_some, Bucket.peel_pos]
  · simp [hin]

/-- peeling a key of the negative side: `Insert` -/
theorem rep_insert (hn : 0 < n) {t : Table} {A B : List Ref} (h : Rep H P n t A B) {y : Ref} (hy : y ∈ B) :
    Rep H P n (insert H P t y) A (B.erase y) := by
  refine ⟨by rw [insert_length]; exact h.1, ?_⟩
  intro j hj
  rw [insert_get H P n hn t h.1 y j, h.2 j hj, sumB_erase H P n j hy]
  by_cases hin : inB H P n j y = true
  · simp only [hin, if_true, Option.map_some, Bucket.peel_neg]
  · simp [hin]

end Peel

section Loop
variable (H : Hash) (P : Par) (n : Nat) (U : Ref → Prop)

/-- a bucket of a represented table that passes the purity test holds exactly one key of the difference, with its sign -/
theorem pure_analysis (hF : Faithful H U) {A B : List Ref} (ndA : A.Nodup) (ndB : B.Nodup) (disj : ∀ x ∈ A, x ∉ B)
    (uA : ∀ x ∈ A, U x) (uB : ∀ x ∈ B, U x) (j : Nat)
    (hp : ((sumB H P n j A).sub (sumB H P n j B)).pure H = true) :
    (((sumB H P n j A).sub (sumB H P n j B)).count = 1 ∧ ((sumB H P n j A).sub (sumB H P n j B)).keySum ∈ A) ∨
    (((sumB H P n j A).sub (sumB H P n j B)).count = -1 ∧ ((sumB H P n j A).sub (sumB H P n j B)).keySum ∈ B) := by
  rw [sumB_view H P n j A, sumB_view H P n j B] at hp ⊢
  have hFA : ∀ y ∈ A.filter (inB H P n j), y ∈ A := fun y hy => (List.mem_filter.mp hy).1
  have hFB : ∀ y ∈ B.filter (inB H P n j), y ∈ B := fun y hy => (List.mem_filter.mp hy).1
  have ndFA := ndA.filter (inB H P n j)
  have ndFB := ndB.filter (inB H P n j)
  generalize A.filter (inB H P n j) = FA at hp hFA ndFA ⊢
  generalize B.filter (inB H P n j) = FB at hp hFB ndFB ⊢
  simp only [Bucket.sub, Bucket.pure, Bool.and_eq_true, Bool.or_eq_true, beq_iff_eq] at hp ⊢
  obtain ⟨hc, hh⟩ := hp
  have hS : (FA ++ FB).Nodup := by
    rw [List.nodup_append]
    refine ⟨ndFA, ndFB, ?_⟩
    intro a ha c hc' heq
    subst heq
    exact disj a (hFA a ha) (hFB a hc')
  have hSU : ∀ x ∈ FA ++ FB, U x := by
    intro x hx
    rcases List.mem_append.mp hx with h | h
    · exact uA x (hFA x h)
    · exact uB x (hFB x h)
  by_cases hlen : 2 ≤ (FA ++ FB).length
  · exfalso
    apply hF.pure (FA ++ FB) hS hSU hlen
    rw [xorL_append, List.map_append, xorL_append]
    exact hh
  · rw [List.length_append] at hlen
    match FA, FB, hFA, hFB with
    | [], [], _, _ => simp at hc
    | [y], [], hFA, _ =>
      left
      refine ⟨by simp, ?_⟩
      have : xorL [y] ^^^ xorL [] = y := by simp [xorL]
      rw [this]; exact hFA y (by simp)
    | [], [y], _, hFB =>
      right
      refine ⟨by simp, ?_⟩
      have : xorL [] ^^^ xorL [y] = y := by simp [xorL]
      rw [this]; exact hFB y (by simp)
    | _ :: _ :: _, _, _, _ => simp at hlen; omega
    | [_], _ :: _, _, _ => simp at hlen; omega
    | [], _ :: _ :: _, _, _ => simp at hlen

/-- the loop invariant of Decode: the table represents a shrinking part `A`/`B` of the initial difference `A0`/`B0`;
    what was peeled is in `remaining`/`missing`; `pures` holds only peeled keys -/
structure Inv (A0 B0 : List Ref) (st : DSt) (A B : List Ref) : Prop where
  rep : Rep H P n st.tab A B
  ndA : A.Nodup
  ndB : B.Nodup
  disj : ∀ x ∈ A, x ∉ B
  uA : ∀ x ∈ A, U x
  uB : ∀ x ∈ B, U x
  remA : ∀ r, r ∈ A0 ↔ (r ∈ st.remaining ∨ r ∈ A)
  misB : ∀ r, r ∈ B0 ↔ (r ∈ st.missing ∨ r ∈ B)
  pur : ∀ r ∈ st.pures, r ∉ A ∧ r ∉ B

theorem peelAt_inv (hn : 0 < n) (hF : Faithful H U) {A0 B0 : List Ref} {st : DSt} {A B : List Ref}
    (inv : Inv H P n U A0 B0 st A B) (idx : Nat) :
    ∃ st' A' B', peelAt H P st idx = some st' ∧ Inv H P n U A0 B0 st' A' B' ∧
      A'.length + B'.length ≤ A.length + B.length ∧
      (st'.updated = true → st.updated = true ∨ A'.length + B'.length < A.length + B.length) := by
  unfold peelAt
  cases hb : st.tab[idx]? with
  | none => exact ⟨st, A, B, rfl, inv, Nat.le_refl _, fun h => Or.inl h⟩
  | some b =>
    simp only
    have hidx : idx < n := by
      have := (List.getElem?_eq_some_iff.mp hb).1
      rw [inv.rep.1] at this; exact this
    have hbv : b = (sumB H P n idx A).sub (sumB H P n idx B) := by
      have := inv.rep.2 idx hidx
      rw [hb] at this; exact Option.some.inj this
    by_cases hp : b.pure H = true
    · simp only [hp, if_true]
      have han := pure_analysis H P n U hF inv.ndA inv.ndB inv.disj inv.uA inv.uB idx (hbv ▸ hp)
      rw [← hbv] at han
      rcases han with ⟨hc1, hmem⟩ | ⟨hc1, hmem⟩
      · -- a key of the positive side
        have hnotp : st.pures.contains b.keySum = false := by
          cases hcp : st.pures.contains b.keySum with
          | false => rfl
          | true => exact absurd hmem (inv.pur _ (List.contains_iff_mem.mp hcp)).1
        have hcb : (b.count == 1) = true := by simp [hc1]
        simp only [hnotp, Bool.false_eq_true, if_false, hcb, if_true]
        refine ⟨_, A.erase b.keySum, B, rfl, ?_, ?_, ?_⟩
        · refine ⟨rep_delete H P n hn inv.rep hmem, inv.ndA.erase _, inv.ndB, ?_, ?_, inv.uB, ?_, inv.misB, ?_⟩
          · intro x hx; exact inv.disj x (List.mem_of_mem_erase hx)
          · intro x hx; exact inv.uA x (List.mem_of_mem_erase hx)
          · intro r
            rw [inv.remA r]
            simp only [List.mem_append, List.mem_singleton]
            constructor
            · rintro (h | h)
              · exact Or.inl (Or.inl h)
              · by_cases he : r = b.keySum
                · exact Or.inl (Or.inr he)
                · exact Or.inr ((List.mem_erase_of_ne he).mpr h)
            · rintro ((h | h) | h)
              · exact Or.inl h
              · exact Or.inr (h ▸ hmem)
              · exact Or.inr (List.mem_of_mem_erase h)
          · intro r hr
            rcases List.mem_cons.mp hr with rfl | hr
            · exact ⟨fun h => (inv.ndA.mem_erase_iff.mp h).1 rfl, inv.disj _ hmem⟩
            · exact ⟨fun h => (inv.pur r hr).1 (List.mem_of_mem_erase h), (inv.pur r hr).2⟩
        · rw [List.length_erase_of_mem hmem]; omega
        · intro _; right
          rw [List.length_erase_of_mem hmem]
          have : 0 < A.length := List.length_pos_of_mem hmem
          omega
      · -- a key of the negative side
        have hnotp : st.pures.contains b.keySum = false := by
          cases hcp : st.pures.contains b.keySum with
          | false => rfl
          | true => exact absurd hmem (inv.pur _ (List.contains_iff_mem.mp hcp)).2
        have hcb : (b.count == 1) = false := by simp [hc1]
        simp only [hnotp, Bool.false_eq_true, if_false, hcb]
        refine ⟨_, A, B.erase b.keySum, rfl, ?_, ?_, ?_⟩
        · refine ⟨rep_insert H P n hn inv.rep hmem, inv.ndA, inv.ndB.erase _, ?_, inv.uA, ?_, inv.remA, ?_, ?_⟩
          · intro x hx hxb; exact inv.disj x hx (List.mem_of_mem_erase hxb)
          · intro x hx; exact inv.uB x (List.mem_of_mem_erase hx)
          · intro r
            rw [inv.misB r]
            simp only [List.mem_append, List.mem_singleton]
            constructor
            · rintro (h | h)
              · exact Or.inl (Or.inl h)
              · by_cases he : r = b.keySum
                · exact Or.inl (Or.inr he)
                · exact Or.inr ((List.mem_erase_of_ne he).mpr h)
            · rintro ((h | h) | h)
              · exact Or.inl h
              · exact Or.inr (h ▸ hmem)
              · exact Or.inr (List.mem_of_mem_erase h)
          · intro r hr
            rcases List.mem_cons.mp hr with rfl | hr
            · exact ⟨fun h => inv.disj _ h hmem, fun h => (inv.ndB.mem_erase_iff.mp h).1 rfl⟩
            · exact ⟨(inv.pur r hr).1, fun h => (inv.pur r hr).2 (List.mem_of_mem_erase h)⟩
        · rw [List.length_erase_of_mem hmem]; omega
        · intro _; right
          rw [List.length_erase_of_mem hmem]
          have : 0 < B.length := List.length_pos_of_mem hmem
          omega
    · simp only [hp, Bool.false_eq_true, if_false]
      exact ⟨st, A, B, rfl, inv, Nat.le_refl _, fun h => Or.inl h⟩

end Loop

section Final
variable (H : Hash) (P : Par) (n : Nat) (U : Ref → Prop)

theorem sweep_inv (hn : 0 < n) (hF : Faithful H U) {A0 B0 : List Ref} : ∀ (idxs : List Nat) (st : DSt) (A B : List Ref),
    Inv H P n U A0 B0 st A B →
    ∃ st' A' B', sweep H P idxs st = some st' ∧ Inv H P n U A0 B0 st' A' B' ∧
      A'.length + B'.length ≤ A.length + B.length ∧
      (st'.updated = true → st.updated = true ∨ A'.length + B'.length < A.length + B.length) := by
  intro idxs
  induction idxs with
  | nil => intro st A B inv; exact ⟨st, A, B, rfl, inv, Nat.le_refl _, fun h => Or.inl h⟩
  | cons i is ih =>
    intro st A B inv
    obtain ⟨st1, A1, B1, h1, inv1, hle1, hu1⟩ := peelAt_inv H P n U hn hF inv i
    obtain ⟨st2, A2, B2, h2, inv2, hle2, hu2⟩ := ih st1 A1 B1 inv1
    refine ⟨st2, A2, B2, ?_, inv2, by omega, ?_⟩
    · simp only [sweep, h1, h2]
    · intro hu
      rcases hu2 hu with h | h
      · rcases hu1 h with h | h
        · exact Or.inl h
        · exact Or.inr (by omega)
      · exact Or.inr (by omega)

theorem chainLoop_ne_nil (k : Nat) : ∀ (steps : Nat) (acc : List Nat) (next last : Nat), acc ≠ [] →
    (chainLoop H n k steps acc next last).1 ≠ [] := by
  intro steps
  induction steps with
  | zero => intro acc _ _ h; exact h
  | succ s ih =>
    intro acc next last h
    unfold chainLoop
    by_cases hl : acc.length < k
    · simp only [hl, if_true]
      apply ih
      split
      · exact h
      · simp
    · simp only [hl, if_false]; exact h

theorem probeLoop_ne_nil (k last : Nat) : ∀ (cnt off : Nat) (acc : List Nat), acc ≠ [] → probeLoop n k last cnt off acc ≠ [] := by
  intro cnt
  induction cnt with
  | zero => intro _ acc h; exact h
  | succ c ih =>
    intro off acc h
    unfold probeLoop
    by_cases hl : acc.length < k
    · simp only [hl, if_true]
      apply ih
      split
      · exact h
      · simp
    · simp only [hl, if_false]; exact h

/-- every key has at least one bucket (k ≥ 1, chain bound ≥ 1, table not empty) -/
theorem bucketIndices_ne_nil (hn : 0 < n) (hk : 0 < P.k) (hm : 0 < P.maxChain) (hash : Nat) : bucketIndices H P n hash ≠ [] := by
  unfold bucketIndices
  simp only
  generalize hkk : (if P.k > n then n else P.k) = k
  have hk' : 0 < k := by rw [← hkk]; split <;> omega
  obtain ⟨m, hm'⟩ : ∃ m, P.maxChain = m + 1 := ⟨P.maxChain - 1, by omega⟩
  have h1 : (chainLoop H n k P.maxChain [] (H.chain0 hash) 0).1 ≠ [] := by
    rw [hm']
    unfold chainLoop
    simp only [List.length_nil, hk', if_true]
    apply chainLoop_ne_nil
    simp
  generalize chainLoop H n k P.maxChain [] (H.chain0 hash) 0 = r at h1
  obtain ⟨acc, last⟩ := r
  exact probeLoop_ne_nil n k last (n - 1) 1 acc h1

theorem rep_nil_empty {t : Table} (h : Rep H P n t [] []) : isEmpty t = true := by
  unfold isEmpty
  rw [List.all_eq_true]
  intro b hb
  obtain ⟨j, hj⟩ := List.mem_iff_getElem?.mp hb
  have hlt : j < n := by
    have := (List.getElem?_eq_some_iff.mp hj).1
    rw [h.1] at this; exact this
  have := h.2 j hlt
  rw [hj] at this
  have hb' : b = Bucket.zero := by rw [Option.some.inj this]; simp [sumB, Bucket.sub, Bucket.zero]
  simp [Bucket.isEmpty, hb']

/-- an all-zero table represents only the empty difference -/
theorem empty_rep_nil (hn : 0 < n) (hk : 0 < P.k) (hm : 0 < P.maxChain) (hF : Faithful H U) {t : Table} {A B : List Ref}
    (h : Rep H P n t A B) (ndA : A.Nodup) (ndB : B.Nodup) (disj : ∀ x ∈ A, x ∉ B) (uA : ∀ x ∈ A, U x) (uB : ∀ x ∈ B, U x)
    (he : isEmpty t = true) : A = [] ∧ B = [] := by
  have key : ∀ x, x ∈ A ∨ x ∈ B → False := by
    intro x hx
    obtain ⟨j, hj⟩ := List.exists_mem_of_ne_nil _ (bucketIndices_ne_nil H P n hn hk hm (H.hashKey x))
    have hjn : j < n := (bucketIndices_good H P hn (H.hashKey x)).2 j hj
    have hin : inB H P n j x = true := by unfold inB; exact List.contains_iff_mem.mpr hj
    have hz := h.2 j hjn
    have hb : (sumB H P n j A).sub (sumB H P n j B) = Bucket.zero := by
      unfold isEmpty at he
      rw [List.all_eq_true] at he
      have := he _ (List.mem_iff_getElem?.mpr ⟨j, hz⟩)
      simpa [Bucket.isEmpty] using this
    rw [sumB_view H P n j A, sumB_view H P n j B] at hb
    have hFA : ∀ y ∈ A.filter (inB H P n j), y ∈ A := fun y hy => (List.mem_filter.mp hy).1
    have hFB : ∀ y ∈ B.filter (inB H P n j), y ∈ B := fun y hy => (List.mem_filter.mp hy).1
    have hS : (A.filter (inB H P n j) ++ B.filter (inB H P n j)).Nodup := by
      rw [List.nodup_append]
      refine ⟨ndA.filter _, ndB.filter _, ?_⟩
      intro a ha c hc heq
      subst heq
      exact disj a (hFA a ha) (hFB a hc)
    have hne : A.filter (inB H P n j) ++ B.filter (inB H P n j) ≠ [] := by
      intro hnil
      have hmem : x ∈ A.filter (inB H P n j) ++ B.filter (inB H P n j) := by
        rcases hx with hx | hx
        · exact List.mem_append.mpr (Or.inl (List.mem_filter.mpr ⟨hx, hin⟩))
        · exact List.mem_append.mpr (Or.inr (List.mem_filter.mpr ⟨hx, hin⟩))
      rw [hnil] at hmem; cases hmem
    apply hF.nonzero _ hS ?_ hne
    · simp only [Bucket.sub, Bucket.zero, Bucket.mk.injEq] at hb
      rw [xorL_append, List.map_append, xorL_append]
      exact ⟨hb.2.2, hb.2.1⟩
    · intro y hy
      rcases List.mem_append.mp hy with h' | h'
      · exact uA y (hFA y h')
      · exact uB y (hFB y h')
  constructor
  · cases A with
    | nil => rfl
    | cons a _ => exact (key a (Or.inl List.mem_cons_self)).elim
  · cases B with
    | nil => rfl
    | cons b _ => exact (key b (Or.inr List.mem_cons_self)).elim

/-- **Decode terminates with the exact difference or ErrDecodeNotPossible** — never ErrDecodeLoop, never out of fuel -/
theorem decodeLoop_spec (hn : 0 < n) (hk : 0 < P.k) (hm : 0 < P.maxChain) (hF : Faithful H U) {A0 B0 : List Ref} :
    ∀ (fuel : Nat) (tab : Table) (pures rem mis A B : List Ref),
      Inv H P n U A0 B0 ⟨tab, pures, rem, mis, false⟩ A B → A.length + B.length < fuel →
      (∃ r m, decodeLoop H P fuel tab pures rem mis = .ok r m ∧ (∀ x, x ∈ A0 ↔ x ∈ r) ∧ (∀ x, x ∈ B0 ↔ x ∈ m)) ∨
      (∃ r m, decodeLoop H P fuel tab pures rem mis = .notPossible r m ∧ (A0 ≠ [] ∨ B0 ≠ []) ∧
        (∀ x ∈ r, x ∈ A0) ∧ (∀ x ∈ m, x ∈ B0)) := by
  intro fuel
  induction fuel with
  | zero => intro _ _ _ _ _ _ _ h; omega
  | succ f ih =>
    intro tab pures rem mis A B inv hlt
    unfold decodeLoop
    obtain ⟨st', A', B', hs, inv', hle, hu⟩ := sweep_inv H P n U hn hF (List.range tab.length) _ A B inv
    simp only [hs]
    by_cases hup : st'.updated = true
    · simp only [hup, if_true]
      have hdec : A'.length + B'.length < A.length + B.length := by
        rcases hu hup with h | h
        · cases h
        · exact h
      exact ih st'.tab st'.pures st'.remaining st'.missing A' B'
        ⟨inv'.rep, inv'.ndA, inv'.ndB, inv'.disj, inv'.uA, inv'.uB, inv'.remA, inv'.misB, inv'.pur⟩ (by omega)
    · simp only [hup, Bool.false_eq_true, if_false]
      by_cases he : isEmpty st'.tab = true
      · simp only [he, if_true]
        obtain ⟨hA, hB⟩ := empty_rep_nil H P n U hn hk hm hF inv'.rep inv'.ndA inv'.ndB inv'.disj inv'.uA inv'.uB he
        left
        refine ⟨_, _, rfl, ?_, ?_⟩
        · intro x; rw [inv'.remA x, hA]; simp
        · intro x; rw [inv'.misB x, hB]; simp
      · simp only [he, Bool.false_eq_true, if_false]
        right
        refine ⟨_, _, rfl, ?_, fun x hx => (inv'.remA x).mpr (Or.inl hx), fun x hx => (inv'.misB x).mpr (Or.inl hx)⟩
        apply Classical.byContradiction
        intro hcon
        have hA0 : A0 = [] := Classical.byContradiction (fun h => hcon (Or.inl h))
        have hB0 : B0 = [] := Classical.byContradiction (fun h => hcon (Or.inr h))
        have hA : A' = [] := by
          cases hA' : A' with
          | nil => rfl
          | cons a _ =>
            have : a ∈ A0 := (inv'.remA a).mpr (Or.inr (by rw [hA']; exact List.mem_cons_self))
            rw [hA0] at this; cases this
        have hB : B' = [] := by
          cases hB' : B' with
          | nil => rfl
          | cons b _ =>
            have : b ∈ B0 := (inv'.misB b).mpr (Or.inr (by rw [hB']; exact List.mem_cons_self))
            rw [hB0] at this; cases this
        have hrep := inv'.rep
        rw [hA, hB] at hrep
        exact he (rep_nil_empty H P n hrep)

end Final

end Nuts.Proto.Iblt
