/-
  C17 — lemma: strings.Split(·, "..") and Join are inverse (NutsModel/C17/LdBytes.lean). Core Lean only.
-/
import NutsModel.C17.LdBytes
namespace Nuts.C17.LdBytes
open Nuts.C17.Framing

theorem joinDD_splitDD (l : Bytes) : joinDD (splitDD l).1 (splitDD l).2 = l := by
  induction l using splitDD.induct with
  | case1 r ih => simp only [splitDD, joinDD, List.nil_append, ih]
  | case2 c r hne ih =>
    rw [splitDD]
    · simp only
      generalize splitDD r = p at ih ⊢
      obtain ⟨h, t⟩ := p
      cases t with
      | nil => simp_all [joinDD]
      | cons x t => simp_all [joinDD]
    · exact hne
  | case3 => rfl

end Nuts.C17.LdBytes
