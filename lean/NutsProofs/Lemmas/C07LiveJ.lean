/-
  C07 liveness lemmas, part J: a whole pull round.
-/
import NutsModel.C07.Round
import NutsProofs.Lemmas.C07
import NutsProofs.Lemmas.C07LiveI
open Nuts.Proto Nuts Nuts.Proto.L

namespace Nuts.Proto.Live

/-! ### Part J: a whole pull round -/

/-- the gossip queue of `n` for peer `key` exists, the peer is connected, and the queue is in sync with the DAG:
    cached XOR and clock are current and every queued ref is one of the node's own transactions -/
def QueueOK (n : Node) (key : Nat) : Prop :=
  ∃ qu, n.queues.find? (fun x => x.peer == key) = some qu ∧ (n.peers.any (fun p => p.key == key && p.connected)) = true ∧
    qu.xor = xorOf n.dag ∧ qu.clock = lcOf n.dag ∧ ∀ r ∈ qu.queue, present n.dag r = true

theorem absorb_suffix (cfg : Cfg) (env : Env) (p : Peer) : ∀ (msgs : List Msg) (n : Node), DagOK n.dag →
    DagOK (absorb cfg env n p msgs).1.dag ∧ ∃ added, (absorb cfg env n p msgs).1.dag = added ++ n.dag := by
  intro msgs
  induction msgs with
  | nil => intro n h; exact ⟨h, [], rfl⟩
  | cons m ms ih =>
    intro n h
    rw [absorb_cons]
    obtain ⟨ok, added, hd, _, _⟩ := handle_dag cfg env n p m h
    obtain ⟨ok2, added2, hd2⟩ := ih (handle cfg env n p m).node ok
    exact ⟨ok2, added2 ++ added, by simp only; rw [hd2, hd, List.append_assoc]⟩

theorem dag_eq_of_no_new {added d : List Tx} (h : DagOK (added ++ d)) (hno : ∀ t ∈ added ++ d, t ∈ d) : added = [] := by
  cases added with
  | nil => rfl
  | cons t rest =>
    exfalso
    cases h with
    | cons _ _ _ _ hnew _ _ _ =>
      have : t ∈ d := hno t List.mem_cons_self
      have hp : present (rest ++ d) t.ref = true := present_iff.mpr ⟨t, List.mem_append_right _ this, rfl⟩
      have hnew' : present (rest ++ d) t.ref = false := hnew
      rw [hnew'] at hp; cases hp

theorem stuck_of_sub (cfg : Cfg) (A B : List Tx) (q : Nat) (h : ∀ t ∈ B, t ∈ A) : StuckAt cfg A B q :=
  ⟨q + 1, Nat.le_refl _, fun t ht _ => h t ht, fun q' h1 h2 => by omega⟩

theorem pingPong_step2 (cfg : Cfg) (env : Env) (pA pB : Peer) (f : Nat) (a b : Node) (toB : List Msg) (h : toB ≠ []) :
    pingPong cfg env pA pB (f + 2) a b toB =
      pingPong cfg env pA pB (f + 1) (absorb cfg env a pB (absorb cfg env b pA toB).2).1 (absorb cfg env b pA toB).1
        (absorb cfg env a pB (absorb cfg env b pA toB).2).2 := pingPong_step cfg env pA pB (f + 1) a b toB h

theorem pingPong_step3 (cfg : Cfg) (env : Env) (pA pB : Peer) (f : Nat) (a b : Node) (toB : List Msg) (h : toB ≠ []) :
    pingPong cfg env pA pB (f + 3) a b toB =
      pingPong cfg env pA pB (f + 2) (absorb cfg env a pB (absorb cfg env b pA toB).2).1 (absorb cfg env b pA toB).1
        (absorb cfg env a pB (absorb cfg env b pA toB).2).2 := pingPong_step cfg env pA pB (f + 2) a b toB h

/-- **one pull round** (`b` gossips, `a` pulls), from a state where `a` has no open conversation: `b`'s DAG is
    untouched, `a` ends with `Result` — a valid DAG between its own and the union, with either something new or the
    knowledge `StuckAt` for the page of the smaller of the two clocks -/
theorem pull_result {cfg : Cfg} {env : Env} (H : Hyp cfg env) (a b : Node) (pA pB : Peer)
    (ha : DagOK a.dag) (hB : DagOK b.dag) (hf : RefFun a.dag b.dag) (hroot : RootIn a.dag b.dag) (hpb : PayloadsOK b)
    (hq : QueueOK b pA.key) (hc : a.convs = [])
    (hxf : ∀ d : List Tx, DagOK d → (∀ t ∈ a.dag, t ∈ d) → (∀ t ∈ d, t ∈ a.dag ∨ t ∈ b.dag) → xorOf b.dag = xorOf d → ∀ t ∈ b.dag, t ∈ d)
    (fuel : Nat) (hfuel : pageOf cfg (lcOf b.dag) + 3 ≤ fuel) :
    ∃ a', pullRound cfg env pA pB fuel a b = (a', (gossipTick b pA.key).node) ∧ (gossipTick b pA.key).node.dag = b.dag ∧
      Result cfg a.dag b.dag (pageOf cfg (Nat.min (lcOf b.dag) (lcOf a.dag))) a' := by
  obtain ⟨qu, hfind, hconn, hqx, hqc, hqr⟩ := hq
  -- the tick
  have htick : gossipTick b pA.key =
      { node := { b with queues := b.queues.map (fun x => if x.peer == pA.key then { x with queue := [] } else x) },
        out := [(pA.key, .gossip qu.xor qu.clock qu.queue)] } := by
    unfold gossipTick; rw [hfind]; simp only [hconn, if_true]
  let tb : Node := { b with queues := b.queues.map (fun x => if x.peer == pA.key then { x with queue := [] } else x) }
  have htb : (gossipTick b pA.key).node = tb := by rw [htick]
  have htbdag : tb.dag = b.dag := rfl
  have hptb : PayloadsOK tb := hpb
  have hfr : ∀ (A1 : List Tx), (∀ t ∈ A1, t ∈ a.dag ∨ t ∈ b.dag) → RefFun A1 tb.dag := fun A1 h => refFun_grow hf h
  unfold pullRound
  simp only
  rw [htick]
  simp only
  rw [toPeer_single _ _ rfl, absorb_single]
  suffices hmain : ∃ a', pingPong cfg env pA pB fuel (handle cfg env a pB (.gossip qu.xor qu.clock qu.queue)).node tb
      (toPeer pB.key (handle cfg env a pB (.gossip qu.xor qu.clock qu.queue)).out) = (a', tb) ∧
      Result cfg a.dag b.dag (pageOf cfg (Nat.min (lcOf b.dag) (lcOf a.dag))) a' by
    obtain ⟨a', h1, h2⟩ := hmain
    exact ⟨a', h1, by first | rfl | trivial, h2⟩
  obtain ⟨f, rfl⟩ : ∃ f, fuel = f + 3 := ⟨fuel - 3, by omega⟩
  simp only [handle]
  unfold handleGossip
  simp only
  rw [hqx, hqc]
  by_cases hxeq : (xorOf a.dag == xorOf b.dag) = true
  · -- equal XOR: nothing to do
    simp only [hxeq, if_true]
    rw [show toPeer pB.key ([] : Out) = [] from rfl, pingPong_nil]
    refine ⟨a, rfl, ha, fun t ht => ht, fun t ht => Or.inl ht, Or.inr (stuck_of_sub cfg _ _ _ ?_)⟩
    have hxe : xorOf a.dag = xorOf b.dag := by simpa using hxeq
    exact hxf a.dag ha (fun t ht => ht) (fun t ht => Or.inl ht) hxe.symm
  · simp only [hxeq, Bool.false_eq_true, if_false]
    have hxne : xorOf b.dag ≠ xorOf a.dag := by
      intro h; apply hxeq; simp [h]
    -- the node after logging the gossiped refs: same DAG, still no conversation
    generalize hn1def : (if qu.queue.isEmpty = true then a else gossipReceived cfg a pB.key qu.queue) = n1
    have hn1dag : n1.dag = a.dag := by rw [← hn1def]; split <;> rfl
    have hn1c : n1.convs = [] := by rw [← hn1def]; split <;> simp [hc, gossipReceived]
    generalize hnewsdef : qu.queue.filter (fun r => !present a.dag r) = news
    by_cases hcond : (xorRefs (xorOf a.dag) news == xorOf b.dag || (decide (lcOf b.dag < lcOf a.dag) && !news.isEmpty)) = true
    · -- the gossiped refs explain the difference (or the peer is behind): ask for them
      simp only [hcond, if_true]
      have hnews : news ≠ [] := by
        intro hn
        have h0 : xorRefs (xorOf a.dag) news = xorOf a.dag := by rw [hn]; rfl
        rw [h0, hn] at hcond
        simp at hcond
        exact hxne hcond.symm
      obtain ⟨ho, hcv, hdg, _, _, _⟩ := sendRequest_empty cfg n1 hn1c pB.key (.listQuery news) (fun cid => .listQuery cid news)
      unfold sendListQuery
      rw [ho, toPeer_single _ _ rfl]
      generalize ha0def : (sendRequest cfg n1 pB.key (.listQuery news) (fun cid => .listQuery cid news)).node = a0 at hcv hdg ⊢
      have ha0dag : a0.dag = a.dag := by rw [← hn1dag]; exact hdg
      -- b serves the list
      obtain ⟨ls, hfl, hserve⟩ := serve_listQuery cfg env tb hptb H.ord.sub pA (n1.id, n1.nextCid) news hnews
      rw [pingPong_step3 _ _ _ _ _ _ _ _ (by simp), hserve]
      simp only
      have hl_iff : ∀ t, t ∈ ls.flatten ↔ ∃ r ∈ news, getTx tb.dag r = some t := by
        intro t; rw [hfl, (H.ord.perm _).mem_iff, List.mem_filterMap]
      have hmem_b : ∀ t ∈ ls.flatten, t ∈ tb.dag := by
        intro t ht; obtain ⟨r, _, hr⟩ := (hl_iff t).mp ht; exact getTx_mem hr
      have hacc : ∀ ch ∈ ls, Accepts (.listQuery news) ch := by
        intro ch hch t ht
        obtain ⟨r, hr, hg⟩ := (hl_iff t).mp (List.mem_flatten.mpr ⟨ch, hch, ht⟩)
        rw [getTx_ref hg]; exact hr
      obtain ⟨g1, g2, g3, _, _, _, gcase⟩ := absorb_chunks_general cfg env H.bs tb hB hptb pB (n1.id, n1.nextCid) (.listQuery news) ls.length
        ls 0 a0 _ (by rw [ha0dag]; exact ha) (by rw [ha0dag]; exact hf) (by rw [ha0dag]; exact hroot) hcv rfl rfl hacc (by omega) hmem_b
      obtain ⟨_, added, hadd⟩ := absorb_suffix cfg env pB (numberChunks (n1.id, n1.nextCid) ls.length 0 (ls.map (·.map (netOf tb)))) a0
        (by rw [ha0dag]; exact ha)
      generalize hradef : absorb cfg env a0 pB (numberChunks (n1.id, n1.nextCid) ls.length 0 (ls.map (·.map (netOf tb)))) = ra at g1 g2 g3 gcase hadd ⊢
      have hg2 : ∀ t ∈ ra.1.dag, t ∈ a.dag ∨ t ∈ b.dag := by
        intro t ht
        rcases g2 t ht with h | h
        · exact Or.inl (by rw [← ha0dag]; exact h)
        · exact Or.inr (hmem_b t h)
      have hg3 : ∀ t ∈ a.dag, t ∈ ra.1.dag := fun t ht => g3 t (by rw [ha0dag]; exact ht)
      rcases gcase with ⟨e1, e2, _⟩ | ⟨cid', e1, e2⟩
      · -- everything taken: progress
        rw [e1, pingPong_nil]
        refine ⟨ra.1, rfl, g1, hg3, hg2, Or.inl ?_⟩
        obtain ⟨r, hr⟩ : ∃ r, r ∈ news := by
          cases hnn : news with
          | nil => exact absurd hnn hnews
          | cons x _ => exact ⟨x, List.mem_cons_self⟩
        have hrq := List.mem_filter.mp (by rw [hnewsdef]; exact hr : r ∈ qu.queue.filter (fun r => !present a.dag r))
        obtain ⟨t, hg, htb', hrt⟩ := getTx_of_present (hqr r hrq.1)
        have hin : t ∈ ls.flatten := (hl_iff t).mpr ⟨r, hr, hg⟩
        refine ⟨t, mem_of_present (hfr _ hg2) htb' (e2 t hin), fun hta => ?_⟩
        have : present a.dag r = true := present_iff.mpr ⟨t, hta, hrt⟩
        simp [this] at hrq
      · -- restart via State: the chain starts from the (possibly grown) DAG
        rw [e1]
        by_cases hx1 : xorOf b.dag = xorOf ra.1.dag
        · -- b sees equal XORs and stays silent
          rw [pingPong_step2 _ _ _ _ _ _ _ _ (by simp), serve_state]
          have : (xorOf tb.dag == xorOf ra.1.dag) = true := by simp [htbdag, hx1]
          simp only [this, if_true]
          rw [show absorb cfg env ra.1 pB [] = (ra.1, []) from rfl, pingPong_nil]
          refine ⟨ra.1, rfl, g1, hg3, hg2, ?_⟩
          by_cases hprog : ∃ t ∈ ra.1.dag, t ∉ a.dag
          · exact Or.inl hprog
          · exact Or.inr (stuck_of_sub cfg _ _ _ (fun t ht => by
              have := hxf ra.1.dag g1 hg3 hg2 hx1 t ht
              apply Classical.byContradiction
              intro hn; exact hprog ⟨t, this, hn⟩))
        · obtain ⟨a', hpp, r1, r2, r3, r4⟩ := chain H tb hB hptb pA pB _ ra.1 _ (lcOf ra.1.dag) rfl g1 (hfr _ hg2)
            (fun t ht he => hg3 t (hroot t ht he)) hx1 e2 rfl (f + 2) (by
              have : pageOf cfg (Nat.min (lcOf tb.dag) (lcOf ra.1.dag)) ≤ pageOf cfg (lcOf tb.dag) := pageOf_mono cfg (Nat.min_le_left _ _)
              show pageOf cfg (Nat.min (lcOf tb.dag) (lcOf ra.1.dag)) + 2 ≤ f + 2
              have h2 : pageOf cfg (lcOf tb.dag) = pageOf cfg (lcOf b.dag) := rfl
              omega)
          refine ⟨a', hpp, r1, fun t ht => r2 t (hg3 t ht), fun t ht => ?_, ?_⟩
          · rcases r3 t ht with h | h
            · exact hg2 t h
            · exact Or.inr h
          · by_cases hprog : ∃ t ∈ ra.1.dag, t ∉ a.dag
            · obtain ⟨t, ht, hn⟩ := hprog
              exact Or.inl ⟨t, r2 t ht, hn⟩
            · -- nothing was added before the restart: the chain ran from a's own DAG
              have hra : ra.1.dag = a.dag := by
                have h0 : ra.1.dag = added ++ a.dag := by rw [← ha0dag]; exact hadd
                have : added = [] := dag_eq_of_no_new (by rw [← h0]; exact g1) (fun t ht => by
                  apply Classical.byContradiction
                  intro hn; exact hprog ⟨t, by rw [h0]; exact ht, hn⟩)
                rw [h0, this]; rfl
              rcases r4 with ⟨t, ht, hn⟩ | hst
              · exact Or.inl ⟨t, ht, by rw [← hra]; exact hn⟩
              · rw [hra] at hst; exact Or.inr hst
    · -- ask for the peer's state: the fallback chain
      simp only [hcond, Bool.false_eq_true, if_false]
      have hss := sendState_free cfg n1 H.bs pB.key (xorOf a.dag) (lcOf a.dag)
      rw [hss]
      simp only
      rw [toPeer_single _ _ rfl]
      have hxeq2 : xorOf a.dag = xorOf n1.dag := by rw [hn1dag]
      rw [hxeq2]
      obtain ⟨a', hpp, r1, r2, r3, r4⟩ := chain H tb hB hptb pA pB _
        { n1 with nextCid := n1.nextCid + 1, convs := { cid := (n1.id, n1.nextCid), expiry := n1.now + cfg.validity, data := .state (lcOf a.dag) } :: n1.convs }
        { cid := (n1.id, n1.nextCid), expiry := n1.now + cfg.validity, data := .state (lcOf a.dag) } (lcOf a.dag) rfl
        (by show DagOK n1.dag; rw [hn1dag]; exact ha) (by show RefFun n1.dag tb.dag; rw [hn1dag]; exact hf)
        (by show RootIn n1.dag tb.dag; rw [hn1dag]; exact hroot) (by show xorOf tb.dag ≠ xorOf n1.dag; rw [hn1dag]; exact hxne)
        (by show _ :: n1.convs = _; rw [hn1c]) rfl (f + 3) (by
          have : pageOf cfg (Nat.min (lcOf tb.dag) (lcOf a.dag)) ≤ pageOf cfg (lcOf tb.dag) := pageOf_mono cfg (Nat.min_le_left _ _)
          show pageOf cfg (Nat.min (lcOf tb.dag) (lcOf a.dag)) + 2 ≤ f + 3
          have h2 : pageOf cfg (lcOf tb.dag) = pageOf cfg (lcOf b.dag) := rfl
          omega)
      have hdag0 : ({ n1 with nextCid := n1.nextCid + 1, convs := { cid := (n1.id, n1.nextCid), expiry := n1.now + cfg.validity, data := ConvData.state (lcOf a.dag) } :: n1.convs } : Node).dag = a.dag := hn1dag
      rw [hdag0] at r2 r3 r4
      exact ⟨a', hpp, r1, r2, r3, r4⟩

end Nuts.Proto.Live
