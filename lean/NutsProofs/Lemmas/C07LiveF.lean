/-
  C07 liveness lemmas, part F: oracle contracts, pages, sorted replies, clock contiguity.
-/
import NutsModel.C07.Round
import NutsProofs.Lemmas.C07
import NutsProofs.Lemmas.C07LiveE
open Nuts.Proto Nuts Nuts.Proto.L

namespace Nuts.Proto.Live

/-! ### Part F: oracles' contracts, pages, prev-closedness of sorted replies -/

/-- **the IBLT decode contract**, for duplicate-free ref lists (`State.IBLT` inserts every transaction once): a successful
    decode returns exactly the refs the peer has and we lack; decoding succeeds when there is no difference; subtracting two
    well-formed IBLTs never errors. Hypothesis of the liveness theorems; since the deepening round it is PROVED for the
    modelled `tree.Iblt` (`Props.C07.iblt_decode_contract`, `modelled_iblt_satisfies_DC`) from hash faithfulness — false only
    on a 64-bit hash-sum collision — and still measured on the real `tree.Iblt` by the harness. -/
structure DC (env : Env) : Prop where
  exact : ∀ loc peer m, loc.Nodup → peer.Nodup → env.decode loc (.ofSet peer) = .ok m → ∀ r, r ∈ m ↔ (r ∈ peer ∧ r ∉ loc)
  empty : ∀ loc peer, loc.Nodup → peer.Nodup → (∀ r, r ∈ loc ↔ r ∈ peer) → ∃ m, env.decode loc (.ofSet peer) = .ok m
  noerr : ∀ loc peer, loc.Nodup → peer.Nodup → env.decode loc (.ofSet peer) ≠ .err

/-- `sort.Slice(unsorted, clock <=)` returns a clock-sorted rearrangement -/
structure OrderOK (env : Env) : Prop where
  perm : ∀ l, (env.order l).Perm l
  sorted : ∀ l, (env.order l).Pairwise (fun a b => a.clock ≤ b.clock)

theorem OrderOK.sub {env : Env} (h : OrderOK env) : OrderSub env := fun l _ ht => (h.perm l).mem_iff.mp ht

/-- a clock-sorted list of `b`'s transactions whose prevs are all either known (`have_`) or in the list is prev-closed -/
theorem prevClosed_of_sorted {b : List Tx} (hb : DagOK b) : ∀ (l : List Tx) (have_ : List Ref),
    l.Pairwise (fun x y => x.clock ≤ y.clock) → (∀ t ∈ l, t ∈ b) →
    (∀ t ∈ l, ∀ p ∈ t.prevs, p ∈ have_ ∨ ∃ t' ∈ l, t'.ref = p) → PrevClosed have_ l := by
  intro l
  induction l with
  | nil => intro h _ _ _; exact PrevClosed.nil h
  | cons t ts ih =>
    intro have_ hs hmem hcl
    have hs' := List.pairwise_cons.mp hs
    refine PrevClosed.cons have_ t ts ?_ (ih (t.ref :: have_) hs'.2 (fun x hx => hmem x (List.mem_cons_of_mem _ hx)) ?_)
    · intro p hp
      rcases hcl t List.mem_cons_self p hp with h | ⟨t', ht', hr⟩
      · exact h
      · exfalso
        obtain ⟨tb, htb, hrb, hlt⟩ := dagOK_prev hb (hmem t List.mem_cons_self) hp
        have heq : t' = tb := dagOK_unique hb t' (hmem t' ht') tb htb (by rw [hr, hrb])
        subst heq
        rcases List.mem_cons.mp ht' with rfl | h
        · omega
        · have := hs'.1 t' h; omega
    · intro x hx p hp
      rcases hcl x (List.mem_cons_of_mem _ hx) p hp with h | ⟨t', ht', hr⟩
      · exact Or.inl (List.mem_cons_of_mem _ h)
      · rcases List.mem_cons.mp ht' with rfl | h
        · exact Or.inl (by rw [← hr]; exact List.mem_cons_self)
        · exact Or.inr ⟨t', h, hr⟩

/-- the page of a transaction -/
def pg (cfg : Cfg) (t : Tx) : Nat := pageOf cfg t.clock

theorem dagOK_refs_nodup {d : List Tx} (h : DagOK d) : (d.map (·.ref)).Nodup := by
  induction h with
  | nil => exact List.nodup_nil
  | cons tx d _ _ hnp _ _ _ ih =>
    rw [List.map_cons, List.nodup_cons]
    refine ⟨?_, ih⟩
    intro hm
    obtain ⟨t, ht, hr⟩ := List.mem_map.mp hm
    have : present d tx.ref = true := present_iff.mpr ⟨t, ht, hr⟩
    rw [hnp] at this; cases this

/-- the ref list `State.IBLT` digests has no duplicates -/
theorem ibltSet_nodup {cfg : Cfg} {d : List Tx} (h : DagOK d) (lc : Nat) : (ibltSet cfg d lc).Nodup := by
  unfold ibltSet
  exact ((List.filter_sublist (l := d)).map (·.ref)).nodup (dagOK_refs_nodup h)

theorem mem_ibltSet {cfg : Cfg} {d : List Tx} {lc : Nat} {r : Ref} :
    r ∈ ibltSet cfg d lc ↔ ∃ t ∈ d, t.ref = r ∧ pg cfg t ≤ pageOf cfg lc := by
  unfold ibltSet pg
  simp only [List.mem_map, List.mem_filter, decide_eq_true_eq]
  constructor
  · rintro ⟨t, ⟨h1, h2⟩, h3⟩; exact ⟨t, h1, h3, h2⟩
  · rintro ⟨t, h1, h3, h2⟩; exact ⟨t, ⟨h1, h2⟩, h3⟩

theorem pageOf_mono (cfg : Cfg) {a b : Nat} (h : a ≤ b) : pageOf cfg a ≤ pageOf cfg b := Nat.div_le_div_right h

/-- clocks of a valid DAG are contiguous: below every member there is a member on every clock -/
theorem dagOK_clock_below {d : List Tx} (h : DagOK d) : ∀ (n : Nat) (t : Tx), t ∈ d → t.clock = n → ∀ c, c < n → ∃ t' ∈ d, t'.clock = c := by
  intro n
  induction n using Nat.strongRecOn with
  | _ n ih =>
    intro t ht hc c hlt
    obtain ⟨suf, hsub, _, _, _, hpres, hclk, _⟩ := dagOK_mem h t ht
    -- the clock of t is 1 + the maximal clock of its prevs, which is attained
    unfold expectedClock at hclk
    split at hclk
    · omega
    · rename_i ps hne
      have hatt := lc_fold_attained (t.prevs.filterMap (getTx suf)) 0
      rcases hatt with h0 | ⟨tp, htp, hcp⟩
      · -- maximum is 0: some prev has clock 0 (list non-empty)
        have hlc : lcOf (t.prevs.filterMap (getTx suf)) = 0 := h0
        cases hps : t.prevs.filterMap (getTx suf) with
        | nil => exact absurd hps hne
        | cons x xs =>
          have hx : x ∈ t.prevs.filterMap (getTx suf) := by rw [hps]; exact List.mem_cons_self
          have hxc := lcOf_ge _ x hx
          obtain ⟨r, _, hr⟩ := List.mem_filterMap.mp hx
          have hxm : x ∈ d := hsub x (getTx_mem hr)
          have : c = 0 := by rw [hlc] at hclk; omega
          exact ⟨x, hxm, by rw [hlc] at hxc; omega⟩
      · obtain ⟨r, _, hr⟩ := List.mem_filterMap.mp htp
        have htpm : tp ∈ d := hsub tp (getTx_mem hr)
        have hcp' : tp.clock + 1 = n := by
          have : lcOf (t.prevs.filterMap (getTx suf)) = tp.clock := hcp.symm
          rw [this] at hclk; omega
        by_cases hceq : c = tp.clock
        · exact ⟨tp, htpm, hceq.symm⟩
        · exact ih tp.clock (by omega) tp htpm rfl c (by omega)

end Nuts.Proto.Live
