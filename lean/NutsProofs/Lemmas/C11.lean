/-
  Helper lemmas for C11 (status list bitstring, issuer-side tables, Entry thread machine, verifier cache).
-/
import NutsModel.C11.Revocation
namespace Nuts.C11

/-! ## bytes -/

set_option maxRecDepth 100000 in
theorem isSet_fin : ∀ (x : Fin 256) (k : Fin 8),
    isSet (BitVec.ofFin x) k.val = (BitVec.ofFin x : BitVec 8).getLsbD (7 - k.val) := by decide

theorem isSet_eq (b : Byte) (r : Nat) (h : r < 8) : isSet b r = b.getLsbD (7 - r) :=
  isSet_fin b.toFin ⟨r, h⟩

/-- the byte-level content of `setBit`: writing bit `r` makes it `v` and leaves the other seven bits alone -/
theorem putBit_get (b : Byte) (r s : Nat) (v : Bool) (hr : r < 8) (hs : s < 8) :
    isSet (putBit b r v) s = if r = s then v else isSet b s := by
  unfold putBit
  by_cases hv : isSet b r = v
  · simp [hv]; intro h; subst h; exact hv
  · have : (isSet b r != v) = true := by simp [hv]
    rw [if_pos this]
    unfold flipBit
    rw [isSet_eq _ _ hs, BitVec.getLsbD_xor, ← isSet_eq _ _ hs]
    rw [isSet_eq _ _ hr] at hv
    simp [BitVec.getLsbD_shiftLeft]
    by_cases hrs : r = s
    · subst hrs
      have e1 : decide (7 - r < 8) = true := by simp; omega
      rw [isSet_eq _ _ hr]
      simp [e1]
      cases hb : b.getLsbD (7 - r) <;> cases v <;> simp_all
    · have : (!decide (7 - s < 7 - r) && decide (7 - s - (7 - r) = 0)) = false := by
        by_cases h1 : 7 - s < 7 - r
        · simp [h1]
        · have : ¬ (7 - s - (7 - r) = 0) := by omega
          simp [this]
      simp [hrs]
      rw [Bool.and_assoc, this]; simp

theorem isSet_zero (r : Nat) (hr : r < 8) : isSet 0#8 r = false := by
  rw [isSet_eq _ _ hr]; simp

/-! ## bitstring -/

theorem setBit_length {bs bs' : Bits} {i : Int} {v : Bool} (h : bs.setBit i v = .ok bs') : bs'.length = bs.length := by
  unfold Bits.setBit at h
  split at h
  · cases h
  · split at h
    · cases h
    · split at h
      · cases h; simp
      · cases h

/-- in range, `setBit` succeeds -/
theorem setBit_ok (bs : Bits) (i : Nat) (v : Bool) (h : i < 8 * bs.length) : ∃ bs', bs.setBit (i : Int) v = .ok bs' := by
  unfold Bits.setBit
  have h1 : ¬ ((i : Int) < 0) := by omega
  have h2 : ¬ ((i : Int).toNat / 8 ≥ bs.length) := by simp; omega
  simp only [h1, h2, if_false]
  have : (i : Int).toNat / 8 < bs.length := by simp; omega
  rw [List.getElem?_eq_getElem this]
  exact ⟨_, rfl⟩

/-- `bit` after `setBit`, both in range: the written position reads the written value, all others are unchanged -/
theorem bit_setBit (bs bs' : Bits) (i j : Nat) (v : Bool) (hj : j < 8 * bs.length)
    (h : bs.setBit (i : Int) v = .ok bs') :
    bs'.bit (j : Int) = if i = j then .ok v else bs.bit (j : Int) := by
  have hlen := setBit_length h
  unfold Bits.setBit at h
  split at h
  · cases h
  · split at h
    · cases h
    · rename_i hi0 hi1
      split at h
      · rename_i b hb
        cases h
        simp only [Int.toNat_natCast] at hb hi1 hlen ⊢
        have hjq : j / 8 < bs.length := by omega
        have hiq : i / 8 < bs.length := by omega
        unfold Bits.bit
        have h1 : ¬ ((j : Int) < 0) := by omega
        simp only [h1, if_false, Int.toNat_natCast, List.length_set]
        have h2 : ¬ (j / 8 ≥ bs.length) := by omega
        simp only [h2, if_false]
        have hb' : bs[i / 8] = b := by
          rw [List.getElem?_eq_getElem hiq] at hb; exact Option.some.inj hb
        by_cases hq : i / 8 = j / 8
        · rw [hq, List.getElem?_set_self (by omega)]
          rw [List.getElem?_eq_getElem hjq]
          simp only
          rw [putBit_get _ _ _ _ (Nat.mod_lt _ (by omega)) (Nat.mod_lt _ (by omega))]
          have hbj : bs[j / 8] = b := by rw [← hb']; congr 1; exact hq.symm
          by_cases hij : i = j
          · subst hij; simp
          · have : ¬ (i % 8 = j % 8) := by omega
            simp [this, hij, hbj]
        · rw [List.getElem?_set_ne hq]
          have hij : ¬ (i = j) := by intro e; subst e; exact hq rfl
          simp [hij]
      · cases h

end Nuts.C11
