/-
  Helper lemmas for C11 (status list bitstring, issuer-side tables, Entry thread machine, verifier cache).
-/
import NutsModel.C11.Revocation
namespace Nuts.C11

/-! ## bytes -/

set_option maxRecDepth 100000 in
theorem isSet_fin : ∀ (x : Fin 256) (k : Fin 8),
    isSet (BitVec.ofFin x) k.val = (BitVec.ofFin x : BitVec 8).getLsbD (7 - k.val) := by decide

theorem isSet_eq (b : Byte) (r : Nat) (h : r < 8) : isSet b r = b.getLsbD (7 - r) :=
  isSet_fin b.toFin ⟨r, h⟩

/-- the byte-level content of `setBit`: writing bit `r` makes it `v` and leaves the other seven bits alone -/
theorem putBit_get (b : Byte) (r s : Nat) (v : Bool) (hr : r < 8) (hs : s < 8) :
    isSet (putBit b r v) s = if r = s then v else isSet b s := by
  unfold putBit
  by_cases hv : isSet b r = v
  · simp [hv]; intro h; subst h; exact hv
  · have : (isSet b r != v) = true := by simp [hv]
    rw [if_pos this]
    unfold flipBit
    rw [isSet_eq _ _ hs, BitVec.getLsbD_xor, ← isSet_eq _ _ hs]
    rw [isSet_eq _ _ hr] at hv
    simp [BitVec.getLsbD_shiftLeft]
    by_cases hrs : r = s
    · subst hrs
      have e1 : decide (7 - r < 8) = true := by simp; omega
      rw [isSet_eq _ _ hr]
      simp [e1]
      cases hb : b.getLsbD (7 - r) <;> cases v <;> simp_all
    · have : (!decide (7 - s < 7 - r) && decide (7 - s - (7 - r) = 0)) = false := by
        by_cases h1 : 7 - s < 7 - r
        · simp [h1]
        · have : ¬ (7 - s - (7 - r) = 0) := by omega
          simp [this]
      simp [hrs]
      rw [Bool.and_assoc, this]; simp

theorem isSet_zero (r : Nat) (hr : r < 8) : isSet 0#8 r = false := by
  rw [isSet_eq _ _ hr]; simp

/-! ## bitstring -/

theorem setBit_length {bs bs' : Bits} {i : Int} {v : Bool} (h : bs.setBit i v = .ok bs') : bs'.length = bs.length := by
  unfold Bits.setBit at h
  split at h
  · cases h
  · split at h
    · cases h
    · split at h
      · cases h; simp
      · cases h

/-- in range, `setBit` succeeds -/
theorem setBit_ok (bs : Bits) (i : Nat) (v : Bool) (h : i < 8 * bs.length) : ∃ bs', bs.setBit (i : Int) v = .ok bs' := by
  unfold Bits.setBit
  have h1 : ¬ ((i : Int) < 0) := by omega
  have h2 : ¬ ((i : Int).toNat / 8 ≥ bs.length) := by simp; omega
  simp only [h1, h2, if_false]
  have : (i : Int).toNat / 8 < bs.length := by simp; omega
  rw [List.getElem?_eq_getElem this]
  exact ⟨_, rfl⟩

/-- `bit` after `setBit`, both in range: the written position reads the written value, all others are unchanged -/
theorem bit_setBit (bs bs' : Bits) (i j : Nat) (v : Bool) (hj : j < 8 * bs.length)
    (h : bs.setBit (i : Int) v = .ok bs') :
    bs'.bit (j : Int) = if i = j then .ok v else bs.bit (j : Int) := by
  have hlen := setBit_length h
  unfold Bits.setBit at h
  split at h
  · cases h
  · split at h
    · cases h
    · rename_i hi0 hi1
      split at h
      · rename_i b hb
        cases h
        simp only [Int.toNat_natCast] at hb hi1 hlen ⊢
        have hjq : j / 8 < bs.length := by omega
        have hiq : i / 8 < bs.length := by omega
        unfold Bits.bit
        have h1 : ¬ ((j : Int) < 0) := by omega
        simp only [h1, if_false, Int.toNat_natCast, List.length_set]
        have h2 : ¬ (j / 8 ≥ bs.length) := by omega
        simp only [h2, if_false]
        have hb' : bs[i / 8] = b := by
          rw [List.getElem?_eq_getElem hiq] at hb; exact Option.some.inj hb
        by_cases hq : i / 8 = j / 8
        · rw [hq, List.getElem?_set_self (by omega)]
          rw [List.getElem?_eq_getElem hjq]
          simp only
          rw [putBit_get _ _ _ _ (Nat.mod_lt _ (by omega)) (Nat.mod_lt _ (by omega))]
          have hbj : bs[j / 8] = b := by rw [← hb']; congr 1; exact hq.symm
          by_cases hij : i = j
          · subst hij; simp
          · have : ¬ (i % 8 = j % 8) := by omega
            simp [this, hij, hbj]
        · rw [List.getElem?_set_ne hq]
          have hij : ¬ (i = j) := by intro e; subst e; exact hq rfl
          simp [hij]
      · cases h

/-! ## Entry thread machine -/

theorem setPhase_get (w : EWorld) (tid : Nat) (p : EPhase) (t : Nat) (th' : EThread)
    (h : (w.setPhase tid p).threads[t]? = some th') :
    (t ≠ tid ∧ w.threads[t]? = some th') ∨ (t = tid ∧ ∃ th, w.threads[tid]? = some th ∧ th' = { th with phase := p }) := by
  unfold EWorld.setPhase at h
  simp only [List.getElem?_modify] at h
  by_cases e : tid = t
  · subst e
    right
    cases hh : w.threads[tid]? with
    | none => rw [hh] at h; simp at h
    | some th => rw [hh] at h; simp at h; exact ⟨rfl, th, rfl, h.symm⟩
  · left
    refine ⟨fun x => e x.symm, ?_⟩
    cases hh : w.threads[t]? with
    | none => rw [hh] at h; simp at h
    | some th => rw [hh] at h; simp [e] at h; rw [h]

theorem setPhase_node (w : EWorld) (tid : Nat) (p : EPhase) : (w.setPhase tid p).node = w.node := rfl
theorem setPhase_now (w : EWorld) (tid : Nat) (p : EPhase) : (w.setPhase tid p).now = w.now := rfl

/-- invariant of the issuer node with running `Entry` calls; `x` = a thread whose row lock is not claimed (none: all are) -/
structure EInvX (E : Env) (w : EWorld) (x : Option Nat) : Prop where
  fn : ∀ r1 r2, r1 ∈ w.node.pages → r2 ∈ w.node.pages → r1.id = r2.id → r1 = r2
  le : ∀ r, r ∈ w.node.pages → r.last ≤ E.maxIndex
  done : ∀ (t : Nat) (th : EThread) l i, w.threads[t]? = some th → th.phase = .done l i → ∃ r, r ∈ w.node.pages ∧ r.id = l ∧ i ≤ r.last
  lock : ∀ (t : Nat) (th : EThread) r, some t ≠ x → w.threads[t]? = some th → th.phase = .locked (some r) →
    ∃ r', r' ∈ w.node.pages ∧ r'.id = r.id ∧ r'.lock = some t ∧ r'.last = r.last
  uniq : ∀ (t1 t2 : Nat) (th1 th2 : EThread) l i, t1 ≠ t2 → w.threads[t1]? = some th1 → w.threads[t2]? = some th2 →
    th1.phase = .done l i → th2.phase ≠ .done l i

abbrev EInv (E : Env) (w : EWorld) : Prop := EInvX E w none

theorem EInvX.weaken {E : Env} {w : EWorld} (h : EInv E w) (x : Option Nat) : EInvX E w x :=
  { fn := h.fn, le := h.le, done := h.done, uniq := h.uniq,
    lock := fun t th r _ h1 h2 => h.lock t th r (by simp) h1 h2 }

/-- a step that leaves the pages alone and changes at most the phase of `tid` to something that is neither `done`
    nor `locked (some _)` keeps the invariant -/
theorem EInvX.setPhase_inert {E : Env} {w : EWorld} {x : Option Nat} (h : EInvX E w x) (tid : Nat) (p : EPhase)
    (hd : ∀ l i, p ≠ .done l i) (hl : ∀ r, p ≠ .locked (some r)) : EInvX E (w.setPhase tid p) x := by
  refine { fn := h.fn, le := h.le, done := ?_, lock := ?_, uniq := ?_ }
  · intro t th l i ht hp
    rcases setPhase_get w tid p t th ht with ⟨_, h1⟩ | ⟨_, th0, _, e⟩
    · exact h.done t th l i h1 hp
    · subst e; exact absurd hp (hd l i)
  · intro t th r hx ht hp
    rcases setPhase_get w tid p t th ht with ⟨_, h1⟩ | ⟨_, th0, _, e⟩
    · exact h.lock t th r hx h1 hp
    · subst e; exact absurd hp (hl r)
  · intro t1 t2 th1 th2 l i hne h1 h2 hp1
    rcases setPhase_get w tid p t1 th1 h1 with ⟨_, g1⟩ | ⟨_, th0, _, e⟩
    · rcases setPhase_get w tid p t2 th2 h2 with ⟨_, g2⟩ | ⟨_, th0, _, e⟩
      · exact h.uniq t1 t2 th1 th2 l i hne g1 g2 hp1
      · subst e; exact hd l i
    · subst e; exact absurd hp1 (hd l i)


theorem beq_url {a b : Url} : (a == b) = true ↔ a = b := by simp

/-- read step -/
theorem eRead_inv {E : Env} {w : EWorld} (h : EInv E w) (tid : Nat) (sel : Option Url) : EInv E (eRead E w tid sel) := by
  unfold eRead
  split
  · rename_i th hth
    split
    · rename_i pin hph
      split
      · exact h.setPhase_inert tid _ (by intros; simp) (by intros; simp)
      · split
        · exact h.setPhase_inert tid _ (by intros; simp) (by intros; simp)
        · rename_i u
          split
          · rename_i r hfind
            have hr_mem := List.mem_of_find?_eq_some hfind
            have hr_p := List.find?_some hfind
            simp only [Bool.and_eq_true, beq_iff_eq, Option.isNone_iff_eq_none] at hr_p
            obtain ⟨⟨hrid, _⟩, hrlock⟩ := hr_p
            -- the world with the row locked, before the phase change
            refine { fn := ?_, le := ?_, done := ?_, lock := ?_, uniq := ?_ }
            · intro r1 r2 h1 h2 hid
              simp only [setPhase_node, List.mem_map] at h1 h2
              obtain ⟨a, ha, rfl⟩ := h1
              obtain ⟨b, hb, rfl⟩ := h2
              have : a.id = b.id := by
                by_cases ea : a.id = u <;> by_cases eb : b.id = u <;> simp [ea, eb] at hid <;> simp_all
              have := h.fn a b ha hb this
              subst this; rfl
            · intro r1 h1
              simp only [setPhase_node, List.mem_map] at h1
              obtain ⟨a, ha, rfl⟩ := h1
              have := h.le a ha
              by_cases ea : a.id = u <;> simp [ea] <;> exact this
            · intro t th' l i ht hp
              rcases setPhase_get _ tid _ t th' ht with ⟨_, h1⟩ | ⟨_, th0, _, e⟩
              · obtain ⟨a, ha, hal, hai⟩ := h.done t th' l i h1 hp
                simp only [setPhase_node]
                refine ⟨if a.id == u then { a with lock := some tid } else a, List.mem_map.mpr ⟨a, ha, rfl⟩, ?_, ?_⟩
                · by_cases ea : a.id = u <;> simp [ea, hal] <;> simp_all
                · by_cases ea : a.id = u <;> simp [ea, hai]
              · subst e; simp at hp
            · intro t th' r0 _ ht hp
              simp only [setPhase_node]
              rcases setPhase_get _ tid _ t th' ht with ⟨hne, h1⟩ | ⟨he, th0, _, e⟩
              · obtain ⟨a, ha, haid, halock, halast⟩ := h.lock t th' r0 (by simp) h1 hp
                have hau : a.id ≠ u := by
                  intro e
                  have := h.fn a r ha hr_mem (by rw [e, hrid])
                  subst this
                  rw [hrlock] at halock; cases halock
                refine ⟨a, List.mem_map.mpr ⟨a, ha, by simp [hau]⟩, haid, halock, halast⟩
              · subst e; subst he
                simp only [EPhase.locked.injEq, Option.some.injEq] at hp
                subst hp
                refine ⟨{ r with lock := some t }, List.mem_map.mpr ⟨r, hr_mem, by simp [hrid]⟩, rfl, rfl, rfl⟩
            · intro t1 t2 th1 th2 l i hne h1 h2 hp1
              rcases setPhase_get _ tid _ t1 th1 h1 with ⟨_, g1⟩ | ⟨_, th0, _, e⟩
              · rcases setPhase_get _ tid _ t2 th2 h2 with ⟨_, g2⟩ | ⟨_, th0, _, e⟩
                · exact h.uniq t1 t2 th1 th2 l i hne g1 g2 hp1
                · subst e; simp
              · subst e; simp at hp1
          · exact h
    all_goals exact h
  · exact h


theorem entryDecide_update {E : Env} {now : Nat} {n : Node} {issuer kid : String} {row : Option PageRow} {id : Url} {last : Nat}
    (h : entryDecide E now n issuer kid row = .update id last) :
    ∃ r, row = some r ∧ id = r.id ∧ last = r.last + 1 ∧ last ≤ E.maxIndex := by
  unfold entryDecide at h
  simp only at h
  by_cases hgt : (entryCur E issuer row).last + 1 > E.maxIndex
  · rw [if_pos hgt] at h
    repeat (first | cases h | split at h)
  · rw [if_neg hgt] at h
    cases row with
    | none => simp [entryCur] at hgt
    | some r =>
      simp only [entryCur, WOut.update.injEq] at h hgt
      exact ⟨r, rfl, h.1.symm, h.2.symm, by omega⟩

theorem entryDecide_create {E : Env} {now : Nat} {n : Node} {issuer kid : String} {row : Option PageRow} {nr : PageRow} {rec : CredRec}
    (h : entryDecide E now n issuer kid row = .create nr rec) :
    nr.last = 0 ∧ nr.lock = none ∧ n.isManaged nr.id = false := by
  unfold entryDecide at h
  simp only at h
  generalize entryCur E issuer row = cur at h
  split at h
  · split at h
    · cases h
    · rename_i hm
      split at h
      · cases h
      · split at h
        · split at h
          · cases h
          · simp only [WOut.create.injEq] at h
            obtain ⟨h1, _⟩ := h
            subst h1
            exact ⟨rfl, rfl, by simpa using hm⟩
        · cases h
        · cases h
  · cases h

theorem isManaged_false {n : Node} {u : Url} (h : n.isManaged u = false) : ∀ r, r ∈ n.pages → r.id ≠ u := by
  unfold Node.isManaged Node.page? at h
  intro r hr e
  have : (n.pages.find? (fun r => r.id == u)).isSome = true := List.find?_isSome.mpr ⟨r, hr, by simp [e]⟩
  rw [this] at h; cases h

theorem unlock_pages (n : Node) (tid : Nat) :
    (n.unlock tid).pages = n.pages.map (fun r => if r.lock == some tid then { r with lock := none } else r) := rfl


def unlockRow (tid : Nat) (r : PageRow) : PageRow := if r.lock == some tid then { r with lock := none } else r
theorem unlockRow_id (tid : Nat) (r : PageRow) : (unlockRow tid r).id = r.id := by unfold unlockRow; split <;> rfl
theorem unlockRow_last (tid : Nat) (r : PageRow) : (unlockRow tid r).last = r.last := by unfold unlockRow; split <;> rfl

theorem unlock_inv {E : Env} {w : EWorld} (h : EInv E w) (tid : Nat) (th : EThread) (row : Option PageRow)
    (hth : w.threads[tid]? = some th) (hph : th.phase = .locked row) :
    EInvX E { w with node := w.node.unlock tid } (some tid) ∧
    (∀ r, row = some r → ∃ r', r' ∈ (w.node.unlock tid).pages ∧ r'.id = r.id ∧ r'.last = r.last ∧ r'.lock = none) := by
  have hp : (w.node.unlock tid).pages = w.node.pages.map (unlockRow tid) := rfl
  constructor
  · refine { fn := ?_, le := ?_, done := ?_, lock := ?_, uniq := h.uniq }
    · intro r1 r2 h1 h2 hid
      simp only [hp, List.mem_map] at h1 h2
      obtain ⟨a, ha, rfl⟩ := h1
      obtain ⟨b, hb, rfl⟩ := h2
      rw [unlockRow_id, unlockRow_id] at hid
      rw [h.fn a b ha hb hid]
    · intro r hr
      simp only [hp, List.mem_map] at hr
      obtain ⟨a, ha, rfl⟩ := hr
      rw [unlockRow_last]; exact h.le a ha
    · intro t th' l i ht hd
      obtain ⟨a, ha, hal, hai⟩ := h.done t th' l i ht hd
      exact ⟨unlockRow tid a, by simp only [hp]; exact List.mem_map.mpr ⟨a, ha, rfl⟩, by rw [unlockRow_id]; exact hal, by rw [unlockRow_last]; exact hai⟩
    · intro t th' r hx ht hl
      obtain ⟨a, ha, haid, halock, halast⟩ := h.lock t th' r (by simp) ht hl
      have hne : t ≠ tid := fun e => hx (by rw [e])
      refine ⟨a, ?_, haid, halock, halast⟩
      simp only [hp]
      refine List.mem_map.mpr ⟨a, ha, ?_⟩
      unfold unlockRow
      have : (a.lock == some tid) = false := by rw [halock]; simp [hne]
      simp [this]
  · intro r hr
    subst hr
    obtain ⟨a, ha, haid, halock, halast⟩ := h.lock tid th r (by simp) hth hph
    refine ⟨unlockRow tid a, by simp only [hp]; exact List.mem_map.mpr ⟨a, ha, rfl⟩, by rw [unlockRow_id]; exact haid, by rw [unlockRow_last]; exact halast, ?_⟩
    unfold unlockRow
    simp [halock]

/-- commit / rollback of the write step, on the node whose lock held by `tid` has been released -/
theorem applyOut_inv {E : Env} {w : EWorld} {tid : Nat} {th : EThread} {row : Option PageRow} {kid : String}
    (h : EInvX E w (some tid)) (_hth : w.threads[tid]? = some th) (hph : th.phase = .locked row)
    (hsnap : ∀ r, row = some r → ∃ r', r' ∈ w.node.pages ∧ r'.id = r.id ∧ r'.last = r.last ∧ r'.lock = none) :
    EInv E ({ w with node := (w.node.applyOut (entryDecide E w.now w.node th.issuer kid row)).1 }.setPhase tid
      (w.node.applyOut (entryDecide E w.now w.node th.issuer kid row)).2) := by
  have tid_not_done : ∀ l i, th.phase ≠ .done l i := by intro l i; rw [hph]; simp
  cases hout : entryDecide E w.now w.node th.issuer kid row with
  | retry pin =>
    simp only [Node.applyOut]
    have := h.setPhase_inert tid (.start (some pin)) (by intros; simp) (by intros; simp)
    exact { fn := this.fn, le := this.le, done := this.done, uniq := this.uniq,
            lock := fun t th' r _ ht hl => by
              rcases setPhase_get _ tid _ t th' ht with ⟨hne, _⟩ | ⟨_, th0, _, e⟩
              · exact this.lock t th' r (by simp [hne]) ht hl
              · subst e; simp at hl }
  | fail e =>
    simp only [Node.applyOut]
    have := h.setPhase_inert tid (.failed e) (by intros; simp) (by intros; simp)
    exact { fn := this.fn, le := this.le, done := this.done, uniq := this.uniq,
            lock := fun t th' r _ ht hl => by
              rcases setPhase_get _ tid _ t th' ht with ⟨hne, _⟩ | ⟨_, th0, _, e⟩
              · exact this.lock t th' r (by simp [hne]) ht hl
              · subst e; simp at hl }
  | update id last =>
    obtain ⟨r, hrow, hid, hlast, hle⟩ := entryDecide_update hout
    obtain ⟨r', hr'mem, hr'id, hr'last, hr'lock⟩ := hsnap r hrow
    simp only [Node.applyOut]
    let g : PageRow → PageRow := fun x => if x.id == id then { x with last := last } else x
    have gid : ∀ x, (g x).id = x.id := by intro x; simp only [g]; split <;> rfl
    have glock : ∀ x, (g x).lock = x.lock := by intro x; simp only [g]; split <;> rfl
    have glast_ge : ∀ x, x ∈ w.node.pages → x.last ≤ (g x).last := by
      intro x hx
      simp only [g]
      split
      · rename_i e
        have e' : x.id = r'.id := by rw [hr'id, ← hid]; simpa using e
        have := h.fn x r' hx hr'mem e'
        subst this
        simp; omega
      · exact Nat.le_refl _
    refine { fn := ?_, le := ?_, done := ?_, lock := ?_, uniq := ?_ }
    · intro r1 r2 h1 h2 hid'
      simp only [setPhase_node, List.mem_map] at h1 h2
      obtain ⟨a, ha, rfl⟩ := h1
      obtain ⟨b, hb, rfl⟩ := h2
      have : a = b := h.fn a b ha hb (by have := gid a; have := gid b; simp only [g] at *; simp_all)
      rw [this]
    · intro x hx
      simp only [setPhase_node, List.mem_map] at hx
      obtain ⟨a, ha, rfl⟩ := hx
      by_cases e : a.id = id
      · simp [e]; exact hle
      · simp [e]; exact h.le a ha
    · intro t th' l i ht hd
      simp only [setPhase_node]
      rcases setPhase_get _ tid _ t th' ht with ⟨_, h1⟩ | ⟨_, th0, _, e⟩
      · obtain ⟨a, ha, hal, hai⟩ := h.done t th' l i h1 hd
        exact ⟨g a, List.mem_map.mpr ⟨a, ha, rfl⟩, by rw [gid]; exact hal, Nat.le_trans hai (glast_ge a ha)⟩
      · subst e
        simp only [EPhase.done.injEq] at hd
        obtain ⟨rfl, rfl⟩ := hd
        refine ⟨g r', List.mem_map.mpr ⟨r', hr'mem, rfl⟩, by rw [gid, hr'id, hid], ?_⟩
        have : r'.id = id := by rw [hr'id, hid]
        simp [g, this]
    · intro t th' r0 _ ht hl
      simp only [setPhase_node]
      rcases setPhase_get _ tid _ t th' ht with ⟨hne, h1⟩ | ⟨_, th0, _, e⟩
      · obtain ⟨a, ha, haid, halock, halast⟩ := h.lock t th' r0 (by simp [hne]) h1 hl
        have hane : ¬ (a.id = id) := by
          intro e
          have := h.fn a r' ha hr'mem (by rw [e, hr'id, hid])
          subst this
          rw [hr'lock] at halock; cases halock
        exact ⟨a, List.mem_map.mpr ⟨a, ha, by simp [hane]⟩, haid, halock, halast⟩
      · subst e; simp at hl
    · -- no other thread already holds (id, last): every earlier result on this list is ≤ r.last
      have old : ∀ t' th', t' ≠ tid → w.threads[t']? = some th' → th'.phase ≠ .done id last := by
        intro t' th' _ ht' hd
        obtain ⟨a, ha, hal, hai⟩ := h.done t' th' id last ht' hd
        have := h.fn a r' ha hr'mem (by rw [hal, hr'id, hid])
        subst this
        omega
      intro t1 t2 th1 th2 l i hne h1 h2 hp1
      rcases setPhase_get _ tid _ t1 th1 h1 with ⟨n1, g1⟩ | ⟨e1, th0, _, e⟩
      · rcases setPhase_get _ tid _ t2 th2 h2 with ⟨_, g2⟩ | ⟨_, th0, _, e⟩
        · exact h.uniq t1 t2 th1 th2 l i hne g1 g2 hp1
        · subst e
          simp only
          intro hd
          simp only [EPhase.done.injEq] at hd
          obtain ⟨rfl, rfl⟩ := hd
          exact old t1 th1 n1 g1 hp1
      · subst e
        simp only [EPhase.done.injEq] at hp1
        obtain ⟨rfl, rfl⟩ := hp1
        rcases setPhase_get _ tid _ t2 th2 h2 with ⟨n2, g2⟩ | ⟨e2, _, _, _⟩
        · exact old t2 th2 n2 g2
        · exact absurd (e1.trans e2.symm) hne
  | create nr rec =>
    obtain ⟨hnr0, hnrlock, hnm⟩ := entryDecide_create hout
    have hfresh := isManaged_false hnm
    simp only [Node.applyOut]
    refine { fn := ?_, le := ?_, done := ?_, lock := ?_, uniq := ?_ }
    · intro r1 r2 h1 h2 hid
      simp only [setPhase_node, List.mem_cons] at h1 h2
      rcases h1 with rfl | h1 <;> rcases h2 with rfl | h2
      · rfl
      · exact absurd hid.symm (hfresh r2 h2)
      · exact absurd hid (hfresh r1 h1)
      · exact h.fn r1 r2 h1 h2 hid
    · intro x hx
      simp only [setPhase_node, List.mem_cons] at hx
      rcases hx with rfl | hx
      · omega
      · exact h.le x hx
    · intro t th' l i ht hd
      simp only [setPhase_node]
      rcases setPhase_get _ tid _ t th' ht with ⟨_, h1⟩ | ⟨_, th0, _, e⟩
      · obtain ⟨a, ha, hal, hai⟩ := h.done t th' l i h1 hd
        exact ⟨a, List.mem_cons_of_mem _ ha, hal, hai⟩
      · subst e
        simp only [EPhase.done.injEq] at hd
        obtain ⟨rfl, rfl⟩ := hd
        exact ⟨nr, List.mem_cons_self, rfl, Nat.zero_le _⟩
    · intro t th' r0 _ ht hl
      simp only [setPhase_node]
      rcases setPhase_get _ tid _ t th' ht with ⟨hne, h1⟩ | ⟨_, th0, _, e⟩
      · obtain ⟨a, ha, haid, halock, halast⟩ := h.lock t th' r0 (by simp [hne]) h1 hl
        exact ⟨a, List.mem_cons_of_mem _ ha, haid, halock, halast⟩
      · subst e; simp at hl
    · have old : ∀ t' th', t' ≠ tid → w.threads[t']? = some th' → th'.phase ≠ .done nr.id 0 := by
        intro t' th' _ ht' hd
        obtain ⟨a, ha, hal, _⟩ := h.done t' th' nr.id 0 ht' hd
        exact hfresh a ha hal
      intro t1 t2 th1 th2 l i hne h1 h2 hp1
      rcases setPhase_get _ tid _ t1 th1 h1 with ⟨n1, g1⟩ | ⟨e1, th0, _, e⟩
      · rcases setPhase_get _ tid _ t2 th2 h2 with ⟨_, g2⟩ | ⟨_, th0, _, e⟩
        · exact h.uniq t1 t2 th1 th2 l i hne g1 g2 hp1
        · subst e
          simp only
          intro hd
          simp only [EPhase.done.injEq] at hd
          obtain ⟨rfl, rfl⟩ := hd
          exact old t1 th1 n1 g1 hp1
      · subst e
        simp only [EPhase.done.injEq] at hp1
        obtain ⟨rfl, rfl⟩ := hp1
        rcases setPhase_get _ tid _ t2 th2 h2 with ⟨n2, g2⟩ | ⟨e2, _, _, _⟩
        · exact old t2 th2 n2 g2
        · exact absurd (e1.trans e2.symm) hne


theorem eWrite_inv {E : Env} {w : EWorld} (h : EInv E w) (tid : Nat) : EInv E (eWrite E w tid) := by
  unfold eWrite
  split
  · rename_i th hth
    split
    · rename_i row hph
      split
      · exact h.setPhase_inert tid _ (by intros; simp) (by intros; simp)
      · rename_i kid _
        obtain ⟨h0, hsnap⟩ := unlock_inv h tid th row hth hph
        exact applyOut_inv (w := { w with node := w.node.unlock tid }) (kid := kid) h0 hth hph hsnap
    all_goals exact h
  · exact h

theorem putCred_pages (n : Node) (rec : CredRec) : (n.putCred rec).pages = n.pages := rfl

/-- what a successful `Revoke` did -/
theorem revoke_ok {E : Env} {now : Nat} {n n' : Node} {credId : String} {e : StatusEntry}
    (h : revoke E now n credId e = .ok n') :
    ∃ (i : Nat) (row : PageRow) (kid : String) (vc : VC) (rec : CredRec),
      e.idx = some (i : Int) ∧ e.purpose = "revocation" ∧ n.page? e.list = some row ∧ E.keyOf row.issuer = some kid ∧
      (∀ r, r ∈ n.revs → ¬ (r.list = e.list ∧ r.idx = i)) ∧ i ≤ row.last ∧
      updateCredential E now row (({ n with revs := n.revs ++ [{ list := e.list, idx := i, credId := credId }] } : Node).revsOf e.list) kid = .ok (vc, rec) ∧
      n' = ({ n with revs := n.revs ++ [{ list := e.list, idx := i, credId := credId }] } : Node).putCred rec := by
  unfold revoke at h
  split at h
  · cases h
  · rename_i i hi
    split at h
    · cases h
    · rename_i hpurp
      split at h
      · cases h
      · rename_i row hrow
        split at h
        · cases h
        · rename_i kid hkid
          split at h
          · cases h
          · rename_i hdup
            split at h
            · cases h
            · rename_i hrange
              simp only at h
              split at h
              · rename_i vc rec hup
                cases h
                have hi0 : 0 ≤ i := by omega
                refine ⟨i.toNat, row, kid, vc, rec, ?_, ?_, hrow, hkid, ?_, ?_, hup, rfl⟩
                · rw [hi]; congr 1; omega
                · simpa using hpurp
                · intro r hr ⟨h1, h2⟩
                  apply hdup
                  rw [List.any_eq_true]
                  refine ⟨r, hr, ?_⟩
                  simp [h1, h2]; omega
                · omega
              · cases h
              · cases h

theorem revoke_pages {E : Env} {now : Nat} {n n' : Node} {credId : String} {e : StatusEntry}
    (h : revoke E now n credId e = .ok n') : n'.pages = n.pages := by
  obtain ⟨i, row, kid, vc, rec, _, _, _, _, _, _, _, rfl⟩ := revoke_ok h
  rfl

/-- what a successful `Credential` did: served the stored credential (long enough valid), or re-issued -/
theorem credential_ok {E : Env} {now : Nat} {n n' : Node} {issuer : String} {page : Nat} {vc : VC}
    (h : credential E now n issuer page = .ok (vc, n')) :
    ∃ row, n.page? (n.url issuer page) = some row ∧
      ((∃ rec e, n.cred? (n.url issuer page) = some rec ∧ rec.expires = some e ∧ now + E.minLeft < e ∧ vc = rec.raw ∧ n' = n) ∨
       (∃ kid rec, E.keyOf issuer = some kid ∧
          updateCredential E now row (n.revsOf (n.url issuer page)) kid = .ok (vc, rec) ∧ n' = n.putCred rec)) := by
  unfold credential at h
  simp only at h
  split at h
  · cases h
  · rename_i row hrow
    refine ⟨row, hrow, ?_⟩
    split at h
    · cases h
    · cases h
    · rename_i vc0 hc
      simp only [Res.ok.injEq, Prod.mk.injEq] at h
      obtain ⟨rfl, rfl⟩ := h
      left
      split at hc
      · cases hc
      · rename_i rec hrec
        split at hc
        · cases hc
        · rename_i e he
          split at hc
          · rename_i hlt
            simp only [Res.ok.injEq, Option.some.injEq] at hc
            exact ⟨rec, e, hrec, he, hlt, hc.symm, rfl⟩
          · cases hc
    · right
      split at h
      · cases h
      · rename_i kid hkid
        split at h
        · rename_i vc1 rec hup
          simp only [Res.ok.injEq, Prod.mk.injEq] at h
          obtain ⟨rfl, rfl⟩ := h
          exact ⟨kid, rec, hkid, hup, rfl⟩
        · cases h
        · cases h

theorem credential_pages {E : Env} {now : Nat} {n n' : Node} {issuer : String} {page : Nat} {vc : VC}
    (h : credential E now n issuer page = .ok (vc, n')) : n'.pages = n.pages := by
  obtain ⟨row, _, h1 | h1⟩ := credential_ok h
  · obtain ⟨_, _, _, _, _, _, rfl⟩ := h1; rfl
  · obtain ⟨_, _, _, _, rfl⟩ := h1; rfl

theorem EInvX.of_pages {E : Env} {w w' : EWorld} {x : Option Nat} (h : EInvX E w x) (hp : w'.node.pages = w.node.pages)
    (ht : w'.threads = w.threads) : EInvX E w' x :=
  { fn := by rw [hp]; exact h.fn, le := by rw [hp]; exact h.le, done := by rw [hp, ht]; exact h.done,
    lock := by rw [hp, ht]; exact h.lock, uniq := by rw [ht]; exact h.uniq }

theorem eStep_inv {E : Env} {w : EWorld} (h : EInv E w) (a : EAct) : EInv E (eStep E w a) := by
  cases a with
  | spawn issuer =>
    have key : ∀ (t : Nat) (th : EThread), (w.threads ++ [({ issuer := issuer } : EThread)])[t]? = some th →
        w.threads[t]? = some th ∨ th.phase = .start none := by
      intro t th ht
      rw [List.getElem?_append] at ht
      split at ht
      · exact Or.inl ht
      · right
        cases hh : t - w.threads.length with
        | zero => rw [hh] at ht; simp at ht; rw [← ht]
        | succ k => rw [hh] at ht; simp at ht
    refine { fn := h.fn, le := h.le, done := ?_, lock := ?_, uniq := ?_ }
    · intro t th l i ht hd
      rcases key t th ht with h1 | h1
      · exact h.done t th l i h1 hd
      · rw [h1] at hd; cases hd
    · intro t th r hx ht hl
      rcases key t th ht with h1 | h1
      · exact h.lock t th r hx h1 hl
      · rw [h1] at hl; cases hl
    · intro t1 t2 th1 th2 l i hne h1 h2 hp1
      rcases key t1 th1 h1 with g1 | g1
      · rcases key t2 th2 h2 with g2 | g2
        · exact h.uniq t1 t2 th1 th2 l i hne g1 g2 hp1
        · rw [g2]; simp
      · rw [g1] at hp1; cases hp1
  | read tid sel => exact eRead_inv h tid sel
  | write tid => exact eWrite_inv h tid
  | revoke credId e =>
    simp only [eStep]
    split
    · rename_i n hn; exact h.of_pages (revoke_pages hn) rfl
    · exact h
  | serve issuer page =>
    simp only [eStep]
    split
    · rename_i vc n hn; exact h.of_pages (credential_pages hn) rfl
    · exact h
  | tick d => exact h.of_pages rfl rfl
  | rebase b => exact h.of_pages rfl rfl

theorem eRun_inv {E : Env} (acts : List EAct) : ∀ {w : EWorld}, EInv E w → EInv E (eRun E w acts) := by
  induction acts with
  | nil => intro w h; exact h
  | cons a rest ih => intro w h; exact ih (eStep_inv h a)

/-! ## issuer-side tables -/

/-- the bit at `j` as a Bool (`false` out of range) -/
def getB (bs : Bits) (j : Nat) : Bool := match bs.bit (j : Int) with | .ok b => b | _ => false

theorem getB_setBit {bs bs' : Bits} {i j : Nat} (hj : j < 8 * bs.length) (h : bs.setBit (i : Int) true = .ok bs') :
    getB bs' j = (decide (i = j) || getB bs j) := by
  unfold getB
  rw [bit_setBit bs bs' i j true hj h]
  by_cases e : i = j <;> simp [e]

theorem getB_newBits (n j : Nat) : getB (newBits n) j = false := by
  unfold getB Bits.bit newBits
  have h1 : ¬ ((j : Int) < 0) := by omega
  simp only [h1, if_false, Int.toNat_natCast, List.length_replicate]
  by_cases h : j / 8 ≥ n
  · simp [h]
  · have hlt : j / 8 < n := by omega
    simp only [h, if_false]
    rw [List.getElem?_replicate]
    simp only [hlt, if_true]
    rw [isSet_zero _ (Nat.mod_lt j (by omega))]

theorem setAll_spec : ∀ (is : List Nat) (bs : Bits), (∀ i, i ∈ is → i < 8 * bs.length) →
    ∃ bs', setAll bs is = .ok bs' ∧ bs'.length = bs.length ∧ ∀ j, j < 8 * bs.length → getB bs' j = (decide (j ∈ is) || getB bs j) := by
  intro is
  induction is with
  | nil => intro bs _; exact ⟨bs, rfl, rfl, by intro j _; simp⟩
  | cons i rest ih =>
    intro bs hr
    obtain ⟨bs1, h1⟩ := setBit_ok bs i true (hr i List.mem_cons_self)
    have hl1 := setBit_length h1
    obtain ⟨bs2, h2, hl2, hb2⟩ := ih bs1 (by intro k hk; rw [hl1]; exact hr k (List.mem_cons_of_mem _ hk))
    refine ⟨bs2, by simp only [setAll, h1]; exact h2, by rw [hl2, hl1], ?_⟩
    intro j hj
    rw [hb2 j (by rw [hl1]; exact hj), getB_setBit hj h1]
    by_cases e1 : i = j
    · subst e1; simp
    · have e1' : ¬ (j = i) := fun e => e1 e.symm
      by_cases e2 : j ∈ rest <;> simp [e1, e1', e2]

structure EnvOK (E : Env) : Prop where
  idx : E.maxIndex + 1 = 8 * E.lenBytes
  min : E.minLeft ≤ E.validity
  sign : ∀ issuer kid body, E.keyOf issuer = some kid → body.issuer = issuer →
    E.verify { body := body, proof := some (E.sign kid body) } = true

/-- the stored record is a credential this node built and signed with the list issuer's key -/
def Signed (E : Env) (rec : CredRec) : Prop :=
  ∃ kid row t, E.keyOf row.issuer = some kid ∧ row.id = rec.id ∧
    rec.raw = { body := listBody E t row rec.bits, proof := some (E.sign kid (listBody E t row rec.bits)) } ∧
    rec.expires = some (t + E.validity) ∧ rec.purpose = "revocation"

theorem updateCredential_inv {E : Env} {now : Nat} {row : PageRow} {idxs : List Nat} {kid : String} {vc : VC} {rec : CredRec}
    (h : updateCredential E now row idxs kid = .ok (vc, rec)) :
    setAll (newBits E.lenBytes) idxs = .ok rec.bits ∧ rec.id = row.id ∧ rec.raw = vc ∧ rec.purpose = "revocation" ∧
    rec.expires = some (now + E.validity) ∧ rec.createdAt = now ∧
    vc = { body := listBody E now row rec.bits, proof := some (E.sign kid (listBody E now row rec.bits)) } := by
  unfold updateCredential at h
  split at h
  · rename_i bits hb
    split at h
    · cases h
    · simp only [Res.ok.injEq, Prod.mk.injEq] at h
      obtain ⟨rfl, rfl⟩ := h
      exact ⟨hb, rfl, rfl, rfl, rfl, rfl, rfl⟩
  · cases h
  · cases h

/-- when `Sign` fails, nothing is built -/
theorem updateCredential_sign_fails {E : Env} (hf : E.signFails = true) (now : Nat) (row : PageRow) (idxs : List Nat) (kid : String)
    (vc : VC) (rec : CredRec) : updateCredential E now row idxs kid ≠ .ok (vc, rec) := by
  intro h
  unfold updateCredential at h
  split at h
  · simp [hf] at h
  · cases h
  · cases h

theorem updateCredential_ok (E : Env) (hE : EnvOK E) (hs : E.signFails = false) (now : Nat) (row : PageRow) (idxs : List Nat) (kid : String)
    (hr : ∀ i, i ∈ idxs → i ≤ E.maxIndex) : ∃ vc rec, updateCredential E now row idxs kid = .ok (vc, rec) := by
  have hlen : (newBits E.lenBytes).length = E.lenBytes := by simp [newBits]
  obtain ⟨bs, h, _, _⟩ := setAll_spec idxs (newBits E.lenBytes) (by intro i hi; rw [hlen]; have := hr i hi; have := hE.idx; omega)
  unfold updateCredential
  rw [h]
  simp only [hs]
  exact ⟨_, _, rfl⟩

theorem updateCredential_signed {E : Env} {now : Nat} {row : PageRow} {idxs : List Nat} {kid : String} {vc : VC} {rec : CredRec}
    (hk : E.keyOf row.issuer = some kid) (h : updateCredential E now row idxs kid = .ok (vc, rec)) : Signed E rec := by
  obtain ⟨_, hid, hraw, hp, he, _, hvc⟩ := updateCredential_inv h
  exact ⟨kid, row, now, hk, hid.symm, by rw [hraw, hvc], he, hp⟩

theorem page?_some {n : Node} {u : Url} {row : PageRow} (h : n.page? u = some row) : row ∈ n.pages ∧ row.id = u := by
  unfold Node.page? at h
  exact ⟨List.mem_of_find?_eq_some h, by simpa using List.find?_some h⟩

theorem cred?_some {n : Node} {u : Url} {rec : CredRec} (h : n.cred? u = some rec) : rec ∈ n.creds ∧ rec.id = u := by
  unfold Node.cred? at h
  exact ⟨List.mem_of_find?_eq_some h, by simpa using List.find?_some h⟩

theorem find?_filter_ne (l : List CredRec) (k u : Url) (hne : k ≠ u) :
    (l.filter (fun c => !(c.id == k))).find? (fun c => c.id == u) = l.find? (fun c => c.id == u) := by
  induction l with
  | nil => rfl
  | cons c rest ih =>
    by_cases e : c.id = k
    · have h1 : (c.id == k) = true := by simp [e]
      have h2 : (c.id == u) = false := by rw [e]; simp [hne]
      simp only [List.filter, h1, Bool.not_true, List.find?_cons, h2]
      exact ih
    · have h1 : (c.id == k) = false := by simp [e]
      simp only [List.filter, h1, Bool.not_false, List.find?_cons, ih]

@[simp] theorem stored_id (n : Node) (rec : CredRec) : (n.stored rec).id = rec.id := by unfold Node.stored; split <;> rfl
@[simp] theorem stored_bits (n : Node) (rec : CredRec) : (n.stored rec).bits = rec.bits := by unfold Node.stored; split <;> rfl
@[simp] theorem stored_raw (n : Node) (rec : CredRec) : (n.stored rec).raw = rec.raw := by unfold Node.stored; split <;> rfl
@[simp] theorem stored_purpose (n : Node) (rec : CredRec) : (n.stored rec).purpose = rec.purpose := by unfold Node.stored; split <;> rfl
@[simp] theorem stored_expires (n : Node) (rec : CredRec) : (n.stored rec).expires = rec.expires := by unfold Node.stored; split <;> rfl

theorem cred?_putCred (n : Node) (rec : CredRec) (u : Url) :
    (n.putCred rec).cred? u = if rec.id = u then some (n.stored rec) else n.cred? u := by
  unfold Node.putCred Node.cred?
  simp only [List.find?_cons, stored_id]
  by_cases e : rec.id = u
  · simp [e]
  · simp only [show (rec.id == u) = false by simp [e], e, if_false]
    exact find?_filter_ne n.creds rec.id u e

theorem revsOf_append (n : Node) (rv : RevRow) (u : Url) :
    ({ n with revs := n.revs ++ [rv] } : Node).revsOf u = if rv.list = u then n.revsOf u ++ [rv.idx] else n.revsOf u := by
  unfold Node.revsOf
  simp only [List.filter_append, List.map_append]
  by_cases e : rv.list = u
  · simp [List.filter, e]
  · have : (rv.list == u) = false := by simp [e]
    simp [List.filter, e, this]


theorem isManaged_iff {n : Node} {u : Url} : n.isManaged u = true ↔ ∃ r, r ∈ n.pages ∧ r.id = u := by
  unfold Node.isManaged Node.page?
  rw [List.find?_isSome]
  constructor
  · rintro ⟨r, hr, h⟩; exact ⟨r, hr, by simpa using h⟩
  · rintro ⟨r, hr, h⟩; exact ⟨r, hr, by simpa using h⟩

theorem entryDecide_create' {E : Env} {now : Nat} {n : Node} {issuer kid : String} {row : Option PageRow} {nr : PageRow} {rec : CredRec}
    (h : entryDecide E now n issuer kid row = .create nr rec) :
    nr.id = n.url nr.issuer nr.page ∧ nr.issuer = issuer ∧ nr.last = 0 ∧ n.isManaged nr.id = false ∧
    (∃ vc, updateCredential E now nr [] kid = .ok (vc, rec)) ∧ n.cred? nr.id = none := by
  unfold entryDecide at h
  simp only at h
  generalize entryCur E issuer row = cur at h
  split at h
  · split at h
    · cases h
    · rename_i hm
      split at h
      · cases h
      · split at h
        · rename_i vc rec' hup
          split at h
          · cases h
          · rename_i hc
            simp only [WOut.create.injEq] at h
            obtain ⟨h1, h2⟩ := h
            subst h1; subst h2
            refine ⟨rfl, rfl, rfl, by simpa using hm, ⟨vc, hup⟩, ?_⟩
            cases hh : n.cred? (n.url issuer (cur.page + 1)) with
            | none => rfl
            | some x => rw [hh] at hc; simp at hc
        · cases h
        · cases h
  · cases h

/-- the stored credential names the list it is stored under and its bitstring is the one stored next to it -/
def Named (rec : CredRec) : Prop := ∃ s, rec.raw.body.subjects = [s] ∧ s.id = rec.id ∧ s.enc = .ok rec.bits

theorem updateCredential_named {E : Env} {now : Nat} {row : PageRow} {idxs : List Nat} {kid : String} {vc : VC} {rec : CredRec}
    (h : updateCredential E now row idxs kid = .ok (vc, rec)) : Named rec := by
  obtain ⟨_, hid, hraw, _, _, _, hvc⟩ := updateCredential_inv h
  exact ⟨{ id := row.id, purpose := "revocation", enc := .ok rec.bits }, by rw [hraw, hvc]; rfl, hid.symm, rfl⟩

theorem Named.stored {rec : CredRec} (h : Named rec) (n : Node) : Named (n.stored rec) := by
  obtain ⟨s, h1, h2, h3⟩ := h
  exact ⟨s, by simpa using h1, by simpa using h2, by simpa using h3⟩

theorem Signed.stored {E : Env} {rec : CredRec} (h : Signed E rec) (n : Node) : Signed E (n.stored rec) := by
  obtain ⟨kid, row, t, h1, h2, h3, h4, h5⟩ := h
  exact ⟨kid, row, t, h1, by simpa using h2, by simpa using h3, by simpa using h4, by simpa using h5⟩

/-- invariant of one node's status list tables -/
structure NInv (E : Env) (n : Node) : Prop where
  own : ∀ r, r ∈ n.pages → r.id = n.url r.issuer r.page
  le : ∀ r, r ∈ n.pages → r.last ≤ E.maxIndex
  rng : ∀ rv, rv ∈ n.revs → rv.idx ≤ E.maxIndex
  fk : ∀ rv, rv ∈ n.revs → n.isManaged rv.list = true
  has : ∀ u, n.isManaged u = true → ∃ rec, n.cred? u = some rec
  crec : ∀ u rec, n.isManaged u = true → n.cred? u = some rec →
    setAll (newBits E.lenBytes) (n.revsOf u) = .ok rec.bits ∧ Signed E rec
  named : ∀ u rec, n.cred? u = some rec → Named rec

theorem NInv.empty (E : Env) (base : String) (dids : List String) : NInv E { base := base, dids := dids } := by
  refine { own := ?_, le := ?_, rng := ?_, fk := ?_, has := ?_, crec := ?_, named := ?_ }
  · intro r hr; cases hr
  · intro r hr; cases hr
  · intro r hr; cases hr
  · intro r hr; cases hr
  · intro u hu; simp [Node.isManaged, Node.page?] at hu
  · intro u rec hu; simp [Node.isManaged, Node.page?] at hu
  · intro u rec hc; simp [Node.cred?] at hc

theorem revsOf_mem {n : Node} {u : Url} {i : Nat} : i ∈ n.revsOf u ↔ ∃ rv, rv ∈ n.revs ∧ rv.list = u ∧ rv.idx = i := by
  unfold Node.revsOf
  simp only [List.mem_map, List.mem_filter, beq_iff_eq]
  constructor
  · rintro ⟨rv, ⟨h1, h2⟩, h3⟩; exact ⟨rv, h1, h2, h3⟩
  · rintro ⟨rv, h1, h2, h3⟩; exact ⟨rv, ⟨h1, h2⟩, h3⟩

theorem NInv.revsOf_le {E : Env} {n : Node} (h : NInv E n) (u : Url) : ∀ i, i ∈ n.revsOf u → i ≤ E.maxIndex := by
  intro i hi
  obtain ⟨rv, h1, _, h3⟩ := revsOf_mem.mp hi
  rw [← h3]; exact h.rng rv h1

theorem NInv.of_revoke {E : Env} {now : Nat} {n n' : Node} {credId : String} {e : StatusEntry} (h : NInv E n)
    (hr : revoke E now n credId e = .ok n') : NInv E n' := by
  obtain ⟨i, row, kid, vc, rec, _, _, hrow, hkid, _, hile, hup, rfl⟩ := revoke_ok hr
  obtain ⟨hrmem, hrid⟩ := page?_some hrow
  obtain ⟨hbits, hrecid, _, _, _, _, _⟩ := updateCredential_inv hup
  have hsigned := updateCredential_signed hkid hup
  have hman : ∀ u, (Node.putCred { n with revs := n.revs ++ [{ list := e.list, idx := i, credId := credId }] } rec).isManaged u = n.isManaged u := fun _ => rfl
  refine { own := h.own, le := h.le, rng := ?_, fk := ?_, has := ?_, crec := ?_, named := ?_ }
  rotate_right
  · intro u rec0 hc
    rw [cred?_putCred] at hc
    split at hc
    · cases hc; exact (updateCredential_named hup).stored _
    · exact h.named u rec0 hc
  · intro rv hrv
    simp only [Node.putCred, List.mem_append, List.mem_singleton] at hrv
    rcases hrv with hrv | rfl
    · exact h.rng rv hrv
    · exact Nat.le_trans hile (h.le row hrmem)
  · intro rv hrv
    rw [hman]
    simp only [Node.putCred, List.mem_append, List.mem_singleton] at hrv
    rcases hrv with hrv | rfl
    · exact h.fk rv hrv
    · exact isManaged_iff.mpr ⟨row, hrmem, hrid⟩
  · intro u hu
    rw [hman] at hu
    rw [cred?_putCred]
    split
    · exact ⟨_, rfl⟩
    · exact h.has u hu
  · intro u rec0 hu hc
    rw [hman] at hu
    rw [cred?_putCred] at hc
    have hrevs : (Node.putCred { n with revs := n.revs ++ [{ list := e.list, idx := i, credId := credId }] } rec).revsOf u =
        ({ n with revs := n.revs ++ [{ list := e.list, idx := i, credId := credId }] } : Node).revsOf u := rfl
    rw [hrevs]
    split at hc
    · rename_i heq
      cases hc
      rw [← heq, hrecid, hrid]
      exact ⟨by rw [stored_bits]; exact hbits, hsigned.stored _⟩
    · rename_i hne
      have : ¬ (e.list = u) := by rw [← hrid, ← hrecid]; exact hne
      rw [revsOf_append]
      simp only [this, if_false]
      exact h.crec u rec0 hu hc

theorem NInv.of_credential {E : Env} {now : Nat} {n n' : Node} {issuer : String} {page : Nat} {vc : VC} (h : NInv E n)
    (hc : credential E now n issuer page = .ok (vc, n')) : NInv E n' := by
  obtain ⟨row, hrow, h1 | h1⟩ := credential_ok hc
  · obtain ⟨_, _, _, _, _, _, rfl⟩ := h1; exact h
  · obtain ⟨kid, rec, hkid, hup, rfl⟩ := h1
    obtain ⟨hrmem, hrid⟩ := page?_some hrow
    obtain ⟨hbits, hrecid, _, _, _, _, _⟩ := updateCredential_inv hup
    have hiss : row.issuer = issuer := by
      have := h.own row hrmem
      rw [hrid] at this
      simp only [Node.url, Url.sl.injEq] at this
      exact this.2.1.symm
    have hsigned := updateCredential_signed (by rw [hiss]; exact hkid) hup
    refine { own := h.own, le := h.le, rng := h.rng, fk := h.fk, has := ?_, crec := ?_, named := ?_ }
    rotate_right
    · intro u rec0 hc0
      rw [cred?_putCred] at hc0
      split at hc0
      · cases hc0; exact (updateCredential_named hup).stored _
      · exact h.named u rec0 hc0
    · intro u hu
      rw [cred?_putCred]
      split
      · exact ⟨_, rfl⟩
      · exact h.has u hu
    · intro u rec0 hu hc0
      rw [cred?_putCred] at hc0
      split at hc0
      · rename_i heq
        cases hc0
        have : (n.putCred rec).revsOf u = n.revsOf (n.url issuer page) := by rw [← heq, hrecid, hrid]; rfl
        rw [this]
        exact ⟨by rw [stored_bits]; exact hbits, hsigned.stored _⟩
      · exact h.crec u rec0 hu hc0


theorem isManaged_map (n : Node) (f : PageRow → PageRow) (hf : ∀ r, (f r).id = r.id) (u : Url) :
    ({ n with pages := n.pages.map f } : Node).isManaged u = n.isManaged u := by
  rw [Bool.eq_iff_iff, isManaged_iff, isManaged_iff]
  constructor
  · rintro ⟨r, hr, h⟩
    obtain ⟨a, ha, rfl⟩ := List.mem_map.mp hr
    exact ⟨a, ha, by rw [← hf a]; exact h⟩
  · rintro ⟨r, hr, h⟩
    exact ⟨f r, List.mem_map.mpr ⟨r, hr, rfl⟩, by rw [hf r]; exact h⟩

/-- the write half of an `Entry` call with any row (whatever the select returned) keeps the table invariant -/
theorem NInv.of_entryWrite {E : Env} {now : Nat} {n : Node} {issuer kid : String} {row : Option PageRow} (h : NInv E n)
    (hk : E.keyOf issuer = some kid) : NInv E (entryWrite E now n issuer kid row).1 := by
  unfold entryWrite
  cases hout : entryDecide E now n issuer kid row with
  | retry pin => exact h
  | fail e => exact h
  | update id last =>
    obtain ⟨r, _, _, _, hle⟩ := entryDecide_update hout
    simp only [Node.applyOut]
    have hf : ∀ x : PageRow, (if x.id == id then { x with last := last } else x).id = x.id := by intro x; split <;> rfl
    have hman := isManaged_map n _ hf
    refine { own := ?_, le := ?_, rng := h.rng, fk := ?_, has := ?_, crec := ?_, named := h.named }
    · intro x hx
      obtain ⟨a, ha, rfl⟩ := List.mem_map.mp hx
      have := h.own a ha
      split <;> exact this
    · intro x hx
      obtain ⟨a, ha, rfl⟩ := List.mem_map.mp hx
      split
      · exact hle
      · exact h.le a ha
    · intro rv hrv; rw [hman]; exact h.fk rv hrv
    · intro u hu; rw [hman] at hu; exact h.has u hu
    · intro u rec hu hc; rw [hman] at hu; exact h.crec u rec hu hc
  | create nr rec =>
    obtain ⟨hown, hiss, hlast, hnm, ⟨vc, hup⟩, hnc⟩ := entryDecide_create' hout
    obtain ⟨hbits, hrecid, _, _, _, _, _⟩ := updateCredential_inv hup
    have hsigned := updateCredential_signed (by rw [hiss]; exact hk) hup
    simp only [Node.applyOut]
    have hman : ∀ u, ({ n with pages := nr :: n.pages, creds := rec :: n.creds } : Node).isManaged u = true ↔ (u = nr.id ∨ n.isManaged u = true) := by
      intro u
      rw [isManaged_iff, isManaged_iff]
      simp only [List.mem_cons]
      constructor
      · rintro ⟨r, hr | hr, e⟩
        · left; rw [← e, hr]
        · right; exact ⟨r, hr, e⟩
      · rintro (e | ⟨r, hr, e⟩)
        · exact ⟨nr, Or.inl rfl, e.symm⟩
        · exact ⟨r, Or.inr hr, e⟩
    have hcred : ∀ u, ({ n with pages := nr :: n.pages, creds := rec :: n.creds } : Node).cred? u = if rec.id = u then some rec else n.cred? u := by
      intro u
      unfold Node.cred?
      simp only [List.find?_cons]
      by_cases e : rec.id = u
      · simp [e]
      · simp [e, show (rec.id == u) = false by simp [e]]
    have hnorev : n.revsOf nr.id = [] := by
      cases hh : n.revsOf nr.id with
      | nil => rfl
      | cons i rest =>
        have : i ∈ n.revsOf nr.id := by rw [hh]; exact List.mem_cons_self
        obtain ⟨rv, h1, h2, _⟩ := revsOf_mem.mp this
        have := h.fk rv h1
        rw [h2, hnm] at this; cases this
    refine { own := ?_, le := ?_, rng := h.rng, fk := ?_, has := ?_, crec := ?_, named := ?_ }
    rotate_right
    · intro u rec0 hc
      rw [hcred] at hc
      split at hc
      · cases hc; exact updateCredential_named hup
      · exact h.named u rec0 hc
    · intro x hx
      rcases List.mem_cons.mp hx with rfl | hx
      · exact hown
      · exact h.own x hx
    · intro x hx
      rcases List.mem_cons.mp hx with rfl | hx
      · omega
      · exact h.le x hx
    · intro rv hrv; exact (hman rv.list).mpr (Or.inr (h.fk rv hrv))
    · intro u hu
      rw [hcred]
      split
      · exact ⟨_, rfl⟩
      · rename_i hne
        rcases (hman u).mp hu with e | hu'
        · exact absurd (by rw [hrecid, e]) hne
        · exact h.has u hu'
    · intro u rec0 hu hc
      rw [hcred] at hc
      have hrevs : ({ n with pages := nr :: n.pages, creds := rec :: n.creds } : Node).revsOf u = n.revsOf u := rfl
      rw [hrevs]
      split at hc
      · rename_i heq
        cases hc
        rw [← heq, hrecid, hnorev]
        exact ⟨hbits, hsigned⟩
      · rename_i hne
        rcases (hman u).mp hu with e | hu'
        · exact absurd (by rw [hrecid, e]) hne
        · exact h.crec u rec0 hu' hc

theorem bits_exact {E : Env} (hE : EnvOK E) {idxs : List Nat} {bits : Bits} (hr : ∀ i, i ∈ idxs → i ≤ E.maxIndex)
    (h : setAll (newBits E.lenBytes) idxs = .ok bits) :
    bits.length = E.lenBytes ∧ ∀ j, j ≤ E.maxIndex → getB bits j = decide (j ∈ idxs) := by
  have hlen : (newBits E.lenBytes).length = E.lenBytes := by simp [newBits]
  obtain ⟨bs, h', hl, hb⟩ := setAll_spec idxs (newBits E.lenBytes) (by intro i hi; rw [hlen]; have := hr i hi; have := hE.idx; omega)
  rw [h] at h'
  cases h'
  refine ⟨by rw [hl, hlen], ?_⟩
  intro j hj
  rw [hb j (by rw [hlen]; have := hE.idx; omega), getB_newBits]
  simp

/-! ## served lists -/

/-- `v` is a status list credential for list `u` whose bit set is exactly the revocations of `u` on node `n` -/
def Served (n : Node) (u : Url) (v : VC) : Prop :=
  ∃ bits, v.body.subjects = [{ id := u, purpose := "revocation", enc := .ok bits }] ∧
    (∀ j, getB bits j = true ↔ j ∈ n.revsOf u)

theorem getB_oob {bits : Bits} {j : Nat} (h : ¬ (j < 8 * bits.length)) : getB bits j = false := by
  unfold getB Bits.bit
  have h1 : ¬ ((j : Int) < 0) := by omega
  simp only [h1, if_false, Int.toNat_natCast]
  have : j / 8 ≥ bits.length := by omega
  simp [this]

theorem bits_iff {E : Env} (hE : EnvOK E) {idxs : List Nat} {bits : Bits} (hr : ∀ i, i ∈ idxs → i ≤ E.maxIndex)
    (h : setAll (newBits E.lenBytes) idxs = .ok bits) : ∀ j, getB bits j = true ↔ j ∈ idxs := by
  obtain ⟨hl, hb⟩ := bits_exact hE hr h
  intro j
  by_cases hj : j ≤ E.maxIndex
  · rw [hb j hj]; simp
  · have : getB bits j = false := getB_oob (by rw [hl]; have := hE.idx; omega)
    rw [this]
    constructor
    · intro h; cases h
    · intro h; exact absurd (hr j h) hj

/-- a stored, signed record of a managed list verifies, names its list and carries exactly the revocations -/
theorem signed_served {E : Env} (hE : EnvOK E) {n : Node} (h : NInv E n) {u : Url} {rec : CredRec}
    (hu : n.isManaged u = true) (hc : n.cred? u = some rec) :
    E.verify rec.raw = true ∧ Served n u rec.raw ∧ rec.raw.body.expires = rec.expires ∧ rec.purpose = "revocation" ∧
    (∀ j, getB rec.bits j = true ↔ j ∈ n.revsOf u) := by
  obtain ⟨hbits, kid, row, t, hk, hid, hraw, hexp, hp⟩ := h.crec u rec hu hc
  have hrid : rec.id = u := (cred?_some hc).2
  have hiff := bits_iff hE (h.revsOf_le u) hbits
  refine ⟨?_, ?_, ?_, hp, hiff⟩
  · rw [hraw]; exact hE.sign row.issuer kid _ hk rfl
  · rw [hraw]; exact ⟨rec.bits, by simp [listBody, hid, hrid], hiff⟩
  · rw [hraw, hexp]; rfl

/-- every list the node serves is validly signed, is not about to expire, names the requested list and carries exactly
    the revocations of that list -/
theorem credential_served {E : Env} (hE : EnvOK E) {now : Nat} {n n' : Node} (h : NInv E n) {issuer : String} {page : Nat} {vc : VC}
    (hc : credential E now n issuer page = .ok (vc, n')) :
    E.verify vc = true ∧ (∃ e, vc.body.expires = some e ∧ now + E.minLeft ≤ e) ∧ Served n' (n.url issuer page) vc ∧
    vc.proof.isSome = true ∧ n'.revs = n.revs := by
  obtain ⟨row, hrow, h1 | h1⟩ := credential_ok hc
  · obtain ⟨rec, e, hrec, he, hlt, hvc, hn⟩ := h1
    rw [hvc, hn]
    have hu : n.isManaged (n.url issuer page) = true := by simp only [Node.isManaged, hrow]; rfl
    obtain ⟨hv, hs, hx, _, _⟩ := signed_served hE h hu hrec
    refine ⟨hv, ⟨e, by rw [hx, he], by omega⟩, hs, ?_, rfl⟩
    obtain ⟨_, kid, row', t, _, _, hraw, _, _⟩ := h.crec _ rec hu hrec
    rw [hraw]; rfl
  · obtain ⟨kid, rec, hkid, hup, rfl⟩ := h1
    obtain ⟨hrmem, hrid⟩ := page?_some hrow
    obtain ⟨hbits, _, _, _, _, _, hvc⟩ := updateCredential_inv hup
    have hiss : row.issuer = issuer := by
      have := h.own row hrmem
      rw [hrid] at this
      simp only [Node.url, Url.sl.injEq] at this
      exact this.2.1.symm
    have hiff := bits_iff hE (h.revsOf_le _) hbits
    refine ⟨?_, ⟨now + E.validity, by rw [hvc]; rfl, by have := hE.min; omega⟩, ?_, by rw [hvc]; rfl, rfl⟩
    · rw [hvc]; exact hE.sign row.issuer kid _ (by rw [hiss]; exact hkid) rfl
    · rw [hvc]; exact ⟨rec.bits, by simp [listBody, hrid], hiff⟩

/-! ## verifier side -/

theorem validate_ok {v : VC} {s : Subject} (h : validate v = .ok s) :
    v.body.subjects = [s] ∧ s.purpose ≠ "" ∧ v.proof.isSome = true := by
  unfold validate at h
  by_cases c0 : (!v.body.ctxV1) = true
  · rw [if_pos c0] at h; cases h
  rw [if_neg c0] at h
  by_cases c1 : (!v.body.ctxSL) = true
  · rw [if_pos c1] at h; cases h
  rw [if_neg c1] at h
  by_cases c2 : (!v.body.typeVC) = true
  · rw [if_pos c2] at h; cases h
  rw [if_neg c2] at h
  by_cases c3 : (!v.body.typeSL) = true
  · rw [if_pos c3] at h; cases h
  rw [if_neg c3] at h
  by_cases c4 : v.body.nTypes > 2
  · rw [if_pos c4] at h; cases h
  rw [if_neg c4] at h
  by_cases c5 : (!v.body.hasId) = true
  · rw [if_pos c5] at h; cases h
  rw [if_neg c5] at h
  by_cases c6 : v.body.issued.isNone = true
  · rw [if_pos c6] at h; cases h
  rw [if_neg c6] at h
  by_cases c7 : v.proof.isNone = true
  · rw [if_pos c7] at h; cases h
  rw [if_neg c7] at h
  by_cases c8 : v.body.hasStatus = true
  · rw [if_pos c8] at h; cases h
  rw [if_neg c8] at h
  split at h
  · rename_i s' heq
    by_cases d0 : (!s'.typeOk) = true
    · rw [if_pos d0] at h; cases h
    rw [if_neg d0] at h
    by_cases d1 : (s'.purpose == "") = true
    · rw [if_pos d1] at h; cases h
    rw [if_neg d1] at h
    by_cases d2 : (s'.enc == Enc.empty) = true
    · rw [if_pos d2] at h; cases h
    rw [if_neg d2] at h
    simp only [Res.ok.injEq] at h
    subst h
    refine ⟨heq, by simpa using d1, ?_⟩
    cases hh : v.proof with
    | none => simp [hh] at c7
    | some _ => rfl
  · cases h

theorem verifyList_ok {E : Env} {v : VC} {s : Subject} {bits : Bits} (h : verifyList E v = .ok (s, bits)) :
    v.body.subjects = [s] ∧ s.enc = .ok bits ∧ E.verify v = true := by
  unfold verifyList at h
  split at h
  · rename_i s' hv
    split at h
    · rename_i bits' henc
      split at h
      · rename_i hver
        simp only [Res.ok.injEq, Prod.mk.injEq] at h
        obtain ⟨rfl, rfl⟩ := h
        exact ⟨(validate_ok hv).1, henc, hver⟩
      · cases h
    · cases h
  · cases h
  · cases h

/-- what a successful `update` stored: a credential that verified, whose subject id is the requested URL -/
theorem update_ok {E : Env} {now : Nat} {n n' : Node} {u : Url} {f : Fetch} {rec : CredRec}
    (h : update E now n u f = .ok (rec, n')) :
    ∃ v s, f = .vc v ∧ v.body.subjects = [s] ∧ s.id = u ∧ s.enc = .ok rec.bits ∧ E.verify v = true ∧
      rec.id = u ∧ rec.purpose = s.purpose ∧ rec.raw = v ∧ rec.createdAt = now ∧ rec.expires = v.body.expires ∧ n' = n.putCred rec := by
  unfold update at h
  split at h
  · cases h
  · rename_i v
    split at h
    · rename_i s bits hv
      split at h
      · cases h
      · rename_i hid
        simp only [Res.ok.injEq, Prod.mk.injEq] at h
        obtain ⟨rfl, rfl⟩ := h
        obtain ⟨h1, h2, h3⟩ := verifyList_ok hv
        exact ⟨v, s, rfl, h1, by simp at hid; exact hid.symm, h2, h3, rfl, rfl, rfl, rfl, rfl, rfl⟩
    · cases h
    · cases h

/-- the record `statusList` hands out is the stored one, or the one a successful `update` just stored -/
theorem statusList_ok {E : Env} {now : Nat} {n n' : Node} {u : Url} {f : Fetch} {rec : CredRec}
    (h : statusList E now n u f = .ok (rec, n')) :
    (n' = n ∧ n.cred? u = some rec) ∨
    (update E now n u f = .ok (rec, n') ∧ (n.cred? u = none ∨ n.isManaged u = false) ∧ needsFetch E now n u = true) := by
  unfold statusList at h
  split at h
  · rename_i hnone
    exact Or.inr ⟨h, Or.inl hnone, by simp [needsFetch, hnone]⟩
  · rename_i rec0 hsome
    split at h
    · simp only [Res.ok.injEq, Prod.mk.injEq] at h
      obtain ⟨rfl, rfl⟩ := h
      exact Or.inl ⟨rfl, hsome⟩
    · rename_i hnm
      split at h
      · rename_i hstale
        split at h
        · rename_i r hup
          simp only [Res.ok.injEq] at h
          subst h
          exact Or.inr ⟨hup, Or.inr (by simpa using hnm), by simp [needsFetch, hsome, hnm, hstale]⟩
        · simp only [Res.ok.injEq, Prod.mk.injEq] at h
          obtain ⟨rfl, rfl⟩ := h
          exact Or.inl ⟨rfl, hsome⟩
      · simp only [Res.ok.injEq, Prod.mk.injEq] at h
        obtain ⟨rfl, rfl⟩ := h
        exact Or.inl ⟨rfl, hsome⟩

/-- storing a downloaded list under a URL this node does not manage keeps the table invariant -/
theorem NInv.of_update {E : Env} {now : Nat} {n n' : Node} {u : Url} {f : Fetch} {rec : CredRec} (h : NInv E n)
    (hu : n.cred? u = none ∨ n.isManaged u = false) (hup : update E now n u f = .ok (rec, n')) : NInv E n' := by
  obtain ⟨v, s, _, hsub, hsid, henc, _, hid, _, hraw, _, _, rfl⟩ := update_ok hup
  have hnamed : Named rec := ⟨s, by rw [hraw]; exact hsub, by rw [hsid, hid], henc⟩
  have hnm : n.isManaged u = false := by
    rcases hu with hu | hu
    · cases hm : n.isManaged u with
      | false => rfl
      | true => obtain ⟨r, hr⟩ := h.has u hm; rw [hu] at hr; cases hr
    · exact hu
  refine { own := h.own, le := h.le, rng := h.rng, fk := h.fk, has := ?_, crec := ?_, named := ?_ }
  rotate_right
  · intro u' rec0 hc
    rw [cred?_putCred] at hc
    split at hc
    · cases hc; exact hnamed.stored _
    · exact h.named u' rec0 hc
  · intro u' hu'
    rw [cred?_putCred]
    split
    · exact ⟨_, rfl⟩
    · exact h.has u' hu'
  · intro u' rec0 hu' hc
    rw [cred?_putCred] at hc
    split at hc
    · rename_i heq
      have : n.isManaged u' = true := hu'
      rw [← heq, hid, hnm] at this; cases this
    · exact h.crec u' rec0 hu' hc

/-! ## two nodes -/

@[simp] theorem get_set_same (w : World) (i : Bool) (n : Node) : (w.set i n).get i = n := by
  cases i <;> simp [World.get, World.set]
@[simp] theorem get_set_other (w : World) (i : Bool) (n : Node) : (w.set i n).get (!i) = w.get (!i) := by
  cases i <;> simp [World.get, World.set]
theorem get_set (w : World) (i k : Bool) (n : Node) : (w.set i n).get k = if k = i then n else w.get k := by
  cases i <;> cases k <;> simp [World.get, World.set]
@[simp] theorem set_now (w : World) (i : Bool) (n : Node) : (w.set i n).now = w.now := by cases i <;> rfl
@[simp] theorem set_hosts (w : World) (i : Bool) (n : Node) : (w.set i n).hosts = w.hosts := by cases i <;> rfl
@[simp] theorem set_log (w : World) (i : Bool) (n : Node) : (w.set i n).log = w.log := by cases i <;> rfl

/-- what a downloaded credential must be when the URL is a status list URL of one of the two nodes -/
def FetchOK (w : World) (u : Url) (f : Fetch) : Prop :=
  ∀ v, f = .vc v → ∀ k iss p, u = .sl (w.get k).base iss p → Served (w.get k) u v ∧ v.proof.isSome = true

/-- the table-level transitions every operation is composed of -/
inductive WPrim (E : Env) (K : KeyEnv) : World → World → Prop where
  | entry (w : World) (k : Bool) (issuer kid : String) (row : Option PageRow) (hk : E.keyOf issuer = some kid) :
      WPrim E K w (w.set k (entryWrite E w.now (w.get k) issuer kid row).1)
  | revoke (w : World) (k : Bool) (credId : String) (e : StatusEntry) (n' : Node)
      (h : Nuts.C11.revoke E w.now (w.get k) credId e = .ok n') : WPrim E K w (w.set k n')
  | cred (w : World) (k : Bool) (issuer : String) (page : Nat) (vc : VC) (n' : Node)
      (h : credential E w.now (w.get k) issuer page = .ok (vc, n')) : WPrim E K w (w.set k n')
  | update (w : World) (k : Bool) (u : Url) (f : Fetch) (rec : CredRec) (n' : Node) (hf : FetchOK w u f)
      (hu : (w.get k).cred? u = none ∨ (w.get k).isManaged u = false)
      (h : Nuts.C11.update E w.now (w.get k) u f = .ok (rec, n')) : WPrim E K w (w.set k n')
  | register (w : World) (k : Bool) (r : Revocation) (n' : Node)
      (h : registerRevocation K (w.get k) r = .ok n') : WPrim E K w (w.set k n')
  | env (w : World) (hosts : List (String × (Nat → Fetch))) (now : Nat) (log : List Url) :
      WPrim E K w { w with hosts := hosts, now := now, log := log }

inductive WPath (E : Env) (K : KeyEnv) : World → World → Prop where
  | refl (w : World) : WPath E K w w
  | step {w1 w2 w3 : World} (h1 : WPath E K w1 w2) (h2 : WPrim E K w2 w3) : WPath E K w1 w3

theorem WPath.trans {E : Env} {K : KeyEnv} {w1 w2 w3 : World} (h1 : WPath E K w1 w2) (h2 : WPath E K w2 w3) : WPath E K w1 w3 := by
  induction h2 with
  | refl => exact h1
  | step _ hp ih => exact .step ih hp

theorem WPath.one {E : Env} {K : KeyEnv} {w1 w2 : World} (h : WPrim E K w1 w2) : WPath E K w1 w2 := .step (.refl _) h

structure WInv (E : Env) (w : World) : Prop where
  na : NInv E w.a
  nb : NInv E w.b
  ne : w.a.base ≠ w.b.base

theorem WInv.node {E : Env} {w : World} (h : WInv E w) (k : Bool) : NInv E (w.get k) := by
  cases k
  · exact h.na
  · exact h.nb

theorem registerRevocation_ok {K : KeyEnv} {n n' : Node} {r : Revocation} (h : registerRevocation K n r = .ok n') :
    n' = { n with netRevs := n.netRevs ++ [r] } ∧
    ∃ p pk, r.proof = some p ∧ prefixOf r.subject = r.issuer ∧ prefixOf p.vm = r.issuer ∧
      K.resolveKey p.vm r.date = some pk ∧ K.sigOK pk r p.sig = true := by
  unfold registerRevocation at h
  split at h
  · rename_i p hv
    split at h
    · cases h
    · rename_i h1
      split at h
      · cases h
      · rename_i h2
        split at h
        · cases h
        · rename_i pk hpk
          split at h
          · cases h
          · rename_i hs
            simp only [Res.ok.injEq] at h
            refine ⟨h.symm, p, pk, ?_, by simpa using h1, by simpa using h2, hpk, by simpa using hs⟩
            unfold validateRevocation at hv
            repeat (first | cases hv | split at hv)
            assumption
  · cases h
  · cases h

/-- base URL, managed lists, revocations and network revocations of each node only grow along a path -/
structure NMono (n n' : Node) : Prop where
  base : n'.base = n.base
  managed : ∀ u, n.isManaged u = true → n'.isManaged u = true
  revs : ∀ u j, j ∈ n.revsOf u → j ∈ n'.revsOf u
  net : ∀ r, r ∈ n.netRevs → r ∈ n'.netRevs

theorem NMono.refl (n : Node) : NMono n n := ⟨rfl, fun _ h => h, fun _ _ h => h, fun _ h => h⟩
theorem NMono.trans {a b c : Node} (h1 : NMono a b) (h2 : NMono b c) : NMono a c :=
  ⟨h2.base.trans h1.base, fun u h => h2.managed u (h1.managed u h), fun u j h => h2.revs u j (h1.revs u j h),
   fun r h => h2.net r (h1.net r h)⟩

theorem NMono.of_entryWrite (E : Env) (now : Nat) (n : Node) (issuer kid : String) (row : Option PageRow) :
    NMono n (entryWrite E now n issuer kid row).1 := by
  unfold entryWrite
  cases entryDecide E now n issuer kid row with
  | retry pin => exact NMono.refl n
  | fail e => exact NMono.refl n
  | update id last =>
    simp only [Node.applyOut]
    have hf : ∀ x : PageRow, (if x.id == id then { x with last := last } else x).id = x.id := by intro x; split <;> rfl
    exact ⟨rfl, fun u h => by rw [isManaged_map n _ hf]; exact h, fun _ _ h => h, fun _ h => h⟩
  | create nr rec =>
    simp only [Node.applyOut]
    refine ⟨rfl, ?_, fun _ _ h => h, fun _ h => h⟩
    intro u h
    obtain ⟨r, hr, e⟩ := isManaged_iff.mp h
    exact isManaged_iff.mpr ⟨r, List.mem_cons_of_mem _ hr, e⟩

theorem NMono.of_revoke {E : Env} {now : Nat} {n n' : Node} {credId : String} {e : StatusEntry}
    (h : revoke E now n credId e = .ok n') : NMono n n' := by
  obtain ⟨i, row, kid, vc, rec, _, _, _, _, _, _, _, rfl⟩ := revoke_ok h
  refine ⟨rfl, fun _ h => h, ?_, fun _ h => h⟩
  intro u j hj
  have : (Node.putCred { n with revs := n.revs ++ [{ list := e.list, idx := i, credId := credId }] } rec).revsOf u =
      ({ n with revs := n.revs ++ [{ list := e.list, idx := i, credId := credId }] } : Node).revsOf u := rfl
  rw [this, revsOf_append]
  split
  · exact List.mem_append_left _ hj
  · exact hj

theorem NMono.of_credential {E : Env} {now : Nat} {n n' : Node} {issuer : String} {page : Nat} {vc : VC}
    (h : credential E now n issuer page = .ok (vc, n')) : NMono n n' := by
  obtain ⟨row, _, h1 | h1⟩ := credential_ok h
  · obtain ⟨_, _, _, _, _, _, rfl⟩ := h1; exact NMono.refl _
  · obtain ⟨_, _, _, _, rfl⟩ := h1; exact ⟨rfl, fun _ h => h, fun _ _ h => h, fun _ h => h⟩

theorem NMono.of_update {E : Env} {now : Nat} {n n' : Node} {u : Url} {f : Fetch} {rec : CredRec}
    (h : update E now n u f = .ok (rec, n')) : NMono n n' := by
  obtain ⟨_, _, _, _, _, _, _, _, _, _, _, _, rfl⟩ := update_ok h
  exact ⟨rfl, fun _ h => h, fun _ _ h => h, fun _ h => h⟩

theorem NMono.of_register {K : KeyEnv} {n n' : Node} {r : Revocation} (h : registerRevocation K n r = .ok n') : NMono n n' := by
  obtain ⟨rfl, _⟩ := registerRevocation_ok h
  exact ⟨rfl, fun _ h => h, fun _ _ h => h, fun _ h => List.mem_append_left _ h⟩

theorem NInv.of_register {E : Env} {K : KeyEnv} {n n' : Node} {r : Revocation} (hn : NInv E n)
    (h : registerRevocation K n r = .ok n') : NInv E n' := by
  obtain ⟨rfl, _⟩ := registerRevocation_ok h
  exact { own := hn.own, le := hn.le, rng := hn.rng, fk := hn.fk, has := hn.has, crec := hn.crec, named := hn.named }

/-- a primitive transition changes at most one node, by one of the node-level transitions -/
theorem WPrim.nodes {E : Env} {K : KeyEnv} {w w' : World} (h : WPrim E K w w') (hw : WInv E w) :
    WInv E w' ∧ ∀ k, NMono (w.get k) (w'.get k) := by
  have key : ∀ (k : Bool) (n' : Node), NInv E n' → NMono (w.get k) n' → WInv E (w.set k n') ∧ ∀ k', NMono (w.get k') ((w.set k n').get k') := by
    intro k n' hn hm
    constructor
    · cases k
      · exact ⟨hn, hw.nb, by simp only [World.set, Bool.false_eq_true, if_false]; have := hm.base; simp only [World.get, Bool.false_eq_true, if_false] at this; rw [this]; exact hw.ne⟩
      · exact ⟨hw.na, hn, by simp only [World.set, if_true]; have := hm.base; simp only [World.get, if_true] at this; rw [this]; exact hw.ne⟩
    · intro k'
      rw [get_set]
      split
      · rename_i e; subst e; exact hm
      · exact NMono.refl _
  cases h with
  | entry k issuer kid row hk => exact key k _ ((hw.node k).of_entryWrite hk) (NMono.of_entryWrite ..)
  | revoke k credId e n' h => exact key k _ ((hw.node k).of_revoke h) (NMono.of_revoke h)
  | cred k issuer page vc n' h => exact key k _ ((hw.node k).of_credential h) (NMono.of_credential h)
  | update k u f rec n' hf hu h => exact key k _ ((hw.node k).of_update hu h) (NMono.of_update h)
  | register k r n' h => exact key k _ ((hw.node k).of_register h) (NMono.of_register h)
  | env hosts now log => exact ⟨⟨hw.na, hw.nb, hw.ne⟩, fun k => by cases k <;> exact NMono.refl _⟩

theorem WPath.nodes {E : Env} {K : KeyEnv} {w w' : World} (h : WPath E K w w') (hw : WInv E w) :
    WInv E w' ∧ ∀ k, NMono (w.get k) (w'.get k) := by
  induction h with
  | refl => exact ⟨hw, fun k => NMono.refl _⟩
  | step _ hp ih =>
    obtain ⟨h1, h2⟩ := ih
    obtain ⟨h3, h4⟩ := hp.nodes h1
    exact ⟨h3, fun k => (h2 k).trans (h4 k)⟩

set_option linter.unusedSimpArgs false

/-! ## operations as paths of primitive transitions -/

theorem set_get_self (w : World) (i : Bool) : w.set i (w.get i) = w := by cases i <;> rfl

theorem FetchOK.fail (w : World) (u : Url) : FetchOK w u .fail := by intro v hv; cases hv
theorem FetchOK.raw (w : World) (s : String) (f : Fetch) : FetchOK w (.raw s) f := by intro v _ k iss p h; cases h

theorem download_path {E : Env} {K : KeyEnv} (hE : EnvOK E) {w : World} (hw : WInv E w) (u : Url) :
    WPath E K w (download E w u).2 ∧ FetchOK (download E w u).2 u (download E w u).1 ∧ (download E w u).2.now = w.now := by
  have hlog : WPath E K w { w with log := w.log ++ [u] } := WPath.one (WPrim.env w w.hosts w.now (w.log ++ [u]))
  have hwl : WInv E { w with log := w.log ++ [u] } := ⟨hw.na, hw.nb, hw.ne⟩
  unfold download
  simp only
  cases u with
  | raw s =>
    simp only
    split
    · exact ⟨hlog, FetchOK.raw _ _ _, rfl⟩
    · exact ⟨hlog, FetchOK.raw _ _ _, rfl⟩
  | sl base issuer page =>
    simp only
    split
    · exact ⟨hlog, FetchOK.fail _ _, rfl⟩
    split
    · rename_i hba
      have hba' : base = w.a.base := by simpa using hba
      split
      · rename_i vc n hc
        have hp : WPrim E K { w with log := w.log ++ [Url.sl base issuer page] } ({ w with log := w.log ++ [Url.sl base issuer page] }.set false n) :=
          WPrim.cred _ false issuer page vc n hc
        refine ⟨.step hlog hp, ?_, rfl⟩
        unfold FetchOK
        intro v hv k iss p hu
        cases hv
        obtain ⟨_, _, hs, hpr, _⟩ := credential_served hE hw.na hc
        have hnb := (NMono.of_credential hc).base
        cases k
        · have : w.a.url issuer page = Url.sl base issuer page := by rw [hba']; rfl
          rw [this] at hs
          exact ⟨hs, hpr⟩
        · simp only [World.get, World.set, if_true, Bool.false_eq_true, if_false, Url.sl.injEq] at hu
          exact absurd (hba'.symm.trans hu.1) hw.ne
      · exact ⟨hlog, FetchOK.fail _ _, rfl⟩
    · rename_i hba
      split
      · rename_i hbb
        have hbb' : base = w.b.base := by simpa using hbb
        split
        · rename_i vc n hc
          have hp : WPrim E K { w with log := w.log ++ [Url.sl base issuer page] } ({ w with log := w.log ++ [Url.sl base issuer page] }.set true n) :=
            WPrim.cred _ true issuer page vc n hc
          refine ⟨.step hlog hp, ?_, rfl⟩
          unfold FetchOK
          intro v hv k iss p hu
          cases hv
          obtain ⟨_, _, hs, hpr, _⟩ := credential_served hE hw.nb hc
          have hnb := (NMono.of_credential hc).base
          cases k
          · simp only [World.get, World.set, if_true, Bool.false_eq_true, if_false, Url.sl.injEq] at hu
            exact absurd (hu.1.symm.trans hbb') hw.ne
          · have : w.b.url issuer page = Url.sl base issuer page := by rw [hbb']; rfl
            rw [this] at hs
            exact ⟨hs, hpr⟩
        · exact ⟨hlog, FetchOK.fail _ _, rfl⟩
      · exact ⟨hlog, FetchOK.fail _ _, rfl⟩


/-- the node effect of one loop iteration of the status check is nothing, or one `update` -/
theorem checkStatus_node {E : Env} {now : Nat} {n : Node} {st : StatusEntry} {f : Fetch} :
    (checkStatus E now n st f).2 = n ∨
    ∃ rec, update E now n st.list f = .ok (rec, (checkStatus E now n st f).2) ∧
      (n.cred? st.list = none ∨ n.isManaged st.list = false) := by
  unfold checkStatus
  split
  · rename_i rec n' hsl
    have hn' : ∀ (o : Option Verdict), ((o, n') : Option Verdict × Node).2 = n' := fun _ => rfl
    have : (n' = n) ∨ ∃ rec, update E now n st.list f = .ok (rec, n') ∧ (n.cred? st.list = none ∨ n.isManaged st.list = false) := by
      rcases statusList_ok hsl with ⟨h1, _⟩ | ⟨h1, h2, _⟩
      · exact Or.inl h1
      · exact Or.inr ⟨rec, h1, h2⟩
    split
    · exact this
    · split
      · exact this
      · split <;> exact this
  · exact Or.inl rfl
  · exact Or.inl rfl

theorem checkStatus_path {E : Env} {K : KeyEnv} {w : World} (i : Bool) (st : StatusEntry) (f : Fetch)
    (hf : FetchOK w st.list f) : WPath E K w (w.set i (checkStatus E w.now (w.get i) st f).2) := by
  rcases checkStatus_node (E := E) (now := w.now) (n := w.get i) (st := st) (f := f) with h | ⟨rec, h1, h2⟩
  · rw [h, set_get_self]; exact .refl _
  · exact WPath.one (WPrim.update w i st.list f rec _ hf h2 h1)

theorem verifyStatuses_path {E : Env} {K : KeyEnv} (hE : EnvOK E) (i : Bool) (sts : List StatusEntry) :
    ∀ {w : World}, WInv E w → WPath E K w (verifyStatuses E i w sts).2 := by
  induction sts with
  | nil => intro w _; exact .refl _
  | cons st rest ih =>
    intro w hw
    unfold verifyStatuses
    split
    · exact ih hw
    · -- the download (if any), then the check
      have hdl : ∃ f w1, (if needsFetch E w.now (w.get i) st.list = true then download E w st.list else (Fetch.fail, w)) = (f, w1) ∧
          WPath E K w w1 ∧ FetchOK w1 st.list f := by
        split
        · obtain ⟨h1, h2, _⟩ := download_path (K := K) hE hw st.list
          exact ⟨_, _, rfl, h1, h2⟩
        · exact ⟨_, _, rfl, .refl _, FetchOK.fail _ _⟩
      obtain ⟨f, w1, heq, hp1, hf⟩ := hdl
      simp only [heq]
      have hp2 : WPath E K w1 (w1.set i (checkStatus E w1.now (w1.get i) st f).2) := checkStatus_path i st f hf
      have hw2 : WInv E (w1.set i (checkStatus E w1.now (w1.get i) st f).2) := ((hp1.trans hp2).nodes hw).1
      split
      · exact hp1.trans hp2
      · exact (hp1.trans hp2).trans (ih hw2)

theorem verify_snd (E : Env) (i : Bool) (w : World) (c : Cred) :
    (verify E i w c).2 = w ∨ (verify E i w c).2 = (statusVerify E i w c).2 := by
  unfold verify
  by_cases h : (w.get i).credRevoked c = true
  · rw [if_pos h]; exact Or.inl rfl
  · rw [if_neg h]
    right
    generalize statusVerify E i w c = r
    obtain ⟨v, w'⟩ := r
    cases v <;> rfl

theorem step_path {E : Env} {K : KeyEnv} (hE : EnvOK E) {w : World} (hw : WInv E w) (a : Act) : WPath E K w (step E K w a) := by
  cases a with
  | entryTx i issuer row =>
    simp only [step]
    split
    · exact .refl _
    · rename_i kid hk; exact WPath.one (WPrim.entry w i issuer kid row hk)
  | revoke i credId e =>
    simp only [step]
    split
    · rename_i n h; exact WPath.one (WPrim.revoke w i credId e n h)
    · exact .refl _
  | serve i issuer page =>
    simp only [step]
    split
    · rename_i vc n h; exact WPath.one (WPrim.cred w i issuer page vc n h)
    · exact .refl _
  | verify i c =>
    simp only [step]
    have : WPath E K w (statusVerify E i w c).2 := by
      unfold statusVerify
      split
      · exact .refl _
      · exact verifyStatuses_path hE i _ hw
    rcases verify_snd E i w c with h | h
    · rw [h]; exact .refl _
    · rw [h]; exact this
  | register i r =>
    simp only [step]
    split
    · rename_i n h; exact WPath.one (WPrim.register w i r n h)
    · exact .refl _
  | host url f => exact WPath.one (WPrim.env w _ w.now w.log)
  | tick d => exact WPath.one (WPrim.env w w.hosts _ w.log)

theorem run_path {E : Env} {K : KeyEnv} (hE : EnvOK E) (acts : List Act) : ∀ {w : World}, WInv E w → WPath E K w (run E K w acts) := by
  induction acts with
  | nil => intro w _; exact .refl _
  | cons a rest ih =>
    intro w hw
    have h1 := step_path (K := K) hE hw a
    exact h1.trans (ih (h1.nodes hw).1)

/-! ## the verifier's cache of another node's list -/

/-- issuer-side operations only write records of the node's own status list URLs -/
theorem entryWrite_cred? {E : Env} {now : Nat} {n : Node} {issuer kid : String} {row : Option PageRow} {u : Url}
    (hu : ∀ iss p, u ≠ n.url iss p) : (entryWrite E now n issuer kid row).1.cred? u = n.cred? u := by
  unfold entryWrite
  cases hout : entryDecide E now n issuer kid row with
  | retry pin => rfl
  | fail e => rfl
  | update id last => rfl
  | create nr rec =>
    obtain ⟨hown, _, _, _, ⟨vc, hup⟩, _⟩ := entryDecide_create' hout
    obtain ⟨_, hrecid, _⟩ := updateCredential_inv hup
    simp only [Node.applyOut, Node.cred?, List.find?_cons]
    have : (rec.id == u) = false := by
      simp only [beq_eq_false_iff_ne, ne_eq]
      intro e
      exact hu nr.issuer nr.page (by rw [← e, hrecid, hown])
    rw [this]

theorem revoke_cred? {E : Env} {now : Nat} {n n' : Node} {credId : String} {e : StatusEntry} {u : Url} (hn : NInv E n)
    (h : revoke E now n credId e = .ok n') (hu : ∀ iss p, u ≠ n.url iss p) : n'.cred? u = n.cred? u := by
  obtain ⟨i, row, kid, vc, rec, _, _, hrow, _, _, _, hup, rfl⟩ := revoke_ok h
  obtain ⟨hrmem, _⟩ := page?_some hrow
  obtain ⟨_, hrecid, _⟩ := updateCredential_inv hup
  rw [cred?_putCred]
  have : ¬ (rec.id = u) := by
    intro e'
    exact hu row.issuer row.page (by rw [← e', hrecid]; exact hn.own row hrmem)
  simp only [this, if_false]
  rfl

theorem credential_cred? {E : Env} {now : Nat} {n n' : Node} {issuer : String} {page : Nat} {vc : VC} {u : Url}
    (h : credential E now n issuer page = .ok (vc, n')) (hu : ∀ iss p, u ≠ n.url iss p) : n'.cred? u = n.cred? u := by
  obtain ⟨row, hrow, h1 | h1⟩ := credential_ok h
  · obtain ⟨_, _, _, _, _, _, rfl⟩ := h1; rfl
  · obtain ⟨kid, rec, _, hup, rfl⟩ := h1
    obtain ⟨_, hrid⟩ := page?_some hrow
    obtain ⟨_, hrecid, _⟩ := updateCredential_inv hup
    rw [cred?_putCred]
    have : ¬ (rec.id = u) := by
      intro e'
      exact hu issuer page (by rw [← e', hrecid, hrid])
    simp only [this, if_false]

theorem other_base_ne {w : World} {E : Env} (hw : WInv E w) (i : Bool) : (w.get (!i)).base ≠ (w.get i).base := by
  cases i
  · exact fun e => hw.ne e.symm
  · exact hw.ne

/-- one primitive transition and node `i`'s record for a list of the other node: it stays, or it is replaced by a freshly
    served one (purpose revocation, bits = the other node's revocations now) -/
theorem cache_step {E : Env} {K : KeyEnv} {w w' : World} (hw : WInv E w) (hp : WPrim E K w w') (i : Bool) (iss : String) (p : Nat) :
    (∀ rec, (w.get i).cred? (.sl (w.get (!i)).base iss p) = some rec → ∃ rec', (w'.get i).cred? (.sl (w.get (!i)).base iss p) = some rec') ∧
    (∀ rec', (w'.get i).cred? (.sl (w.get (!i)).base iss p) = some rec' →
      (w.get i).cred? (.sl (w.get (!i)).base iss p) = some rec' ∨
      (rec'.purpose = "revocation" ∧ ∀ j, getB rec'.bits j = true ↔ j ∈ (w'.get (!i)).revsOf (.sl (w.get (!i)).base iss p))) := by
  have hne := other_base_ne hw i
  have hown : ∀ iss' p', Url.sl (w.get (!i)).base iss p ≠ (w.get i).url iss' p' := by
    intro iss' p' e
    simp only [Node.url, Url.sl.injEq] at e
    exact hne e.1
  -- a transition of node `i` that leaves this record alone, or any transition of the other node
  have same : ∀ (k : Bool) (n' : Node), (k = i → n'.cred? (.sl (w.get (!i)).base iss p) = (w.get i).cred? (.sl (w.get (!i)).base iss p)) →
      (∀ rec, (w.get i).cred? (.sl (w.get (!i)).base iss p) = some rec → ∃ rec', ((w.set k n').get i).cred? (.sl (w.get (!i)).base iss p) = some rec') ∧
      (∀ rec', ((w.set k n').get i).cred? (.sl (w.get (!i)).base iss p) = some rec' →
        (w.get i).cred? (.sl (w.get (!i)).base iss p) = some rec' ∨
        (rec'.purpose = "revocation" ∧ ∀ j, getB rec'.bits j = true ↔ j ∈ ((w.set k n').get (!i)).revsOf (.sl (w.get (!i)).base iss p))) := by
    intro k n' h
    rw [get_set]
    by_cases hk : i = k
    · subst hk
      simp only [if_true]
      rw [h rfl]
      exact ⟨fun rec hr => ⟨rec, hr⟩, fun rec' hr => Or.inl hr⟩
    · simp only [hk, if_false]
      exact ⟨fun rec hr => ⟨rec, hr⟩, fun rec' hr => Or.inl hr⟩
  cases hp with
  | entry k issuer kid row hk => exact same k _ (fun e => by subst e; exact entryWrite_cred? hown)
  | revoke k credId e n' h => exact same k _ (fun e' => by subst e'; exact revoke_cred? (hw.node k) h hown)
  | cred k issuer page vc n' h => exact same k _ (fun e' => by subst e'; exact credential_cred? h hown)
  | register k r n' h =>
    exact same k _ (fun e' => by subst e'; obtain ⟨rfl, _⟩ := registerRevocation_ok h; rfl)
  | env hosts now log =>
    have : ∀ k, ({ w with hosts := hosts, now := now, log := log } : World).get k = w.get k := by intro k; cases k <;> rfl
    rw [this, this]
    exact ⟨fun rec hr => ⟨rec, hr⟩, fun rec' hr => Or.inl hr⟩
  | update k u f rec n' hf hu h =>
    by_cases hk : k = i
    · subst hk
      by_cases hue : u = .sl (w.get (!k)).base iss p
      · subst hue
        obtain ⟨v, s, hfv, hsub, _, henc, _, hid, hpurp, _, _, _, rfl⟩ := update_ok h
        obtain ⟨⟨bits, hsub', hiff⟩, _⟩ := hf v hfv (!k) iss p rfl
        rw [hsub] at hsub'
        simp only [List.cons.injEq, and_true] at hsub'
        subst hsub'
        simp only [Enc.ok.injEq] at henc
        subst henc
        simp only [get_set_same, get_set_other]
        rw [cred?_putCred]
        simp only [hid, if_true]
        refine ⟨fun _ _ => ⟨_, rfl⟩, ?_⟩
        intro rec' hr
        simp only [Option.some.injEq] at hr
        subst hr
        exact Or.inr ⟨by simpa using hpurp, by simpa using hiff⟩
      · refine same k _ (fun _ => ?_)
        obtain ⟨_, _, _, _, _, _, _, hid, _, _, _, _, rfl⟩ := update_ok h
        rw [cred?_putCred]
        have : ¬ (rec.id = .sl (w.get (!k)).base iss p) := by rw [hid]; exact hue
        simp only [this, if_false]
    · exact same k _ (fun e => absurd e hk)

/-- what node `i` holds about lists of the other node is never more than the other node has revoked -/
def CacheSound (w : World) : Prop :=
  ∀ (i : Bool) iss p rec, (w.get i).cred? (.sl (w.get (!i)).base iss p) = some rec →
    ∀ j, getB rec.bits j = true → j ∈ (w.get (!i)).revsOf (.sl (w.get (!i)).base iss p)

/-- node `i` holds a record of list `<ob>/statuslist/<iss>/<p>` of the other node with purpose revocation and bit `j` set -/
def Pin (w : World) (i : Bool) (ob iss : String) (p j : Nat) : Prop :=
  (w.get (!i)).base = ob ∧ ∃ rec, (w.get i).cred? (.sl ob iss p) = some rec ∧ rec.purpose = "revocation" ∧ getB rec.bits j = true

theorem cache_prim {E : Env} {K : KeyEnv} {w w' : World} (hw : WInv E w) (hc : CacheSound w) (hp : WPrim E K w w') : CacheSound w' := by
  intro i iss p rec' hr j hj
  have hm := (hp.nodes hw).2 (!i)
  rw [hm.base] at hr ⊢
  rcases (cache_step hw hp i iss p).2 rec' hr with h | ⟨_, h⟩
  · exact hm.revs _ _ (hc i iss p rec' h j hj)
  · exact (h j).mp hj

theorem pin_prim {E : Env} {K : KeyEnv} {w w' : World} (hw : WInv E w) (hc : CacheSound w) (hp : WPrim E K w w')
    {i : Bool} {ob iss : String} {p j : Nat} (h : Pin w i ob iss p j) : Pin w' i ob iss p j := by
  obtain ⟨hb, rec, hr, hpu, hj⟩ := h
  have hm := (hp.nodes hw).2 (!i)
  refine ⟨hm.base.trans hb, ?_⟩
  subst hb
  obtain ⟨rec', hr'⟩ := (cache_step hw hp i iss p).1 rec hr
  refine ⟨rec', hr', ?_⟩
  rcases (cache_step hw hp i iss p).2 rec' hr' with h | ⟨h1, h2⟩
  · rw [hr] at h; cases h; exact ⟨hpu, hj⟩
  · exact ⟨h1, (h2 j).mpr (hm.revs _ _ (hc i iss p rec hr j hj))⟩

theorem cache_path {E : Env} {K : KeyEnv} {w w' : World} (hp : WPath E K w w') (hw : WInv E w) (hc : CacheSound w) : CacheSound w' := by
  induction hp with
  | refl => exact hc
  | step h1 h2 ih => exact cache_prim (h1.nodes hw).1 ih h2

theorem pin_path {E : Env} {K : KeyEnv} {w w' : World} (hp : WPath E K w w') (hw : WInv E w) (hc : CacheSound w)
    {i : Bool} {ob iss : String} {p j : Nat} (h : Pin w i ob iss p j) : Pin w' i ob iss p j := by
  induction hp with
  | refl => exact h
  | step h1 h2 ih => exact pin_prim (h1.nodes hw).1 (cache_path h1 hw hc) h2 ih

theorem getB_true {bits : Bits} {j : Nat} (h : getB bits j = true) : bits.bit (j : Int) = .ok true := by
  unfold getB at h
  split at h
  · rename_i b hb; rw [hb, h]
  · cases h

theorem statusList_some {E : Env} {now : Nat} {n : Node} {u : Url} {f : Fetch} {rec0 : CredRec} (h : n.cred? u = some rec0) :
    ∃ rec n', statusList E now n u f = .ok (rec, n') := by
  unfold statusList
  rw [h]
  simp only
  split
  · exact ⟨_, _, rfl⟩
  · split
    · split
      · rename_i r _; exact ⟨r.1, r.2, rfl⟩
      · exact ⟨_, _, rfl⟩
    · exact ⟨_, _, rfl⟩

/-- with the bit pinned, the status check of an entry naming that list and position answers revoked -/
theorem checkStatus_pinned {E : Env} {K : KeyEnv} {w : World} (hw : WInv E w) (hc : CacheSound w) {i : Bool} {ob iss : String} {p j : Nat}
    (hpin : Pin w i ob iss p j) (f : Fetch) (hf : FetchOK w (.sl ob iss p) f) (st : StatusEntry)
    (hst : st.list = .sl ob iss p) (hpu : st.purpose = "revocation") (hidx : st.idx = some (j : Int)) :
    (checkStatus E w.now (w.get i) st f).1 = some .revoked := by
  obtain ⟨hb, rec0, hr0, hp0, hj0⟩ := hpin
  obtain ⟨rec, n', hsl⟩ := statusList_some (E := E) (now := w.now) (f := f) hr0
  have good : rec.purpose = "revocation" ∧ getB rec.bits j = true := by
    rcases statusList_ok hsl with ⟨_, h2⟩ | ⟨h1, h2, _⟩
    · rw [hr0] at h2; cases h2; exact ⟨hp0, hj0⟩
    · have hprim : WPrim E K w (w.set i n') := WPrim.update w i _ f rec n' hf h2 h1
      obtain ⟨_, rec', hr', hp', hj'⟩ := pin_prim hw hc hprim ⟨hb, rec0, hr0, hp0, hj0⟩
      obtain ⟨_, _, _, _, _, _, _, hid, _, _, _, _, hn'⟩ := update_ok h1
      rw [get_set_same, hn', cred?_putCred] at hr'
      simp only [hid, if_true, Option.some.injEq] at hr'
      subst hr'
      exact ⟨by simpa using hp', by simpa using hj'⟩
  unfold checkStatus
  rw [hst, hsl]
  simp only [hpu, good.1, hidx, getB_true good.2]
  simp

/-- a credential whose first relevant status entry names the pinned list and position is answered revoked -/
theorem verifyStatuses_pinned {E : Env} {K : KeyEnv} (hE : EnvOK E) {i : Bool} {ob iss : String} {p j : Nat} (st : StatusEntry)
    (hst : st.list = .sl ob iss p) (hty : st.type = "StatusList2021Entry") (hpu : st.purpose = "revocation") (hidx : st.idx = some (j : Int))
    (post : List StatusEntry) :
    ∀ (pre : List StatusEntry), (∀ s, s ∈ pre → s.relevant = false) →
    ∀ {w : World}, WInv E w → CacheSound w → Pin w i ob iss p j → (verifyStatuses E i w (pre ++ st :: post)).1 = .revoked := by
  intro pre
  induction pre with
  | nil =>
    intro _ w hw hc hpin
    have hrel : st.relevant = true := by simp [StatusEntry.relevant, hty, hpu]
    simp only [List.nil_append, verifyStatuses, hrel, Bool.not_true, Bool.false_eq_true, if_false]
    have hdl : ∃ f w1, (if needsFetch E w.now (w.get i) st.list = true then download E w st.list else (Fetch.fail, w)) = (f, w1) ∧
        WPath E K w w1 ∧ FetchOK w1 st.list f := by
      split
      · obtain ⟨h1, h2, _⟩ := download_path (K := K) hE hw st.list
        exact ⟨_, _, rfl, h1, h2⟩
      · exact ⟨_, _, rfl, .refl _, FetchOK.fail _ _⟩
    obtain ⟨f, w1, heq, hp1, hf⟩ := hdl
    simp only [heq]
    have hw1 := (hp1.nodes hw).1
    have hc1 := cache_path hp1 hw hc
    have hpin1 := pin_path hp1 hw hc hpin
    have := checkStatus_pinned (K := K) hw1 hc1 hpin1 f (by rw [← hst]; exact hf) st hst hpu hidx
    generalize checkStatus E w1.now (w1.get i) st f = r at this
    obtain ⟨o, n'⟩ := r
    simp only at this
    subst this
    rfl
  | cons s rest ih =>
    intro hpre w hw hc hpin
    have hs : s.relevant = false := hpre s List.mem_cons_self
    simp only [List.cons_append, verifyStatuses, hs, Bool.not_false, if_true]
    exact ih (fun x hx => hpre x (List.mem_cons_of_mem _ hx)) hw hc hpin

/-- a successful refresh of the other node's list, made when position `j` is revoked there, pins the bit -/
theorem refresh_pins {E : Env} {w : World} {i : Bool} {iss : String} {p j : Nat} {f : Fetch} {rec : CredRec} {n' : Node}
    (hj : j ∈ (w.get (!i)).revsOf (.sl (w.get (!i)).base iss p)) (hf : FetchOK w (.sl (w.get (!i)).base iss p) f)
    (hup : update E w.now (w.get i) (.sl (w.get (!i)).base iss p) f = .ok (rec, n')) :
    Pin (w.set i n') i (w.get (!i)).base iss p j := by
  obtain ⟨v, s, hfv, hsub, _, henc, _, hid, hpurp, _, _, _, rfl⟩ := update_ok hup
  obtain ⟨⟨bits, hsub', hiff⟩, _⟩ := hf v hfv (!i) iss p rfl
  rw [hsub] at hsub'
  simp only [List.cons.injEq, and_true] at hsub'
  subst hsub'
  simp only [Enc.ok.injEq] at henc
  subst henc
  refine ⟨by simp, (w.get i).stored rec, ?_, by simpa using hpurp, by simpa using (hiff j).mpr hj⟩
  rw [get_set_same, cred?_putCred]
  simp [hid]

/-- on the node that manages the list, a revoked position is answered revoked by the status check (no download) -/
theorem checkStatus_local {E : Env} (hE : EnvOK E) {n : Node} (hn : NInv E n) {u : Url} {j : Nat} (hj : j ∈ n.revsOf u)
    (now : Nat) (f : Fetch) (st : StatusEntry) (hst : st.list = u) (hpu : st.purpose = "revocation") (hidx : st.idx = some (j : Int)) :
    checkStatus E now n st f = (some .revoked, n) ∧ needsFetch E now n u = false := by
  obtain ⟨rv, hrv, hl, _⟩ := revsOf_mem.mp hj
  have hm : n.isManaged u = true := by rw [← hl]; exact hn.fk rv hrv
  obtain ⟨rec, hrec⟩ := hn.has u hm
  obtain ⟨_, _, _, hp, hiff⟩ := signed_served hE hn hm hrec
  have hsl : statusList E now n u f = .ok (rec, n) := by simp [statusList, hrec, hm]
  refine ⟨?_, by simp [needsFetch, hrec, hm]⟩
  unfold checkStatus
  rw [hst, hsl]
  simp only [hp, hpu, hidx, getB_true ((hiff j).mpr hj)]
  simp

theorem verifyStatuses_local {E : Env} (hE : EnvOK E) {i : Bool} {u : Url} {j : Nat} (st : StatusEntry)
    (hst : st.list = u) (hty : st.type = "StatusList2021Entry") (hpu : st.purpose = "revocation") (hidx : st.idx = some (j : Int))
    (post : List StatusEntry) :
    ∀ (pre : List StatusEntry), (∀ s, s ∈ pre → s.relevant = false) →
    ∀ {w : World}, WInv E w → j ∈ (w.get i).revsOf u → (verifyStatuses E i w (pre ++ st :: post)).1 = .revoked := by
  intro pre
  induction pre with
  | nil =>
    intro _ w hw hj
    have hrel : st.relevant = true := by simp [StatusEntry.relevant, hty, hpu]
    obtain ⟨h1, h2⟩ := checkStatus_local hE (hw.node i) hj w.now Fetch.fail st hst hpu hidx
    simp only [List.nil_append, verifyStatuses, hrel, Bool.not_true, Bool.false_eq_true, if_false, hst, h2, h1]
  | cons s rest ih =>
    intro hpre w hw hj
    have hs : s.relevant = false := hpre s List.mem_cons_self
    simp only [List.cons_append, verifyStatuses, hs, Bool.not_false, if_true]
    exact ih (fun x hx => hpre x (List.mem_cons_of_mem _ hx)) hw hj

theorem verify_of_status_revoked {E : Env} {i : Bool} {w : World} {c : Cred} (h : (statusVerify E i w c).1 = .revoked) :
    (verify E i w c).1 = .revoked := by
  unfold verify
  split
  · rfl
  · generalize statusVerify E i w c = r at h
    obtain ⟨v, w'⟩ := r
    simp only at h
    subst h
    rfl

/-- revoking a position that is already revoked answers errRevoked (and changes nothing) -/
theorem revoke_again {E : Env} {n : Node} (hn : NInv E n) {e : StatusEntry} {i : Nat} (hi : e.idx = some (i : Int))
    (hp : e.purpose = "revocation") (hmem : i ∈ n.revsOf e.list)
    (hkey : ∀ row, n.page? e.list = some row → ∃ kid, E.keyOf row.issuer = some kid) (now : Nat) (credId : String) :
    revoke E now n credId e = .err "revoked" := by
  obtain ⟨rv, hrv, hl, hx⟩ := revsOf_mem.mp hmem
  have hm : n.isManaged e.list = true := by rw [← hl]; exact hn.fk rv hrv
  unfold Node.isManaged at hm
  cases hrow : n.page? e.list with
  | none => rw [hrow] at hm; cases hm
  | some row =>
    obtain ⟨kid, hk⟩ := hkey row hrow
    have hany : (n.revs.any fun r => r.list == e.list && (r.idx : Int) == (i : Int)) = true := by
      rw [List.any_eq_true]
      exact ⟨rv, hrv, by simp [hl, hx]⟩
    simp [revoke, hi, hp, hrow, hk, hany]

/-- the issuer of a managed list is determined by its URL -/
theorem page_issuer {E : Env} {n n' : Node} (hn : NInv E n) (hn' : NInv E n') (_hb : n'.base = n.base) {u : Url} {row row' : PageRow}
    (h : n.page? u = some row) (h' : n'.page? u = some row') : row'.issuer = row.issuer := by
  obtain ⟨hm, hid⟩ := page?_some h
  obtain ⟨hm', hid'⟩ := page?_some h'
  have h1 := hn.own row hm
  have h2 := hn'.own row' hm'
  rw [hid] at h1
  rw [hid', h1] at h2
  simp only [Node.url, Url.sl.injEq] at h2
  exact h2.2.1.symm

/-! ## network revocations -/

/-- what `RegisterRevocation` demands of a stored revocation -/
def Accepted (K : KeyEnv) (r : Revocation) : Prop :=
  ∃ p pk, r.proof = some p ∧ prefixOf r.subject = r.issuer ∧ prefixOf p.vm = r.issuer ∧
    K.resolveKey p.vm r.date = some pk ∧ K.sigOK pk r p.sig = true

def NetOK (K : KeyEnv) (w : World) : Prop := ∀ k r, r ∈ (w.get k).netRevs → Accepted K r

theorem entryWrite_netRevs (E : Env) (now : Nat) (n : Node) (issuer kid : String) (row : Option PageRow) :
    (entryWrite E now n issuer kid row).1.netRevs = n.netRevs := by
  unfold entryWrite
  cases entryDecide E now n issuer kid row <;> rfl

theorem netok_prim {E : Env} {K : KeyEnv} {w w' : World} (h : NetOK K w) (hp : WPrim E K w w') : NetOK K w' := by
  have key : ∀ (k : Bool) (n' : Node), (∀ r, r ∈ n'.netRevs → r ∈ (w.get k).netRevs ∨ Accepted K r) → NetOK K (w.set k n') := by
    intro k n' hn k' r hr
    rw [get_set] at hr
    split at hr
    · rename_i e; subst e
      rcases hn r hr with h1 | h1
      · exact h k' r h1
      · exact h1
    · exact h k' r hr
  cases hp with
  | entry k issuer kid row hk => exact key k _ (fun r hr => Or.inl (by rw [entryWrite_netRevs] at hr; exact hr))
  | revoke k credId e n' hr =>
    obtain ⟨_, _, _, _, _, _, _, _, _, _, _, _, rfl⟩ := revoke_ok hr
    exact key k _ (fun r hr => Or.inl hr)
  | cred k issuer page vc n' hc =>
    obtain ⟨row, _, h1 | h1⟩ := credential_ok hc
    · obtain ⟨_, _, _, _, _, _, rfl⟩ := h1; exact key k _ (fun r hr => Or.inl hr)
    · obtain ⟨_, _, _, _, rfl⟩ := h1; exact key k _ (fun r hr => Or.inl hr)
  | update k u f rec n' hf hu hup =>
    obtain ⟨_, _, _, _, _, _, _, _, _, _, _, _, rfl⟩ := update_ok hup
    exact key k _ (fun r hr => Or.inl hr)
  | register k r n' hr =>
    obtain ⟨rfl, hacc⟩ := registerRevocation_ok hr
    refine key k _ (fun r' hr' => ?_)
    simp only [List.mem_append, List.mem_singleton] at hr'
    rcases hr' with h1 | rfl
    · exact Or.inl h1
    · exact Or.inr hacc
  | env hosts now log =>
    intro k r hr
    have : ({ w with hosts := hosts, now := now, log := log } : World).get k = w.get k := by cases k <;> rfl
    rw [this] at hr
    exact h k r hr

theorem netok_path {E : Env} {K : KeyEnv} {w w' : World} (hp : WPath E K w w') (h : NetOK K w) : NetOK K w' := by
  induction hp with
  | refl => exact h
  | step _ h2 ih => exact netok_prim ih h2

/-! ## which record a status entry is judged by -/

theorem checkStatus_snd_of_ok {E : Env} {now : Nat} {n n' : Node} {st : StatusEntry} {f : Fetch} {rec : CredRec}
    (hsl : statusList E now n st.list f = .ok (rec, n')) : (checkStatus E now n st f).2 = n' := by
  unfold checkStatus
  rw [hsl]
  simp only
  split
  · rfl
  · split
    · rfl
    · split <;> rfl

theorem checkStatus_revoked {E : Env} {now : Nat} {n : Node} {st : StatusEntry} {f : Fetch} (hn : NInv E n)
    (h : (checkStatus E now n st f).1 = some .revoked) :
    ∃ (j : Int) (rec : CredRec), st.idx = some j ∧ rec.bits.bit j = .ok true ∧ rec.id = st.list ∧ Named rec ∧
      rec.purpose = st.purpose ∧
      ∃ rec', (checkStatus E now n st f).2.cred? st.list = some rec' ∧ rec'.bits = rec.bits ∧ rec'.raw = rec.raw := by
  cases hsl : statusList E now n st.list f with
  | ok r =>
    obtain ⟨rec, n'⟩ := r
    rw [checkStatus_snd_of_ok hsl]
    unfold checkStatus at h
    rw [hsl] at h
    simp only at h
    have hrec : rec.id = st.list ∧ Named rec ∧ ∃ rec', n'.cred? st.list = some rec' ∧ rec'.bits = rec.bits ∧ rec'.raw = rec.raw := by
      rcases statusList_ok hsl with ⟨h1, h2⟩ | ⟨h1, _, _⟩
      · subst h1; exact ⟨(cred?_some h2).2, hn.named _ _ h2, rec, h2, rfl, rfl⟩
      · obtain ⟨v, s, _, hsub, hsid, henc, _, hid, _, hraw, _, _, hn'⟩ := update_ok h1
        refine ⟨hid, ⟨s, by rw [hraw]; exact hsub, by rw [hsid, hid], henc⟩, n.stored rec, ?_, by simp, by simp⟩
        rw [hn', cred?_putCred]; simp [hid]
    split at h
    · cases h
    · rename_i hpu
      split at h
      · cases h
      · rename_i j hj
        split at h
        · rename_i hb
          exact ⟨j, rec, hj, hb, hrec.1, hrec.2.1, by simpa using hpu, hrec.2.2⟩
        · cases h
        · cases h
        · cases h
  | err e => unfold checkStatus at h; rw [hsl] at h; cases h
  | panic s => unfold checkStatus at h; rw [hsl] at h; cases h


/-- a revoked verdict of the status check comes from a relevant status entry of the credential and from the record that
    is stored under, and names, the list of that entry -/
theorem verifyStatuses_revoked {E : Env} {K : KeyEnv} (hE : EnvOK E) (i : Bool) (sts : List StatusEntry) :
    ∀ {w : World}, WInv E w → (verifyStatuses E i w sts).1 = .revoked →
    ∃ st, st ∈ sts ∧ st.relevant = true ∧ ∃ (j : Int) (rec : CredRec), st.idx = some j ∧ rec.bits.bit j = .ok true ∧
      rec.id = st.list ∧ Named rec ∧ rec.purpose = st.purpose := by
  induction sts with
  | nil => intro w _ h; simp [verifyStatuses] at h
  | cons st rest ih =>
    intro w hw h
    unfold verifyStatuses at h
    by_cases hrel : st.relevant = true
    · simp only [hrel, Bool.not_true, Bool.false_eq_true, if_false] at h
      have hdl : ∃ f w1, (if needsFetch E w.now (w.get i) st.list = true then download E w st.list else (Fetch.fail, w)) = (f, w1) ∧
          WPath E K w w1 ∧ FetchOK w1 st.list f := by
        split
        · obtain ⟨h1, h2, _⟩ := download_path (K := K) hE hw st.list
          exact ⟨_, _, rfl, h1, h2⟩
        · exact ⟨_, _, rfl, .refl _, FetchOK.fail _ _⟩
      obtain ⟨f, w1, heq, hp1, hf⟩ := hdl
      simp only [heq] at h
      have hw1 := (hp1.nodes hw).1
      have hp2 : WPath E K w1 (w1.set i (checkStatus E w1.now (w1.get i) st f).2) := checkStatus_path i st f hf
      have hw2 := (hp2.nodes hw1).1
      cases ho : (checkStatus E w1.now (w1.get i) st f).1 with
      | some v =>
        have : (checkStatus E w1.now (w1.get i) st f) = (some v, (checkStatus E w1.now (w1.get i) st f).2) := by rw [← ho]
        rw [this] at h
        simp only at h
        subst h
        obtain ⟨j, rec, h1, h2, h3, h4, h5, _⟩ := checkStatus_revoked (hw1.node i) ho
        exact ⟨st, List.mem_cons_self, hrel, j, rec, h1, h2, h3, h4, h5⟩
      | none =>
        have : (checkStatus E w1.now (w1.get i) st f) = (none, (checkStatus E w1.now (w1.get i) st f).2) := by rw [← ho]
        rw [this] at h
        simp only at h
        obtain ⟨st', hm, rest'⟩ := ih hw2 h
        exact ⟨st', List.mem_cons_of_mem _ hm, rest'⟩
    · have hrel' : st.relevant = false := by simpa using hrel
      simp only [hrel', Bool.not_false, if_true] at h
      obtain ⟨st', hm, rest'⟩ := ih hw h
      exact ⟨st', List.mem_cons_of_mem _ hm, rest'⟩

/-- on the node that manages the list, a position that is NOT revoked lets the loop continue (no download, state unchanged) -/
theorem checkStatus_local_clear {E : Env} (hE : EnvOK E) {n : Node} (hn : NInv E n) {u : Url} {j : Nat} (hm : n.isManaged u = true)
    (hj : j ∉ n.revsOf u) (hle : j ≤ E.maxIndex)
    (now : Nat) (f : Fetch) (st : StatusEntry) (hst : st.list = u) (hpu : st.purpose = "revocation") (hidx : st.idx = some (j : Int)) :
    checkStatus E now n st f = (none, n) ∧ needsFetch E now n u = false := by
  obtain ⟨rec, hrec⟩ := hn.has u hm
  obtain ⟨hbits, _⟩ := hn.crec u rec hm hrec
  obtain ⟨_, _, _, hp, hiff⟩ := signed_served hE hn hm hrec
  obtain ⟨hlen, _⟩ := bits_exact hE (hn.revsOf_le u) hbits
  have hsl : statusList E now n u f = .ok (rec, n) := by simp [statusList, hrec, hm]
  have hgb : getB rec.bits j = false := by
    cases h : getB rec.bits j with
    | false => rfl
    | true => exact absurd ((hiff j).mp h) hj
  have hbit : rec.bits.bit (j : Int) = .ok false := by
    have hr : (0 : Int) ≤ (j : Int) ∧ (j : Int) < 8 * rec.bits.length := by
      have := hE.idx; rw [hlen]; omega
    unfold Bits.bit
    have h1 : ¬ ((j : Int) < 0) := by omega
    have h2 : ¬ ((j : Int).toNat / 8 ≥ rec.bits.length) := by simp; have := hE.idx; rw [hlen]; omega
    simp only [h1, h2, if_false]
    have h3 : (j : Int).toNat / 8 < rec.bits.length := by simp; have := hE.idx; rw [hlen]; omega
    rw [List.getElem?_eq_getElem h3]
    simp only
    unfold getB Bits.bit at hgb
    simp only [h1, h2, if_false, List.getElem?_eq_getElem h3] at hgb
    rw [hgb]
  refine ⟨?_, by simp [needsFetch, hrec, hm]⟩
  unfold checkStatus
  rw [hst, hsl]
  simp [hp, hpu, hidx, hbit]

/-- all relevant entries name lists managed by the verifying node, with positions inside the bitstring -/
def LocalEntries (E : Env) (n : Node) (sts : List StatusEntry) : Prop :=
  ∀ st, st ∈ sts → st.relevant = true → n.isManaged st.list = true ∧ ∃ j : Nat, st.idx = some (j : Int) ∧ j ≤ E.maxIndex

/-- `each entry by its own list` on the managing node: the verdict is revoked exactly when SOME relevant entry's position is
    revoked in the list THAT entry names; nothing is downloaded and nothing changes -/
theorem verifyStatuses_local_exact {E : Env} (hE : EnvOK E) (i : Bool) (sts : List StatusEntry) {w : World} (hw : WInv E w)
    (hl : LocalEntries E (w.get i) sts) :
    ((verifyStatuses E i w sts).1 = .revoked ↔
      ∃ st j, st ∈ sts ∧ st.relevant = true ∧ st.idx = some ((j : Nat) : Int) ∧ j ∈ (w.get i).revsOf st.list) ∧
    ((verifyStatuses E i w sts).1 = .revoked ∨ (verifyStatuses E i w sts).1 = .ok) := by
  induction sts with
  | nil => simp [verifyStatuses]
  | cons st rest ih =>
    have hl' : LocalEntries E (w.get i) rest := fun s hs hr => hl s (List.mem_cons_of_mem _ hs) hr
    obtain ⟨ih1, ih2⟩ := ih hl'
    unfold verifyStatuses
    by_cases hrel : st.relevant = true
    · obtain ⟨hm, j, hidx, hle⟩ := hl st List.mem_cons_self hrel
      have hpu : st.purpose = "revocation" := by
        simp only [StatusEntry.relevant, Bool.and_eq_true, beq_iff_eq] at hrel; exact hrel.2
      by_cases hj : j ∈ (w.get i).revsOf st.list
      · obtain ⟨h1, h2⟩ := checkStatus_local hE (hw.node i) hj w.now Fetch.fail st rfl hpu hidx
        simp only [hrel, Bool.not_true, Bool.false_eq_true, if_false, h2, h1]
        exact ⟨⟨fun _ => ⟨st, j, List.mem_cons_self, hrel, hidx, hj⟩, fun _ => trivial⟩, Or.inl trivial⟩
      · obtain ⟨h1, h2⟩ := checkStatus_local_clear hE (hw.node i) hm hj hle w.now Fetch.fail st rfl hpu hidx
        simp only [hrel, Bool.not_true, Bool.false_eq_true, if_false, h2, h1, set_get_self]
        refine ⟨?_, ih2⟩
        rw [ih1]
        constructor
        · rintro ⟨s, k, hs, h3, h4, h5⟩; exact ⟨s, k, List.mem_cons_of_mem _ hs, h3, h4, h5⟩
        · rintro ⟨s, k, hs, h3, h4, h5⟩
          rcases List.mem_cons.mp hs with rfl | hs
          · rw [hidx] at h4
            have : j = k := by simp only [Option.some.injEq] at h4; omega
            subst this
            exact absurd h5 hj
          · exact ⟨s, k, hs, h3, h4, h5⟩
    · have hrel' : st.relevant = false := by simpa using hrel
      simp only [hrel', Bool.not_false, if_true]
      refine ⟨?_, ih2⟩
      rw [ih1]
      constructor
      · rintro ⟨s, k, hs, h3, h4, h5⟩; exact ⟨s, k, List.mem_cons_of_mem _ hs, h3, h4, h5⟩
      · rintro ⟨s, k, hs, h3, h4, h5⟩
        rcases List.mem_cons.mp hs with rfl | hs
        · rw [hrel'] at h3; cases h3
        · exact ⟨s, k, hs, h3, h4, h5⟩

end Nuts.C11
