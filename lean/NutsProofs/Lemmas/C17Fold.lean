/-
  C17 — lemmas about the case-folding guard of JSON-LD documents (NutsModel/C17/Fold.lean). Core Lean only.
-/
import NutsModel.C17.Fold
namespace Nuts.C17.Fold

/-- no two names of the list fold to the same string, and none folds into `seen` -/
def FoldFree (fold : String → String) (seen : List String) (names : List String) : Prop :=
  (∀ n ∈ names, fold n ∉ seen) ∧ names.Pairwise (fun a b => fold a ≠ fold b)

mutual
  theorem ambVal_none (fold : String → String) : ∀ (v : JVal), ambVal fold v = none →
      ∀ ns ∈ objsVal v, FoldFree fold [] ns
    | .leaf, _ => by intro ns h; simp [objsVal] at h
    | .arr l, h => by
      simp only [ambVal] at h
      simpa [objsVal] using ambList_none fold l h
    | .obj m, h => by
      simp only [ambVal] at h
      have := ambMembers_none fold [] m h
      intro ns hns
      simp only [objsVal, List.mem_cons] at hns
      rcases hns with rfl | hns
      · exact this.1
      · exact this.2 ns hns
  theorem ambList_none (fold : String → String) : ∀ (l : JList), ambList fold l = none →
      ∀ ns ∈ objsList l, FoldFree fold [] ns
    | .nil, _ => by intro ns h; simp [objsList] at h
    | .cons v r, h => by
      simp only [ambList] at h
      split at h
      · cases h
      · next hv =>
        intro ns hns
        simp only [objsList, List.mem_append] at hns
        rcases hns with hns | hns
        · exact ambVal_none fold v hv ns hns
        · exact ambList_none fold r h ns hns
  theorem ambMembers_none (fold : String → String) : ∀ (seen : List String) (m : JMembers), ambMembers fold seen m = none →
      FoldFree fold seen (namesOf m) ∧ ∀ ns ∈ objsMembers m, FoldFree fold [] ns
    | _, .nil, _ => by
      refine ⟨⟨by simp [namesOf], by simp [namesOf]⟩, ?_⟩
      intro ns h; simp [objsMembers] at h
    | seen, .cons name v r, h => by
      simp only [ambMembers] at h
      split at h
      · cases h
      · next hseen =>
        split at h
        · cases h
        · next hv =>
          have ih := ambMembers_none fold (fold name :: seen) r h
          have hv' := ambVal_none fold v hv
          refine ⟨⟨?_, ?_⟩, ?_⟩
          · intro n hn
            simp only [namesOf, List.mem_cons] at hn
            rcases hn with rfl | hn
            · simpa using hseen
            · have := ih.1.1 n hn
              simp only [List.mem_cons, not_or] at this
              exact this.2
          · simp only [namesOf, List.pairwise_cons]
            refine ⟨?_, ih.1.2⟩
            intro b hb
            have := ih.1.1 b hb
            simp only [List.mem_cons, not_or] at this
            exact fun e => this.1 e.symm
          · intro ns hns
            simp only [objsMembers, List.mem_append] at hns
            rcases hns with hns | hns
            · exact hv' ns hns
            · exact ih.2 ns hns
end

end Nuts.C17.Fold
