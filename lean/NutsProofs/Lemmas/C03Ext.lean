/-
  C03 (deepening round) — lemmas about url.PathEscape / PathUnescape as modelled in NutsModel/C03/External.lean.
-/
import NutsModel.C03.External

namespace Nuts.C03
open Nuts

/-- bytes that would change what a request target addresses: `/`, `?`, `#`, NUL, `\` -/
def targetSafe (b : Nat) : Bool := b != SLASH && b != 63 && b != 35 && b != 0 && b != 92

theorem hexVal_hexUp : ∀ a, a < 16 → hexVal (hexUp a) = some a := by decide

theorem hexUp_safe : ∀ a, a < 16 → targetSafe (hexUp a) = true := by decide

theorem pathKeep_safe (c : Nat) (h : pathKeep c = true) : targetSafe c = true ∧ c ≠ PCT := by
  unfold pathKeep at h
  simp only [Bool.or_eq_true, Bool.and_eq_true, decide_eq_true_eq, beq_iff_eq] at h
  unfold targetSafe SLASH PCT
  refine ⟨?_, ?_⟩
  · simp only [Bool.and_eq_true, bne_iff_ne, ne_eq]
    omega
  · omega

theorem pathEscape_cons (c : Nat) (rest : Bytes) : pathEscape (c :: rest) = pathEscapeByte c ++ pathEscape rest := by
  simp [pathEscape, List.flatMap_cons]

theorem pathEscape_safe (s : Bytes) (hs : ∀ c ∈ s, c < 256) : ∀ b ∈ pathEscape s, targetSafe b = true := by
  induction s with
  | nil => intro b hb; simp [pathEscape] at hb
  | cons c rest ih =>
    intro b hb
    rw [pathEscape_cons] at hb
    rcases List.mem_append.mp hb with h1 | h2
    · unfold pathEscapeByte at h1
      have hc : c < 256 := hs c List.mem_cons_self
      split at h1
      · rename_i hk
        simp at h1; subst h1
        exact (pathKeep_safe _ hk).1
      · simp at h1
        rcases h1 with e | e | e
        · subst e; decide
        · subst e; exact hexUp_safe _ (by omega)
        · subst e; exact hexUp_safe _ (by omega)
    · exact ih (fun c hc => hs c (List.mem_cons_of_mem _ hc)) b h2

theorem pathUnescape_escape (s : Bytes) (hs : ∀ c ∈ s, c < 256) : pathUnescape (pathEscape s) = some s := by
  induction s with
  | nil => simp [pathEscape, pathUnescape]
  | cons c rest ih =>
    have ihr := ih (fun c hc => hs c (List.mem_cons_of_mem _ hc))
    have hc : c < 256 := hs c List.mem_cons_self
    rw [pathEscape_cons]
    unfold pathEscapeByte
    split
    · rename_i hk
      have hne := (pathKeep_safe _ hk).2
      simp only [List.singleton_append]
      unfold pathUnescape
      simp [hne, ihr]
    · simp only [List.cons_append, List.nil_append]
      unfold pathUnescape
      simp only [if_true]
      rw [hexVal_hexUp _ (by omega), hexVal_hexUp _ (by omega), ihr]
      simp only [Option.some.injEq, List.cons.injEq, and_true]
      omega

theorem pathEscape_lt (s : Bytes) (hs : ∀ c ∈ s, c < 256) : ∀ b ∈ pathEscape s, b < 256 := by
  induction s with
  | nil => intro b hb; simp [pathEscape] at hb
  | cons c rest ih =>
    intro b hb
    rw [pathEscape_cons] at hb
    have hc : c < 256 := hs c List.mem_cons_self
    rcases List.mem_append.mp hb with h1 | h2
    · unfold pathEscapeByte at h1
      split at h1
      · simp at h1; omega
      · simp at h1
        have h16 : ∀ a, a < 16 → hexUp a < 256 := by decide
        rcases h1 with e | e | e
        · subst e; decide
        · subst e; exact h16 _ (by omega)
        · subst e; exact h16 _ (by omega)
    · exact ih (fun c hc => hs c (List.mem_cons_of_mem _ hc)) b h2

theorem pathEscape_injective (a b : Bytes) (ha : ∀ c ∈ a, c < 256) (hb : ∀ c ∈ b, c < 256)
    (h : pathEscape a = pathEscape b) : a = b := by
  have h1 := pathUnescape_escape a ha
  rw [h, pathUnescape_escape b hb] at h1
  exact (Option.some.inj h1).symm

end Nuts.C03
