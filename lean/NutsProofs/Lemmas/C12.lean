/-
  C12 helper lemmas: no-panic chain for the matching side (fixed configuration).
-/
import NutsModel.C12.PE
namespace Nuts.C12
open Nuts

theorem filterTail_noPanic (re : Regex) (ty : String) (c p : Option String) (v : J)
    (h : ty = "string" → ∃ s, v = .str s) : (filterTail re ty c p v).isPanic = false := by
  unfold filterTail
  split
  · rfl
  · split
    · split
      · next hty =>
        have : ty = "string" := by simpa using hty
        obtain ⟨s, rfl⟩ := h this
        unfold patternTail
        simp only
        split <;> rfl
      · rfl
    · rfl

mutual
theorem matchCore_noPanic (cfg : Cfg) (hg : cfg.arrayGuard = true) (re : Regex) (ty : String) (c p : Option String) :
    ∀ v, (matchCore cfg re ty c p v).isPanic = false
  | .str s => by
    unfold matchCore; split
    · rfl
    · exact filterTail_noPanic _ _ _ _ _ (fun _ => ⟨s, rfl⟩)
  | .num s => by
    unfold matchCore; split
    · rfl
    · next h => exact filterTail_noPanic _ _ _ _ _ (fun h' => by simp [h'] at h)
  | .bool b => by
    unfold matchCore; split
    · rfl
    · next h => exact filterTail_noPanic _ _ _ _ _ (fun h' => by simp [h'] at h)
  | .null => by unfold matchCore; rfl
  | .obj _ => by unfold matchCore; rfl
  | .arr l => by
    unfold matchCore
    have ih := matchAny_noPanic cfg hg re ty c p l
    split
    · rfl
    · split
      · rfl
      · next h =>
        apply filterTail_noPanic
        intro h'
        simp [hg, h'] at h
    · rfl
    · next s heq => rw [heq] at ih; simp [Res.isPanic] at ih
theorem matchAny_noPanic (cfg : Cfg) (hg : cfg.arrayGuard = true) (re : Regex) (ty : String) (c p : Option String) :
    ∀ l, (matchAny cfg re ty c p l).isPanic = false
  | [] => by unfold matchAny; rfl
  | e :: es => by
    unfold matchAny
    have ih1 := matchCore_noPanic cfg hg re ty c p e
    have ih2 := matchAny_noPanic cfg hg re ty c p es
    split
    · rfl
    · exact ih2
    · rfl
    · next s heq => rw [heq] at ih1; simp [Res.isPanic] at ih1
end

theorem isPanic_false_of {α} {r : Res α} (h : r.isPanic = false) : ∀ s, r ≠ .panic s := by
  intro s hs; rw [hs] at h; simp [Res.isPanic] at h

theorem matchEnum_noPanic (cfg : Cfg) (hg : cfg.arrayGuard = true) (re : Regex) (v : J) :
    ∀ es, (matchEnum cfg re v es).isPanic = false
  | [] => by unfold matchEnum; rfl
  | e :: es => by
    unfold matchEnum
    have h1 := matchCore_noPanic cfg hg re "string" (some e) none v
    have ih := matchEnum_noPanic cfg hg re v es
    split
    · rfl
    · next s heq => rw [heq] at h1; simp [Res.isPanic] at h1
    · exact ih

theorem matchFilter_noPanic (cfg : Cfg) (hg : cfg.arrayGuard = true) (re : Regex) (f : Filter) (v : J) :
    (matchFilter cfg re f v).isPanic = false := by
  unfold matchFilter
  split
  · exact matchEnum_noPanic cfg hg re v _
  · exact matchCore_noPanic cfg hg re _ _ _ v

theorem matchFieldLoop_noPanic (cfg : Cfg) (hg : cfg.arrayGuard = true) (re : Regex) (f : Field) (tree : J) :
    ∀ ps inv, (matchFieldLoop cfg re f tree inv ps).isPanic = false
  | [], inv => by unfold matchFieldLoop; split <;> rfl
  | none :: _, inv => by unfold matchFieldLoop; rfl
  | some p :: ps, inv => by
    unfold matchFieldLoop
    split
    · exact matchFieldLoop_noPanic cfg hg re f tree ps inv
    · split
      · rfl
      · next flt _ =>
        have h1 := matchFilter_noPanic cfg hg re flt
        split
        · rfl
        · exact matchFieldLoop_noPanic cfg hg re f tree ps true
        · rfl
        · next s heq => have h2 := heq ▸ h1 _; simp [Res.isPanic] at h2

theorem matchField_noPanic (cfg : Cfg) (hg : cfg.arrayGuard = true) (re : Regex) (f : Field) (tree : J) :
    (matchField cfg re f tree).isPanic = false := matchFieldLoop_noPanic cfg hg re f tree _ _

theorem matchConstraintLoop_noPanic (cfg : Cfg) (hg : cfg.arrayGuard = true) (re : Regex) (tree : J) :
    ∀ fs vals, (matchConstraintLoop cfg re tree vals fs).isPanic = false
  | [], vals => by unfold matchConstraintLoop; rfl
  | f :: fs, vals => by
    unfold matchConstraintLoop
    have h1 := matchField_noPanic cfg hg re f tree
    split
    · rfl
    · exact matchConstraintLoop_noPanic cfg hg re tree fs _
    · rfl
    · next s heq => rw [heq] at h1; simp [Res.isPanic] at h1

theorem matchCredential_noPanic (cfg : Cfg) (hg : cfg.arrayGuard = true) (re : Regex) (d : Desc) (c : Cred) :
    (matchCredential cfg re d c).isPanic = false := by
  unfold matchCredential
  split
  · rfl
  · next fields _ =>
    have h1 := matchConstraintLoop_noPanic cfg hg re c.tree fields []
    unfold matchConstraint
    split
    · rfl
    · rfl
    · next s heq => rw [heq] at h1; simp [Res.isPanic] at h1

theorem firstMatch_noPanic (cfg : Cfg) (hg : cfg.arrayGuard = true) (re : Regex) (pd : PD) (d : Desc) :
    ∀ w, (firstMatch cfg re pd d w).isPanic = false
  | [] => by unfold firstMatch; rfl
  | c :: cs => by
    unfold firstMatch
    have h1 := matchCredential_noPanic cfg hg re d c
    have ih := firstMatch_noPanic cfg hg re pd d cs
    split
    · split
      · rfl
      · exact ih
    · exact ih
    · rfl
    · next s heq => rw [heq] at h1; simp [Res.isPanic] at h1

theorem matchConstraints_noPanic (cfg : Cfg) (hg : cfg.arrayGuard = true) (re : Regex) (pd : PD) (w : List Cred) :
    ∀ ds, (matchConstraints cfg re pd w ds).isPanic = false
  | [] => by unfold matchConstraints; rfl
  | d :: ds => by
    unfold matchConstraints
    have h1 := firstMatch_noPanic cfg hg re pd d w
    have ih := matchConstraints_noPanic cfg hg re pd w ds
    split
    · split
      · rfl
      · rfl
      · next s heq => rw [heq] at ih; simp [Res.isPanic] at ih
    · rfl
    · next s heq => rw [heq] at h1; simp [Res.isPanic] at h1

theorem apply_noPanic (cfg : Cfg) (hm : cfg.maxNilCheck = true) (l : List Member) (rule : String) (count min max : Option Nat) :
    (apply cfg l rule count min max).isPanic = false := by
  unfold apply
  split
  · split <;> rfl
  · split
    · split <;> rfl
    · split
      · rfl
      · split
        · rfl
        · unfold applyMax
          split
          · rfl
          · simp [hm, Res.isPanic]

mutual
theorem matchSR_noPanic (cfg : Cfg) (hm : cfg.maxNilCheck = true) (cands : List Cand) :
    ∀ s, (SR.matchSR cfg cands s).isPanic = false
  | .mk name rule count min max frm nested => by
    unfold SR.matchSR
    have ih := nestedMembers_noPanic cfg hm cands nested
    split
    · rfl
    · split
      · rfl
      · split
        · rfl
        · split
          · split
            · exact apply_noPanic cfg hm _ _ _ _ _
            · rfl
            · next s heq => rw [heq] at ih; simp [Res.isPanic] at ih
          · exact apply_noPanic cfg hm _ _ _ _ _
theorem nestedMembers_noPanic (cfg : Cfg) (hm : cfg.maxNilCheck = true) (cands : List Cand) :
    ∀ ss, (SR.nestedMembers cfg cands ss).isPanic = false
  | [] => by unfold SR.nestedMembers; rfl
  | s :: ss => by
    unfold SR.nestedMembers
    have h1 := matchSR_noPanic cfg hm cands s
    have ih := nestedMembers_noPanic cfg hm cands ss
    split
    · next p heq => rw [heq] at h1; simp [Res.isPanic] at h1
    · simp only
      split
      · rfl
      · rfl
      · next s heq => rw [heq] at ih; simp [Res.isPanic] at ih
end

theorem srSelect_noPanic (cfg : Cfg) (hm : cfg.maxNilCheck = true) (cands : List Cand) :
    ∀ ss, (srSelect cfg cands ss).isPanic = false
  | [] => by unfold srSelect; rfl
  | s :: ss => by
    unfold srSelect
    have h1 := matchSR_noPanic cfg hm cands s
    have ih := srSelect_noPanic cfg hm cands ss
    split
    · split
      · rfl
      · rfl
      · next s heq => rw [heq] at ih; simp [Res.isPanic] at ih
    · rfl
    · next s heq => rw [heq] at h1; simp [Res.isPanic] at h1

theorem pdMatch_noPanic (cfg : Cfg) (hg : cfg.arrayGuard = true) (hm : cfg.maxNilCheck = true) (re : Regex) (pd : PD) (w : List Cred) :
    (pdMatch cfg re pd w).isPanic = false := by
  have h1 := matchConstraints_noPanic cfg hg re pd w pd.descs
  unfold pdMatch
  split
  · unfold matchSubmissionRequirements
    split
    · simp only
      split
      · rfl
      · next cands _ _ =>
        have h2 := srSelect_noPanic cfg hm cands pd.srs
        split
        · rfl
        · rfl
        · next s heq => rw [heq] at h2; simp [Res.isPanic] at h2
    · rfl
    · next s heq => rw [heq] at h1; simp [Res.isPanic] at h1
  · unfold matchBasic
    split
    · split <;> rfl
    · rfl
    · next s heq => rw [heq] at h1; simp [Res.isPanic] at h1
/-! ### lengths of the mapping lists, Build / Validate / ResolveConstraintsFields never panic -/

theorem basicMappings_len : ∀ (cands : List Cand) (i : Nat), (basicMappings i cands).1.length = (basicMappings i cands).2.length
  | [], i => by simp [basicMappings]
  | (d, some c) :: rest, i => by simp [basicMappings, basicMappings_len rest (i + 1)]
  | (d, none) :: rest, i => by simp [basicMappings, basicMappings_len rest i]

theorem srMappings_len (cands : List Cand) : ∀ (us : List Cred) (i : Nat), (srMappings cands i us).length ≤ us.length
  | [], i => by simp [srMappings]
  | u :: us, i => by
    unfold srMappings
    split
    · simp only [List.length_cons]; have := srMappings_len cands us (i + 1); omega
    · simp only [List.length_cons]; have := srMappings_len cands us i; omega

theorem pdMatch_len {cfg : Cfg} {re : Regex} {pd : PD} {w : List Cred} {ms : List Mapping} {vcs : List Cred}
    (h : pdMatch cfg re pd w = .ok (ms, vcs)) : ms.length ≤ vcs.length := by
  unfold pdMatch at h
  split at h
  · unfold matchSubmissionRequirements at h
    split at h
    · simp only at h
      split at h
      · cases h
      · split at h
        · injection h with h; injection h with h1 h2; subst h1; subst h2; exact srMappings_len _ _ _
        · cases h
        · cases h
    · cases h
    · cases h
  · unfold matchBasic at h
    split at h
    · split at h
      · cases h
      · next cands _ _ =>
        injection h with h
        have := basicMappings_len cands 0
        rw [h] at this
        simp at this
        omega
    · cases h
    · cases h

theorem rewriteSingle_len (ms : List Mapping) : (rewriteSingle ms).length = ms.length := by
  unfold rewriteSingle; split <;> simp

theorem firstWallet_len {cfg : Cfg} {re : Regex} {pd : PD} : ∀ {ws : List (List Cred)} {ms : List Mapping} {vcs : List Cred},
    firstWallet cfg re pd ws = .ok (some (ms, vcs)) → ms.length ≤ vcs.length
  | [], _, _, h => by simp [firstWallet] at h
  | w :: ws, ms, vcs, h => by
    unfold firstWallet at h
    split at h
    · next r heq => injection h with h; injection h with h; subst h; exact pdMatch_len heq
    · exact firstWallet_len h
    · cases h

theorem firstWallet_noPanic (cfg : Cfg) (hg : cfg.arrayGuard = true) (hm : cfg.maxNilCheck = true) (re : Regex) (pd : PD) :
    ∀ ws, (firstWallet cfg re pd ws).isPanic = false
  | [] => by unfold firstWallet; rfl
  | w :: ws => by
    unfold firstWallet
    have h1 := pdMatch_noPanic cfg hg hm re pd w
    split
    · rfl
    · exact firstWallet_noPanic cfg hg hm re pd ws
    · next s heq => rw [heq] at h1; simp [Res.isPanic] at h1

theorem build_len {cfg : Cfg} {re : Regex} {pd : PD} {ws : List (List Cred)} {ms : List Mapping} {vcs : List Cred}
    (h : build cfg re pd ws = .ok (ms, vcs)) : ms.length ≤ vcs.length := by
  unfold build at h
  split at h
  · next ms' vcs' heq =>
    injection h with h; injection h with h1 h2; subst h1; subst h2
    rw [rewriteSingle_len]; exact firstWallet_len heq
  · split at h
    · cases h
    · split at h
      · cases h
      · injection h with h; injection h with h1 h2; subst h1; subst h2; simp
  · cases h
  · cases h

/-- `Build` can only panic on `b.holders[0]`, i.e. when no wallet was added -/
theorem build_noPanic (cfg : Cfg) (hg : cfg.arrayGuard = true) (hm : cfg.maxNilCheck = true) (re : Regex) (pd : PD)
    (ws : List (List Cred)) (hne : ws ≠ []) : (build cfg re pd ws).isPanic = false := by
  unfold build
  have h1 := firstWallet_noPanic cfg hg hm re pd ws
  split
  · rfl
  · split
    · rfl
    · split
      · next h => cases ws with
        | nil => exact absurd rfl hne
        | cons _ _ => simp at h
      · rfl
  · rfl
  · next s heq => rw [heq] at h1; simp [Res.isPanic] at h1

theorem resolveStep_noPanic (decode : Decoder) (lv : Level) (v : J) : (resolveStep decode lv v).isPanic = false := by
  unfold resolveStep
  split
  · rfl
  · split
    · rfl
    · simp only
      split <;> rfl

theorem resolveLevels_noPanic (decode : Decoder) : ∀ (rest : List Level) (lv : Level) (v : J), (resolveLevels decode rest lv v).isPanic = false
  | [], lv, v => by
    unfold resolveLevels
    have h1 := resolveStep_noPanic decode lv v
    split
    · split <;> rfl
    · rfl
    · next s heq => rw [heq] at h1; simp [Res.isPanic] at h1
  | nx :: rest, lv, v => by
    unfold resolveLevels
    have h1 := resolveStep_noPanic decode lv v
    split
    · exact resolveLevels_noPanic decode rest nx _
    · rfl
    · next s heq => rw [heq] at h1; simp [Res.isPanic] at h1

theorem resolve_noPanic (cfg : Cfg) (decode : Decoder) (env : J) : ∀ (ms : List Mapping) (acc : List (String × Cred)),
    (resolve cfg decode env acc ms).isPanic = false
  | [], acc => by unfold resolve; rfl
  | m :: ms, acc => by
    unfold resolve
    have h1 := resolveLevels_noPanic decode m.nested m.top env
    split
    · rfl
    · unfold resolveCredential
      split
      · exact resolve_noPanic cfg decode env ms _
      · rfl
      · next s heq => rw [heq] at h1; simp [Res.isPanic] at h1

theorem expectedMap_noPanic : ∀ (ms : List Mapping) (vcs : List Cred) (acc : List (String × Cred)), ms.length ≤ vcs.length →
    (expectedMap acc ms vcs).isPanic = false
  | [], _, acc, _ => by unfold expectedMap; rfl
  | _ :: _, [], _, h => by simp at h
  | m :: ms, c :: cs, acc, h => by
    unfold expectedMap
    exact expectedMap_noPanic ms cs _ (by simpa using h)

theorem validate_noPanic (cfg : Cfg) (hg : cfg.arrayGuard = true) (hm : cfg.maxNilCheck = true) (re : Regex) (decode : Decoder)
    (pd : PD) (env : Envelope) (sub : List Mapping) : (validate cfg re decode pd env sub).isPanic = false := by
  unfold validate
  have h1 := resolve_noPanic cfg decode env.asInterface sub []
  split
  · rfl
  · next s heq => rw [heq] at h1; simp [Res.isPanic] at h1
  · split
    · split <;> rfl
    · next hne =>
      split
      · rfl
      · have hne' : env.presentations ≠ [] := by intro h; simp [h] at hne
        have h2 := build_noPanic cfg hg hm re pd env.presentations hne'
        split
        · rfl
        · next s heq => rw [heq] at h2; simp [Res.isPanic] at h2
        · next ms vcs heq =>
          have h3 := expectedMap_noPanic ms vcs [] (build_len heq)
          split
          · rfl
          · next s heq2 => rw [heq2] at h3; simp [Res.isPanic] at h3
          · split
            · rfl
            · split <;> rfl

theorem resolveFields_noPanic (cfg : Cfg) (hg : cfg.arrayGuard = true) (re : Regex) (pd : PD) :
    ∀ (cm : List (String × Cred)) (acc : Values), (resolveFields cfg re pd acc cm).isPanic = false
  | [], acc => by unfold resolveFields; rfl
  | (id, c) :: rest, acc => by
    unfold resolveFields
    split
    · exact resolveFields_noPanic cfg hg re pd rest acc
    · split
      · exact resolveFields_noPanic cfg hg re pd rest acc
      · next fields _ =>
        have h1 := matchConstraintLoop_noPanic cfg hg re c.tree fields []
        unfold matchConstraint
        split
        · exact resolveFields_noPanic cfg hg re pd rest _
        · exact resolveFields_noPanic cfg hg re pd rest acc
        · rfl
        · next s heq => rw [heq] at h1; simp [Res.isPanic] at h1
/-! ### definitions with nil entries -/

theorem pdMatchRaw_noPanic (cfg : Cfg) (hg : cfg.arrayGuard = true) (hm : cfg.maxNilCheck = true) (hn : cfg.nilCheck = true)
    (re : Regex) (r : RawPD) (w : List Cred) : (pdMatchRaw cfg re r w).isPanic = false := by
  unfold pdMatchRaw
  split
  · exact pdMatch_noPanic cfg hg hm re _ w
  · simp [hn, Res.isPanic]

theorem credentialsRequiredRawGo_noPanic (cfg : Cfg) (hn : cfg.nilCheck = true) :
    ∀ ss, (credentialsRequiredRawGo cfg ss).isPanic = false
  | [] => by unfold credentialsRequiredRawGo; rfl
  | none :: ss => by
    unfold credentialsRequiredRawGo
    simp only [hn, if_true]
    exact credentialsRequiredRawGo_noPanic cfg hn ss
  | some s :: ss => by
    unfold credentialsRequiredRawGo
    have ih := credentialsRequiredRawGo_noPanic cfg hn ss
    split
    · rfl
    · split
      · split
        · rfl
        · exact ih
      · simp only [Bool.and_false, Bool.false_eq_true, if_false]
        exact ih

theorem credentialsRequiredRaw_noPanic (cfg : Cfg) (hn : cfg.nilCheck = true) (r : RawPD) :
    (credentialsRequiredRaw cfg r).isPanic = false := by
  unfold credentialsRequiredRaw
  have h := credentialsRequiredRawGo_noPanic cfg hn r.srs
  split
  · rfl
  · rfl
  · rfl
  · next s heq => rw [heq] at h; simp [Res.isPanic] at h

theorem firstWalletRaw_noPanic (cfg : Cfg) (hg : cfg.arrayGuard = true) (hm : cfg.maxNilCheck = true) (hn : cfg.nilCheck = true)
    (re : Regex) (r : RawPD) : ∀ ws, (firstWalletRaw cfg re r ws).isPanic = false
  | [] => by unfold firstWalletRaw; rfl
  | w :: ws => by
    unfold firstWalletRaw
    have h1 := pdMatchRaw_noPanic cfg hg hm hn re r w
    split
    · rfl
    · exact firstWalletRaw_noPanic cfg hg hm hn re r ws
    · next s heq => rw [heq] at h1; simp [Res.isPanic] at h1

theorem buildRaw_noPanic (cfg : Cfg) (hg : cfg.arrayGuard = true) (hm : cfg.maxNilCheck = true) (hn : cfg.nilCheck = true)
    (re : Regex) (r : RawPD) (ws : List (List Cred)) (hne : ws ≠ []) : (buildRaw cfg re r ws).isPanic = false := by
  unfold buildRaw
  have h1 := firstWalletRaw_noPanic cfg hg hm hn re r ws
  have h2 := credentialsRequiredRaw_noPanic cfg hn r
  split
  · rfl
  · split
    · rfl
    · split
      · next h => cases ws with
        | nil => exact absurd rfl hne
        | cons _ _ => simp at h
      · rfl
    · rfl
    · next s heq => rw [heq] at h2; simp [Res.isPanic] at h2
  · rfl
  · next s heq => rw [heq] at h1; simp [Res.isPanic] at h1

theorem resolveFieldsRaw_noPanic (cfg : Cfg) (hg : cfg.arrayGuard = true) (hn : cfg.nilCheck = true)
    (re : Regex) (r : RawPD) (cm : List (String × Cred)) : (resolveFieldsRaw cfg re r cm).isPanic = false := by
  unfold resolveFieldsRaw
  split
  · exact resolveFields_noPanic cfg hg re _ cm []
  · simp [hn, Res.isPanic]

/-! ### array envelopes keep positions, junk entries are errors -/

theorem parseArrayEnvelope_spec (parseVP : J → Option EntryVP) :
    ∀ (l : List J) (r : List EntryVP), parseArrayEnvelope parseVP l = .ok r → l.map parseVP = r.map some
  | [], r, h => by unfold parseArrayEnvelope at h; injection h with h; subst h; rfl
  | e :: es, r, h => by
    unfold parseArrayEnvelope at h
    split at h
    · cases h
    · next p hp =>
      split at h
      · next r' hr =>
        injection h with h; subst h
        simp [hp, parseArrayEnvelope_spec parseVP es r' hr]
      · cases h
      · cases h

theorem parseArrayEnvelope_junk (parseVP : J → Option EntryVP) :
    ∀ (l : List J) (e : J), e ∈ l → parseVP e = none → ∀ r, parseArrayEnvelope parseVP l ≠ .ok r
  | [], e, he, _, _ => by cases he
  | x :: xs, e, he, hn, r => by
    intro h
    have := parseArrayEnvelope_spec parseVP (x :: xs) r h
    have hmem : parseVP e ∈ (x :: xs).map parseVP := List.mem_map.2 ⟨e, he, rfl⟩
    rw [this, hn] at hmem
    obtain ⟨_, _, hc⟩ := List.mem_map.1 hmem
    cases hc

theorem parseArrayEnvelope_noPanic (parseVP : J → Option EntryVP) : ∀ l, (parseArrayEnvelope parseVP l).isPanic = false
  | [] => by unfold parseArrayEnvelope; rfl
  | e :: es => by
    unfold parseArrayEnvelope
    have ih := parseArrayEnvelope_noPanic parseVP es
    split
    · rfl
    · split
      · rfl
      · rfl
      · next s heq => rw [heq] at ih; simp [Res.isPanic] at ih

end Nuts.C12
