/-
  C12 helper lemmas: no-panic chain for the matching side (fixed configuration).
-/
import NutsModel.C12.PE
namespace Nuts.C12
open Nuts

theorem filterTail_noPanic (re : Regex) (ty : String) (c p : Option String) (v : J)
    (h : ty = "string" → ∃ s, v = .str s) : (filterTail re ty c p v).isPanic = false := by
  unfold filterTail
  split
  · rfl
  · split
    · split
      · next hty =>
        have : ty = "string" := by simpa using hty
        obtain ⟨s, rfl⟩ := h this
        unfold patternTail
        simp only
        split <;> rfl
      · rfl
    · rfl

mutual
theorem matchCore_noPanic (cfg : Cfg) (hg : cfg.arrayGuard = true) (re : Regex) (ty : String) (c p : Option String) :
    ∀ v, (matchCore cfg re ty c p v).isPanic = false
  | .str s => by
    unfold matchCore; split
    · rfl
    · exact filterTail_noPanic _ _ _ _ _ (fun _ => ⟨s, rfl⟩)
  | .num s => by
    unfold matchCore; split
    · rfl
    · next h => exact filterTail_noPanic _ _ _ _ _ (fun h' => by simp [h'] at h)
  | .bool b => by
    unfold matchCore; split
    · rfl
    · next h => exact filterTail_noPanic _ _ _ _ _ (fun h' => by simp [h'] at h)
  | .null => by unfold matchCore; rfl
  | .obj _ => by unfold matchCore; rfl
  | .arr l => by
    unfold matchCore
    have ih := matchAny_noPanic cfg hg re ty c p l
    split
    · rfl
    · split
      · rfl
      · next h =>
        apply filterTail_noPanic
        intro h'
        simp [hg, h'] at h
    · rfl
    · next s heq => rw [heq] at ih; simp [Res.isPanic] at ih
theorem matchAny_noPanic (cfg : Cfg) (hg : cfg.arrayGuard = true) (re : Regex) (ty : String) (c p : Option String) :
    ∀ l, (matchAny cfg re ty c p l).isPanic = false
  | [] => by unfold matchAny; rfl
  | e :: es => by
    unfold matchAny
    have ih1 := matchCore_noPanic cfg hg re ty c p e
    have ih2 := matchAny_noPanic cfg hg re ty c p es
    split
    · rfl
    · exact ih2
    · rfl
    · next s heq => rw [heq] at ih1; simp [Res.isPanic] at ih1
end

theorem isPanic_false_of {α} {r : Res α} (h : r.isPanic = false) : ∀ s, r ≠ .panic s := by
  intro s hs; rw [hs] at h; simp [Res.isPanic] at h

theorem matchEnum_noPanic (cfg : Cfg) (hg : cfg.arrayGuard = true) (re : Regex) (v : J) :
    ∀ es, (matchEnum cfg re v es).isPanic = false
  | [] => by unfold matchEnum; rfl
  | e :: es => by
    unfold matchEnum
    have h1 := matchCore_noPanic cfg hg re "string" (some e) none v
    have ih := matchEnum_noPanic cfg hg re v es
    split
    · rfl
    · next s heq => rw [heq] at h1; simp [Res.isPanic] at h1
    · exact ih

theorem matchFilter_noPanic (cfg : Cfg) (hg : cfg.arrayGuard = true) (re : Regex) (f : Filter) (v : J) :
    (matchFilter cfg re f v).isPanic = false := by
  unfold matchFilter
  split
  · exact matchEnum_noPanic cfg hg re v _
  · exact matchCore_noPanic cfg hg re _ _ _ v

theorem matchFieldLoop_noPanic (cfg : Cfg) (hg : cfg.arrayGuard = true) (re : Regex) (f : Field) (tree : J) :
    ∀ ps inv, (matchFieldLoop cfg re f tree inv ps).isPanic = false
  | [], inv => by unfold matchFieldLoop; split <;> rfl
  | none :: _, inv => by unfold matchFieldLoop; rfl
  | some p :: ps, inv => by
    unfold matchFieldLoop
    split
    · exact matchFieldLoop_noPanic cfg hg re f tree ps inv
    · split
      · rfl
      · next flt _ =>
        have h1 := matchFilter_noPanic cfg hg re flt
        split
        · rfl
        · exact matchFieldLoop_noPanic cfg hg re f tree ps true
        · rfl
        · next s heq => have h2 := heq ▸ h1 _; simp [Res.isPanic] at h2

theorem matchField_noPanic (cfg : Cfg) (hg : cfg.arrayGuard = true) (re : Regex) (f : Field) (tree : J) :
    (matchField cfg re f tree).isPanic = false := matchFieldLoop_noPanic cfg hg re f tree _ _

theorem matchConstraintLoop_noPanic (cfg : Cfg) (hg : cfg.arrayGuard = true) (re : Regex) (tree : J) :
    ∀ fs vals, (matchConstraintLoop cfg re tree vals fs).isPanic = false
  | [], vals => by unfold matchConstraintLoop; rfl
  | f :: fs, vals => by
    unfold matchConstraintLoop
    have h1 := matchField_noPanic cfg hg re f tree
    split
    · rfl
    · exact matchConstraintLoop_noPanic cfg hg re tree fs _
    · rfl
    · next s heq => rw [heq] at h1; simp [Res.isPanic] at h1

theorem matchCredential_noPanic (cfg : Cfg) (hg : cfg.arrayGuard = true) (re : Regex) (d : Desc) (c : Cred) :
    (matchCredential cfg re d c).isPanic = false := by
  unfold matchCredential
  split
  · rfl
  · next fields _ =>
    have h1 := matchConstraintLoop_noPanic cfg hg re c.tree fields []
    unfold matchConstraint
    split
    · rfl
    · rfl
    · next s heq => rw [heq] at h1; simp [Res.isPanic] at h1

theorem firstMatch_noPanic (cfg : Cfg) (hg : cfg.arrayGuard = true) (re : Regex) (pd : PD) (d : Desc) :
    ∀ w, (firstMatch cfg re pd d w).isPanic = false
  | [] => by unfold firstMatch; rfl
  | c :: cs => by
    unfold firstMatch
    have h1 := matchCredential_noPanic cfg hg re d c
    have ih := firstMatch_noPanic cfg hg re pd d cs
    split
    · split
      · rfl
      · exact ih
    · exact ih
    · rfl
    · next s heq => rw [heq] at h1; simp [Res.isPanic] at h1

theorem matchConstraints_noPanic (cfg : Cfg) (hg : cfg.arrayGuard = true) (re : Regex) (pd : PD) (w : List Cred) :
    ∀ ds, (matchConstraints cfg re pd w ds).isPanic = false
  | [] => by unfold matchConstraints; rfl
  | d :: ds => by
    unfold matchConstraints
    have h1 := firstMatch_noPanic cfg hg re pd d w
    have ih := matchConstraints_noPanic cfg hg re pd w ds
    split
    · split
      · rfl
      · rfl
      · next s heq => rw [heq] at ih; simp [Res.isPanic] at ih
    · rfl
    · next s heq => rw [heq] at h1; simp [Res.isPanic] at h1

theorem apply_noPanic (cfg : Cfg) (hm : cfg.maxNilCheck = true) (l : List Member) (rule : String) (count min max : Option Nat) :
    (apply cfg l rule count min max).isPanic = false := by
  unfold apply
  split
  · split <;> rfl
  · split
    · split <;> rfl
    · split
      · rfl
      · unfold applyMax
        split
        · rfl
        · simp [hm, Res.isPanic]

mutual
theorem matchSR_noPanic (cfg : Cfg) (hm : cfg.maxNilCheck = true) (cands : List Cand) :
    ∀ s, (SR.matchSR cfg cands s).isPanic = false
  | .mk name rule count min max frm nested => by
    unfold SR.matchSR
    have ih := nestedMembers_noPanic cfg hm cands nested
    split
    · rfl
    · split
      · rfl
      · split
        · rfl
        · split
          · split
            · exact apply_noPanic cfg hm _ _ _ _ _
            · rfl
            · next s heq => rw [heq] at ih; simp [Res.isPanic] at ih
          · exact apply_noPanic cfg hm _ _ _ _ _
theorem nestedMembers_noPanic (cfg : Cfg) (hm : cfg.maxNilCheck = true) (cands : List Cand) :
    ∀ ss, (SR.nestedMembers cfg cands ss).isPanic = false
  | [] => by unfold SR.nestedMembers; rfl
  | s :: ss => by
    unfold SR.nestedMembers
    have h1 := matchSR_noPanic cfg hm cands s
    have ih := nestedMembers_noPanic cfg hm cands ss
    split
    · next p heq => rw [heq] at h1; simp [Res.isPanic] at h1
    · simp only
      split
      · rfl
      · rfl
      · next s heq => rw [heq] at ih; simp [Res.isPanic] at ih
end

theorem srSelect_noPanic (cfg : Cfg) (hm : cfg.maxNilCheck = true) (cands : List Cand) :
    ∀ ss, (srSelect cfg cands ss).isPanic = false
  | [] => by unfold srSelect; rfl
  | s :: ss => by
    unfold srSelect
    have h1 := matchSR_noPanic cfg hm cands s
    have ih := srSelect_noPanic cfg hm cands ss
    split
    · split
      · rfl
      · rfl
      · next s heq => rw [heq] at ih; simp [Res.isPanic] at ih
    · rfl
    · next s heq => rw [heq] at h1; simp [Res.isPanic] at h1

theorem pdMatch_noPanic (cfg : Cfg) (hg : cfg.arrayGuard = true) (hm : cfg.maxNilCheck = true) (re : Regex) (pd : PD) (w : List Cred) :
    (pdMatch cfg re pd w).isPanic = false := by
  have h1 := matchConstraints_noPanic cfg hg re pd w pd.descs
  unfold pdMatch
  split
  · unfold matchSubmissionRequirements
    split
    · simp only
      split
      · rfl
      · next cands _ _ =>
        have h2 := srSelect_noPanic cfg hm cands pd.srs
        split
        · rfl
        · rfl
        · next s heq => rw [heq] at h2; simp [Res.isPanic] at h2
    · rfl
    · next s heq => rw [heq] at h1; simp [Res.isPanic] at h1
  · unfold matchBasic
    split
    · split <;> rfl
    · rfl
    · next s heq => rw [heq] at h1; simp [Res.isPanic] at h1
end Nuts.C12
