/-
  Helper lemmas for the composition C09 ∘ C10 (NutsModel/Compose/Did.lean).  Core Lean only (no Mathlib).
-/
import NutsModel.Compose.Did
import NutsProofs.Lemmas.C09
import NutsProofs.Lemmas.C10
import NutsProofs.Lemmas.C10Obs
import NutsProofs.Props.C09
namespace Nuts.Compose.Did
open Nuts Nuts.C10 Nuts.C09

theorem err_ne_ok (e : String) : "err:" ++ e ≠ "ok" := by
  intro h
  have := congrArg String.toList h
  simp at this
theorem panic_ne_ok (e : String) : "panic:" ++ e ≠ "ok" := by
  intro h
  have := congrArg String.toList h
  simp at this

theorem step_ok (c : C09.Cfg) (s s' : Store) (p : Delivery) (h : deliver c s p.1 p.2 = .ok s') :
    (step c s p.1 p.2).1 = s' ∧ (step c s p.1 p.2).2 = "ok" ∧
    ∃ d, p.2 = some d ∧ acceptedEvent c s p = some (eventOf p.1 d) ∧ add c.store s (eventOf p.1 d) = .ok s' := by
  obtain ⟨_, hcb⟩ := deliver_ok_inv c s s' p.1 p.2 h
  obtain ⟨d, hpd, hadd⟩ := callback_ok_add c s s' p.1 p.2 hcb
  refine ⟨by unfold step; rw [h], by unfold step; rw [h], d, hpd, ?_, hadd⟩
  unfold acceptedEvent
  rw [h, hpd]

theorem step_not_ok (c : C09.Cfg) (s : Store) (p : Delivery) (h : ∀ s', deliver c s p.1 p.2 ≠ .ok s') :
    (step c s p.1 p.2).1 = s ∧ (step c s p.1 p.2).2 ≠ "ok" ∧ acceptedEvent c s p = none := by
  unfold step acceptedEvent
  cases hd : deliver c s p.1 p.2 with
  | ok s' => exact absurd hd (h s')
  | err e => exact ⟨rfl, err_ne_ok e, by cases p.2 <;> rfl⟩
  | panic e => exact ⟨rfl, panic_ne_ok e, by cases p.2 <;> rfl⟩

/-- the seam, closed: the node's store after a history IS C10's `addAll` over the accepted events -/
theorem run_is_addAll (c : C09.Cfg) : ∀ (l : List Delivery) (s : Store),
    addAll c.store s (accepted c s l) = .ok (run c s l) := by
  intro l
  induction l with
  | nil => intro s; rfl
  | cons p ps ih =>
    intro s
    unfold accepted run
    by_cases h : ∃ s', deliver c s p.1 p.2 = .ok s'
    · obtain ⟨s', hs'⟩ := h
      obtain ⟨h1, _, d, _, hacc, hadd⟩ := step_ok c s s' p hs'
      rw [hacc, h1]
      simp only [Option.toList, List.cons_append, List.nil_append]
      unfold addAll
      rw [hadd]
      exact ih s'
    · have h' : ∀ s', deliver c s p.1 p.2 ≠ .ok s' := fun s' hs' => h ⟨s', hs'⟩
      obtain ⟨h1, _, hacc⟩ := step_not_ok c s p h'
      rw [hacc, h1]
      simp only [Option.toList, List.nil_append]
      exact ih s

theorem run_eq_runHist (c : C09.Cfg) : ∀ (l : List Delivery) (s : Store), run c s l = runHist c s l := by
  intro l
  induction l with
  | nil => intro s; rfl
  | cons p ps ih => intro s; unfold run runHist; exact ih _

theorem run_append (c : C09.Cfg) : ∀ (l₁ l₂ : List Delivery) (s : Store), run c s (l₁ ++ l₂) = run c (run c s l₁) l₂ := by
  intro l₁
  induction l₁ with
  | nil => intro l₂ s; rfl
  | cons p ps ih => intro l₂ s; simp only [List.cons_append, run]; exact ih _ _

theorem accepted_append (c : C09.Cfg) : ∀ (l₁ l₂ : List Delivery) (s : Store),
    accepted c s (l₁ ++ l₂) = accepted c s l₁ ++ accepted c (run c s l₁) l₂ := by
  intro l₁
  induction l₁ with
  | nil => intro l₂ s; rfl
  | cons p ps ih => intro l₂ s; simp only [List.cons_append, accepted, run, ih, List.append_assoc]

/-- membership in the accepted list: a delivery of the history that C09's `deliver` accepted in the state reached -/
theorem mem_accepted (c : C09.Cfg) : ∀ (l : List Delivery) (s : Store) (e : Event),
    e ∈ accepted c s l ↔
    ∃ pre tx d post s', l = pre ++ (tx, some d) :: post ∧ e = eventOf tx d ∧
      deliver c (run c s pre) tx (some d) = .ok s' := by
  intro l
  induction l with
  | nil => intro s e; simp [accepted]
  | cons p ps ih =>
    intro s e
    unfold accepted
    rw [List.mem_append, ih]
    constructor
    · rintro (h | ⟨pre, tx, d, post, s', hl, he, hok⟩)
      · obtain ⟨tx, pd⟩ := p
        unfold acceptedEvent at h
        cases pd with
        | none => simp at h
        | some d =>
          cases hd : deliver c s tx (some d) with
          | ok s' =>
            simp only [hd] at h
            simp at h
            exact ⟨[], tx, d, ps, s', rfl, h, hd⟩
          | err x => simp [hd] at h
          | panic x => simp [hd] at h
      · exact ⟨p :: pre, tx, d, post, s', by rw [hl]; rfl, he, by simpa [run] using hok⟩
    · rintro ⟨pre, tx, d, post, s', hl, he, hok⟩
      cases pre with
      | nil =>
        simp only [List.nil_append, List.cons.injEq] at hl
        obtain ⟨rfl, rfl⟩ := hl
        left
        unfold acceptedEvent
        simp only [run] at hok
        simp [hok, he]
      | cons q qs =>
        simp only [List.cons_append, List.cons.injEq] at hl
        obtain ⟨rfl, rfl⟩ := hl
        right
        exact ⟨qs, tx, d, post, s', rfl, he, by simpa [run] using hok⟩

theorem step_ok_inv (c : C09.Cfg) (s : Store) (tx : Tx) (pd : Option NDoc) (h : (step c s tx pd).2 = "ok") :
    ∃ s', deliver c s tx pd = .ok s' ∧ (step c s tx pd).1 = s' := by
  unfold step at h ⊢
  cases hd : deliver c s tx pd with
  | ok s' => exact ⟨s', rfl, rfl⟩
  | err e => rw [hd] at h; exact absurd h (err_ne_ok e)
  | panic e => rw [hd] at h; exact absurd h (panic_ne_ok e)

/-! ### the store only grows -/

theorem addDid_mono (cfg : C10.Cfg) (st st' : DidState) (e : Event) (h : addDid cfg st e = .ok (some st')) :
    e ∈ st'.events ∧ ∀ x, x ∈ st.events → x ∈ st'.events := by
  unfold addDid at h
  split at h
  · cases h
  · simp only at h
    split at h
    · cases h
    · cases h
    · split at h
      · cases h
      · simp only [Res.ok.injEq, Option.some.injEq] at h
        subst h
        simp only
        have hp := insert_perm e st.events
        exact ⟨hp.mem_iff.mpr List.mem_cons_self, fun x hx => hp.mem_iff.mpr (List.mem_cons_of_mem _ hx)⟩

theorem add_mono (cfg : C10.Cfg) (s s' : Store) (e : Event) (h : add cfg s e = .ok s') (id : String) (x : Event)
    (hx : x ∈ (s.get id).events) : x ∈ (s'.get id).events := by
  obtain ⟨hother, hown⟩ := add_get cfg s s' e h
  by_cases hid : id = e.doc.id
  · subst hid
    rcases hown with ⟨_, rfl⟩ | hsome
    · exact hx
    · exact (addDid_mono cfg _ _ e hsome).2 x hx
  · rw [hother id hid]; exact hx

theorem step_mono (c : C09.Cfg) (s : Store) (p : Delivery) (id : String) (x : Event)
    (hx : x ∈ (s.get id).events) : x ∈ ((step c s p.1 p.2).1.get id).events := by
  by_cases h : ∃ s', deliver c s p.1 p.2 = .ok s'
  · obtain ⟨s', hs'⟩ := h
    obtain ⟨h1, _, d, _, _, hadd⟩ := step_ok c s s' p hs'
    rw [h1]
    exact add_mono c.store s s' _ hadd id x hx
  · rw [(step_not_ok c s p (fun s' hs' => h ⟨s', hs'⟩)).1]; exact hx

theorem run_mono (c : C09.Cfg) : ∀ (l : List Delivery) (s : Store) (id : String) (x : Event),
    x ∈ (s.get id).events → x ∈ ((run c s l).get id).events := by
  intro l
  induction l with
  | nil => intro s id x hx; exact hx
  | cons p ps ih => intro s id x hx; exact ih _ id x (step_mono c s p id x hx)

/-! ### every reachable store satisfies C10's invariants -/

theorem run_storeInv (c : C09.Cfg) (l : List Delivery) : StoreInv c.store (run c {} l) :=
  addAll_storeInv c.store _ {} _ (storeInv_empty c.store) (run_is_addAll c l {})

theorem run_inv (c : C09.Cfg) (l : List Delivery) (id : String) : Inv c.store ((run c {} l).get id) :=
  get_inv c.store _ (run_storeInv c l) id

/-- a DID for which `Resolve` answers anything has events -/
theorem resolve_ok_events_ne (cfg : C10.Cfg) (s : Store) (id : String) (hinv : Inv cfg (s.get id))
    (rm : Option ResolveMeta) (p : Doc × Meta) (h : resolve s id rm = .ok p) : (s.get id).events ≠ [] := by
  intro hnil
  have hlen := applyAll_length hinv.chain
  rw [hnil] at hlen
  have : (s.get id).chain = [] := List.eq_nil_of_length_eq_zero hlen
  unfold resolve at h
  rw [this] at h
  simp [resolveChain] at h

theorem succeeds_events_ne (cfg : C10.Cfg) (s : Store) (id : String) (hinv : Inv cfg (s.get id))
    (prevs : List Nat) (cur : Doc) (h : Succeeds s id prevs cur) : (s.get id).events ≠ [] := by
  rcases h with ⟨p, _, m, hr⟩ | ⟨_, m, hr⟩
  · exact resolve_ok_events_ne cfg s id hinv _ _ hr
  · exact resolve_ok_events_ne cfg s id hinv _ _ hr

/-! ### source transactions of every stored version are stored events -/

theorem applyEvent_own_ref (cfg : C10.Cfg) (evs : List Event) (cur : Option Meta) (e : Event) (d : Doc) (m : Meta)
    (h : applyEvent cfg evs cur e = .ok (d, m)) : e.ref ∈ m.sourceTx := by
  unfold applyEvent applyDocument at h
  cases cur with
  | none =>
    simp at h
    obtain ⟨_, rfl⟩ := h
    simp
  | some c =>
    simp only at h
    split at h
    · simp at h
      obtain ⟨_, rfl⟩ := h
      simp
    · split at h
      · rename_i d' src hf
        have hs := foldl_step_srcs cfg evs _ _ _ _ _ hf
        simp at h
        obtain ⟨_, rfl⟩ := h
        simp only
        rw [hs]
        simp
      · cases h
      · cases h

theorem applyAll_all_src (cfg : C10.Cfg) (evs : List Event) (R : List Ref) :
    ∀ (es : List Event) (cur : Option Meta) (c : List (Doc × Meta)), SrcIn R cur → (∀ e ∈ es, e.ref ∈ R) →
      applyAll cfg evs cur es = .ok c → ∀ p ∈ c, p.2.sourceTx ≠ [] ∧ ∀ r ∈ p.2.sourceTx, r ∈ R := by
  intro es
  induction es with
  | nil => intro cur c _ _ h p hp; simp [applyAll] at h; subst h; cases hp
  | cons e es ih =>
    intro cur c hcur hes h p hp
    unfold applyAll at h
    split at h
    · rename_i d m he
      split at h
      · rename_i rest hr
        cases h
        have hm := applyEvent_src cfg evs R cur hcur e (hes e List.mem_cons_self) d m he
        rcases List.mem_cons.mp hp with rfl | hp
        · exact ⟨List.ne_nil_of_mem (applyEvent_own_ref cfg evs cur e d m he), fun r hr => hm m rfl r hr⟩
        · exact ih (some m) rest hm (fun x hx => hes x (List.mem_cons_of_mem _ hx)) hr p hp
      · cases h
      · cases h
    · cases h
    · cases h

/-- under C10's per-DID invariant every stored version has source transactions, and each is the ref of a stored event -/
theorem inv_chain_sources (cfg : C10.Cfg) (st : DidState) (hinv : Inv cfg st) (p : Doc × Meta) (hp : p ∈ st.chain) :
    p.2.sourceTx ≠ [] ∧ ∀ r ∈ p.2.sourceTx, ∃ e ∈ st.events, e.ref = r := by
  have := applyAll_all_src cfg st.events (refs st.events) st.events none st.chain
    (fun x hx => by cases hx) (fun e he => List.mem_map.mpr ⟨e, he, rfl⟩) hinv.chain p hp
  refine ⟨this.1, fun r hr => ?_⟩
  obtain ⟨e, he, her⟩ := List.mem_map.mp (this.2 r hr)
  exact ⟨e, he, her⟩

/-- whatever `Resolve` answers is a stored version -/
theorem resolve_ok_mem_chain (s : Store) (id : String) (rm : Option ResolveMeta) (p : Doc × Meta)
    (h : resolve s id rm = .ok p) : p ∈ (s.get id).chain := by
  unfold resolve at h
  obtain ⟨newer, older, hc, _, _⟩ := resolveChain_sound rm _ p h
  have : p ∈ (s.get id).chain.reverse := by rw [hc]; simp
  exact List.mem_reverse.mp this

/-! ### chain of custody -/

/-- the key that made the signature is listed for capabilityInvocation by a controller (`C09.ControllerFor`: the version
    itself, or a listed controller DID resolved for the transaction's prevs / signing time and active within the depth
    bound) of the stored version `v` -/
def KeyControls (c : C09.Cfg) (s : Store) (tx : Tx) (v : Doc) : Prop :=
  ∃ ctrl en, ControllerFor c s tx v ctrl ∧ en ∈ ctrl.f .capInv ∧ KeyInfo.ofBody en.body = .key tx.signer

/-- the authorisation under which `(tx, d)` enters the store `s`: a creation signed by the key the transaction embeds, from
    which the DID is derived; or an update whose signer controls the version it succeeds AND every other version of the DID
    that its prevs name -/
def Authorised (c : C09.Cfg) (s : Store) (tx : Tx) (d : NDoc) : Prop :=
  (tx.embedded = some tx.signer ∧ d.idID = c.didThumb tx.signer) ∨
  (tx.embedded = none ∧
    (∃ cur, Succeeds s d.id tx.prevs cur ∧ KeyControls c s tx cur) ∧
    ∃ others, otherNamed s d.id tx.prevs = .ok others ∧ ∀ v ∈ others,
      (∃ p ∈ tx.prevs, ∃ m, resolve s d.id (some { allowDeactivated := true, sourceTx := some p }) = .ok (v, m)) ∧
      KeyControls c s tx v)

theorem deliver_ok_authorised (c : C09.Cfg) (hinj : ∀ a b, c.thumb a = c.thumb b → a = b)
    (s s' : Store) (tx : Tx) (d : NDoc) (h : deliver c s tx (some d) = .ok s') : Authorised c s tx d := by
  obtain ⟨hv, hcb⟩ := deliver_ok_inv c s s' tx (some d) h
  cases he : tx.embedded with
  | some k =>
    left
    obtain ⟨d', hpd, _, hid, _, _⟩ := C09.Props.accepted_create_sound c s s' tx (some d) k hcb he
    cases hpd
    have hs := verifySig_embedded s tx k he hv
    subst hs
    exact ⟨he, hid⟩
  | none =>
    right
    refine ⟨he, ?_, ?_⟩
    · obtain ⟨d', cur, ctrl, e, hpd, hsucc, hctrl, hmem, hk⟩ :=
        C09.Props.accepted_update_signed_by_controller_key c s s' tx (some d) hinj h he
      cases hpd
      exact ⟨cur, hsucc, ctrl, e, hctrl, hmem, hk⟩
    · obtain ⟨d', k, others, hpd, hk, ho, hall⟩ :=
        C09.Props.accepted_update_authorised_under_every_named_version c s s' tx (some d) hcb he
      cases hpd
      have hs := verifySig_kid s tx he hv
      rw [resolvePublicKey_ok_store c.maxDepth s tx.kid tx.prevs k hk] at hs
      cases hs
      refine ⟨others, ho, fun v hv' => ?_⟩
      obtain ⟨hnamed, ctrl, e, k', hctrl, hmem, hk', ht⟩ := hall v hv'
      have := hinj _ _ ht
      subst this
      exact ⟨hnamed, ctrl, e, hctrl, hmem, hk'⟩

/-- `e` entered the store as an accepted delivery of the history `l`, authorised (`Authorised`) in the state the node had
    reached when it was delivered -/
def EnteredAuthorised (c : C09.Cfg) (l : List Delivery) (e : Event) : Prop :=
  ∃ pre tx d post s', l = pre ++ (tx, some d) :: post ∧ e = eventOf tx d ∧
    deliver c (run c {} pre) tx (some d) = .ok s' ∧ Authorised c (run c {} pre) tx d

/-- `e` entered the store as an accepted CREATION: signed by the key the transaction embeds, the DID being that key's
    thumbprint -/
def EnteredAsCreation (c : C09.Cfg) (l : List Delivery) (e : Event) : Prop :=
  ∃ pre tx d post s', l = pre ++ (tx, some d) :: post ∧ e = eventOf tx d ∧
    deliver c (run c {} pre) tx (some d) = .ok s' ∧ tx.embedded = some tx.signer ∧ d.idID = c.didThumb tx.signer

theorem enteredAsCreation_lift (c : C09.Cfg) (l l' : List Delivery) (e : Event) (h : EnteredAsCreation c l e) :
    EnteredAsCreation c (l ++ l') e := by
  obtain ⟨pre, tx, d, post, s', hl, he, hok, h1, h2⟩ := h
  exact ⟨pre, tx, d, post ++ l', s', by rw [hl]; simp, he, hok, h1, h2⟩

theorem stored_events_authorised (c : C09.Cfg) (hinj : ∀ a b, c.thumb a = c.thumb b → a = b)
    (l : List Delivery) (id : String) (e : Event) (h : e ∈ ((run c {} l).get id).events) :
    e.doc.id = id ∧ EnteredAuthorised c l e := by
  rw [run_eq_runHist] at h
  obtain ⟨pre, tx, d, post, hl, he, hid, hok⟩ := C09.Props.resolvable_only_if_accepted c l id e h
  rw [← run_eq_runHist] at hok
  obtain ⟨s', hs', _⟩ := step_ok_inv c _ tx (some d) hok
  exact ⟨by rw [he, ← hid]; rfl, pre, tx, d, post, s', hl, he, hs', deliver_ok_authorised c hinj _ s' tx d hs'⟩

/-- the invariant "every DID that has events has its creation among them" -/
def HasCreation (c : C09.Cfg) (l : List Delivery) : Prop :=
  ∀ id, ((run c {} l).get id).events ≠ [] → ∃ e ∈ ((run c {} l).get id).events, EnteredAsCreation c l e

theorem hasCreation_step (c : C09.Cfg) (l : List Delivery) (p : Delivery) (ih : HasCreation c l) :
    HasCreation c (l ++ [p]) := by
  intro id hne
  have hrun : run c {} (l ++ [p]) = (step c (run c {} l) p.1 p.2).1 := by rw [run_append]; rfl
  rw [hrun] at hne ⊢
  by_cases hs : ((run c {} l).get id).events = []
  · obtain ⟨x, hx⟩ := List.exists_mem_of_ne_nil _ hne
    rcases step_events c (run c {} l) p.1 p.2 id x hx with h0 | ⟨hok, d, hpd, he, hid⟩
    · rw [hs] at h0; cases h0
    · obtain ⟨s', hs', _⟩ := step_ok_inv c _ p.1 p.2 hok
      obtain ⟨hv, hcb⟩ := deliver_ok_inv c _ s' p.1 p.2 hs'
      cases hemb : p.1.embedded with
      | none =>
        obtain ⟨d', cur, _, _, _, _, hpd', _, hsucc, _⟩ := C09.Props.accepted_update_sound c _ s' p.1 p.2 hcb hemb
        rw [hpd] at hpd'
        cases hpd'
        rw [hid] at hsucc
        exact absurd hs (succeeds_events_ne c.store _ id (run_inv c l id) _ _ hsucc)
      | some k =>
        obtain ⟨d', hpd', _, hidk, _, _⟩ := C09.Props.accepted_create_sound c _ s' p.1 p.2 k hcb hemb
        rw [hpd] at hpd'
        cases hpd'
        have hk := verifySig_embedded _ p.1 k hemb hv
        subst hk
        refine ⟨x, hx, l, p.1, d, [], s', ?_, he, ?_, hemb, hidk⟩
        · obtain ⟨tx, pd⟩ := p
          simp only at hpd
          rw [hpd]
        · rw [← hpd]; exact hs'
  · obtain ⟨e0, he0, hc0⟩ := ih id hs
    exact ⟨e0, step_mono c _ p id e0 he0, enteredAsCreation_lift c l [p] e0 hc0⟩

theorem hasCreation_from (c : C09.Cfg) : ∀ (l l₀ : List Delivery), HasCreation c l₀ → HasCreation c (l₀ ++ l) := by
  intro l
  induction l with
  | nil => intro l₀ h; simpa using h
  | cons p ps ih =>
    intro l₀ h
    have := ih (l₀ ++ [p]) (hasCreation_step c l₀ p h)
    simpa using this

theorem hasCreation_all (c : C09.Cfg) (l : List Delivery) : HasCreation c l := by
  have := hasCreation_from c l [] (by intro id hne; simp [run, Store.get, alGet] at hne)
  simpa using this

/-- the stores a node can be in -/
inductive Reachable (c : C09.Cfg) : Store → Prop where
  | empty : Reachable c {}
  | step (s : Store) (tx : Tx) (pd : Option NDoc) : Reachable c s → Reachable c (step c s tx pd).1

theorem reachable_iff_run (c : C09.Cfg) (s : Store) : Reachable c s ↔ ∃ l, s = run c {} l := by
  constructor
  · intro h
    induction h with
    | empty => exact ⟨[], rfl⟩
    | step s tx pd _ ih =>
      obtain ⟨l, rfl⟩ := ih
      exact ⟨l ++ [(tx, pd)], by rw [run_append]; rfl⟩
  · rintro ⟨l, rfl⟩
    suffices ∀ (l : List Delivery) (s : Store), Reachable c s → Reachable c (run c s l) from this l {} .empty
    intro l
    induction l with
    | nil => intro s hs; exact hs
    | cons p ps ih => intro s hs; exact ih _ (.step s p.1 p.2 hs)

/-! ### stores with the same per-DID records are indistinguishable for deliveries -/

/-- two stores hold the same record for every DID (they may list the DIDs in different orders) -/
def Agree (s₁ s₂ : Store) : Prop := ∀ id, s₁.get id = s₂.get id

/-- the outcome of a delivery without the store -/
def outcome (r : Res Store) : Res Unit :=
  match r with | .ok _ => .ok () | .err e => .err e | .panic x => .panic x

section
variable {s₁ s₂ : Store} (h : Agree s₁ s₂)
include h

theorem resolve_agree : resolve s₁ = resolve s₂ := by
  funext id rm; unfold resolve; rw [h id]

theorem storeDoc_agree : storeDoc s₁ = storeDoc s₂ := by
  funext rm id; unfold storeDoc; rw [resolve_agree h]

theorem resolverResolve_agree (n : Nat) : resolverResolve n s₁ = resolverResolve n s₂ := by
  funext rm id; unfold resolverResolve; rw [storeDoc_agree h]

theorem resolveControllersTop_agree (n : Nat) : resolveControllersTop n s₁ = resolveControllersTop n s₂ := by
  funext rm doc; unfold resolveControllersTop; rw [resolverResolve_agree h]

theorem verifySig_agree : verifySig s₁ = verifySig s₂ := by
  funext tx; unfold verifySig resolvePublicKeyStore; rw [storeDoc_agree h]

theorem resolvePublicKey_agree (n : Nat) : resolvePublicKey n s₁ = resolvePublicKey n s₂ := by
  funext kid prevs; unfold resolvePublicKey; rw [resolverResolve_agree h]

theorem currentVersion_agree (id : String) (prevs : List Nat) : currentVersion s₁ id prevs = currentVersion s₂ id prevs := by
  induction prevs with
  | nil => simp only [currentVersion, resolve_agree h]
  | cons p ps ih => simp only [currentVersion, resolve_agree h, ih]

theorem namedVersions_agree (id : String) (prevs : List Nat) : namedVersions s₁ id prevs = namedVersions s₂ id prevs := by
  induction prevs with
  | nil => simp only [namedVersions]
  | cons p ps ih => simp only [namedVersions, resolve_agree h, ih]

theorem otherNamed_agree (id : String) (prevs : List Nat) : otherNamed s₁ id prevs = otherNamed s₂ id prevs := by
  unfold otherNamed; rw [namedVersions_agree h]

theorem ctrlsPerPrev_agree (c : C09.Cfg) (doc : Doc) (prevs : List Nat) :
    ctrlsPerPrev c s₁ doc prevs = ctrlsPerPrev c s₂ doc prevs := by
  induction prevs with
  | nil => simp only [ctrlsPerPrev]
  | cons p ps ih => simp only [ctrlsPerPrev, resolveControllersTop_agree h, ih]

theorem ambControllers_agree (c : C09.Cfg) (doc : Doc) (tx : Tx) : ambControllers c s₁ doc tx = ambControllers c s₂ doc tx := by
  unfold ambControllers; rw [ctrlsPerPrev_agree h, resolveControllersTop_agree h]

theorem authorisedBy_agree (c : C09.Cfg) (tx : Tx) (t : String) (v : Doc) :
    authorisedBy c s₁ tx t v = authorisedBy c s₂ tx t v := by
  unfold authorisedBy; rw [ambControllers_agree h]

theorem checkOthers_agree (c : C09.Cfg) (tx : Tx) (t : String) (vs : List Doc) :
    checkOthers c s₁ tx t vs = checkOthers c s₂ tx t vs := by
  induction vs with
  | nil => simp only [checkOthers]
  | cons v vs ih => simp only [checkOthers, authorisedBy_agree h, ih]

/-- C10's `add` on agreeing stores: same outcome, and the resulting stores agree again -/
theorem add_agree (cfg : C10.Cfg) (e : Event) :
    outcome (add cfg s₁ e) = outcome (add cfg s₂ e) ∧
    ∀ a b, add cfg s₁ e = .ok a → add cfg s₂ e = .ok b → Agree a b := by
  constructor
  · unfold add
    simp only
    rw [h e.doc.id]
    cases addDid cfg (s₂.get e.doc.id) e with
    | ok o => cases o <;> rfl
    | err x => rfl
    | panic x => rfl
  · intro a b ha hb id
    obtain ⟨ho₁, hs₁⟩ := add_get cfg s₁ a e ha
    obtain ⟨ho₂, hs₂⟩ := add_get cfg s₂ b e hb
    by_cases hid : id = e.doc.id
    · subst hid
      rw [h e.doc.id] at hs₁
      rcases hs₁ with ⟨hn₁, rfl⟩ | hsome₁ <;> rcases hs₂ with ⟨hn₂, rfl⟩ | hsome₂
      · exact h _
      · rw [hn₁] at hsome₂; cases hsome₂
      · rw [hn₂] at hsome₁; cases hsome₁
      · rw [hsome₁] at hsome₂
        simpa using hsome₂
    · rw [ho₁ id hid, ho₂ id hid]; exact h id

theorem storeAdd_agree (c : C09.Cfg) (tx : Tx) (d : NDoc) :
    outcome (storeAdd c s₁ tx d) = outcome (storeAdd c s₂ tx d) := by
  have := (add_agree h c.store (eventOf tx d)).1
  unfold storeAdd
  revert this
  cases add c.store s₁ (eventOf tx d) <;> cases add c.store s₂ (eventOf tx d) <;> simp [outcome]

theorem handleUpdate_agree (c : C09.Cfg) (tx : Tx) (d : NDoc) :
    outcome (handleUpdate c s₁ tx d) = outcome (handleUpdate c s₂ tx d) := by
  unfold handleUpdate
  rw [currentVersion_agree h, resolvePublicKey_agree h, otherNamed_agree h]
  split
  · rfl
  · rfl
  · rw [ambControllers_agree h]
    split
    · rfl
    · rfl
    · split
      · rfl
      · rfl
      · split
        · rfl
        · rfl
        · rfl
        · split
          · rfl
          · rfl
          · rw [checkOthers_agree h]
            split
            · rfl
            · rfl
            · rfl
            · exact storeAdd_agree h c tx d

theorem deliver_agree (c : C09.Cfg) (tx : Tx) (pd : Option NDoc) :
    outcome (deliver c s₁ tx pd) = outcome (deliver c s₂ tx pd) := by
  unfold deliver
  rw [verifySig_agree h]
  split
  · unfold callback
    split
    · rfl
    · rfl
    · split
      · rfl
      · split
        · rfl
        · rfl
        · split
          · exact handleUpdate_agree h c tx _
          · unfold handleCreate
            split
            · rfl
            · exact storeAdd_agree h c tx _
  · rfl
  · rfl
end

theorem outcome_ok_inv {r₁ r₂ : Res Store} (h : outcome r₁ = outcome r₂) :
    (∃ a b, r₁ = .ok a ∧ r₂ = .ok b) ∨ (∃ e, r₁ = .err e ∧ r₂ = .err e) ∨ (∃ x, r₁ = .panic x ∧ r₂ = .panic x) := by
  cases r₁ <;> cases r₂ <;> simp [outcome] at h
  · exact Or.inl ⟨_, _, rfl, rfl⟩
  · subst h; exact Or.inr (Or.inl ⟨_, rfl, rfl⟩)
  · subst h; exact Or.inr (Or.inr ⟨_, rfl, rfl⟩)

/-- **Agreement is a bisimulation for deliveries**: on stores holding the same per-DID records one delivery has the same
    outcome, contributes the same accepted event, and leads to stores that agree again -/
theorem step_agree (c : C09.Cfg) {s₁ s₂ : Store} (h : Agree s₁ s₂) (p : Delivery) :
    (step c s₁ p.1 p.2).2 = (step c s₂ p.1 p.2).2 ∧ acceptedEvent c s₁ p = acceptedEvent c s₂ p ∧
    Agree (step c s₁ p.1 p.2).1 (step c s₂ p.1 p.2).1 := by
  rcases outcome_ok_inv (deliver_agree h c p.1 p.2) with ⟨a, b, ha, hb⟩ | ⟨e, ha, hb⟩ | ⟨x, ha, hb⟩
  · obtain ⟨a1, a2, d, hpd, hacc, hadd⟩ := step_ok c s₁ a p ha
    obtain ⟨b1, b2, d', hpd', hacc', hadd'⟩ := step_ok c s₂ b p hb
    rw [hpd] at hpd'
    cases hpd'
    rw [a1, a2, b1, b2, hacc, hacc']
    exact ⟨rfl, rfl, (add_agree h c.store _).2 a b hadd hadd'⟩
  · unfold step acceptedEvent
    rw [ha, hb]
    exact ⟨rfl, by cases p.2 <;> rfl, h⟩
  · unfold step acceptedEvent
    rw [ha, hb]
    exact ⟨rfl, by cases p.2 <;> rfl, h⟩

theorem run_agree (c : C09.Cfg) : ∀ (l : List Delivery) (s₁ s₂ : Store), Agree s₁ s₂ →
    outcomes c s₁ l = outcomes c s₂ l ∧ accepted c s₁ l = accepted c s₂ l ∧ Agree (run c s₁ l) (run c s₂ l) := by
  intro l
  induction l with
  | nil => intro s₁ s₂ h; exact ⟨rfl, rfl, h⟩
  | cons p ps ih =>
    intro s₁ s₂ h
    obtain ⟨h1, h2, h3⟩ := step_agree c h p
    obtain ⟨i1, i2, i3⟩ := ih _ _ h3
    simp only [outcomes, accepted, run]
    exact ⟨by rw [h1, i1], by rw [h2, i2], i3⟩
end Nuts.Compose.Did
