/-
  Helper lemmas for the composition C09 ∘ C10 (NutsModel/Compose/Did.lean).  Core Lean only (no Mathlib).
-/
import NutsModel.Compose.Did
import NutsProofs.Lemmas.C09
import NutsProofs.Lemmas.C10
namespace Nuts.Compose.Did
open Nuts Nuts.C10 Nuts.C09

theorem err_ne_ok (e : String) : "err:" ++ e ≠ "ok" := by
  intro h
  have := congrArg String.toList h
  simp at this
theorem panic_ne_ok (e : String) : "panic:" ++ e ≠ "ok" := by
  intro h
  have := congrArg String.toList h
  simp at this

theorem step_ok (c : C09.Cfg) (s s' : Store) (p : Delivery) (h : deliver c s p.1 p.2 = .ok s') :
    (step c s p.1 p.2).1 = s' ∧ (step c s p.1 p.2).2 = "ok" ∧
    ∃ d, p.2 = some d ∧ acceptedEvent c s p = some (eventOf p.1 d) ∧ add c.store s (eventOf p.1 d) = .ok s' := by
  obtain ⟨_, hcb⟩ := deliver_ok_inv c s s' p.1 p.2 h
  obtain ⟨d, hpd, hadd⟩ := callback_ok_add c s s' p.1 p.2 hcb
  refine ⟨by unfold step; rw [h], by unfold step; rw [h], d, hpd, ?_, hadd⟩
  unfold acceptedEvent
  rw [h, hpd]

theorem step_not_ok (c : C09.Cfg) (s : Store) (p : Delivery) (h : ∀ s', deliver c s p.1 p.2 ≠ .ok s') :
    (step c s p.1 p.2).1 = s ∧ (step c s p.1 p.2).2 ≠ "ok" ∧ acceptedEvent c s p = none := by
  unfold step acceptedEvent
  cases hd : deliver c s p.1 p.2 with
  | ok s' => exact absurd hd (h s')
  | err e => exact ⟨rfl, err_ne_ok e, by cases p.2 <;> rfl⟩
  | panic e => exact ⟨rfl, panic_ne_ok e, by cases p.2 <;> rfl⟩

/-- the seam, closed: the node's store after a history IS C10's `addAll` over the accepted events -/
theorem run_is_addAll (c : C09.Cfg) : ∀ (l : List Delivery) (s : Store),
    addAll c.store s (accepted c s l) = .ok (run c s l) := by
  intro l
  induction l with
  | nil => intro s; rfl
  | cons p ps ih =>
    intro s
    unfold accepted run
    by_cases h : ∃ s', deliver c s p.1 p.2 = .ok s'
    · obtain ⟨s', hs'⟩ := h
      obtain ⟨h1, _, d, _, hacc, hadd⟩ := step_ok c s s' p hs'
      rw [hacc, h1]
      simp only [Option.toList, List.cons_append, List.nil_append]
      unfold addAll
      rw [hadd]
      exact ih s'
    · have h' : ∀ s', deliver c s p.1 p.2 ≠ .ok s' := fun s' hs' => h ⟨s', hs'⟩
      obtain ⟨h1, _, hacc⟩ := step_not_ok c s p h'
      rw [hacc, h1]
      simp only [Option.toList, List.nil_append]
      exact ih s

theorem run_eq_runHist (c : C09.Cfg) : ∀ (l : List Delivery) (s : Store), run c s l = runHist c s l := by
  intro l
  induction l with
  | nil => intro s; rfl
  | cons p ps ih => intro s; unfold run runHist; exact ih _

theorem run_append (c : C09.Cfg) : ∀ (l₁ l₂ : List Delivery) (s : Store), run c s (l₁ ++ l₂) = run c (run c s l₁) l₂ := by
  intro l₁
  induction l₁ with
  | nil => intro l₂ s; rfl
  | cons p ps ih => intro l₂ s; simp only [List.cons_append, run]; exact ih _ _

theorem accepted_append (c : C09.Cfg) : ∀ (l₁ l₂ : List Delivery) (s : Store),
    accepted c s (l₁ ++ l₂) = accepted c s l₁ ++ accepted c (run c s l₁) l₂ := by
  intro l₁
  induction l₁ with
  | nil => intro l₂ s; rfl
  | cons p ps ih => intro l₂ s; simp only [List.cons_append, accepted, run, ih, List.append_assoc]

/-- membership in the accepted list: a delivery of the history that C09's `deliver` accepted in the state reached -/
theorem mem_accepted (c : C09.Cfg) : ∀ (l : List Delivery) (s : Store) (e : Event),
    e ∈ accepted c s l ↔
    ∃ pre tx d post s', l = pre ++ (tx, some d) :: post ∧ e = eventOf tx d ∧
      deliver c (run c s pre) tx (some d) = .ok s' := by
  intro l
  induction l with
  | nil => intro s e; simp [accepted]
  | cons p ps ih =>
    intro s e
    unfold accepted
    rw [List.mem_append, ih]
    constructor
    · rintro (h | ⟨pre, tx, d, post, s', hl, he, hok⟩)
      · obtain ⟨tx, pd⟩ := p
        unfold acceptedEvent at h
        cases pd with
        | none => simp at h
        | some d =>
          cases hd : deliver c s tx (some d) with
          | ok s' =>
            simp only [hd] at h
            simp at h
            exact ⟨[], tx, d, ps, s', rfl, h, hd⟩
          | err x => simp [hd] at h
          | panic x => simp [hd] at h
      · exact ⟨p :: pre, tx, d, post, s', by rw [hl]; rfl, he, by simpa [run] using hok⟩
    · rintro ⟨pre, tx, d, post, s', hl, he, hok⟩
      cases pre with
      | nil =>
        simp only [List.nil_append, List.cons.injEq] at hl
        obtain ⟨rfl, rfl⟩ := hl
        left
        unfold acceptedEvent
        simp only [run] at hok
        simp [hok, he]
      | cons q qs =>
        simp only [List.cons_append, List.cons.injEq] at hl
        obtain ⟨rfl, rfl⟩ := hl
        right
        exact ⟨qs, tx, d, post, s', rfl, he, by simpa [run] using hok⟩
end Nuts.Compose.Did
