/-
  Helper lemmas for C06 (admission). Core Lean only.
-/
import NutsModel.C06.Admit

namespace Nuts.C06
open Nuts

/-! ### the `Res` monad -/

theorem bind_ok {α β} (r : Res α) (f : α → Res β) (b : β) :
    (r >>= f) = .ok b ↔ ∃ a, r = .ok a ∧ f a = .ok b := by
  cases r <;> simp [Bind.bind, Res.bind]

/-! ### presence -/

theorem findTx_some_ref {l : List Tx} {r : Nat} {t : Tx} (h : findTx l r = some t) : t.ref = r ∧ t ∈ l := by
  unfold findTx at h
  have h1 := List.find?_some h
  have h2 := List.mem_of_find?_eq_some h
  exact ⟨by simpa using h1, h2⟩

theorem findTx_none_iff {l : List Tx} {r : Nat} : findTx l r = none ↔ r ∉ refsOf l := by
  unfold findTx refsOf
  simp [List.find?_eq_none]

theorem findTx_isSome_iff {l : List Tx} {r : Nat} : (findTx l r).isSome = true ↔ r ∈ refsOf l := by
  cases h : findTx l r with
  | none => simp; exact findTx_none_iff.mp h
  | some t =>
    simp
    have := findTx_some_ref h
    unfold refsOf
    exact List.mem_map.mpr ⟨t, this.2, this.1⟩

theorem present_iff {s : St} {r : Nat} : s.present r = true ↔ r ∈ refsOf s.txs := by
  unfold St.present St.find
  exact findTx_isSome_iff

theorem present_false_iff {s : St} {r : Nat} : s.present r = false ↔ r ∉ refsOf s.txs := by
  rw [← present_iff]; cases s.present r <;> simp

theorem findTx_cons_of_ne {l : List Tx} {t : Tx} {r : Nat} (h : t.ref ≠ r) : findTx (t :: l) r = findTx l r := by
  unfold findTx
  simp [h]

theorem findTx_cons_self {l : List Tx} {t : Tx} : findTx (t :: l) t.ref = some t := by
  unfold findTx
  simp

/-! ### add: idempotence, rejection -/

theorem add_present {env : Env} {subs : List Sub} {s : St} {tx : Tx} {p : Option Nat}
    (h : s.present tx.ref = true) : add env subs s tx p = (s, .ok ()) := by
  unfold add phase1
  simp [h]

theorem phase2_present {env : Env} {subs : List Sub} {s : St} {tx : Tx} {p : Option Nat}
    (h : s.present tx.ref = true) : phase2 env subs s tx p = (s, .ok ()) := by
  unfold phase2
  simp [h]

theorem phase2_not_ok {env : Env} {subs : List Sub} {s : St} {tx : Tx} {p : Option Nat}
    (h : (phase2 env subs s tx p).2 ≠ .ok ()) : (phase2 env subs s tx p).1 = s := by
  unfold phase2 at h ⊢
  split
  · rfl
  · split
    · rename_i w hw; simp [hw] at h; split at h <;> simp_all
    · rfl
    · rfl

theorem add_not_ok {env : Env} {subs : List Sub} {s : St} {tx : Tx} {p : Option Nat}
    (h : (add env subs s tx p).2 ≠ .ok ()) : (add env subs s tx p).1 = s := by
  unfold add at h ⊢
  split
  · rfl
  · rfl
  · rfl
  · rename_i hv; simp only [hv] at h; exact phase2_not_ok h


/-! ### parsing -/

/-- the header value `m·2^e` is exactly the natural number `n` -/
def numEqNat (m e : Int) (n : Nat) : Prop :=
  if e ≥ 0 then m * (2 : Int) ^ e.toNat = (n : Int) else m = (n : Int) * (2 : Int) ^ (-e).toNat

instance (m e : Int) (n : Nat) : Decidable (numEqNat m e n) := by
  unfold numEqNat; exact inferInstance

/-- what RFC004 demands of the decoded JWS, in terms of the header jwx presents -/
structure WellFormed (cfg : Cfg) (b64 : String → Bool) (h : Hdr) (tx : Tx) : Prop where
  oneSig : h.nSigs = 1
  alg : tx.alg = h.alg ∧ h.alg ∈ cfg.allowedAlgos
  payload : parseHex h.payload = some tx.payloadHash
  cty : tx.cty = h.cty ∧ containsSlash h.cty = true
  keyRef : tx.jwk = h.hasJwk ∧ tx.kid = h.kid.getD "" ∧ ((h.hasJwk = true ∧ h.kid.getD "" = "") ∨ (h.hasJwk = false ∧ h.kid.getD "" ≠ ""))
  jwkPublic : cfg.jwkPublicOnly = true → h.hasJwk = true → h.jwkPrivate = false
  framing : cfg.strictFraming = true → h.framingStrict = true
  sigt : ∃ m e, h.get cfg.sigtH = some (.num m e) ∧ tx.sigt = toInt64 m e
  ver : ∃ m e, h.get cfg.verH = some (.num m e) ∧ tx.ver = toInt64 m e ∧ tx.ver ∈ cfg.allowedVersion
  prevs : ∃ l, h.get cfg.prevsH = some (.arr l) ∧ parsePrevEls cfg.prevsH l = .ok tx.prevs
  pal : (h.get cfg.palH = none ∧ tx.pal = []) ∨ ∃ l, h.get cfg.palH = some (.arr l) ∧ parsePalEls b64 cfg.palH l = .ok tx.pal
  lc : ∃ m e, h.get cfg.lcH = some (.num m e) ∧ parseLamportClock cfg h = .ok tx.clock
  ref : tx.ref = h.ref

theorem parse_wellFormed {cfg : Cfg} {b64 : String → Bool} {h : Hdr} {tx : Tx}
    (hp : parse cfg b64 h = .ok tx) : WellFormed cfg b64 h tx := by
  unfold parse at hp
  split at hp
  · cases hp
  rename_i hfr
  split at hp
  · cases hp
  split at hp
  · cases hp
  rename_i h0 h1
  simp only [bind_ok] at hp
  obtain ⟨_, ha, payload, hpl, cty, hcty, kid, hkid, sigt, hsigt, ver, hver, prevs, hprevs, pal, hpal, lc, hlc, htx⟩ := hp
  simp only [pure, Res.ok.injEq] at htx
  subst htx
  refine ⟨by omega, ?_, ?_, ?_, ?_, ?_, ?_, ?_, ?_, ?_, ?_, ?_, rfl⟩
  · unfold parseSigningAlgorithm at ha
    split at ha
    · rename_i hc; exact ⟨rfl, by simpa using hc⟩
    · cases ha
  · unfold parsePayload at hpl
    split at hpl
    · rename_i p hp'; cases hpl; exact hp'
    · cases hpl
  · unfold parseContentType at hcty
    split at hcty
    · rename_i hc; cases hcty; exact ⟨rfl, hc⟩
    · cases hcty
  · unfold parseSignatureParams at hkid
    simp only at hkid
    split at hkid
    · cases hkid
    · split at hkid
      · cases hkid
      · rename_i hc
        cases hkid
        refine ⟨rfl, rfl, ?_⟩
        cases hj : h.hasJwk <;> simp [hj] at hc ⊢ <;> exact hc
  · unfold parseSignatureParams at hkid
    simp only at hkid
    split at hkid
    · cases hkid
    · rename_i hc
      intro h1 h2
      simp [h1, h2] at hc
      exact hc
  · intro hs
    cases hf : h.framingStrict with
    | true => rfl
    | false => simp [hs, hf] at hfr
  · unfold parseSigningTime at hsigt
    split at hsigt
    · cases hsigt
    · rename_i m e hg; cases hsigt; exact ⟨m, e, hg, rfl⟩
    · cases hsigt
  · unfold parseVersion at hver
    split at hver
    · cases hver
    · rename_i m e hg
      simp only at hver
      split at hver
      · rename_i hc; cases hver; exact ⟨m, e, hg, rfl, by simpa using hc⟩
      · cases hver
    · cases hver
  · unfold parsePrevious at hprevs
    split at hprevs
    · cases hprevs
    · rename_i l hg; exact ⟨l, hg, hprevs⟩
    · cases hprevs
  · unfold parsePAL at hpal
    split at hpal
    · rename_i hg; cases hpal; exact Or.inl ⟨hg, rfl⟩
    · rename_i l hg; exact Or.inr ⟨l, hg, hpal⟩
    · cases hpal
  · have hlc' := hlc
    unfold parseLamportClock at hlc
    split at hlc
    · cases hlc
    · rename_i m e hg; exact ⟨m, e, hg, hlc'⟩
    · cases hlc


theorem truncZ_exact {m e : Int} (hi : isIntegral m e = true) (h0 : 0 ≤ truncZ m e) :
    numEqNat m e (truncZ m e).toNat := by
  unfold numEqNat
  have hn : ((truncZ m e).toNat : Int) = truncZ m e := Int.toNat_of_nonneg h0
  rw [hn]
  unfold truncZ isIntegral at *
  split
  · rfl
  · rename_i he
    simp only [he, if_false] at hi ⊢
    have hd : ((2 : Int) ^ (-e).toNat) ∣ m := Int.dvd_of_emod_eq_zero (by simpa using hi)
    exact (Int.tdiv_mul_cancel hd).symm

theorem lc_strict_exact {cfg : Cfg} {h : Hdr} {n : Nat} {m e : Int} (hs : cfg.lcStrict = true)
    (hg : h.get cfg.lcH = some (.num m e)) (hp : parseLamportClock cfg h = .ok n) :
    numEqNat m e n ∧ n < 2 ^ 32 := by
  unfold parseLamportClock at hp
  rw [hg] at hp
  simp only [hs, if_true] at hp
  split at hp
  · rename_i hc
    simp only [Bool.and_eq_true, decide_eq_true_eq] at hc
    cases hp
    refine ⟨truncZ_exact hc.1.1 hc.1.2, ?_⟩
    have := hc.2
    omega
  · cases hp

/-! ### the prevs verifier -/

theorem highest_spec {l : List Tx} : ∀ {ps : List Nat} {h h' : Int}, highest l ps h = .ok h' →
    h ≤ h' ∧ (∀ p ∈ ps, ∃ u, findTx l p = some u ∧ (u.clock : Int) ≤ h') ∧
    (h' = h ∨ ∃ p ∈ ps, ∃ u, findTx l p = some u ∧ (u.clock : Int) = h') := by
  intro ps
  induction ps with
  | nil => intro h h' hh; simp [highest] at hh; subst hh; simp
  | cons p ps ih =>
    intro h h' hh
    unfold highest at hh
    split at hh
    · cases hh
    · rename_i t ht
      have := ih hh
      obtain ⟨h1, h2, h3⟩ := this
      refine ⟨?_, ?_, ?_⟩
      · split at h1 <;> omega
      · intro q hq
        cases hq with
        | head => exact ⟨t, ht, by split at h1 <;> omega⟩
        | tail _ hq => exact h2 q hq
      · cases h3 with
        | inl h3 =>
          split at h3
          · exact Or.inr ⟨p, List.mem_cons_self, t, ht, h3.symm⟩
          · exact Or.inl h3
        | inr h3 =>
          obtain ⟨q, hq, u, hu, hc⟩ := h3
          exact Or.inr ⟨q, List.mem_cons_of_mem _ hq, u, hu, hc⟩

theorem highest_cons {l : List Tx} {t' : Tx} (hn : t'.ref ∉ refsOf l) :
    ∀ {ps : List Nat} {h h' : Int}, highest l ps h = .ok h' → highest (t' :: l) ps h = .ok h' := by
  intro ps
  induction ps with
  | nil => intro h h' hh; simpa [highest] using hh
  | cons p ps ih =>
    intro h h' hh
    unfold highest at hh ⊢
    split at hh
    · cases hh
    · rename_i t ht
      have hne : t'.ref ≠ p := by
        intro he
        have := (findTx_some_ref ht)
        apply hn
        unfold refsOf
        exact List.mem_map.mpr ⟨t, this.2, by rw [this.1, he]⟩
      rw [findTx_cons_of_ne hne, ht]
      exact ih hh

theorem verifyPrevs_cons {l : List Tx} {t' tx : Tx} (hn : t'.ref ∉ refsOf l)
    (h : verifyPrevs l tx = .ok ()) : verifyPrevs (t' :: l) tx = .ok () := by
  unfold verifyPrevs at h ⊢
  split at h
  · rename_i hh hk
    rw [highest_cons hn hk]
    exact h
  · cases h
  · cases h

/-! ### the DAG invariant -/

/-- each stored transaction was admissible with respect to the transactions stored before it (newest first) -/
def ChainOK (env : Env) : List Tx → Prop
  | [] => True
  | t :: rest => ChainOK env rest ∧ t.ref ∉ refsOf rest ∧ verifyPrevs rest t = .ok () ∧ verifySig env t = .ok () ∧
      (t.prevs = [] → hasRoot rest = false)

theorem chain_nodup {env : Env} : ∀ {l : List Tx}, ChainOK env l → (refsOf l).Nodup := by
  intro l
  induction l with
  | nil => intro _; simp [refsOf]
  | cons t rest ih =>
    intro h
    obtain ⟨h1, h2, _⟩ := h
    unfold refsOf at *
    simp only [List.map_cons, List.nodup_cons]
    exact ⟨h2, ih h1⟩

theorem chain_sig {env : Env} : ∀ {l : List Tx}, ChainOK env l → ∀ t ∈ l, verifySig env t = .ok () := by
  intro l
  induction l with
  | nil => intro _ t ht; cases ht
  | cons t rest ih =>
    intro h u hu
    cases hu with
    | head => exact h.2.2.2.1
    | tail _ hu => exact ih h.1 u hu

theorem verifyPrevs_spec {l : List Tx} {tx : Tx} (h : verifyPrevs l tx = .ok ()) :
    (∀ p ∈ tx.prevs, ∃ u ∈ l, u.ref = p ∧ u.clock < tx.clock) ∧
    (tx.prevs = [] → tx.clock = 0) ∧
    (tx.prevs ≠ [] → ∃ u ∈ l, u.ref ∈ tx.prevs ∧ tx.clock = u.clock + 1) := by
  unfold verifyPrevs at h
  split at h
  · rename_i hh hk
    split at h
    · cases h
    · rename_i hc
      have hc' : (tx.clock : Int) = hh + 1 := by omega
      obtain ⟨h1, h2, h3⟩ := highest_spec hk
      refine ⟨?_, ?_, ?_⟩
      · intro p hp
        obtain ⟨u, hu, hcl⟩ := h2 p hp
        have := findTx_some_ref hu
        exact ⟨u, this.2, this.1, by omega⟩
      · intro he
        rw [he] at hk
        simp [highest] at hk
        omega
      · intro hne
        cases h3 with
        | inl h3 =>
          exfalso
          cases hps : tx.prevs with
          | nil => exact hne hps
          | cons p ps =>
            obtain ⟨u, _, hcl⟩ := h2 p (by rw [hps]; exact List.mem_cons_self)
            omega
        | inr h3 =>
          obtain ⟨p, hp, u, hu, hcl⟩ := h3
          have := findTx_some_ref hu
          exact ⟨u, this.2, by rw [this.1]; exact hp, by omega⟩
  · cases h
  · cases h

/-- consequences for every stored transaction: prevs are stored, strictly older, clock = 1 + max, signature verified -/
theorem chain_mem {env : Env} : ∀ {l : List Tx}, ChainOK env l → ∀ t ∈ l,
    (∀ p ∈ t.prevs, ∃ u ∈ l, u.ref = p ∧ u.clock < t.clock) ∧ (t.prevs = [] → t.clock = 0) ∧
    (t.prevs ≠ [] → ∃ u ∈ l, u.ref ∈ t.prevs ∧ t.clock = u.clock + 1) := by
  intro l
  induction l with
  | nil => intro _ t ht; cases ht
  | cons t rest ih =>
    intro h u hu
    have lift : ∀ x, x ∈ rest → x ∈ t :: rest := fun x hx => List.mem_cons_of_mem _ hx
    cases hu with
    | head =>
      obtain ⟨a, b, c⟩ := verifyPrevs_spec h.2.2.1
      refine ⟨?_, b, ?_⟩
      · intro p hp; obtain ⟨v, hv, hr⟩ := a p hp; exact ⟨v, lift v hv, hr⟩
      · intro hne; obtain ⟨v, hv, hr⟩ := c hne; exact ⟨v, lift v hv, hr⟩
    | tail _ hu =>
      obtain ⟨a, b, c⟩ := ih h.1 u hu
      refine ⟨?_, b, ?_⟩
      · intro p hp; obtain ⟨v, hv, hr⟩ := a p hp; exact ⟨v, lift v hv, hr⟩
      · intro hne; obtain ⟨v, hv, hr⟩ := c hne; exact ⟨v, lift v hv, hr⟩

theorem hasRoot_false_iff {l : List Tx} : hasRoot l = false ↔ ∀ t ∈ l, t.clock ≠ 0 := by
  unfold hasRoot
  simp

/-- at most one root -/
theorem chain_root_unique {env : Env} : ∀ {l : List Tx}, ChainOK env l → ∀ t ∈ l, ∀ u ∈ l,
    t.prevs = [] → u.prevs = [] → t = u := by
  intro l
  induction l with
  | nil => intro _ t ht; cases ht
  | cons x rest ih =>
    intro h t ht u hu hpt hpu
    have key : ∀ a ∈ rest, a.prevs = [] → x.prevs = [] → False := by
      intro a ha hpa hpx
      have h0 : a.clock = 0 := (chain_mem h.1 a ha).2.1 hpa
      have := hasRoot_false_iff.mp (h.2.2.2.2 hpx) a ha
      exact this h0
    cases ht with
    | head =>
      cases hu with
      | head => rfl
      | tail _ hu => exact (key u hu hpu hpt).elim
    | tail _ ht =>
      cases hu with
      | head => exact (key t ht hpt hpu).elim
      | tail _ hu => exact ih h.1 t ht u hu hpt hpu



/-! ### notifier bookkeeping touches only the transaction's own ref -/

theorem saveOne_mem {typ : EvType} {tx : Tx} {jobs : List Job} {sub : Sub} {j : Job}
    (h : j ∈ saveOne typ tx jobs sub) : j ∈ jobs ∨ j.ref = tx.ref := by
  unfold saveOne at h
  split at h
  · exact Or.inl h
  · split at h
    · exact Or.inl h
    · split at h
      · exact Or.inl h
      · rcases List.mem_append.mp h with h | h
        · exact Or.inl h
        · simp at h; subst h; exact Or.inr rfl

theorem saveEvent_mem {typ : EvType} {tx : Tx} : ∀ {subs : List Sub} {jobs : List Job} {j : Job},
    j ∈ saveEvent subs typ tx jobs → j ∈ jobs ∨ j.ref = tx.ref := by
  intro subs
  induction subs with
  | nil => intro jobs j h; exact Or.inl h
  | cons sub subs ih =>
    intro jobs j h
    unfold saveEvent at h
    simp only [List.foldl_cons] at h
    rcases ih h with h | h
    · exact saveOne_mem h
    · exact Or.inr h

/-- ledger extension by events that all carry `r` -/
def ExtBy (r : Nat) (old new : List Ev) : Prop := ∃ add, new = old ++ add ∧ ∀ e ∈ add, e.ref = r

theorem ExtBy.refl (r : Nat) (l : List Ev) : ExtBy r l l := ⟨[], by simp, by simp⟩
theorem ExtBy.trans {r : Nat} {a b c : List Ev} (h1 : ExtBy r a b) (h2 : ExtBy r b c) : ExtBy r a c := by
  obtain ⟨x, hx, hx'⟩ := h1
  obtain ⟨y, hy, hy'⟩ := h2
  refine ⟨x ++ y, by rw [hy, hx, List.append_assoc], ?_⟩
  intro e he
  rcases List.mem_append.mp he with he | he
  · exact hx' e he
  · exact hy' e he

theorem notifyOne_spec {typ : EvType} {tx : Tx} {jl : List Job × List Ev} {sub : Sub} :
    (∀ j ∈ (notifyOne typ tx jl sub).1, j ∈ jl.1 ∨ j.ref = tx.ref) ∧ ExtBy tx.ref jl.2 (notifyOne typ tx jl sub).2 := by
  unfold notifyOne
  split
  · exact ⟨fun j h => Or.inl h, ExtBy.refl _ _⟩
  · split
    · split
      · exact ⟨fun j h => Or.inl h, ExtBy.refl _ _⟩
      · rename_i j0 hj0
        split
        · refine ⟨fun j h => Or.inl (List.mem_filter.mp h).1, ⟨[_], rfl, by simp⟩⟩
        · refine ⟨?_, ⟨[_], rfl, by simp⟩⟩
          intro j h
          obtain ⟨j', hj', he⟩ := List.mem_map.mp h
          split at he
          · rename_i hc; subst he; exact Or.inr hc.2
          · subst he; exact Or.inl hj'
    · exact ⟨fun j h => Or.inl h, ⟨[_], rfl, by simp⟩⟩

theorem notify_spec {typ : EvType} {tx : Tx} : ∀ {subs : List Sub} {jl : List Job × List Ev},
    (∀ j ∈ (notify subs typ tx jl).1, j ∈ jl.1 ∨ j.ref = tx.ref) ∧ ExtBy tx.ref jl.2 (notify subs typ tx jl).2 := by
  intro subs
  induction subs with
  | nil => intro jl; exact ⟨fun j h => Or.inl h, ExtBy.refl _ _⟩
  | cons sub subs ih =>
    intro jl
    unfold notify
    simp only [List.foldl_cons]
    have h1 := @notifyOne_spec typ tx jl sub
    have h2 := @ih (notifyOne typ tx jl sub)
    unfold notify at h2
    refine ⟨?_, h1.2.trans h2.2⟩
    intro j hj
    rcases h2.1 j hj with h | h
    · exact h1.1 j h
    · exact Or.inr h

/-! ### what a state-changing Add establishes -/

def maxClock : List Tx → Nat
  | [] => 0
  | t :: r => max t.clock (maxClock r)

def xorAll : List Tx → Nat
  | [] => 0
  | t :: r => xorAll r ^^^ t.ref

/-- everything that is true when `Add` changed the state -/
structure Admitted (env : Env) (s : St) (tx : Tx) (p : Option Nat) (s' : St) : Prop where
  fresh : tx.ref ∉ refsOf s.txs
  prevsOK : verifyPrevs s.txs tx = .ok ()
  sigOK : verifySig env tx = .ok ()
  rootOK : tx.prevs = [] → hasRoot s.txs = false
  payloadOK : ∀ q, p = some q → env.sha q = tx.payloadHash
  txs : s'.txs = tx :: s.txs
  count : s'.count = s.count + 1
  lcHigh : s'.lcHigh = if tx.clock > s.lcHigh ∨ tx.clock = 0 then tx.clock else s.lcHigh
  head : s'.head = if tx.clock > s.lcHigh ∨ tx.clock = 0 then tx.ref else s.head
  lcAtomic : s'.lcAtomic = if s.lcAtomic ≥ tx.clock then s.lcAtomic else tx.clock
  xor : s'.xor = s.xor ^^^ tx.ref
  payloads : s'.payloads = putPayload s.payloads tx.payloadHash p
  jobs : ∀ j ∈ s'.jobs, j ∈ s.jobs ∨ j.ref = tx.ref
  ledger : ExtBy tx.ref s.ledger s'.ledger

theorem afterCommit_spec {subs : List Sub} {w : St} {tx : Tx} {p : Option Nat} :
    (∀ j ∈ (afterCommit subs w tx p).jobs, j ∈ w.jobs ∨ j.ref = tx.ref) ∧
    ExtBy tx.ref w.ledger (afterCommit subs w tx p).ledger := by
  unfold afterCommit
  simp only
  have h1 := @notify_spec .tx tx subs (w.jobs, w.ledger)
  split
  · have h2 := @notify_spec .payload tx subs (notify subs .tx tx (w.jobs, w.ledger))
    refine ⟨?_, h1.2.trans h2.2⟩
    intro j hj
    rcases h2.1 j hj with h | h
    · exact h1.1 j h
    · exact Or.inr h
  · exact h1

theorem writePayloadStep_spec {env : Env} {subs : List Sub} {s w : St} {tx : Tx} {p : Option Nat}
    (h : writePayloadStep env subs s tx p = .ok w) :
    (∀ q, p = some q → env.sha q = tx.payloadHash) ∧ w.txs = s.txs ∧ w.count = s.count ∧ w.lcHigh = s.lcHigh ∧
    w.head = s.head ∧ w.lcAtomic = s.lcAtomic ∧ w.xor = s.xor ∧ w.ledger = s.ledger ∧
    w.payloads = putPayload s.payloads tx.payloadHash p ∧
    (∀ j ∈ w.jobs, j ∈ s.jobs ∨ j.ref = tx.ref) := by
  unfold writePayloadStep at h
  cases p with
  | none =>
    simp only [Res.ok.injEq] at h
    subst h
    exact ⟨(by intro q hq; cases hq), rfl, rfl, rfl, rfl, rfl, rfl, rfl, rfl, fun j hj => Or.inl hj⟩
  | some q =>
    simp only at h
    split at h
    · cases h
    · rename_i hsha
      simp only [Res.ok.injEq] at h
      subst h
      refine ⟨?_, rfl, rfl, rfl, rfl, rfl, rfl, rfl, rfl, fun j hj => saveEvent_mem hj⟩
      intro q' hq'
      cases hq'
      simpa using hsha

theorem graphAdd_spec {w w2 : St} {tx : Tx} (h : graphAdd w tx = .ok w2) :
    (tx.prevs = [] → hasRoot w.txs = false) ∧
    w2 = { w with txs := tx :: w.txs,
                  lcHigh := if (decide (tx.clock > w.lcHigh) || decide (tx.clock = 0)) = true then tx.clock else w.lcHigh,
                  head := if (decide (tx.clock > w.lcHigh) || decide (tx.clock = 0)) = true then tx.ref else w.head,
                  count := w.count + 1 } := by
  unfold graphAdd at h
  split at h
  · cases h
  · rename_i hroot
    simp only [Res.ok.injEq] at h
    simp only [Bool.and_eq_true, List.isEmpty_iff, not_and, Bool.not_eq_true] at hroot
    exact ⟨hroot, h.symm⟩

theorem phase2_cases {env : Env} {subs : List Sub} {s : St} {tx : Tx} {p : Option Nat}
    (hv : verify env s tx = .ok ()) :
    (phase2 env subs s tx p).1 = s ∨
    ((phase2 env subs s tx p).2 = .ok () ∧ Admitted env s tx p (phase2 env subs s tx p).1) := by
  unfold phase2
  split
  · exact Or.inl rfl
  · rename_i hpres
    have hfresh : tx.ref ∉ refsOf s.txs := present_false_iff.mp (by simpa using hpres)
    have hvp : verifyPrevs s.txs tx = .ok () ∧ verifySig env tx = .ok () := by
      unfold verify at hv
      split at hv
      · rename_i u hu; cases u; exact ⟨hu, hv⟩
      · cases hv
      · cases hv
    split
    · rename_i w hw
      refine Or.inr ⟨rfl, ?_⟩
      simp only
      unfold writeBody at hw
      split at hw
      · rename_i w1 hw1
        split at hw
        · rename_i w2 hw2
          simp only [Res.ok.injEq] at hw
          obtain ⟨a1, a2, a3, a4, a5, a6, a7, a8, a9, a10⟩ := writePayloadStep_spec hw1
          obtain ⟨b1, b2⟩ := graphAdd_spec hw2
          have hac := @afterCommit_spec subs w tx p
          subst hw
          subst b2
          refine { fresh := hfresh, prevsOK := hvp.1, sigOK := hvp.2, rootOK := ?_, payloadOK := a1, txs := ?_, count := ?_,
                   lcHigh := ?_, head := ?_, lcAtomic := ?_, xor := ?_, payloads := ?_, jobs := ?_, ledger := ?_ }
          · rw [← a2]; exact b1
          · simp [afterCommit, finishWrite, a2]
          · simp [afterCommit, finishWrite, a3]
          · simp [afterCommit, finishWrite, a4]
          · simp [afterCommit, finishWrite, a4, a5]
          · simp [afterCommit, finishWrite, a6]
          · simp [afterCommit, finishWrite, a7]
          · simp only [afterCommit, finishWrite]; exact a9
          · intro j hj
            rcases hac.1 j hj with h | h
            · simp only [finishWrite] at h
              rcases saveEvent_mem h with h | h
              · exact a10 j h
              · exact Or.inr h
            · exact Or.inr h
          · have := hac.2
            simp only [finishWrite] at this ⊢
            rw [← a8]
            exact this
        · cases hw
        · cases hw
      · cases hw
      · cases hw
    · exact Or.inl rfl
    · exact Or.inl rfl

theorem add_cases {env : Env} {subs : List Sub} {s : St} {tx : Tx} {p : Option Nat} :
    (add env subs s tx p).1 = s ∨
    ((add env subs s tx p).2 = .ok () ∧ Admitted env s tx p (add env subs s tx p).1) := by
  unfold add
  split
  · exact Or.inl rfl
  · exact Or.inl rfl
  · exact Or.inl rfl
  · rename_i hv
    unfold phase1 at hv
    split at hv
    · cases hv
    · split at hv
      · rename_i u hu; cases u; exact phase2_cases hu
      · cases hv
      · cases hv



/-! ### the invariant of reachable states -/

structure Inv (env : Env) (s : St) : Prop where
  chain : ChainOK env s.txs
  count : s.count = s.txs.length
  lcHigh : s.lcHigh = maxClock s.txs
  lcAtomic : s.lcAtomic = s.lcHigh
  head : (s.txs = [] ∧ s.head = 0) ∨ (∃ t ∈ s.txs, t.ref = s.head ∧ t.clock = s.lcHigh)
  xor : s.xor = xorAll s.txs
  payloads : ∀ q ∈ s.payloads, env.sha q.2 = q.1
  jobsRefs : ∀ j ∈ s.jobs, j.ref ∈ refsOf s.txs
  ledgerRefs : ∀ e ∈ s.ledger, e.ref ∈ refsOf s.txs

theorem inv_empty (env : Env) : Inv env {} :=
  { chain := trivial, count := rfl, lcHigh := rfl, lcAtomic := rfl, head := Or.inl ⟨rfl, rfl⟩, xor := rfl,
    payloads := (by intro q hq; cases hq), jobsRefs := (by intro q hq; cases hq), ledgerRefs := (by intro q hq; cases hq) }

theorem chain_nonempty_hasRoot {env : Env} : ∀ {l : List Tx}, ChainOK env l → l ≠ [] → hasRoot l = true := by
  intro l
  induction l with
  | nil => intro _ h; exact (h rfl).elim
  | cons t rest ih =>
    intro h _
    by_cases hr : rest = []
    · subst hr
      have hv := h.2.2.1
      obtain ⟨a, b, _⟩ := verifyPrevs_spec hv
      have hp : t.prevs = [] := by
        cases hps : t.prevs with
        | nil => rfl
        | cons p ps =>
          obtain ⟨u, hu, _⟩ := a p (by rw [hps]; exact List.mem_cons_self)
          cases hu
      simp [hasRoot, b hp]
    · have := ih h.1 hr
      unfold hasRoot at this ⊢
      simp only [List.any_cons, this, Bool.or_true]

theorem inv_admitted {env : Env} {s s' : St} {tx : Tx} {p : Option Nat}
    (hi : Inv env s) (ha : Admitted env s tx p s') : Inv env s' := by
  have hsub : ∀ r, r ∈ refsOf s.txs → r ∈ refsOf s'.txs := by
    intro r hr; rw [ha.txs]; unfold refsOf at *; exact List.mem_cons_of_mem _ hr
  have hself : tx.ref ∈ refsOf s'.txs := by rw [ha.txs]; unfold refsOf; exact List.mem_cons_self
  -- a clock-0 transaction can only be admitted into the empty DAG
  have hzero : tx.clock = 0 → s.txs = [] := by
    intro h0
    have hp : tx.prevs = [] := by
      cases hps : tx.prevs with
      | nil => rfl
      | cons q qs =>
        obtain ⟨_, _, c⟩ := verifyPrevs_spec ha.prevsOK
        obtain ⟨u, _, _, hc⟩ := c (by rw [hps]; exact List.cons_ne_nil _ _)
        omega
    have hr := ha.rootOK hp
    cases hl : s.txs with
    | nil => rfl
    | cons a b =>
      have := chain_nonempty_hasRoot hi.chain (by rw [hl]; exact List.cons_ne_nil _ _)
      rw [this] at hr; cases hr
  have hM : s.lcHigh = maxClock s.txs := hi.lcHigh
  have hM0 : tx.clock = 0 → s.lcHigh = 0 := by intro h0; rw [hM, hzero h0]; rfl
  refine { chain := ?_, count := ?_, lcHigh := ?_, lcAtomic := ?_, head := ?_, xor := ?_, payloads := ?_, jobsRefs := ?_, ledgerRefs := ?_ }
  · rw [ha.txs]; exact ⟨hi.chain, ha.fresh, ha.prevsOK, ha.sigOK, ha.rootOK⟩
  · rw [ha.count, ha.txs, hi.count]; rfl
  · rw [ha.lcHigh, ha.txs]
    show _ = max tx.clock (maxClock s.txs)
    rw [← hM]
    split
    · rename_i hc
      rcases hc with hc | hc
      · omega
      · have := hM0 hc; omega
    · rename_i hc; omega
  · rw [ha.lcAtomic, ha.lcHigh, hi.lcAtomic]
    split <;> split
    · rename_i h1 h2
      rcases h2 with h2 | h2
      · omega
      · have := hM0 h2; omega
    · rfl
    · rfl
    · rename_i h1 h2; omega
  · right
    rw [ha.head, ha.lcHigh, ha.txs]
    split
    · exact ⟨tx, List.mem_cons_self, rfl, rfl⟩
    · rename_i hc
      rcases hi.head with ⟨he, _⟩ | ⟨t, ht, h1, h2⟩
      · exfalso
        have : s.lcHigh = 0 := by rw [hM, he]; rfl
        omega
      · exact ⟨t, List.mem_cons_of_mem _ ht, h1, h2⟩
  · rw [ha.xor, ha.txs, hi.xor]; rfl
  · intro q hq
    rw [ha.payloads] at hq
    cases p with
    | none => exact hi.payloads q hq
    | some x =>
      simp only [putPayload] at hq
      cases hq with
      | head => exact ha.payloadOK x rfl
      | tail _ hq => exact hi.payloads q (List.mem_filter.mp hq).1
  · intro j hj
    rcases ha.jobs j hj with h | h
    · exact hsub _ (hi.jobsRefs j h)
    · rw [h]; exact hself
  · intro e he
    obtain ⟨add, hadd, hall⟩ := ha.ledger
    rw [hadd] at he
    rcases List.mem_append.mp he with h | h
    · exact hsub _ (hi.ledgerRefs e h)
    · rw [hall e h]; exact hself

theorem inv_add {env : Env} {subs : List Sub} {s : St} {tx : Tx} {p : Option Nat} (hi : Inv env s) :
    Inv env (add env subs s tx p).1 := by
  rcases @add_cases env subs s tx p with h | ⟨_, h⟩
  · rw [h]; exact hi
  · exact inv_admitted hi h



/-! ### concurrency: what a thread learnt in phase 1 stays true while the DAG grows -/

/-- a thread between its read and its write transaction: its transaction is (still) admissible or (meanwhile) present -/
def Pend (env : Env) (s : St) (tx : Tx) : Prop := s.present tx.ref = true ∨ verify env s tx = .ok ()

theorem pend_stable {env : Env} {s s' : St} {tx t' : Tx} {p' : Option Nat}
    (hp : Pend env s tx) (h : s' = s ∨ Admitted env s t' p' s') : Pend env s' tx := by
  rcases h with h | h
  · rw [h]; exact hp
  · by_cases he : t'.ref = tx.ref
    · left
      rw [present_iff, h.txs, ← he]
      unfold refsOf; exact List.mem_cons_self
    · rcases hp with hp | hp
      · left
        rw [present_iff] at hp ⊢
        rw [h.txs]; unfold refsOf at *; exact List.mem_cons_of_mem _ hp
      · right
        unfold verify at hp ⊢
        split at hp
        · rename_i u hu
          cases u
          rw [h.txs, verifyPrevs_cons h.fresh hu]
          exact hp
        · cases hp
        · cases hp

theorem phase2_eq_add {env : Env} {subs : List Sub} {s : St} {tx : Tx} {p : Option Nat}
    (hp : Pend env s tx) : phase2 env subs s tx p = add env subs s tx p := by
  by_cases hpr : s.present tx.ref = true
  · rw [phase2_present hpr, add_present hpr]
  · rcases hp with hp | hp
    · exact (hpr hp).elim
    · unfold add phase1
      simp [hpr, hp]

theorem phase1_present {env : Env} {subs : List Sub} {s : St} {tx : Tx} {p : Option Nat}
    (h : phase1 env s tx = .present) : add env subs s tx p = (s, .ok ()) := by
  unfold add; rw [h]

theorem phase1_rejected {env : Env} {subs : List Sub} {s : St} {tx : Tx} {p : Option Nat} {e : String}
    (h : phase1 env s tx = .rejected e) : add env subs s tx p = (s, .err e) := by
  unfold add; rw [h]

theorem phase1_panicked {env : Env} {subs : List Sub} {s : St} {tx : Tx} {p : Option Nat} {e : String}
    (h : phase1 env s tx = .panicked e) : add env subs s tx p = (s, .panic e) := by
  unfold add; rw [h]

theorem phase1_verified {env : Env} {s : St} {tx : Tx} (h : phase1 env s tx = .verified) : Pend env s tx := by
  unfold phase1 at h
  split at h
  · cases h
  · split at h
    · rename_i u hu; cases u; exact Or.inr hu
    · cases h
    · cases h

/-- the concurrent execution so far equals a sequential execution of the finished calls -/
structure Lin (env : Env) (subs : List Sub) (calls : List Call) (s0 : St) (w : World) : Prop where
  ex : ∃ order : List Nat, order.Nodup ∧ (∀ i : Nat, i ∈ order ↔ ∃ r, w.pcs[i]? = some (PC.done r)) ∧
        (seqRun env subs calls order s0).1 = w.st ∧
        (∀ (i : Nat) (r : Res Unit), (i, r) ∈ (seqRun env subs calls order s0).2 ↔ w.pcs[i]? = some (PC.done r))
  pend : ∀ (i : Nat) (c : Call), calls[i]? = some c → w.pcs[i]? = some PC.verified → Pend env w.st c.tx

theorem seqRun_snoc {env : Env} {subs : List Sub} {calls : List Call} {order : List Nat} {s0 : St} {i : Nat} {c : Call}
    (hc : calls[i]? = some c) :
    seqRun env subs calls (order ++ [i]) s0 =
      ((add env subs (seqRun env subs calls order s0).1 c.tx c.payload).1,
       (seqRun env subs calls order s0).2 ++ [(i, (add env subs (seqRun env subs calls order s0).1 c.tx c.payload).2)]) := by
  unfold seqRun
  rw [List.foldl_append]
  simp only [List.foldl_cons, List.foldl_nil]
  unfold seqStep
  simp only [hc]

theorem lin_finish {env : Env} {subs : List Sub} {calls : List Call} {s0 : St} {w : World}
    (hL : Lin env subs calls s0 w) {i : Nat} {c : Call} {pc : PC}
    (hc : calls[i]? = some c) (hpc : w.pcs[i]? = some pc) (hnd : ∀ r, pc ≠ .done r)
    (hpend : ∀ j c', j ≠ i → calls[j]? = some c' → w.pcs[j]? = some .verified →
      Pend env (add env subs w.st c.tx c.payload).1 c'.tx) :
    Lin env subs calls s0
      { st := (add env subs w.st c.tx c.payload).1, pcs := w.pcs.set i (.done (add env subs w.st c.tx c.payload).2) } := by
  obtain ⟨order, hnd', hmem, hst, hres⟩ := hL.ex
  have hlt : i < w.pcs.length := by
    obtain ⟨h, _⟩ := List.getElem?_eq_some_iff.mp hpc; exact h
  have hi_not : i ∉ order := by
    intro hi
    obtain ⟨r, hr⟩ := (hmem i).mp hi
    rw [hpc] at hr
    exact hnd r (by simpa using hr)
  refine ⟨⟨order ++ [i], ?_, ?_, ?_, ?_⟩, ?_⟩
  · rw [List.nodup_append]
    refine ⟨hnd', by simp, ?_⟩
    intro a ha b hb
    simp at hb; subst hb
    intro he; subst he; exact hi_not ha
  · intro j
    simp only [List.mem_append, List.mem_singleton]
    by_cases hj : i = j
    · subst hj
      simp only [List.getElem?_set_self hlt]
      constructor
      · intro _; exact ⟨_, rfl⟩
      · intro _; exact Or.inr trivial
    · simp only [List.getElem?_set_ne hj]
      rw [hmem j]
      constructor
      · rintro (h | h)
        · exact h
        · exact (hj h.symm).elim
      · intro h; exact Or.inl h
  · rw [seqRun_snoc hc, hst]
  · intro j r
    rw [seqRun_snoc hc, hst]
    simp only [List.mem_append, List.mem_singleton, Prod.mk.injEq]
    by_cases hj : i = j
    · subst hj
      simp only [List.getElem?_set_self hlt]
      constructor
      · rintro (h | h)
        · exfalso
          have := (hres i r).mp h
          rw [hpc] at this
          exact hnd r (by simpa using this)
        · rw [h.2]
      · intro h
        right
        simp only [Option.some.injEq, PC.done.injEq] at h
        exact ⟨trivial, h.symm⟩
    · simp only [List.getElem?_set_ne hj]
      rw [← hres j r]
      constructor
      · rintro (h | h)
        · exact h
        · exact (hj h.1.symm).elim
      · intro h; exact Or.inl h
  · intro j c' hc' hv
    by_cases hj : i = j
    · subst hj
      simp only [List.getElem?_set_self hlt] at hv
      cases hv
    · simp only [List.getElem?_set_ne hj] at hv
      exact hpend j c' (fun h => hj h.symm) hc' hv

theorem lin_step {env : Env} {subs : List Sub} {calls : List Call} {s0 : St} {w : World}
    (hL : Lin env subs calls s0 w) (i : Nat) : Lin env subs calls s0 (stepThread env subs calls w i) := by
  unfold stepThread
  split
  · -- start
    rename_i c hc hpc
    have hsame : ∀ j c', j ≠ i → calls[j]? = some c' → w.pcs[j]? = some .verified → Pend env w.st c'.tx :=
      fun j c' _ h1 h2 => hL.pend j c' h1 h2
    split
    · rename_i h1
      have ha : add env subs w.st c.tx c.payload = (w.st, .ok ()) := phase1_present h1
      have := lin_finish hL hc hpc (by intro r h; cases h) (by rw [ha]; exact hsame)
      rw [ha] at this; exact this
    · rename_i e h1
      have ha : add env subs w.st c.tx c.payload = (w.st, .err e) := phase1_rejected h1
      have := lin_finish hL hc hpc (by intro r h; cases h) (by rw [ha]; exact hsame)
      rw [ha] at this; exact this
    · rename_i e h1
      have ha : add env subs w.st c.tx c.payload = (w.st, .panic e) := phase1_panicked h1
      have := lin_finish hL hc hpc (by intro r h; cases h) (by rw [ha]; exact hsame)
      rw [ha] at this; exact this
    · rename_i h1
      obtain ⟨order, hnd, hmem, hst, hres⟩ := hL.ex
      have hlt : i < w.pcs.length := by
        obtain ⟨h, _⟩ := List.getElem?_eq_some_iff.mp hpc; exact h
      refine ⟨⟨order, hnd, ?_, hst, ?_⟩, ?_⟩
      · intro j
        by_cases hj : i = j
        · subst hj
          simp only [List.getElem?_set_self hlt]
          rw [hmem i, hpc]
          simp
        · simp only [List.getElem?_set_ne hj]; exact hmem j
      · intro j r
        by_cases hj : i = j
        · subst hj
          simp only [List.getElem?_set_self hlt]
          rw [hres i r, hpc]
          simp
        · simp only [List.getElem?_set_ne hj]; exact hres j r
      · intro j c' hc' hv
        by_cases hj : i = j
        · subst hj
          rw [hc] at hc'; cases hc'
          exact phase1_verified h1
        · simp only [List.getElem?_set_ne hj] at hv
          exact hL.pend j c' hc' hv
  · -- verified: the write transaction
    rename_i c hc hpc
    have hp : Pend env w.st c.tx := hL.pend i c hc hpc
    simp only
    rw [phase2_eq_add hp]
    apply lin_finish hL hc hpc (by intro r h; cases h)
    intro j c' _ hc' hv
    exact pend_stable (hL.pend j c' hc' hv) (by
      rcases @add_cases env subs w.st c.tx c.payload with h | ⟨_, h⟩
      · exact Or.inl h
      · exact Or.inr h)
  · exact hL

theorem lin_run {env : Env} {subs : List Sub} {calls : List Call} {s0 : St} :
    ∀ (sched : List Nat) {w : World}, Lin env subs calls s0 w → Lin env subs calls s0 (run env subs calls sched w) := by
  intro sched
  induction sched with
  | nil => intro w h; exact h
  | cons i t ih =>
    intro w h
    unfold run
    simp only [List.foldl_cons]
    exact ih (lin_step h i)

theorem lin_init {env : Env} {subs : List Sub} {calls : List Call} {s0 : St} (n : Nat) :
    Lin env subs calls s0 { st := s0, pcs := List.replicate n .start } := by
  refine ⟨⟨[], List.nodup_nil, ?_, rfl, ?_⟩, ?_⟩
  · intro i
    simp only [List.getElem?_replicate]
    constructor
    · intro h; cases h
    · rintro ⟨r, hr⟩; split at hr <;> cases hr
  · intro i r
    simp only [List.getElem?_replicate, seqRun, List.foldl_nil]
    constructor
    · intro h; cases h
    · intro hr; split at hr <;> cases hr
  · intro i c _ hv
    simp only [List.getElem?_replicate] at hv
    split at hv <;> cases hv



/-! ### CreateTransaction -/

theorem calcClock_spec {s : St} : ∀ {ps : List Nat} {c0 c : Nat}, calcClock s ps c0 = .ok c →
    c0 ≤ c ∧ (∀ p ∈ ps, ∃ u, findTx s.txs p = some u ∧ u.clock ≤ c) ∧
    (c = c0 ∨ ∃ p ∈ ps, ∃ u, findTx s.txs p = some u ∧ u.clock = c) := by
  intro ps
  induction ps with
  | nil => intro c0 c h; simp [calcClock] at h; subst h; simp
  | cons p ps ih =>
    intro c0 c h
    unfold calcClock at h
    split at h
    · cases h
    · rename_i t ht
      unfold St.find at ht
      obtain ⟨h1, h2, h3⟩ := ih h
      refine ⟨by split at h1 <;> omega, ?_, ?_⟩
      · intro q hq
        cases hq with
        | head => exact ⟨t, ht, by split at h1 <;> omega⟩
        | tail _ hq => exact h2 q hq
      · cases h3 with
        | inl h3 =>
          split at h3
          · exact Or.inr ⟨p, List.mem_cons_self, t, ht, h3.symm⟩
          · exact Or.inl h3
        | inr h3 =>
          obtain ⟨q, hq, u, hu, hc⟩ := h3
          exact Or.inr ⟨q, List.mem_cons_of_mem _ hq, u, hu, hc⟩

theorem highest_total {l : List Tx} : ∀ {ps : List Nat} (h : Int), (∀ p ∈ ps, ∃ u, findTx l p = some u) →
    ∃ h', highest l ps h = .ok h' := by
  intro ps
  induction ps with
  | nil => intro h _; exact ⟨h, rfl⟩
  | cons p ps ih =>
    intro h hall
    obtain ⟨u, hu⟩ := hall p List.mem_cons_self
    unfold highest
    rw [hu]
    exact ih _ (fun q hq => hall q (List.mem_cons_of_mem _ hq))

theorem dedup_mem : ∀ {ps acc : List Nat} {p : Nat}, p ∈ dedup ps acc ↔ p ∈ ps ∨ p ∈ acc := by
  intro ps
  induction ps with
  | nil => intro acc p; simp [dedup]
  | cons q qs ih =>
    intro acc p
    unfold dedup
    split
    · rename_i hc
      rw [ih]
      have hq : q ∈ acc := by simpa using hc
      constructor
      · rintro (h | h)
        · exact Or.inl (List.mem_cons_of_mem _ h)
        · exact Or.inr h
      · rintro (h | h)
        · cases h with
          | head => exact Or.inr hq
          | tail _ h => exact Or.inl h
        · exact Or.inr h
    · rw [ih, List.mem_append, List.mem_singleton, List.mem_cons]
      constructor
      · rintro (h | h | h)
        · exact Or.inl (Or.inr h)
        · exact Or.inr h
        · exact Or.inl (Or.inl h)
      · rintro ((h | h) | h)
        · exact Or.inr (Or.inr h)
        · exact Or.inl h
        · exact Or.inr (Or.inl h)

theorem createFrom_verifies {s : St} {ps0 prevs : List Nat} {clock : Nat}
    (hemp : ps0 = [] → s.txs = [])
    (hc : createFrom s ps0 = .ok (prevs, clock)) (tx : Tx) (hp : tx.prevs = prevs) (hk : tx.clock = clock) :
    verifyPrevs s.txs tx = .ok () ∧ (tx.prevs = [] → hasRoot s.txs = false) := by
  unfold createFrom at hc
  split at hc
  · rename_i he
    simp only [Res.ok.injEq, Prod.mk.injEq] at hc
    obtain ⟨hp', hk'⟩ := hc
    have htxs : s.txs = [] := hemp (by simpa using he)
    rw [htxs]
    refine ⟨?_, fun _ => rfl⟩
    unfold verifyPrevs
    rw [hp, ← hp', hk, ← hk']
    simp [highest]
  · rename_i hne
    split at hc
    · rename_i c hcalc
      simp only [Res.ok.injEq, Prod.mk.injEq] at hc
      obtain ⟨hp', hk'⟩ := hc
      obtain ⟨_, c2, c3⟩ := calcClock_spec hcalc
      have hne0 : ps0 ≠ [] := by
        intro h; apply hne; rw [h]; rfl
      have hfound : ∀ p ∈ dedup ps0 [], ∃ u, findTx s.txs p = some u := by
        intro p hp2
        rcases dedup_mem.mp hp2 with h | h
        · obtain ⟨u, hu, _⟩ := c2 p h; exact ⟨u, hu⟩
        · cases h
      obtain ⟨h', hh'⟩ := highest_total (-1) hfound
      obtain ⟨d1, d2, d3⟩ := highest_spec hh'
      have heq : h' = (c : Int) := by
        obtain ⟨p0, hp0⟩ := List.exists_mem_of_ne_nil ps0 hne0
        have hp0' : p0 ∈ dedup ps0 [] := dedup_mem.mpr (Or.inl hp0)
        obtain ⟨u0, hu0, hcl0⟩ := d2 p0 hp0'
        have hle : h' ≤ (c : Int) := by
          rcases d3 with h | ⟨p, hp2, u, hu, hcl⟩
          · omega
          · rcases dedup_mem.mp hp2 with h | h
            · obtain ⟨u', hu', hcl'⟩ := c2 p h
              rw [hu] at hu'; cases hu'
              omega
            · cases h
        have hge : (c : Int) ≤ h' := by
          rcases c3 with h | ⟨p, hp2, u, hu, hcl⟩
          · omega
          · obtain ⟨u', hu', hcl'⟩ := d2 p (dedup_mem.mpr (Or.inl hp2))
            rw [hu] at hu'; cases hu'
            omega
        omega
      refine ⟨?_, ?_⟩
      · unfold verifyPrevs
        rw [hp, ← hp', hh']
        simp only
        rw [hk, ← hk', heq]
        simp
      · intro hnil
        exfalso
        rw [hp, ← hp'] at hnil
        obtain ⟨p0, hp0⟩ := List.exists_mem_of_ne_nil ps0 hne0
        have : p0 ∈ dedup ps0 [] := dedup_mem.mpr (Or.inl hp0)
        rw [hnil] at this; cases this
    · cases hc
    · cases hc

/-- the prevs and clock `CreateTransaction` picks pass the prevs verifier and the root check on the same state -/
theorem create_verifies {env : Env} {s : St} {additional prevs : List Nat} {clock : Nat}
    (hi : Inv env s) (hnz : ∀ t ∈ s.txs, t.ref ≠ 0)
    (hc : createPrevsClock s additional = .ok (prevs, clock)) (tx : Tx) (hp : tx.prevs = prevs) (hk : tx.clock = clock) :
    verifyPrevs s.txs tx = .ok () ∧ (tx.prevs = [] → hasRoot s.txs = false) := by
  unfold createPrevsClock at hc
  split at hc
  · cases hc
  · refine createFrom_verifies ?_ hc tx hp hk
    intro hemp
    have hhead : s.head = 0 := by
      by_cases h0 : s.head = 0
      · exact h0
      · simp [h0] at hemp
    rcases hi.head with ⟨h, _⟩ | ⟨t, ht, hr, _⟩
    · exact h
    · exact (hnz t ht (by rw [hr, hhead])).elim

theorem add_success {env : Env} {subs : List Sub} {s : St} {tx : Tx} {q : Option Nat}
    (hfresh : tx.ref ∉ refsOf s.txs) (hv : verifyPrevs s.txs tx = .ok ()) (hs : verifySig env tx = .ok ())
    (hr : tx.prevs = [] → hasRoot s.txs = false) (hq : ∀ x, q = some x → env.sha x = tx.payloadHash) :
    (add env subs s tx q).2 = .ok () ∧ (add env subs s tx q).1.txs = tx :: s.txs := by
  have hpres : s.present tx.ref = false := present_false_iff.mpr hfresh
  have hver : verify env s tx = .ok () := by unfold verify; rw [hv]; exact hs
  have hroot : (tx.prevs.isEmpty && hasRoot s.txs) = false := by
    cases hps : tx.prevs with
    | nil => simp [hr hps]
    | cons a b => simp
  unfold add phase1
  simp only [hpres, hver, Bool.false_eq_true, if_false]
  unfold phase2
  simp only [hpres, Bool.false_eq_true, if_false]
  cases q with
  | none =>
    simp [writeBody, writePayloadStep, graphAdd, hroot, afterCommit, finishWrite]
  | some x =>
    have := hq x rfl
    simp [writeBody, writePayloadStep, graphAdd, hroot, afterCommit, finishWrite, this]


theorem inv_seqRun {env : Env} {subs : List Sub} {calls : List Call} :
    ∀ (order : List Nat) {acc : St × List (Nat × Res Unit)}, Inv env acc.1 →
      Inv env (order.foldl (seqStep env subs calls) acc).1 := by
  intro order
  induction order with
  | nil => intro acc h; exact h
  | cons i t ih =>
    intro acc h
    simp only [List.foldl_cons]
    apply ih
    unfold seqStep
    split
    · exact h
    · exact inv_add h

/-! ### notifications: exactly once per admitted transaction and interested subscriber -/

def jobsAfterPayload (subs : List Sub) (s : St) (tx : Tx) : Option Nat → List Job
  | none => s.jobs
  | some _ => saveEvent subs .payload tx s.jobs

def notifyAll (subs : List Sub) (tx : Tx) (p : Option Nat) (jl : List Job × List Ev) : List Job × List Ev :=
  if p.isSome then notify subs .payload tx (notify subs .tx tx jl) else notify subs .tx tx jl

theorem writePayloadStep_jobs {env : Env} {subs : List Sub} {s w : St} {tx : Tx} {p : Option Nat}
    (h : writePayloadStep env subs s tx p = .ok w) : w.jobs = jobsAfterPayload subs s tx p := by
  unfold writePayloadStep at h
  cases p with
  | none => simp only [Res.ok.injEq] at h; subst h; rfl
  | some q =>
    simp only at h
    split at h
    · cases h
    · simp only [Res.ok.injEq] at h; subst h; rfl

/-- the ledger after a state-changing Add, explicitly -/
theorem add_ledger {env : Env} {subs : List Sub} {s : St} {tx : Tx} {p : Option Nat}
    (hne : (add env subs s tx p).1 ≠ s) :
    (add env subs s tx p).1.ledger =
      (notifyAll subs tx p (saveEvent subs .tx tx (jobsAfterPayload subs s tx p), s.ledger)).2 := by
  unfold add at hne ⊢
  cases hv : phase1 env s tx with
  | present => simp [hv] at hne
  | rejected e => simp [hv] at hne
  | panicked e => simp [hv] at hne
  | verified =>
    simp only [hv] at hne ⊢
    unfold phase2 at hne ⊢
    cases hpres : s.present tx.ref with
    | true => simp [hpres] at hne
    | false =>
      simp only [hpres, Bool.false_eq_true, if_false] at hne ⊢
      cases hw : writeBody env subs s tx p with
      | err e => simp [hw] at hne
      | panic e => simp [hw] at hne
      | ok w =>
        simp only
        unfold writeBody at hw
        split at hw
        · rename_i w1 hw1
          split at hw
          · rename_i w2 hw2
            simp only [Res.ok.injEq] at hw
            obtain ⟨_, _, _, _, _, _, _, a8, _, _⟩ := writePayloadStep_spec hw1
            have hj := writePayloadStep_jobs hw1
            obtain ⟨_, b2⟩ := graphAdd_spec hw2
            subst hw
            subst b2
            simp only [afterCommit, finishWrite, notifyAll, hj, a8]
          · cases hw
          · cases hw
        · cases hw
        · cases hw

/-- projection on one subscriber -/
def pj (n : String) (jobs : List Job) : List Job := jobs.filter (fun j => j.sub = n)
def pe (n : String) (led : List Ev) : List Ev := led.filter (fun e => e.sub = n)

theorem pj_cons_pos {n : String} {j : Job} {t : List Job} (h : j.sub = n) : pj n (j :: t) = j :: pj n t := by
  unfold pj; rw [List.filter_cons_of_pos (by simp [h])]
theorem pj_cons_neg {n : String} {j : Job} {t : List Job} (h : j.sub ≠ n) : pj n (j :: t) = pj n t := by
  unfold pj; rw [List.filter_cons_of_neg (by simp [h])]

theorem pj_filter_other {n name : String} {r : Nat} (h : name ≠ n) : ∀ (l : List Job),
    pj n (l.filter (fun j' => !(decide (j'.sub = name ∧ j'.ref = r)))) = pj n l := by
  intro l
  induction l with
  | nil => rfl
  | cons j t ih =>
    by_cases hc : j.sub = name ∧ j.ref = r
    · have hn : j.sub ≠ n := by rw [hc.1]; exact h
      rw [List.filter_cons_of_neg (by simp [hc]), pj_cons_neg hn]; exact ih
    · rw [List.filter_cons_of_pos (by simp [hc])]
      by_cases hj : j.sub = n
      · rw [pj_cons_pos hj, pj_cons_pos hj, ih]
      · rw [pj_cons_neg hj, pj_cons_neg hj, ih]

theorem pj_map_other {n name : String} {r : Nat} (h : name ≠ n) : ∀ (l : List Job),
    pj n (l.map (fun j' => if j'.sub = name ∧ j'.ref = r then { j' with failed := true } else j')) = pj n l := by
  intro l
  induction l with
  | nil => rfl
  | cons j t ih =>
    rw [List.map_cons]
    by_cases hc : j.sub = name ∧ j.ref = r
    · have hn : j.sub ≠ n := by rw [hc.1]; exact h
      rw [if_pos hc, pj_cons_neg (by exact hn), pj_cons_neg hn]; exact ih
    · rw [if_neg hc]
      by_cases hj : j.sub = n
      · rw [pj_cons_pos hj, pj_cons_pos hj, ih]
      · rw [pj_cons_neg hj, pj_cons_neg hj, ih]

theorem hasJob_pj {jobs : List Job} {n : String} {r : Nat} : hasJob jobs n r = hasJob (pj n jobs) n r := by
  unfold hasJob pj
  induction jobs with
  | nil => rfl
  | cons j t ih =>
    simp only [List.any_cons, List.filter_cons]
    by_cases h : j.sub = n
    · simp [h]
    · simp [h]

theorem saveOne_other {typ : EvType} {tx : Tx} {jobs : List Job} {sub : Sub} {n : String} (h : sub.name ≠ n) :
    pj n (saveOne typ tx jobs sub) = pj n jobs := by
  unfold saveOne
  split
  · rfl
  · split
    · rfl
    · split
      · rfl
      · unfold pj; simp [List.filter_append, h]

theorem saveOne_congr {typ : EvType} {tx : Tx} {jobs jobs' : List Job} {sub : Sub}
    (h : pj sub.name jobs = pj sub.name jobs') :
    pj sub.name (saveOne typ tx jobs sub) = pj sub.name (saveOne typ tx jobs' sub) := by
  unfold saveOne
  rw [@hasJob_pj jobs, @hasJob_pj jobs', h]
  split
  · exact h
  · split
    · exact h
    · split
      · exact h
      · unfold pj at *; simp only [List.filter_append]; rw [h]

theorem saveEvent_other {typ : EvType} {tx : Tx} {n : String} : ∀ {subs : List Sub} {jobs : List Job},
    (∀ sub ∈ subs, sub.name ≠ n) → pj n (saveEvent subs typ tx jobs) = pj n jobs := by
  intro subs
  induction subs with
  | nil => intro jobs _; rfl
  | cons s rest ih =>
    intro jobs h
    unfold saveEvent
    simp only [List.foldl_cons]
    have := @ih (saveOne typ tx jobs s) (fun x hx => h x (List.mem_cons_of_mem _ hx))
    unfold saveEvent at this
    rw [this, saveOne_other (h s List.mem_cons_self)]

theorem saveEvent_self {typ : EvType} {tx : Tx} {sub0 : Sub} : ∀ {subs : List Sub} {jobs : List Job},
    (subs.map (·.name)).Nodup → sub0 ∈ subs →
    pj sub0.name (saveEvent subs typ tx jobs) = pj sub0.name (saveOne typ tx jobs sub0) := by
  intro subs
  induction subs with
  | nil => intro jobs _ h; cases h
  | cons s rest ih =>
    intro jobs hnd hm
    simp only [List.map_cons, List.nodup_cons] at hnd
    unfold saveEvent
    simp only [List.foldl_cons]
    by_cases hs : s = sub0
    · subst hs
      have hrest : ∀ x ∈ rest, x.name ≠ s.name := by
        intro x hx he
        exact hnd.1 (List.mem_map.mpr ⟨x, hx, he⟩)
      have := @saveEvent_other typ tx s.name rest (saveOne typ tx jobs s) hrest
      unfold saveEvent at this
      exact this
    · have hm' : sub0 ∈ rest := by
        cases hm with
        | head => exact (hs rfl).elim
        | tail _ h => exact h
      have hne : s.name ≠ sub0.name := by
        intro he
        exact hnd.1 (List.mem_map.mpr ⟨sub0, hm', he.symm⟩)
      have := @ih (saveOne typ tx jobs s) hnd.2 hm'
      unfold saveEvent at this
      rw [this]
      exact saveOne_congr (saveOne_other hne)

theorem notifyOne_other {typ : EvType} {tx : Tx} {jl : List Job × List Ev} {sub : Sub} {n : String} (h : sub.name ≠ n) :
    pj n (notifyOne typ tx jl sub).1 = pj n jl.1 ∧ pe n (notifyOne typ tx jl sub).2 = pe n jl.2 := by
  unfold notifyOne
  split
  · exact ⟨rfl, rfl⟩
  · split
    · split
      · exact ⟨rfl, rfl⟩
      · split
        · exact ⟨pj_filter_other h _, by unfold pe; simp [List.filter_append, h]⟩
        · exact ⟨pj_map_other h _, by unfold pe; simp [List.filter_append, h]⟩
    · refine ⟨rfl, ?_⟩
      unfold pe; simp [List.filter_append, h]

theorem notify_other {typ : EvType} {tx : Tx} {n : String} : ∀ {subs : List Sub} {jl : List Job × List Ev},
    (∀ sub ∈ subs, sub.name ≠ n) →
    pj n (notify subs typ tx jl).1 = pj n jl.1 ∧ pe n (notify subs typ tx jl).2 = pe n jl.2 := by
  intro subs
  induction subs with
  | nil => intro jl _; exact ⟨rfl, rfl⟩
  | cons s rest ih =>
    intro jl h
    unfold notify
    simp only [List.foldl_cons]
    have h1 := @notifyOne_other typ tx jl s n (h s List.mem_cons_self)
    have h2 := @ih (notifyOne typ tx jl s) (fun x hx => h x (List.mem_cons_of_mem _ hx))
    unfold notify at h2
    exact ⟨h2.1.trans h1.1, h2.2.trans h1.2⟩

theorem pe_append {n : String} {l : List Ev} {e : Ev} (h : e.sub = n) : pe n (l ++ [e]) = pe n l ++ [e] := by
  unfold pe; simp [List.filter_append, h]

theorem find_pj {n : String} {r : Nat} : ∀ (l : List Job),
    (pj n l).find? (fun j => decide (j.sub = n ∧ j.ref = r)) = l.find? (fun j => decide (j.sub = n ∧ j.ref = r)) := by
  intro l
  induction l with
  | nil => rfl
  | cons j t ih =>
    by_cases hj : j.sub = n
    · rw [pj_cons_pos hj, List.find?_cons, List.find?_cons, ih]
    · rw [pj_cons_neg hj, List.find?_cons, ih]
      simp [hj]

theorem pj_filter_self {n : String} {r : Nat} : ∀ (l : List Job),
    pj n (l.filter (fun j' => !(decide (j'.sub = n ∧ j'.ref = r)))) =
      (pj n l).filter (fun j' => !(decide (j'.sub = n ∧ j'.ref = r))) := by
  intro l
  unfold pj
  rw [List.filter_filter, List.filter_filter]
  congr 1
  funext j
  exact Bool.and_comm _ _

theorem pj_map_self {n : String} {r : Nat} : ∀ (l : List Job),
    pj n (l.map (fun j' => if j'.sub = n ∧ j'.ref = r then { j' with failed := true } else j')) =
      (pj n l).map (fun j' => if j'.sub = n ∧ j'.ref = r then { j' with failed := true } else j') := by
  intro l
  induction l with
  | nil => rfl
  | cons j t ih =>
    rw [List.map_cons]
    by_cases hj : j.sub = n
    · rw [pj_cons_pos hj, List.map_cons, ← ih]
      by_cases hc : j.sub = n ∧ j.ref = r
      · rw [if_pos hc]; exact pj_cons_pos hj
      · rw [if_neg hc]; exact pj_cons_pos hj
    · have hc : ¬ (j.sub = n ∧ j.ref = r) := fun hc => hj hc.1
      rw [if_neg hc, pj_cons_neg hj, pj_cons_neg hj, ih]

/-- `notifyOne` for subscriber `sub` only looks at, and only changes, `sub`'s own jobs and ledger entries -/
theorem notifyOne_proj {typ : EvType} {tx : Tx} {jl : List Job × List Ev} {sub : Sub} :
    pj sub.name (notifyOne typ tx jl sub).1 = (notifyOne typ tx (pj sub.name jl.1, pe sub.name jl.2) sub).1 ∧
    pe sub.name (notifyOne typ tx jl sub).2 = (notifyOne typ tx (pj sub.name jl.1, pe sub.name jl.2) sub).2 := by
  unfold notifyOne
  split
  · exact ⟨rfl, rfl⟩
  · split
    · simp only [find_pj]
      split
      · exact ⟨rfl, rfl⟩
      · split
        · exact ⟨pj_filter_self _, pe_append rfl⟩
        · exact ⟨pj_map_self _, pe_append rfl⟩
    · exact ⟨rfl, pe_append rfl⟩

theorem notifyOne_congr {typ : EvType} {tx : Tx} {jl jl' : List Job × List Ev} {sub : Sub}
    (h1 : pj sub.name jl.1 = pj sub.name jl'.1) (h2 : pe sub.name jl.2 = pe sub.name jl'.2) :
    pj sub.name (notifyOne typ tx jl sub).1 = pj sub.name (notifyOne typ tx jl' sub).1 ∧
    pe sub.name (notifyOne typ tx jl sub).2 = pe sub.name (notifyOne typ tx jl' sub).2 := by
  have a := @notifyOne_proj typ tx jl sub
  have b := @notifyOne_proj typ tx jl' sub
  rw [a.1, a.2, b.1, b.2, h1, h2]
  exact ⟨rfl, rfl⟩

theorem notify_self {typ : EvType} {tx : Tx} {sub0 : Sub} : ∀ {subs : List Sub} {jl : List Job × List Ev},
    (subs.map (·.name)).Nodup → sub0 ∈ subs →
    pj sub0.name (notify subs typ tx jl).1 = pj sub0.name (notifyOne typ tx jl sub0).1 ∧
    pe sub0.name (notify subs typ tx jl).2 = pe sub0.name (notifyOne typ tx jl sub0).2 := by
  intro subs
  induction subs with
  | nil => intro jl _ h; cases h
  | cons s rest ih =>
    intro jl hnd hm
    simp only [List.map_cons, List.nodup_cons] at hnd
    unfold notify
    simp only [List.foldl_cons]
    by_cases hs : s = sub0
    · subst hs
      have hrest : ∀ x ∈ rest, x.name ≠ s.name := by
        intro x hx he
        exact hnd.1 (List.mem_map.mpr ⟨x, hx, he⟩)
      have := @notify_other typ tx s.name rest (notifyOne typ tx jl s) hrest
      unfold notify at this
      exact this
    · have hm' : sub0 ∈ rest := by
        cases hm with
        | head => exact (hs rfl).elim
        | tail _ h => exact h
      have hne : s.name ≠ sub0.name := by
        intro he
        exact hnd.1 (List.mem_map.mpr ⟨sub0, hm', he.symm⟩)
      have h2 := @ih (notifyOne typ tx jl s) hnd.2 hm'
      unfold notify at h2
      have h1 := @notifyOne_other typ tx jl s sub0.name hne
      have h3 := @notifyOne_congr typ tx (notifyOne typ tx jl s) jl sub0 h1.1 h1.2
      exact ⟨h2.1.trans h3.1, h2.2.trans h3.2⟩


def evCount (led : List Ev) (n : String) (typ : EvType) (r : Nat) : Nat :=
  ((pe n led).filter (fun e => e.typ = typ ∧ e.ref = r)).length

/-- subscriber configuration as the node has it: unique names (registration refuses duplicates), and a persistent
    subscriber listens to ONE event type (its job key is the ref alone; all three real persistent subscribers do) -/
def SubsOK (subs : List Sub) : Prop :=
  (subs.map (·.name)).Nodup ∧ ∀ sub ∈ subs, sub.persistent = true → ¬(sub.wantTx = true ∧ sub.wantPayload = true)

theorem accepts_tx_want {sub : Sub} {tx : Tx} (h : sub.accepts .tx tx = true) : sub.wantTx = true := by
  unfold Sub.accepts at h
  simp only [Bool.and_eq_true] at h
  exact h.1

theorem accepts_payload_want {sub : Sub} {tx : Tx} (h : sub.accepts .payload tx = true) : sub.wantPayload = true := by
  unfold Sub.accepts at h
  simp only [Bool.and_eq_true] at h
  exact h.1

theorem pj_append {n : String} {l : List Job} {j : Job} (h : j.sub = n) : pj n (l ++ [j]) = pj n l ++ [j] := by
  unfold pj; simp [List.filter_append, h]

theorem find_append_last {l : List Job} {nj : Job} {q : Job → Bool} (hl : ∀ j ∈ l, q j = false) (hq : q nj = true) :
    (l ++ [nj]).find? q = some nj := by
  induction l with
  | nil => simp [List.find?_cons, hq]
  | cons j t ih =>
    rw [List.cons_append, List.find?_cons, hl j List.mem_cons_self]
    exact ih (fun x hx => hl x (List.mem_cons_of_mem _ hx))

def txJob (n : String) (r : Nat) : Job := { sub := n, ref := r, typ := .tx, failed := false }

/-- the tx notification, seen from an interested subscriber: exactly one call, with a tx event -/
theorem notifyTx_self {subs : List Sub} {sub0 : Sub} {tx : Tx} {jobs1 : List Job} {led : List Ev}
    (hok : SubsOK subs) (hm : sub0 ∈ subs) (hacc : sub0.accepts .tx tx = true)
    (hnone : ∀ j ∈ jobs1, j.sub = sub0.name → j.ref ≠ tx.ref) :
    pe sub0.name (notify subs .tx tx (saveEvent subs .tx tx jobs1, led)).2 =
      pe sub0.name led ++ [⟨sub0.name, .tx, tx.ref⟩] := by
  have h1 := (@notify_self .tx tx sub0 subs (saveEvent subs .tx tx jobs1, led) hok.1 hm).2
  rw [h1, (@notifyOne_proj .tx tx (saveEvent subs .tx tx jobs1, led) sub0).2]
  simp only
  rw [saveEvent_self hok.1 hm]
  have hnacc : (!sub0.accepts .tx tx) = false := by simp [hacc]
  by_cases hp : sub0.persistent = true
  · have hnj : hasJob jobs1 sub0.name tx.ref = false := by
      unfold hasJob
      rw [List.any_eq_false]
      intro j hj hc
      simp only [decide_eq_true_eq] at hc
      exact hnone j hj hc.1 hc.2
    have hsave : saveOne .tx tx jobs1 sub0 = jobs1 ++ [txJob sub0.name tx.ref] := by
      unfold saveOne txJob
      simp [hp, hacc, hnj]
    rw [hsave, pj_append (n := sub0.name) (j := txJob sub0.name tx.ref) rfl]
    unfold notifyOne
    simp only [hnacc, Bool.false_eq_true, if_false, hp, if_true]
    have hfind : (pj sub0.name jobs1 ++ [txJob sub0.name tx.ref]).find?
        (fun j : Job => decide (j.sub = sub0.name ∧ j.ref = tx.ref)) = some (txJob sub0.name tx.ref) := by
      apply find_append_last
      · intro j hj
        unfold pj at hj
        have := List.mem_filter.mp hj
        simp only [decide_eq_false_iff_not, not_and]
        intro hs
        exact hnone j this.1 hs
      · simp [txJob]
    rw [hfind]
    simp only [txJob]
    split <;> rfl
  · have hsave : saveOne .tx tx jobs1 sub0 = jobs1 := by
      unfold saveOne
      simp [hp]
    rw [hsave]
    unfold notifyOne
    simp only [hnacc, Bool.false_eq_true, if_false, hp]

/-- the payload notification adds, for a tx-interested subscriber, at most one event and it is of type payload -/
theorem notifyPayload_self {subs : List Sub} {sub0 : Sub} {tx : Tx} {jl : List Job × List Ev}
    (hok : SubsOK subs) (hm : sub0 ∈ subs) (hacc : sub0.accepts .tx tx = true) :
    ∃ extra, (∀ e ∈ extra, e.typ = EvType.payload) ∧
      pe sub0.name (notify subs .payload tx jl).2 = pe sub0.name jl.2 ++ extra := by
  have h1 := (@notify_self .payload tx sub0 subs jl hok.1 hm).2
  rw [h1]
  unfold notifyOne
  split
  · exact ⟨[], by simp, by simp⟩
  · rename_i hacc2
    have hwp : sub0.wantPayload = true := accepts_payload_want (by simpa using hacc2)
    have hnp : ¬ sub0.persistent = true := fun hp => hok.2 sub0 hm hp ⟨accepts_tx_want hacc, hwp⟩
    simp only [hnp, if_false]
    exact ⟨[⟨sub0.name, .payload, tx.ref⟩], by simp, pe_append rfl⟩

theorem jobsAfterPayload_self {subs : List Sub} {sub0 : Sub} {s : St} {tx : Tx} {p : Option Nat}
    (hok : SubsOK subs) (hm : sub0 ∈ subs) (hacc : sub0.accepts .tx tx = true) :
    pj sub0.name (jobsAfterPayload subs s tx p) = pj sub0.name s.jobs := by
  cases p with
  | none => rfl
  | some q =>
    unfold jobsAfterPayload
    rw [saveEvent_self hok.1 hm]
    congr 1
    unfold saveOne
    by_cases hp : sub0.persistent = true
    · have : sub0.accepts .payload tx = false := by
        cases h : sub0.accepts .payload tx with
        | false => rfl
        | true => exact (hok.2 sub0 hm hp ⟨accepts_tx_want hacc, accepts_payload_want h⟩).elim
      simp [hp, this]
    · simp [hp]

/-- one admission: for every subscriber interested in the transaction, its ledger grows by exactly one tx event
    (plus possibly a payload event) -/
theorem admit_ledger_self {env : Env} {subs : List Sub} {sub0 : Sub} {s : St} {tx : Tx} {p : Option Nat}
    (hok : SubsOK subs) (hm : sub0 ∈ subs) (hacc : sub0.accepts .tx tx = true)
    (hjobs : ∀ j ∈ s.jobs, j.ref ≠ tx.ref) (hne : (add env subs s tx p).1 ≠ s) :
    ∃ extra, (∀ e ∈ extra, e.typ = EvType.payload) ∧
      pe sub0.name (add env subs s tx p).1.ledger = pe sub0.name s.ledger ++ [⟨sub0.name, .tx, tx.ref⟩] ++ extra := by
  rw [add_ledger hne]
  have hnone : ∀ j ∈ jobsAfterPayload subs s tx p, j.sub = sub0.name → j.ref ≠ tx.ref := by
    intro j hj hs
    have : j ∈ pj sub0.name (jobsAfterPayload subs s tx p) := by
      unfold pj; exact List.mem_filter.mpr ⟨hj, by simp [hs]⟩
    rw [jobsAfterPayload_self hok hm hacc] at this
    unfold pj at this
    exact hjobs j (List.mem_filter.mp this).1
  have htx := @notifyTx_self subs sub0 tx (jobsAfterPayload subs s tx p) s.ledger hok hm hacc hnone
  unfold notifyAll
  split
  · obtain ⟨extra, he, hp⟩ := @notifyPayload_self subs sub0 tx
      (notify subs .tx tx (saveEvent subs .tx tx (jobsAfterPayload subs s tx p), s.ledger)) hok hm hacc
    exact ⟨extra, he, by rw [hp, htx]⟩
  · exact ⟨[], by simp, by rw [htx]; simp⟩


theorem evCount_append {l a : List Ev} {n : String} {typ : EvType} {r : Nat} :
    evCount (l ++ a) n typ r = evCount l n typ r + evCount a n typ r := by
  unfold evCount pe
  simp [List.filter_append]

theorem evCount_zero {l : List Ev} {n : String} {typ : EvType} {r : Nat} (h : ∀ e ∈ l, e.ref ≠ r) :
    evCount l n typ r = 0 := by
  unfold evCount pe
  rw [List.length_eq_zero_iff, List.filter_eq_nil_iff]
  intro e he
  have := (List.mem_filter.mp he).1
  simp [h e this]

/-- the per-subscriber count only depends on the subscriber's projection -/
theorem evCount_pe {l : List Ev} {n : String} {typ : EvType} {r : Nat} :
    evCount l n typ r = ((pe n l).filter (fun e => e.typ = typ ∧ e.ref = r)).length := rfl

theorem once_add {env : Env} {subs : List Sub} {s : St} {tx : Tx} {p : Option Nat}
    (hok : SubsOK subs) (hi : Inv env s)
    (ho : ∀ sub ∈ subs, ∀ t ∈ s.txs, sub.accepts .tx t = true → evCount s.ledger sub.name .tx t.ref = 1) :
    ∀ sub ∈ subs, ∀ t ∈ (add env subs s tx p).1.txs, sub.accepts .tx t = true →
      evCount (add env subs s tx p).1.ledger sub.name .tx t.ref = 1 := by
  by_cases hne : (add env subs s tx p).1 = s
  · rw [hne]; exact ho
  · rcases @add_cases env subs s tx p with h | ⟨_, ha⟩
    · exact (hne h).elim
    · intro sub hm t ht hacc
      rw [ha.txs] at ht
      have hold0 : ∀ e ∈ s.ledger, e.ref ≠ tx.ref := by
        intro e he hr
        exact ha.fresh (hr ▸ hi.ledgerRefs e he)
      cases ht with
      | head =>
        have hjobs : ∀ j ∈ s.jobs, j.ref ≠ tx.ref := by
          intro j hj hr
          exact ha.fresh (hr ▸ hi.jobsRefs j hj)
        obtain ⟨extra, hex, hpe⟩ := @admit_ledger_self env subs sub s tx p hok hm hacc hjobs hne
        rw [evCount_pe, hpe]
        have h0 : ((pe sub.name s.ledger).filter (fun e => e.typ = EvType.tx ∧ e.ref = tx.ref)) = [] := by
          rw [List.filter_eq_nil_iff]
          intro e he
          have := (List.mem_filter.mp he).1
          simp [hold0 e this]
        have h2 : (extra.filter (fun e => e.typ = EvType.tx ∧ e.ref = tx.ref)) = [] := by
          rw [List.filter_eq_nil_iff]
          intro e he
          simp [hex e he]
        rw [List.filter_append, List.filter_append, h0, h2]
        simp
      | tail _ ht =>
        have hr : t.ref ≠ tx.ref := by
          intro he
          apply ha.fresh
          rw [← he]
          unfold refsOf
          exact List.mem_map.mpr ⟨t, ht, rfl⟩
        obtain ⟨addl, hadd, hall⟩ := ha.ledger
        rw [hadd, evCount_append, ho sub hm t ht hacc, evCount_zero]
        intro e he hc
        exact hr (hc.symm.trans (hall e he))


/-! ### the jwx stage: the LAST occurrence of a member decides -/

theorem getLast_cons {k' k : String} {v : J} {t : List (String × J)} :
    getLast ((k', v) :: t) k = match getLast t k with
      | some w => some w
      | none => if k' = k then some v else none := rfl

theorem getLast_append_single {l : List (String × J)} {k' k : String} {v : J} :
    getLast (l ++ [(k', v)]) k = if k' = k then some v else getLast l k := by
  induction l with
  | nil => simp [getLast]
  | cons a t ih =>
    obtain ⟨ka, va⟩ := a
    rw [List.cons_append, getLast_cons, ih, getLast_cons]
    by_cases h : k' = k
    · simp [h]
    · simp only [h, if_false]

/-- what one member does to the private parameters and to `alg` -/
theorem jwxMember_spec {jwkOK : Bool} {r r' : Raw} {k : String} {v : J} (h : jwxMember jwkOK r k v = .ok r') :
    (isPrivName k = true → r'.priv = r.priv ++ [(k, v)] ∧ r'.alg = r.alg ∧ r'.kid = r.kid ∧ r'.hasJwk = r.hasJwk) ∧
    (isPrivName k = false → r'.priv = r.priv) ∧
    (k = "alg" → ((∃ s, v = .str s ∧ r'.alg = s) ∨ (v = .null ∧ r'.alg = ""))) ∧
    (k ≠ "alg" → r'.alg = r.alg) ∧
    (k = "jwk" → r'.hasJwk = true) ∧ (k ≠ "jwk" → r'.hasJwk = r.hasJwk) := by
  unfold jwxMember at h
  unfold isPrivName
  by_cases h1 : k = "alg"
  · subst h1
    simp only [if_true] at h
    cases v <;> simp at h <;> subst h <;> simp
  · simp only [h1, if_false] at h
    by_cases h2 : k = "cty"
    · subst h2
      simp only [if_true] at h
      cases v <;> simp at h <;> subst h <;> simp
    · simp only [h2, if_false] at h
      by_cases h3 : k = "kid"
      · subst h3
        simp only [if_true] at h
        cases v <;> simp at h <;> subst h <;> simp
      · simp only [h3, if_false] at h
        by_cases h4 : k = "jwk"
        · subst h4
          simp only [if_true] at h
          split at h
          · simp at h; subst h; simp
          · cases h
        · simp only [h4, if_false] at h
          by_cases h5 : k = "crit"
          · subst h5
            simp only [if_true] at h
            cases v with
            | null => simp at h; subst h; simp
            | arr l =>
              simp only at h
              split at h
              · simp at h; subst h; simp
              · cases h
            | bool b => simp at h
            | num m e => simp at h
            | str s => simp at h
            | obj => simp at h
          · simp only [h5, if_false] at h
            by_cases h6 : jwxStringMembers.contains k = true
            · have h6' : k ∈ jwxStringMembers := by simpa using h6
              simp only [h6, if_true] at h
              cases v <;> simp at h <;> subst h <;> simp [h1, h2, h3, h4, h5, h6']
            · have h6' : k ∉ jwxStringMembers := by simpa using h6
              simp only [h6, if_false] at h
              simp at h
              subst h
              simp [h1, h2, h3, h4, h5, h6']

theorem jwxMembers_spec {jwkOK : Bool} : ∀ {ms : List (String × J)} {r0 r : Raw}, jwxMembers jwkOK r0 ms = .ok r →
    (∀ k, isPrivName k = true → getLast r.priv k = match getLast ms k with
        | some v => some v
        | none => getLast r0.priv k) ∧
    ((getLast ms "alg" = none ∧ r.alg = r0.alg) ∨ (∃ s, getLast ms "alg" = some (.str s) ∧ r.alg = s) ∨
      (getLast ms "alg" = some .null ∧ r.alg = "")) ∧
    (r.hasJwk = (r0.hasJwk || (getLast ms "jwk").isSome)) := by
  intro ms
  induction ms with
  | nil =>
    intro r0 r h
    simp only [jwxMembers, Res.ok.injEq] at h
    subst h
    exact ⟨fun k _ => rfl, Or.inl ⟨rfl, rfl⟩, by simp [getLast]⟩
  | cons a t ih =>
    intro r0 r h
    obtain ⟨k0, v0⟩ := a
    unfold jwxMembers at h
    split at h
    · rename_i r1 h1
      obtain ⟨i1, i2, i3⟩ := ih h
      obtain ⟨s1, s2, s3, s4, s5, s6⟩ := jwxMember_spec h1
      refine ⟨?_, ?_, ?_⟩
      · intro k hk
        rw [i1 k hk, getLast_cons]
        cases hg : getLast t k with
        | some w => rfl
        | none =>
          simp only
          by_cases hp : isPrivName k0 = true
          · rw [(s1 hp).1, getLast_append_single]
            by_cases he : k0 = k <;> simp [he]
          · have hp' : isPrivName k0 = false := by simpa using hp
            rw [s2 hp']
            have : k0 ≠ k := by intro he; rw [he] at hp; exact hp hk
            simp [this]
      · rw [getLast_cons]
        rcases i2 with ⟨g, ha⟩ | ⟨s, g, ha⟩ | ⟨g, ha⟩
        · rw [g]
          simp only
          by_cases hk : k0 = "alg"
          · rcases s3 hk with ⟨s, hv, hs⟩ | ⟨hv, hs⟩
            · exact Or.inr (Or.inl ⟨s, by simp [hk, hv], ha.trans hs⟩)
            · exact Or.inr (Or.inr ⟨by simp [hk, hv], ha.trans hs⟩)
          · exact Or.inl ⟨by simp [hk], ha.trans (s4 hk)⟩
        · exact Or.inr (Or.inl ⟨s, by rw [g], ha⟩)
        · exact Or.inr (Or.inr ⟨by rw [g], ha⟩)
      · rw [i3, getLast_cons]
        by_cases hk : k0 = "jwk"
        · rw [s5 hk]
          cases getLast t "jwk" <;> simp [hk]
        · rw [s6 hk]
          cases getLast t "jwk" <;> simp [hk]
    · cases h
    · cases h


end Nuts.C06
