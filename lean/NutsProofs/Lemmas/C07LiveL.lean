/-
  C07 liveness lemmas, part L: node invariants kept by every handler.
-/
import NutsModel.C07.Round
import NutsProofs.Lemmas.C07
import NutsProofs.Lemmas.C07LiveK
open Nuts.Proto Nuts Nuts.Proto.L

namespace Nuts.Proto.Live

/-! ### Part L: node invariants kept by every handler (payload store, gossip queues) -/

/-- every stored payload is non-empty and stored under its own hash -/
def StoreInv (n : Node) : Prop := ∀ h p, Nuts.alGet n.payloads h = some p → p.sha = h ∧ p.len ≠ 0
/-- every public transaction has its payload -/
def PubHave (n : Node) : Prop := ∀ t ∈ n.dag, t.pal = [] → (readPayload n t.payloadHash).isSome = true
/-- gossip queues are in sync with the DAG -/
def QSync (n : Node) : Prop :=
  ∀ q ∈ n.queues, q.xor = xorOf n.dag ∧ q.clock = lcOf n.dag ∧ ∀ r ∈ q.queue, present n.dag r = true
def NI (n : Node) : Prop := StoreInv n ∧ PubHave n ∧ QSync n
/-- payloads on the wire are non-empty -/
def MsgOK : Msg → Prop
  | .txList _ _ _ txs => ∀ e ∈ txs, ∀ p, e.payload = some p → p.len ≠ 0
  | _ => True
/-- connections and the set of gossip queues are unchanged -/
def SameShape (n n' : Node) : Prop := n'.peers = n.peers ∧ n'.queues.map (·.peer) = n.queues.map (·.peer)

theorem SameShape.refl (n : Node) : SameShape n n := ⟨rfl, rfl⟩
theorem SameShape.trans {a b c : Node} (h1 : SameShape a b) (h2 : SameShape b c) : SameShape a c :=
  ⟨h2.1.trans h1.1, h2.2.trans h1.2⟩

theorem payloadsOK_of_NI {n : Node} (h : NI n) : PayloadsOK n := by
  intro t ht hp
  have := h.2.1 t ht hp
  cases hr : readPayload n t.payloadHash with
  | none => rw [hr] at this; cases this
  | some p => exact ⟨p, rfl, (h.1 _ _ hr).1, (h.1 _ _ hr).2⟩

theorem alGet_alPut (m : List (Ref × Payload)) (k k' : Ref) (v : Payload) :
    Nuts.alGet (Nuts.alPut m k v) k' = if k = k' then some v else Nuts.alGet m k' := by
  unfold Nuts.alGet Nuts.alPut
  by_cases h : k = k'
  · subst h; simp
  · have hb : (k == k') = false := by simpa using h
    simp only [List.find?_cons, hb, h, if_false]
    congr 1
    induction m with
    | nil => rfl
    | cons x xs ih =>
      simp only [List.filter_cons]
      by_cases hx : x.1 = k
      · have h1 : (!(x.1 == k)) = false := by simp [hx]
        have h2 : (x.1 == k') = false := by rw [hx]; exact hb
        simp only [h1, Bool.false_eq_true, if_false, List.find?_cons, h2]
        exact ih
      · have h1 : (!(x.1 == k)) = true := by simp [hx]
        simp only [h1, if_true, List.find?_cons]
        by_cases hx' : (x.1 == k') = true
        · simp [hx']
        · simp only [hx']
          exact ih

/-- only conversation bookkeeping differs -/
def ConvOnly (n n' : Node) : Prop := n'.dag = n.dag ∧ n'.payloads = n.payloads ∧ n'.queues = n.queues ∧ n'.peers = n.peers

theorem NI_convOnly {n n' : Node} (h : ConvOnly n n') (hn : NI n) : NI n' ∧ SameShape n n' := by
  obtain ⟨h1, h2, h3, h4⟩ := h
  refine ⟨⟨?_, ?_, ?_⟩, h4, by rw [h3]⟩
  · intro k p hp; rw [h2] at hp; exact hn.1 k p hp
  · intro t ht hp; rw [h1] at ht; unfold readPayload; rw [h2]; exact hn.2.1 t ht hp
  · intro q hq; rw [h3] at hq; rw [h1]; exact hn.2.2 q hq

theorem sendRequest_convOnly (cfg : Cfg) (n : Node) (peer : Nat) (data : ConvData) (mk : Cid → Msg) :
    ConvOnly n (sendRequest cfg n peer data mk).node := by
  unfold sendRequest startConversation
  split
  · exact ⟨rfl, rfl, rfl, rfl⟩
  · rename_i n' cid h
    split at h
    · cases h
    · simp only [Option.some.injEq, Prod.mk.injEq] at h
      obtain ⟨h1, _⟩ := h
      subst h1
      split <;> exact ⟨rfl, rfl, rfl, rfl⟩

theorem ConvOnly.trans {a b c : Node} (h1 : ConvOnly a b) (h2 : ConvOnly b c) : ConvOnly a c :=
  ⟨h2.1.trans h1.1, h2.2.1.trans h1.2.1, h2.2.2.1.trans h1.2.2.1, h2.2.2.2.trans h1.2.2.2⟩

theorem logStep_keeps (cfg : Cfg) (q : PeerQueue) (r : Ref) :
    (logStep cfg q r).peer = q.peer ∧ (logStep cfg q r).xor = q.xor ∧ (logStep cfg q r).clock = q.clock ∧
    ∀ x ∈ (logStep cfg q r).queue, x ∈ q.queue := by
  unfold logStep
  exact ⟨rfl, rfl, rfl, fun x hx => (List.mem_filter.mp hx).1⟩

theorem logReceived_keeps (cfg : Cfg) : ∀ (refs : List Ref) (q : PeerQueue),
    (q.logReceived cfg refs).peer = q.peer ∧ (q.logReceived cfg refs).xor = q.xor ∧ (q.logReceived cfg refs).clock = q.clock ∧
    ∀ x ∈ (q.logReceived cfg refs).queue, x ∈ q.queue := by
  intro refs
  induction refs with
  | nil => intro q; exact ⟨rfl, rfl, rfl, fun x hx => hx⟩
  | cons r rs ih =>
    intro q
    obtain ⟨a1, a2, a3, a4⟩ := logStep_keeps cfg q r
    obtain ⟨b1, b2, b3, b4⟩ := ih (logStep cfg q r)
    unfold PeerQueue.logReceived
    simp only [List.foldl_cons]
    exact ⟨b1.trans a1, b2.trans a2, b3.trans a3, fun x hx => a4 x (b4 x hx)⟩

theorem NI_gossipReceived (cfg : Cfg) (n : Node) (peer : Nat) (refs : List Ref) (hn : NI n) :
    NI (gossipReceived cfg n peer refs) ∧ SameShape n (gossipReceived cfg n peer refs) := by
  refine ⟨⟨hn.1, hn.2.1, ?_⟩, rfl, ?_⟩
  · intro q hq
    simp only [gossipReceived, List.mem_map] at hq
    obtain ⟨q0, hq0, rfl⟩ := hq
    obtain ⟨h1, h2, h3⟩ := hn.2.2 q0 hq0
    split
    · obtain ⟨_, b2, b3, b4⟩ := logReceived_keeps cfg refs q0
      exact ⟨b2.trans h1, b3.trans h2, fun r hr => h3 r (b4 r hr)⟩
    · exact ⟨h1, h2, h3⟩
  · simp only [gossipReceived, List.map_map]
    apply List.map_congr_left
    intro q _
    simp only [Function.comp]
    split
    · exact (logReceived_keeps cfg refs q).1
    · rfl

/-- committing an admitted transaction keeps the invariants, provided a public one comes with its (non-empty) payload -/
theorem NI_commit (cfg : Cfg) (n : Node) (tx : Tx) (pl : Option Payload) (hn : NI n) (hadd : addCheck n.dag tx pl = .added)
    (hpub : tx.pal = [] → pl.isSome = true) (hlen : ∀ p, pl = some p → p.len ≠ 0) :
    NI (commitTx cfg n tx pl) ∧ SameShape n (commitTx cfg n tx pl) := by
  obtain ⟨_, _, _, _, _, hsha⟩ := addCheck_added hadd
  have hstore : ∀ k p, Nuts.alGet (putPayload n.payloads pl) k = some p → p.sha = k ∧ p.len ≠ 0 := by
    intro k p hp
    cases pl with
    | none => exact hn.1 k p hp
    | some p0 =>
      simp only [putPayload, alGet_alPut] at hp
      split at hp
      · rename_i hk
        cases hp
        exact ⟨hk, hlen p rfl⟩
      · exact hn.1 k p hp
  have hkeep : ∀ k, (Nuts.alGet n.payloads k).isSome = true → (Nuts.alGet (putPayload n.payloads pl) k).isSome = true := by
    intro k hk
    cases pl with
    | none => exact hk
    | some p0 =>
      simp only [putPayload, alGet_alPut]
      split
      · rfl
      · exact hk
  refine ⟨⟨hstore, ?_, ?_⟩, rfl, ?_⟩
  · intro t ht hp
    show (Nuts.alGet (putPayload n.payloads pl) t.payloadHash).isSome = true
    rcases List.mem_cons.mp ht with rfl | h
    · cases hpl : pl with
      | none => have := hpub hp; rw [hpl] at this; cases this
      | some p0 =>
        simp only [putPayload, alGet_alPut]
        have := hsha p0 hpl
        simp [this]
    · exact hkeep _ (hn.2.1 t h hp)
  · intro q hq
    simp only [commitTx, transactionRegistered, List.mem_map] at hq
    obtain ⟨q0, hq0, rfl⟩ := hq
    obtain ⟨h1, h2, h3⟩ := hn.2.2 q0 hq0
    have hold : ∀ r ∈ q0.queue, present (tx :: n.dag) r = true := by
      intro r hr
      obtain ⟨t', ht', hr'⟩ := present_iff.mp (h3 r hr)
      exact present_iff.mpr ⟨t', List.mem_cons_of_mem _ ht', hr'⟩
    unfold PeerQueue.enqueue
    simp only
    split
    · exact ⟨rfl, rfl, hold⟩
    · split
      · exact ⟨rfl, rfl, hold⟩
      · refine ⟨rfl, rfl, fun r hr => ?_⟩
        unfold uAdd at hr
        split at hr
        · exact hold r hr
        · rcases List.mem_append.mp hr with h | h
          · exact hold r h
          · simp only [List.mem_singleton] at h
            subst h
            exact present_iff.mpr ⟨tx, List.mem_cons_self, rfl⟩
  · simp only [commitTx, transactionRegistered, List.map_map]
    apply List.map_congr_left
    intro q _
    simp only [Function.comp, PeerQueue.enqueue]
    split
    · rfl
    · split <;> rfl


theorem NI_addLoop (cfg : Cfg) (env : Env) : ∀ (l : List (Tx × Option Payload)) (n : Node), NI n →
    (∀ x ∈ l, ∀ p, x.2 = some p → p.len ≠ 0) →
    NI (addLoop cfg env n l).node ∧ SameShape n (addLoop cfg env n l).node := by
  intro l
  induction l with
  | nil => intro n hn _; exact ⟨hn, SameShape.refl n⟩
  | cons x xs ih =>
    intro n hn hl
    obtain ⟨tx, pl⟩ := x
    have hxs : ∀ x ∈ xs, ∀ p, x.2 = some p → p.len ≠ 0 := fun x hx => hl x (List.mem_cons_of_mem _ hx)
    unfold addLoop
    split
    · exact ⟨hn, SameShape.refl n⟩
    · rename_i hnp
      rcases addTx_cases cfg env n tx pl with ⟨hr, hc, hnode⟩ | ⟨hr, hnode, _⟩
      · have hpub : tx.pal = [] → pl.isSome = true := by
          intro hp
          cases pl with
          | none => simp [hp, payloadEmpty] at hnp
          | some _ => rfl
        obtain ⟨hni, hsh⟩ := NI_commit cfg n tx pl hn hc hpub (hl (tx, pl) List.mem_cons_self)
        split
        · rename_i n1 out1 heq
          have : n1 = commitTx cfg n tx pl := by rw [← hnode, heq]
          subst this
          obtain ⟨h1, h2⟩ := ih _ hni hxs
          exact ⟨h1, hsh.trans h2⟩
        · rename_i heq; rw [heq] at hr; cases hr
        · exact ⟨hn, SameShape.refl n⟩
        · exact ⟨hn, SameShape.refl n⟩
      · split
        · rename_i heq; rw [heq] at hr; exact absurd rfl hr
        · rename_i n1 _ heq
          have : n1 = n := by rw [← hnode, heq]
          subst this
          exact ih _ hn hxs
        · exact ⟨hn, SameShape.refl n⟩
        · exact ⟨hn, SameShape.refl n⟩

theorem parseAll_payloads : ∀ (txs : List NetTx) (ps : List (Tx × Option Payload)), parseAll txs = some ps →
    ∀ x ∈ ps, ∃ e ∈ txs, e.payload = x.2 := by
  intro txs
  induction txs with
  | nil => intro ps h x hx; simp [parseAll] at h; subst h; cases hx
  | cons t ts ih =>
    intro ps h x hx
    unfold parseAll at h
    split at h
    · cases h
    · rename_i y hy
      cases hp : parseAll ts with
      | none => simp [hp] at h
      | some ps' =>
        simp [hp] at h
        subst h
        rcases List.mem_cons.mp hx with rfl | hx'
        · exact ⟨t, List.mem_cons_self, rfl⟩
        · obtain ⟨e, he, hpe⟩ := ih ps' hp x hx'
          exact ⟨e, List.mem_cons_of_mem _ he, hpe⟩

theorem msgOK_request {m : Msg} (h : isRequest m = true) : MsgOK m := by
  cases m <;> simp [isRequest] at h <;> exact trivial

/-- a reply built by `collect` from a node with a sound store carries only non-empty payloads -/
theorem msgOK_reply (cfg : Cfg) (n : Node) (hs : StoreInv n) (l : List Tx) (r : List NetTx) (hc : collect n l = some r)
    (key : Nat) (cid : Cid) (o : Nat × Msg) (ho : o ∈ sendTransactionList cfg key cid r) : MsgOK o.2 := by
  obtain ⟨_, k, total, c, heq, hsub⟩ := sendTransactionList_mem cfg key cid r o ho
  rw [heq]
  intro e he p hp
  obtain ⟨t, _, _, hcase⟩ := collect_elems n l r hc e (hsub e he)
  rcases hcase with ⟨_, hread, _⟩ | ⟨_, hnone⟩
  · rw [hp] at hread
    exact (hs _ _ hread.symm).2
  · rw [hnone] at hp; cases hp

/-- **every handler keeps the node invariants** (for messages with non-empty payloads) and what it sends has non-empty payloads -/
theorem handle_NI (cfg : Cfg) (env : Env) (n : Node) (peer : Peer) (m : Msg) (hn : NI n) (hm : MsgOK m) :
    NI (handle cfg env n peer m).node ∧ SameShape n (handle cfg env n peer m).node ∧
    ∀ o ∈ (handle cfg env n peer m).out, MsgOK o.2 := by
  have conv : ∀ r : HR, ConvOnly n r.node → NI r.node ∧ SameShape n r.node := fun r h => NI_convOnly h hn
  have selfc : ConvOnly n n := ⟨rfl, rfl, rfl, rfl⟩
  cases m with
  | gossip x lc refs =>
    refine ⟨?_, ?_, fun o ho => msgOK_request (gossip_req cfg n peer x lc refs o ho)⟩ <;>
    · simp only [handle]
      unfold handleGossip
      simp only
      split
      · first | exact hn | exact SameShape.refl n
      · have hg : NI (if refs.isEmpty then n else gossipReceived cfg n peer.key refs) ∧
            SameShape n (if refs.isEmpty then n else gossipReceived cfg n peer.key refs) := by
          split
          · exact ⟨hn, SameShape.refl n⟩
          · exact NI_gossipReceived cfg n peer.key refs hn
        split
        · have := NI_convOnly (sendRequest_convOnly cfg _ peer.key (.listQuery (refs.filter fun r => !present n.dag r))
            (fun cid => .listQuery cid (refs.filter fun r => !present n.dag r))) hg.1
          first | exact this.1 | exact hg.2.trans this.2
        · have := NI_convOnly (sendRequest_convOnly cfg _ peer.key (.state (lcOf n.dag))
            (fun cid => .state cid (xorOf n.dag) (lcOf n.dag))) hg.1
          first | exact this.1 | exact hg.2.trans this.2
  | state cid x lc =>
    have hnode : (handle cfg env n peer (.state cid x lc)).node = n := by
      simp only [handle]; unfold handleState; split <;> rfl
    rw [hnode]
    exact ⟨hn, SameShape.refl n, fun o ho => msgOK_request (state_req cfg n peer cid x lc o ho)⟩
  | txSet cid a b i =>
    refine ⟨?_, ?_, fun o ho => msgOK_request (set_req cfg env n peer cid a b i o ho)⟩ <;>
    · have hcd : ConvOnly n (convDone n cid) := ⟨rfl, rfl, rfl, rfl⟩
      have key : ConvOnly n (handle cfg env n peer (.txSet cid a b i)).node := by
        simp only [handle]
        unfold handleTransactionSet
        split
        · exact selfc
        · simp only
          split
          · exact hcd
          · split
            · exact hcd.trans (sendRequest_convOnly ..)
            · exact hcd.trans (sendRequest_convOnly ..)
          · split
            · exact hcd.trans (sendRequest_convOnly ..)
            · split
              · split
                · exact hcd.trans (sendRequest_convOnly ..)
                · exact hcd.trans (sendRequest_convOnly ..)
              · exact hcd
      first | exact (NI_convOnly key hn).1 | exact (NI_convOnly key hn).2
  | listQuery cid refs =>
    rw [show (handle cfg env n peer (.listQuery cid refs)).node = n from by simp [handle, handleListQuery_node]]
    refine ⟨hn, SameShape.refl n, fun o ho => ?_⟩
    simp only [handle] at ho
    unfold handleTransactionListQuery at ho
    split at ho
    · cases ho
    · split at ho
      · cases ho
      · rename_i l hc
        exact msgOK_reply cfg n hn.1 _ l hc peer.key cid o ho
  | rangeQuery cid a b =>
    rw [show (handle cfg env n peer (.rangeQuery cid a b)).node = n from by simp [handle, handleRangeQuery_node]]
    refine ⟨hn, SameShape.refl n, fun o ho => ?_⟩
    simp only [handle] at ho
    unfold handleTransactionRangeQuery at ho
    split at ho
    · cases ho
    · simp only at ho
      split at ho
      · cases ho
      · rename_i l hc
        exact msgOK_reply cfg n hn.1 _ l hc peer.key cid o ho
  | payloadQuery ref =>
    rw [show (handle cfg env n peer (.payloadQuery ref)).node = n from by simp [handle, handlePayloadQuery_node]]
    refine ⟨hn, SameShape.refl n, fun o ho => ?_⟩
    have : ∀ m', o.2 = m' → (∃ r d, m' = .payload r d) → MsgOK o.2 := by
      intro m' h1 ⟨r, d, h2⟩; rw [h1, h2]; exact trivial
    simp only [handle] at ho
    unfold handleTransactionPayloadQuery at ho
    have hp : ∀ d, o ∈ emptyPayload peer d → MsgOK o.2 := by
      intro d h; simp only [emptyPayload, List.mem_singleton] at h; subst h; exact trivial
    have hr : ∀ (tx : Tx), o ∈ (match readPayload n tx.payloadHash with
              | none => ({ node := n, ret := "err:payload-not-found" } : HR)
              | some p => { node := n, out := [(peer.key, .payload ref (some p))] }).out → MsgOK o.2 := by
      intro tx h
      split at h
      · cases h
      · simp only [List.mem_singleton] at h; subst h; exact trivial
    split at ho
    · exact hp _ ho
    · simp only at ho
      split at ho
      · split at ho
        · exact hp _ ho
        · split at ho
          · exact hp _ ho
          · exact hp _ ho
          · split at ho
            · exact hp _ ho
            · exact hr _ ho
      · exact hr _ ho
  | payload ref data =>
    have hout : (handle cfg env n peer (.payload ref data)).out = [] := by
      simp only [handle]; unfold handleTransactionPayload
      repeat (first | rfl | split)
    refine ⟨?_, ?_, fun o ho => by rw [hout] at ho; cases ho⟩ <;>
    · simp only [handle]
      unfold handleTransactionPayload
      split
      · first | exact hn | exact SameShape.refl n
      · split
        · first | exact hn | exact SameShape.refl n
        · rename_i p
          split
          · first | exact hn | exact SameShape.refl n
          · rename_i hlen
            split
            · first | exact hn | exact SameShape.refl n
            · rename_i tx htx
              split
              · first | exact hn | exact SameShape.refl n
              · rename_i hsha
                first
                | exact ⟨rfl, rfl⟩
                | (refine ⟨?_, ?_, hn.2.2⟩
                   · intro k p' hp'
                     simp only [alGet_alPut] at hp'
                     split at hp'
                     · rename_i hk
                       cases hp'
                       exact ⟨hk, by simpa using hlen⟩
                     · exact hn.1 k p' hp'
                   · intro t ht hpal
                     show (Nuts.alGet (Nuts.alPut n.payloads p.sha p) t.payloadHash).isSome = true
                     rw [alGet_alPut]
                     split
                     · rfl
                     · exact hn.2.1 t ht hpal)
  | diagnostics => exact ⟨hn, SameShape.refl n, by simp [handle]⟩
  | unsupported => exact ⟨hn, SameShape.refl n, by simp [handle]⟩
  | txList cid num total txs =>
    refine ⟨?_, ?_, fun o ho => msgOK_request (txlist_req cfg env n peer cid num total txs o ho)⟩ <;>
    · simp only [handle]
      unfold handleTransactionList
      split
      · first | exact hn | exact SameShape.refl n
      · split
        · first | exact hn | exact SameShape.refl n
        · rename_i ps hps
          have hl : ∀ x ∈ ps, ∀ p, x.2 = some p → p.len ≠ 0 := by
            intro x hx p hp
            obtain ⟨e, he, hpe⟩ := parseAll_payloads txs ps hps x hx
            exact hm e he p (by rw [hpe]; exact hp)
          obtain ⟨h1, h2⟩ := NI_addLoop cfg env ps n hn hl
          simp only
          split
          · split
            · have := NI_convOnly (show ConvOnly (addLoop cfg env n ps).node (convDone (addLoop cfg env n ps).node cid) from ⟨rfl, rfl, rfl, rfl⟩) h1
              first | exact this.1 | exact h2.trans this.2
            · have := NI_convOnly (show ConvOnly (addLoop cfg env n ps).node (resetTimeout cfg (addLoop cfg env n ps).node cid) from ⟨rfl, rfl, rfl, rfl⟩) h1
              first | exact this.1 | exact h2.trans this.2
          · first | exact h1 | exact h2
          · have hcd : ConvOnly (addLoop cfg env n ps).node (convDone (addLoop cfg env n ps).node cid) := ⟨rfl, rfl, rfl, rfl⟩
            have := NI_convOnly (hcd.trans (sendRequest_convOnly cfg _ peer.key (.state (lcOf (addLoop cfg env n ps).node.dag))
              (fun c => .state c (xorOf (addLoop cfg env n ps).node.dag) (lcOf (addLoop cfg env n ps).node.dag)))) h1
            first | exact this.1 | exact h2.trans this.2
          · first | exact h1 | exact h2

end Nuts.Proto.Live
