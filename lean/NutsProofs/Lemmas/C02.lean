/-
  C02 — helper lemmas about the token model (NutsModel/C02/Token.lean). Core Lean only.
-/
import NutsModel.C02.Token

namespace Nuts.C02

/-! ### JSON object / generated marshaller -/

theorem objGet_filter_ne (o : Obj) (k k' : String) (h : k' ≠ k) :
    objGet (o.filter (fun p => p.1 ≠ k')) k = objGet o k := by
  induction o with
  | nil => rfl
  | cons p rest ih =>
    obtain ⟨a, b⟩ := p
    by_cases ha : a = k'
    · have : ((a, b) :: rest).filter (fun p => p.1 ≠ k') = rest.filter (fun p => p.1 ≠ k') := by
        apply List.filter_cons_of_neg; simp [ha]
      rw [this, ih]
      simp only [objGet]
      rw [if_neg (by rw [ha]; exact h)]
    · have : ((a, b) :: rest).filter (fun p => p.1 ≠ k') = (a, b) :: rest.filter (fun p => p.1 ≠ k') := by
        apply List.filter_cons_of_pos; simp [ha]
      rw [this]
      simp only [objGet, ih]

theorem objGet_objPut_same (o : Obj) (k v : String) : objGet (objPut o k v) k = some v := by
  simp [objPut, objGet]

theorem objGet_objPut_ne (o : Obj) (k k' v : String) (h : k' ≠ k) : objGet (objPut o k' v) k = objGet o k := by
  simp only [objPut, objGet, h, if_false]
  exact objGet_filter_ne o k k' h

def keys (c : Claims) : List String := c.map (·.1)

theorem objGet_putAll_not_mem (c : Claims) : ∀ (o : Obj) (k : String), k ∉ keys c → objGet (putAll o c) k = objGet o k := by
  induction c with
  | nil => intro o k _; rfl
  | cons p rest ih =>
    intro o k hk
    obtain ⟨a, b⟩ := p
    simp only [keys, List.map, List.mem_cons, not_or] at hk
    simp only [putAll]
    rw [ih _ _ (by simpa [keys] using hk.2)]
    exact objGet_objPut_ne o k a b (fun h => hk.1 h.symm)

/-- whatever the assignment order, a key that no additional property uses ends up with its standard value -/
theorem objGet_marshal_fold (r : Introspection) (k : String) (hk : k ≠ "*") (hadd : k ∉ keys r.additional) :
    ∀ (order : List String) (o : Obj),
      objGet (order.foldl (marshalStep r) o) k =
        if k ∈ order then (match r.std k with | some v => some v | none => objGet o k) else objGet o k := by
  intro order
  induction order with
  | nil => intro o; simp
  | cons x rest ih =>
    intro o
    simp only [List.foldl_cons]
    rw [ih]
    by_cases hx : x = k
    · subst hx
      simp only [List.mem_cons, true_or, if_true]
      have hstep : objGet (marshalStep r o x) x = (match r.std x with | some v => some v | none => objGet o x) := by
        unfold marshalStep
        rw [if_neg hk]
        cases hs : r.std x with
        | none => rfl
        | some v => simp [objGet_objPut_same]
      by_cases hin : x ∈ rest
      · simp only [hin, if_true]
        cases hs : r.std x with
        | none => simp only [hs] at hstep; simpa [hs] using hstep
        | some v => rfl
      · simp only [hin, if_false]; exact hstep
    · have hstep : objGet (marshalStep r o x) k = objGet o k := by
        unfold marshalStep
        by_cases hstar : x = "*"
        · rw [if_pos hstar]; exact objGet_putAll_not_mem _ _ _ hadd
        · rw [if_neg hstar]
          cases r.std x with
          | none => rfl
          | some v => exact objGet_objPut_ne o k x v hx
      have hmem : (k ∈ x :: rest) ↔ k ∈ rest := by
        simp only [List.mem_cons]; constructor
        · rintro (h | h); exact absurd h.symm hx; exact h
        · exact Or.inr
      simp only [hmem, hstep]


/-! ### reserved names, introspection answer -/

theorem any_key_iff (c : Claims) (r : String) : c.any (fun p => p.1 = r) = true ↔ r ∈ keys c := by
  simp [keys, List.any_eq_true]

theorem firstReserved_none (res : List String) (c : Claims) (h : firstReserved res c = none) :
    ∀ k ∈ res, k ∉ keys c := by
  induction res with
  | nil => intro k hk; cases hk
  | cons r rest ih =>
    intro k hk
    unfold firstReserved at h
    split at h
    · cases h
    · rename_i hany
      rcases List.mem_cons.mp hk with rfl | hk
      · intro hmem; exact hany ((any_key_iff c k).mpr hmem)
      · exact ih h k hk

theorem firstReserved_some (res : List String) (c : Claims) (r : String) (h : firstReserved res c = some r) :
    r ∈ res ∧ r ∈ keys c := by
  induction res with
  | nil => cases h
  | cons x rest ih =>
    unfold firstReserved at h
    split at h
    · rename_i hany
      cases h
      exact ⟨List.mem_cons_self, (any_key_iff c r).mp hany⟩
    · have := ih h; exact ⟨List.mem_cons_of_mem _ this.1, this.2⟩

/-- shape of an active introspection answer -/
theorem introspect_some (cfg : Cfg) (w : World) (now : Nat) (tok : String) (r : Introspection)
    (h : introspect cfg w now tok = .ok (some r)) :
    ∃ t, tok ≠ "" ∧ w.tokens.get now tok = some t ∧ now ≤ t.expiration ∧ firstReserved cfg.reserved t.claims = none ∧
      r = { active := true, cnf := t.dpop.map (fun d => "{\"jkt\":" ++ jstr d.jkt ++ "}"),
            iat := some (t.issuedAt / cfg.second), exp := some (t.expiration / cfg.second),
            iss := some (jstr t.issuer), clientId := some (jstr t.clientId), scope := some (jstr t.scope),
            vps := some (toString t.vps), pds := some (renderDefs t.defs),
            pss := some (renderSubs t.submissions), additional := t.claims } := by
  unfold introspect at h
  split at h
  · cases h
  · rename_i hne
    split at h
    · cases h
    · rename_i t ht
      split at h
      · cases h
      · rename_i hexp
        split at h
        · cases h
        · rename_i hres
          simp only [Res.ok.injEq, Option.some.injEq] at h
          exact ⟨t, hne, ht, by omega, hres, h.symm⟩

/-! ### session store -/
namespace Store
variable {α : Type}

theorem find_del_same (s : Store α) (k : String) : (s.del k).find k = none := by
  induction s with
  | nil => rfl
  | cons e rest ih =>
    by_cases h : e.key = k
    · have : Store.del (e :: rest) k = Store.del rest k := by
        unfold Store.del; apply List.filter_cons_of_neg; simp [h]
      rw [this]; exact ih
    · have : Store.del (e :: rest) k = e :: Store.del rest k := by
        unfold Store.del; apply List.filter_cons_of_pos; simp [h]
      rw [this]; simp only [find, h, if_false]; exact ih

theorem find_del_ne (s : Store α) (k k' : String) (hne : k' ≠ k) : (s.del k').find k = s.find k := by
  induction s with
  | nil => rfl
  | cons e rest ih =>
    by_cases h : e.key = k'
    · have : Store.del (e :: rest) k' = Store.del rest k' := by
        unfold Store.del; apply List.filter_cons_of_neg; simp [h]
      rw [this, ih]
      simp only [find]
      rw [if_neg (by rw [h]; exact hne)]
    · have : Store.del (e :: rest) k' = e :: Store.del rest k' := by
        unfold Store.del; apply List.filter_cons_of_pos; simp [h]
      rw [this]; simp only [find, ih]

theorem find_put_same (s : Store α) (now ttl : Nat) (k : String) (v : α) (httl : ttl ≠ 0) :
    (s.put now ttl k v).find k = some ⟨k, v, now + ttl⟩ := by
  simp [put, httl, find]

theorem find_put_ne (s : Store α) (now ttl : Nat) (k k' : String) (v : α) (hne : k' ≠ k) :
    (s.put now ttl k' v).find k = s.find k := by
  unfold put
  split
  · rfl
  · simp only [find, hne, if_false]; exact find_del_ne s k k' hne

theorem get_del_same (s : Store α) (now : Nat) (k : String) : (s.del k).get now k = none := by
  simp [get, find_del_same]

theorem get_del_ne (s : Store α) (now : Nat) (k k' : String) (hne : k' ≠ k) : (s.del k').get now k = s.get now k := by
  simp [get, find_del_ne s k k' hne]

theorem get_put_same (s : Store α) (now ttl t : Nat) (k : String) (v : α) (httl : ttl ≠ 0) :
    (s.put now ttl k v).get t k = if t ≤ now + ttl then some v else none := by
  simp [get, find_put_same s now ttl k v httl]

theorem get_put_ne (s : Store α) (now ttl t : Nat) (k k' : String) (v : α) (hne : k' ≠ k) :
    (s.put now ttl k' v).get t k = s.get t k := by
  simp [get, find_put_ne s now ttl k k' v hne]
end Store

/-! ### per-presentation checks -/

theorem checkValidity_ok (cfg : Cfg) (vp : VP) (h : checkValidity cfg vp = .ok ()) :
    ∃ c e, vp.created = some c ∧ vp.expires = some e ∧ e ≤ c + cfg.maxValidity := by
  unfold checkValidity at h
  split at h
  · rename_i c e hc he
    split at h
    · cases h
    · exact ⟨c, e, hc, he, by omega⟩
  · cases h

theorem resolveSubject_ok (l : List (Option String)) :
    ∀ cur s, resolveSubject l cur = .ok s → (l = [] ∧ s = cur) ∨ (l ≠ [] ∧ ∀ x ∈ l, x = some s ∨ x = some "") := by
  induction l with
  | nil => intro cur s h; simp only [resolveSubject, Res.ok.injEq] at h; exact Or.inl ⟨rfl, h.symm⟩
  | cons x rest ih =>
    intro cur s h
    right
    refine ⟨by simp, ?_⟩
    cases x with
    | none => simp [resolveSubject] at h
    | some a =>
      simp only [resolveSubject] at h
      split at h
      · cases h
      · rcases ih a s h with ⟨hnil, hs⟩ | ⟨_, hall⟩
        · subst hnil; subst hs
          intro y hy; simp only [List.mem_cons, List.not_mem_nil, or_false] at hy; exact Or.inl hy
        · intro y hy
          rcases List.mem_cons.mp hy with rfl | hy
          · -- a is followed by a non-empty rest whose elements are s or ""
            -- the next step of the loop ran with cur = a: either a = "" or every later subject equals a
            cases rest with
            | nil => exact absurd rfl ‹_›
            | cons z rest' =>
              cases z with
              | none => simp [resolveSubject] at h
              | some b =>
                simp only [resolveSubject] at h
                split at h
                · cases h
                · rename_i hnot
                  have hb := hall (some b) List.mem_cons_self
                  by_cases ha : a = ""
                  · exact Or.inr (by rw [ha])
                  · have : a = b := by
                      by_cases hab : a = b
                      · exact hab
                      · exact absurd ⟨ha, hab⟩ hnot
                    subst this
                    rcases hb with hb | hb
                    · exact Or.inl hb
                    · exact Or.inr hb
          · exact hall y hy


theorem validateSigner_ok (cfg : Cfg) (vp : VP) (exp s : String) (h : validateSigner cfg vp exp = .ok s) :
    vp.signer = some s ∧ (∀ x ∈ vp.subjects, x = some s ∨ x = some "") ∧
    ((vp.subjects ≠ [] ∨ cfg.emptyVpChecked = true) → exp = "" ∨ s = exp) := by
  unfold validateSigner at h
  split at h
  · rename_i hnil
    split at h
    · rename_i sg hsg
      split at h
      · cases h
      · rename_i hnot
        simp only [Res.ok.injEq] at h; subst h
        refine ⟨hsg, ?_, ?_⟩
        · rw [hnil]; intro x hx; cases hx
        rintro (h | h)
        · exact absurd hnil h
        · by_cases he : exp = ""
          · exact Or.inl he
          · right
            by_cases hs : sg = exp
            · exact hs
            · exact absurd ⟨h, he, hs⟩ hnot
    · cases h
  · rename_i hne
    split at h
    · cases h
    · rename_i sg hsg
      split at h
      · rename_i sid hsid
        split at h
        · cases h
        · rename_i heq
          split at h
          · cases h
          · rename_i hnot
            simp only [Res.ok.injEq] at h; subst h
            have heq' : sid = sg := by
              by_cases hh : sid = sg
              · exact hh
              · exact absurd hh heq
            subst heq'
            refine ⟨hsg, ?_, ?_⟩
            · rcases resolveSubject_ok _ _ _ hsid with ⟨hn, _⟩ | ⟨_, hall⟩
              · exact absurd hn hne
              · exact hall
            · intro _
              by_cases he : exp = ""
              · exact Or.inl he
              · right
                by_cases hs : sid = exp
                · exact hs
                · exact absurd ⟨he, hs⟩ hnot
      · cases h
      · cases h

theorem checkAudience_ok (cfg : Cfg) (subj : String) (vp : VP) (h : checkAudience cfg subj vp = .ok ()) :
    cfg.issuerURL subj ∈ vp.aud := by
  unfold checkAudience at h
  split at h
  · assumption
  · cases h

/-- what the first loop of the s2s handler establishes for one presentation -/
structure PreOK (cfg : Cfg) (subj : String) (vp : VP) (s : String) : Prop where
  validity : ∃ c e, vp.created = some c ∧ vp.expires = some e ∧ e ≤ c + cfg.maxValidity
  signer : vp.signer = some s
  subjects : ∀ x ∈ vp.subjects, x = some s ∨ x = some ""
  audience : cfg.issuerURL subj ∈ vp.aud

theorem s2sPre_ok (cfg : Cfg) (subj : String) (hchk : cfg.emptyVpChecked = true) :
    ∀ (vps : List VP) (cur s : String), (∀ vp ∈ vps, vp.signer ≠ some "") →
      s2sPre cfg subj vps cur = .ok s →
      (∀ vp ∈ vps, PreOK cfg subj vp s) ∧ (cur = "" ∨ s = cur) := by
  intro vps
  induction vps with
  | nil => intro cur s _ h; simp only [s2sPre, Res.ok.injEq] at h; exact ⟨fun vp hvp => (nomatch hvp), Or.inr h.symm⟩
  | cons vp rest ih =>
    intro cur s hwf h
    unfold s2sPre at h
    split at h
    · rename_i hval
      split at h
      · rename_i s1 hs1
        split at h
        · rename_i haud
          obtain ⟨hsg, hsub, hexp⟩ := validateSigner_ok cfg vp cur s1 hs1
          have hs1ne : s1 ≠ "" := by
            intro he; subst he; exact hwf vp List.mem_cons_self hsg
          have hrest := ih s1 s (fun v hv => hwf v (List.mem_cons_of_mem _ hv)) h
          have hss : s = s1 := by
            rcases hrest.2 with h0 | h0
            · exact absurd h0 hs1ne
            · exact h0
          subst hss
          refine ⟨?_, hexp (Or.inr hchk)⟩
          intro v hv
          rcases List.mem_cons.mp hv with rfl | hv
          · exact ⟨checkValidity_ok cfg v hval, hsg, hsub, checkAudience_ok cfg subj v haud⟩
          · exact hrest.1 v hv
        · cases h
        · cases h
      · cases h
      · cases h
    · cases h
    · cases h

/-! ### s2s nonce store -/

/-- the s2s nonce store remembers `n` at least until `bound` -/
def Live (st : Store Unit) (n : String) (bound : Nat) : Prop := ∃ e, st.find n = some e ∧ bound ≤ e.exp

theorem Live.get {st : Store Unit} {n : String} {b now : Nat} (h : Live st n b) (hb : now ≤ b) :
    st.get now n = some () := by
  obtain ⟨e, he, hexp⟩ := h
  simp only [Store.get, he]
  rw [if_pos (by omega)]

theorem live_put (st : Store Unit) (now ttl : Nat) (k n : String) (b : Nat) (httl : ttl ≠ 0)
    (h : Live st n b) (hb : b ≤ now + ttl) : Live (st.put now ttl k ()) n b := by
  by_cases hk : k = n
  · subst hk; exact ⟨_, Store.find_put_same st now ttl k () httl, hb⟩
  · obtain ⟨e, he, hexp⟩ := h
    exact ⟨e, by rw [Store.find_put_ne st now ttl n k () hk]; exact he, hexp⟩

theorem live_put_self (st : Store Unit) (now ttl : Nat) (n : String) (httl : ttl ≠ 0) :
    Live (st.put now ttl n ()) n (now + ttl) :=
  ⟨_, Store.find_put_same st now ttl n () httl, Nat.le_refl _⟩

/-- whatever the outcome, the loop never forgets a nonce that is remembered beyond the current time + ttl window -/
theorem nonceLoop_live (cfg : Cfg) (now : Nat) (httl : cfg.nonceTtl ≠ 0) (n : String) (b : Nat)
    (hb : b ≤ now + cfg.nonceTtl) :
    ∀ (vps : List VP) (st : Store Unit), Live st n b → Live (s2sNonceLoop cfg now vps st).1 n b := by
  intro vps
  induction vps with
  | nil => intro st h; exact h
  | cons vp rest ih =>
    intro st h
    unfold s2sNonceLoop
    split
    · exact h
    · split
      · exact h
      · exact ih _ (live_put st now cfg.nonceTtl vp.nonce n b httl h hb)

/-- a presentation whose nonce is still remembered makes the loop fail -/
theorem nonceLoop_rejects (cfg : Cfg) (now : Nat) (httl : cfg.nonceTtl ≠ 0) :
    ∀ (vps : List VP) (st : Store Unit) (vp : VP) (b : Nat), vp ∈ vps → Live st vp.nonce b → now ≤ b →
      b ≤ now + cfg.nonceTtl → (s2sNonceLoop cfg now vps st).2 ≠ .ok () := by
  intro vps
  induction vps with
  | nil => intro st vp b hvp; cases hvp
  | cons v rest ih =>
    intro st vp b hvp hlive hnow hb
    unfold s2sNonceLoop
    split
    · simp
    · split
      · simp
      · rename_i hnone
        rcases List.mem_cons.mp hvp with rfl | hvp
        · rw [hlive.get hnow] at hnone; cases hnone
        · exact ih _ vp b hvp (live_put st now cfg.nonceTtl v.nonce vp.nonce b httl hlive hb) hnow hb

/-- what a successful run of the loop establishes -/
theorem nonceLoop_ok (cfg : Cfg) (now : Nat) (httl : cfg.nonceTtl ≠ 0) :
    ∀ (vps : List VP) (st st' : Store Unit), s2sNonceLoop cfg now vps st = (st', .ok ()) →
      (∀ vp ∈ vps, vp.nonce ≠ "" ∧ st.get now vp.nonce = none ∧ Live st' vp.nonce (now + cfg.nonceTtl)) ∧
      (vps.map (·.nonce)).Nodup := by
  intro vps
  induction vps with
  | nil => intro st st' _; exact ⟨fun vp hvp => (nomatch hvp), List.nodup_nil⟩
  | cons v rest ih =>
    intro st st' h
    unfold s2sNonceLoop at h
    split at h
    · simp at h
    · rename_i hne
      split at h
      · simp at h
      · rename_i hnone
        have hrest := ih _ st' h
        have hlive_head : Live st' v.nonce (now + cfg.nonceTtl) := by
          have := nonceLoop_live cfg now httl v.nonce (now + cfg.nonceTtl) (Nat.le_refl _) rest _
            (live_put_self st now cfg.nonceTtl v.nonce httl)
          rw [h] at this; exact this
        have hdiff : ∀ vp ∈ rest, vp.nonce ≠ v.nonce := by
          intro vp hvp heq
          have := (hrest.1 vp hvp).2.1
          rw [heq, Store.get_put_same st now cfg.nonceTtl now v.nonce () httl] at this
          rw [if_pos (by omega)] at this; cases this
        refine ⟨?_, ?_⟩
        · intro vp hvp
          rcases List.mem_cons.mp hvp with rfl | hvp
          · exact ⟨hne, hnone, hlive_head⟩
          · obtain ⟨h1, h2, h3⟩ := hrest.1 vp hvp
            refine ⟨h1, ?_, h3⟩
            rw [Store.get_put_ne st now cfg.nonceTtl now vp.nonce v.nonce () (fun e => hdiff vp hvp e.symm)] at h2
            exact h2
        · simp only [List.map_cons, List.nodup_cons]
          refine ⟨?_, hrest.2⟩
          intro hmem
          obtain ⟨vp, hvp, heq⟩ := List.mem_map.mp hmem
          exact hdiff vp hvp heq

theorem nonceCheck_ok (cfg : Cfg) (now : Nat) (fault : Bool) (vps : List VP) (st st' : Store Unit) (u : Unit)
    (h : nonceCheck cfg now fault vps st = (st', .ok u)) : s2sNonceLoop cfg now vps st = (st', .ok ()) := by
  unfold nonceCheck at h
  split at h
  · split at h <;> simp at h
  · exact h

theorem nonceCheck_fst (cfg : Cfg) (now : Nat) (fault : Bool) (vps : List VP) (st : Store Unit) :
    (nonceCheck cfg now fault vps st).1 = st ∨ (nonceCheck cfg now fault vps st).1 = (s2sNonceLoop cfg now vps st).1 := by
  unfold nonceCheck
  split
  · left; split <;> rfl
  · right; rfl

/-- a store fault on the nonce read never yields a success of the nonce check (fail closed) -/
theorem nonceCheck_fault (cfg : Cfg) (now : Nat) (vps : List VP) (st : Store Unit) (hne : vps ≠ []) :
    ∀ u, (nonceCheck cfg now true vps st).2 ≠ .ok u := by
  intro u
  unfold nonceCheck
  cases vps with
  | nil => exact absurd rfl hne
  | cons vp rest => simp only; split <;> simp

/-! ### remaining steps of the s2s chain -/

theorem verifyAll_ok (cfg : Cfg) (now : Nat) : ∀ vps, verifyAll cfg now vps = .ok () → ∀ vp ∈ vps, vpVerifies cfg now vp = true := by
  intro vps
  induction vps with
  | nil => intro _ vp hvp; cases hvp
  | cons v rest ih =>
    intro h vp hvp
    unfold verifyAll at h
    split at h
    · rename_i hv
      rcases List.mem_cons.mp hvp with rfl | hvp
      · exact hv
      · exact ih h vp hvp
    · cases h

theorem findDef_some (l : List (String × Def)) (id : String) (d : Def) (h : findDef l id = some d) :
    d.id = id ∧ ∃ owner, (owner, d) ∈ l := by
  induction l with
  | nil => cases h
  | cons p rest ih =>
    obtain ⟨o, d'⟩ := p
    unfold findDef at h
    split at h
    · rename_i heq
      cases h
      exact ⟨heq, o, List.mem_cons_self⟩
    · obtain ⟨h1, o', h2⟩ := ih h
      exact ⟨h1, o', List.mem_cons_of_mem _ h2⟩

theorem fulfill_ok (c c' : Consumer) (defId : String) (pex : Nat → Bool) (claims : Nat → Claims) (n : Nat)
    (h : fulfill c defId pex claims n = .ok c') :
    ∃ d, findDef c.required defId = some d ∧ defId ∉ c.fulfilled ∧ pex d.key = true ∧
      c' = { c with fulfilled := defId :: c.fulfilled, claims := claims d.key :: c.claims, vps := c.vps + n } := by
  unfold fulfill at h
  split at h
  · cases h
  · rename_i d hd
    split at h
    · cases h
    · rename_i hnf
      split at h
      · cases h
      · rename_i hpex
        simp only [Res.ok.injEq] at h
        refine ⟨d, hd, hnf, ?_, h.symm⟩
        cases hp : pex d.key
        · exact absurd hp hpex
        · rfl

theorem parseDPoP_ok (d : DPoPIn) (r : Option DPoP) (h : parseDPoP d = .ok r) :
    (d = .absent ∧ r = none) ∨ ∃ kid jkt, d = .valid kid jkt ∧ r = some ⟨kid, jkt⟩ := by
  cases d with
  | absent => simp only [parseDPoP, Res.ok.injEq] at h; exact Or.inl ⟨rfl, h.symm⟩
  | invalid => cases h
  | valid kid jkt => simp only [parseDPoP, Res.ok.injEq] at h; exact Or.inr ⟨kid, jkt, rfl, h.symm⟩

/-- `createAccessToken` succeeds only by storing exactly one new record under the next token name -/
theorem createAccessToken_ok (cfg : Cfg) (w w' : World) (now : Nat) (issuer clientId scope : String) (c : Consumer)
    (dpop : Option DPoP) (resp : TokenResponse)
    (h : createAccessToken cfg w now issuer clientId scope c dpop = (w', .ok resp)) :
    ∃ claims, mergeClaims c.claims [] = .ok claims ∧
      resp.token = tokName w.nextTok ∧ resp.scope = scope ∧ resp.dpopKid = dpop.map (·.kid) ∧
      resp.tokenType = (if dpop.isSome then "DPoP" else "Bearer") ∧ resp.expiresIn = cfg.tokenValidity / cfg.second ∧
      w' = { w with tokens := w.tokens.put now cfg.tokenTtl (tokName w.nextTok)
                      { issuer := issuer, clientId := clientId, scope := scope, issuedAt := now,
                        expiration := now + cfg.tokenValidity, dpop := dpop, claims := claims,
                        defs := c.required, submissions := c.fulfilled, vps := c.vps },
                    nextTok := w.nextTok + 1 } := by
  unfold createAccessToken at h
  split at h
  · rename_i claims hc
    simp only [Prod.mk.injEq, Res.ok.injEq] at h
    obtain ⟨hw, hr⟩ := h
    subst hr
    exact ⟨claims, hc, rfl, rfl, rfl, rfl, rfl, hw.symm⟩
  · simp at h
  · simp at h


/-- everything the vp_token-bearer handler has established when it answers 200 -/
structure S2SChecked (cfg : Cfg) (w : World) (now : Nat) (r : S2SReq) (s : String) (d : Def) : Prop where
  subject : r.subject ∈ cfg.subjects
  params : r.paramsPresent = true
  envelope : r.envelopeOK = true
  submission : r.submissionOK = true
  pre : ∀ vp ∈ r.vps, PreOK cfg r.subject vp s
  scope : ∃ defs, cfg.definitions r.scope = some defs ∧ findDef defs r.subDefId = some d
  pex : r.pex d.key = true
  nonce : ∀ vp ∈ r.vps, vp.nonce ≠ "" ∧ w.s2sNonces.get now vp.nonce = none
  nonceDistinct : (r.vps.map (·.nonce)).Nodup
  dpop : r.dpop ≠ .invalid
  verified : ∀ vp ∈ r.vps, vpVerifies cfg now vp = true

/-- the state change of a 200 answer: the nonces are remembered, exactly one token record is stored -/
structure S2SEffect (cfg : Cfg) (w w' : World) (now : Nat) (r : S2SReq) (d : Def) (resp : TokenResponse) : Prop where
  nonces : ∀ vp ∈ r.vps, Live w'.s2sNonces vp.nonce (now + cfg.nonceTtl)
  token : resp.token = tokName w.nextTok
  scope : resp.scope = r.scope
  record : ∃ defs claims dpop, cfg.definitions r.scope = some defs ∧ mergeClaims [r.claims d.key] [] = .ok claims ∧
    parseDPoP r.dpop = .ok dpop ∧
    w'.tokens = w.tokens.put now cfg.tokenTtl (tokName w.nextTok)
      { issuer := cfg.issuerURL r.subject, clientId := r.clientId, scope := r.scope, issuedAt := now,
        expiration := now + cfg.tokenValidity, dpop := dpop, claims := claims, defs := defs,
        submissions := [r.subDefId], vps := r.vps.length }
  next : w'.nextTok = w.nextTok + 1
  others : w'.states = w.states ∧ w'.oauthNonces = w.oauthNonces ∧ w'.codes = w.codes ∧ w'.nextCode = w.nextCode

theorem issueS2S_ok (cfg : Cfg) (w w' : World) (now : Nat) (r : S2SReq) (resp : TokenResponse)
    (hchk : cfg.emptyVpChecked = true) (httl : cfg.nonceTtl ≠ 0) (hwf : ∀ vp ∈ r.vps, vp.signer ≠ some "")
    (h : issueS2S cfg w now r = (w', .ok resp)) :
    ∃ s d, S2SChecked cfg w now r s d ∧ S2SEffect cfg w w' now r d resp := by
  unfold issueS2S at h
  split at h
  · simp at h
  · rename_i hsubj
    split at h
    · simp at h
    · rename_i hparams
      split at h
      · simp at h
      · rename_i henv
        split at h
        · simp at h
        · rename_i hsub
          split at h
          · simp at h
          · simp at h
          · rename_i s hpre
            split at h
            · simp at h
            · rename_i defs hdefs
              split at h
              · simp at h
              · simp at h
              · rename_i consumer hful
                split at h
                rename_i nonces nres hloop
                simp only at h
                split at h
                · simp at h
                · simp at h
                · split at h
                  · simp at h
                  · simp at h
                  · rename_i dpop hdpop
                    split at h
                    · simp at h
                    · simp at h
                    · rename_i hver
                      obtain ⟨d, hd, _, hpex, hcons⟩ := fulfill_ok _ _ _ _ _ _ hful
                      obtain ⟨claims, hclaims, htok, hscope, _, _, _, hw'⟩ := createAccessToken_ok _ _ _ _ _ _ _ _ _ _ h
                      have hloop' := nonceLoop_ok cfg now httl r.vps w.s2sNonces nonces
                        (nonceCheck_ok cfg now r.nonceFault r.vps w.s2sNonces nonces _ hloop)
                      have hp := s2sPre_ok cfg r.subject hchk r.vps "" s hwf hpre
                      refine ⟨s, d, ?_, ?_⟩
                      · exact { subject := by simpa using hsubj
                                params := by simpa using hparams
                                envelope := by simpa using henv
                                submission := by simpa using hsub
                                pre := hp.1
                                scope := ⟨defs, hdefs, hd⟩
                                pex := hpex
                                nonce := fun vp hvp => ⟨(hloop'.1 vp hvp).1, (hloop'.1 vp hvp).2.1⟩
                                nonceDistinct := hloop'.2
                                dpop := by intro hi; rw [hi] at hdpop; cases hdpop
                                verified := verifyAll_ok cfg now r.vps hver }
                      · subst hw'
                        subst hcons
                        exact { nonces := fun vp hvp => (hloop'.1 vp hvp).2.2
                                token := htok
                                scope := hscope
                                record := ⟨defs, claims, dpop, hdefs, hclaims, hdpop, by simp⟩
                                next := rfl
                                others := ⟨rfl, rfl, rfl, rfl⟩ }

/-! ### single defects of a vp_token-bearer request (the property's quantifier) -/

inductive Defect where
  | unknownSubject | missingParam | garbageAssertion | garbageSubmission
  | overlongOrUndated | signerNotSubject | mixedSigners | wrongAudience
  | unfulfilledOrForeign | missingNonce | reusedNonce | duplicateNonce | badDPoP | verifyFails
  deriving DecidableEq, Repr

/-- the observable condition that makes a request carry the defect -/
def Defect.present (cfg : Cfg) (w : World) (now : Nat) (r : S2SReq) : Defect → Prop
  | .unknownSubject => r.subject ∉ cfg.subjects
  | .missingParam => r.paramsPresent = false
  | .garbageAssertion => r.envelopeOK = false
  | .garbageSubmission => r.submissionOK = false
  | .overlongOrUndated => ∃ vp ∈ r.vps, ¬ ∃ c e, vp.created = some c ∧ vp.expires = some e ∧ e ≤ c + cfg.maxValidity
  | .signerNotSubject => ∃ vp ∈ r.vps, ∃ x ∈ vp.subjects, x ≠ vp.signer ∧ x ≠ some ""
  | .mixedSigners => ∃ v₁ ∈ r.vps, ∃ v₂ ∈ r.vps, v₁.signer ≠ v₂.signer
  | .wrongAudience => ∃ vp ∈ r.vps, cfg.issuerURL r.subject ∉ vp.aud
  | .unfulfilledOrForeign =>
      ∀ defs d, cfg.definitions r.scope = some defs → findDef defs r.subDefId = some d → r.pex d.key = false
  | .missingNonce => ∃ vp ∈ r.vps, vp.nonce = ""
  | .reusedNonce => ∃ vp ∈ r.vps, w.s2sNonces.get now vp.nonce ≠ none
  | .duplicateNonce => ¬ (r.vps.map (·.nonce)).Nodup
  | .badDPoP => r.dpop = .invalid
  | .verifyFails => ∃ vp ∈ r.vps, vpVerifies cfg now vp = false

theorem defect_contradicts_checked (cfg : Cfg) (w : World) (now : Nat) (r : S2SReq) (s : String) (d : Def)
    (hc : S2SChecked cfg w now r s d) (x : Defect) (hx : x.present cfg w now r) : False := by
  cases x with
  | unknownSubject => exact hx hc.subject
  | missingParam => simp only [Defect.present] at hx; rw [hc.params] at hx; cases hx
  | garbageAssertion => simp only [Defect.present] at hx; rw [hc.envelope] at hx; cases hx
  | garbageSubmission => simp only [Defect.present] at hx; rw [hc.submission] at hx; cases hx
  | overlongOrUndated => obtain ⟨vp, hvp, hn⟩ := hx; exact hn (hc.pre vp hvp).validity
  | signerNotSubject =>
    obtain ⟨vp, hvp, x, hxm, hne, hne'⟩ := hx
    have hp := hc.pre vp hvp
    rcases hp.subjects x hxm with h | h
    · exact hne (by rw [h, hp.signer])
    · exact hne' h
  | mixedSigners =>
    obtain ⟨v₁, h₁, v₂, h₂, hne⟩ := hx
    exact hne (by rw [(hc.pre v₁ h₁).signer, (hc.pre v₂ h₂).signer])
  | wrongAudience => obtain ⟨vp, hvp, hn⟩ := hx; exact hn (hc.pre vp hvp).audience
  | unfulfilledOrForeign =>
    obtain ⟨defs, hdefs, hd⟩ := hc.scope
    have := hx defs d hdefs hd
    rw [hc.pex] at this; cases this
  | missingNonce => obtain ⟨vp, hvp, hn⟩ := hx; exact (hc.nonce vp hvp).1 hn
  | reusedNonce => obtain ⟨vp, hvp, hn⟩ := hx; exact hn (hc.nonce vp hvp).2
  | duplicateNonce => exact hx hc.nonceDistinct
  | badDPoP => exact hc.dpop hx
  | verifyFails =>
    obtain ⟨vp, hvp, hn⟩ := hx
    rw [hc.verified vp hvp] at hn; cases hn

end Nuts.C02
