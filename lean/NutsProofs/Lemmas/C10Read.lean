/-
  C10 — lemmas for NutsModel/C10/ReadPath.lean: a failing shelf Get inside `Resolve`'s read transaction either comes back
  as the storage error or never fires; it cannot change an answer.
-/
import NutsModel.C10.ReadPath

namespace Nuts.C10
open Nuts

theorem tick_zero : tick 0 = (false, 0) := rfl

theorem sResolveFromF_or (metas : List (Nat × (Doc × Meta))) (rm : Option ResolveMeta) :
    ∀ (fuel key k : Nat), sResolveFromF metas rm fuel key k = .err "db" ∨
      sResolveFromF metas rm fuel key k = sResolveFrom metas rm fuel key := by
  intro fuel
  induction fuel with
  | zero => intro key k; right; rfl
  | succ fuel ih =>
    intro key k
    unfold sResolveFromF sResolveFrom
    by_cases h1 : (tick k).1 = true
    · left; simp only [h1, if_true]
    · simp only [h1, Bool.false_eq_true, if_false]
      cases hg : alGet metas key with
      | none => right; rfl
      | some p =>
        obtain ⟨d, m⟩ := p
        simp only
        by_cases hd : (m.deactivated && latestNonDeactivatedRequested rm) = true
        · right; simp only [hd, if_true]
        · simp only [hd, Bool.false_eq_true, if_false]
          by_cases hm : matchesMeta m rm = true
          · simp only [hm, if_true]
            by_cases h2 : (tick (tick k).2).1 = true
            · left; simp only [h2, if_true]
            · right; simp only [h2, Bool.false_eq_true, if_false]
          · simp only [hm, Bool.false_eq_true, if_false]
            by_cases hv : m.version = 0
            · right; simp only [hv, if_true]
            · simp only [hv, if_false]
              exact ih (m.version - 1) (tick k).2

theorem sResolveFromF_zero (metas : List (Nat × (Doc × Meta))) (rm : Option ResolveMeta) :
    ∀ (fuel key : Nat), sResolveFromF metas rm fuel key 0 = sResolveFrom metas rm fuel key := by
  intro fuel
  induction fuel with
  | zero => intro key; rfl
  | succ fuel ih =>
    intro key
    unfold sResolveFromF sResolveFrom
    simp only [tick_zero, Bool.false_eq_true, if_false]
    cases hg : alGet metas key with
    | none => rfl
    | some p =>
      obtain ⟨d, m⟩ := p
      simp only
      split
      · rfl
      · split
        · rfl
        · split
          · rfl
          · exact ih (m.version - 1)

theorem sResolveF_or (st : Shelves) (rm : Option ResolveMeta) (k : Nat) :
    sResolveF st rm k = .err "db" ∨ sResolveF st rm k = sResolve st rm := by
  unfold sResolveF sResolve
  by_cases h1 : (tick k).1 = true
  · left; simp only [h1, if_true]
  · simp only [h1, Bool.false_eq_true, if_false]
    cases st.latest with
    | none => right; rfl
    | some n => exact sResolveFromF_or st.metas rm (n + 1) n (tick k).2

theorem sResolveF_zero (st : Shelves) (rm : Option ResolveMeta) : sResolveF st rm 0 = sResolve st rm := by
  unfold sResolveF sResolve
  simp only [tick_zero, Bool.false_eq_true, if_false]
  cases st.latest with
  | none => rfl
  | some n => exact sResolveFromF_zero st.metas rm (n + 1) n

/-- the first Get of every `Resolve` is the latestV2 Get: a failure there is always reported -/
theorem sResolveF_one (st : Shelves) (rm : Option ResolveMeta) : sResolveF st rm 1 = .err "db" := by
  unfold sResolveF; rfl

end Nuts.C10
