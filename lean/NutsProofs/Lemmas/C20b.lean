/-
  C20 (deepening round) — helper lemmas for the byte-level client (response cap) and the configuration sources.
-/
import NutsModel.C20.Outbound

namespace Nuts.C20
open Nuts Nuts.C18

theorem limitedReadAll_exact (cap : Nat) (wire : Bytes) :
    limitedReadAll (cap + 1) (fun n => decide (n > cap)) wire =
      if wire.length ≤ cap then .ok wire else .err "http:toolarge" := by
  unfold limitedReadAll limitRead
  simp only [List.length_take]
  by_cases h : wire.length ≤ cap
  · have h1 : min (cap + 1) wire.length = wire.length := by omega
    have h2 : ¬ wire.length > cap := by omega
    simp [h, h1, h2, List.take_of_length_le (by omega : wire.length ≤ cap + 1)]
  · have h1 : min (cap + 1) wire.length = cap + 1 := by omega
    simp [h, h1]

theorem clientLoopB_refines (cap : Nat) (pol : Policy) (strict : Bool) (srv : Nat → Req → Option (Resp × Bytes)) (first : Req) :
    ∀ (fuel : Nat) (reqs : List Req) (cur : Req),
      clientLoop pol strict (absSrv cap srv) first fuel reqs cur =
        ((clientLoopB pol strict srv first fuel reqs cur).1, absRes cap (clientLoopB pol strict srv first fuel reqs cur).2) := by
  intro fuel
  induction fuel with
  | zero => intro reqs cur; simp [clientLoop, clientLoopB, absRes]
  | succ n ih =>
    intro reqs cur
    unfold clientLoop clientLoopB
    simp only [absSrv]
    cases hs : srv reqs.length cur with
    | none => simp [absRes]
    | some rw =>
      obtain ⟨resp, wire⟩ := rw
      simp only [Option.map, absResp]
      by_cases h1 : isRedirect resp.status
      · by_cases h2 : resp.loc = []
        · simp [h1, h2, absRes, absResp]
        · simp only [h1, h2]
          cases ht : redirectTarget cur resp.loc with
          | err e => simp [absRes]
          | panic p => simp [absRes]
          | ok nxt =>
            simp only
            cases hc : checkRedirect pol strict first nxt (reqs ++ [cur]).length with
            | err e => simp [absRes]
            | panic p => simp [absRes]
            | ok u => simpa using ih (reqs ++ [cur]) nxt
      · simp [h1, absRes, absResp]

theorem strictDoBytes_refines (cap : Nat) (pol : Policy) (strict : Bool) (srv : Nat → Req → Option (Resp × Bytes)) (req : Req) :
    strictDo pol strict (absSrv cap srv) req =
      ((strictDoBytes pol strict (cap + 1) (fun n => decide (n > cap)) srv req).1,
       absRes cap (strictDoBytes pol strict (cap + 1) (fun n => decide (n > cap)) srv req).2) := by
  unfold strictDo strictDoBytes
  by_cases h : (strict && decide (req.scheme ≠ sHttps)) = true
  · have h' : strict = true ∧ ¬req.scheme = sHttps := by simpa using h
    simp [h', absRes]
  · simp only [h]
    rw [clientLoopB_refines]
    generalize clientLoopB pol strict srv req (pol.maxRedirects + 2) [] req = r
    obtain ⟨reqs, out⟩ := r
    cases out with
    | ok rw =>
      obtain ⟨resp, wire⟩ := rw
      simp only [absRes, limitedReadAll_exact]
      by_cases hl : wire.length ≤ cap
      · have : ¬ wire.length > cap := by omega
        simp [hl, absResp, this]
      · have : wire.length > cap := by omega
        simp [hl, absResp, this]
    | err e => simp [absRes]
    | panic p => simp [absRes]

/-- an accepted response carries exactly the bytes the answering server sent, and at most `cap` of them -/
theorem strictDoBytes_ok (cap : Nat) (pol : Policy) (strict : Bool) (srv : Nat → Req → Option (Resp × Bytes)) (req : Req)
    (reqs : List Req) (resp : Resp) (body : Bytes)
    (h : strictDoBytes pol strict (cap + 1) (fun n => decide (n > cap)) srv req = (reqs, .ok (resp, body))) :
    body.length ≤ cap ∧ clientLoopB pol strict srv req (pol.maxRedirects + 2) [] req = (reqs, .ok (resp, body)) := by
  unfold strictDoBytes at h
  by_cases hs : (strict && decide (req.scheme ≠ sHttps)) = true
  · have hs' : strict = true ∧ ¬req.scheme = sHttps := by simpa using hs
    simp [hs'] at h
  · simp only [hs] at h
    generalize clientLoopB pol strict srv req (pol.maxRedirects + 2) [] req = r at h ⊢
    obtain ⟨reqs', out⟩ := r
    cases out with
    | ok rw =>
      obtain ⟨resp', wire⟩ := rw
      simp only [limitedReadAll_exact] at h
      by_cases hl : wire.length ≤ cap
      · simp [hl] at h
        obtain ⟨h1, h2, h3⟩ := h
        subst h1 h2 h3
        exact ⟨hl, rfl⟩
      · simp [hl] at h
    | err e => simp at h
    | panic p => simp at h

end Nuts.C20
