/-
  C20 (deepening round) — helper lemmas for the byte-level client (response cap) and the configuration sources.
-/
import NutsModel.C20.Outbound
import NutsModel.C20.Sources
import NutsModel.C20.Engines

namespace Nuts.C20
open Nuts Nuts.C18

theorem limitedReadAll_exact (cap : Nat) (wire : Bytes) :
    limitedReadAll (cap + 1) (fun n => decide (n > cap)) wire =
      if wire.length ≤ cap then .ok wire else .err "http:toolarge" := by
  unfold limitedReadAll limitRead
  simp only [List.length_take]
  by_cases h : wire.length ≤ cap
  · have h1 : min (cap + 1) wire.length = wire.length := by omega
    have h2 : ¬ wire.length > cap := by omega
    simp [h, h1, h2, List.take_of_length_le (by omega : wire.length ≤ cap + 1)]
  · have h1 : min (cap + 1) wire.length = cap + 1 := by omega
    simp [h, h1]

theorem clientLoopB_refines (cap : Nat) (pol : Policy) (strict : Bool) (srv : Nat → Req → Option (Resp × Bytes)) (first : Req) :
    ∀ (fuel : Nat) (reqs : List Req) (cur : Req),
      clientLoop pol strict (absSrv cap srv) first fuel reqs cur =
        ((clientLoopB pol strict srv first fuel reqs cur).1, absRes cap (clientLoopB pol strict srv first fuel reqs cur).2) := by
  intro fuel
  induction fuel with
  | zero => intro reqs cur; simp [clientLoop, clientLoopB, absRes]
  | succ n ih =>
    intro reqs cur
    unfold clientLoop clientLoopB
    simp only [absSrv]
    cases hs : srv reqs.length cur with
    | none => simp [absRes]
    | some rw =>
      obtain ⟨resp, wire⟩ := rw
      simp only [Option.map, absResp]
      by_cases h1 : isRedirect resp.status
      · by_cases h2 : resp.loc = []
        · simp [h1, h2, absRes, absResp]
        · simp only [h1, h2]
          cases ht : redirectTarget cur resp.loc with
          | err e => simp [absRes]
          | panic p => simp [absRes]
          | ok nxt =>
            simp only
            cases hc : checkRedirect pol strict first nxt (reqs ++ [cur]).length with
            | err e => simp [absRes]
            | panic p => simp [absRes]
            | ok u => simpa using ih (reqs ++ [cur]) nxt
      · simp [h1, absRes, absResp]

theorem strictDoBytes_refines (cap : Nat) (pol : Policy) (strict : Bool) (srv : Nat → Req → Option (Resp × Bytes)) (req : Req) :
    strictDo pol strict (absSrv cap srv) req =
      ((strictDoBytes pol strict (cap + 1) (fun n => decide (n > cap)) srv req).1,
       absRes cap (strictDoBytes pol strict (cap + 1) (fun n => decide (n > cap)) srv req).2) := by
  unfold strictDo strictDoBytes
  by_cases h : (strict && decide (req.scheme ≠ sHttps)) = true
  · have h' : strict = true ∧ ¬req.scheme = sHttps := by simpa using h
    simp [h', absRes]
  · simp only [h]
    rw [clientLoopB_refines]
    generalize clientLoopB pol strict srv req (pol.maxRedirects + 2) [] req = r
    obtain ⟨reqs, out⟩ := r
    cases out with
    | ok rw =>
      obtain ⟨resp, wire⟩ := rw
      simp only [absRes, limitedReadAll_exact]
      by_cases hl : wire.length ≤ cap
      · have : ¬ wire.length > cap := by omega
        simp [hl, absResp, this]
      · have : wire.length > cap := by omega
        simp [hl, absResp, this]
    | err e => simp [absRes]
    | panic p => simp [absRes]

/-- an accepted response carries exactly the bytes the answering server sent, and at most `cap` of them -/
theorem strictDoBytes_ok (cap : Nat) (pol : Policy) (strict : Bool) (srv : Nat → Req → Option (Resp × Bytes)) (req : Req)
    (reqs : List Req) (resp : Resp) (body : Bytes)
    (h : strictDoBytes pol strict (cap + 1) (fun n => decide (n > cap)) srv req = (reqs, .ok (resp, body))) :
    body.length ≤ cap ∧ clientLoopB pol strict srv req (pol.maxRedirects + 2) [] req = (reqs, .ok (resp, body)) := by
  unfold strictDoBytes at h
  by_cases hs : (strict && decide (req.scheme ≠ sHttps)) = true
  · have hs' : strict = true ∧ ¬req.scheme = sHttps := by simpa using hs
    simp [hs'] at h
  · simp only [hs] at h
    generalize clientLoopB pol strict srv req (pol.maxRedirects + 2) [] req = r at h ⊢
    obtain ⟨reqs', out⟩ := r
    cases out with
    | ok rw =>
      obtain ⟨resp', wire⟩ := rw
      simp only [limitedReadAll_exact] at h
      by_cases hl : wire.length ≤ cap
      · simp [hl] at h
        obtain ⟨h1, h2, h3⟩ := h
        subst h1 h2 h3
        exact ⟨hl, rfl⟩
      · simp [hl] at h
    | err e => simp at h
    | panic p => simp at h



/-- `loadConfigMap` with the order file, env, cli: the command line wins over the environment wins over the file -/
theorem resolveRaw_precedence (R : EnvRules) (key : Bytes) (src : Sources) :
    resolveRaw R [.file, .env, .cli] key src =
      match src.cli with
      | some v => some v
      | none => match envLookup R key src.env with
        | some v => some v
        | none => src.file := by
  unfold resolveRaw
  simp only [List.foldl, sourceValue]
  cases src.cli <;> cases envLookup R key src.env <;> cases src.file <;> rfl

theorem resolveRaw_some_source (R : EnvRules) (key : Bytes) (src : Sources) (r : Raw)
    (h : resolveRaw R [.file, .env, .cli] key src = some r) : ∃ s, sourceValue R key src s = some r := by
  rw [resolveRaw_precedence] at h
  cases hc : src.cli with
  | some v => rw [hc] at h; exact ⟨.cli, by simpa [sourceValue, hc] using h⟩
  | none =>
    rw [hc] at h
    cases he : envLookup R key src.env with
    | some v => rw [he] at h; exact ⟨.env, by simpa [sourceValue, he] using h⟩
    | none => rw [he] at h; exact ⟨.file, by simpa [sourceValue] using h⟩

theorem envKey_normal (pre : Bytes) (raw : Bytes) (c : Nat) (h : c ∈ envKey pre 95 46 raw) :
    c ≠ 95 ∧ ¬ (65 ≤ c ∧ c ≤ 90) := by
  unfold envKey lower at h
  simp only [List.map_map, List.mem_map] at h
  obtain ⟨x, _, hx⟩ := h
  simp only [Function.comp] at hx
  unfold toLowerB isUpper at hx
  subst hx
  split <;> split at * <;> simp_all <;> omega

theorem replaceEsc_no_esc (esc sep : Nat) (s : Bytes) (h : esc ∉ s) : replaceEsc esc sep s = s := by
  induction s with
  | nil => rfl
  | cons a t ih =>
    cases t with
    | nil => rfl
    | cons b rest =>
      unfold replaceEsc
      have ha : a ≠ esc := fun e => h (by simp [e])
      have : esc ∉ b :: rest := fun m => h (List.mem_cons_of_mem _ m)
      simp [ha, ih this]

theorem loadFull_order (fmts : List Bytes) (i : LoadIn) :
    loadFull [.configFile, .env, .cliSecret, .unmarshal, .movedKeys, .verbosity, .loggerFormat] fmts i =
      if i.badConfigFile then some "config-file" else
      if i.cliFlags.any isSecretFlag then some "cli-secret" else
      if i.unmarshalFails then some "unmarshal" else
      if i.movedKey then some "moved-keys" else
      if !i.verbosityOk then some "verbosity" else
      if !fmts.contains i.loggerFormat then some "loggerformat" else none := by
  simp only [loadFull, List.findSome?, stepFails]
  cases i.badConfigFile <;> cases (i.cliFlags.any isSecretFlag) <;> cases i.unmarshalFails <;> cases i.movedKey <;>
    cases i.verbosityOk <;> cases (fmts.contains i.loggerFormat) <;> rfl



theorem splitOn_mem (c : Nat) : ∀ (s p : Bytes), p ∈ splitOn c s → ∀ x ∈ p, x ∈ s := by
  intro s
  induction s with
  | nil => intro p hp x hx; simp [splitOn] at hp; subst hp; simp at hx
  | cons a xs ih =>
    intro p hp x hx
    unfold splitOn at hp
    by_cases hac : a = c
    · simp only [hac, if_true, List.mem_cons] at hp
      rcases hp with hp | hp
      · subst hp; simp at hx
      · exact List.mem_cons_of_mem _ (ih p hp x hx)
    · simp only [hac, if_false] at hp
      cases hs : splitOn c xs with
      | nil => rw [hs] at hp; simp at hp; subst hp; simp at hx; subst hx; simp
      | cons q qs =>
        rw [hs] at hp
        simp only [List.mem_cons] at hp
        rcases hp with hp | hp
        · subst hp
          simp only [List.mem_cons] at hx
          rcases hx with hx | hx
          · subst hx; simp
          · exact List.mem_cons_of_mem _ (ih q (by rw [hs]; simp) x hx)
        · exact List.mem_cons_of_mem _ (ih p (by rw [hs]; simp [hp]) x hx)


/-- a value without escape byte and without NUL is split like `strings.Split` -/
theorem splitWithEscaping_plain (sep esc : Nat) (s : Bytes) (h1 : esc ∉ s) (h0 : 0 ∉ s) :
    splitWithEscaping sep esc s = splitOn sep s := by
  unfold splitWithEscaping
  rw [replaceEsc_no_esc esc sep s h1]
  have : ∀ tok ∈ splitOn sep s, (tok.map fun c => if c = 0 then sep else c) = tok := by
    intro tok ht
    have hm := splitOn_mem sep s tok ht
    have : ∀ c ∈ tok, (if c = 0 then sep else c) = c := by
      intro c hc
      have : c ≠ 0 := fun e => h0 (e ▸ hm c hc)
      simp [this]
    rw [List.map_congr_left this]; simp
  rw [List.map_congr_left this]; simp



theorem startFiles_refines (tlds l2s : List Bytes) (c : Config) (f : TLSFiles) (hc : f.consistent = true) :
    startFiles (fun a b _ => decide (a > 0 ∨ b > 0)) tlds l2s c f = start tlds l2s { c with tls := decide (f.certLen > 0 ∨ f.keyLen > 0) } := by
  have hl : load { c with tls := decide (f.certLen > 0 ∨ f.keyLen > 0) } = load c := rfl
  have hst : storageConfigure { c with tls := decide (f.certLen > 0 ∨ f.keyLen > 0) } = storageConfigure c := rfl
  have hcr : cryptoConfigure { c with tls := decide (f.certLen > 0 ∨ f.keyLen > 0) } = cryptoConfigure c := rfl
  have hv : vdrConfigure tlds l2s { c with tls := decide (f.certLen > 0 ∨ f.keyLen > 0) } = vdrConfigure tlds l2s c := rfl
  have ha : authConfigure { c with tls := decide (f.certLen > 0 ∨ f.keyLen > 0) } = authConfigure c := rfl
  unfold TLSFiles.consistent at hc
  simp only [Bool.or_eq_true, Bool.and_eq_true, decide_eq_true_eq] at hc
  have hg : tlsLoad (fun a b _ => decide (a > 0 ∨ b > 0)) f = none := by
    unfold tlsLoad
    rcases hc with ⟨⟨⟨h1, h2⟩, h3⟩, h4⟩ | ⟨⟨h1, h2⟩, h3⟩
    · have e1 : f.certLen ≠ 0 := by omega
      have e2 : f.keyLen ≠ 0 := by omega
      have e3 : f.trustLen ≠ 0 := by omega
      simp [h1, h4, e1, e2, e3]
    · simp [h1, h2]
  have hn : networkConfigureFiles (fun a b _ => decide (a > 0 ∨ b > 0)) c f =
      networkConfigure { c with tls := decide (f.certLen > 0 ∨ f.keyLen > 0) } := by
    unfold networkConfigureFiles networkConfigure
    rw [hg]
  unfold startFiles start
  rw [hl, hst, hcr, hv, ha, hn, hg]
  rfl

theorem startFiles_ok (tlds l2s : List Bytes) (c : Config) (f : TLSFiles) (r : Running)
    (h : startFiles (fun a b _ => decide (a > 0 ∨ b > 0)) tlds l2s c f = .ok r) :
    (f.certLen > 0 ∧ f.keyLen > 0 ∧ f.trustLen > 0 ∧ f.valid = true) ∨ (f.certLen = 0 ∧ f.keyLen = 0 ∧ (c.strict = true → c.nuts = false)) := by
  unfold startFiles at h
  split at h <;> try (simp at h)
  split at h <;> try (simp at h)
  split at h <;> try (simp at h)
  split at h <;> try (simp at h)
  split at h <;> try (simp at h)
  split at h <;> try (simp at h)
  split at h <;> try (simp at h)
  rename_i _ _ _ _ _ _ _ _ _ hg _ hn _ _
  unfold tlsLoad at hg
  unfold networkConfigureFiles tlsLoad at hn
  by_cases a0 : f.certLen = 0 <;> by_cases b0 : f.keyLen = 0 <;> by_cases t0 : f.trustLen = 0 <;> cases hv : f.valid <;>
    cases hs : c.strict <;> cases hnn : c.nuts <;> simp_all <;> omega

end Nuts.C20
