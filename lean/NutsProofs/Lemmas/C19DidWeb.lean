import NutsModel.C19.DidWeb
namespace Nuts.C19.Lemmas
open Nuts Nuts.C19.DidWeb

theorem dw_char_three (c : Cfg) (x a b : Nat) :
    ∃ r, percentDecodeChar c [x, a, b] = .ok r ∧ (∀ ch, r = some ch → ch ∈ c.decodeSet) := by
  unfold percentDecodeChar
  have h3 : ([x, a, b].length != 3) = false := by simp
  rw [h3, Bool.and_false]
  simp only [Bool.false_eq_true, if_false]
  split
  · exact ⟨none, rfl, by intro ch h; cases h⟩
  · split
    · exact ⟨none, rfl, by intro ch h; cases h⟩
    · split
      · rename_i hc
        refine ⟨some _, rfl, ?_⟩
        intro ch h
        cases h
        exact List.contains_iff_mem.mp hc |> fun h => h
      · exact ⟨none, rfl, by intro ch h; cases h⟩

theorem dw_char_guarded (c : Cfg) (hg : c.charLenGuard = true) (enc : Bytes) :
    ∃ r, percentDecodeChar c enc = .ok r := by
  by_cases h : enc.length = 3
  · match enc, h with
    | [x, a, b], _ => obtain ⟨r, hr, _⟩ := dw_char_three c x a b; exact ⟨r, hr⟩
  · unfold percentDecodeChar
    have : (enc.length != 3) = true := by simp [bne_iff_ne, h]
    rw [hg, this]
    exact ⟨none, by simp⟩

theorem consOk_ok {x : Nat} {r : Res Bytes} {out : Bytes} (h : consOk x r = .ok out) :
    ∃ t, r = .ok t ∧ out = x :: t := by
  cases r <;> simp [consOk] at h
  exact ⟨_, rfl, h.symm⟩

theorem consOk_okv (x : Nat) (t : Bytes) : consOk x (.ok t) = .ok (x :: t) := rfl

theorem dw_from_nil (c : Cfg) (skip : Nat) : percentDecodeFrom c skip [] = .ok [] := by
  cases skip <;> rfl

/-- with the guard `i+n < len(s)`, n ≥ 2, percentDecodeString returns a string (no panic, no error) for every input -/
theorem dw_decode_from_ok (c : Cfg) (n : Nat) (hs : c.sliceGuard = some n) (hn : 2 ≤ n) :
    ∀ (s : Bytes) (skip : Nat), ∃ out, percentDecodeFrom c skip s = .ok out := by
  intro s
  induction s with
  | nil => intro skip; exact ⟨[], dw_from_nil c skip⟩
  | cons x rest ih =>
    intro skip
    cases skip with
    | succ k => simp only [percentDecodeFrom]; exact ih k
    | zero =>
      simp only [percentDecodeFrom]
      split
      · rename_i hcond
        have hlen : 2 ≤ rest.length := by
          simp [sliceGuardPasses, hs] at hcond; omega
        rw [if_neg (by omega)]
        match rest, hlen with
        | a :: b :: r', _ =>
          obtain ⟨r, hr, _⟩ := dw_char_three c x a b
          have ht : x :: (a :: b :: r').take 2 = [x, a, b] := rfl
          rw [ht, hr]
          cases r with
          | none => obtain ⟨t, ht⟩ := ih 0; exact ⟨x :: t, by simp only [ht, consOk_okv]⟩
          | some ch => obtain ⟨t, ht⟩ := ih 2; exact ⟨ch :: t, by simp only [ht, consOk_okv]⟩
      · obtain ⟨t, ht⟩ := ih 0; exact ⟨x :: t, by simp only [ht, consOk_okv]⟩

/-- whatever the guards: the output is never longer than the input (the loop makes progress on every byte) -/
theorem dw_decode_from_length (c : Cfg) :
    ∀ (s : Bytes) (skip : Nat) (out : Bytes), percentDecodeFrom c skip s = .ok out → out.length ≤ s.length := by
  intro s
  induction s with
  | nil => intro skip out h; rw [dw_from_nil] at h; cases h; simp
  | cons x rest ih =>
    intro skip out h
    cases skip with
    | succ k => simp only [percentDecodeFrom] at h; have := ih k out h; simp; omega
    | zero =>
      simp only [percentDecodeFrom] at h
      split at h
      · split at h
        · cases h
        · split at h
          · obtain ⟨t, ht, ho⟩ := consOk_ok h; have := ih 2 t ht; subst ho; simp; omega
          · obtain ⟨t, ht, ho⟩ := consOk_ok h; have := ih 0 t ht; subst ho; simp; omega
          · cases h
          · cases h
      · obtain ⟨t, ht, ho⟩ := consOk_ok h; have := ih 0 t ht; subst ho; simp; omega

/-- whatever the guards: every output byte is an input byte or a member of the decode set -/
theorem dw_decode_from_only_allowed (c : Cfg) :
    ∀ (s : Bytes) (skip : Nat) (out : Bytes), percentDecodeFrom c skip s = .ok out →
      ∀ y ∈ out, y ∈ s ∨ y ∈ c.decodeSet := by
  intro s
  induction s with
  | nil => intro skip out h; rw [dw_from_nil] at h; cases h; intro y hy; cases hy
  | cons x rest ih =>
    intro skip out h y hy
    cases skip with
    | succ k =>
      simp only [percentDecodeFrom] at h
      rcases ih k out h y hy with h1 | h1
      · exact Or.inl (List.mem_cons_of_mem _ h1)
      · exact Or.inr h1
    | zero =>
      simp only [percentDecodeFrom] at h
      have keep : ∀ t, percentDecodeFrom c 0 rest = .ok t → out = x :: t → y ∈ x :: rest ∨ y ∈ c.decodeSet := by
        intro t ht ho
        subst ho
        rcases List.mem_cons.mp hy with h1 | h1
        · exact Or.inl (by rw [h1]; exact List.mem_cons_self)
        · rcases ih 0 t ht y h1 with h2 | h2
          · exact Or.inl (List.mem_cons_of_mem _ h2)
          · exact Or.inr h2
      split at h
      · split at h
        · cases h
        · rename_i hlen
          match rest, hlen with
          | a :: b :: r', _ =>
            obtain ⟨r, hr, hmem⟩ := dw_char_three c x a b
            have ht : x :: (a :: b :: r').take 2 = [x, a, b] := rfl
            rw [ht, hr] at h
            cases r with
            | none =>
              obtain ⟨t, ht, ho⟩ := consOk_ok h
              exact keep t ht ho
            | some ch =>
              obtain ⟨t, ht, ho⟩ := consOk_ok h
              subst ho
              rcases List.mem_cons.mp hy with h1 | h1
              · exact Or.inr (by rw [h1]; exact hmem ch rfl)
              · rcases ih 2 t ht y h1 with h2 | h2
                · exact Or.inl (List.mem_cons_of_mem _ h2)
                · exact Or.inr h2
          | [_], hl => simp at hl
          | [], hl => simp at hl
      · obtain ⟨t, ht, ho⟩ := consOk_ok h
        exact keep t ht ho

theorem dw_unescape_from_nil (skip : Nat) : pathUnescapeFrom skip [] = some [] := by
  cases skip <;> rfl

/-- url.PathUnescape is the identity on a string without `%` -/
theorem dw_unescape_no_percent : ∀ (s : Bytes), 37 ∉ s → pathUnescapeFrom 0 s = some s := by
  intro s
  induction s with
  | nil => intro _; rfl
  | cons x rest ih =>
    intro h
    have hx : x ≠ 37 := fun e => h (by rw [e]; exact List.mem_cons_self)
    have hr : 37 ∉ rest := fun e => h (List.mem_cons_of_mem _ e)
    simp only [pathUnescapeFrom]
    rw [if_neg (by simpa using hx), ih hr]
    rfl

/-- DIDToURL never panics when percentDecodeString does not -/
theorem dw_target_no_panic (c : Cfg) (hd : ∀ s, ∃ out, percentDecode c s = .ok out) (method : String) (id : Bytes) (site : String) :
    didTarget c method id ≠ .panic site := by
  unfold didTarget
  split
  · intro h; cases h
  · simp only
    split
    · intro h; cases h
    · rename_i hp
      split at hp
      · cases hp
      · split at hp <;> cases hp
    · split
      · intro h; cases h
      · rename_i path _ _ uid _
        obtain ⟨out, ho⟩ := hd path
        rw [ho]
        intro h; cases h

end Nuts.C19.Lemmas
